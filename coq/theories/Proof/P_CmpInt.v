(* Proofs for Model/M_CmpInt.v: the int-int comparison helper of PyObjectCompare returns the
   mathematical comparison of the two values, for every operator, every pair of well-formed
   CPython ints (any number of digits), every supported configuration; no signed overflow. *)
From Coq Require Import ZArith List Bool Lia ZifyBool.
From CyVerif Require Import Lib.CInt Lib.PyLong Model.M_CmpInt.
Import ListNotations.
Open Scope Z_scope.

(* the configurations covered: digits fit Py_ssize_t with a bit to spare, and the two-digit
   join (taken when 2*sh <= width) does not reach the sign bit.  True for (30,64), (15,32),
   (15,64), (30,32). *)
Definition cfg_ok (c : icfg) : Prop :=
  1 <= i_sh c /\ i_sh c < i_ssz c /\ i_ssz c <> 2 * i_sh c /\ 1 <= i_llong c.

(* ---- digit strings ---- *)

Lemma mag_app sh l x : 0 <= sh ->
  mag sh (l ++ [x]) = mag sh l + 2 ^ (sh * Z.of_nat (length l)) * x.
Proof.
  intros Hsh. induction l as [|d l IH].
  - cbn [app mag length]. replace (sh * Z.of_nat 0) with 0 by lia. rewrite Z.pow_0_r. lia.
  - cbn [app mag length]. rewrite IH. rewrite Nat2Z.inj_succ, Z.mul_succ_r, Z.pow_add_r by nia.
    ring.
Qed.

Lemma firstn_snoc (l : list Z) : forall i, (i < length l)%nat ->
  firstn (S i) l = firstn i l ++ [nth i l 0].
Proof.
  induction l as [|d l IH]; intros i Hi; [cbn in Hi; lia|].
  destruct i as [|i]; [reflexivity|].
  cbn [length] in Hi. change (firstn (S (S i)) (d :: l)) with (d :: firstn (S i) l).
  rewrite IH by lia. reflexivity.
Qed.

Lemma nth_digit_ok sh l i : digits_ok sh l -> (i < length l)%nat -> 0 <= nth i l 0 < 2 ^ sh.
Proof.
  intros H Hi. unfold digits_ok in H. rewrite Forall_forall in H.
  apply (H (nth i l 0)). apply nth_In. exact Hi.
Qed.

Lemma pow_half_le sh w : 0 <= sh -> sh < w -> 2 ^ sh <= 2 ^ (w - 1).
Proof. intros. apply Z.pow_le_mono_r; lia. Qed.

Lemma small_in_range w v : 1 <= w -> - 2 ^ (w - 1) < v < 2 ^ (w - 1) -> in_range w true v.
Proof. intros Hw Hv. unfold in_range, min_int, max_int. lia. Qed.

Lemma sub_ss_small w a b : 1 <= w -> - 2 ^ (w - 1) < a - b < 2 ^ (w - 1) ->
  sub_ss w a b = Some (a - b).
Proof.
  intros Hw Hv. unfold sub_ss.
  assert (E : in_rangeb w true (a - b) = true) by (apply in_rangeb_spec, small_in_range; assumption).
  rewrite E. reflexivity.
Qed.

Lemma dcast_id sh w x i : 0 <= sh -> sh < w -> digits_ok sh (pl_digits x) ->
  (i < length (pl_digits x))%nat -> dcast w x i = digit x i /\ 0 <= digit x i < 2 ^ sh.
Proof.
  intros Hsh Hw Hok Hi. pose proof (nth_digit_ok sh _ i Hok Hi) as Hd.
  pose proof (pow_half_le sh w Hsh Hw) as Hp.
  unfold dcast, digit. split; [|exact Hd].
  apply wrap_id; [lia|]. apply small_in_range; lia.
Qed.

Lemma digit_loop_stop w a b k c : c <> 0 -> digit_loop w a b k c = Some c.
Proof.
  intros Hc. destruct k; [reflexivity|]. cbn [digit_loop].
  destruct (Z.eqb_spec c 0); [contradiction|reflexivity].
Qed.

(* what a magnitude comparison result must say *)
Definition cmp_says (w d ma mb : Z) : Prop :=
  (d < 0 <-> ma < mb) /\ (d = 0 <-> ma = mb) /\ - 2 ^ (w - 1) < d < 2 ^ (w - 1).

(* the digit loop started at index k-1 compares the numbers made of the k low digits *)
Lemma digit_loop_spec sh w a b : 0 <= sh -> sh < w ->
  digits_ok sh (pl_digits a) -> digits_ok sh (pl_digits b) ->
  length (pl_digits a) = length (pl_digits b) ->
  forall k, (k <= length (pl_digits a))%nat ->
  exists d, digit_loop w a b k 0 = Some d /\
            cmp_says w d (mag sh (firstn k (pl_digits a))) (mag sh (firstn k (pl_digits b))).
Proof.
  intros Hsh Hw Hoa Hob Hlen.
  pose proof (pow_half_le sh w Hsh Hw) as Hp.
  assert (P0 : 0 < 2 ^ (w - 1)) by (apply Z.pow_pos_nonneg; lia).
  induction k as [|i IH]; intros Hk.
  - exists 0. split; [reflexivity|]. cbn [firstn mag]. unfold cmp_says. lia.
  - cbn [digit_loop]. change (0 =? 0) with true. cbv iota.
    destruct (dcast_id sh w a i Hsh Hw Hoa ltac:(lia)) as [Ea Ha].
    destruct (dcast_id sh w b i Hsh Hw Hob ltac:(lia)) as [Eb Hb].
    rewrite Ea, Eb. rewrite sub_ss_small by lia.
    rewrite (firstn_snoc (pl_digits a) i) by lia.
    rewrite (firstn_snoc (pl_digits b) i) by lia.
    rewrite !mag_app by lia.
    rewrite !firstn_length_le by lia.
    fold (digit a i). fold (digit b i).
    pose proof (mag_nonneg sh _ (digits_ok_firstn sh i _ Hoa)) as La.
    pose proof (mag_nonneg sh _ (digits_ok_firstn sh i _ Hob)) as Lb.
    pose proof (mag_lt sh _ Hsh (digits_ok_firstn sh i _ Hoa)) as Ua.
    pose proof (mag_lt sh _ Hsh (digits_ok_firstn sh i _ Hob)) as Ub.
    rewrite !firstn_length_le in Ua, Ub by lia.
    set (P := 2 ^ (sh * Z.of_nat i)) in *.
    set (ma := mag sh (firstn i (pl_digits a))) in *.
    set (mb := mag sh (firstn i (pl_digits b))) in *.
    set (x := digit a i) in *. set (y := digit b i) in *.
    destruct (Z.eq_dec (x - y) 0) as [E0|N0].
    + rewrite E0. destruct (IH ltac:(lia)) as (d & Hd & S1 & S2 & S3).
      exists d. split; [exact Hd|]. assert (x = y) by lia. subst y.
      unfold cmp_says. lia.
    + rewrite digit_loop_stop by exact N0. exists (x - y). split; [reflexivity|].
      unfold cmp_says. split; [|split]; [nia|nia|lia].
Qed.

(* ---- sign and size ---- *)

Lemma signbits_cases sh x : 0 <= sh -> wf sh x ->
  (signbits x = 1 /\ pl_digits x = [] /\ pl_neg x = false /\ value sh x = 0) \/
  (signbits x = 0 /\ pl_digits x <> [] /\ pl_neg x = false /\ 0 < value sh x /\ value sh x = mag sh (pl_digits x)) \/
  (signbits x = 2 /\ pl_digits x <> [] /\ pl_neg x = true /\ value sh x < 0 /\ value sh x = - mag sh (pl_digits x)).
Proof.
  intros Hsh (Ok & La & Z0). unfold signbits, value.
  destruct (pl_digits x) as [|d r] eqn:E.
  - left. rewrite Z0 by reflexivity. cbn [mag]. repeat split; reflexivity.
  - right. pose proof (mag_pos sh (d :: r) Hsh Ok ltac:(congruence) La) as Hp.
    destruct (pl_neg x).
    + right. repeat split; try congruence; lia.
    + left. repeat split; try congruence; lia.
Qed.

Lemma shorter_smaller sh da db : 0 <= sh -> digits_ok sh da -> digits_ok sh db ->
  db <> [] -> last db 1 <> 0 -> (length da < length db)%nat -> mag sh da < mag sh db.
Proof.
  intros Hsh Ha Hb Hn Hl Hlen.
  pose proof (mag_lt sh da Hsh Ha) as U. pose proof (mag_ge sh db Hsh Hb Hn Hl) as L.
  assert (2 ^ (sh * Z.of_nat (length da)) <= 2 ^ (sh * (Z.of_nat (length db) - 1))).
  { apply Z.pow_le_mono_r; [lia|]. nia. }
  lia.
Qed.

(* __Pyx_PyLong_CompareSignAndSize: 0 = same sign and digit count; otherwise its sign orders
   the values *)
Lemma css_spec c a b : 0 <= i_sh c -> wf (i_sh c) a -> wf (i_sh c) b ->
  (css c a b = 0 -> pl_neg a = pl_neg b /\ length (pl_digits a) = length (pl_digits b)) /\
  (css c a b < 0 -> value (i_sh c) a < value (i_sh c) b) /\
  (0 < css c a b -> value (i_sh c) b < value (i_sh c) a).
Proof.
  intros Hsh Wa Wb.
  pose proof (signbits_cases _ a Hsh Wa) as Sa. pose proof (signbits_cases _ b Hsh Wb) as Sb.
  destruct Wa as (Oa & La & Za). destruct Wb as (Ob & Lb & Zb).
  assert (Na : ndigits a = 0 <-> pl_digits a = []).
  { unfold ndigits. destruct (pl_digits a); cbn [length]; split; intros; try congruence; lia. }
  assert (Nb : ndigits b = 0 <-> pl_digits b = []).
  { unfold ndigits. destruct (pl_digits b); cbn [length]; split; intros; try congruence; lia. }
  assert (Lt1 : (length (pl_digits a) < length (pl_digits b))%nat -> pl_digits b <> [] ->
                mag (i_sh c) (pl_digits a) < mag (i_sh c) (pl_digits b)).
  { intros H1 H2. apply shorter_smaller; assumption. }
  assert (Lt2 : (length (pl_digits b) < length (pl_digits a))%nat -> pl_digits a <> [] ->
                mag (i_sh c) (pl_digits b) < mag (i_sh c) (pl_digits a)).
  { intros H1 H2. apply shorter_smaller; assumption. }
  assert (Ea : pl_digits a = [] -> length (pl_digits a) = 0%nat) by (intros ->; reflexivity).
  assert (Eb : pl_digits b = [] -> length (pl_digits b) = 0%nat) by (intros ->; reflexivity).
  assert (Ga : pl_digits a <> [] -> (0 < length (pl_digits a))%nat).
  { destruct (pl_digits a); [congruence|cbn [length]; lia]. }
  assert (Gb : pl_digits b <> [] -> (0 < length (pl_digits b))%nat).
  { destruct (pl_digits b); [congruence|cbn [length]; lia]. }
  unfold css, tag, ssize. unfold ndigits in *.
  set (sa := signbits a) in *. set (sb := signbits b) in *.
  set (na := length (pl_digits a)) in *. set (nb := length (pl_digits b)) in *.
  set (va := value (i_sh c) a) in *. set (vb := value (i_sh c) b) in *.
  set (ma := mag (i_sh c) (pl_digits a)) in *. set (mb := mag (i_sh c) (pl_digits b)) in *.
  destruct (i_tag312 c).
  - destruct (Z.eqb_spec (8 * Z.of_nat na + sa) (8 * Z.of_nat nb + sb)) as [Et|Nt].
    + assert (sa = sb /\ na = nb) as [Es En] by lia.
      split; [|split]; [|lia|lia]. intros _. split; [|exact En].
      destruct Sa as [S|[S|S]], Sb as [T|[T|T]]; destruct S as (S1 & S2 & S3 & S4);
        destruct T as (T1 & T2 & T3 & T4); congruence || lia.
    + destruct (Z.ltb_spec sb sa) as [H1|H1]; [|destruct (Z.ltb_spec sa sb) as [H2|H2]].
      * split; [lia|]. split; [intros _|lia].
        destruct Sa as [S|[S|S]], Sb as [T|[T|T]]; lia.
      * split; [lia|]. split; [lia|intros _].
        destruct Sa as [S|[S|S]], Sb as [T|[T|T]]; lia.
      * assert (Es : sa = sb) by lia.
        destruct Sa as [S|[S|S]], Sb as [T|[T|T]]; try lia.
        -- (* both zero: the tags would be equal *)
           destruct S as (S1 & S2 & _), T as (T1 & T2 & _).
           specialize (Ea S2). specialize (Eb T2). lia.
        -- destruct S as (S1 & S2 & S3 & S4 & S5), T as (T1 & T2 & T3 & T4 & T5).
           rewrite S1. split; [intros Hz; exfalso; lia|].
           split; intros Hc.
           ++ assert ((na < nb)%nat) by lia. specialize (Lt1 H T2). lia.
           ++ assert ((nb < na)%nat) by lia. specialize (Lt2 H S2). lia.
        -- destruct S as (S1 & S2 & S3 & S4 & S5), T as (T1 & T2 & T3 & T4 & T5).
           rewrite S1. split; [intros Hz; exfalso; lia|].
           split; intros Hc.
           ++ assert ((nb < na)%nat) by lia. specialize (Lt2 H S2). lia.
           ++ assert ((na < nb)%nat) by lia. specialize (Lt1 H T2). lia.
  - destruct Sa as [S|[S|S]], Sb as [T|[T|T]];
      destruct S as (S1 & S2 & S3 & S4); destruct T as (T1 & T2 & T3 & T4);
      rewrite S3, T3.
    + specialize (Ea S2). specialize (Eb T2). split; [intros _; split; congruence|lia].
    + destruct T4 as [T4 T5]. specialize (Ea S2). specialize (Gb T2). lia.
    + destruct T4 as [T4 T5]. specialize (Ea S2). specialize (Gb T2). lia.
    + destruct S4 as [S4 S5]. specialize (Eb T2). specialize (Ga S2). lia.
    + destruct S4 as [S4 S5], T4 as [T4 T5].
      split; [intros Hz; split; [reflexivity|lia]|].
      split; intros Hc.
      * assert ((na < nb)%nat) by lia. specialize (Lt1 H T2). lia.
      * assert ((nb < na)%nat) by lia. specialize (Lt2 H S2). lia.
    + destruct S4 as [S4 S5], T4 as [T4 T5]. specialize (Ga S2). specialize (Gb T2). lia.
    + destruct S4 as [S4 S5]. specialize (Eb T2). specialize (Ga S2). lia.
    + destruct S4 as [S4 S5], T4 as [T4 T5]. specialize (Ga S2). specialize (Gb T2). lia.
    + destruct S4 as [S4 S5], T4 as [T4 T5].
      split; [intros Hz; split; [reflexivity|lia]|].
      split; intros Hc.
      * assert ((nb < na)%nat) by lia. specialize (Lt2 H S2). lia.
      * assert ((na < nb)%nat) by lia. specialize (Lt1 H T2). lia.
Qed.

Lemma is_neg_spec c x : 0 <= i_sh c -> wf (i_sh c) x -> is_neg c x = pl_neg x.
Proof.
  intros Hsh W. pose proof (signbits_cases _ x Hsh W) as S.
  unfold is_neg, ssize. destruct (i_tag312 c).
  - destruct S as [S|[S|S]]; destruct S as (S1 & S2 & S3 & _); rewrite S1, S3; reflexivity.
  - destruct S as [S|[S|S]]; destruct S as (S1 & S2 & S3 & _); rewrite S3.
    + unfold ndigits. rewrite S2. reflexivity.
    + unfold ndigits. lia.
    + unfold ndigits. destruct (pl_digits x); [congruence|]. cbn [length]. lia.
Qed.

(* ---- the magnitude comparison under `if (cmp == 0)` ---- *)

Lemma digit_cmp_spec c a b : cfg_ok c ->
  digits_ok (i_sh c) (pl_digits a) -> digits_ok (i_sh c) (pl_digits b) ->
  length (pl_digits a) = length (pl_digits b) ->
  exists d, digit_cmp c a b = Some d /\
            cmp_says (i_ssz c) d (mag (i_sh c) (pl_digits a)) (mag (i_sh c) (pl_digits b)).
Proof.
  intros (Hsh & Hw & Hne & _) Oa Ob Hlen.
  set (sh := i_sh c) in *. set (w := i_ssz c) in *.
  assert (Hsh0 : 0 <= sh) by lia.
  pose proof (pow_half_le sh w Hsh0 Hw) as Hp.
  assert (P0 : 0 < 2 ^ (w - 1)) by (apply Z.pow_pos_nonneg; lia).
  unfold digit_cmp. fold sh. fold w. unfold ndigits.
  destruct (pl_digits a) as [|x0 ra] eqn:Da.
  { destruct (pl_digits b) as [|y0 rb] eqn:Db; [|cbn in Hlen; lia].
    cbn [length]. change (0 <? Z.of_nat 0) with false. cbv iota.
    exists 0. split; [reflexivity|]. cbn [mag]. unfold cmp_says. lia. }
  destruct (pl_digits b) as [|y0 rb] eqn:Db; [cbn in Hlen; lia|].
  destruct (Z.ltb_spec 0 (Z.of_nat (length (x0 :: ra)))) as [_|H0]; [|cbn [length] in H0; lia].
  destruct (Z.eqb_spec (Z.of_nat (length (x0 :: ra))) 1) as [E1|N1].
  { (* one digit *)
    destruct ra; [|cbn [length] in E1; lia]. destruct rb; [|cbn [length] in Hlen; lia].
    destruct (dcast_id sh w a 0 Hsh0 Hw) as [Ea Ha]; [rewrite Da; exact Oa|rewrite Da; cbn; lia|].
    destruct (dcast_id sh w b 0 Hsh0 Hw) as [Eb Hb]; [rewrite Db; exact Ob|rewrite Db; cbn; lia|].
    rewrite Ea, Eb. unfold digit in *. rewrite Da, Db in *. cbn [nth] in *.
    rewrite sub_ss_small by lia. exists (x0 - y0). split; [reflexivity|].
    cbn [mag]. unfold cmp_says. lia. }
  destruct (Z.eqb_spec (Z.of_nat (length (x0 :: ra))) 2) as [E2|N2];
    [destruct (Z.leb_spec (2 * sh) w) as [G|G]|]; cbn [andb].
  - (* two digits joined in size_t *)
    assert (La : length (pl_digits a) = 2%nat) by (rewrite Da; lia).
    assert (Lb : length (pl_digits b) = 2%nat) by (rewrite Db; rewrite <- Hlen; lia).
    rewrite (join_c_exact w false sh 2 a) by (try rewrite Da; try assumption; lia).
    rewrite (join_c_exact w false sh 2 b) by (try rewrite Db; try assumption; lia).
    rewrite Da, Db.
    pose proof (mag_nonneg sh _ Oa) as A0. pose proof (mag_nonneg sh _ Ob) as B0.
    pose proof (mag_lt sh _ Hsh0 Oa) as A1. pose proof (mag_lt sh _ Hsh0 Ob) as B1.
    rewrite <- Hlen in B1.
    assert (Hq : 2 ^ (sh * Z.of_nat (length (x0 :: ra))) <= 2 ^ (w - 1)).
    { apply Z.pow_le_mono_r; lia. }
    set (ma := mag sh (x0 :: ra)) in *. set (mb := mag sh (y0 :: rb)) in *.
    rewrite !wrap_id by (try lia; apply small_in_range; lia).
    rewrite sub_ss_small by lia. exists (ma - mb). split; [reflexivity|].
    unfold cmp_says. lia.
  - (* two digits, join type too narrow: the loop *)
    destruct (digit_loop_spec sh w a b Hsh0 Hw) with (k := length (pl_digits a)) as (d & Hd & Sd);
      try (rewrite ?Da, ?Db; assumption); [lia|].
    rewrite Nat2Z.id. rewrite Da in Hd. exists d. split; [exact Hd|].
    rewrite Da, Db in Sd. rewrite Hlen in Sd at 2. rewrite !firstn_all in Sd. exact Sd.
  - destruct (digit_loop_spec sh w a b Hsh0 Hw) with (k := length (pl_digits a)) as (d & Hd & Sd);
      try (rewrite ?Da, ?Db; assumption); [lia|].
    rewrite Nat2Z.id. rewrite Da in Hd. exists d. split; [exact Hd|].
    rewrite Da, Db in Sd. rewrite Hlen in Sd at 2. rewrite !firstn_all in Sd. exact Sd.
Qed.

(* ---- the helper ---- *)

Lemma final_spec op cmp x y : cmp <> 0 -> (cmp < 0 <-> x < y) -> x <> y ->
  final op cmp = zop op x y.
Proof. intros H1 H2 H3. destruct op; cbn [final zop]; lia. Qed.

Lemma eqlege_spec op x : in_eqlege op = zop op x x.
Proof. destruct op; cbn [in_eqlege zop]; lia. Qed.

Lemma llong_ovf_spec lw v : 1 <= lw ->
  let r := as_llong_ovf lw v in
  (snd r = 0 /\ fst r = v /\ in_range lw true v) \/
  (snd r = -1 /\ v < min_int lw true) \/ (snd r = 1 /\ max_int lw true < v).
Proof.
  intros Hw. unfold as_llong_ovf.
  assert (P0 : 0 < 2 ^ (lw - 1)) by (apply Z.pow_pos_nonneg; lia).
  destruct (in_rangeb lw true v) eqn:E.
  - left. apply in_rangeb_spec in E. cbn [fst snd]. auto.
  - assert (N : ~ in_range lw true v) by (rewrite <- in_rangeb_spec; congruence).
    unfold in_range, min_int, max_int in *.
    destruct (Z.ltb_spec v 0); cbn [fst snd]; [right; left|right; right]; lia.
Qed.

(* MAIN: for every operator and every pair of well-formed ints the helper returns the
   comparison of the values, without undefined behaviour *)
Theorem intint_correct c rich op a b :
  cfg_ok c -> (forall o x y, rich o x y = zop o x y) ->
  wf (i_sh c) a -> wf (i_sh c) b ->
  cmp_intint c rich op a b = Some (zop op (value (i_sh c) a) (value (i_sh c) b)).
Proof.
  intros Hc Hrich Wa Wb. pose proof Hc as (Hsh & Hw & Hne & Hll).
  assert (Hsh0 : 0 <= i_sh c) by lia.
  unfold cmp_intint. destruct (i_internals c).
  - pose proof (css_spec c a b Hsh0 Wa Wb) as (C0 & C1 & C2).
    destruct (Z.eqb_spec (css c a b) 0) as [E|N].
    + destruct (C0 E) as [Hn Hlen].
      destruct (digit_cmp_spec c a b Hc (proj1 Wa) (proj1 Wb) Hlen) as (d & Hd & S1 & S2 & S3).
      rewrite Hd. rewrite (is_neg_spec c a Hsh0 Wa).
      unfold value. rewrite <- Hn.
      set (ma := mag (i_sh c) (pl_digits a)) in *. set (mb := mag (i_sh c) (pl_digits b)) in *.
      destruct (Z.eqb_spec d 0) as [D0|D0].
      * assert (ma = mb) by lia. replace mb with ma by assumption.
        f_equal. apply eqlege_spec.
      * destruct (pl_neg a).
        -- rewrite sub_ss_small by lia. f_equal. apply final_spec; lia.
        -- f_equal. apply final_spec; lia.
    + f_equal. apply final_spec; lia.
  - pose proof (llong_ovf_spec (i_llong c) (value (i_sh c) a) Hll) as La.
    pose proof (llong_ovf_spec (i_llong c) (value (i_sh c) b) Hll) as Lb.
    destruct (as_llong_ovf (i_llong c) (value (i_sh c) a)) as [v1 o1].
    destruct (as_llong_ovf (i_llong c) (value (i_sh c) b)) as [v2 o2].
    cbn [fst snd] in La, Lb. cbv zeta in La, Lb. cbn [fst snd] in La, Lb.
    set (va := value (i_sh c) a) in *. set (vb := value (i_sh c) b) in *.
    assert (P0 : 0 < 2 ^ (i_llong c - 1)) by (apply Z.pow_pos_nonneg; lia).
    unfold in_range, min_int, max_int in *.
    destruct (Z.eqb_spec o1 0) as [Z1|Z1]; destruct (Z.eqb_spec o2 0) as [Z2|Z2]; cbn [andb].
    + assert (v1 = va) by lia. assert (v2 = vb) by lia. subst v1 v2. reflexivity.
    + destruct (Z.eqb_spec o1 o2) as [E|E]; cbn [negb]; [lia|].
      f_equal. destruct op; cbn [zop]; lia.
    + destruct (Z.eqb_spec o1 o2) as [E|E]; cbn [negb]; [lia|].
      f_equal. destruct op; cbn [zop]; lia.
    + destruct (Z.eqb_spec o1 o2) as [E|E]; cbn [negb].
      * f_equal. apply Hrich.
      * f_equal. destruct op; cbn [zop]; lia.
Qed.

(* the dispatcher: two references to one object compare like the value with itself *)
Theorem exact_correct c rich op (same : bool) a b :
  cfg_ok c -> (forall o x y, rich o x y = zop o x y) ->
  wf (i_sh c) a -> wf (i_sh c) b -> (same = true -> a = b) ->
  cmp_exact c rich op same a b = Some (zop op (value (i_sh c) a) (value (i_sh c) b)).
Proof.
  intros Hc Hr Wa Wb Hs. unfold cmp_exact. destruct same.
  - rewrite (Hs eq_refl). f_equal. apply eqlege_spec.
  - apply intint_correct; assumption.
Qed.

(* by value: what the correspondence driver runs *)
Theorem values_correct c op (same : bool) x y :
  cfg_ok c -> (same = true -> x = y) -> cmp_values c op same x y = Some (zop op x y).
Proof.
  intros Hc Hs. unfold cmp_values. pose proof Hc as (Hsh & _).
  rewrite exact_correct; try assumption.
  - rewrite !value_of_Z by lia. reflexivity.
  - reflexivity.
  - apply wf_of_Z. lia.
  - apply wf_of_Z. lia.
  - intros E. rewrite (Hs E). reflexivity.
Qed.

Lemma cfg_ok_lp64_312 : cfg_ok lp64_312.   Proof. unfold cfg_ok; cbn; lia. Qed.
Lemma cfg_ok_lp64_311 : cfg_ok lp64_311.   Proof. unfold cfg_ok; cbn; lia. Qed.
Lemma cfg_ok_lp64_noint : cfg_ok lp64_noint. Proof. unfold cfg_ok; cbn; lia. Qed.
Lemma cfg_ok_ilp32_15 : cfg_ok ilp32_15.   Proof. unfold cfg_ok; cbn; lia. Qed.

(* the lowest digit matters: a loop that stops above index 0 is refuted by this pair *)
Lemma lowest_digit_decides :
  cmp_values lp64_312 OpEq false (2 ^ 60 + 1) (2 ^ 60 + 2) = Some false /\
  cmp_values lp64_312 OpLt false (2 ^ 60 + 1) (2 ^ 60 + 2) = Some true /\
  branch_values lp64_312 (2 ^ 60 + 1) (2 ^ 60 + 2) = (6, 3).
Proof. vm_compute. repeat split. Qed.
