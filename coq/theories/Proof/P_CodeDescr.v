(* Proofs for Model/M_CodeDescr.v (C25: code-object descriptions and inspect.signature). *)
From Coq Require Import ZArith NArith List Bool Lia ZifyBool Arith.
From CyVerif Require Import Model.M_CodeDescr.
Import ListNotations.
Open Scope Z_scope.

(* ------------------------------------------------------------------ *)
(* 1. bit lengths, maxima, bit-fields                                  *)
(* ------------------------------------------------------------------ *)

Lemma bitlen_nonneg : forall m, 0 <= bitlen m.
Proof.
  intro m. unfold bitlen. destruct (Z.leb_spec m 0); [lia|].
  pose proof (Z.log2_nonneg m). lia.
Qed.

Lemma bitlen_bound : forall v m, 0 <= v <= m -> v < 2 ^ bitlen m.
Proof.
  intros v m H. unfold bitlen. destruct (Z.leb_spec m 0) as [Hm|Hm].
  - assert (v = 0) by lia. subst. reflexivity.
  - pose proof (Z.log2_spec m Hm) as [_ Hs]. unfold Z.succ in Hs. lia.
Qed.

(* the width is also the least one: the maximum itself needs every bit *)
Lemma bitlen_tight : forall m, 0 < m -> 2 ^ (bitlen m - 1) <= m.
Proof.
  intros m Hm. unfold bitlen. destruct (Z.leb_spec m 0); [lia|].
  pose proof (Z.log2_spec m Hm) as [Hl _]. replace (Z.log2 m + 1 - 1) with (Z.log2 m) by lia. exact Hl.
Qed.

Lemma maxl_ge1 : forall l, 1 <= maxl l.
Proof. induction l as [|x l IH]; unfold maxl in *; cbn [fold_right]; lia. Qed.

Lemma maxl_ge : forall l x, In x l -> x <= maxl l.
Proof.
  induction l as [|y l IH]; intros x Hin; [destruct Hin|].
  unfold maxl in *. cbn [fold_right]. destruct Hin as [->|Hin]; [lia|]. specialize (IH x Hin). lia.
Qed.

(* the maximum is attained (or is the initial 1) *)
Lemma maxl_attained : forall l, maxl l = 1 \/ In (maxl l) l.
Proof.
  induction l as [|y l IH]; [left; reflexivity|].
  unfold maxl in *. cbn [fold_right].
  destruct (Z.max_spec y (fold_right Z.max 1 l)) as [[_ E]|[_ E]]; rewrite E.
  - destruct IH as [IH|IH]; [left; exact IH|right; right; exact IH].
  - right; left; reflexivity.
Qed.

Lemma store_field_small : forall w v, 0 <= v < 2 ^ w -> store_field w v = v.
Proof. intros. unfold store_field. apply Z.mod_small. assumption. Qed.

Lemma store_field_0 : forall w, store_field w 0 = 0.
Proof. intro w. unfold store_field. apply Zmod_0_l. Qed.

Lemma store_field_fits : forall v m, 0 <= v <= m -> store_field (bitlen m) v = v.
Proof. intros v m H. apply store_field_small. split; [lia|]. apply bitlen_bound. exact H. Qed.

Lemma store_field_in_max : forall (A : Type) (g : A -> Z) (l : list A) (x : A),
  In x l -> 0 <= g x -> store_field (bitlen (maxl (map g l))) (g x) = g x.
Proof.
  intros A g l x Hin Hnn. apply store_field_fits. split; [exact Hnn|].
  apply maxl_ge. apply in_map. exact Hin.
Qed.

Lemma zlen_nonneg : forall (A : Type) (l : list A), 0 <= zlen l.
Proof. intros. unfold zlen. lia. Qed.

Lemma flags_range : forall k a b, 0 <= flags_gen k a b < 2 ^ bitlen max_flags.
Proof. intros k a b. destruct k, a, b; vm_compute; split; congruence. Qed.

Lemma descr_ext : forall a b : descr,
  d_argcount a = d_argcount b -> d_posonly a = d_posonly b -> d_kwonly a = d_kwonly b ->
  d_nlocals a = d_nlocals b -> d_flags a = d_flags b -> d_line a = d_line b -> a = b.
Proof. intros [] []; cbn; intros; subst; reflexivity. Qed.

Lemma fkind_eqb_eq : forall a b, fkind_eqb a b = true <-> a = b.
Proof. intros a b; destruct a, b; cbn; split; congruence. Qed.

(* well-formed pieces *)
Lemma wf_line : forall f, wf_src f = true -> 0 <= s_line f.
Proof. intros f H. unfold wf_src in H. lia. Qed.
Lemma wf_synth : forall f, wf_src f = true -> 0 <= s_synth f.
Proof. intros f H. unfold wf_src in H. lia. Qed.
Lemma wf_suffix : forall f, wf_src f = true -> suffix_defaults (map snd (s_po f ++ s_pk f)) = true.
Proof. intros f H. unfold wf_src in H. lia. Qed.
Lemma wf_nodup : forall f, wf_src f = true -> nodupb (map fst (s_ko f)) = true.
Proof. intros f H. unfold wf_src in H. lia. Qed.
Lemma wf_genexpr : forall f, wf_src f = true -> s_kind f = KGenExpr ->
  s_po f = [] /\ s_pk f = [] /\ s_ko f = [] /\ s_star f = None /\ s_ss f = None.
Proof.
  intros f H K. unfold wf_src in H. rewrite K in H. cbn [fkind_eqb] in H.
  destruct (s_po f), (s_pk f), (s_ko f), (s_star f), (s_ss f); try (exfalso; lia).
  repeat split; reflexivity.
Qed.

(* ------------------------------------------------------------------ *)
(* 2. every description survives the module's struct                   *)
(* ------------------------------------------------------------------ *)

(* for every way of choosing the functions that are left out of the argument maxima, as long as
   only generator expressions are left out *)
Theorem descr_survives_gen : forall skip fs f,
  (forall k, skip k = true -> k = KGenExpr) ->
  In f fs -> wf_src f = true -> store (widths skip fs) (emitted f) = emitted f.
Proof.
  intros skip fs f Hskip Hin Hwf.
  assert (Hnl : store_field (d_nlocals (widths skip fs)) (d_nlocals (emitted f)) = d_nlocals (emitted f)).
  { cbn [widths emitted d_nlocals].
    apply (store_field_in_max fsrc (fun f => zlen (varnames f))); [exact Hin|apply zlen_nonneg]. }
  assert (Hli : store_field (d_line (widths skip fs)) (d_line (emitted f)) = d_line (emitted f)).
  { cbn [widths emitted d_line]. apply (store_field_in_max fsrc s_line); [exact Hin|apply wf_line; exact Hwf]. }
  assert (Hfl : store_field (d_flags (widths skip fs)) (d_flags (emitted f)) = d_flags (emitted f)).
  { cbn [widths emitted d_flags]. apply store_field_small. apply flags_range. }
  apply descr_ext; cbn [store d_argcount d_posonly d_kwonly d_nlocals d_flags d_line];
    try assumption.
  - (* argcount *)
    cbn [widths emitted d_argcount]. destruct (fkind_eqb (s_kind f) KGenExpr) eqn:EK.
    + apply fkind_eqb_eq in EK. destruct (wf_genexpr f Hwf EK) as (_ & _ & Hko & _).
      assert (E0 : num_kwonly f = 0) by (unfold num_kwonly; rewrite Hko; reflexivity).
      rewrite E0. change (0 - 0) with 0. apply store_field_0.
    + assert (Hc : In f (counted skip fs)).
      { unfold counted. apply filter_In. split; [exact Hin|].
        destruct (skip (s_kind f)) eqn:ES; [|reflexivity].
        apply Hskip in ES. apply fkind_eqb_eq in ES. congruence. }
      assert (Hnn : 0 <= num_args f - num_kwonly f).
      { unfold num_args, num_kwonly. rewrite EK.
        pose proof (zlen_nonneg _ (s_po f)). pose proof (zlen_nonneg _ (s_pk f)). lia. }
      apply (store_field_in_max fsrc (fun f => num_args f - num_kwonly f)); assumption.
  - (* posonly *)
    cbn [widths emitted d_posonly]. destruct (fkind_eqb (s_kind f) KGenExpr) eqn:EK.
    + apply fkind_eqb_eq in EK. destruct (wf_genexpr f Hwf EK) as (Hpo & _).
      assert (E0 : num_posonly f = 0) by (unfold num_posonly; rewrite Hpo; reflexivity).
      rewrite E0. apply store_field_0.
    + assert (Hc : In f (counted skip fs)).
      { unfold counted. apply filter_In. split; [exact Hin|].
        destruct (skip (s_kind f)) eqn:ES; [|reflexivity].
        apply Hskip in ES. apply fkind_eqb_eq in ES. congruence. }
      apply (store_field_in_max fsrc num_posonly); [exact Hc|apply zlen_nonneg].
  - (* kwonly *)
    cbn [widths emitted d_kwonly]. destruct (fkind_eqb (s_kind f) KGenExpr) eqn:EK.
    + apply fkind_eqb_eq in EK. destruct (wf_genexpr f Hwf EK) as (_ & _ & Hko & _).
      assert (E0 : num_kwonly f = 0) by (unfold num_kwonly; rewrite Hko; reflexivity).
      rewrite E0. apply store_field_0.
    + assert (Hc : In f (counted skip fs)).
      { unfold counted. apply filter_In. split; [exact Hin|].
        destruct (skip (s_kind f)) eqn:ES; [|reflexivity].
        apply Hskip in ES. apply fkind_eqb_eq in ES. congruence. }
      apply (store_field_in_max fsrc num_kwonly); [exact Hc|apply zlen_nonneg].
Qed.

Theorem descr_survives : forall fs f, In f fs -> wf_src f = true ->
  store (widths skip_genexpr fs) (emitted f) = emitted f.
Proof.
  intros. apply descr_survives_gen; try assumption.
  intros k Hk. unfold skip_genexpr in Hk. apply fkind_eqb_eq. exact Hk.
Qed.

(* the widths are the least possible: a field of width w > 1 holds a value needing w bits *)
Theorem widths_tight_argcount : forall fs,
  1 < d_argcount (widths skip_genexpr fs) ->
  exists f, In f fs /\ 2 ^ (d_argcount (widths skip_genexpr fs) - 1) <= d_argcount (emitted f).
Proof.
  intros fs H. cbn [widths d_argcount] in *.
  set (l := map (fun f => num_args f - num_kwonly f) (counted skip_genexpr fs)) in *.
  destruct (maxl_attained l) as [E|Hin].
  - rewrite E in H. vm_compute in H. discriminate.
  - unfold l in Hin. apply in_map_iff in Hin. destruct Hin as (f & Ef & Hf).
    unfold counted in Hf. apply filter_In in Hf. destruct Hf as [Hf Hs].
    exists f. split; [exact Hf|]. cbn [emitted d_argcount].
    unfold skip_genexpr in Hs. destruct (fkind_eqb (s_kind f) KGenExpr); [discriminate|].
    rewrite Ef. fold l. apply bitlen_tight. pose proof (maxl_ge1 l). lia.
Qed.

(* ------------------------------------------------------------------ *)
(* 3. the packed bit string                                             *)
(* ------------------------------------------------------------------ *)

Theorem pack_unpack : forall ws vs, length ws = length vs -> Forall (fun w => 0 <= w) ws ->
  unpack ws (pack ws vs) = map (fun wv => store_field (fst wv) (snd wv)) (combine ws vs).
Proof.
  induction ws as [|w ws IH]; intros vs Hlen Hw; [reflexivity|].
  destruct vs as [|v vs]; [discriminate|]. inversion Hw as [|? ? Hw0 Hws]; subst.
  cbn [pack unpack combine map fst snd].
  assert (Hp : 0 < 2 ^ w) by (apply Z.pow_pos_nonneg; lia).
  assert (Hm : 0 <= v mod 2 ^ w < 2 ^ w) by (apply Z.mod_pos_bound; exact Hp).
  f_equal.
  - unfold store_field. rewrite Z.mul_comm, Z_mod_plus_full. apply Z.mod_small. exact Hm.
  - rewrite <- IH by (try exact Hws; cbn in Hlen; lia). f_equal.
    rewrite Z.mul_comm, Z_div_plus_full by lia. rewrite (Z.div_small _ _ Hm). reflexivity.
Qed.

Lemma widths_nonneg : forall skip fs, Forall (fun w => 0 <= w) (fields (widths skip fs)).
Proof.
  intros. unfold fields. cbn [widths d_argcount d_posonly d_kwonly d_nlocals d_flags d_line].
  repeat (constructor; [apply bitlen_nonneg|]). constructor.
Qed.

(* what __Pyx_PyCode_New reads out of the struct are the numbers generate_codeobj wrote *)
Theorem packed_descr_survives : forall fs f, In f fs -> wf_src f = true ->
  unpack (fields (widths skip_genexpr fs)) (pack (fields (widths skip_genexpr fs)) (fields (emitted f)))
  = fields (emitted f).
Proof.
  intros fs f Hin Hwf. rewrite pack_unpack; [|reflexivity|apply widths_nonneg].
  rewrite <- (descr_survives fs f Hin Hwf) at 2. reflexivity.
Qed.

(* ------------------------------------------------------------------ *)
(* 4. inspect.signature of the resulting code object                    *)
(* ------------------------------------------------------------------ *)

Lemma forallb_some_map : forall l : list (option dflt), forallb is_some l = true -> l = map Some (somes l).
Proof.
  induction l as [|[d|] l IH]; cbn; intro H; [reflexivity| |discriminate].
  f_equal. apply IH. exact H.
Qed.

Lemma combine_fst_snd : forall (A B : Type) (l : list (A * B)), combine (map fst l) (map snd l) = l.
Proof. induction l as [|[a b] l IH]; cbn; [reflexivity|]. f_equal. exact IH. Qed.

(* a parameter list with defaults on a suffix splits into the part without and the part with *)
Lemma suffix_split : forall P : list param, suffix_defaults (map snd P) = true ->
  exists P1 P2, P = P1 ++ P2 /\ P1 = map (fun n => (n, None)) (map fst P1)
                /\ map snd P2 = map Some (somes (map snd P)).
Proof.
  induction P as [|[n [d|]] P IH]; intro H.
  - exists [], []. repeat split.
  - exists [], ((n, Some d) :: P). cbn [map snd somes app]. repeat split.
    f_equal. cbn [suffix_defaults map snd] in H. apply forallb_some_map. exact H.
  - cbn [suffix_defaults map snd] in H. destruct (IH H) as (P1 & P2 & E & E1 & E2).
    exists ((n, None) :: P1), P2. cbn [map fst snd somes app]. repeat split.
    + f_equal. exact E.
    + f_equal. exact E1.
    + exact E2.
Qed.

Lemma firstn_len_app : forall (A : Type) (l1 l2 : list A), firstn (length l1) (l1 ++ l2) = l1.
Proof.
  intros. rewrite firstn_app, Nat.sub_diag, firstn_all. cbn. apply app_nil_r.
Qed.

Lemma skipn_len_app : forall (A : Type) (l1 l2 : list A), skipn (length l1) (l1 ++ l2) = l2.
Proof.
  intros. rewrite skipn_app, Nat.sub_diag, skipn_all. reflexivity.
Qed.

Lemma firstn_map_app : forall (A B : Type) (f : A -> B) (l : list A) (r : list B),
  firstn (length l) (map f l ++ r) = map f l.
Proof. intros. rewrite <- (map_length f l). apply firstn_len_app. Qed.

Lemma skipn_map_app : forall (A B : Type) (f : A -> B) (l : list A) (r : list B),
  skipn (length l) (map f l ++ r) = r.
Proof. intros. rewrite <- (map_length f l). apply skipn_len_app. Qed.

Lemma ploop_split : forall po pk, ploop (po ++ pk) (length po) = map (tag POnly) po ++ map (tag PosOrKw) pk.
Proof.
  induction po as [|p po IH]; intro pk.
  - cbn [app length map]. induction pk as [|q pk IHk]; [reflexivity|].
    cbn [ploop map pred]. f_equal. exact IHk.
  - cbn [app length ploop map pred]. f_equal. apply IH.
Qed.

Lemma existsb_eqb_false : forall (n : N) l, existsb (N.eqb n) l = false -> ~ In n l.
Proof.
  intros n l H Hin. assert (existsb (N.eqb n) l = true); [|congruence].
  apply existsb_exists. exists n. split; [exact Hin|apply N.eqb_refl].
Qed.

Lemma lookup_notin : forall n K, ~ In n (map fst K) -> lookup n (kwd_of K) = None.
Proof.
  induction K as [|[m [d|]] K IH]; cbn [kwd_of lookup map fst In]; intro H; [reflexivity| |].
  - destruct (N.eqb_spec n m); [exfalso; apply H; left; congruence|]. apply IH. tauto.
  - apply IH. tauto.
Qed.

Lemma kw_params_ok : forall K, nodupb (map fst K) = true ->
  map (fun n => (n, KwOnly, lookup n (kwd_of K))) (map fst K) = map (tag KwOnly) K.
Proof.
  induction K as [|[m d] K IH]; intro H; [reflexivity|].
  cbn [map fst nodupb] in H. apply andb_prop in H. destruct H as [Hn Hd].
  apply negb_true_iff in Hn. apply existsb_eqb_false in Hn.
  cbn [map fst]. f_equal.
  - unfold tag. cbn [fst snd]. f_equal. destruct d as [d|]; cbn [kwd_of lookup].
    + rewrite N.eqb_refl. reflexivity.
    + apply lookup_notin. exact Hn.
  - rewrite <- (IH Hd). apply map_ext_in. intros n Hin. f_equal.
    destruct d as [d|]; cbn [kwd_of lookup]; [|reflexivity].
    destruct (N.eqb_spec n m); [subst; contradiction|reflexivity].
Qed.

Lemma testbit_flags : forall k a b,
  Z.testbit (flags_gen k a b) 2 = a /\ Z.testbit (flags_gen k a b) 3 = b.
Proof. intros k a b. destruct k, a, b; vm_compute; split; reflexivity. Qed.

Lemma to_nat_zlen : forall (A : Type) (l : list A), Z.to_nat (zlen l) = length l.
Proof. intros. unfold zlen. apply Nat2Z.id. Qed.

Lemma to_nat_zlen2 : forall (A B : Type) (l1 : list A) (l2 : list B),
  Z.to_nat (zlen l1 + zlen l2) = (length l1 + length l2)%nat.
Proof. intros. unfold zlen. lia. Qed.

(* the code object built from the numbers as written, for any positional list P = po ++ pk *)
Lemma sig_core : forall (po pk K : list param) (st ss : option name) (locals : list name)
                        (k : fkind) (nl ln : Z),
  suffix_defaults (map snd (po ++ pk)) = true -> nodupb (map fst K) = true ->
  sig_of_code {| co_argcount := zlen po + zlen pk; co_posonlyargcount := zlen po;
                 co_kwonlyargcount := zlen K; co_nlocals := nl;
                 co_flags := flags_gen k (is_some st) (is_some ss); co_firstlineno := ln;
                 co_varnames := map fst po ++ map fst pk ++ map fst K
                                ++ opt_list (fun n => n) st ++ opt_list (fun n => n) ss ++ locals |}
              (somes (map snd (po ++ pk))) (kwd_of K)
  = SigOk (map (tag POnly) po ++ map (tag PosOrKw) pk
           ++ opt_list (fun n => (n, VarPos, None)) st
           ++ map (tag KwOnly) K
           ++ opt_list (fun n => (n, VarKw, None)) ss).
Proof.
  intros po pk K st ss locals k nl ln Hsuf Hnd.
  set (P := po ++ pk) in *.
  set (rest := opt_list (fun n => n) st ++ opt_list (fun n => n) ss ++ locals).
  assert (EV : map fst po ++ map fst pk ++ map fst K ++ rest = map fst P ++ map fst K ++ rest).
  { unfold P. rewrite map_app, <- app_assoc. reflexivity. }
  assert (EL : zlen po + zlen pk = zlen P).
  { unfold P, zlen. rewrite app_length. lia. }
  unfold sig_of_code.
  cbn [co_argcount co_posonlyargcount co_kwonlyargcount co_flags co_varnames].
  fold rest. rewrite EV, EL.
  destruct (testbit_flags k (is_some st) (is_some ss)) as [T2 T3]. rewrite T2, T3.
  pose proof (zlen_nonneg _ P) as HP0.
  (* positional *)
  assert (Epos : py_upto (zlen P) (map fst P ++ map fst K ++ rest) = map fst P).
  { unfold py_upto. destruct (Z.ltb_spec (zlen P) 0); [lia|]. unfold zfirstn.
    rewrite to_nat_zlen. apply firstn_map_app. }
  rewrite Epos.
  (* keyword-only *)
  assert (Ekw : zfirstn (zlen K) (zskipn (zlen P) (map fst P ++ map fst K ++ rest)) = map fst K).
  { unfold zfirstn, zskipn. rewrite !to_nat_zlen.
    rewrite skipn_map_app. apply firstn_map_app. }
  rewrite Ekw.
  (* defaults *)
  destruct (suffix_split P Hsuf) as (P1 & P2 & EP & EP1 & EP2).
  set (ds := somes (map snd P)) in *.
  assert (Hlen2 : length P2 = length ds).
  { assert (E : length (map snd P2) = length (map Some ds)) by (rewrite EP2; reflexivity).
    rewrite !map_length in E. exact E. }
  assert (Hnd0 : zlen P - zlen ds = zlen P1).
  { unfold zlen. rewrite EP, app_length. lia. }
  rewrite Hnd0.
  assert (Epart : map (fun n => (n, None)) (py_upto (zlen P1) (map fst P))
                  ++ combine (py_from (zlen P1) (map fst P)) (map Some ds) = P).
  { unfold py_upto, py_from. pose proof (zlen_nonneg _ P1).
    destruct (Z.ltb_spec (zlen P1) 0); [lia|]. unfold zfirstn, zskipn. rewrite to_nat_zlen.
    rewrite EP at 1 2. rewrite map_app.
    rewrite firstn_map_app, skipn_map_app. rewrite <- EP2, combine_fst_snd.
    rewrite EP. f_equal. symmetry. exact EP1. }
  rewrite Epart.
  assert (Eploop : ploop P (Z.to_nat (zlen po)) = map (tag POnly) po ++ map (tag PosOrKw) pk).
  { rewrite to_nat_zlen. unfold P. apply ploop_split. }
  rewrite Eploop.
  (* *args / **kwargs names *)
  assert (Eidx : Z.to_nat (zlen P + zlen K) = length (map fst P ++ map fst K)).
  { rewrite to_nat_zlen2, app_length, !map_length. reflexivity. }
  rewrite Eidx. rewrite (app_assoc (map fst P) (map fst K) rest).
  pose proof (kw_params_ok K Hnd) as EKW.
  unfold sigparam, param, name, dflt in EKW |- *. rewrite EKW. clear EKW.
  unfold rest.
  destruct st as [sn|], ss as [kn|]; cbn [is_some opt_list app].
  - rewrite !nth_error_app2 by lia. rewrite Nat.sub_succ_l by lia. rewrite !Nat.sub_diag.
    cbn [nth_error]. rewrite <- !app_assoc. reflexivity.
  - rewrite nth_error_app2 by lia. rewrite Nat.sub_diag. cbn [nth_error].
    rewrite <- !app_assoc. rewrite app_nil_r. reflexivity.
  - rewrite nth_error_app2 by lia. rewrite Nat.sub_diag. cbn [nth_error].
    rewrite <- !app_assoc. reflexivity.
  - rewrite <- !app_assoc. rewrite app_nil_r. reflexivity.
Qed.

Lemma firstn_zlen_all : forall (A : Type) (l : list A), firstn (Z.to_nat (zlen l)) l = l.
Proof. intros. rewrite to_nat_zlen. apply firstn_all. Qed.

(* inspect.signature() of every compiled function of every module lists exactly the declared
   parameters: names, kinds and default values *)
Theorem signature_faithful : forall fs f, In f fs -> wf_src f = true -> s_kind f <> KGenExpr ->
  compiled_sig skip_genexpr fs f = SigOk (source_sig f).
Proof.
  intros fs f Hin Hwf Hk. unfold compiled_sig, code_of.
  rewrite (descr_survives fs f Hin Hwf).
  unfold code_of_descr. cbn [emitted d_argcount d_posonly d_kwonly d_nlocals d_flags d_line].
  rewrite firstn_zlen_all.
  assert (EK : fkind_eqb (s_kind f) KGenExpr = false).
  { destruct (fkind_eqb (s_kind f) KGenExpr) eqn:E; [|reflexivity]. apply fkind_eqb_eq in E. contradiction. }
  unfold num_args, num_kwonly, num_posonly. rewrite EK.
  replace (zlen (s_po f) + zlen (s_pk f) + zlen (s_ko f) - zlen (s_ko f)) with (zlen (s_po f) + zlen (s_pk f)) by lia.
  unfold varnames, flags_of, defaults_of, kwdefaults_of, source_sig.
  apply sig_core; [apply wf_suffix; exact Hwf|apply wf_nodup; exact Hwf].
Qed.

(* the counts themselves: the code object carries the declared numbers and flags *)
Theorem code_counts_faithful : forall fs f, In f fs -> wf_src f = true -> s_kind f <> KGenExpr ->
  let c := code_of skip_genexpr fs f in
  co_argcount c = zlen (s_po f) + zlen (s_pk f) /\ co_posonlyargcount c = zlen (s_po f) /\
  co_kwonlyargcount c = zlen (s_ko f) /\ co_flags c = flags_of f /\ co_firstlineno c = s_line f /\
  co_varnames c = varnames f.
Proof.
  intros fs f Hin Hwf Hk c. unfold c, code_of. rewrite (descr_survives fs f Hin Hwf).
  unfold code_of_descr. cbn [emitted d_argcount d_posonly d_kwonly d_nlocals d_flags d_line
    co_argcount co_posonlyargcount co_kwonlyargcount co_flags co_firstlineno co_varnames].
  assert (EK : fkind_eqb (s_kind f) KGenExpr = false).
  { destruct (fkind_eqb (s_kind f) KGenExpr) eqn:E; [|reflexivity]. apply fkind_eqb_eq in E. contradiction. }
  unfold num_args, num_kwonly, num_posonly. rewrite EK. rewrite firstn_zlen_all.
  repeat split; lia.
Qed.

(* ------------------------------------------------------------------ *)
(* 5. the variant that leaves every generator out of the maxima          *)
(* ------------------------------------------------------------------ *)

Theorem skip_generators_refuted :
  In w_gen w_module /\ wf_src w_gen = true /\ wf_src w_plain = true /\
  survives skip_generators w_module w_gen = false /\
  compiled_sig skip_generators w_module w_gen <> SigOk (source_sig w_gen) /\
  compiled_sig skip_genexpr w_module w_gen = SigOk (source_sig w_gen).
Proof.
  split; [right; left; reflexivity|].
  split; [reflexivity|]. split; [reflexivity|]. split; [vm_compute; reflexivity|].
  split; [vm_compute; intro H; discriminate H|vm_compute; reflexivity].
Qed.
