(* C22 -- the temp-level code (M_ExcVars.annot / exec_a: exc_vars resolved at generation time,
   one store of temps) computes what the structural scheme M_Exc.exec_sch computes with its single
   run-time field cur; hence (P_Exc) what CPython computes.  Induction on the statement for every
   generation-time exc_vars value ev and every counter n:
     - the temps named by ev were allocated before (ev_lt), the constructs generated from n on
       own temps >= n, so a statement only writes temps >= n and (ReraiseStatNode before its
       repair) the temps ev (frame);
     - cur of the scheme is the content of the temps ev (proj). *)
From Coq Require Import List Bool Arith Lia.
From CyVerif Require Import Model.M_Exc Model.M_ExcVars Proof.P_Exc.
Import ListNotations.

Scheme cstmt_mind' := Induction for cstmt Sort Prop
  with chandlers_mind' := Induction for chandlers Sort Prop.
Combined Scheme cstmt_chandlers_ind' from cstmt_mind', chandlers_mind'.

Ltac mono_step :=
  match goal with
  | H : forall keep ev n, n <= snd (annot keep ?s ev n) |- context [annot ?k ?s ?e ?m] =>
      let K := fresh "K" in
      pose proof (H k e m) as K; destruct (annot k s e m) as [? ?]; cbn [snd] in K
  | H : forall keep ev n, n <= snd (annot_h keep ?s ev n) |- context [annot_h ?k ?s ?e ?m] =>
      let K := fresh "K" in
      pose proof (H k e m) as K; destruct (annot_h k s e m) as [? ?]; cbn [snd] in K
  end.

Lemma annot_mono :
  (forall s keep ev n, n <= snd (annot keep s ev n)) /\
  (forall hs keep ev n, n <= snd (annot_h keep hs ev n)).
Proof.
  apply cstmt_chandlers_ind'; intros; cbn [annot annot_h]; repeat mono_step; cbn [snd]; lia.
Qed.

Definition proj (ev : option nat) (tm : temps) (c : state) : state :=
  set_cur (match ev with None => None | Some t => Some (tm t) end) c.
Definition ev_lt (ev : option nat) (n : nat) : Prop :=
  match ev with Some t => t < n | None => True end.
Definition frame (ev : option nat) (n : nat) (tm tm' : temps) : Prop :=
  forall i, i < n -> Some i <> ev -> tm' i = tm i.

Lemma frame_refl ev n tm : frame ev n tm tm.
Proof. intros i _ _; reflexivity. Qed.
Lemma frame_trans ev n n1 n2 tm tm1 tm2 :
  n <= n1 -> n <= n2 -> frame ev n1 tm tm1 -> frame ev n2 tm1 tm2 -> frame ev n tm tm2.
Proof. intros L1 L2 F1 F2 i Hi Hn. rewrite F2 by (auto; lia). apply F1; auto; lia. Qed.
Lemma frame_le ev n n1 tm tm1 : n <= n1 -> frame ev n1 tm tm1 -> frame ev n tm tm1.
Proof. intros L F i Hi Hn. apply F; auto; lia. Qed.
(* a construct with its own temps n, generated at counter n, whose part ran with exc_vars = own *)
Lemma own_frame ev n m tm tm1 v :
  ev_lt ev n -> n < m -> frame (Some n) m (tset tm n v) tm1 ->
  frame ev n tm tm1 /\ (forall t, ev = Some t -> tm1 t = tm t).
Proof.
  intros L Lm F.
  assert (A : forall i, i < n -> tm1 i = tm i).
  { intros i Hi. rewrite F by (try lia; intros [= ->]; lia).
    unfold tset. destruct (Nat.eqb_spec i n); [lia | reflexivity]. }
  split; [intros i Hi _; apply A; auto | intros t ->; apply A; exact L].
Qed.
Lemma proj_same ev tm tm' c :
  (forall t, ev = Some t -> tm' t = tm t) -> proj ev tm' c = proj ev tm c.
Proof. intros H. destruct ev as [t|]; [unfold proj; rewrite (H t eq_refl)|]; reflexivity. Qed.
Lemma proj_own n tm e c : 
  set_cur (Some (Some e)) c = proj (Some n) (tset tm n (Some e)) c.
Proof. unfold proj, tset. rewrite Nat.eqb_refl. reflexivity. Qed.
Lemma ev_lt_mono ev n n1 : n <= n1 -> ev_lt ev n -> ev_lt ev n1.
Proof. destruct ev; simpl; auto; lia. Qed.

(* result of the scheme vs result of the temp-level code (after a crash the states are garbage) *)
Definition sim (ev : option nat) (n : nat) (tm : temps) (r : oc * state) (ra : oc * state * temps) : Prop :=
  fst r = fst (fst ra) /\
  (fst (fst ra) <> OCrash ->
   snd r = proj ev (snd ra) (snd (fst ra)) /\ frame ev n tm (snd ra)).

Lemma sim_intro ev n tm o cs c' tm' :
  (o <> OCrash -> cs = proj ev tm' c' /\ frame ev n tm tm') ->
  sim ev n tm (o, cs) (o, c', tm').
Proof. intros H; split; [reflexivity | exact H]. Qed.

Lemma sim_weaken ev n tm tm1 r ra :
  frame ev n tm tm1 -> sim ev n tm1 r ra -> sim ev n tm r ra.
Proof.
  intros F [E H]. split; [exact E|]. intros NC. destruct (H NC) as [A B]. split; [exact A|].
  intros i Hi Hn. rewrite B by auto. apply F; auto.
Qed.

Lemma sim_crash ev n tm cs c' tm' : sim ev n tm (OCrash, cs) (OCrash, c', tm').
Proof. split; [reflexivity | intros F; exfalso; apply F; reflexivity]. Qed.

Lemma sim_elim ev n tm r o c' tm' :
  sim ev n tm r (o, c', tm') ->
  (o = OCrash /\ fst r = OCrash) \/
  (o <> OCrash /\ r = (o, proj ev tm' c') /\ frame ev n tm tm').
Proof.
  intros [E H]. cbn [fst snd] in *. destruct r as [o' cs]; cbn [fst snd] in *; subst o'.
  destruct o; try (right; split; [discriminate|];
    destruct H as [-> F]; [discriminate | split; [reflexivity | exact F]]).
  left; auto.
Qed.

Ltac pj := unfold proj, logst, lift, set_cur, set_top, set_co, set_wx, handled, cls_of in *; cbn [co top below cur wx] in *.

Section Sim.
Variables fx sx : bool.

Definition PS (s : cstmt) : Prop := forall ev n c tm, ev_lt ev n ->
  sim ev n tm (exec_sch fx sx s (proj ev tm c)) (exec_a fx sx (fst (annot false s ev n)) c tm).
Definition PH (hs : chandlers) : Prop := forall ev n c tm e saved, ev_lt ev n ->
  sim ev n tm (handle_sch fx sx hs e saved (proj ev tm c))
              (handle_a fx sx (fst (annot_h false hs ev n)) e saved c tm).

Lemma reraise_sim ev n c tm : ev_lt ev n ->
  sim ev n tm (reraise_sch fx (proj ev tm c)) (reraise_a fx ev c tm).
Proof.
  intros L. unfold reraise_sch, reraise_a. destruct ev as [t|]; cbn [proj set_cur cur].
  - unfold proj; cbn [cur set_cur]. destruct (tm t) as [e|] eqn:T.
    + apply sim_intro. intros _. destruct fx.
      * split; [unfold proj; rewrite T; reflexivity | apply frame_refl].
      * split.
        -- unfold proj, tset, set_cur; cbn. rewrite Nat.eqb_refl. reflexivity.
        -- intros i Hi Hn. unfold tset. destruct (Nat.eqb_spec i t); [subst; congruence | reflexivity].
    + apply sim_crash.
  - unfold proj; cbn [cur set_cur]. unfold reraise_dynamic.
    change (handled (set_cur None c)) with (handled c).
    destruct (handled c) as [e|].
    + apply sim_intro. intros _. split; [reflexivity | apply frame_refl].
    + unfold lift. change (handled (set_cur None c)) with (handled c).
      change (co (set_cur None c)) with (co c).
      destruct (raise_internal c_runtime (co c) (handled c)) as [o k].
      apply sim_intro. intros _. split; [reflexivity | apply frame_refl].
Qed.

Lemma lift_sim g ev n c tm :
  sim ev n tm (lift g (proj ev tm c)) (lift g c, tm).
Proof.
  unfold lift. change (handled (proj ev tm c)) with (handled c). change (co (proj ev tm c)) with (co c).
  destruct (g (co c) (handled c)) as [o k]. apply sim_intro. intros _.
  split; [reflexivity | apply frame_refl].
Qed.


(* destruct the annotation of the next sub-statement, keeping the equation and the counter fact *)
Ltac ann :=
  match goal with
  | |- context [annot false ?s ?e ?m] =>
      let K := fresh "K" in let E := fresh "E" in
      pose proof (proj1 annot_mono s false e m) as K;
      destruct (annot false s e m) as [?a ?n] eqn:E; cbn [snd] in K
  | |- context [annot_h false ?s ?e ?m] =>
      let K := fresh "K" in let E := fresh "E" in
      pose proof (proj2 annot_mono s false e m) as K;
      destruct (annot_h false s e m) as [?a ?n] eqn:E; cbn [snd] in K
  end.

Ltac ev_lt_tac := first [assumption | eapply ev_lt_mono; [|eassumption]; lia | simpl; lia].

(* crash case closed, the scheme's result rewritten in the other *)
Ltac split_sim Q :=
  let NC := fresh "NC" in let F := fresh "F" in let R := fresh "R" in
  destruct Q as [[-> R] | (NC & R & F)];
  [ match type of R with fst ?r = OCrash => destruct r as [?o' ?cs]; cbn [fst] in R; subst end;
    try apply sim_crash; try (cbn; apply sim_crash)
  | rewrite R ].
(* a sub-statement: IH instantiated, its temp-level result destructed, then split_sim *)
Ltac run IH E evv nn cc tt :=
  let L := fresh "L" in let Q := fresh "Q" in
  assert (L : ev_lt evv nn) by ev_lt_tac;
  pose proof (IH evv nn cc tt L) as Q; rewrite E in Q; cbn [fst] in Q;
  match type of Q with sim _ _ _ _ ?ra => destruct ra as [[?o ?c] ?tm] end;
  apply sim_elim in Q; split_sim Q.
Ltac runh IH E evv nn cc tt ee sv :=
  let L := fresh "L" in let Q := fresh "Q" in
  assert (L : ev_lt evv nn) by ev_lt_tac;
  pose proof (IH evv nn cc tt ee sv L) as Q; rewrite E in Q; cbn [fst] in Q;
  match type of Q with sim _ _ _ _ ?ra => destruct ra as [[?o ?c] ?tm] end;
  apply sim_elim in Q; split_sim Q.
Ltac frame_tac :=
  first [ apply frame_refl | assumption
        | eapply frame_le; [| eassumption]; lia
        | eapply frame_trans; [| | eassumption | eassumption]; lia
        | eapply frame_trans; [| | eapply frame_trans; [| | eassumption | eassumption]; lia | eassumption]; lia ].
Ltac done_sim := apply sim_intro; intros _; split; [ try reflexivity | frame_tac ].
Ltac nocrash := match goal with NC : OCrash <> OCrash |- _ => exfalso; apply NC; reflexivity end.

Lemma main_sim : (forall s, PS s) /\ (forall hs, PH hs).
Proof.
  apply cstmt_chandlers_ind'; unfold PS, PH; intros.
  - (* CSkip *) cbn. done_sim.
  - (* CLog *) cbn. done_sim.
  - (* CProbe *) cbn. done_sim.
  - (* CRaise *) cbn [annot fst exec_a exec_sch]. apply lift_sim.
  - (* CReraise *) cbn [annot fst exec_a exec_sch]. apply reraise_sim; auto.
  - (* CSeq *)
    cbn [annot]. do 2 ann. cbn [fst exec_a exec_sch].
    run H E ev n c tm.
    destruct o; try done_sim; try nocrash.
    run H0 E0 ev n0 c0 tm0. done_sim.
  - (* CTry *)
    cbn [annot]. do 3 ann. cbn [fst exec_a exec_sch].
    change (top (proj ev tm c)) with (top c). change (handled (proj ev tm c)) with (handled c).
    run H E ev n c tm.
    destruct o; try done_sim; try nocrash.
    + run H1 E0 ev n0 c0 tm0.
      destruct o; try done_sim; try nocrash.
    + runh H0 E1 ev n1 c0 tm0 e (if sx then top c else handled c). done_sim.
  - (* CFinally *)
    cbn [annot fin_exc_vars]. do 3 ann. cbn [fst exec_a exec_sch].
    run H E ev (S n) c tm.
    destruct o; try nocrash.
    + run H0 E0 ev n0 c0 tm0. done_sim.
    + destruct handle_error_case; [| done_sim].
      change (top (proj ev tm0 c0)) with (top c0).
      change (set_top (Some e) (proj ev tm0 c0)) with (proj ev tm0 (set_top (Some e) c0)).
      rewrite (proj_own n tm0 e).
      change (proj (Some n) (tset tm0 n (Some e)) (proj ev tm0 (set_top (Some e) c0)))
        with (proj (Some n) (tset tm0 n (Some e)) (set_top (Some e) c0)).
      run H0 E1 (Some n) n0 (set_top (Some e) c0) (tset tm0 n (Some e)).
      destruct (own_frame ev n n0 tm0 tm1 (Some e)) as [FA FB]; [ev_lt_tac | lia | assumption |].
      cbn [proj cur set_cur].
      destruct o; try nocrash.
      * destruct (tm1 n) as [e'|]; [| apply sim_crash].
        apply sim_intro; intros _; split; [| frame_tac].
        rewrite (proj_same ev tm0 tm1 _ FB). reflexivity.
      * apply sim_intro; intros _; split; [| frame_tac].
        rewrite (proj_same ev tm0 tm1 _ FB). reflexivity.
      * apply sim_intro; intros _; split; [| frame_tac].
        rewrite (proj_same ev tm0 tm1 _ FB). reflexivity.
      * apply sim_intro; intros _; split; [| frame_tac].
        rewrite (proj_same ev tm0 tm1 _ FB). reflexivity.
      * apply sim_intro; intros _; split; [| frame_tac].
        rewrite (proj_same ev tm0 tm1 _ FB). reflexivity.
    + run H0 E0 ev n0 c0 tm0. done_sim.
    + run H0 E0 ev n0 c0 tm0. done_sim.
    + run H0 E0 ev n0 c0 tm0. done_sim.
  - (* CLoop *)
    cbn [annot]. ann. cbn [fst exec_a exec_sch].
    match goal with |- sim _ _ _ (?ls ?k _) (?la ?k _ _) =>
      enough (G : forall i c1 tm1, sim ev n0 tm1 (ls i (proj ev tm1 c1)) (la i c1 tm1))
        by (apply G) end.
    induction i as [|i IHi]; intros c1 tm1.
    + done_sim.
    + run H E ev n0 c1 tm1.
      destruct o; try nocrash; try done_sim.
      * apply (sim_weaken ev n0 tm1 tm0); [assumption | apply IHi].
      * apply (sim_weaken ev n0 tm1 tm0); [assumption | apply IHi].
  - (* CReturn *) cbn. done_sim.
  - (* CBreak *) cbn. done_sim.
  - (* CContinue *) cbn. done_sim.
  - (* CDel *) cbn. done_sim.
  - (* CWithScope *)
    cbn [annot]. ann. cbn [fst exec_a exec_sch].
    change (wx (proj ev tm c)) with (wx c).
    change (set_wx true (logst (fun _ _ => EvEnter k) (proj ev tm c)))
      with (proj ev tm (set_wx true (logst (fun _ _ => EvEnter k) c))).
    run H E ev n (set_wx true (logst (fun _ _ => EvEnter k) c)) tm. done_sim.
  - (* CExitExc *)
    cbn [annot fst exec_a exec_sch].
    assert (A : match cur (proj ev tm c) with Some (Some e) => Some e | _ => None end =
                match ev with Some t => tm t | None => None end).
    { destruct ev as [t|]; cbn; [destruct (tm t)|]; reflexivity. }
    rewrite A.
    generalize (match ev with Some t => tm t | None => None end); intros arg.
    change (logst (ev_exit k arg) (set_wx false (proj ev tm c)))
      with (proj ev tm (logst (ev_exit k arg) (set_wx false c))).
    destruct x.
    + apply reraise_sim; auto.
    + done_sim.
    + apply lift_sim.
  - (* CExitNone *)
    cbn [annot fst exec_a exec_sch].
    change (wx (proj ev tm c)) with (wx c).
    destruct (wx c); [| done_sim].
    change (logst (ev_exit k None) (set_wx false (proj ev tm c)))
      with (proj ev tm (logst (ev_exit k None) (set_wx false c))).
    destruct x; try done_sim.
  - (* CHNil *) cbn. done_sim.
  - (* CHCons *)
    cbn [annot_h]. do 2 ann. cbn [fst handle_a handle_sch].
    change (cls_of (proj ev tm c) e) with (cls_of c e).
    destruct (pat_matches pat (cls_of c e)).
    + fold (needs_exception name body) in *.
      destruct (needs_exception name body).
      * rewrite (proj_own n tm e).
        change (proj (Some n) (tset tm n (Some e))
                  (set_co (bind_opt name e (co (proj ev tm c))) (set_top (Some e) (proj ev tm c))))
          with (proj (Some n) (tset tm n (Some e)) (set_co (bind_opt name e (co c)) (set_top (Some e) c))).
        run H E (Some n) (S n) (set_co (bind_opt name e (co c)) (set_top (Some e) c)) (tset tm n (Some e)).
        destruct (own_frame ev n (S n) tm tm0 (Some e)) as [FA FB]; [assumption | lia | assumption |].
        destruct o; try nocrash;
          (apply sim_intro; intros _; split; [| frame_tac];
           rewrite (proj_same ev tm tm0 _ FB); reflexivity).
      * run H E ev (S n) c tm.
        destruct o; try nocrash; done_sim.
    + runh H0 E0 ev n0 c tm e saved. done_sim.
Qed.

End Sim.

(* ---------- whole functions ---------- *)
(* the temp-level code of a function computes the scheme's result; the scheme's field cur plays no
   role at function level (exc_vars = None), so it is None in its final state *)
Theorem run_tmp_eq_run_sch : forall fx sx s h t b,
  fst (run_tmp false fx sx s h t b) = fst (run_sch fx sx s h t b) /\
  (fst (run_sch fx sx s h t b) <> OCrash ->
   run_sch fx sx s h t b =
   (fst (run_tmp false fx sx s h t b), set_cur None (snd (run_tmp false fx sx s h t b)))).
Proof.
  intros fx sx s h t b. unfold run_tmp, run_sch.
  pose proof (proj1 (main_sim fx sx) (desugar s) None 0 (init_state h t b) no_temps I) as Q.
  change (proj None no_temps (init_state h t b)) with (init_state h t b) in Q.
  destruct (exec_a fx sx (fst (annot false (desugar s) None 0)) (init_state h t b) no_temps)
    as [[o c'] tm'].
  apply sim_elim in Q. cbn [fst snd].
  destruct Q as [[-> R] | (NC & R & _)].
  - split; [symmetry; exact R | intros F; contradiction].
  - rewrite R. split; [reflexivity | intros _; reflexivity].
Qed.

(* hence the generated temps hold, at every bare raise, the exception CPython re-raises: same
   outcome, same chain fields, same log of probes, same sys.exc_info() afterwards *)
Theorem tmp_matches_reference : forall sx s h t b,
  same_obs (run_ref s h t b) (run_tmp false true sx s h t b).
Proof.
  intros sx s h t b.
  destruct (repaired_matches_reference sx s h t b) as (A & B & C).
  destruct (run_tmp_eq_run_sch true sx s h t b) as [E1 E2].
  assert (NC : fst (run_sch true sx s h t b) <> OCrash).
  { rewrite A. apply (proj1 ref_no_crash). }
  specialize (E2 NC). rewrite E2 in A, B, C. cbn [fst snd] in *.
  repeat split; assumption.
Qed.

(* the code region itself: a bare raise that is the finally clause, on the exception path,
   re-raises the exception that propagates through the statement -- whatever handler encloses
   the statement (any exc_vars value ev), in any machine state *)
Theorem reraise_in_finally_propagating : forall fx sx body ev n c tm e,
  fst (fst (exec_a fx sx (fst (annot false body ev (S n))) c tm)) = ORaise e ->
  fst (fst (exec_a fx sx (fst (annot false (CFinally true body CReraise) ev n)) c tm)) = ORaise e.
Proof.
  intros fx sx body ev n c tm e H. cbn [annot fin_exc_vars].
  destruct (annot false body ev (S n)) as [b' n1]. cbn [fst exec_a] in *.
  destruct (exec_a fx sx b' c tm) as [[o c1] tm1]. cbn [fst] in H. subst o.
  unfold reraise_a, tset. rewrite Nat.eqb_refl.
  destruct fx; reflexivity.
Qed.

(* ---------- the variant that keeps the enclosing handler's exc_vars ---------- *)
(* try: raise E3 / except: (try: raise E4 / finally: raise) *)
Definition fin_in_handler : stmt :=
  STry (SRaise (RNew 3) NoCause)
       (HCons None None (SFinally (SRaise (RNew 4) NoCause) SReraise) HNil) SSkip.

Theorem keep_outer_exc_vars_refuted :
  exists s h t b,
    fst (run_tmp true true true s h t b) = ORaise 0 /\   (* the handler's exception again *)
    fst (run_ref s h t b) = ORaise 1 /\                  (* CPython: the one propagating *)
    fst (run_tmp false true true s h t b) = ORaise 1.
Proof. exists fin_in_handler, [], None, None. vm_compute. auto. Qed.

(* the resolution differs exactly at the reader in the exception copy *)
Example resolve_fin_in_handler :
  resolve false fin_in_handler = [RBare (Some 0); RBare (Some 1)] /\
  resolve true fin_in_handler = [RBare (Some 0); RBare (Some 0)].
Proof. vm_compute. auto. Qed.
