(* Proofs about Model/M_Unpack.v: the generated unpacking code computes Python's unpacking. *)
From Coq Require Import ZArith List Bool Arith Lia.
From CyVerif Require Import Model.M_Unpack.
Import ListNotations.

(* what Python guarantees about values: an exact tuple/list stores exactly what it iterates over, ends
   with StopIteration, and its (private) iterator cannot be observed *)
Inductive wf : val -> Prop :=
| wf_atom : forall z, wf (VAtom z)
| wf_seq : forall h store items,
    (exactb (h_kind h) = true -> store = items /\ h_end h = EndStop /\ h_logs h = false) ->
    Forall wf items ->
    wf (VSeq h store items).

(* the static type the compiler inferred for the right-hand side is sound (None is a VAtom) *)
Definition st_ok (st : stype) (v : val) : Prop :=
  match st, v with
  | SList, VSeq h _ _ => h_kind h = KList
  | STuple, VSeq h _ _ => h_kind h = KTuple
  | _, _ => True
  end.

(* a tuple subclass that does not override __iter__ *)
Definition plain_tuplesub (v : val) : Prop :=
  match v with
  | VSeq h store items => h_kind h = KTupleSub -> store = items /\ h_end h = EndStop /\ h_logs h = false
  | VAtom _ => True
  end.

(* observable part of one unpacking step *)
Definition obs {E} (v : val) (r : nat * res E) : list event * res E := (emit v (fst r), snd r).

(* ------------------------------------------------------------------------------------------------ *)
(* lists                                                                                              *)
(* ------------------------------------------------------------------------------------------------ *)
Lemma skipn_nth_cons : forall (l : list val) a x,
  nth_error l a = Some x -> skipn a l = x :: skipn (S a) l.
Proof.
  induction l as [|y l IH]; intros [|a] x H; simpl in *; try discriminate.
  - injection H as ->. reflexivity.
  - apply IH. exact H.
Qed.

Lemma nth_error_lt_some : forall (l : list val) a, a < length l -> exists x, nth_error l a = Some x.
Proof.
  intros l a H. destruct (nth_error l a) eqn:E; [eauto|].
  apply nth_error_None in E. lia.
Qed.

Lemma collect_some : forall l, collect (map Some l) = Some l.
Proof. induction l as [|x l IH]; simpl; [reflexivity|]. rewrite IH. reflexivity. Qed.

Lemma index_seq : forall n (l : list val) a, a + n <= length l ->
  map (nth_error l) (seq a n) = map Some (firstn n (skipn a l)).
Proof.
  induction n as [|n IH]; intros l a H; [reflexivity|].
  destruct (nth_error_lt_some l a ltac:(lia)) as [x Hx].
  cbn [seq map]. rewrite (skipn_nth_cons _ _ _ Hx). cbn [firstn map]. rewrite Hx.
  f_equal. apply IH. lia.
Qed.

Lemma copy_items_all : forall store, copy_items store (length store) = Vals store.
Proof.
  intros store. unfold copy_items. rewrite index_seq by lia.
  cbn [skipn]. rewrite firstn_all, collect_some. reflexivity.
Qed.

(* the right targets read from the end, index len-(i+1) for i = 0..nr-1, are the last nr items reversed *)
Lemma rindex_spec : forall (rest : list val) nr, nr <= length rest ->
  map (fun i => nth_error rest (length rest - (i + 1))) (seq 0 nr)
  = map Some (rev (skipn (length rest - nr) rest)).
Proof.
  intros rest nr. induction nr as [|nr IH]; intros H.
  - rewrite Nat.sub_0_r, skipn_all. reflexivity.
  - rewrite seq_S, map_app, IH by lia. cbn [map Nat.add].
    destruct (nth_error_lt_some rest (length rest - S nr) ltac:(lia)) as [x Hx].
    rewrite (skipn_nth_cons _ _ _ Hx).
    replace (S (length rest - S nr)) with (length rest - nr) by lia.
    cbn [rev]. rewrite map_app. cbn [map].
    replace (length rest - (nr + 1)) with (length rest - S nr) by lia.
    rewrite Hx. reflexivity.
Qed.

Lemma skipn_skipn' : forall b a (l : list val), skipn a (skipn b l) = skipn (a + b) l.
Proof.
  induction b as [|b IH]; intros a l.
  - rewrite Nat.add_0_r. reflexivity.
  - rewrite Nat.add_succ_r. destruct l as [|x l]; [rewrite !skipn_nil; reflexivity|].
    cbn [skipn]. apply IH.
Qed.

Lemma gen_loop_spec : forall k i its acc,
  gen_loop k i its acc =
  if k <=? length its then LoopOk (rev acc ++ firstn k its) (skipn k its)
  else LoopShort (i + length its).
Proof.
  induction k as [|k IH]; intros i its acc.
  - cbn. rewrite app_nil_r. reflexivity.
  - destruct its as [|x r]; cbn [gen_loop].
    + cbn. rewrite Nat.add_0_r. reflexivity.
    + rewrite IH. cbn [length firstn skipn rev].
      change (S k <=? S (length r)) with (k <=? length r).
      destruct (k <=? length r).
      * rewrite <- app_assoc. reflexivity.
      * f_equal. lia.
Qed.

Lemma Forall_firstn_wf : forall n (l : list val), Forall wf l -> Forall wf (firstn n l).
Proof.
  induction n as [|n IH]; intros l H; [constructor|].
  destruct l as [|x l]; [constructor|]. inversion H; subst. cbn. constructor; auto.
Qed.

Lemma Forall_skipn_wf : forall n (l : list val), Forall wf l -> Forall wf (skipn n l).
Proof.
  induction n as [|n IH]; intros l H; [exact H|].
  destruct l as [|x l]; [constructor|]. inversion H; subst. cbn. auto.
Qed.

Lemma wf_new_list : forall l, Forall wf l -> wf (new_list l).
Proof. intros l H. constructor; [intros _; repeat split; reflexivity|exact H]. Qed.

(* ------------------------------------------------------------------------------------------------ *)
(* one level                                                                                          *)
(* ------------------------------------------------------------------------------------------------ *)
Lemma cy_generic_correct : forall h store items n,
  cy_generic h n items = map_res erase (ref_unpack n None (VSeq h store items)).
Proof.
  intros h store items n. unfold cy_generic, ref_unpack, map_res.
  rewrite gen_loop_spec. cbn [rev app fst snd Nat.add].
  destruct (Nat.leb_spec n (length items)) as [Hle|Hgt].
  - destruct (Nat.ltb_spec (length items) n) as [Hlt|_]; [lia|].
    destruct (Nat.eqb_spec (length items) n) as [Heq|Hne].
    + rewrite skipn_all2 by lia. rewrite firstn_all2 by lia. cbn [fst snd].
      rewrite Heq. destruct (h_end h); reflexivity.
    + pose proof (skipn_length n items) as Hs.
      destruct (skipn n items) as [|y rest]; [cbn in Hs; lia|]. reflexivity.
  - destruct (Nat.ltb_spec (length items) n) as [_|Hge]; [|lia].
    cbn [fst snd]. unfold iter_end. destruct (h_end h); reflexivity.
Qed.

Lemma cy_fast_correct : forall h items n,
  h_end h = EndStop ->
  snd (cy_fast n items) = snd (map_res erase (ref_unpack n None (VSeq h items items))).
Proof.
  intros h items n He. unfold cy_fast, ref_unpack, map_res. rewrite He. cbn [fst snd].
  destruct (Nat.eqb_spec (length items) n) as [Heq|Hne]; cbn [negb].
  - destruct (Nat.ltb_spec (length items) n) as [Hlt|_]; [lia|].
    cbn [snd]. rewrite <- Heq. apply copy_items_all.
  - destruct (Nat.ltb_spec n (length items)) as [Hlt|Hge];
      destruct (Nat.ltb_spec (length items) n) as [Hlt2|Hge2]; try lia; reflexivity.
Qed.

Lemma emit_nolog : forall h store items c, h_logs h = false -> emit (VSeq h store items) c = [].
Proof. intros h store items c H. unfold emit. rewrite H. reflexivity. Qed.

Lemma cy_par_correct : forall st n v, wf v -> st_ok st v ->
  obs v (cy_par st n v) = obs v (map_res erase (ref_unpack n None v)).
Proof.
  intros st n v Hwf Hst. destruct v as [z|h store items]; [reflexivity|].
  inversion Hwf as [|h' s' i' Hex Hit]; subst.
  unfold cy_par.
  assert (Hfast : (match st with SObj => exactb (h_kind h) | SList | STuple => true | SBuiltin => false end) = true
                  -> exactb (h_kind h) = true).
  { destruct st; cbn in Hst; try rewrite Hst; auto; discriminate. }
  destruct (match st with SObj => exactb (h_kind h) | SList | STuple => true | SBuiltin => false end).
  - destruct (Hex (Hfast eq_refl)) as (-> & He & Hl).
    unfold obs. rewrite !emit_nolog by exact Hl. f_equal. apply cy_fast_correct. exact He.
  - rewrite (cy_generic_correct h store items n). reflexivity.
Qed.

Lemma cy_star_correct : forall nl nr v, wf v ->
  obs v (cy_star nl nr v) = obs v (map_res erase (ref_unpack nl (Some nr) v)).
Proof.
  intros nl nr v Hwf. destruct v as [z|h store items]; [reflexivity|].
  inversion Hwf as [|h' s' i' Hex Hit]; subst.
  unfold cy_star, cy_star_g.
  assert (Hsrc : (if (nl =? 0) && exactb (h_kind h) then store else items) = items).
  { destruct (nl =? 0); cbn [andb]; [|reflexivity].
    destruct (exactb (h_kind h)) eqn:Ek; [|reflexivity]. destruct (Hex eq_refl) as (-> & _). reflexivity. }
  rewrite Hsrc. clear Hsrc. f_equal.
  unfold ref_unpack, map_res. rewrite gen_loop_spec. cbn [rev app fst snd Nat.add].
  destruct (Nat.leb_spec nl (length items)) as [Hle|Hgt].
  - destruct (Nat.ltb_spec (length items) nl) as [Hlt|_]; [lia|].
    rewrite skipn_length.
    replace (nl + S (length items - nl)) with (S (length items)) by lia.
    cbn [fst snd]. destruct (h_end h); [|reflexivity].
    destruct (Nat.ltb_spec (length items - nl) nr) as [Hs|Hs];
      destruct (Nat.ltb_spec (length items) (nl + nr)) as [Hs2|Hs2]; try lia.
    + cbn [erase]. do 3 f_equal. lia.
    + pose proof (rindex_spec (skipn nl items) nr) as R. rewrite skipn_length in R.
      rewrite R by lia. rewrite collect_some, rev_involutive, skipn_skipn'.
      replace (length items - nl - nr + nl) with (length items - nr) by lia.
      reflexivity.
  - destruct (Nat.ltb_spec (length items) nl) as [_|Hge]; [|lia].
    cbn [fst snd]. unfold iter_end. destruct (h_end h); reflexivity.
Qed.

Theorem cy_unpack_correct : forall st nl star v, wf v -> st_ok st v ->
  obs v (cy_unpack st nl star v) = obs v (map_res erase (ref_unpack nl star v)).
Proof.
  intros st nl [nr|] v Hwf Hst; cbn [cy_unpack].
  - apply cy_star_correct. exact Hwf.
  - apply cy_par_correct; assumption.
Qed.

(* the off-by-one variant of the length guard is wrong exactly at the boundary: a, *b, c = [1, 2] *)
Theorem cy_star_guard_tight : exists nl nr v, wf v /\
  snd (cy_star_g true nl nr v) <> snd (map_res erase (ref_unpack nl (Some nr) v)).
Proof.
  exists 1, 1, (new_list [VAtom 1; VAtom 2]). split.
  - apply wf_new_list. repeat constructor.
  - cbv. discriminate.
Qed.

Definition nvals (nl : nat) (star : option nat) : nat :=
  nl + match star with None => 0 | Some nr => S nr end.

Lemma ref_unpack_length : forall nl star v c vals,
  ref_unpack nl star v = (c, Vals vals) -> length vals = nvals nl star.
Proof.
  intros nl star v c vals H. destruct v as [z|h store items]; [discriminate|].
  unfold ref_unpack, nvals in *. destruct star as [nr|].
  - destruct (Nat.ltb_spec (length items) nl) as [Hlt|Hge].
    + destruct (h_end h); discriminate.
    + destruct (h_end h); [|discriminate].
      destruct (Nat.ltb_spec (length items) (nl + nr)) as [Hlt2|Hge2]; [discriminate|].
      injection H as _ <-. rewrite app_length. cbn [length]. rewrite firstn_length, skipn_length. lia.
  - destruct (Nat.ltb_spec (length items) nl) as [Hlt|Hge].
    + destruct (h_end h); discriminate.
    + destruct (Nat.eqb_spec (length items) nl) as [Heq|Hne]; [|discriminate].
      destruct (h_end h); [|discriminate]. injection H as _ <-. lia.
Qed.

Lemma ref_unpack_wf : forall nl star v c vals, wf v ->
  ref_unpack nl star v = (c, Vals vals) -> Forall wf vals.
Proof.
  intros nl star v c vals Hwf H. destruct v as [z|h store items]; [discriminate|].
  inversion Hwf as [|h' s' i' Hex Hit]; subst.
  unfold ref_unpack in H. destruct star as [nr|].
  - destruct (length items <? nl); [destruct (h_end h); discriminate|].
    destruct (h_end h); [|discriminate].
    destruct (length items <? nl + nr); [discriminate|].
    injection H as _ <-. apply Forall_app. split; [apply Forall_firstn_wf; exact Hit|].
    constructor; [|apply Forall_skipn_wf; exact Hit].
    apply wf_new_list, Forall_firstn_wf, Forall_skipn_wf. exact Hit.
  - destruct (length items <? nl); [destruct (h_end h); discriminate|].
    destruct (length items =? nl); [|discriminate].
    destruct (h_end h); [|discriminate]. injection H as _ <-. exact Hit.
Qed.

(* the starred target is always bound to a new exact list *)
Theorem starred_is_new_list : forall st nl nr v c vals, wf v -> st_ok st v ->
  cy_unpack st nl (Some nr) v = (c, Vals vals) -> exists l, nth_error vals nl = Some (new_list l).
Proof.
  intros st nl nr v c vals Hwf Hst H.
  pose proof (cy_unpack_correct st nl (Some nr) v Hwf Hst) as C. rewrite H in C.
  unfold obs in C. cbn [snd] in C. injection C as _ C.
  destruct v as [z|h store items]; [discriminate|].
  unfold ref_unpack, map_res in C. cbn [fst snd] in C.
  destruct (Nat.ltb_spec (length items) nl) as [Hlt|Hge].
  - cbn [snd] in C. destruct (h_end h); discriminate.
  - cbn [snd] in C. destruct (h_end h); [|discriminate].
    destruct (length items <? nl + nr); [discriminate|].
    injection C as ->. eexists. rewrite nth_error_app2 by (rewrite firstn_length; lia).
    rewrite firstn_length. replace (nl - Nat.min nl (length items)) with 0 by lia. reflexivity.
Qed.

(* __Pyx_unpack_tuple2 *)
Theorem cy_tuple2_correct : forall fx v, wf v -> (fx = false -> plain_tuplesub v) ->
  obs v (cy_tuple2 fx v) = obs v (map_res erase (ref_unpack 2 None v)).
Proof.
  intros fx v Hwf Hp. destruct v as [z|h store items]; [reflexivity|].
  inversion Hwf as [|h' s' i' Hex Hit]; subst.
  unfold cy_tuple2.
  assert (Hstore : (match h_kind h with KTuple => true | KTupleSub => negb fx | _ => false end) = true
                   -> store = items /\ h_end h = EndStop /\ h_logs h = false).
  { destruct (h_kind h) eqn:Ek; try discriminate.
    - intros _. apply Hex. reflexivity.
    - destruct fx; [discriminate|]. intros _. apply (Hp eq_refl). exact Ek. }
  destruct (match h_kind h with KTuple => true | KTupleSub => negb fx | _ => false end).
  - destruct (Hstore eq_refl) as (-> & He & Hl).
    unfold obs. rewrite !emit_nolog by exact Hl. f_equal.
    pose proof (cy_fast_correct h items 2 He) as F. unfold cy_fast in F.
    destruct (Nat.eqb_spec (length items) 2) as [Heq|Hne]; cbn [negb] in F.
    + exact F.
    + rewrite <- F. destruct (Nat.ltb_spec (length items) 2), (Nat.ltb_spec 2 (length items));
        try lia; reflexivity.
  - rewrite (cy_generic_correct h store items 2). reflexivity.
Qed.

(* class T(tuple): def __iter__(self): return iter([7, 8]);  for k, v in obj.items() with an item T((1, 2, 3)):
   Python binds 7, 8; PyTuple_Check + GET_SIZE raises "too many values" *)
Theorem cy_tuple2_refuted : exists v, wf v /\
  snd (cy_tuple2 false v) <> snd (map_res erase (ref_unpack 2 None v)).
Proof.
  exists (VSeq {| h_kind := KTupleSub; h_id := 1; h_logs := false; h_end := EndStop |}
               [VAtom 1; VAtom 2; VAtom 3] [VAtom 7; VAtom 8]).
  split.
  - constructor; [discriminate|repeat constructor].
  - cbv. discriminate.
Qed.

(* ------------------------------------------------------------------------------------------------ *)
(* nested targets                                                                                     *)
(* ------------------------------------------------------------------------------------------------ *)
Section TargetInd.
  Variable P : target -> Prop.
  Hypothesis Hname : forall x, P (TName x).
  Hypothesis Hseq : forall ls star rs, Forall P ls -> Forall P rs -> P (TSeq ls star rs).
  Fixpoint target_ind' (t : target) : P t :=
    match t with
    | TName x => Hname x
    | TSeq ls star rs =>
        Hseq ls star rs
             ((fix go (l : list target) : Forall P l :=
                 match l with [] => Forall_nil P | t1 :: r => Forall_cons t1 (target_ind' t1) (go r) end) ls)
             ((fix go (l : list target) : Forall P l :=
                 match l with [] => Forall_nil P | t1 :: r => Forall_cons t1 (target_ind' t1) (go r) end) rs)
    end.
End TargetInd.

Section Map.
  Context {E1 E2 : Type}.
  Variable f : E1 -> E2.

  Lemma seq_assign_map : forall (rec1 : target -> val -> list event * ares E1)
                                (rec2 : target -> val -> list event * ares E2) ts,
    Forall (fun t => forall v, wf v -> rec2 t v = map_a f (rec1 t v)) ts ->
    forall vs, Forall wf vs -> seq_assign rec2 ts vs = map_a f (seq_assign rec1 ts vs).
  Proof.
    intros rec1 rec2 ts Hts. induction Hts as [|t1 ts Ht _ IH]; intros vs Hvs.
    - destruct vs; reflexivity.
    - destruct vs as [|v1 vs]; [reflexivity|]. inversion Hvs as [|? ? Hv1 Hvs']; subst.
      cbn [seq_assign]. rewrite (Ht v1 Hv1), (IH vs Hvs').
      destruct (rec1 t1 v1) as [ev a]. destruct a; cbn; try reflexivity.
      destruct (seq_assign rec1 ts vs) as [ev2 a2]. reflexivity.
  Qed.

  Lemma assign_level_map : forall (rec1 : target -> val -> list event * ares E1)
                                  (rec2 : target -> val -> list event * ares E2) unp1 unp2 ls star rs v,
    Forall (fun t => forall v, wf v -> rec2 t v = map_a f (rec1 t v)) ls ->
    Forall (fun t => forall v, wf v -> rec2 t v = map_a f (rec1 t v)) rs ->
    (forall nl s, obs v (unp2 nl s v) = obs v (map_res f (unp1 nl s v))) ->
    (forall nl s c vals, unp1 nl s v = (c, Vals vals) -> Forall wf vals) ->
    assign_level rec2 unp2 ls star rs v = map_a f (assign_level rec1 unp1 ls star rs v).
  Proof.
    intros rec1 rec2 unp1 unp2 ls star rs v Hls Hrs Hu Hw. unfold assign_level.
    set (nl := match star with None => length ls + length rs | Some _ => length ls end).
    set (s := option_map (fun _ => length rs) star).
    specialize (Hu nl s). specialize (Hw nl s).
    destruct (unp1 nl s v) as [c1 r1]. destruct (unp2 nl s v) as [c2 r2].
    unfold obs, map_res in Hu. cbn [fst snd] in Hu. injection Hu as Hev Hr. rewrite Hev. subst r2.
    destruct r1 as [e|vals]; [reflexivity|].
    specialize (Hw c1 vals eq_refl).
    rewrite (seq_assign_map rec1 rec2 ls Hls) by (apply Forall_firstn_wf; exact Hw).
    destruct (seq_assign rec1 ls (firstn (length ls) vals)) as [ev1 a1].
    destruct a1; cbn [map_a fst snd]; try reflexivity.
    pose proof (Forall_skipn_wf (length ls) vals Hw) as Hsk.
    destruct star as [x|].
    - destruct (skipn (length ls) vals) as [|sv rv]; [reflexivity|].
      inversion Hsk; subst.
      rewrite (seq_assign_map rec1 rec2 rs Hrs) by assumption.
      destruct (seq_assign rec1 rs rv) as [ev2 a2]. reflexivity.
    - rewrite (seq_assign_map rec1 rec2 rs Hrs) by assumption.
      destruct (seq_assign rec1 rs (skipn (length ls) vals)) as [ev2 a2]. reflexivity.
  Qed.

  Variable u1 : stype -> nat -> option nat -> val -> nat * res E1.
  Variable u2 : stype -> nat -> option nat -> val -> nat * res E2.
  Hypothesis Hu : forall st nl s v, wf v -> st_ok st v ->
    obs v (u2 st nl s v) = obs v (map_res f (u1 st nl s v)).
  Hypothesis Hw : forall st nl s v c vals, wf v -> u1 st nl s v = (c, Vals vals) -> Forall wf vals.

  Lemma assign_map : forall t st v, wf v -> st_ok st v ->
    assign u2 st t v = map_a f (assign u1 st t v).
  Proof.
    induction t as [x|ls star rs IHl IHr] using target_ind'; intros st v Hwf Hst; [reflexivity|].
    cbn [assign]. apply assign_level_map.
    - eapply Forall_impl; [|exact IHl]. intros t Ht v' Hv'. apply Ht; [exact Hv'|exact I].
    - eapply Forall_impl; [|exact IHr]. intros t Ht v' Hv'. apply Ht; [exact Hv'|exact I].
    - intros nl s. apply Hu; assumption.
    - intros nl s c vals. apply Hw. exact Hwf.
  Qed.
End Map.

Theorem cy_assign_correct : forall st t v, wf v -> st_ok st v ->
  cy_assign st t v = map_a erase (ref_assign t v).
Proof.
  intros st t v Hwf Hst. unfold cy_assign, ref_assign.
  destruct t as [x|ls star rs]; [reflexivity|].
  cbn [assign]. apply assign_level_map.
  - apply Forall_forall. intros t _ v' Hv'.
    apply (assign_map erase (fun _ => ref_unpack) cy_unpack); auto.
    + intros. apply cy_unpack_correct; assumption.
    + intros st0 nl s v0 c vals Hv0. apply ref_unpack_wf. exact Hv0.
    + exact I.
  - apply Forall_forall. intros t _ v' Hv'.
    apply (assign_map erase (fun _ => ref_unpack) cy_unpack); auto.
    + intros. apply cy_unpack_correct; assumption.
    + intros st0 nl s v0 c vals Hv0. apply ref_unpack_wf. exact Hv0.
    + exact I.
  - intros nl s. apply cy_unpack_correct; assumption.
  - intros nl s c vals. apply ref_unpack_wf. exact Hwf.
Qed.

(* for k, v in obj.items() with a two-target pattern *)
Theorem cy_items_assign_correct : forall fx ls rs v, wf v -> (fx = false -> plain_tuplesub v) ->
  length ls + length rs = 2 ->
  cy_items_assign fx (TSeq ls None rs) v = map_a erase (ref_assign (TSeq ls None rs) v).
Proof.
  intros fx ls rs v Hwf Hp Hlen. unfold cy_items_assign, ref_assign, assign_top.
  cbn [assign]. unfold assign_level. rewrite Hlen. cbn [option_map].
  pose proof (cy_tuple2_correct fx v Hwf Hp) as C.
  pose proof (ref_unpack_wf 2 None v) as W.
  destruct (ref_unpack 2 None v) as [c1 r1]. destruct (cy_tuple2 fx v) as [c2 r2].
  unfold obs, map_res in C. cbn [fst snd] in C. injection C as Hev Hr. rewrite Hev. subst r2.
  destruct r1 as [e|vals]; [reflexivity|].
  specialize (W c1 vals Hwf eq_refl).
  assert (Hrec : forall ts, Forall (fun t => forall v, wf v ->
             assign cy_unpack SObj t v = map_a erase (assign (fun _ => ref_unpack) SObj t v)) ts).
  { intros ts. apply Forall_forall. intros t _ v' Hv'.
    apply (assign_map erase (fun _ => ref_unpack) cy_unpack); auto.
    - intros. apply cy_unpack_correct; assumption.
    - intros st0 nl s v0 c vals0 Hv0. apply ref_unpack_wf. exact Hv0.
    - exact I. }
  rewrite (seq_assign_map erase _ _ ls (Hrec ls)) by (apply Forall_firstn_wf; exact W).
  destruct (seq_assign (assign (fun _ => ref_unpack) SObj) ls (firstn (length ls) vals)) as [ev1 a1].
  destruct a1; cbn [map_a fst snd]; try reflexivity.
  rewrite (seq_assign_map erase _ _ rs (Hrec rs)) by (apply Forall_skipn_wf; exact W).
  destruct (seq_assign (assign (fun _ => ref_unpack) SObj) rs (skipn (length ls) vals)) as [ev2 a2].
  reflexivity.
Qed.

(* ------------------------------------------------------------------------------------------------ *)
(* the totalised branches are never taken                                                             *)
(* ------------------------------------------------------------------------------------------------ *)
Lemma seq_assign_not_stuck : forall {E} (rec : target -> val -> list event * ares E) ts,
  Forall (fun t => forall v, wf v -> snd (rec t v) <> AStuck) ts ->
  forall vs, Forall wf vs -> length vs = length ts -> snd (seq_assign rec ts vs) <> AStuck.
Proof.
  intros E rec ts Hts. induction Hts as [|t1 ts Ht _ IH]; intros vs Hvs Hlen.
  - destruct vs; [discriminate|discriminate].
  - destruct vs as [|v1 vs]; [discriminate|]. inversion Hvs as [|? ? Hv1 Hvs']; subst.
    cbn [seq_assign]. specialize (Ht v1 Hv1). destruct (rec t1 v1) as [ev a].
    destruct a; cbn [snd] in *; try assumption; try discriminate.
    specialize (IH vs Hvs' ltac:(cbn in Hlen; lia)).
    destruct (seq_assign rec ts vs) as [ev2 a2]. exact IH.
Qed.

Theorem ref_assign_not_stuck : forall t v, wf v -> snd (ref_assign t v) <> AStuck.
Proof.
  unfold ref_assign.
  induction t as [x|ls star rs IHl IHr] using target_ind'; intros v Hwf; [discriminate|].
  cbn [assign]. unfold assign_level.
  set (nl := match star with None => length ls + length rs | Some _ => length ls end).
  set (s := option_map (fun _ => length rs) star).
  pose proof (ref_unpack_length nl s v) as L. pose proof (ref_unpack_wf nl s v) as W.
  destruct (ref_unpack nl s v) as [c r]. destruct r as [e|vals]; [discriminate|].
  specialize (L c vals eq_refl). specialize (W c vals Hwf eq_refl).
  assert (Hlen : length vals = length ls + match star with None => 0 | Some _ => 1 end + length rs).
  { rewrite L. unfold nvals, nl, s. destruct star; cbn [option_map]; lia. }
  pose proof (seq_assign_not_stuck (assign (fun _ => ref_unpack) SObj) ls IHl
                (firstn (length ls) vals) (Forall_firstn_wf _ _ W)
                ltac:(rewrite firstn_length; lia)) as S1.
  destruct (seq_assign (assign (fun _ => ref_unpack) SObj) ls (firstn (length ls) vals)) as [ev1 a1].
  destruct a1; cbn [snd] in *; try assumption; try discriminate.
  pose proof (Forall_skipn_wf (length ls) vals W) as Hsk.
  pose proof (skipn_length (length ls) vals) as Hsl.
  destruct star as [x|].
  - destruct (skipn (length ls) vals) as [|sv rv]; [cbn in Hsl; lia|].
    inversion Hsk; subst.
    pose proof (seq_assign_not_stuck (assign (fun _ => ref_unpack) SObj) rs IHr rv ltac:(assumption)
                  ltac:(cbn in Hsl; lia)) as S2.
    destruct (seq_assign (assign (fun _ => ref_unpack) SObj) rs rv) as [ev2 a2]. exact S2.
  - pose proof (seq_assign_not_stuck (assign (fun _ => ref_unpack) SObj) rs IHr _ Hsk ltac:(lia)) as S2.
    destruct (seq_assign (assign (fun _ => ref_unpack) SObj) rs (skipn (length ls) vals)) as [ev2 a2].
    exact S2.
Qed.

(* the compiled code never reads outside the store and never mis-counts the unpacked temps *)
Theorem cy_assign_safe : forall st t v, wf v -> st_ok st v ->
  snd (cy_assign st t v) <> AStuck /\ snd (cy_assign st t v) <> AExc COutOfBounds.
Proof.
  intros st t v Hwf Hst. rewrite (cy_assign_correct st t v Hwf Hst).
  pose proof (ref_assign_not_stuck t v Hwf) as N.
  unfold map_a. cbn [snd]. destruct (snd (ref_assign t v)) as [|e|].
  - split; discriminate.
  - split; [discriminate|]. destruct e; discriminate.
  - contradiction.
Qed.
