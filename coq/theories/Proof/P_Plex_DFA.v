(* C50, part 2: DFA.nfa_to_dfa -- the subset construction is correct for every NFA and event word. *)
From Coq Require Import ZArith NArith List Bool Lia ZifyBool ZifyNat.
From CyVerif Require Import Model.M_Plex Proof.P_Plex_TMap Proof.P_Plex_Sets.
Import ListNotations.
Open Scope Z_scope.

(* ---------- more about sorted split lists ---------- *)
Lemma count_le_zero l c : (forall y, In y l -> c < y) -> count_le l c = O.
Proof.
  induction l as [|a t IH]; intros H; [reflexivity|]. rewrite count_le_cons, IH.
  - specialize (H a (or_introl eq_refl)). destruct (Z.leb_spec a c); lia.
  - intros y Hy. apply H. right. exact Hy.
Qed.

Lemma count_le_nth c : forall l, sorted l -> forall i, (i < length l)%nat ->
  (nth i l 0 <= c <-> (i < count_le l c)%nat).
Proof.
  induction l as [|a t IH]; intros Hs i Hi; [cbn in Hi; lia|]. rewrite count_le_cons.
  assert (Hz : c < a -> count_le t c = O).
  { intros Hca. apply count_le_zero. intros y Hy. pose proof (sorted_head_lt t a Hs y Hy). lia. }
  destruct i as [|i]; cbn [nth].
  - destruct (Z.leb_spec a c); split; intros; try lia; rewrite Hz in * by lia; lia.
  - rewrite (IH (sorted_tail _ _ Hs) i) by (cbn in Hi; lia).
    destruct (Z.leb_spec a c); split; intros; try lia; rewrite Hz in * by lia; lia.
Qed.

Lemma seg_of tm c : tm_inv tm -> - maxint <= c < maxint ->
  let k := (count_le (tm_codes tm) c - 1)%nat in
  (k < length (tm_sets tm))%nat /\ nth k (tm_codes tm) 0 <= c < nth (S k) (tm_codes tm) 0.
Proof.
  intros I Hc k. pose proof (count_le_pos tm c I ltac:(lia)) as Hp.
  pose proof (count_le_lt_n tm c I ltac:(lia)) as Hq. pose proof (inv_len tm I) as Hl.
  split; [lia|]. split.
  - apply (count_le_nth c _ (inv_sorted tm I)); lia.
  - destruct (Z.lt_ge_cases c (nth (S k) (tm_codes tm) 0)) as [H|H]; [exact H|exfalso].
    apply (count_le_nth c _ (inv_sorted tm I)) in H; lia.
Qed.

Lemma inv_codes_range tm i : tm_inv tm -> (i < length (tm_codes tm))%nat ->
  - maxint <= nth i (tm_codes tm) 0 <= maxint.
Proof.
  intros I Hi. pose proof (inv_len tm I) as Hl.
  pose proof (sorted_nth_le _ (inv_sorted tm I) O i ltac:(lia)) as H1.
  pose proof (sorted_nth_le _ (inv_sorted tm I) i (length (tm_sets tm)) ltac:(lia)) as H2.
  rewrite (inv_first tm I) in H1. rewrite (inv_last tm I) in H2. lia.
Qed.

Lemma last_nth {A} (d : A) : forall l, last l d = nth (length l - 1) l d.
Proof.
  induction l as [|a t IH]; [reflexivity|]. destruct t as [|b t']; [reflexivity|].
  change (last (a :: b :: t') d) with (last (b :: t') d). rewrite IH. cbn [length].
  replace (S (S (length t')) - 1)%nat with (S (length t')) by lia.
  replace (S (length t') - 1)%nat with (length t') by lia. reflexivity.
Qed.

Lemma else_get tm : tm_inv tm -> tm_else_ok tm = true -> tm_get tm (- maxint) = tm_get tm (maxint - 1).
Proof.
  intros I H. unfold tm_else_ok in H. apply N.eqb_eq in H.
  pose proof (inv_len tm I) as Hl. pose proof (inv_n tm I) as Hn. pose proof (inv_sorted tm I) as Hs.
  rewrite (tm_get_segment tm (- maxint) O I ltac:(lia)).
  - rewrite (tm_get_segment tm (maxint - 1) (length (tm_sets tm) - 1) I ltac:(lia)).
    + rewrite last_nth in H. rewrite <- H. destruct (tm_sets tm); [cbn in Hn; lia|reflexivity].
    + replace (S (length (tm_sets tm) - 1)) with (length (tm_sets tm)) by lia. rewrite (inv_last tm I).
      pose proof (sorted_nth_lt _ Hs (length (tm_sets tm) - 1) (length (tm_sets tm)) ltac:(lia)) as H1.
      rewrite (inv_last tm I) in H1.
      pose proof (inv_codes_range tm (length (tm_sets tm) - 1) I ltac:(lia)). unfold maxint in *. lia.
  - rewrite (inv_first tm I). pose proof (sorted_nth_lt _ Hs O 1%nat ltac:(lia)) as H1.
    rewrite (inv_first tm I) in H1. lia.
Qed.

Definition valid_ev (e : event) : Prop :=
  match e with EvChar c => - maxint <= c < maxint | _ => True end.

Fixpoint dfa_run_w (tr : list dstate) (st : nat) (w : list event) : option nat :=
  match w with
  | [] => Some st
  | e :: t => match nth_error tr st with
              | Some d => match d_lookup d e with
                          | Some j => dfa_run_w tr j t
                          | None => None
                          end
              | None => None
              end
  end.

Section DFA.
Variable m : nfa.
Hypothesis Hwf : forall s, tm_inv (n_tm (n_get m s)).
Hypothesis Helse : forall s, tm_else_ok (n_tm (n_get m s)) = true.

(* one step of the subset automaton, as a relation *)
Definition step_rel (O : sset) (e : event) (t : nat) : Prop :=
  exists s x, s_mem s O = true /\ s_mem x (ntrans m s e) = true /\ ereach m x t.

Lemma step_rel_closed O e x y : step_rel O e x -> s_mem y (n_eps (n_get m x)) = true -> step_rel O e y.
Proof.
  intros (s & z & Hs & Hz & Hr) Hy. exists s, z. split; [exact Hs|]. split; [exact Hz|].
  eapply ereach_trans; [exact Hr|]. eapply nr_eps; [exact Hy|constructor].
Qed.

(* ---------- the union TransitionMap of a new state ---------- *)
Definition uget (u : utrans) (e : event) : sset :=
  match e with
  | EvChar c => tm_get (u_tm u) c
  | EvBol => u_bol u | EvEol => u_eol u | EvEof => u_eof u
  | EvNone => s_empty
  end.

Definition item_step (a : option tmap) (it : Z * Z * sset) : option tmap :=
  do tm <- a;
  let '(c0, c1, tg) := it in
  if s_is_empty tg then Some tm else do cl <- eclose_set m tg; tm_add_set tm c0 c1 cl.

Lemma fold_items_spec : forall its tm0 tm1, tm_inv tm0 ->
  (forall c0 c1 tg, In (c0, c1, tg) its -> - maxint <= c0 <= maxint /\ - maxint <= c1 <= maxint) ->
  fold_left item_step its (Some tm0) = Some tm1 ->
  tm_inv tm1 /\ forall c, - maxint <= c < maxint -> forall t,
    s_mem t (tm_get tm1 c) = true <->
    s_mem t (tm_get tm0 c) = true \/
    exists c0 c1 tg, In (c0, c1, tg) its /\ c0 <= c < c1 /\ exists s, s_mem s tg = true /\ ereach m s t.
Proof.
  induction its as [|[[c0 c1] tg] its IH]; intros tm0 tm1 I Hr H.
  - cbn in H. inversion H; subst. split; [exact I|]. intros c Hc t. split; [auto|].
    intros [H0|(? & ? & ? & [] & _)]. exact H0.
  - cbn [fold_left] in H. unfold item_step at 2 in H. cbv beta iota in H.
    assert (Hr' : forall a b g, In (a, b, g) its -> - maxint <= a <= maxint /\ - maxint <= b <= maxint)
      by (intros; eapply Hr; right; eauto).
    destruct (s_is_empty tg) eqn:Ee.
    + destruct (IH tm0 tm1 I Hr' H) as (I1 & G). split; [exact I1|]. intros c Hc t. rewrite (G c Hc t).
      split; intros [H0|(a & b & g & Hin & Hab & s & Hs & Hre)]; auto; right.
      * exists a, b, g. split; [right; exact Hin|]. eauto.
      * destruct Hin as [Heq|Hin]; [|exists a, b, g; eauto].
        assert (a = c0 /\ b = c1 /\ g = tg) as (-> & -> & ->) by (inversion Heq; auto).
        apply s_is_empty_spec with (i := s) in Ee. congruence.
    + destruct (eclose_set m tg) as [cl|] eqn:Ec; [|rewrite fold_none in H by reflexivity; discriminate].
      destruct (Hr c0 c1 tg (or_introl eq_refl)) as [R0 R1].
      destruct (tm_add_set_spec tm0 c0 c1 cl I R0 R1) as (tm' & Ea & I' & G').
      rewrite Ea in H. destruct (IH tm' tm1 I' Hr' H) as (I1 & G). split; [exact I1|].
      destruct (eclose_set_spec m tg cl Ec) as (_ & Hcl).
      intros c Hc t. rewrite (G c Hc t), (G' c Hc).
      split.
      * intros [H0|(a & b & g & Hin & Hab & s & Hs & Hre)].
        -- destruct ((c0 <=? c) && (c <? c1)) eqn:Eb; [|left; exact H0].
           rewrite s_mem_union in H0. apply orb_true_iff in H0. destruct H0 as [H0|H0]; [left; exact H0|].
           right. exists c0, c1, tg. split; [left; reflexivity|]. split; [lia|]. apply Hcl. exact H0.
        -- right. exists a, b, g. split; [right; exact Hin|]. eauto.
      * intros [H0|(a & b & g & Hin & Hab & s & Hs & Hre)].
        -- left. destruct ((c0 <=? c) && (c <? c1)); [|exact H0]. rewrite s_mem_union, H0. reflexivity.
        -- destruct Hin as [Heq|Hin]; [|right; exists a, b, g; eauto].
           assert (a = c0 /\ b = c1 /\ g = tg) as (-> & -> & ->) by (inversion Heq; auto).
           left. destruct (Z.leb_spec c0 c), (Z.ltb_spec c c1); try lia. cbn [andb].
           rewrite s_mem_union. apply orb_true_iff. right. apply Hcl. eauto.
Qed.

Lemma tm_items_range tm c0 c1 tg : tm_inv tm -> In (c0, c1, tg) (tm_items tm) ->
  - maxint <= c0 <= maxint /\ - maxint <= c1 <= maxint.
Proof.
  intros I H. apply items_loop_spec in H. destruct H as (k & Hk1 & Hk2 & E0 & E1 & _).
  subst. split; apply inv_codes_range; auto; lia.
Qed.

(* the items of a map: the segment of c is listed iff it is worth listing *)
Lemma tm_items_at tm c : tm_inv tm -> - maxint <= c < maxint ->
  forall c0 c1 tg, In (c0, c1, tg) (tm_items tm) -> c0 <= c < c1 -> tg = tm_get tm c.
Proof.
  intros I Hc c0 c1 tg H Hr. apply items_loop_spec in H. destruct H as (k & Hk1 & Hk2 & E0 & E1 & Es & _).
  subst. symmetry. apply tm_get_segment; auto.
Qed.

Lemma hd_get tm : tm_inv tm -> hd s_empty (tm_sets tm) = tm_get tm (- maxint).
Proof.
  intros I. pose proof (inv_len tm I) as Hl. pose proof (inv_n tm I) as Hn.
  rewrite (tm_get_segment tm (- maxint) O I ltac:(lia)).
  - destruct (tm_sets tm); reflexivity.
  - rewrite (inv_first tm I). pose proof (sorted_nth_lt _ (inv_sorted tm I) O 1%nat ltac:(lia)) as H1.
    rewrite (inv_first tm I) in H1. lia.
Qed.

Lemma items_first tm c1 ss : tm_inv tm -> In (- maxint, c1, ss) (tm_items tm) ->
  ss = tm_get tm (- maxint) /\ s_is_empty ss = false.
Proof.
  intros I Hi. unfold tm_items in Hi. apply items_loop_spec in Hi.
  destruct Hi as (k & Hk1 & Hk2 & E0 & E1 & Es & Hne).
  assert (k = O).
  { destruct (Nat.eq_dec k O) as [|Hne']; [assumption|exfalso].
    pose proof (sorted_nth_lt _ (inv_sorted _ I) O k ltac:(lia)) as Hlt.
    rewrite (inv_first _ I) in Hlt. lia. }
  subst k. assert (Eh : hd s_empty (tm_sets tm) = ss) by (rewrite <- Es; destruct (tm_sets tm); reflexivity).
  rewrite Eh in Hne. split.
  - rewrite <- hd_get by exact I. symmetry. exact Eh.
  - destruct (s_is_empty ss); [cbn in Hne; discriminate|reflexivity].
Qed.

Lemma tm_items_listed tm c : tm_inv tm -> - maxint <= c < maxint ->
  (s_is_empty (tm_get tm c) = false \/ s_is_empty (tm_get tm (- maxint)) = false) ->
  exists c0 c1, In (c0, c1, tm_get tm c) (tm_items tm) /\ c0 <= c < c1
                /\ (c0 = - maxint -> tm_get tm c = tm_get tm (- maxint)).
Proof.
  intros I Hc Hne. destruct (seg_of tm c I Hc) as (Hk & Hseg).
  set (k := (count_le (tm_codes tm) c - 1)%nat) in *.
  pose proof (inv_len tm I) as Hl.
  exists (nth k (tm_codes tm) 0), (nth (S k) (tm_codes tm) 0). split; [|split; [exact Hseg|]].
  - apply items_loop_spec. exists k. repeat split; try lia.
    assert (E0 : hd s_empty (tm_sets tm) = tm_get tm (- maxint)).
    { rewrite (tm_get_segment tm (- maxint) O I ltac:(lia)).
      - destruct (tm_sets tm); reflexivity.
      - rewrite (inv_first tm I). pose proof (sorted_nth_lt _ (inv_sorted tm I) O 1%nat ltac:(lia)) as H1.
        rewrite (inv_first tm I) in H1. lia. }
    rewrite E0. fold (tm_get tm c). destruct Hne as [-> | ->]; cbn; [reflexivity|apply orb_true_r].
  - intros E. destruct (Nat.eq_dec k O) as [Ek|Ek].
    + unfold tm_get at 1. fold k. rewrite Ek. symmetry. apply tm_get_segment; auto; [lia|].
      rewrite (inv_first tm I). pose proof (sorted_nth_lt _ (inv_sorted tm I) O 1%nat ltac:(lia)) as H1.
      rewrite (inv_first tm I) in H1. lia.
    + pose proof (sorted_nth_lt _ (inv_sorted tm I) O k ltac:(lia)) as H1.
      rewrite (inv_first tm I) in H1. lia.
Qed.

Lemma add_state_transitions_spec u u' s : tm_inv (u_tm u) -> add_state_transitions m u s = Some u' ->
  tm_inv (u_tm u') /\ forall e, valid_ev e -> forall t,
    s_mem t (uget u' e) = true <->
    s_mem t (uget u e) = true \/ exists x, s_mem x (ntrans m s e) = true /\ ereach m x t.
Proof.
  intros I H. unfold add_state_transitions in H.
  change (fun (a : option tmap) (it : Z * Z * sset) =>
            do tm <- a; let '(c0, c1, tg) := it in
            if s_is_empty tg then Some tm else do cl <- eclose_set m tg; tm_add_set tm c0 c1 cl)
    with item_step in H.
  destruct (fold_left item_step (tm_items (n_tm (n_get m s))) (Some (u_tm u))) as [tm|] eqn:Ef; [|discriminate].
  destruct (eclose_set m (n_bol (n_get m s))) as [b|] eqn:Eb; [|discriminate].
  destruct (eclose_set m (n_eol (n_get m s))) as [l|] eqn:El; [|discriminate].
  destruct (eclose_set m (n_eof (n_get m s))) as [f|] eqn:Ee; [|discriminate].
  inversion H; subst; clear H.
  destruct (fold_items_spec _ _ _ I (fun a b g Hin => tm_items_range _ a b g (Hwf s) Hin) Ef) as (I1 & G).
  cbn [u_tm]. split; [exact I1|]. intros e He t.
  destruct e as [c| | | |]; cbn [uget u_tm u_bol u_eol u_eof ntrans].
  - cbn in He. rewrite (G c He t). split; intros [H0|H0]; auto; right.
    + destruct H0 as (c0 & c1 & tg & Hin & Hr & x & Hx & Hre).
      rewrite (tm_items_at _ c (Hwf s) He c0 c1 tg Hin Hr) in Hx. eauto.
    + destruct H0 as (x & Hx & Hre).
      destruct (tm_items_listed (n_tm (n_get m s)) c (Hwf s) He) as (c0 & c1 & Hin & Hr & _).
      { left. destruct (s_is_empty (tm_get (n_tm (n_get m s)) c)) eqn:E0; [|reflexivity].
        apply s_is_empty_spec with (i := x) in E0. congruence. }
      exists c0, c1, (tm_get (n_tm (n_get m s)) c). eauto.
  - rewrite s_mem_union, orb_true_iff. destruct (eclose_set_spec m _ _ Eb) as (_ & Hc). rewrite Hc. tauto.
  - rewrite s_mem_union, orb_true_iff. destruct (eclose_set_spec m _ _ El) as (_ & Hc). rewrite Hc. tauto.
  - rewrite s_mem_union, orb_true_iff. destruct (eclose_set_spec m _ _ Ee) as (_ & Hc). rewrite Hc. tauto.
  - rewrite s_mem_empty. split; [discriminate|]. intros [H0|(x & Hx & _)]; [discriminate|].
    rewrite s_mem_empty in Hx. discriminate.
Qed.

Lemma union_transitions_spec old u : union_transitions m old = Some u ->
  tm_inv (u_tm u) /\ forall e, valid_ev e -> forall t, s_mem t (uget u e) = true <-> step_rel old e t.
Proof.
  unfold union_transitions.
  set (step := fun (a : option utrans) (s : nat) => do u <- a; add_state_transitions m u s).
  assert (Hg : forall l u0 u1, tm_inv (u_tm u0) -> fold_left step l (Some u0) = Some u1 ->
            tm_inv (u_tm u1) /\ forall e, valid_ev e -> forall t,
              s_mem t (uget u1 e) = true <->
              s_mem t (uget u0 e) = true \/ exists s x, In s l /\ s_mem x (ntrans m s e) = true /\ ereach m x t).
  { induction l as [|s l IHl]; intros u0 u1 I0 H0.
    - cbn in H0. inversion H0; subst. split; [exact I0|]. intros e He t. split; [auto|].
      intros [H|(? & ? & [] & _)]. exact H.
    - cbn [fold_left] in H0. unfold step at 2 in H0.
      destruct (add_state_transitions m u0 s) as [ua|] eqn:Ea;
        [|assert (Hn : forall l', fold_left step l' None = None)
            by (induction l' as [|? ? IHn]; cbn; auto); rewrite Hn in H0; discriminate].
      destruct (add_state_transitions_spec u0 ua s I0 Ea) as (Ia & Ga).
      destruct (IHl ua u1 Ia H0) as (I1 & G1). split; [exact I1|]. intros e He t.
      rewrite (G1 e He t), (Ga e He t). split.
      + intros [[H|(x & Hx & Hr)]|(s' & x & Hs' & Hx & Hr)]; auto; right.
        * exists s, x. split; [left; reflexivity|auto].
        * exists s', x. split; [right; exact Hs'|auto].
      + intros [H|(s' & x & [->|Hs'] & Hx & Hr)]; auto.
        * left. right. eauto.
        * right. eauto. }
  intros H.
  destruct (Hg _ {| u_tm := tm_new; u_bol := s_empty; u_eol := s_empty; u_eof := s_empty |} _ tm_new_inv H)
    as (I & G). split; [exact I|]. intros e He t.
  rewrite (G e He t). split.
  - intros [H0|(s & x & Hs & Hx & Hr)].
    + destruct e; cbn [uget u_tm u_bol u_eol u_eof] in H0; rewrite ?tm_new_get, s_mem_empty in H0; discriminate.
    + exists s, x. split; [apply s_elems_spec; exact Hs|auto].
  - intros (s & x & Hs & Hx & Hr). right. exists s, x. split; [apply s_elems_spec; exact Hs|auto].
Qed.

(* states_0 == states_n-1 of the union map follows from that of the NFA states *)
Lemma union_else old u : union_transitions m old = Some u ->
  tm_get (u_tm u) (maxint - 1) = tm_get (u_tm u) (- maxint).
Proof.
  intros H. destruct (union_transitions_spec old u H) as (I & G). apply s_ext. intros t.
  apply eq_true_iff_eq.
  rewrite (G (EvChar (maxint - 1)) ltac:(cbn; unfold maxint; lia) t).
  rewrite (G (EvChar (- maxint)) ltac:(cbn; unfold maxint; lia) t).
  unfold step_rel. cbn [ntrans].
  split; intros (s & x & Hs & Hx & Hr); exists s, x; (split; [exact Hs|]); (split; [|exact Hr]);
    [rewrite (else_get _ (Hwf s) (Helse s))|rewrite <- (else_get _ (Hwf s) (Helse s))]; exact Hx.
Qed.

(* ---------- StateMap ---------- *)
Definition sm_ok (sm : smap) : Prop := sm_acts sm = map (best_action m) (sm_sets sm).
Definition extends (sm sm' : smap) : Prop := exists ex, sm_sets sm' = sm_sets sm ++ ex.

Lemma extends_refl sm : extends sm sm.
Proof. exists []. rewrite app_nil_r. reflexivity. Qed.

Lemma extends_trans a b c : extends a b -> extends b c -> extends a c.
Proof. intros (x & Hx) (y & Hy). exists (x ++ y). rewrite Hy, Hx, app_assoc. reflexivity. Qed.

Lemma extends_nth sm sm' j x : extends sm sm' -> nth_error (sm_sets sm) j = Some x ->
  nth_error (sm_sets sm') j = Some x.
Proof.
  intros (ex & E) H. rewrite E. rewrite nth_error_app1; [exact H|]. apply nth_error_Some. congruence.
Qed.

Lemma find_idx_spec key : forall l k0 j, find_idx key l k0 = Some j ->
  (k0 <= j)%nat /\ nth_error l (j - k0) = Some key.
Proof.
  induction l as [|x t IH]; intros k0 j H; [discriminate|]. cbn [find_idx] in H.
  destruct (N.eqb_spec x key) as [->|Hne].
  - inversion H; subst. rewrite Nat.sub_diag. auto.
  - destruct (IH (S k0) j H) as (Hle & Hn). split; [lia|].
    replace (j - k0)%nat with (S (j - S k0)) by lia. exact Hn.
Qed.

Lemma old_to_new_spec sm ss sm' j : old_to_new m sm ss = (sm', j) -> sm_ok sm ->
  sm_ok sm' /\ extends sm sm' /\ nth_error (sm_sets sm') j = Some ss.
Proof.
  unfold old_to_new. intros H Hok. destruct (find_idx ss (sm_sets sm) O) as [j0|] eqn:Ef.
  - inversion H; subst. destruct (find_idx_spec _ _ _ _ Ef) as (_ & Hn). rewrite Nat.sub_0_r in Hn.
    split; [exact Hok|]. split; [apply extends_refl|exact Hn].
  - inversion H; subst; clear H. cbn [sm_sets sm_acts]. split.
    + unfold sm_ok in *. cbn [sm_sets sm_acts]. rewrite map_app, Hok. reflexivity.
    + split; [exists [ss]; reflexivity|]. rewrite nth_error_app2, Nat.sub_diag by lia. reflexivity.
Qed.

(* ---------- FastMachine.add_transitions over the range items ---------- *)
Lemma ari_spec : forall items sm d sm' d', add_range_items m items sm d = (sm', d') -> sm_ok sm ->
  sm_ok sm' /\ extends sm sm'
  /\ d_bol d' = d_bol d /\ d_eol d' = d_eol d /\ d_eof d' = d_eof d
  /\ (forall c0 c1 j, In (c0, c1, j) (d_chars d') ->
        In (c0, c1, j) (d_chars d) \/ exists ss, In (c0, c1, ss) items /\ nth_error (sm_sets sm') j = Some ss)
  /\ (forall c0 c1 ss, In (c0, c1, ss) items -> c0 <> - maxint -> c1 <> maxint ->
        exists j, In (c0, c1, j) (d_chars d') /\ nth_error (sm_sets sm') j = Some ss)
  /\ (forall x, In x (d_chars d) -> In x (d_chars d'))
  /\ (forall j, d_else d' = Some j ->
        d_else d = Some j \/ exists c1 ss, In (- maxint, c1, ss) items /\ nth_error (sm_sets sm') j = Some ss)
  /\ ((exists c1 ss, In (- maxint, c1, ss) items) \/ d_else d <> None -> d_else d' <> None)
  /\ ((forall c1 ss, ~ In (- maxint, c1, ss) items) -> d_else d' = d_else d).
Proof.
  induction items as [|[[c0 c1] ss] items IH]; intros sm d sm' d' H Hok.
  - cbn in H. inversion H; subst. split; [exact Hok|]. split; [apply extends_refl|].
    repeat split; auto.
    + intros ? ? ? [].
    + intros [(? & ? & [])|Hn]; exact Hn.
  - cbn [add_range_items] in H. destruct (old_to_new m sm ss) as [sm1 j] eqn:Eo.
    destruct (old_to_new_spec _ _ _ _ Eo Hok) as (Hok1 & Hext1 & Hj).
    match type of H with add_range_items m items sm1 ?dd = _ => set (d1 := dd) in H end.
    destruct (IH sm1 d1 sm' d' H Hok1) as (Hok' & Hext' & Eb & El & Ef & HA & HB & HC & HD & HE & HF).
    pose proof (extends_nth _ _ _ _ Hext' Hj) as Hj'.
    assert (Hd1 : d_bol d1 = d_bol d /\ d_eol d1 = d_eol d /\ d_eof d1 = d_eof d)
      by (unfold d1; destruct (c0 =? - maxint); [cbn; auto|destruct (negb (c1 =? maxint)); cbn; auto]).
    destruct Hd1 as (Hb1 & Hl1 & Hf1).
    split; [exact Hok'|]. split; [eapply extends_trans; eauto|].
    split; [congruence|]. split; [congruence|]. split; [congruence|].
    split; [|split; [|split; [|split; [|split]]]].
    + intros a b j0 Hin. destruct (HA a b j0 Hin) as [Hin1|(ss0 & Hi & Hn)].
      * unfold d1 in Hin1. destruct (Z.eqb_spec c0 (- maxint)); [left; exact Hin1|].
        destruct (Z.eqb_spec c1 maxint); cbn [negb d_chars] in Hin1; [left; exact Hin1|].
        apply in_app_or in Hin1. destruct Hin1 as [Hin1|[Heq|[]]]; [left; exact Hin1|].
        inversion Heq; subst. right. exists ss. split; [left; reflexivity|exact Hj'].
      * right. exists ss0. split; [right; exact Hi|exact Hn].
    + intros a b ss0 [Heq|Hin] Ha Hb.
      * inversion Heq; subst. exists j. split; [|exact Hj']. apply HC. unfold d1.
        destruct (Z.eqb_spec a (- maxint)); [contradiction|]. destruct (Z.eqb_spec b maxint); [contradiction|].
        cbn [negb d_chars]. apply in_or_app. right. left. reflexivity.
      * apply HB; assumption.
    + intros x Hx. apply HC. unfold d1. destruct (c0 =? - maxint); [exact Hx|].
      destruct (negb (c1 =? maxint)); cbn [d_chars]; [apply in_or_app; left|]; exact Hx.
    + intros j0 Hj0. destruct (HD j0 Hj0) as [H1|(b & ss0 & Hi & Hn)].
      * unfold d1 in H1. destruct (Z.eqb_spec c0 (- maxint)) as [->|].
        -- cbn [d_else] in H1. inversion H1; subst. right. exists c1, ss. split; [left; reflexivity|exact Hj'].
        -- destruct (negb (c1 =? maxint)); cbn [d_else] in H1; left; exact H1.
      * right. exists b, ss0. split; [right; exact Hi|exact Hn].
    + intros Hex. apply HE. destruct Hex as [(b & ss0 & [Heq|Hin])|Hn].
      * inversion Heq; subst. right. unfold d1. rewrite Z.eqb_refl. cbn. discriminate.
      * left. eauto.
      * right. unfold d1. destruct (c0 =? - maxint); [cbn; discriminate|].
        destruct (negb (c1 =? maxint)); cbn [d_else]; exact Hn.
    + intros Hno. rewrite HF by (intros b ss0 Hin; apply (Hno b ss0); right; exact Hin).
      unfold d1. destruct (Z.eqb_spec c0 (- maxint)) as [->|]; [exfalso; apply (Hno c1 ss); left; reflexivity|].
      destruct (negb (c1 =? maxint)); reflexivity.
Qed.

Lemma add_special_spec ss sm sm' r : add_special m ss sm = (sm', r) -> sm_ok sm ->
  sm_ok sm' /\ extends sm sm' /\
  match r with
  | Some j => nth_error (sm_sets sm') j = Some ss
  | None => forall t, s_mem t ss = false
  end.
Proof.
  unfold add_special. intros H Hok. destruct (s_is_empty ss) eqn:Ee.
  - inversion H; subst. split; [exact Hok|]. split; [apply extends_refl|]. apply s_is_empty_spec. exact Ee.
  - destruct (old_to_new m sm ss) as [sm1 j] eqn:Eo. inversion H; subst.
    exact (old_to_new_spec _ _ _ _ Eo Hok).
Qed.

(* the transitions of one new state point to the right subsets *)
Definition good_state (sets : list sset) (d : dstate) (O : sset) : Prop :=
  (forall e j, d_lookup d e = Some j -> (j < length sets)%nat) /\
  forall e, valid_ev e ->
    match d_lookup d e with
    | Some j => exists S', nth_error sets j = Some S' /\ forall t, s_mem t S' = true <-> step_rel O e t
    | None => forall t, ~ step_rel O e t
    end.

Lemma nth_error_lt {A} (l : list A) j x : nth_error l j = Some x -> (j < length l)%nat.
Proof. intros H. apply nth_error_Some. congruence. Qed.

Lemma process_state_spec sm old sm' d : process_state m sm old = Some (sm', d) -> sm_ok sm ->
  sm_ok sm' /\ extends sm sm' /\ good_state (sm_sets sm') d old.
Proof.
  unfold process_state. intros H Hok.
  destruct (union_transitions m old) as [u|] eqn:Eu; [|discriminate].
  destruct (union_transitions_spec old u Eu) as (Iu & Gu).
  pose proof (union_else old u Eu) as Helse_u.
  match type of H with context [add_range_items m ?its sm ?d0] =>
    destruct (add_range_items m its sm d0) as [sm1 d1] eqn:Er end.
  destruct (add_special m (u_bol u) sm1) as [sm2 jb] eqn:Eb.
  destruct (add_special m (u_eol u) sm2) as [sm3 je] eqn:El.
  destruct (add_special m (u_eof u) sm3) as [sm4 jf] eqn:Ef.
  inversion H; subst; clear H.
  destruct (ari_spec _ _ _ _ _ Er Hok) as (Hok1 & X1 & _ & _ & _ & HA & HB & _ & HD & HE & HF).
  destruct (add_special_spec _ _ _ _ Eb Hok1) as (Hok2 & X2 & Sb).
  destruct (add_special_spec _ _ _ _ El Hok2) as (Hok3 & X3 & Sl).
  destruct (add_special_spec _ _ _ _ Ef Hok3) as (Hok4 & X4 & Sf).
  assert (X14 : extends sm1 sm') by (eapply extends_trans; [exact X2|eapply extends_trans; eauto]).
  split; [exact Hok4|]. split; [eapply extends_trans; eauto|].
  (* facts about the character part *)
  assert (Hchars : forall c0 c1 j, In (c0, c1, j) (d_chars d1) ->
            exists ss, In (c0, c1, ss) (tm_items (u_tm u)) /\ nth_error (sm_sets sm') j = Some ss).
  { intros c0 c1 j Hin. destruct (HA c0 c1 j Hin) as [[]|(ss & Hi & Hn)].
    exists ss. split; [exact Hi|]. eapply extends_nth; eauto. }
  assert (Helse_j : forall j, d_else d1 = Some j -> nth_error (sm_sets sm') j = Some (tm_get (u_tm u) (- maxint))).
  { intros j Hj. destruct (HD j Hj) as [H0|(c1 & ss & Hi & Hn)]; [discriminate|].
    destruct (items_first _ _ _ Iu Hi) as (-> & _). eapply extends_nth; eauto. }
  split.
  - (* every target exists *)
    intros e j Hl. destruct e as [c| | | |]; cbn [d_lookup d_chars d_else d_bol d_eol d_eof] in Hl.
    + destruct (find _ (d_chars d1)) as [[[a b] j0]|] eqn:Efind.
      * inversion Hl; subst. apply find_some in Efind. destruct Efind as (Hin & _).
        destruct (Hchars a b j Hin) as (ss & _ & Hn). eapply nth_error_lt; eauto.
      * eapply nth_error_lt. apply Helse_j. exact Hl.
    + subst jb. eapply nth_error_lt. eapply extends_nth; [|exact Sb]. eapply extends_trans; eauto.
    + subst je. eapply nth_error_lt. eapply extends_nth; [exact X4|exact Sl].
    + subst jf. eapply nth_error_lt. exact Sf.
    + discriminate.
  - intros e He. destruct e as [c| | | |]; cbn [d_lookup d_chars d_else d_bol d_eol d_eof].
    + cbn in He. pose proof (Gu (EvChar c) He) as G. cbn [uget] in G.
      destruct (find _ (d_chars d1)) as [[[a b] j0]|] eqn:Efind.
      * apply find_some in Efind. destruct Efind as (Hin & Hr).
        destruct (Hchars a b j0 Hin) as (ss & Hi & Hn).
        rewrite (tm_items_at (u_tm u) c Iu He a b ss Hi ltac:(lia)) in Hn.
        exists (tm_get (u_tm u) c). split; [exact Hn|exact G].
      * (* no explicit entry: 'else' *)
        pose proof (find_none _ _ Efind) as Hnone.
        destruct (s_is_empty (tm_get (u_tm u) (- maxint))) eqn:E0.
        -- (* S_0 empty: nothing is listed for an empty set, 'else' is absent *)
           assert (Hd : d_else d1 = None).
           { rewrite HF; [reflexivity|]. intros c1 ss Hi.
             destruct (items_first _ _ _ Iu Hi) as (-> & Hne). congruence. }
           rewrite Hd. intros t Hs. apply G in Hs.
           destruct (s_is_empty (tm_get (u_tm u) c)) eqn:Ec.
           ++ apply s_is_empty_spec with (i := t) in Ec. congruence.
           ++ destruct (tm_items_listed (u_tm u) c Iu He (or_introl Ec)) as (c0 & c1 & Hi & Hr & Hfirst).
              destruct (Z.eq_dec c0 (- maxint)) as [E1|N1].
              { rewrite (Hfirst E1) in Ec. congruence. }
              destruct (Z.eq_dec c1 maxint) as [E2|N2].
              { (* the last segment: equal to S_0 by the else invariant *)
                assert (tm_get (u_tm u) c = tm_get (u_tm u) (maxint - 1)).
                { apply (tm_items_at (u_tm u) (maxint - 1) Iu ltac:(unfold maxint; lia) c0 c1 _ Hi). lia. }
                rewrite H, Helse_u in Ec. congruence. }
              destruct (HB c0 c1 _ Hi N1 N2) as (j & Hin & _).
              specialize (Hnone _ Hin). cbn in Hnone. lia.
        -- (* S_0 non-empty: every segment is listed, 'else' is the state of S_0 *)
           destruct (tm_items_listed (u_tm u) (- maxint) Iu ltac:(unfold maxint; lia) (or_introl E0))
             as (a0 & b0 & Hi0 & Hr0 & _).
           assert (a0 = - maxint).
           { pose proof (tm_items_range _ _ _ _ Iu Hi0). lia. }
           subst a0.
           destruct (d_else d1) as [j|] eqn:Ed;
             [|exfalso; apply HE; [left; eauto|reflexivity]].
           pose proof (Helse_j j eq_refl) as Hn.
           exists (tm_get (u_tm u) (- maxint)). split; [exact Hn|].
           destruct (tm_items_listed (u_tm u) c Iu He (or_intror E0)) as (c0 & c1 & Hi & Hr & Hfirst).
           assert (Ec : tm_get (u_tm u) c = tm_get (u_tm u) (- maxint)).
           { destruct (Z.eq_dec c0 (- maxint)) as [E1|N1]; [exact (Hfirst E1)|].
             destruct (Z.eq_dec c1 maxint) as [E2|N2].
             - rewrite <- Helse_u.
               apply (tm_items_at (u_tm u) (maxint - 1) Iu ltac:(unfold maxint; lia) c0 c1 _ Hi). lia.
             - destruct (HB c0 c1 _ Hi N1 N2) as (j' & Hin & _).
               specialize (Hnone _ Hin). cbn in Hnone. lia. }
           rewrite <- Ec. exact G.
    + pose proof (Gu EvBol I) as G. cbn [uget] in G. destruct jb as [j|].
      * exists (u_bol u). split; [|exact G]. eapply extends_nth; [|exact Sb]. eapply extends_trans; eauto.
      * intros t Hs. apply G in Hs. rewrite Sb in Hs. discriminate.
    + pose proof (Gu EvEol I) as G. cbn [uget] in G. destruct je as [j|].
      * exists (u_eol u). split; [|exact G]. eapply extends_nth; [exact X4|exact Sl].
      * intros t Hs. apply G in Hs. rewrite Sl in Hs. discriminate.
    + pose proof (Gu EvEof I) as G. cbn [uget] in G. destruct jf as [j|].
      * exists (u_eof u). split; [exact Sf|exact G].
      * intros t Hs. apply G in Hs. rewrite Sf in Hs. discriminate.
    + intros t (s & x & _ & Hx & _). cbn [ntrans] in Hx. rewrite s_mem_empty in Hx. discriminate.
Qed.

(* ---------- the worklist ---------- *)
Definition wl_inv (sm : smap) (done : list dstate) : Prop :=
  sm_ok sm /\ (length done <= length (sm_sets sm))%nat /\
  forall i d O, nth_error done i = Some d -> nth_error (sm_sets sm) i = Some O ->
                good_state (sm_sets sm) d O.

Lemma good_state_ext sets ex d O : good_state sets d O -> good_state (sets ++ ex) d O.
Proof.
  intros (H1 & H2). split.
  - intros e j Hl. specialize (H1 e j Hl). rewrite app_length. lia.
  - intros e He. specialize (H2 e He). destruct (d_lookup d e) as [j|]; [|exact H2].
    destruct H2 as (S' & Hn & Hs). exists S'. split; [|exact Hs].
    rewrite nth_error_app1; [exact Hn|]. eapply nth_error_lt; eauto.
Qed.

Lemma worklist_spec : forall fuel sm done sm' tr, worklist fuel m sm done = Some (sm', tr) ->
  wl_inv sm done -> wl_inv sm' tr /\ length tr = length (sm_sets sm') /\ extends sm sm'.
Proof.
  induction fuel as [|f IH]; intros sm done sm' tr H Hinv; [discriminate|].
  cbn [worklist] in H. destruct (nth_error (sm_sets sm) (length done)) as [old|] eqn:En.
  - destruct (process_state m sm old) as [[sm1 d]|] eqn:Ep; [|discriminate].
    destruct Hinv as (Hok & Hlen & Hg).
    destruct (process_state_spec _ _ _ _ Ep Hok) as (Hok1 & (ex & Eex) & Hgd).
    assert (Hinv1 : wl_inv sm1 (done ++ [d])).
    { split; [exact Hok1|]. split.
      - rewrite app_length, Eex, app_length. cbn. pose proof (nth_error_lt _ _ _ En). lia.
      - intros i d0 O Hd HO. destruct (Nat.lt_ge_cases i (length done)) as [Hi|Hi].
        + rewrite nth_error_app1 in Hd by exact Hi.
          rewrite Eex in HO |- *. rewrite nth_error_app1 in HO by lia.
          apply good_state_ext. eapply Hg; eauto.
        + rewrite nth_error_app2 in Hd by exact Hi.
          destruct (i - length done)%nat as [|k] eqn:Ek; [|destruct k; discriminate].
          cbn in Hd. inversion Hd; subst d0. assert (i = length done) by lia. subst i.
          rewrite Eex in HO. rewrite nth_error_app1 in HO by (eapply nth_error_lt; eauto).
          rewrite En in HO. inversion HO; subst. exact Hgd. }
    destruct (IH _ _ _ _ H Hinv1) as (Hf & Hl & Hx). split; [exact Hf|]. split; [exact Hl|].
    eapply extends_trans; [exists ex; exact Eex|exact Hx].
  - inversion H; subst. split; [exact Hinv|]. split; [|apply extends_refl].
    apply nth_error_None in En. destruct Hinv as (_ & Hlen & _). lia.
Qed.

(* ---------- words ---------- *)
Definition R (O : sset) (w : list event) (t : nat) : Prop := exists s, s_mem s O = true /\ nreach m s w t.

Lemma R_nil O t : closed m O -> (R O [] t <-> s_mem t O = true).
Proof.
  intros Hc. split.
  - intros (s & Hs & Hr). eapply closed_ereach; eauto.
  - intros Ht. exists t. split; [exact Ht|constructor].
Qed.

Lemma nreach_cons_inv O : closed m O -> forall s u t, nreach m s u t -> forall e w, u = e :: w ->
  s_mem s O = true -> exists s' x, s_mem s' O = true /\ s_mem x (ntrans m s' e) = true /\ nreach m x w t.
Proof.
  intros Hc s u t H. induction H as [s|s y w0 t He H IH|s e0 y w0 t He H IH]; intros e w E Hs.
  - discriminate.
  - apply (IH e w E). eapply Hc; eauto.
  - inversion E; subst. exists s, y. auto.
Qed.

Lemma R_cons O e w t S' : closed m O -> (forall x, s_mem x S' = true <-> step_rel O e x) ->
  (R O (e :: w) t <-> R S' w t).
Proof.
  intros Hc HS. split.
  - intros (s & Hs & Hr). destruct (nreach_cons_inv O Hc s _ t Hr e w eq_refl Hs) as (s' & x & Hs' & Hx & Hr').
    exists x. split; [|exact Hr']. apply HS. exists s', x. split; [exact Hs'|]. split; [exact Hx|constructor].
  - intros (x & Hx & Hr). apply HS in Hx. destruct Hx as (s & y & Hs & Hy & Hre).
    exists s. split; [exact Hs|]. eapply nr_ev; [exact Hy|].
    exact (nreach_app m y [] x Hre w t Hr).
Qed.

Lemma step_set_closed O e S' : (forall x, s_mem x S' = true <-> step_rel O e x) -> closed m S'.
Proof. intros HS x y Hx Hy. apply HS. eapply step_rel_closed; [apply HS; exact Hx|exact Hy]. Qed.

Lemma dfa_run_correct sets tr :
  (forall i d O, nth_error tr i = Some d -> nth_error sets i = Some O -> good_state sets d O) ->
  length tr = length sets ->
  forall w, Forall valid_ev w -> forall st O, nth_error sets st = Some O -> closed m O ->
  match dfa_run_w tr st w with
  | Some d => exists S', nth_error sets d = Some S' /\ forall t, s_mem t S' = true <-> R O w t
  | None => forall t, ~ R O w t
  end.
Proof.
  intros Hg Hlen. induction w as [|e w IH]; intros Hv st O Hst Hc.
  - cbn. exists O. split; [exact Hst|]. intros t. symmetry. apply R_nil. exact Hc.
  - inversion Hv as [|? ? He Hv']; subst. cbn [dfa_run_w].
    destruct (nth_error tr st) as [d|] eqn:Ed.
    2:{ apply nth_error_None in Ed. apply nth_error_lt in Hst. lia. }
    destruct (Hg st d O Ed Hst) as (_ & G). specialize (G e He).
    destruct (d_lookup d e) as [j|].
    + destruct G as (S' & Hn & HS). specialize (IH Hv' j S' Hn (step_set_closed O e S' HS)).
      destruct (dfa_run_w tr j w) as [d'|].
      * destruct IH as (S2 & Hn2 & H2). exists S2. split; [exact Hn2|]. intros t. rewrite H2.
        symmetry. apply R_cons; assumption.
      * intros t Hr. apply (IH t). eapply R_cons; eauto.
    + intros t (s & Hs & Hr). destruct (nreach_cons_inv O Hc s _ t Hr e w eq_refl Hs) as (s' & x & Hs' & Hx & _).
      apply (G x). exists s', x. split; [exact Hs'|]. split; [exact Hx|constructor].
Qed.

(* ---------- nfa_to_dfa ---------- *)
Theorem nfa_to_dfa_correct fuel D : nfa_to_dfa fuel m = Some D ->
  length (dfa_acts D) = length (dfa_trans D) /\ (0 < length (dfa_trans D))%nat
  /\ (forall st d e j, nth_error (dfa_trans D) st = Some d -> d_lookup d e = Some j ->
                       (j < length (dfa_trans D))%nat)
  /\ forall w, Forall valid_ev w ->
     match dfa_run_w (dfa_trans D) O w with
     | Some d => exists S', nth_error (dfa_sets D) d = Some S'
                   /\ (forall t, s_mem t S' = true <-> nreach m O w t)
                   /\ nth_error (dfa_acts D) d = Some (best_action m S')
     | None => forall t, ~ nreach m O w t
     end.
Proof.
  unfold nfa_to_dfa. intros H. destruct (eclose m O) as [c0|] eqn:E0; [|discriminate].
  destruct (eclose_spec m O c0 E0) as (Hc0 & Hm0).
  cbn [old_to_new find_idx sm_sets sm_acts app length] in H.
  match type of H with context [worklist fuel m ?ss0 []] => set (sm0 := ss0) in H end.
  destruct (worklist fuel m sm0 []) as [[sm tr]|] eqn:Ew; [|discriminate].
  inversion H; subst D; clear H. cbn [dfa_sets dfa_acts dfa_trans].
  assert (Hinv0 : wl_inv sm0 []).
  { split; [reflexivity|]. split; [cbn; lia|]. intros i d O Hd. destruct i; discriminate. }
  destruct (worklist_spec _ _ _ _ _ Ew Hinv0) as ((Hok & _ & Hg) & Hlen & Hext).
  assert (H0 : nth_error (sm_sets sm) O = Some c0) by (eapply extends_nth; [exact Hext|reflexivity]).
  assert (Hacts : length (sm_acts sm) = length tr) by (rewrite Hok, map_length; lia).
  split; [exact Hacts|]. split; [rewrite Hlen; eapply nth_error_lt; eauto|].
  split.
  - intros st d e j Hd Hl. rewrite Hlen.
    destruct (nth_error (sm_sets sm) st) as [O'|] eqn:Es.
    + destruct (Hg st d O' Hd Es) as (G1 & _). eapply G1; eauto.
    + apply nth_error_None in Es. apply nth_error_lt in Hd. lia.
  - intros w Hv. pose proof (dfa_run_correct (sm_sets sm) tr Hg Hlen w Hv O c0 H0 Hc0) as Hr.
    assert (HR : forall t, R c0 w t <-> nreach m O w t).
    { intros t. split.
      - intros (s & Hs & Hre). apply Hm0 in Hs. exact (nreach_app m O [] s Hs w t Hre).
      - intros Hre. exists O. split; [apply Hm0; constructor|exact Hre]. }
    destruct (dfa_run_w tr 0 w) as [d|].
    + destruct Hr as (S' & Hn & HS). exists S'. split; [exact Hn|]. split.
      * intros t. rewrite HS. apply HR.
      * rewrite Hok. rewrite nth_error_map, Hn. reflexivity.
    + intros t Hre. apply (Hr t). apply HR. exact Hre.
Qed.

End DFA.
