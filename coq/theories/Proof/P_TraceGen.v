(* Proofs about Model/M_TraceGen.v: every completed segment of every run of every function is
   "start, kids and lines, one end"; hence the word of any execution tree is the event sequence
   of an M_Trace call tree and P_Trace applies. *)
From Coq Require Import List Bool Arith Lia.
From CyVerif Require Import Model.M_Trace Proof.P_Trace Model.M_TraceGen.
Import ListNotations.

(* ---------- token discipline as an automaton ---------- *)
Inductive st := Open | Closed | Done.

Definition step (s : st) (t : tok) : option st :=
  match s, t with
  | Closed, TStart _ => Some Open
  | Open, TKid => Some Open
  | Open, TLine => Some Open
  | Open, TYield => Some Closed
  | Open, TRet => Some Done
  | Open, TUnwind => Some Done
  | _, _ => None
  end.

Fixpoint steps (s : st) (l : list tok) : option st :=
  match l with
  | [] => Some s
  | t :: r => match step s t with Some s' => steps s' r | None => None end
  end.

Lemma steps_app : forall a b s s1,
  steps s a = Some s1 -> steps s (a ++ b) = steps s1 b.
Proof.
  induction a as [|t a IH]; intros b s s1 H; simpl in *.
  - injection H as <-. reflexivity.
  - destruct (step s t) as [s'|]; [|discriminate]. eapply IH; eassumption.
Qed.

Lemma steps_kids : forall c, steps Open (call_part c) = Some Open.
Proof. intros c. unfold call_part. induction (c_kids c); simpl; auto. Qed.

Definition st_of (o : outcome) : st :=
  match o with OReturn false => Done | OAbandon => Closed | _ => Open end.

(* what one execution of a statement / block / loop guarantees, started in state Open *)
Definition inv (fx : bool) (d : nat) (r : list tok * outcome * list choice) : Prop :=
  steps Open (fst (fst r)) = Some (st_of (snd (fst r))) /\
  (snd (fst r) = OReturn false -> d = 0) /\
  (snd (fst r) = OReturn true -> fx = true).

Lemma inv_intro : forall fx d t out o,
  steps Open t = Some (st_of out) -> (out = OReturn false -> d = 0) ->
  (out = OReturn true -> fx = true) -> inv fx d (t, out, o).
Proof. intros. unfold inv; simpl. auto. Qed.

Lemma steps_line : forall t s, steps Open t = Some s -> steps Open (TLine :: t) = Some s.
Proof. intros; simpl; assumption. Qed.

Lemma steps_line_kids : forall c t s,
  steps Open t = Some s -> steps Open (TLine :: call_part c ++ t) = Some s.
Proof.
  intros c t s H. simpl. rewrite (steps_app _ _ _ _ (steps_kids c)). exact H.
Qed.

Ltac dex E t out o :=
  match goal with
  | |- context [exec_b ?fx ?g ?n ?d ?b ?oo] =>
      destruct (exec_b fx g n d b oo) as [[t out] o] eqn:E
  end.

Lemma exec_inv : forall fx gen n,
  (forall d s o, fx = true \/ clean_s d s = true -> inv fx d (exec_s fx gen n d s o)) /\
  (forall d b o, fx = true \/ clean_b d b = true -> inv fx d (exec_b fx gen n d b o)) /\
  (forall d body els o, fx = true \/ (clean_b d body = true /\ clean_b d els = true) ->
     inv fx d (exec_l fx gen n d body els o)).
Proof.
  intros fx gen n. induction n as [|n [IHs [IHb IHl]]].
  - repeat split; intros; simpl; try discriminate.
  - split; [|split].
    + (* statements *)
      intros d s o Hc. destruct s; cbn [exec_s].
      * (* SExpr *)
        destruct o as [|c o']. { apply inv_intro; simpl; auto; discriminate. }
        apply inv_intro.
        -- simpl. rewrite (steps_kids c). destruct (c_exc c); reflexivity.
        -- destruct (c_exc c); discriminate.
        -- destruct (c_exc c); discriminate.
      * apply inv_intro; simpl; auto; discriminate.
      * (* SReturn *)
        destruct (Nat.eqb d 0) eqn:Ed.
        { apply inv_intro; simpl; auto; try discriminate. intros _. apply Nat.eqb_eq; exact Ed. }
        destruct fx.
        { apply inv_intro; simpl; auto; discriminate. }
        destruct Hc as [Hc|Hc]; [discriminate|]. simpl in Hc. congruence.
      * (* SYield *)
        destruct gen; [|apply inv_intro; simpl; auto; discriminate].
        destruct o as [|c o']. { apply inv_intro; simpl; auto; discriminate. }
        destruct (c_go c); [|apply inv_intro; simpl; auto; discriminate].
        destruct (c_exc c); apply inv_intro; simpl; auto; discriminate.
      * (* SIf *)
        destruct o as [|c o']. { apply inv_intro; simpl; auto; discriminate. }
        destruct (c_exc c).
        { apply inv_intro; try discriminate. simpl. rewrite (steps_kids c). reflexivity. }
        assert (Hc' : fx = true \/ clean_b d (if c_go c then a else b) = true).
        { destruct Hc as [Hc|Hc]; [left; exact Hc|right]. simpl in Hc.
          apply andb_true_iff in Hc. destruct (c_go c); tauto. }
        pose proof (IHb d _ o' Hc') as Hi.
        destruct (exec_b fx gen n d (if c_go c then a else b) o') as [[t out] o2].
        destruct Hi as (H1 & H2 & H3); simpl in *.
        apply inv_intro; auto. apply steps_line_kids. exact H1.
      * (* SLoop *)
        assert (Hc' : fx = true \/ (clean_b d body = true /\ clean_b d els = true)).
        { destruct Hc as [Hc|Hc]; [left; exact Hc|right]. simpl in Hc.
          apply andb_true_iff in Hc. exact Hc. }
        pose proof (IHl d body els o Hc') as Hi.
        destruct (exec_l fx gen n d body els o) as [[t out] o2].
        destruct Hi as (H1 & H2 & H3); simpl in *.
        apply inv_intro; auto.
      * (* STry *)
        assert (Hb : fx = true \/ clean_b d body = true).
        { destruct Hc as [Hc|Hc]; [left; exact Hc|right]. simpl in Hc.
          apply andb_true_iff in Hc. tauto. }
        assert (Hh : fx = true \/ clean_b d h = true).
        { destruct Hc as [Hc|Hc]; [left; exact Hc|right]. simpl in Hc.
          apply andb_true_iff in Hc. tauto. }
        pose proof (IHb d body o Hb) as Hi.
        destruct (exec_b fx gen n d body o) as [[t1 o1] r1].
        destruct Hi as (H1 & H2 & H3); simpl in *.
        destruct o1 as [|p|[|]| |]; try (apply inv_intro; auto; fail).
        pose proof (IHb d h r1 Hh) as Hj.
        destruct (exec_b fx gen n d h r1) as [[t2 o2] r2].
        destruct Hj as (J1 & J2 & J3); simpl in *.
        apply inv_intro; auto. simpl. rewrite (steps_app _ _ _ _ H1). exact J1.
      * (* SFin *)
        assert (Hb : fx = true \/ clean_b (S d) body = true).
        { destruct Hc as [Hc|Hc]; [left; exact Hc|right]. simpl in Hc.
          apply andb_true_iff in Hc. tauto. }
        assert (Hf : fx = true \/ clean_b d fin = true).
        { destruct Hc as [Hc|Hc]; [left; exact Hc|right]. simpl in Hc.
          apply andb_true_iff in Hc. tauto. }
        pose proof (IHb (S d) body o Hb) as Hi.
        destruct (exec_b fx gen n (S d) body o) as [[t1 o1] r1].
        destruct Hi as (H1 & H2 & H3); simpl in *.
        destruct (is_stop o1) eqn:Es.
        { apply inv_intro; auto. intros E; subst o1; discriminate. }
        pose proof (IHb d fin r1 Hf) as Hj.
        destruct (exec_b fx gen n d fin r1) as [[t2 o2] r2].
        destruct Hj as (J1 & J2 & J3); simpl in *.
        assert (S1 : st_of o1 = Open).
        { destruct o1 as [|[|]| | |]; try reflexivity; try discriminate.
          specialize (H2 eq_refl). discriminate. }
        rewrite S1 in H1.
        apply inv_intro.
        -- simpl. rewrite (steps_app _ _ _ _ H1). rewrite J1.
           destruct o2; try reflexivity. rewrite S1. reflexivity.
        -- destruct o2; auto; try discriminate. intros E; subst o1. specialize (H2 eq_refl). discriminate.
        -- destruct o2; auto; try discriminate.
    + (* blocks *)
      intros d b o Hc. destruct b as [|s r]; cbn [exec_b].
      { apply inv_intro; simpl; auto; discriminate. }
      assert (Hs : fx = true \/ clean_s d s = true).
      { destruct Hc as [Hc|Hc]; [left; exact Hc|right]. simpl in Hc.
        apply andb_true_iff in Hc. tauto. }
      assert (Hr : fx = true \/ clean_b d r = true).
      { destruct Hc as [Hc|Hc]; [left; exact Hc|right]. simpl in Hc.
        apply andb_true_iff in Hc. tauto. }
      pose proof (IHs d s o Hs) as Hi.
      destruct (exec_s fx gen n d s o) as [[t1 o1] r1].
      destruct Hi as (H1 & H2 & H3); simpl in *.
      destruct o1; try (apply inv_intro; auto; fail).
      pose proof (IHb d r r1 Hr) as Hj.
      destruct (exec_b fx gen n d r r1) as [[t2 o2] r2].
      destruct Hj as (J1 & J2 & J3); simpl in *.
      apply inv_intro; auto. rewrite (steps_app _ _ _ _ H1). exact J1.
    + (* loops *)
      intros d body els o Hc. cbn [exec_l].
      destruct o as [|c o']. { apply inv_intro; simpl; auto; discriminate. }
      destruct (c_exc c).
      { apply inv_intro; try discriminate. rewrite (steps_kids c). reflexivity. }
      assert (Hb : fx = true \/ clean_b d body = true) by tauto.
      assert (He : fx = true \/ clean_b d els = true) by tauto.
      destruct (c_go c).
      * pose proof (IHb d body o' Hb) as Hi.
        destruct (exec_b fx gen n d body o') as [[t1 o1] r1].
        destruct Hi as (H1 & H2 & H3); simpl in *.
        destruct o1; try (apply inv_intro; auto;
                          rewrite (steps_app _ _ _ _ (steps_kids c)); exact H1).
        pose proof (IHl d body els r1 Hc) as Hj.
        destruct (exec_l fx gen n d body els r1) as [[t2 o2] r2].
        destruct Hj as (J1 & J2 & J3); simpl in *.
        apply inv_intro; auto.
        rewrite (steps_app _ _ _ _ (steps_kids c)). rewrite (steps_app _ _ _ _ H1). exact J1.
      * pose proof (IHb d els o' He) as Hi.
        destruct (exec_b fx gen n d els o') as [[t out] r].
        destruct Hi as (H1 & H2 & H3); simpl in *.
        apply inv_intro; auto. rewrite (steps_app _ _ _ _ (steps_kids c)). exact H1.
Qed.

(* ---------- the terminator flag is sound: such a body never completes normally ---------- *)
Definition out_of (r : list tok * outcome * list choice) : outcome := snd (fst r).

Lemma term_sound : forall fx gen n,
  (forall d s o, is_term_s s = true -> out_of (exec_s fx gen n d s o) <> ONormal) /\
  (forall d b o, is_term b = true -> out_of (exec_b fx gen n d b o) <> ONormal) /\
  (forall d body els o, is_term els = true -> out_of (exec_l fx gen n d body els o) <> ONormal).
Proof.
  intros fx gen n. induction n as [|n [IHs [IHb IHl]]].
  - repeat split; intros; simpl; discriminate.
  - split; [|split].
    + intros d s o Ht. destruct s; cbn [exec_s]; simpl in Ht.
      * discriminate Ht.
      * unfold out_of; simpl; discriminate.
      * destruct (Nat.eqb d 0); [|destruct fx]; unfold out_of; simpl; discriminate.
      * discriminate Ht.
      * destruct o as [|c o']; [unfold out_of; simpl; discriminate|].
        destruct (c_exc c); [unfold out_of; simpl; discriminate|].
        apply andb_true_iff in Ht. destruct Ht as [Ha Hb].
        assert (Hx : is_term (if c_go c then a else b) = true) by (destruct (c_go c); assumption).
        pose proof (IHb d _ o' Hx) as Hi.
        destruct (exec_b fx gen n d (if c_go c then a else b) o') as [[t out] o2].
        exact Hi.
      * pose proof (IHl d body els o Ht) as Hi.
        destruct (exec_l fx gen n d body els o) as [[t out] o2]. exact Hi.
      * apply andb_true_iff in Ht. destruct Ht as [Ha Hb].
        pose proof (IHb d body o Ha) as Hi.
        destruct (exec_b fx gen n d body o) as [[t1 o1] r1].
        unfold out_of in Hi; simpl in Hi.
        destruct o1 as [|p|[|]| |]; try (unfold out_of; simpl; congruence).
        pose proof (IHb d h r1 Hb) as Hj.
        destruct (exec_b fx gen n d h r1) as [[t2 o2] r2]. exact Hj.
      * pose proof (IHb (S d) body o) as Hi.
        destruct (exec_b fx gen n (S d) body o) as [[t1 o1] r1].
        unfold out_of in Hi; simpl in Hi.
        destruct (is_stop o1) eqn:Es.
        { unfold out_of; simpl. intros E; subst o1; discriminate. }
        pose proof (IHb d fin r1) as Hj.
        destruct (exec_b fx gen n d fin r1) as [[t2 o2] r2].
        unfold out_of in *; simpl in *.
        apply orb_true_iff in Ht.
        destruct o2; try discriminate.
        destruct Ht as [Ht|Ht]; [exact (Hi Ht)|]. exfalso. exact (Hj Ht eq_refl).
    + intros d b o Ht. destruct b as [|s r]; cbn [exec_b]; simpl in Ht; [discriminate|].
      pose proof (IHs d s o) as Hi.
      destruct (exec_s fx gen n d s o) as [[t1 o1] r1].
      unfold out_of in Hi; simpl in Hi.
      destruct o1; try (unfold out_of; simpl; discriminate).
      apply orb_true_iff in Ht. destruct Ht as [Ht|Ht]; [exfalso; exact (Hi Ht eq_refl)|].
      pose proof (IHb d r r1 Ht) as Hj.
      destruct (exec_b fx gen n d r r1) as [[t2 o2] r2]. exact Hj.
    + intros d body els o Ht. cbn [exec_l].
      destruct o as [|c o']; [unfold out_of; simpl; discriminate|].
      destruct (c_exc c); [unfold out_of; simpl; discriminate|].
      destruct (c_go c).
      * destruct (exec_b fx gen n d body o') as [[t1 o1] r1].
        destruct o1; try (unfold out_of; simpl; discriminate).
        pose proof (IHl d body els r1 Ht) as Hj.
        destruct (exec_l fx gen n d body els r1) as [[t2 o2] r2]. exact Hj.
      * pose proof (IHb d els o' Ht) as Hi.
        destruct (exec_b fx gen n d els o') as [[t out] r]. exact Hi.
Qed.

(* ---------- from the flat run to its segments ---------- *)
Lemma step_done : forall t, step Done t = None.
Proof. destruct t; reflexivity. Qed.

Lemma steps_done : forall l s, steps Done l = Some s -> l = [].
Proof. destruct l as [|t l]; intros s H; [reflexivity|]. cbn [steps] in H. rewrite step_done in H. discriminate. Qed.

(* cutting the first segment off a well-formed token list *)
Lemma cut_first : forall l s s',
  s <> Done -> steps s l = Some s' ->
  (count_yield l = 0 /\ take_seg l = l) \/
  (exists n, count_yield l = S n /\ count_yield (drop_seg l) = n /\
             steps s (take_seg l) = Some Closed /\ take_seg l <> [] /\
             steps Closed (drop_seg l) = Some s').
Proof.
  induction l as [|t l IH]; intros s s' Hs H.
  - left; split; reflexivity.
  - simpl in H. destruct (step s t) as [s1|] eqn:E; [|discriminate].
    destruct t.
    + (* TStart *) destruct s; try discriminate. injection E as <-.
      destruct (IH Open s' ltac:(discriminate) H) as [[C T]|(n & C & D & S1 & NE & S2)].
      * left. simpl. rewrite C, T. split; reflexivity.
      * right. exists n. simpl. rewrite S1. repeat split; auto. discriminate.
    + destruct s; try discriminate. injection E as <-.
      destruct (IH Open s' ltac:(discriminate) H) as [[C T]|(n & C & D & S1 & NE & S2)].
      * left. simpl. rewrite C, T. split; reflexivity.
      * right. exists n. simpl. rewrite S1. repeat split; auto. discriminate.
    + destruct s; try discriminate. injection E as <-.
      destruct (IH Open s' ltac:(discriminate) H) as [[C T]|(n & C & D & S1 & NE & S2)].
      * left. simpl. rewrite C, T. split; reflexivity.
      * right. exists n. simpl. rewrite S1. repeat split; auto. discriminate.
    + (* TRet *) destruct s; try discriminate. injection E as <-.
      apply steps_done in H. subst l. left. split; reflexivity.
    + (* TYield *) destruct s; try discriminate. injection E as <-.
      right. exists (count_yield l). simpl. repeat split; auto. discriminate.
    + destruct s; try discriminate. injection E as <-.
      apply steps_done in H. subst l. left. split; reflexivity.
Qed.

Lemma drop_segs_nil : forall k, drop_segs k [] = [].
Proof. induction k; simpl; auto. Qed.

(* the k-th segment of a well-formed run is itself a well-formed run *)
Lemma seg_at_steps : forall k l s',
  steps Closed l = Some s' ->
  (k < count_yield l -> steps Closed (seg_at k l) = Some Closed /\ seg_at k l <> []) /\
  (k = count_yield l -> steps Closed (seg_at k l) = Some s').
Proof.
  induction k as [|k IH]; intros l s' H.
  - unfold seg_at; simpl.
    destruct (cut_first l Closed s' ltac:(discriminate) H) as [[C T]|(n & C & D & S1 & NE & S2)].
    + split; [lia|]. intros _. rewrite T. exact H.
    + split; [intros _; split; assumption|lia].
  - unfold seg_at; simpl. fold (seg_at k (drop_seg l)).
    destruct (cut_first l Closed s' ltac:(discriminate) H) as [[C T]|(n & C & D & S1 & NE & S2)].
    + split; [lia|lia].
    + destruct (IH (drop_seg l) s' S2) as [A B]. split; intros Hk.
      * apply A. lia.
      * apply B. lia.
Qed.

Fixpoint single (l : list tok) : bool :=
  match l with
  | [] => true
  | TYield :: r => match r with [] => true | _ => false end
  | _ :: r => single r
  end.

Lemma single_take : forall l, single (take_seg l) = true.
Proof. induction l as [|t l IH]; simpl; auto. destruct t; simpl; auto. Qed.

Lemma single_seg_at : forall k l, single (seg_at k l) = true.
Proof. intros. apply single_take. Qed.

(* a single well-formed segment that reached its end reads as a node *)
Lemma mids_ok : forall r kids s1,
  steps Open r = Some s1 -> s1 <> Open -> single r = true ->
  Forall (fun n => clean n = true) kids ->
  exists b e, mids r kids = Some (b, e) /\ cleans b = true /\ e <> EPending.
Proof.
  induction r as [|t r IH]; intros kids s1 H Hs Hsg Hk.
  - simpl in H. injection H as <-. contradiction.
  - simpl in H. destruct t; simpl in H; try discriminate.
    + (* TKid *)
      destruct kids as [|n ks]; simpl.
      * apply (IH [] s1); auto.
      * inversion Hk as [|n' ks' Hn Hks]; subst.
        destruct (IH ks s1 H Hs Hsg Hks) as (b & e & M & C & E). rewrite M.
        exists (ICall n b), e. split; [reflexivity|]. split; [|exact E].
        simpl. rewrite C, Hn. reflexivity.
    + destruct (IH kids s1 H Hs Hsg Hk) as (b & e & M & C & E). simpl. rewrite M.
      exists (ILine 0 b), e. auto.
    + apply steps_done in H. subst r. simpl. exists INil, EReturn. repeat split; auto; discriminate.
    + simpl in Hsg. destruct r; [|discriminate]. simpl. exists INil, EYield. repeat split; auto; discriminate.
    + apply steps_done in H. subst r. simpl. exists INil, ERaise. repeat split; auto; discriminate.
Qed.

(* ---------- one function ---------- *)
Lemma func_ok_clean : forall g fx fn, func_ok g fx fn = true -> fx = true \/ clean_b 0 (f_body fn) = true.
Proof.
  intros g fx fn H. unfold func_ok in H. apply andb_true_iff in H. destruct H as [H _].
  apply andb_true_iff in H. destruct H as [_ H]. apply orb_true_iff in H. exact H.
Qed.

Lemma func_ok_tflag : forall g fx fn, func_ok g fx fn = true -> f_tflag fn = true -> is_term (f_body fn) = true.
Proof.
  intros g fx fn H T. unfold func_ok in H. apply andb_true_iff in H. destruct H as [H _].
  apply andb_true_iff in H. destruct H as [H _]. rewrite T in H. exact H.
Qed.

Lemma func_ok_wrap : forall g fx fn, func_ok g fx fn = true -> cv_wrap2 g && wrapped (f_kind fn) = false.
Proof.
  intros g fx fn H. unfold func_ok in H. apply andb_true_iff in H. destruct H as [_ H].
  destruct (cv_wrap2 g), (wrapped (f_kind fn)); simpl in *; auto.
Qed.

Lemma body_steps : forall g fx gen fn n o t out r,
  (forall k, cv_fall g k = true) -> func_ok g fx fn = true ->
  exec_b fx gen n 0 (f_body fn) o = (t, out, r) ->
  exists s', steps Open (t ++ finish g fx (f_kind fn) (f_tflag fn) out) = Some s' /\
             (final out = true -> s' = Done).
Proof.
  intros g fx gen fn n o t out r Hg Hok E.
  destruct (exec_inv fx gen n) as (_ & Ib & _).
  pose proof (Ib 0 (f_body fn) o (func_ok_clean _ _ _ Hok)) as Hi. rewrite E in Hi.
  destruct Hi as (H1 & H2 & H3); simpl in *.
  destruct (term_sound fx gen n) as (_ & Tb & _).
  pose proof (Tb 0 (f_body fn) o) as Ht. rewrite E in Ht. unfold out_of in Ht; simpl in Ht.
  rewrite (steps_app _ _ _ _ H1).
  destruct out as [|[|]|c| |]; simpl.
  - unfold falloff. rewrite Hg. destruct (f_tflag fn) eqn:Tf.
    + exfalso. apply Ht; [|reflexivity]. eapply func_ok_tflag; eassumption.
    + simpl. eexists; split; [reflexivity|auto].
  - rewrite (H3 eq_refl). simpl. eexists; split; [reflexivity|auto].
  - rewrite andb_false_r. simpl. eexists; split; [reflexivity|auto].
  - rewrite (func_ok_wrap _ _ _ Hok). eexists; split; [reflexivity|auto].
  - eexists; split; [reflexivity|]. discriminate.
  - eexists; split; [reflexivity|]. discriminate.
Qed.

Lemma run_steps : forall g fx fn n o toks out,
  (forall k, cv_fall g k = true) -> func_ok g fx fn = true -> run g fx fn n o = (toks, out) ->
  exists s', steps Closed toks = Some s' /\ (final out = true -> s' = Done).
Proof.
  intros g fx fn n o toks out Hg Hok E. unfold run in E.
  destruct (f_kind fn) as [c w|i c] eqn:K.
  - destruct (exec_b fx false n 0 (f_body fn) o) as [[t out'] r] eqn:Eb.
    injection E as <- <-. simpl. rewrite <- K.
    eapply body_steps; eassumption.
  - destruct o as [|c0 o'].
    { injection E as <- <-. simpl. eexists; split; [reflexivity|]. discriminate. }
    destruct (c_exc c0).
    { injection E as <- <-. simpl. eexists; split; [reflexivity|auto]. }
    destruct (exec_b fx (gen_allowed (KGen i c)) n 0 (f_body fn) o') as [[t out'] r] eqn:Eb.
    injection E as <- <-. simpl. rewrite <- K.
    eapply body_steps; eassumption.
Qed.

(* a completed segment = start token, kids and lines, one end token *)
Lemma seg_complete_shape : forall g fx fn n o toks out k kids,
  (forall k, cv_fall g k = true) -> func_ok g fx fn = true -> run g fx fn n o = (toks, out) ->
  complete_seg k toks out = true -> Forall (fun n => clean n = true) kids ->
  exists s r b e, seg_at k toks = TStart s :: r /\ mids r kids = Some (b, e) /\
                  cleans b = true /\ e <> EPending.
Proof.
  intros g fx fn n o toks out k kids Hg Hok E Hc Hk.
  destruct (run_steps g fx fn n o toks out Hg Hok E) as (s' & S & F).
  destruct (seg_at_steps k toks s' S) as [A B].
  assert (Hseg : exists s1, steps Closed (seg_at k toks) = Some s1 /\ s1 <> Open /\ seg_at k toks <> []).
  { unfold complete_seg in Hc. apply orb_true_iff in Hc. destruct Hc as [Hc|Hc].
    - apply Nat.ltb_lt in Hc. destruct (A Hc) as [A1 A2]. exists Closed. repeat split; auto. discriminate.
    - apply andb_true_iff in Hc. destruct Hc as [Hc Hf]. apply Nat.eqb_eq in Hc.
      specialize (B Hc). rewrite (F Hf) in B. exists Done. repeat split; auto; try discriminate.
      intros N. rewrite N in B. discriminate. }
  destruct Hseg as (s1 & S1 & N1 & NE).
  pose proof (single_seg_at k toks) as Sg.
  destruct (seg_at k toks) as [|t0 r]; [contradiction|].
  simpl in S1. destruct t0; try discriminate. simpl in S1.
  destruct (mids_ok r kids s1 S1 N1 Sg Hk) as (b & e & M & C & Ee).
  exists s, r, b, e. auto.
Qed.

Lemma expand_mids : forall t fx lt f r ns b e,
  mids r ns = Some (b, e) -> e <> EPending ->
  expand t lt f r (map (ev_cy t fx lt) ns) = evs_cy t fx lt f b ++ end_cy t fx e f.
Proof.
  induction r as [|k r IH]; intros ns b e M Ee; [discriminate|].
  destruct k; simpl in M; try discriminate.
  - destruct ns as [|n ks].
    + simpl. apply (IH [] b e M Ee).
    + destruct (mids r ks) as [[b' e']|] eqn:M'; [|discriminate]. injection M as <- <-.
      simpl. rewrite (IH ks b' e' M' Ee). rewrite app_assoc. reflexivity.
  - destruct (mids r ns) as [[b' e']|] eqn:M'; [|discriminate]. injection M as <- <-.
    simpl. rewrite (IH ns b' e' M' Ee). rewrite app_assoc. reflexivity.
  - destruct r; [|discriminate]. injection M as <- <-. simpl. rewrite app_nil_r. reflexivity.
  - destruct r; [|discriminate]. injection M as <- <-. simpl. rewrite app_nil_r. reflexivity.
  - destruct r; [|discriminate]. injection M as <- <-. simpl. rewrite app_nil_r. reflexivity.
Qed.

(* ---------- programs ---------- *)
Scheme xt_ind2 := Induction for xt Sort Prop
  with xts_ind2 := Induction for xts Sort Prop.
Combined Scheme xt_mut from xt_ind2, xts_ind2.

Lemma prog_ok_nth : forall g fx prog f fn,
  prog_ok g fx prog = true -> nth_error prog f = Some fn -> func_ok g fx fn = true.
Proof.
  intros g fx prog f fn H N. unfold prog_ok in H. rewrite forallb_forall in H.
  apply H. eapply nth_error_In; eassumption.
Qed.

Theorem program_node : forall g fx prog,
  (forall k, cv_fall g k = true) -> prog_ok g fx prog = true ->
  (forall x, complete g fx prog x = true ->
     exists n, to_node g fx prog x = Some n /\ clean n = true /\
               forall t lt, word g fx t lt prog x = ev_cy t fx lt n) /\
  (forall xs, completes g fx prog xs = true ->
     exists ns, to_nodes g fx prog xs = Some ns /\ Forall (fun n => clean n = true) ns /\
                forall t lt, words g fx t lt prog xs = map (ev_cy t fx lt) ns).
Proof.
  intros g fx prog Hg Hp. apply xt_mut.
  - intros f o fuel k kids IH Hc. cbn [complete] in Hc.
    apply andb_true_iff in Hc. destruct Hc as [Hc Hk].
    destruct (IH Hk) as (ns & TN & CN & WN).
    destruct (nth_error prog f) as [fn|] eqn:Nf; [|discriminate].
    destruct (run g fx fn fuel o) as [toks out] eqn:R.
    destruct (seg_complete_shape g fx fn fuel o toks out k ns Hg (prog_ok_nth _ _ _ _ _ Hp Nf) R Hc CN)
      as (s & r & b & e & Sg & M & Cb & Ee).
    assert (So : seg_of g fx prog f o fuel k = TStart s :: r).
    { unfold seg_of. rewrite Nf, R. exact Sg. }
    exists (Node f s b e). split; [|split].
    + cbn [to_node]. rewrite TN, So. unfold seg_node. rewrite M. reflexivity.
    + simpl. rewrite Cb. destruct e; try reflexivity. contradiction.
    + intros t lt. cbn [word]. rewrite So, (WN t lt). cbn [expand tok_events].
      rewrite (expand_mids t fx lt f r ns b e M Ee). reflexivity.
  - intros _. exists []. repeat split; auto.
  - intros x IHx r IHr Hc. cbn [completes] in Hc. apply andb_true_iff in Hc.
    destruct Hc as [Hx Hr].
    destruct (IHx Hx) as (n & TN & CN & WN). destruct (IHr Hr) as (ns & TNs & CNs & WNs).
    exists (n :: ns). split; [|split].
    + cbn [to_nodes]. rewrite TN, TNs. reflexivity.
    + constructor; assumption.
    + intros t lt. cbn [words]. rewrite (WN t lt), (WNs t lt). reflexivity.
Qed.

(* the balance theorem: the word of every complete execution tree of every program is a Dyck
   word with matching function ids, line events inside their activation, ending with an empty
   stack; its nesting is the tree; one start and one end per segment *)
Theorem program_events_balanced : forall g fx prog x t lt,
  (forall k, cv_fall g k = true) -> prog_ok g fx prog = true -> complete g fx prog x = true ->
  exists n, to_node g fx prog x = Some n /\
            word g fx t lt prog x = ev_cy t fx lt n /\
            parse (word g fx t lt prog x) [] [] = Some [shape_of n] /\
            count_class CStart (word g fx t lt prog x) = size n /\
            count_class CEnd (word g fx t lt prog x) = size n.
Proof.
  intros g fx prog x t lt Hg Hp Hc.
  destruct (program_node g fx prog Hg Hp) as [P _].
  destruct (P x Hc) as (n & TN & CN & WN).
  exists n. split; [exact TN|]. split; [apply WN|]. rewrite (WN t lt).
  split; [|apply one_start_one_end_per_activation; intros _; exact CN].
  apply events_well_nested. intros _. exact CN.
Qed.

(* ---------- the fall-off guard is necessary for every kind ---------- *)
Definition w_prog (k : fkind) : list func := [Func k (BCons SExpr BNil) false].
Definition w_tree : xt := XT 0 [Ch 0 true None; Ch 0 true None] 5 0 XNil.

Theorem falloff_guard_necessary : forall g k,
  cv_fall g k = false -> cv_wrap2 g = false ->
  prog_ok g false (w_prog k) = true /\ complete g false (w_prog k) w_tree = true /\
  word g false Legacy false (w_prog k) w_tree = [(KCall, 0)] /\
  well_nested (word g false Legacy false (w_prog k) w_tree) = false.
Proof.
  intros g k H Hw.
  assert (W : word g false Legacy false (w_prog k) w_tree = [(KCall, 0)]).
  { destruct k as [c w|i c]; cbn; unfold falloff; rewrite H; reflexivity. }
  split; [cbn; rewrite Hw; reflexivity|]. split; [|split; [exact W|rewrite W; reflexivity]].
  destruct k as [c w|i c]; cbn; unfold falloff; rewrite H; reflexivity.
Qed.

(* the seeded guard on list(genexpr): f0 calls the inlined generator expression f1, whose body
   (for: append) runs off its end *)
Definition s_prog : list func :=
  [Func (KFunc false false) (BCons SExpr (BCons SReturn BNil)) true;
   Func (KGen true true) (BCons (SLoop (BCons SExpr BNil) BNil) BNil) false].
Definition s_tree : xt :=
  XT 0 [Ch 1 true None] 9 0
     (XCons (XT 1 [Ch 0 true None; Ch 0 true None; Ch 0 true None; Ch 0 false None] 9 0 XNil) XNil).

Theorem seeded_guard_refuted :
  prog_ok g_not_inlined false s_prog = true /\
  complete g_not_inlined false s_prog s_tree = true /\
  word g_not_inlined false Legacy false s_prog s_tree = [(KCall, 0); (KCall, 1); (KRet, 0)] /\
  parse (word g_not_inlined false Legacy false s_prog s_tree) [] [] = None /\
  word as_is false Legacy false s_prog s_tree = [(KCall, 0); (KCall, 1); (KRet, 1); (KRet, 0)] /\
  parse (word as_is false Legacy false s_prog s_tree) [] [] = Some [Sh 0 [Sh 1 []]].
Proof. repeat split; reflexivity. Qed.

(* ---------- an inlined generator expression is ONE activation ---------- *)
Definition toks_of (r : list tok * outcome * list choice) : list tok := fst (fst r).

Lemma count_yield_app : forall a b, count_yield (a ++ b) = count_yield a + count_yield b.
Proof. induction a as [|t a IH]; intros b; simpl; auto. destruct t; simpl; rewrite IH; reflexivity. Qed.

Lemma count_yield_kids : forall c, count_yield (call_part c) = 0.
Proof. intros c. unfold call_part. induction (c_kids c); simpl; auto. Qed.

Lemma no_yield : forall fx n,
  (forall d s o, count_yield (toks_of (exec_s fx false n d s o)) = 0) /\
  (forall d b o, count_yield (toks_of (exec_b fx false n d b o)) = 0) /\
  (forall d body els o, count_yield (toks_of (exec_l fx false n d body els o)) = 0).
Proof.
  intros fx n. induction n as [|n [IHs [IHb IHl]]].
  - repeat split; intros; reflexivity.
  - split; [|split].
    + intros d s o. destruct s; cbn [exec_s].
      * destruct o as [|c o']; [reflexivity|]. unfold toks_of; simpl. apply count_yield_kids.
      * reflexivity.
      * destruct (Nat.eqb d 0); [|destruct fx]; reflexivity.
      * reflexivity.
      * destruct o as [|c o']; [reflexivity|].
        destruct (c_exc c); [unfold toks_of; simpl; apply count_yield_kids|].
        pose proof (IHb d (if c_go c then a else b) o') as Hi.
        destruct (exec_b fx false n d (if c_go c then a else b) o') as [[t out] o2].
        unfold toks_of in *; simpl in *. rewrite count_yield_app, count_yield_kids, Hi. reflexivity.
      * pose proof (IHl d body els o) as Hi.
        destruct (exec_l fx false n d body els o) as [[t out] o2]. exact Hi.
      * pose proof (IHb d body o) as Hi.
        destruct (exec_b fx false n d body o) as [[t1 o1] r1]. unfold toks_of in Hi; simpl in Hi.
        destruct o1 as [|p|[|]| |]; try exact Hi.
        pose proof (IHb d h r1) as Hj.
        destruct (exec_b fx false n d h r1) as [[t2 o2] r2]. unfold toks_of in *; simpl in *.
        rewrite count_yield_app, Hi, Hj. reflexivity.
      * pose proof (IHb (S d) body o) as Hi.
        destruct (exec_b fx false n (S d) body o) as [[t1 o1] r1]. unfold toks_of in Hi; simpl in Hi.
        destruct (is_stop o1); [exact Hi|].
        pose proof (IHb d fin r1) as Hj.
        destruct (exec_b fx false n d fin r1) as [[t2 o2] r2]. unfold toks_of in *; simpl in *.
        rewrite count_yield_app, Hi, Hj. reflexivity.
    + intros d b o. destruct b as [|s r]; cbn [exec_b]; [reflexivity|].
      pose proof (IHs d s o) as Hi.
      destruct (exec_s fx false n d s o) as [[t1 o1] r1]. unfold toks_of in Hi; simpl in Hi.
      destruct o1; try exact Hi.
      pose proof (IHb d r r1) as Hj.
      destruct (exec_b fx false n d r r1) as [[t2 o2] r2]. unfold toks_of in *; simpl in *.
      rewrite count_yield_app, Hi, Hj. reflexivity.
    + intros d body els o. cbn [exec_l]. destruct o as [|c o']; [reflexivity|].
      destruct (c_exc c); [unfold toks_of; simpl; apply count_yield_kids|].
      destruct (c_go c).
      * pose proof (IHb d body o') as Hi.
        destruct (exec_b fx false n d body o') as [[t1 o1] r1]. unfold toks_of in Hi; simpl in Hi.
        destruct o1; try (unfold toks_of; simpl; rewrite count_yield_app, count_yield_kids, Hi; reflexivity).
        pose proof (IHl d body els r1) as Hj.
        destruct (exec_l fx false n d body els r1) as [[t2 o2] r2]. unfold toks_of in *; simpl in *.
        rewrite !count_yield_app, count_yield_kids, Hi, Hj. reflexivity.
      * pose proof (IHb d els o') as Hi.
        destruct (exec_b fx false n d els o') as [[t out] r]. unfold toks_of in *; simpl in *.
        rewrite count_yield_app, count_yield_kids, Hi. reflexivity.
Qed.

Lemma count_yield_finish : forall g fx k tf out, count_yield (finish g fx k tf out) = 0.
Proof.
  intros g fx k tf out. destruct out as [|p|c| |]; simpl; try reflexivity.
  - unfold falloff. destruct (cv_fall g k && negb tf); reflexivity.
  - destruct (fx && p); reflexivity.
  - destruct (cv_wrap2 g && wrapped k); reflexivity.
Qed.

Theorem inlined_single_segment : forall g fx fn n o c,
  f_kind fn = KGen true c -> count_yield (fst (run g fx fn n o)) = 0.
Proof.
  intros g fx fn n o c K. unfold run. rewrite K.
  destruct o as [|c0 o']; [reflexivity|]. destruct (c_exc c0); [reflexivity|].
  destruct (no_yield fx n) as (_ & Nb & _). pose proof (Nb 0 (f_body fn) o') as Hi.
  simpl gen_allowed.
  destruct (exec_b fx false n 0 (f_body fn) o') as [[t out] r]. unfold toks_of in Hi; simpl in *.
  rewrite count_yield_app, Hi, count_yield_finish. reflexivity.
Qed.

(* plain functions too *)
Theorem function_single_segment : forall g fx fn n o c w,
  f_kind fn = KFunc c w -> count_yield (fst (run g fx fn n o)) = 0.
Proof.
  intros g fx fn n o c w K. unfold run. rewrite K.
  destruct (no_yield fx n) as (_ & Nb & _). pose proof (Nb 0 (f_body fn) o) as Hi.
  destruct (exec_b fx false n 0 (f_body fn) o) as [[t out] r]. unfold toks_of in Hi; simpl in *.
  rewrite count_yield_app, Hi, count_yield_finish. reflexivity.
Qed.

(* the layout tokens the static tie reads off the generated C *)
Theorem epilogue_fall_iff : forall g k tf,
  In EFall (epilogue g k tf) <-> (cv_fall g k = true /\ tf = false).
Proof.
  intros g k tf. unfold epilogue, falloff.
  destruct k; destruct (cv_fall g _) eqn:G; destruct tf; simpl; split; intros H;
    try (destruct H as [H1 H2]; discriminate);
    repeat (destruct H as [H|H]; try discriminate); auto; try contradiction.
Qed.

Theorem default_branch_node : forall f,
  seg_node f default_branch [] = Some (Node f SGenStart INil EReturn).
Proof. reflexivity. Qed.

(* ---------- finding: a raising cpdef function entered through its Python wrapper ---------- *)
Definition c_prog : list func := [Func (KFunc true true) (BCons SRaise BNil) true].
Definition c_tree : xt := XT 0 [] 5 0 XNil.

Theorem cpdef_wrapper_double_unwind_refuted :
  complete as_is false c_prog c_tree = true /\
  word as_is false Legacy false c_prog c_tree = [(KCall, 0); (KRet, 0); (KRet, 0)] /\
  parse (word as_is false Legacy false c_prog c_tree) [] [] = None /\
  prog_ok as_is false c_prog = false /\
  prog_ok wrap_fixed false c_prog = true /\
  word wrap_fixed false Legacy false c_prog c_tree = [(KCall, 0); (KRet, 0)] /\
  parse (word wrap_fixed false Legacy false c_prog c_tree) [] [] = Some [Sh 0 []].
Proof. repeat split; reflexivity. Qed.
