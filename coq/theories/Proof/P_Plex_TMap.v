(* C50, part 1: Transitions.TransitionMap refines a function code -> state set. *)
From Coq Require Import ZArith NArith List Bool Lia ZifyBool ZifyNat.
From CyVerif Require Import Model.M_Plex.
Import ListNotations.
Open Scope Z_scope.

(* ---------- generic list facts ---------- *)
Definition znth (l : list Z) (i : Z) : Z := nth (Z.to_nat i) l 0.

Fixpoint sorted (l : list Z) : Prop :=
  match l with
  | x :: ((y :: _) as t) => x < y /\ sorted t
  | _ => True
  end.

Lemma sorted_tail x t : sorted (x :: t) -> sorted t.
Proof. destruct t; cbn; tauto. Qed.

Lemma sorted_head_lt t : forall x, sorted (x :: t) -> forall y, In y t -> x < y.
Proof.
  induction t as [|a t IH]; intros x Hs y Hy; [contradiction|].
  destruct Hs as [Hxa Hs]. destruct Hy as [->|Hy]; [assumption|].
  specialize (IH a Hs y Hy). lia.
Qed.

Lemma sorted_nth_lt l : sorted l -> forall i j, (i < j < length l)%nat -> nth i l 0 < nth j l 0.
Proof.
  induction l as [|a t IH]; intros Hs i j Hij; [cbn in Hij; lia|].
  destruct j as [|j]; [lia|]. destruct i as [|i].
  - cbn [nth]. apply (sorted_head_lt t a Hs). apply nth_In. cbn in Hij. lia.
  - cbn [nth]. apply IH; [eapply sorted_tail; eauto|]. cbn in Hij. lia.
Qed.

Lemma sorted_nth_le l : sorted l -> forall i j, (i <= j < length l)%nat -> nth i l 0 <= nth j l 0.
Proof.
  intros Hs i j Hij. destruct (Nat.eq_dec i j) as [->|Hne]; [lia|].
  pose proof (sorted_nth_lt l Hs i j ltac:(lia)). lia.
Qed.

(* number of split points <= c *)
Definition count_le (l : list Z) (c : Z) : nat := length (filter (fun x => x <=? c) l).

Lemma count_le_cons a t c : count_le (a :: t) c = ((if (a <=? c)%Z then 1 else 0) + count_le t c)%nat.
Proof. unfold count_le. cbn [filter]. destruct (a <=? c); reflexivity. Qed.

Lemma count_le_app l1 l2 c : count_le (l1 ++ l2) c = (count_le l1 c + count_le l2 c)%nat.
Proof. unfold count_le. rewrite filter_app, app_length. reflexivity. Qed.

Lemma count_le_bound l c : (count_le l c <= length l)%nat.
Proof. unfold count_le. induction l as [|a t IH]; cbn; [lia|]. destruct (a <=? c); cbn; lia. Qed.

Lemma count_le_mono l c d : c <= d -> (count_le l c <= count_le l d)%nat.
Proof.
  intros H. induction l as [|a t IH]; [cbn; lia|]. rewrite !count_le_cons.
  destruct (Z.leb_spec a c), (Z.leb_spec a d); lia.
Qed.

Lemma count_le_split l c : forall k, (k <= length l)%nat ->
  (forall i, (i < k)%nat -> nth i l 0 <= c) ->
  (forall i, (k <= i < length l)%nat -> c < nth i l 0) ->
  count_le l c = k.
Proof.
  induction l as [|a t IH]; intros k Hk Hlo Hhi.
  - cbn in Hk. cbn. lia.
  - rewrite count_le_cons. destruct k as [|k].
    + specialize (Hhi O ltac:(cbn; lia)) as H0. cbn [nth] in H0.
      rewrite (IH O); [|lia| intros; lia |].
      * destruct (Z.leb_spec a c); lia.
      * intros i Hi. apply (Hhi (S i)). cbn. lia.
    + pose proof (Hlo O ltac:(lia)) as H0. cbn [nth] in H0.
      rewrite (IH k); [| cbn in Hk; lia | |].
      * destruct (Z.leb_spec a c); lia.
      * intros i Hi. apply (Hlo (S i)). lia.
      * intros i Hi. apply (Hhi (S i)). cbn. lia.
Qed.

(* membership makes the counts strict *)
Lemma count_in_lt l c d : In d l -> (count_le l c <= count_le l (d - 1))%nat <-> c < d.
Proof.
  intros Hin. split.
  - intros H. destruct (Z.lt_ge_cases c d) as [|Hge]; [assumption|exfalso].
    revert H. induction l as [|a t IH]; [contradiction|]. rewrite !count_le_cons.
    pose proof (count_le_mono t (d - 1) c ltac:(lia)).
    destruct Hin as [->|Hin].
    + destruct (Z.leb_spec d c), (Z.leb_spec d (d - 1)); lia.
    + intros H1. apply IH; [assumption|].
      destruct (Z.leb_spec a c), (Z.leb_spec a (d - 1)); lia.
  - intros H. apply count_le_mono. lia.
Qed.

Lemma count_in_le l c d : In d l -> (count_le l (d - 1) < count_le l c)%nat <-> d <= c.
Proof.
  intros Hin. pose proof (count_in_lt l c d Hin).
  destruct (Z.lt_ge_cases c d); split; intros; try lia.
Qed.

Lemma nth_insert {A} (d x : A) : forall k l i, (k <= length l)%nat ->
  nth i (firstn k l ++ x :: skipn k l) d =
  if (i <? k)%nat then nth i l d else if (i =? k)%nat then x else nth (i - 1) l d.
Proof.
  induction k as [|k IH]; intros l i Hk.
  - cbn [firstn skipn app]. destruct i as [|i]; [reflexivity|].
    cbn [nth]. replace (S i - 1)%nat with i by lia. reflexivity.
  - destruct l as [|a t]; [cbn in Hk; lia|]. cbn [firstn skipn app].
    destruct i as [|i]; [reflexivity|]. cbn [nth]. rewrite IH by (cbn in Hk; lia).
    destruct (Nat.ltb_spec i k), (Nat.ltb_spec (S i) (S k)); try lia; [reflexivity|].
    destruct (Nat.eqb_spec i k), (Nat.eqb_spec (S i) (S k)); try lia; [reflexivity|].
    destruct i as [|i]; [lia|]. cbn [nth]. replace (S i - 1)%nat with i by lia.
    replace (S (S i) - 1)%nat with (S i) by lia. reflexivity.
Qed.

Lemma insert_length {A} (x : A) k l : (k <= length l)%nat ->
  length (firstn k l ++ x :: skipn k l) = S (length l).
Proof.
  intros H. rewrite app_length. cbn [length]. rewrite firstn_length_le, skipn_length by assumption. lia.
Qed.

Lemma count_le_insert x k l c :
  count_le (firstn k l ++ x :: skipn k l) c = ((if (x <=? c)%Z then 1 else 0) + count_le l c)%nat.
Proof.
  rewrite count_le_app, count_le_cons.
  assert (H : count_le l c = (count_le (firstn k l) c + count_le (skipn k l) c)%nat)
    by (rewrite <- count_le_app, firstn_skipn; reflexivity).
  rewrite H. lia.
Qed.

Lemma sorted_insert x : forall l k, sorted l -> (0 < k < length l)%nat ->
  nth (k - 1) l 0 < x < nth k l 0 -> sorted (firstn k l ++ x :: skipn k l).
Proof.
  induction l as [|a t IH]; intros k Hs Hk Hx; [cbn in Hk; lia|].
  destruct k as [|k]; [lia|]. cbn [firstn skipn app].
  destruct k as [|k].
  - cbn [firstn skipn app]. cbn [Nat.sub nth] in Hx. destruct t as [|b t]; [cbn in Hk; lia|].
    cbn [nth] in Hx. cbn [sorted] in *. tauto.
  - destruct t as [|b t]; [cbn in Hk; lia|].
    assert (Hs' : sorted (b :: t)) by (eapply sorted_tail; eauto).
    specialize (IH (S k) Hs' ltac:(cbn in Hk |- *; lia)).
    replace (S (S k) - 1)%nat with (S k) in Hx by lia. cbn [nth] in Hx.
    replace (S k - 1)%nat with k in IH by lia.
    specialize (IH Hx). cbn [firstn skipn app] in IH |- *. cbn [sorted]. split; [|exact IH].
    destruct Hs; assumption.
Qed.

(* ---------- the invariant of the class docstring ---------- *)
Record tm_inv (m : tmap) : Prop := {
  inv_len : length (tm_codes m) = S (length (tm_sets m));
  inv_n : (1 <= length (tm_sets m))%nat;
  inv_first : nth 0 (tm_codes m) 0 = - maxint;
  inv_last : nth (length (tm_sets m)) (tm_codes m) 0 = maxint;
  inv_sorted : sorted (tm_codes m) }.

(* the denotation: the set of the segment [code_k, code_k+1) that contains c, i.e. k + 1 = number of
   split points <= c *)
Definition tm_get (m : tmap) (c : Z) : sset :=
  nth (count_le (tm_codes m) c - 1) (tm_sets m) s_empty.

Lemma tm_new_inv : tm_inv tm_new.
Proof. constructor; cbn; unfold maxint; try lia; auto. Qed.

Lemma tm_new_get c : tm_get tm_new c = s_empty.
Proof. unfold tm_get, tm_new. cbn [tm_sets]. destruct (_ - 1)%nat as [|[|?]]; reflexivity. Qed.

(* the definition agrees with the segment reading *)
Lemma tm_get_segment m c k : tm_inv m -> (k < length (tm_sets m))%nat ->
  nth k (tm_codes m) 0 <= c < nth (S k) (tm_codes m) 0 -> tm_get m c = nth k (tm_sets m) s_empty.
Proof.
  intros I Hk Hc. unfold tm_get.
  rewrite (count_le_split (tm_codes m) c (S k)).
  - replace (S k - 1)%nat with k by lia. reflexivity.
  - rewrite (inv_len m I). lia.
  - intros i Hi. pose proof (sorted_nth_le _ (inv_sorted m I) i k). rewrite (inv_len m I) in H. lia.
  - intros i Hi. pose proof (sorted_nth_le _ (inv_sorted m I) (S k) i). lia.
Qed.

Lemma count_le_pos m c : tm_inv m -> - maxint <= c -> (1 <= count_le (tm_codes m) c)%nat.
Proof.
  intros I Hc. destruct (tm_codes m) as [|a t] eqn:E.
  - pose proof (inv_len m I). rewrite E in H. cbn in H. lia.
  - pose proof (inv_first m I) as H. rewrite E in H. cbn [nth] in H. rewrite count_le_cons.
    destruct (Z.leb_spec a c); lia.
Qed.

Lemma count_le_lt_n m c : tm_inv m -> c < maxint -> (count_le (tm_codes m) c <= length (tm_sets m))%nat.
Proof.
  intros I Hc.
  rewrite <- (firstn_skipn (length (tm_sets m)) (tm_codes m)), count_le_app.
  pose proof (count_le_bound (firstn (length (tm_sets m)) (tm_codes m)) c) as Hb.
  rewrite firstn_length_le in Hb by (rewrite (inv_len m I); lia).
  assert (count_le (skipn (length (tm_sets m)) (tm_codes m)) c = 0)%nat; [|lia].
  pose proof (inv_last m I) as HL. pose proof (inv_len m I) as Hlen.
  destruct (skipn (length (tm_sets m)) (tm_codes m)) as [|a [|b t]] eqn:E.
  - reflexivity.
  - rewrite <- (firstn_skipn (length (tm_sets m)) (tm_codes m)) in HL.
    rewrite app_nth2 in HL by (rewrite firstn_length_le; lia).
    rewrite firstn_length_le, Nat.sub_diag, E in HL by lia. cbn [nth] in HL.
    rewrite count_le_cons. cbn. destruct (Z.leb_spec a c); lia.
  - apply (f_equal (@length Z)) in E. rewrite skipn_length in E. cbn in E. lia.
Qed.

(* ---------- the binary search ---------- *)
Lemma land_m2 x : Z.land x (-2) = 2 * (x / 2).
Proof.
  change (-2) with (Z.lnot (Z.ones 1)).
  rewrite <- Z.ldiff_land, Z.ldiff_ones_r by lia.
  rewrite Z.shiftr_div_pow2, Z.shiftl_mul_pow2 by lia. change (2 ^ 1) with 2. lia.
Qed.

Lemma div2_exact a : 2 * a / 2 = a.
Proof. rewrite Z.mul_comm. apply Z.div_mul. lia. Qed.

Lemma code_at_even l a : 0 <= a -> code_at l (2 * a) = znth l a.
Proof. intros. unfold code_at, znth. rewrite div2_exact. reflexivity. Qed.

(* termination (enough fuel = the distance) and the loop invariant map[lo] <= code < map[hi] *)
Lemma split_loop_spec codes code : sorted codes -> forall fuel a b,
  0 <= a < b -> b < Z.of_nat (length codes) -> (Z.to_nat (b - a) <= fuel)%nat ->
  znth codes a <= code < znth codes b ->
  exists a', split_loop fuel codes code (2 * a) (2 * b) = Some (2 * a', 2 * (a' + 1))
             /\ a <= a' < b /\ znth codes a' <= code < znth codes (a' + 1).
Proof.
  intros Hs. induction fuel as [|f IH]; intros a b Hab Hb Hf Hc.
  - lia.
  - cbn [split_loop]. destruct (Z.ltb_spec (2 * b - 2 * a) 4) as [Hlt|Hge].
    + exists a. replace (a + 1) with b by lia. split; [reflexivity|]. split; [lia|].
      replace b with (a + 1) in Hc by lia. replace (a + 1) with b by lia.
      replace b with (a + 1) by lia. exact Hc.
    + rewrite land_m2. replace (2 * a + 2 * b) with (2 * (a + b)) by lia. rewrite div2_exact.
      set (m := (a + b) / 2). assert (Hm : a < m < b) by (unfold m; Zify.zify_pre_hook;
        pose proof (Z.div_mod (a + b) 2 ltac:(lia)); pose proof (Z.mod_pos_bound (a + b) 2 ltac:(lia)); lia).
      rewrite code_at_even by lia.
      destruct (Z.ltb_spec code (znth codes m)) as [Hl|Hl].
      * destruct (IH a m ltac:(lia) ltac:(lia) ltac:(lia) ltac:(lia)) as (a' & E & R & C).
        exists a'. split; [exact E|]. split; [lia|exact C].
      * destruct (IH m b ltac:(lia) ltac:(lia) ltac:(lia) ltac:(lia)) as (a' & E & R & C).
        exists a'. split; [exact E|]. split; [lia|exact C].
Qed.

(* ---------- split ---------- *)
Definition count_lt (l : list Z) (c : Z) : nat := count_le l (c - 1).

Lemma znth_nth l (k : nat) : znth l (Z.of_nat k) = nth k l 0.
Proof. unfold znth. rewrite Nat2Z.id. reflexivity. Qed.

Lemma tm_split_spec m code : tm_inv m -> - maxint <= code <= maxint ->
  exists i m', tm_split m code = Some (i, m') /\ tm_inv m' /\ In code (tm_codes m')
    /\ i = 2 * Z.of_nat (count_lt (tm_codes m') code)
    /\ (forall c, tm_get m' c = tm_get m c)
    /\ (forall x, In x (tm_codes m) -> In x (tm_codes m'))
    /\ (forall x, x <= code -> count_lt (tm_codes m') x = count_lt (tm_codes m) x).
Proof.
  intros I Hc. unfold tm_split.
  pose proof (inv_len m I) as Hlen. pose proof (inv_n m I) as Hn.
  pose proof (inv_sorted m I) as Hs. pose proof (inv_last m I) as HL. pose proof (inv_first m I) as HF.
  set (n := length (tm_sets m)) in *.
  destruct (Z.eqb_spec code maxint) as [->|Hne].
  - exists (2 * Z.of_nat n), m. split; [reflexivity|]. split; [exact I|].
    split; [rewrite <- HL; apply nth_In; fold n; lia|].
    split; [|auto].
    f_equal. f_equal. unfold count_lt. symmetry. apply count_le_split.
    + lia.
    + intros i Hi. pose proof (sorted_nth_lt _ Hs i n ltac:(lia)). rewrite HL in H. lia.
    + intros i Hi. assert (i = n) by lia. subst i. rewrite HL. lia.
  - destruct (split_loop_spec (tm_codes m) code Hs (length (tm_codes m)) 0 (Z.of_nat n))
      as (a' & E & R & C); try lia.
    { rewrite znth_nth. unfold znth. cbn [Z.to_nat]. rewrite HF, HL. lia. }
    change (2 * 0) with 0 in E. rewrite E.
    rewrite code_at_even by lia.
    set (k := Z.to_nat a') in *. assert (Ea : a' = Z.of_nat k) by lia.
    rewrite Ea in C. rewrite znth_nth in C. replace (Z.of_nat k + 1) with (Z.of_nat (S k)) in C by lia.
    rewrite znth_nth in C.
    assert (Hlt_k : forall i, (i < k)%nat -> nth i (tm_codes m) 0 < nth k (tm_codes m) 0)
      by (intros; apply sorted_nth_lt; [assumption|lia]).
    assert (Hge_k : forall i, (S k <= i < length (tm_codes m))%nat -> nth (S k) (tm_codes m) 0 <= nth i (tm_codes m) 0)
      by (intros; apply sorted_nth_le; [assumption|lia]).
    rewrite Ea, znth_nth.
    destruct (Z.eqb_spec (nth k (tm_codes m) 0) code) as [Heq|Hneq].
    + exists (2 * Z.of_nat k), m. split; [reflexivity|]. split; [exact I|].
      split; [rewrite <- Heq; apply nth_In; lia|]. split; [|auto].
      f_equal. f_equal. unfold count_lt. symmetry. apply count_le_split.
      * lia.
      * intros i Hi. specialize (Hlt_k i Hi). lia.
      * intros i Hi. destruct (Nat.eq_dec i k) as [->|]; [lia|]. specialize (Hge_k i ltac:(lia)). lia.
    + rewrite div2_exact. replace (Z.of_nat k + 1) with (Z.of_nat (S k)) by lia.
      rewrite Nat2Z.id. replace (S k - 1)%nat with k by lia.
      eexists _, _. split; [reflexivity|].
      assert (HI' : tm_inv {| tm_codes := firstn (S k) (tm_codes m) ++ code :: skipn (S k) (tm_codes m);
                              tm_sets := firstn (S k) (tm_sets m) ++ nth k (tm_sets m) s_empty :: skipn (S k) (tm_sets m) |}).
      { constructor; cbn [tm_codes tm_sets].
        - rewrite !insert_length by (fold n; lia). fold n. lia.
        - rewrite insert_length by (fold n; lia). lia.
        - rewrite nth_insert by lia. cbn. exact HF.
        - rewrite insert_length by (fold n; lia). fold n. rewrite nth_insert by lia.
          destruct (Nat.ltb_spec (S n) (S k)); [lia|]. destruct (Nat.eqb_spec (S n) (S k)); [lia|].
          replace (S n - 1)%nat with n by lia. exact HL.
        - apply sorted_insert; [assumption|lia|]. replace (S k - 1)%nat with k by lia. lia. }
      split; [exact HI'|]. cbn [tm_codes tm_sets].
      split; [apply in_or_app; right; left; reflexivity|].
      assert (Hcnt : forall x, count_le (tm_codes m) x =
                (count_le (firstn (S k) (tm_codes m)) x + count_le (skipn (S k) (tm_codes m)) x)%nat)
        by (intros; rewrite <- count_le_app, firstn_skipn; reflexivity).
      assert (Hk_cnt : count_le (tm_codes m) code = S k).
      { apply count_le_split; [lia| |].
        - intros i Hi. destruct (Nat.eq_dec i k) as [->|]; [lia|]. specialize (Hlt_k i ltac:(lia)). lia.
        - intros i Hi. specialize (Hge_k i ltac:(lia)). lia. }
      assert (Hk_cnt' : count_le (tm_codes m) (code - 1) = S k).
      { apply count_le_split; [lia| |].
        - intros i Hi. destruct (Nat.eq_dec i k) as [->|]; [lia|]. specialize (Hlt_k i ltac:(lia)). lia.
        - intros i Hi. specialize (Hge_k i ltac:(lia)). lia. }
      split.
      { unfold count_lt. rewrite count_le_insert. destruct (Z.leb_spec code (code - 1)); [lia|].
        rewrite Hk_cnt'. lia. }
      split.
      { intros c. unfold tm_get. cbn [tm_codes tm_sets]. rewrite count_le_insert.
        rewrite nth_insert by (fold n; lia).
        destruct (Z.leb_spec code c) as [Hle|Hgt].
        - pose proof (count_le_mono (tm_codes m) code c Hle) as Hm. rewrite Hk_cnt in Hm.
          destruct (Nat.ltb_spec (1 + count_le (tm_codes m) c - 1) (S k)); [lia|].
          destruct (Nat.eqb_spec (1 + count_le (tm_codes m) c - 1) (S k)) as [Heq|Hneq'].
          + replace (count_le (tm_codes m) c - 1)%nat with k by lia. reflexivity.
          + f_equal. lia.
        - pose proof (count_le_mono (tm_codes m) c (code - 1) ltac:(lia)) as Hm. rewrite Hk_cnt' in Hm.
          cbn [Nat.add].
          destruct (Nat.ltb_spec (count_le (tm_codes m) c - 1) (S k)); [reflexivity|lia]. }
      split.
      { intros x Hx. rewrite <- (firstn_skipn (S k) (tm_codes m)) in Hx.
        apply in_app_or in Hx. apply in_or_app. destruct Hx; [left; assumption|right; right; assumption]. }
      { intros x Hx. unfold count_lt. rewrite count_le_insert. destruct (Z.leb_spec code (x - 1)); lia. }
Qed.

(* ---------- the update loop ---------- *)
Lemma upd_from_nth i j s : forall sets k0 k, (k < length sets)%nat ->
  nth k (upd_from k0 i j s sets) s_empty =
  if (i <=? 2 * (k0 + Z.of_nat k)) && (2 * (k0 + Z.of_nat k) <? j)
  then s_union (nth k sets s_empty) s else nth k sets s_empty.
Proof.
  induction sets as [|x t IH]; intros k0 k Hk; [cbn in Hk; lia|].
  cbn [upd_from]. destruct k as [|k].
  - cbn [nth]. replace (k0 + Z.of_nat 0) with k0 by lia. reflexivity.
  - cbn [nth]. rewrite IH by (cbn in Hk; lia). replace (k0 + 1 + Z.of_nat k) with (k0 + Z.of_nat (S k)) by lia.
    reflexivity.
Qed.

Lemma upd_from_length i j s : forall sets k0, length (upd_from k0 i j s sets) = length sets.
Proof. induction sets; intros; cbn; [reflexivity|]. rewrite IHsets. reflexivity. Qed.

(* ---------- add_set / add ---------- *)
Theorem tm_add_set_spec m c0 c1 s : tm_inv m -> - maxint <= c0 <= maxint -> - maxint <= c1 <= maxint ->
  exists m', tm_add_set m c0 c1 s = Some m' /\ tm_inv m'
    /\ forall c, - maxint <= c < maxint ->
         tm_get m' c = if (c0 <=? c) && (c <? c1) then s_union (tm_get m c) s else tm_get m c.
Proof.
  intros I H0 H1. unfold tm_add_set.
  destruct (tm_split_spec m c0 I H0) as (i & m1 & E1 & I1 & In1 & Ei & G1 & M1 & C1).
  rewrite E1.
  destruct (tm_split_spec m1 c1 I1 H1) as (j & m2 & E2 & I2 & In2 & Ej & G2 & M2 & C2).
  rewrite E2. eexists. split; [reflexivity|]. split.
  - destruct I2. constructor; cbn [tm_codes tm_sets]; rewrite ?upd_from_length; assumption.
  - intros c Hc. unfold tm_get at 1. cbn [tm_codes tm_sets].
    pose proof (count_le_pos m2 c I2 ltac:(lia)) as Hp.
    pose proof (count_le_lt_n m2 c I2 ltac:(lia)) as Hq.
    rewrite upd_from_nth by lia.
    fold (tm_get m2 c). rewrite G2, G1.
    replace (0 + Z.of_nat (count_le (tm_codes m2) c - 1)) with (Z.of_nat (count_le (tm_codes m2) c) - 1) by lia.
    pose proof (count_in_lt (tm_codes m2) c c1 In2) as HA.
    pose proof (count_in_le (tm_codes m2) c c0 (M2 _ In1)) as HB.
    fold (count_lt (tm_codes m2) c1) in HA. fold (count_lt (tm_codes m2) c0) in HB.
    destruct (Z.le_gt_cases c0 c1) as [Hle|Hgt].
    + rewrite <- (C2 c0 Hle) in Ei. subst i j.
      destruct (Z.leb_spec c0 c), (Z.ltb_spec c c1);
        match goal with |- (if ?b then _ else _) = _ => destruct b eqn:Eb end; try reflexivity; exfalso; lia.
    + (* inverted range: nothing is updated *)
      assert (Hmono : (count_lt (tm_codes m1) c1 <= count_lt (tm_codes m1) c0)%nat)
        by (apply count_le_mono; lia).
      rewrite <- (C2 c1 ltac:(lia)) in Hmono. subst i j.
      destruct (Z.leb_spec c0 c), (Z.ltb_spec c c1);
        match goal with |- (if ?b then _ else _) = _ => destruct b eqn:Eb end; try reflexivity; exfalso; lia.
Qed.

Corollary tm_add_spec m c0 c1 st : tm_inv m -> - maxint <= c0 <= maxint -> - maxint <= c1 <= maxint ->
  exists m', tm_add m c0 c1 st = Some m' /\ tm_inv m'
    /\ forall c, - maxint <= c < maxint ->
         tm_get m' c = if (c0 <=? c) && (c <? c1) then s_add st (tm_get m c) else tm_get m c.
Proof.
  intros I H0 H1. destruct (tm_add_set_spec m c0 c1 (s_single st) I H0 H1) as (m' & E & I' & G).
  exists m'. split; [exact E|]. split; [exact I'|]. intros c Hc. rewrite (G c Hc).
  destruct ((c0 <=? c) && (c <? c1)); [|reflexivity].
  unfold s_union, s_single, s_add, s_empty. apply N.bits_inj. intros k.
  rewrite N.lor_spec, !N.setbit_eqb, N.bits_0. destruct (N.eqb_spec (N.of_nat st) k); cbn;
    rewrite ?orb_true_r, ?orb_false_r; reflexivity.
Qed.

(* ---------- all operation histories ---------- *)
Inductive tm_op := OpAdd (c0 c1 : Z) (st : nat) | OpAddSet (c0 c1 : Z) (s : sset).

Definition op_ok (o : tm_op) : Prop :=
  match o with OpAdd c0 c1 _ | OpAddSet c0 c1 _ => - maxint <= c0 <= maxint /\ - maxint <= c1 <= maxint end.

Definition tm_apply (m : tmap) (o : tm_op) : option tmap :=
  match o with OpAdd c0 c1 st => tm_add m c0 c1 st | OpAddSet c0 c1 s => tm_add_set m c0 c1 s end.

Fixpoint tm_run (m : tmap) (ops : list tm_op) : option tmap :=
  match ops with [] => Some m | o :: t => do m' <- tm_apply m o; tm_run m' t end.

(* the abstract map *)
Definition f_apply (f : Z -> sset) (o : tm_op) : Z -> sset :=
  fun c => match o with
           | OpAdd c0 c1 st => if (c0 <=? c) && (c <? c1) then s_add st (f c) else f c
           | OpAddSet c0 c1 s => if (c0 <=? c) && (c <? c1) then s_union (f c) s else f c
           end.
Definition f_run (f : Z -> sset) (ops : list tm_op) : Z -> sset := fold_left f_apply ops f.

Theorem tm_refines ops : forall m f, tm_inv m -> Forall op_ok ops ->
  (forall c, - maxint <= c < maxint -> tm_get m c = f c) ->
  exists m', tm_run m ops = Some m' /\ tm_inv m'
    /\ forall c, - maxint <= c < maxint -> tm_get m' c = f_run f ops c.
Proof.
  induction ops as [|o t IH]; intros m f I Hok Hf.
  - exists m. cbn. auto.
  - inversion Hok as [|? ? Ho Ht]; subst. cbn [tm_run].
    assert (exists m1, tm_apply m o = Some m1 /\ tm_inv m1 /\
              forall c, - maxint <= c < maxint -> tm_get m1 c = f_apply f o c) as (m1 & E & I1 & G1).
    { destruct o as [c0 c1 st|c0 c1 s]; cbn in Ho; destruct Ho as [Ha Hb]; cbn [tm_apply f_apply].
      - destruct (tm_add_spec m c0 c1 st I Ha Hb) as (m1 & E & I1 & G). exists m1. split; [exact E|].
        split; [exact I1|]. intros c Hc. rewrite (G c Hc), (Hf c Hc). reflexivity.
      - destruct (tm_add_set_spec m c0 c1 s I Ha Hb) as (m1 & E & I1 & G). exists m1. split; [exact E|].
        split; [exact I1|]. intros c Hc. rewrite (G c Hc), (Hf c Hc). reflexivity. }
    rewrite E. destruct (IH m1 (f_apply f o) I1 Ht G1) as (m' & E' & I' & G').
    exists m'. split; [exact E'|]. split; [exact I'|]. exact G'.
Qed.

(* ---------- items() ---------- *)
(* every item is a segment with its set; a segment is listed iff its set or S_0 is non-empty *)
Lemma items_loop_cons els a b t x s :
  items_loop els (a :: b :: t) (x :: s) =
  (if negb (s_is_empty x) || els then [(a, b, x)] else []) ++ items_loop els (b :: t) s.
Proof. reflexivity. Qed.

Lemma items_loop_spec els : forall codes sets c0 c1 s,
  In (c0, c1, s) (items_loop els codes sets) <->
  exists k, (k < length sets)%nat /\ (S k < length codes)%nat /\ nth k codes 0 = c0 /\ nth (S k) codes 0 = c1
            /\ nth k sets s_empty = s /\ (negb (s_is_empty s) || els = true).
Proof.
  induction codes as [|a t IH]; intros sets c0 c1 s.
  - cbn. split; [contradiction|]. intros (k & _ & H & _). lia.
  - destruct t as [|b t'].
    + cbn. split; [contradiction|]. intros (k & _ & H & _). lia.
    + destruct sets as [|x sets'].
      * cbn. split; [contradiction|]. intros (k & H & _). lia.
      * rewrite items_loop_cons, in_app_iff, IH. split.
        -- intros [H|(k & Hk1 & Hk2 & E0 & E1 & Es & Hne)].
           ++ destruct (negb (s_is_empty x) || els) eqn:Eb; [|contradiction].
              destruct H as [H|[]]. inversion H; subst. exists O. cbn. repeat split; try lia.
           ++ exists (S k). cbn [nth length] in *. repeat split; try lia; assumption.
        -- intros (k & Hk1 & Hk2 & E0 & E1 & Es & Hne). destruct k as [|k].
           ++ left. cbn [nth] in *. subst. rewrite Hne. left. reflexivity.
           ++ right. exists k. cbn [nth length] in *. repeat split; try lia; assumption.
Qed.
