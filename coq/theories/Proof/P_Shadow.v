From Coq Require Import ZArith List Bool Lia ZifyBool.
From CyVerif Require Import Lib.CInt Model.M_Shadow Proof.P_CMath.
Open Scope Z_scope.

Lemma cdiv_nonneg a b : 0 <= a -> b <> 0 ->
  (if b <? 0 then (a + b + 1) / b else a / b) = Z.quot a b.
Proof.
  intros Ha Hb. destruct (Z.ltb_spec b 0) as [Hneg|Hpos].
  - (* b < 0 *)
    assert (Hq : Z.quot a b = - (a / (- b))).
    { replace b with (- (- b)) at 1 by lia. rewrite Z.quot_opp_r by lia.
      rewrite Z.quot_div_nonneg by lia. reflexivity. }
    rewrite Hq. symmetry.
    pose proof (Z.div_mod a (- b) ltac:(lia)) as E.
    pose proof (Z.mod_pos_bound a (- b) ltac:(lia)) as B.
    apply Z.div_unique with (r := a mod (- b) + b + 1); [right; lia | lia].
  - rewrite Z.quot_div_nonneg by lia. reflexivity.
Qed.

Theorem cdiv_is_trunc a b : b <> 0 -> sh_cdiv a b = Z.quot a b.
Proof.
  intros Hb. unfold sh_cdiv. destruct (Z.ltb_spec a 0) as [Ha|Ha].
  - rewrite cdiv_nonneg by lia. apply Z.quot_opp_opp; exact Hb.
  - apply cdiv_nonneg; assumption.
Qed.

Theorem cmod_is_rem a b : b <> 0 -> sh_cmod a b = Z.rem a b.
Proof.
  intros Hb. unfold sh_cmod.
  destruct (quot_facts a b Hb) as (E & Hr & Hs).
  destruct (floor_from_trunc a b Hb) as [_ Em].
  assert (Hnn : 0 <= a -> 0 <= Z.rem a b) by (apply Z.rem_nonneg; exact Hb).
  assert (Hnp : a <= 0 -> Z.rem a b <= 0) by (apply Z.rem_nonpos; exact Hb).
  set (r := Z.rem a b) in *. rewrite Em. clear Em.
  unfold adj, b2z.
  destruct (Z.eqb_spec r 0) as [R0|R0]; cbn [negb andb].
  - rewrite R0. rewrite Z.mul_0_l, Z.add_0_l. cbn. now rewrite andb_false_r.
  - destruct (Z.ltb_spec r 0), (Z.ltb_spec b 0); cbn [xorb].
    + assert (a * b <? 0 = false) by nia. rewrite H1. cbn [andb]. lia.
    + assert (a * b <? 0 = true) by nia. rewrite H1. cbn [andb].
      assert (r + 1 * b =? 0 = false) by lia. rewrite H2. cbn [negb]. lia.
    + assert (a * b <? 0 = true) by nia. rewrite H1. cbn [andb].
      assert (r + 1 * b =? 0 = false) by lia. rewrite H2. cbn [negb]. lia.
    + assert (a * b <? 0 = false) by nia. rewrite H1. cbn [andb]. lia.
Qed.
