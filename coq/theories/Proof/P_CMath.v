From Coq Require Import ZArith List Bool Lia ZifyBool.
From CyVerif Require Import Lib.CInt Model.M_CMath.
Open Scope Z_scope.

(* --- truncating vs flooring division on Z ------------------------------------------ *)

Lemma quot_facts a b : b <> 0 ->
  a = b * Z.quot a b + Z.rem a b /\ Z.abs (Z.rem a b) < Z.abs b /\ 0 <= Z.rem a b * a.
Proof.
  intros Hb. split; [apply Z.quot_rem'|]. split; [apply Z.rem_bound_abs; exact Hb|].
  apply Z.rem_sign_mul; exact Hb.
Qed.

Definition adj (r b : Z) : Z := b2z (negb (r =? 0) && xorb (r <? 0) (b <? 0)).

Lemma adj_01 r b : 0 <= adj r b <= 1.
Proof. unfold adj, b2z. destruct (negb (r =? 0) && xorb (r <? 0) (b <? 0)); lia. Qed.

Lemma adapt_python_adj bconst r b : adapt_python bconst r b = adj r b.
Proof. unfold adapt_python, adj. destruct bconst; [reflexivity|]. now rewrite lxor_neg_iff. Qed.

Lemma floor_from_trunc a b : b <> 0 ->
  a / b = Z.quot a b - adj (Z.rem a b) b /\ a mod b = Z.rem a b + adj (Z.rem a b) b * b.
Proof.
  intros Hb. destruct (quot_facts a b Hb) as (E & Hr & Hs).
  set (q := Z.quot a b) in *. set (r := Z.rem a b) in *.
  assert (Hcases : (0 <= r + adj r b * b < b \/ b < r + adj r b * b <= 0)
                   /\ a = b * (q - adj r b) + (r + adj r b * b)).
  { unfold adj, b2z.
    destruct (Z.eqb_spec r 0) as [Hr0|Hr0]; cbn [negb andb].
    - split; [lia | lia].
    - destruct (Z.ltb_spec r 0), (Z.ltb_spec b 0); cbn [xorb]; split; lia. }
  destruct Hcases as [Hc E'].
  split.
  - symmetry. eapply Z.div_unique; [exact Hc | exact E'].
  - symmetry. eapply Z.mod_unique; [exact Hc | exact E'].
Qed.

(* --- ranges of the intermediate values ---------------------------------------------- *)

Lemma quot_mul_between a b : b <> 0 ->
  (0 <= b * Z.quot a b <= a) \/ (a <= b * Z.quot a b <= 0).
Proof.
  intros Hb. destruct (Z.le_ge_cases 0 a).
  - left. apply Z.mul_quot_le; assumption.
  - right. apply Z.mul_quot_ge; assumption.
Qed.

Lemma abs_quot_le a b : b <> 0 -> Z.abs (Z.quot a b) <= Z.abs (b * Z.quot a b).
Proof. intros Hb. rewrite Z.abs_mul. pose proof (Z.abs_nonneg (Z.quot a b)). nia. Qed.

Lemma no_overflow_div w s bconst a b :
  2 <= w -> in_range w s a -> in_range w s b -> div_ub w s a b = false ->
  div_int_no_overflow w s bconst a b = true.
Proof.
  intros Hw Ha Hb Hub. unfold div_ub in Hub.
  assert (Hb0 : b <> 0) by lia.
  unfold div_int_no_overflow. rewrite adapt_python_adj.
  destruct (quot_facts a b Hb0) as (E & Hr & Hs).
  destruct (floor_from_trunc a b Hb0) as [Ed _].
  pose proof (quot_mul_between a b Hb0) as Hm.
  pose proof (abs_quot_le a b Hb0) as Hq.
  set (q := Z.quot a b) in *. set (r := Z.rem a b) in *.
  replace (a - q * b) with r by lia.
  pose proof (pow2_split w ltac:(lia)) as P2. pose proof (pow2_pos (w - 1) ltac:(lia)) as P1.
  unfold in_range, min_int, max_int in *.
  rewrite !andb_true_iff, !in_rangeb_spec. unfold in_range, min_int, max_int.
  pose proof (adj_01 r b) as Hadj.
  assert (Hqd : q - adj r b = a / b) by lia.
  destruct s.
  - (* signed *)
    assert (Hqr : - 2 ^ (w - 1) <= q <= 2 ^ (w - 1) - 1).
    { destruct (Z.eq_dec b (-1)) as [->|Hn1].
      - assert (a <> - 2 ^ (w - 1)) by lia. lia.
      - destruct (Z.eq_dec b 1) as [->|H1]; [lia|].
        assert (2 <= Z.abs b) by lia. nia. }
    repeat split; try lia.
    unfold adj, b2z in *. destruct (Z.eqb_spec r 0); cbn [negb andb] in *; [lia|].
    destruct (Z.ltb_spec r 0), (Z.ltb_spec b 0); cbn [xorb] in *; try lia.
  - (* unsigned: everything is nonnegative *)
    assert (0 <= r) by (apply Z.rem_nonneg; [exact Hb0|lia]).
    assert (adj r b = 0) by (unfold adj, b2z; destruct (Z.eqb_spec r 0); cbn [negb andb]; [reflexivity|];
                              destruct (Z.ltb_spec r 0), (Z.ltb_spec b 0); cbn [xorb]; lia).
    repeat split; try nia.
Qed.

Lemma no_overflow_mod w s bconst a b :
  2 <= w -> in_range w s a -> in_range w s b -> div_ub w s a b = false ->
  mod_int_no_overflow w s bconst a b = true.
Proof.
  intros Hw Ha Hb Hub. unfold div_ub in Hub.
  assert (Hb0 : b <> 0) by lia.
  unfold mod_int_no_overflow. rewrite adapt_python_adj.
  destruct (quot_facts a b Hb0) as (E & Hr & Hs).
  destruct (floor_from_trunc a b Hb0) as [_ Em].
  set (r := Z.rem a b) in *.
  pose proof (pow2_split w ltac:(lia)) as P2. pose proof (pow2_pos (w - 1) ltac:(lia)) as P1.
  pose proof (Z.mod_pos_bound a b) as Mp. pose proof (Z.mod_neg_bound a b) as Mn.
  unfold in_range, min_int, max_int in *.
  rewrite !andb_true_iff, !in_rangeb_spec. unfold in_range, min_int, max_int.
  assert (Hadj : adj r b = 0 \/ adj r b = 1) by (pose proof (adj_01 r b); lia).
  assert (Hnn : 0 <= a -> 0 <= r) by (apply Z.rem_nonneg; exact Hb0).
  assert (Hnp : a <= 0 -> r <= 0) by (apply Z.rem_nonpos; exact Hb0).
  destruct s; repeat split; try nia.
Qed.

(* --- main theorems ------------------------------------------------------------------ *)

Theorem div_int_floor w s bconst a b :
  2 <= w -> in_range w s a -> in_range w s b -> div_ub w s a b = false ->
  div_int w s bconst a b = a / b.
Proof.
  intros Hw Ha Hb Hub.
  pose proof (no_overflow_div w s bconst a b Hw Ha Hb Hub) as Hno.
  unfold div_int_no_overflow in Hno. rewrite !andb_true_iff, !in_rangeb_spec in Hno.
  destruct Hno as (((Hq & Hqb) & Hr) & Hres).
  unfold div_int. assert (Hw1 : 1 <= w) by lia.
  rewrite (wrap_id w s (Z.quot a b)) by assumption.
  rewrite (wrap_id w s (Z.quot a b * b)) by assumption.
  rewrite (wrap_id w s (a - Z.quot a b * b)) by assumption.
  rewrite wrap_id by assumption.
  unfold div_ub in Hub. assert (Hb0 : b <> 0) by lia.
  rewrite adapt_python_adj.
  destruct (floor_from_trunc a b Hb0) as [Ed _].
  replace (a - Z.quot a b * b) with (Z.rem a b) by (pose proof (Z.quot_rem' a b); lia).
  lia.
Qed.

Theorem mod_int_old_floor w s bconst a b :
  2 <= w -> in_range w s a -> in_range w s b -> div_ub w s a b = false ->
  mod_int_old w s bconst a b = a mod b.
Proof.
  intros Hw Ha Hb Hub.
  pose proof (no_overflow_mod w s bconst a b Hw Ha Hb Hub) as Hno.
  unfold mod_int_no_overflow in Hno. rewrite !andb_true_iff, !in_rangeb_spec in Hno.
  destruct Hno as ((Hr & Hab) & Hres).
  unfold mod_int_old. assert (Hw1 : 1 <= w) by lia.
  rewrite (wrap_id w s (Z.rem a b)) by assumption.
  rewrite (wrap_id w s (_ * b)) by assumption.
  rewrite wrap_id by assumption.
  unfold div_ub in Hub. assert (Hb0 : b <> 0) by lia.
  rewrite adapt_python_adj.
  destruct (floor_from_trunc a b Hb0) as [_ Em]. lia.
Qed.

(* Python semantics of // and % on machine integers, as an outcome *)
Definition py_floordiv (w : Z) (s : bool) (a b : Z) : outcome :=
  if b =? 0 then ZeroDivisionError
  else if in_rangeb w s (a / b) then Value (a / b) else OverflowError.
Definition py_mod (a b : Z) : outcome :=
  if b =? 0 then ZeroDivisionError else Value (a mod b).

Lemma floordiv_in_range_iff w s a b :
  2 <= w -> in_range w s a -> in_range w s b -> b <> 0 ->
  in_rangeb w s (a / b) = negb (s && (a =? min_int w s) && (b =? -1)).
Proof.
  intros Hw Ha Hb Hb0.
  destruct (s && (a =? min_int w s) && (b =? -1)) eqn:Hc; cbn [negb].
  - destruct s; [|discriminate]. cbn [andb] in Hc.
    assert (a = min_int w true /\ b = -1) as [-> ->] by lia.
    assert (E : min_int w true / -1 = 2 ^ (w - 1)).
    { symmetry. apply Z.div_unique with (r := 0); [lia|]. unfold min_int. lia. }
    rewrite E. unfold in_rangeb, min_int, max_int.
    pose proof (pow2_pos (w - 1) ltac:(lia)). lia.
  - assert (Hub : div_ub w s a b = false) by (unfold div_ub; lia).
    pose proof (no_overflow_div w s true a b Hw Ha Hb Hub) as Hno.
    unfold div_int_no_overflow in Hno. rewrite !andb_true_iff in Hno.
    destruct Hno as (_ & Hres). rewrite adapt_python_adj in Hres.
    destruct (floor_from_trunc a b Hb0) as [Ed _].
    replace (a - Z.quot a b * b) with (Z.rem a b) in Hres by (pose proof (Z.quot_rem' a b); lia).
    now rewrite Ed.
Qed.

(* With the guard on every width the generated code is exactly Python's // :
   never UB, ZeroDivisionError iff b = 0, OverflowError iff the quotient does not fit. *)
Theorem div_node_python w s bconst a b :
  2 <= w -> in_range w s a -> in_range w s b ->
  div_node true w s bconst a b = py_floordiv w s a b.
Proof.
  intros Hw Ha Hb. unfold div_node, py_floordiv.
  destruct (Z.eqb_spec b 0) as [Hb0|Hb0]; [reflexivity|].
  rewrite (floordiv_in_range_iff w s a b Hw Ha Hb Hb0).
  cbn [orb]. rewrite andb_true_r.
  destruct (s && (b =? -1) && (a =? min_int w s)) eqn:Hg.
  - replace (s && (a =? min_int w s) && (b =? -1)) with true by lia. reflexivity.
  - replace (s && (a =? min_int w s) && (b =? -1)) with false by lia. cbn [negb].
    assert (Hub : div_ub w s a b = false) by (unfold div_ub; lia).
    rewrite Hub. now rewrite div_int_floor.
Qed.

(* The current code (guard only where sizeof(type)==sizeof(long)) : same statement holds
   for w = 64 ... *)
Theorem div_node_current_64 s bconst a b :
  in_range 64 s a -> in_range 64 s b ->
  div_node false 64 s bconst a b = py_floordiv 64 s a b.
Proof.
  intros Ha Hb. rewrite <- (div_node_python 64 s bconst a b ltac:(lia) Ha Hb).
  unfold div_node. reflexivity.
Qed.

(* ... and is refuted for w = 32: INT_MIN // -1 reaches the C division (UB, SIGFPE on x86) *)
Theorem div_node_current_refuted :
  exists w s bconst a b, 2 <= w /\ in_range w s a /\ in_range w s b /\
    div_node false w s bconst a b = UB.
Proof. exists 32, true, false, (-2147483648), (-1). unfold in_range. vm_compute. intuition congruence. Qed.

Lemma mod_minus1 a : a mod -1 = 0.
Proof. symmetry. apply Z.mod_unique with (q := - a); lia. Qed.

(* current helper: Python's % for every in-range pair with b <> 0, including MIN % -1 *)
Theorem mod_int_floor w s bconst a b :
  2 <= w -> in_range w s a -> in_range w s b -> b <> 0 ->
  mod_int w s bconst a b = a mod b.
Proof.
  intros Hw Ha Hb Hb0. unfold mod_int.
  destruct (s && (b =? -1)) eqn:Hc.
  - assert (b = -1) by lia. subst b. now rewrite mod_minus1.
  - apply mod_int_old_floor; try assumption. unfold div_ub. lia.
Qed.

Theorem mod_node_python w s bconst a b :
  2 <= w -> in_range w s a -> in_range w s b ->
  mod_node w s bconst a b = py_mod a b.
Proof.
  intros Hw Ha Hb. unfold mod_node, py_mod.
  destruct (Z.eqb_spec b 0) as [Hb0|Hb0]; [reflexivity|].
  now rewrite mod_int_floor.
Qed.

Theorem mod_node_old_min_refuted :
  exists w s bconst a b, in_range w s a /\ in_range w s b /\ mod_node_old w s bconst a b = UB.
Proof. exists 64, true, false, (-9223372036854775808), (-1). unfold in_range. vm_compute. intuition congruence. Qed.

(* the evaluated C operations of the current helper never overflow *)
Theorem mod_int_no_ub w s bconst a b :
  2 <= w -> in_range w s a -> in_range w s b -> b <> 0 ->
  (s && (b =? -1) = true) \/ (div_ub w s a b = false /\ mod_int_no_overflow w s bconst a b = true).
Proof.
  intros Hw Ha Hb Hb0. destruct (s && (b =? -1)) eqn:Hc; [now left|right].
  assert (Hub : div_ub w s a b = false) by (unfold div_ub; lia).
  split; [exact Hub|]. now apply no_overflow_mod.
Qed.

(* cdivision=True is C truncation *)
Theorem cdivision_is_trunc w s a b :
  2 <= w -> in_range w s a -> in_range w s b -> div_ub w s a b = false ->
  cdiv_c w s a b = Z.quot a b /\ cmod_c w s a b = Z.rem a b.
Proof.
  intros Hw Ha Hb Hub.
  pose proof (no_overflow_div w s true a b Hw Ha Hb Hub) as Hno.
  unfold div_int_no_overflow in Hno. rewrite !andb_true_iff, !in_rangeb_spec in Hno.
  destruct Hno as (((Hq & Hqb) & Hr) & _).
  unfold cdiv_c, cmod_c. split; [apply wrap_id; [lia|assumption]|].
  apply wrap_id; [lia|].
  replace (Z.rem a b) with (a - Z.quot a b * b) by (pose proof (Z.quot_rem' a b); lia). assumption.
Qed.
