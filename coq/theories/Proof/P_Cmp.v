(* Proofs for Model/M_Cmp.v, parts 1 (cascaded comparisons) and 2 (FlattenInListTransform). *)
From Coq Require Import ZArith List Bool Lia.
From CyVerif Require Import Lib.CInt Model.M_Cmp.
Import ListNotations.
Open Scope Z_scope.

(* ------------------------------------------------------------------------------------ *)
(* Part 1                                                                                *)
(* ------------------------------------------------------------------------------------ *)
Section CascadeProofs.
  Variable cmp : Z -> val -> val -> val + exn.
  Variable truth : val -> bool + exn.

  (* what the reference does once the comparison result r of the link ending in vr is known *)
  Definition ref_after (r vr : val) (rest : list (Z * operand)) (tr : list event)
    : list event * outcome val :=
    match rest with
    | [] => (tr, OVal r)
    | _ :: _ =>
      let tr3 := tr ++ [EvTruth r] in
      match truth r with
      | inr x => (tr3, ORaise x)
      | inl false => (tr3, OVal r)
      | inl true => ref_links cmp truth vr rest tr3
      end
    end.

  Lemma ref_links_cons : forall vl op e rest tr,
    ref_links cmp truth vl ((op, e) :: rest) tr =
    match o_res e with
    | inr x => (tr ++ ev_of e, ORaise x)
    | inl vr =>
      match cmp op vl vr with
      | inr x => ((tr ++ ev_of e) ++ [EvCmp op vl vr], ORaise x)
      | inl r => ref_after r vr rest ((tr ++ ev_of e) ++ [EvCmp op vl vr])
      end
    end.
  Proof.
    intros. cbn [ref_links]. destruct (o_res e); [|reflexivity].
    destruct (cmp op vl v); [|reflexivity]. unfold ref_after. destruct rest; reflexivity.
  Qed.

  Lemma upd_same : forall temps t v, upd temps t v t = Some v.
  Proof. intros. unfold upd. rewrite Nat.eqb_refl. reflexivity. Qed.
  Lemma upd_other : forall temps t v j, j <> t -> upd temps t v j = temps j.
  Proof. intros. unfold upd. destruct (Nat.eqb_spec j t); congruence. Qed.

  (* ok = the truth test cannot fail, or it is checked *)
  Lemma exec_gen_cascade : forall chk rest i temps r vr tr,
    (chk = true \/ forall v x, truth v <> inr x) ->
    temps i = Some vr ->
    exec cmp truth chk (gen_cascade i rest) temps (Some r) tr = ref_after r vr rest tr.
  Proof.
    intros chk rest. induction rest as [|[op e] rest IH]; intros i temps r vr tr Hok Hi.
    - reflexivity.
    - cbn [gen_cascade exec ref_after].
      destruct (truth r) as [[|]|x] eqn:Ht.
      + rewrite ref_links_cons. destruct (o_res e) as [v|x]; [|reflexivity].
        rewrite upd_other by lia. rewrite Hi, upd_same.
        destruct (cmp op vr v) as [r2|x]; [|reflexivity].
        apply IH; [assumption|apply upd_same].
      + reflexivity.
      + destruct Hok as [->|Hno]; [reflexivity|]. exfalso. exact (Hno _ _ Ht).
  Qed.

  Lemma run_cascade_eq : forall chk (c : cascade),
    (chk = true \/ forall v x, truth v <> inr x) ->
    snd c <> [] -> run_cascade cmp truth chk c = ref_cascade cmp truth c.
  Proof.
    intros chk [e0 links] Hok Hne. cbn [snd fst] in *. unfold run_cascade, ref_cascade, gen_primary.
    cbn [snd fst]. destruct links as [|[op e1] rest]; [congruence|].
    cbn [exec]. cbn [app]. destruct (o_res e0) as [v0|x]; [|reflexivity].
    rewrite ref_links_cons. destruct (o_res e1) as [v1|x]; [|reflexivity].
    rewrite upd_other by lia. rewrite !upd_same.
    destruct (cmp op v0 v1) as [r|x]; [|reflexivity].
    apply exec_gen_cascade; [assumption|apply upd_same].
  Qed.

  (* operand events of the reference: a prefix of the operands, in order *)
  Lemma filter_app_op : forall (a b : list event),
    filter is_opev (a ++ b) = filter is_opev a ++ filter is_opev b.
  Proof. intros. apply filter_app. Qed.

  Lemma ref_links_ops : forall links vl tr ids,
    Forall (fun l => o_log (snd l) = true) links ->
    filter is_opev tr = map EvOp ids ->
    exists n, filter is_opev (fst (ref_links cmp truth vl links tr))
              = map EvOp (ids ++ firstn n (map o_id (map snd links))).
  Proof.
    induction links as [|[op e] rest IH]; intros vl tr ids Hall Htr.
    - exists 0%nat. cbn. rewrite app_nil_r. exact Htr.
    - inversion Hall as [|? ? He Hrest]; subst. cbn [snd] in He.
      assert (Hev : filter is_opev (tr ++ ev_of e) = map EvOp (ids ++ [o_id e])).
      { rewrite filter_app_op, Htr. unfold ev_of. rewrite He. cbn. rewrite map_app. reflexivity. }
      assert (Hev2 : forall x, filter is_opev ((tr ++ ev_of e) ++ [x]) = map EvOp (ids ++ [o_id e])
                               \/ is_opev x = true).
      { intros x. destruct (is_opev x) eqn:E; [right; reflexivity|left].
        rewrite filter_app_op, Hev. cbn. rewrite E. apply app_nil_r. }
      rewrite ref_links_cons.
      destruct (o_res e) as [vr|x].
      2:{ exists 1%nat. cbn [fst map firstn snd]. exact Hev. }
      destruct (cmp op vl vr) as [r|x].
      2:{ exists 1%nat. cbn [fst map firstn snd].
          destruct (Hev2 (EvCmp op vl vr)) as [H|H]; [exact H|discriminate]. }
      assert (Hc : filter is_opev ((tr ++ ev_of e) ++ [EvCmp op vl vr]) = map EvOp (ids ++ [o_id e])).
      { destruct (Hev2 (EvCmp op vl vr)) as [H|H]; [exact H|discriminate]. }
      unfold ref_after. destruct rest as [|l rest'].
      { exists 1%nat. cbn [fst map firstn snd]. exact Hc. }
      assert (Ht : filter is_opev (((tr ++ ev_of e) ++ [EvCmp op vl vr]) ++ [EvTruth r])
                   = map EvOp (ids ++ [o_id e])).
      { rewrite filter_app_op, Hc. cbn. apply app_nil_r. }
      destruct (truth r) as [[|]|x].
      + destruct (IH vr _ _ Hrest Ht) as [n Hn]. exists (S n).
        rewrite Hn. f_equal. rewrite <- app_assoc. reflexivity.
      + exists 1%nat. cbn [fst map firstn snd]. exact Ht.
      + exists 1%nat. cbn [fst map firstn snd]. exact Ht.
  Qed.
End CascadeProofs.

Theorem cascade_trace_eq : forall cmp truth (c : cascade),
  snd c <> [] -> run_cascade cmp truth true c = ref_cascade cmp truth c.
Proof. intros. apply run_cascade_eq; [left; reflexivity|assumption]. Qed.

Theorem cascade_old_eq_partial : forall cmp truth (c : cascade),
  snd c <> [] -> (forall v x, truth v <> inr x) ->
  run_cascade cmp truth false c = ref_cascade cmp truth c.
Proof. intros. apply run_cascade_eq; [right; assumption|assumption]. Qed.

Theorem cascade_old_refuted : exists cmp truth (c : cascade),
  snd c <> [] /\ run_cascade cmp truth false c <> ref_cascade cmp truth c.
Proof.
  exists (fun _ _ _ => inl 7), (fun _ => inr 5),
         (mkOp 0 true (inl 1), [(0, mkOp 1 true (inl 2)); (0, mkOp 2 true (inl 3))]).
  split; [discriminate|]. vm_compute. intros H. inversion H.
Qed.

Definition all_logged (c : cascade) : Prop :=
  o_log (fst c) = true /\ Forall (fun l => o_log (snd l) = true) (snd c).

Theorem cascade_operands_once : forall cmp truth (c : cascade),
  snd c <> [] -> all_logged c ->
  exists n, filter is_opev (fst (run_cascade cmp truth true c))
            = map EvOp (firstn n (map o_id (fst c :: map snd (snd c)))).
Proof.
  intros cmp truth c Hne [H0 Hall]. rewrite cascade_trace_eq by assumption.
  destruct c as [e0 links]. cbn [fst snd] in *. unfold ref_cascade. cbn [fst snd].
  destruct (o_res e0) as [v0|x].
  - destruct (ref_links_ops cmp truth links v0 (ev_of e0) [o_id e0] Hall) as [n Hn].
    { unfold ev_of. rewrite H0. reflexivity. }
    exists (S n). rewrite Hn. reflexivity.
  - exists 1%nat. cbn [fst map firstn]. unfold ev_of. rewrite H0. reflexivity.
Qed.

(* ------------------------------------------------------------------------------------ *)
(* Part 2                                                                                *)
(* ------------------------------------------------------------------------------------ *)
Definition pure_op (o : operand) : Prop := o_log o = false /\ exists v, o_res o = inl v.
Definition simple_pure (e : intest) : Prop :=
  (i_lhs_simple e = true -> pure_op (i_lhs e)) /\
  Forall (fun m => m_simple m = true -> pure_op (m_op m)) (i_members e).
Definition set_hashable (hashable : val -> bool) (e : intest) : Prop :=
  i_kind e = KSet ->
  (forall x, o_res (i_lhs e) = inl x -> hashable x = true) /\
  Forall (fun m => forall v, o_res (m_op m) = inl v -> hashable v = true) (i_members e).

Section FlattenProofs.
  Variable same : val -> val -> bool.
  Variable eqb : val -> val -> bool.
  Variable hashable : val -> bool.
  Variable te : exn.
  Hypothesis Hsym : forall a b, eqb a b = eqb b a.
  Hypothesis Hrefl : forall a b, same a b = true -> eqb a b = true.

  Lemma contains_eq : forall x vs, contains same eqb x vs = existsb (eqb x) vs.
  Proof.
    intros x vs. unfold contains. induction vs as [|v vs IH]; [reflexivity|].
    cbn [existsb]. rewrite IH. f_equal.
    destruct (same v x) eqn:E.
    - cbn. rewrite (Hsym x v). symmetry. apply Hrefl. exact E.
    - cbn. apply Hsym.
  Qed.

  (* the value a member contributes to the comparison chain under env *)
  Definition mval (env : nat -> option val) (i : nat) (m : member) (v : val) : Prop :=
    (m_simple m = true -> o_log (m_op m) = false /\ o_res (m_op m) = inl v) /\
    (m_simple m = false -> env i = Some v).

  Fixpoint mvals (env : nat -> option val) (i : nat) (ms : list member) (vs : list val) : Prop :=
    match ms, vs with
    | [], [] => True
    | m :: ms', v :: vs' => mval env i m v /\ mvals env (S i) ms' vs'
    | _, _ => False
    end.

  Lemma eval_one : forall neg env i m v x tr,
    env 0%nat = Some x -> mval env i m v ->
    eval_t same eqb hashable te
           (TCmp neg (ARef 0) (if m_simple m then AInl (m_op m) else ARef i)) env tr
    = (tr, OVal (xorb neg (eqb x v))).
  Proof.
    intros neg env i m v x tr H0 [Hs Hn]. cbn [eval_t eval_atom]. rewrite H0.
    destruct (m_simple m).
    - destruct (Hs eq_refl) as [Hl Hr]. cbn [eval_atom]. unfold ev_of. rewrite Hl, Hr.
      rewrite app_nil_r. reflexivity.
    - cbn [eval_atom]. rewrite (Hn eq_refl). reflexivity.
  Qed.

  Lemma eval_or : forall a c env tr b bc,
    eval_t same eqb hashable te a env tr = (tr, OVal b) ->
    eval_t same eqb hashable te c env tr = (tr, OVal bc) ->
    eval_t same eqb hashable te (TOr a c) env tr = (tr, OVal (b || bc)).
  Proof.
    intros a c env tr b bc Ha Hc. cbn [eval_t]. rewrite Ha. destruct b; [reflexivity|].
    rewrite Hc. reflexivity.
  Qed.

  Lemma eval_and : forall a c env tr b bc,
    eval_t same eqb hashable te a env tr = (tr, OVal b) ->
    eval_t same eqb hashable te c env tr = (tr, OVal bc) ->
    eval_t same eqb hashable te (TAnd a c) env tr = (tr, OVal (b && bc)).
  Proof.
    intros a c env tr b bc Ha Hc. cbn [eval_t]. rewrite Ha. destruct b; [|reflexivity].
    rewrite Hc. reflexivity.
  Qed.

  Lemma chain_or : forall ms i vs acc b env tr x,
    env 0%nat = Some x -> mvals env i ms vs ->
    eval_t same eqb hashable te acc env tr = (tr, OVal b) ->
    eval_t same eqb hashable te (fold_left TOr (conds_from false i ms) acc) env tr
    = (tr, OVal (b || existsb (eqb x) vs)).
  Proof.
    induction ms as [|m ms IH]; intros i vs acc b env tr x H0 Hm Hacc.
    - destruct vs; [|contradiction]. cbn. rewrite orb_false_r. exact Hacc.
    - destruct vs as [|v vs]; [contradiction|]. destruct Hm as [Hm1 Hm2].
      cbn [conds_from fold_left existsb].
      rewrite (IH (S i) vs _ (b || eqb x v) env tr x H0 Hm2).
      + rewrite orb_assoc. reflexivity.
      + apply eval_or; [exact Hacc|]. pose proof (eval_one false env i m v x tr H0 Hm1) as H1.
        rewrite xorb_false_l in H1. exact H1.
  Qed.

  Lemma chain_and : forall ms i vs acc b env tr x,
    env 0%nat = Some x -> mvals env i ms vs ->
    eval_t same eqb hashable te acc env tr = (tr, OVal b) ->
    eval_t same eqb hashable te (fold_left TAnd (conds_from true i ms) acc) env tr
    = (tr, OVal (b && negb (existsb (eqb x) vs))).
  Proof.
    induction ms as [|m ms IH]; intros i vs acc b env tr x H0 Hm Hacc.
    - destruct vs; [|contradiction]. cbn. rewrite andb_true_r. exact Hacc.
    - destruct vs as [|v vs]; [contradiction|]. destruct Hm as [Hm1 Hm2].
      cbn [conds_from fold_left existsb].
      rewrite (IH (S i) vs _ (b && negb (eqb x v)) env tr x H0 Hm2).
      + rewrite negb_orb, andb_assoc. reflexivity.
      + apply eval_and; [exact Hacc|]. pose proof (eval_one true env i m v x tr H0 Hm1) as H1.
        rewrite xorb_true_l in H1. exact H1.
  Qed.

  (* the whole condition built by flatten, on a non-empty member list *)
  Lemma condition_eval : forall (neg : bool) m ms v vs env tr x,
    env 0%nat = Some x -> mvals env 1 (m :: ms) (v :: vs) ->
    eval_t same eqb hashable te
      (fold_left (if neg then TAnd else TOr) (tl (conds_from neg 1 (m :: ms)))
                 (hd (TBool false) (conds_from neg 1 (m :: ms)))) env tr
    = (tr, OVal (xorb neg (existsb (eqb x) (v :: vs)))).
  Proof.
    intros neg m ms v vs env tr x H0 [Hm1 Hm2]. cbn [conds_from tl hd existsb].
    destruct neg.
    - rewrite (chain_and ms 2 vs _ (xorb true (eqb x v)) env tr x H0 Hm2).
      + destruct (eqb x v); destruct (existsb (eqb x) vs); reflexivity.
      + apply eval_one; assumption.
    - rewrite (chain_or ms 2 vs _ (xorb false (eqb x v)) env tr x H0 Hm2).
      + destruct (eqb x v); destruct (existsb (eqb x) vs); reflexivity.
      + apply eval_one; assumption.
  Qed.

  (* environment after the member temps have been bound *)
  Fixpoint bind (i : nat) (ms : list member) (vs : list val) (env : nat -> option val)
    : nat -> option val :=
    match ms, vs with
    | m :: ms', v :: vs' => bind (S i) ms' vs' (if m_simple m then env else upd env i v)
    | _, _ => env
    end.

  Lemma bind_below : forall ms i vs env j, (j < i)%nat -> bind i ms vs env j = env j.
  Proof.
    induction ms as [|m ms IH]; intros i vs env j Hj; [reflexivity|].
    destruct vs as [|v vs]; [reflexivity|]. cbn [bind]. rewrite IH by lia.
    destruct (m_simple m); [reflexivity|]. unfold upd. destruct (Nat.eqb_spec j i); [lia|reflexivity].
  Qed.

  Definition members_pure (ms : list member) : Prop :=
    Forall (fun m => m_simple m = true -> pure_op (m_op m)) ms.

  Lemma lets_eval : forall ms i env tr body,
    members_pure ms ->
    eval_t same eqb hashable te (lets_from i ms body) env tr =
    match eval_members ms tr with
    | (tr1, inr x) => (tr1, ORaise x)
    | (tr1, inl vs) => eval_t same eqb hashable te body (bind i ms vs env) tr1
    end.
  Proof.
    induction ms as [|m ms IH]; intros i env tr body Hp; [reflexivity|].
    inversion Hp as [|? ? Hm Hrest]; subst. cbn [lets_from eval_members].
    destruct (m_simple m) eqn:Es.
    - destruct (Hm eq_refl) as [Hl [v Hv]]. unfold ev_of. rewrite Hl, Hv, app_nil_r.
      rewrite (IH (S i) env tr body Hrest).
      destruct (eval_members ms tr) as [tr1 [vs|x]]; [|reflexivity].
      cbn [bind]. rewrite Es. reflexivity.
    - cbn [eval_t]. destruct (o_res (m_op m)) as [v|x]; [|reflexivity].
      rewrite (IH (S i) (upd env i v) _ body Hrest).
      destruct (eval_members ms (tr ++ ev_of (m_op m))) as [tr1 [vs|x]]; [|reflexivity].
      cbn [bind]. rewrite Es. reflexivity.
  Qed.

  Lemma bind_mvals : forall ms i vs env tr tr1,
    members_pure ms -> eval_members ms tr = (tr1, inl vs) ->
    mvals (bind i ms vs env) i ms vs.
  Proof.
    induction ms as [|m ms IH]; intros i vs env tr tr1 Hp Hev.
    - cbn in Hev. inversion Hev; subst. exact I.
    - inversion Hp as [|? ? Hm Hrest]; subst. cbn [eval_members] in Hev.
      destruct (o_res (m_op m)) as [v|x] eqn:Ev; [|discriminate].
      destruct (eval_members ms (tr ++ ev_of (m_op m))) as [tr2 [vs'|x]] eqn:Er; [|discriminate].
      inversion Hev; subst. cbn [mvals bind]. split.
      + split.
        * intros Es. destruct (Hm Es) as [Hl _]. split; [exact Hl|exact Ev].
        * intros Es. rewrite bind_below by lia. rewrite Es. apply upd_same.
      + eapply IH; eassumption.
  Qed.

  Lemma members_hashable : forall ms tr tr1 vs,
    Forall (fun m => forall v, o_res (m_op m) = inl v -> hashable v = true) ms ->
    eval_members ms tr = (tr1, inl vs) -> forallb hashable vs = true.
  Proof.
    induction ms as [|m ms IH]; intros tr tr1 vs Hh Hev.
    - cbn in Hev. inversion Hev. reflexivity.
    - inversion Hh as [|? ? Hm Hrest]; subst. cbn [eval_members] in Hev.
      destruct (o_res (m_op m)) as [v|x] eqn:Ev; [|discriminate].
      destruct (eval_members ms (tr ++ ev_of (m_op m))) as [tr2 [vs'|x]] eqn:Er; [|discriminate].
      inversion Hev; subst. cbn [forallb]. rewrite (Hm v eq_refl). cbn. eapply IH; eassumption.
  Qed.

  Lemma eval_members_length : forall ms tr tr1 vs,
    eval_members ms tr = (tr1, inl vs) -> length vs = length ms.
  Proof.
    induction ms as [|m ms IH]; intros tr tr1 vs Hev.
    - cbn in Hev. inversion Hev. reflexivity.
    - cbn [eval_members] in Hev. destruct (o_res (m_op m)); [|discriminate].
      destruct (eval_members ms (tr ++ ev_of (m_op m))) as [tr2 [vs'|x]] eqn:Er; [|discriminate].
      inversion Hev; subst. cbn. f_equal. eapply IH; eassumption.
  Qed.

  (* the reference, with the set test discharged *)
  Lemma ref_in_unfold : forall e x,
    set_hashable hashable e -> o_res (i_lhs e) = inl x ->
    ref_in same eqb hashable te e =
    match eval_members (i_members e) (ev_of (i_lhs e)) with
    | (tr1, inr ex) => (tr1, ORaise ex)
    | (tr1, inl vs) => (tr1, OVal (xorb (i_not e) (existsb (eqb x) vs)))
    end.
  Proof.
    intros e x Hset Hx. unfold ref_in. rewrite Hx.
    destruct (eval_members (i_members e) (ev_of (i_lhs e))) as [tr1 [vs|ex]] eqn:Ev; [|reflexivity].
    rewrite contains_eq. destruct (i_kind e) eqn:Ek; try reflexivity.
    destruct (Hset Ek) as [Hl Hm]. cbn [is_set andb].
    rewrite (members_hashable _ _ _ _ Hm Ev), (Hl x Hx). reflexivity.
  Qed.

  Lemma flatten_main : forall e m0 rest,
    i_members e = m0 :: rest ->
    existsb m_starred (i_members e) = false ->
    is_set (i_kind e) && existsb m_unhash (i_members e) = false ->
    simple_pure e -> set_hashable hashable e ->
    run_flatten same eqb hashable te true e = ref_in same eqb hashable te e.
  Proof.
    intros e m0 rest Hms Hst Huh [_ Hp] Hset. unfold run_flatten, flatten.
    rewrite Hms. rewrite <- Hms. rewrite Hst, Huh. cbn [eval_t app].
    destruct (o_res (i_lhs e)) as [x|ex] eqn:Hx.
    2:{ unfold ref_in. rewrite Hx. reflexivity. }
    rewrite (ref_in_unfold e x Hset Hx). rewrite lets_eval by exact Hp.
    destruct (eval_members (i_members e) (ev_of (i_lhs e))) as [tr1 [vs|ex]] eqn:Ev; [|reflexivity].
    pose proof (bind_mvals _ 1 vs (upd (fun _ => None) 0 x) _ _ Hp Ev) as Hmv.
    pose proof (eval_members_length _ _ _ _ Ev) as Hlen.
    rewrite Hms in *. destruct vs as [|v vs]; [discriminate|].
    apply condition_eval; [|exact Hmv].
    rewrite bind_below by lia. apply upd_same.
  Qed.

  Lemma flatten_eq_sec : forall e,
    simple_pure e -> set_hashable hashable e ->
    run_flatten same eqb hashable te true e = ref_in same eqb hashable te e.
  Proof.
    intros e Hp Hset. destruct (i_members e) as [|m0 rest] eqn:Hms.
    - unfold run_flatten, flatten. rewrite Hms. destruct (i_lhs_simple e) eqn:Els.
      + destruct Hp as [Hl _]. destruct (Hl Els) as [Hlog [x Hx]].
        rewrite (ref_in_unfold e x Hset Hx). rewrite Hms. unfold ev_of. rewrite Hlog. cbn. rewrite xorb_false_r. reflexivity.
      + cbn [eval_t]. destruct (ref_in same eqb hashable te e). reflexivity.
    - destruct (existsb m_starred (i_members e)) eqn:Hst.
      { unfold run_flatten, flatten. rewrite Hms. rewrite <- Hms, Hst. cbn [eval_t].
        destruct (ref_in same eqb hashable te e). reflexivity. }
      destruct (is_set (i_kind e) && existsb m_unhash (i_members e)) eqn:Huh.
      { unfold run_flatten, flatten. rewrite Hms. rewrite <- Hms, Hst, Huh. cbn [eval_t].
        destruct (ref_in same eqb hashable te e). reflexivity. }
      eapply flatten_main; eassumption.
  Qed.

  Lemma lets_all_simple : forall ms i body,
    Forall (fun m => m_simple m = true) ms -> lets_from i ms body = body.
  Proof.
    induction ms as [|m ms IH]; intros i body H; [reflexivity|].
    inversion H; subst. cbn [lets_from]. rewrite H2. apply IH. assumption.
  Qed.

  Lemma flatten_old_same : forall e,
    Forall (fun m => m_simple m = true) (i_members e) -> flatten false e = flatten true e.
  Proof.
    intros e H. unfold flatten. destruct (i_members e) as [|m0 rest] eqn:Hms; [reflexivity|].
    rewrite <- Hms in *. destruct (existsb m_starred (i_members e)); [reflexivity|].
    destruct (is_set (i_kind e) && existsb m_unhash (i_members e)); [reflexivity|].
    rewrite !lets_all_simple by assumption. reflexivity.
  Qed.

  Lemma mvals_upd0 : forall ms i vs env x,
    (1 <= i)%nat -> mvals env i ms vs -> mvals (upd env 0 x) i ms vs.
  Proof.
    induction ms as [|m ms IH]; intros i vs env x Hi Hm; destruct vs as [|v vs]; try exact Hm.
    destruct Hm as [[Hs Hn] Hm2]. split.
    - split; [exact Hs|]. intros Es. rewrite upd_other by lia. exact (Hn Es).
    - apply IH; [lia|exact Hm2].
  Qed.

  Lemma flatten_old_pure_lhs : forall e,
    simple_pure e -> set_hashable hashable e -> pure_op (i_lhs e) ->
    run_flatten same eqb hashable te false e = ref_in same eqb hashable te e.
  Proof.
    intros e Hp Hset [Hlog [x Hx]].
    destruct (i_members e) as [|m0 rest] eqn:Hms.
    { rewrite <- flatten_eq_sec by assumption. unfold run_flatten, flatten. rewrite Hms. reflexivity. }
    destruct (existsb m_starred (i_members e)) eqn:Hst.
    { rewrite <- flatten_eq_sec by assumption. unfold run_flatten, flatten.
      rewrite Hms. rewrite <- Hms, Hst. reflexivity. }
    destruct (is_set (i_kind e) && existsb m_unhash (i_members e)) eqn:Huh.
    { rewrite <- flatten_eq_sec by assumption. unfold run_flatten, flatten.
      rewrite Hms. rewrite <- Hms, Hst, Huh. reflexivity. }
    destruct Hp as [_ Hp]. unfold run_flatten, flatten. rewrite Hms. rewrite <- Hms, Hst, Huh.
    rewrite (ref_in_unfold e x Hset Hx). rewrite lets_eval by exact Hp.
    unfold ev_of at 1. rewrite Hlog.
    destruct (eval_members (i_members e) []) as [tr1 [vs|ex]] eqn:Ev; [|reflexivity].
    cbn [eval_t]. unfold ev_of. rewrite Hlog, Hx, app_nil_r.
    pose proof (bind_mvals _ 1 vs (fun _ => None) _ _ Hp Ev) as Hmv.
    pose proof (eval_members_length _ _ _ _ Ev) as Hlen.
    rewrite Hms in *. destruct vs as [|v vs]; [discriminate|].
    apply condition_eval; [apply upd_same|]. apply mvals_upd0; [lia|exact Hmv].
  Qed.
End FlattenProofs.

Theorem flatten_eq : forall same eqb hashable te (e : intest),
  (forall a b, eqb a b = eqb b a) ->
  (forall a b, same a b = true -> eqb a b = true) ->
  simple_pure e -> set_hashable hashable e ->
  run_flatten same eqb hashable te true e = ref_in same eqb hashable te e.
Proof. intros. apply flatten_eq_sec; assumption. Qed.

Theorem flatten_old_eq_partial : forall same eqb hashable te (e : intest),
  (forall a b, eqb a b = eqb b a) ->
  (forall a b, same a b = true -> eqb a b = true) ->
  simple_pure e -> set_hashable hashable e ->
  (Forall (fun m => m_simple m = true) (i_members e) \/ pure_op (i_lhs e)) ->
  run_flatten same eqb hashable te false e = ref_in same eqb hashable te e.
Proof.
  intros same eqb hashable te e Hs Hr Hp Hset [Hall|Hpure].
  - unfold run_flatten. rewrite flatten_old_same by assumption. apply flatten_eq_sec; assumption.
  - apply flatten_old_pure_lhs; assumption.
Qed.

(* witnesses *)
Definition w_call (i v : Z) : operand := mkOp i true (inl v).
Definition w_lit (i v : Z) : operand := mkOp i false (inl v).
Definition w_hash (_ : val) : bool := true.

Theorem flatten_order_refuted : exists same eqb hashable te (e : intest),
  (forall a b, eqb a b = eqb b a) /\ (forall a b, same a b = true -> eqb a b = true) /\
  simple_pure e /\ set_hashable hashable e /\
  run_flatten same eqb hashable te false e <> ref_in same eqb hashable te e.
Proof.
  exists Z.eqb, Z.eqb, w_hash, 900,
    (mkIn false (w_call 0 1) false KTuple [mkM false false false (w_call 1 2)]).
  split; [intros; apply Z.eqb_sym|]. split; [intros; assumption|].
  split.
  { split; [discriminate|]. constructor; [discriminate|constructor]. }
  split; [discriminate|]. vm_compute. intros H. inversion H.
Qed.

Theorem flatten_lazy_simple_refuted : exists same eqb hashable te (e : intest),
  (forall a b, eqb a b = eqb b a) /\ (forall a b, same a b = true -> eqb a b = true) /\
  set_hashable hashable e /\
  run_flatten same eqb hashable te true e <> ref_in same eqb hashable te e.
Proof.
  exists Z.eqb, Z.eqb, w_hash, 900,
    (mkIn false (w_call 0 1) false KTuple
          [mkM true false false (w_lit 1 1); mkM true false false (mkOp 2 false (inr 77))]).
  split; [intros; apply Z.eqb_sym|]. split; [intros; assumption|].
  split; [discriminate|]. vm_compute. intros H. inversion H.
Qed.

Definition w_nan_eqb (a b : val) : bool := (a =? b) && negb (a =? 7).

Theorem flatten_identity_refuted : exists same eqb hashable te (e : intest),
  (forall a b, eqb a b = eqb b a) /\ simple_pure e /\ set_hashable hashable e /\
  run_flatten same eqb hashable te true e <> ref_in same eqb hashable te e.
Proof.
  exists Z.eqb, w_nan_eqb, w_hash, 900,
    (mkIn false (w_call 0 7) false KTuple [mkM false false false (w_call 1 7)]).
  split.
  { intros a b. unfold w_nan_eqb. destruct (Z.eqb_spec a b); [subst; rewrite Z.eqb_refl; reflexivity|].
    destruct (Z.eqb_spec b a); [congruence|reflexivity]. }
  split.
  { split; [discriminate|]. constructor; [discriminate|constructor]. }
  split; [discriminate|]. vm_compute. intros H. inversion H.
Qed.

Theorem flatten_set_unhashable_refuted : exists same eqb hashable te (e : intest),
  (forall a b, eqb a b = eqb b a) /\ (forall a b, same a b = true -> eqb a b = true) /\
  simple_pure e /\
  run_flatten same eqb hashable te true e <> ref_in same eqb hashable te e.
Proof.
  exists Z.eqb, Z.eqb, (fun v => negb (v =? 13)), 900,
    (mkIn false (w_call 0 13) false KSet [mkM true false false (w_lit 1 1)]).
  split; [intros; apply Z.eqb_sym|]. split; [intros; assumption|].
  split.
  { split; [discriminate|]. constructor; [|constructor]. intros _. split; [reflexivity|exists 1; reflexivity]. }
  vm_compute. intros H. inversion H.
Qed.
