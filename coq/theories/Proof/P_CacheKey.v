(* Proofs for C48 (compilation caches never return stale results). *)
From Coq Require Import List NArith String Bool Lia.
From CyVerif Require Import Model.M_CacheKey Gen.Gen_Fingerprint.
Import ListNotations.
Local Open Scope list_scope.

(* ------------------------------------------------------------------ *)
(* serialisation is injective                                           *)

Lemma app_eq_length {A} : forall (a b x y : list A),
  List.length a = List.length b -> (a ++ x = b ++ y)%list -> a = b /\ x = y.
Proof.
  induction a as [|h a IH]; intros [|h' b] x y Hl He; simpl in *; try discriminate.
  - auto.
  - injection He as Hh Ht. injection Hl as Hl.
    destruct (IH b x y Hl Ht) as [-> ->]. subst. auto.
Qed.

Lemma serialise_injective : forall l1 l2 : list value, serialise l1 = serialise l2 -> l1 = l2.
Proof.
  unfold serialise.
  induction l1 as [|v1 l1 IH]; intros [|v2 l2] H; simpl in *; try discriminate; auto.
  injection H as Hn Hr.
  apply Nnat.Nat2N.inj in Hn.
  destruct (app_eq_length _ _ _ _ Hn Hr) as [-> Hrest].
  f_equal. apply IH. exact Hrest.
Qed.

Lemma map_eq_pointwise {A B} (f g : A -> B) : forall l,
  map f l = map g l -> forall c, In c l -> f c = g c.
Proof.
  induction l as [|a l IH]; simpl; intros H c Hc; [contradiction|].
  injection H as Ha Hl. destruct Hc as [<-|Hc]; auto.
Qed.

(* ------------------------------------------------------------------ *)
(* the abstract cache                                                   *)

Section CacheProofs.
  Variable comp Req K Out : Type.
  Variable get : Req -> comp -> value.
  Variable hash : list N -> K.
  Variable keqb : K -> K -> bool.
  Variable compile : Req -> Out.
  Variable ok : Out -> bool.
  Variable bypass : Req -> bool.
  Variable ks aff : list comp.

  (* TRUSTED: SHA-256 has no collisions among the serialisations that occur *)
  Hypothesis hash_inj : forall a b, hash a = hash b -> a = b.
  Hypothesis keqb_spec : forall a b, keqb a b = true <-> a = b.
  (* the inputs in [aff] are all the output-affecting ones *)
  Hypothesis compile_dep : forall r1 r2,
    (forall c, In c aff -> get r1 c = get r2 c) -> compile r1 = compile r2.

  Notation key := (key comp Req get K hash ks).
  Notation find := (find K keqb Out).
  Notation step := (step comp Req get K hash keqb Out compile ok bypass ks).
  Notation exec := (exec comp Req get K hash keqb Out compile ok bypass ks).
  Notation run := (run comp Req get K hash keqb Out compile ok bypass ks).

  Lemma key_injective_on_components : forall r1 r2,
    key r1 = key r2 -> forall c, In c ks -> get r1 c = get r2 c.
  Proof using hash_inj.
    unfold M_CacheKey.key. intros r1 r2 H.
    apply hash_inj, serialise_injective in H. exact (map_eq_pointwise _ _ _ H).
  Qed.

  (* every entry of the store was produced by compiling some earlier request of [seen] *)
  Definition store_ok (seen : list Req) (st : store K Out) : Prop :=
    forall k o, In (k, o) st -> exists r, In r seen /\ k = key r /\ o = compile r.

  Lemma find_in : forall k st o, find k st = Some o -> In (k, o) st.
  Proof using keqb_spec.
    induction st as [|[k' o'] st IH]; simpl; intros o H; [discriminate|].
    destruct (keqb k k') eqn:E.
    - apply keqb_spec in E. injection H as ->. subst. auto.
    - right. auto.
  Qed.

  Lemma store_ok_mono : forall seen r st, store_ok seen st -> store_ok (seen ++ [r]) st.
  Proof using Type.
    intros seen r st H k o Hin. destruct (H k o Hin) as [r' [Hr' Hk]].
    exists r'. split; [apply in_or_app; left; exact Hr' | exact Hk].
  Qed.

  Lemma step_sound : forall seen st r st' hw o,
    incl aff ks -> store_ok seen st -> step st r = (st', (hw, o)) ->
    store_ok (seen ++ [r]) st' /\ o = compile r.
  Proof.
    intros seen st r st' hw o Hincl Hok Hstep. unfold M_CacheKey.step in Hstep.
    destruct (bypass r).
    - injection Hstep as <- _ <-. split; [apply store_ok_mono; exact Hok | reflexivity].
    - destruct (find (key r) st) as [o1|] eqn:Ef.
      + injection Hstep as <- _ <-. split; [apply store_ok_mono; exact Hok|].
        apply find_in in Ef. destruct (Hok _ _ Ef) as [r' [_ [Hk ->]]].
        apply compile_dep. intros c Hc. symmetry.
        apply (key_injective_on_components r r' Hk c). apply Hincl. exact Hc.
      + injection Hstep as <- _ <-. split; [|reflexivity].
        destruct (ok (compile r)); [|apply store_ok_mono; exact Hok].
        intros k o [He|Hin].
        * injection He as <- <-. exists r. split; [apply in_or_app; right; left; reflexivity | split; reflexivity].
        * apply (store_ok_mono seen r st Hok). exact Hin.
  Qed.

  Lemma exec_sound : forall h seen st,
    incl aff ks -> store_ok seen st -> map snd (snd (exec st h)) = map compile h.
  Proof.
    induction h as [|r h IH]; intros seen st Hincl Hok; simpl; [reflexivity|].
    destruct (step st r) as [st1 [hw o]] eqn:Es.
    destruct (step_sound seen st r st1 hw o Hincl Hok Es) as [Hok1 ->].
    specialize (IH (seen ++ [r]) st1 Hincl Hok1).
    destruct (exec st1 h) as [st2 rs]. simpl in *. f_equal. exact IH.
  Qed.

  (* MAIN: over all histories, every request (hit, miss or bypass) yields exactly what a fresh
     compilation of that request yields *)
  Theorem cache_hit_is_fresh : forall h,
    incl aff ks -> map snd (run h) = map compile h.
  Proof.
    intros h Hincl. unfold M_CacheKey.run. apply (exec_sound h [] [] Hincl).
    intros k o [].
  Qed.

  (* the other half: a request that differs from every earlier request in some key component
     is never answered from the cache *)
  Lemma exec_store : forall h seen st,
    store_ok seen st -> store_ok (seen ++ h) (fst (exec st h)).
  Proof using Type.
    induction h as [|r h IH]; intros seen st Hok; simpl.
    - rewrite app_nil_r. exact Hok.
    - destruct (step st r) as [st1 [hw o]] eqn:Es.
      assert (Hok1 : store_ok (seen ++ [r]) st1).
      { unfold M_CacheKey.step in Es. destruct (bypass r).
        - injection Es as <- _ _. apply store_ok_mono; exact Hok.
        - destruct (find (key r) st) as [o1|].
          + injection Es as <- _ _. apply store_ok_mono; exact Hok.
          + injection Es as <- _ _.
            destruct (ok (compile r)); [|apply store_ok_mono; exact Hok].
            intros k o' [He|Hin].
            * injection He as <- <-. exists r. split; [apply in_or_app; right; left; reflexivity | split; reflexivity].
            * apply (store_ok_mono seen r st Hok). exact Hin. }
      specialize (IH (seen ++ [r]) st1 Hok1).
      destruct (exec st1 h) as [st2 rs]. simpl in *. rewrite <- app_assoc in IH. exact IH.
  Qed.

  Theorem change_causes_miss : forall h r,
    (forall r', In r' h -> exists c, In c ks /\ get r c <> get r' c) ->
    fst (snd (step (fst (exec [] h)) r)) <> Hit.
  Proof using hash_inj keqb_spec.
    intros h r Hdiff. unfold M_CacheKey.step.
    destruct (bypass r); [simpl; discriminate|].
    destruct (find (key r) (fst (exec [] h))) as [o|] eqn:Ef; [|simpl; discriminate].
    exfalso. apply find_in in Ef.
    assert (Hok : store_ok ([] ++ h) (fst (exec [] h))).
    { apply exec_store. intros k o' []. }
    destruct (Hok _ _ Ef) as [r' [Hin [Hk _]]]. simpl in Hin.
    destruct (Hdiff r' Hin) as [c [Hc Hne]].
    apply Hne. exact (key_injective_on_components r r' Hk c Hc).
  Qed.
End CacheProofs.

(* ------------------------------------------------------------------ *)
(* the generated tables                                                 *)

Lemma mem_In : forall n l, mem n l = true <-> In n l.
Proof.
  intros n l. unfold mem. rewrite existsb_exists. split.
  - intros [x [Hx He]]. apply String.eqb_eq in He. subst. exact Hx.
  - intros H. exists n. split; [exact H | apply String.eqb_refl].
Qed.

Lemma fingerprint_complete_incl : forall req t,
  fingerprint_complete req t = true -> incl (required_of req t) (key_of t).
Proof.
  intros req t H. unfold fingerprint_complete in H. apply andb_true_iff in H as [H _].
  rewrite forallb_forall in H. intros n Hn. apply mem_In. apply H. exact Hn.
Qed.

(* the tree as it should be: the observed table, with the repairs that are not yet applied
   ([f8_fixed], [modopts_fixed] are written by props/C48.py) modelled by [repaired] *)
Definition effective (t : table) : table := repaired (negb f8_fixed) (negb modopts_fixed) t.

Lemma cythonize_complete : fingerprint_complete required_cythonize (effective cythonize_table) = true.
Proof. vm_compute. reflexivity. Qed.

Lemma inline_complete : fingerprint_complete required_inline (effective inline_table) = true.
Proof. vm_compute. reflexivity. Qed.

(* findings, on the tree as observed (vacuous once the flag says the repair is applied) *)
Lemma cythonize_directives_refuted :
  f8_fixed = false -> In "dir:boundscheck"%string (missing required_cythonize cythonize_table).
Proof. intro H. apply mem_In. revert H. vm_compute. intro H; first [reflexivity | discriminate H]. Qed.

Lemma inline_directives_refuted :
  f8_fixed = false -> In "inl:dir:cdivision"%string (missing required_inline inline_table).
Proof. intro H. apply mem_In. revert H. vm_compute. intro H; first [reflexivity | discriminate H]. Qed.

Lemma module_options_refuted :
  modopts_fixed = false -> In "glob:docstrings"%string (missing required_cythonize cythonize_table).
Proof. intro H. apply mem_In. revert H. vm_compute. intro H; first [reflexivity | discriminate H]. Qed.

(* independent of the state of the tree: a key that leaves the directives out is incomplete *)
Lemma without_directives_refuted :
  fingerprint_complete required_cythonize (without_directives (effective cythonize_table)) = false
  /\ fingerprint_complete required_inline (without_directives (effective inline_table)) = false.
Proof. vm_compute. split; reflexivity. Qed.

(* the cache theorem instantiated with the key components / required inputs of the tables *)
Section Instantiated.
  Variable Req K Out : Type.
  Variable get : Req -> string -> value.
  Variable hash : list N -> K.
  Variable keqb : K -> K -> bool.
  Variable compile : Req -> Out.
  Variable ok : Out -> bool.
  Variable bypass : Req -> bool.
  Hypothesis hash_inj : forall a b, hash a = hash b -> a = b.
  Hypothesis keqb_spec : forall a b, keqb a b = true <-> a = b.

  Theorem cythonize_never_stale :
    (forall r1 r2, (forall c, In c (required_of required_cythonize (effective cythonize_table)) ->
                              get r1 c = get r2 c) -> compile r1 = compile r2) ->
    forall h, map snd (run string Req get K hash keqb Out compile ok bypass
                          (key_of (effective cythonize_table)) h) = map compile h.
  Proof.
    intros Hdep h.
    apply (cache_hit_is_fresh string Req K Out get hash keqb compile ok bypass _ _ hash_inj keqb_spec Hdep).
    apply fingerprint_complete_incl. exact cythonize_complete.
  Qed.

  Theorem inline_never_stale :
    (forall r1 r2, (forall c, In c (required_of required_inline (effective inline_table)) ->
                              get r1 c = get r2 c) -> compile r1 = compile r2) ->
    forall h, map snd (run string Req get K hash keqb Out compile ok bypass
                          (key_of (effective inline_table)) h) = map compile h.
  Proof.
    intros Hdep h.
    apply (cache_hit_is_fresh string Req K Out get hash keqb compile ok bypass _ _ hash_inj keqb_spec Hdep).
    apply fingerprint_complete_incl. exact inline_complete.
  Qed.
End Instantiated.
