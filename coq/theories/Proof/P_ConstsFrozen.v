(* Proofs for property C09: the frozenset pool key since a8197db74 (first item key per Python
   value, in a frozenset).  Model: frozen_key / top_key2 in Model/M_Consts.v. *)
From Coq Require Import ZArith List Bool Lia ZifyBool.
From CyVerif Require Import Lib.CInt Model.M_Consts Proof.P_Consts.
Import ListNotations.
Open Scope Z_scope.

(* ------------------------------------------------------------------ *)
(* generic facts about first_by                                        *)
(* ------------------------------------------------------------------ *)

Lemma first_by_in {T} (val : T -> pyconst) : forall l seen x, In x (first_by val seen l) -> In x l.
Proof.
  induction l as [|a r IH]; intros seen x H; [contradiction|]. cbn [first_by] in H.
  destruct (existsb _ seen).
  - right. exact (IH _ _ H).
  - destruct H as [->|H]; [left; reflexivity|right; exact (IH _ _ H)].
Qed.

Lemma first_by_map {T U} (g : T -> U) (val : U -> pyconst) : forall l seen,
  first_by val seen (map g l) = map g (first_by (fun x => val (g x)) seen l).
Proof.
  induction l as [|a r IH]; intros seen; [reflexivity|]. cbn [map first_by].
  destruct (existsb _ seen); [apply IH|]. cbn [map]. rewrite IH. reflexivity.
Qed.

Lemma existsb_map_eq {T} (f g : T -> pyconst) (S : list T) v w :
  (forall a, In a S -> py_eq (f a) v = py_eq (g a) w) ->
  existsb (fun s => py_eq s v) (map f S) = existsb (fun s => py_eq s w) (map g S).
Proof.
  induction S as [|a S IH]; intros H; [reflexivity|]. cbn [map existsb].
  rewrite (H a (or_introl eq_refl)), IH; [reflexivity|]. intros b Hb. apply H. right. exact Hb.
Qed.

(* two value functions that agree on == over all pairs select the same elements *)
Lemma first_by_agree {T} (f g : T -> pyconst) : forall l S,
  (forall a b, In a (S ++ l) -> In b (S ++ l) -> py_eq (f a) (f b) = py_eq (g a) (g b)) ->
  first_by f (map f S) l = first_by g (map g S) l.
Proof.
  induction l as [|x r IH]; intros S H; [reflexivity|]. cbn [first_by].
  rewrite (existsb_map_eq f g S (f x) (g x)).
  2:{ intros a Ha. apply H; apply in_or_app; [left; exact Ha|right; left; reflexivity]. }
  destruct (existsb _ (map g S)).
  - apply IH. intros a b Ha Hb. apply H.
    + apply in_app_or in Ha. apply in_or_app. destruct Ha; [left|right; right]; assumption.
    + apply in_app_or in Hb. apply in_or_app. destruct Hb; [left|right; right]; assumption.
  - f_equal. replace (map f S ++ [f x]) with (map f (S ++ [x])) by (rewrite map_app; reflexivity).
    replace (map g S ++ [g x]) with (map g (S ++ [x])) by (rewrite map_app; reflexivity).
    apply IH. intros a b Ha Hb. apply H.
    + rewrite <- app_assoc in Ha. exact Ha.
    + rewrite <- app_assoc in Hb. exact Hb.
Qed.

(* frozenset(args) keeps exactly the first_by elements *)
Lemma fs_build_first {T} (val : T -> pyconst) : forall l acc,
  fold_left (fun acc x => if existsb (fun y => py_eq y x) acc then acc else acc ++ [x]) (map val l) acc
  = acc ++ map val (first_by val acc l).
Proof.
  induction l as [|x r IH]; intros acc; cbn [map fold_left first_by]; [rewrite app_nil_r; reflexivity|].
  destruct (existsb (fun y => py_eq y (val x)) acc).
  - apply IH.
  - rewrite IH. cbn [map]. rewrite <- app_assoc. reflexivity.
Qed.

(* ------------------------------------------------------------------ *)
(* the value read off an item key is the item's value (no multiplier)  *)
(* ------------------------------------------------------------------ *)

Fixpoint pys_eq (l1 l2 : list pyconst) : bool :=
  match l1, l2 with
  | [], [] => true
  | x :: r1, y :: r2 => py_eq x y && pys_eq r1 r2
  | _, _ => false
  end.

Lemma py_eq_seq t1 l1 t2 l2 : py_eq (CSeq t1 l1) (CSeq t2 l2) = ntype_eqb t1 t2 && pys_eq l1 l2.
Proof. cbn. reflexivity. Qed.

Lemma wf_denote : forall n, wf_node n = true -> exists v, denote n = Some v.
Proof.
  induction n as [ty v|ty lit mult args IHm IHa|ty a b c IHa IHb IHc|] using cnode_ind2; intros W.
  - eexists. reflexivity.
  - cbn [wf_node] in W. apply andb_prop in W. destruct W as (W & Wa). apply andb_prop in W. destruct W as (_ & Wm).
    assert (A : exists vs, opt_list (map denote args) = Some vs).
    { clear Wm IHm. induction IHa as [|a r Ha _ IH]; [exists []; reflexivity|].
      cbn [forallb] in Wa. apply andb_prop in Wa. destruct Wa as (W1 & Wr).
      destruct (Ha W1) as (v & Ev). destruct (IH Wr) as (vs & Evs).
      exists (v :: vs). cbn [map opt_list]. rewrite Ev, Evs. reflexivity. }
    destruct A as (vs & Evs). cbn [denote]. rewrite Evs.
    destruct lit; [|eexists; reflexivity].
    destruct mult as [m|]; [|eexists; reflexivity].
    destruct m as [t v| | |]; cbn in Wm; try discriminate.
    destruct t, v; cbn in Wm; try discriminate; cbn [as_int]; eexists; reflexivity.
  - cbn [wf_node] in W. apply andb_prop in W. destruct W as (W & Wc). apply andb_prop in W. destruct W as (W & Wb).
    apply andb_prop in W. destruct W as (_ & Wa).
    destruct (IHa Wa) as (x & Ex). destruct (IHb Wb) as (y & Ey). destruct (IHc Wc) as (z & Ez).
    cbn [denote]. rewrite Ex, Ey, Ez. eexists. reflexivity.
  - discriminate.
Qed.

(* the good items of a frozenset: well formed, hashable, no multiplier *)
Definition good (n : cnode) : Prop := wf_node n = true /\ hashable n = true /\ has_mult n = false.

Lemma good_seq_inv ty lit mult args : good (NSeq ty lit mult args) ->
  ty = TPyTuple /\ (if lit then mult else None) = None /\ Forall good args.
Proof.
  intros (W & H & M). cbn [wf_node] in W. cbn [hashable] in H. cbn [has_mult] in M.
  apply andb_prop in W. destruct W as (_ & Wa). apply andb_prop in H. destruct H as (Ht & Ha).
  apply orb_false_elim in M. destruct M as (Mm & Ma).
  split; [apply ntype_eqb_eq; exact Ht|]. split.
  - destruct (if lit then mult else None); [discriminate|reflexivity].
  - apply Forall_forall. intros a Hin. split; [|split].
    + rewrite forallb_forall in Wa. exact (Wa a Hin).
    + rewrite forallb_forall in Ha. exact (Ha a Hin).
    + destruct (has_mult a) eqn:E; [|reflexivity].
      assert (existsb has_mult args = true) by (apply existsb_exists; exists a; auto). congruence.
Qed.

(* shape of the key and the value of a good sequence *)
Lemma good_seq_key os ty lit mult args k v : good (NSeq ty lit mult args) ->
  item_key true os (NSeq ty lit mult args) = Some k -> denote (NSeq ty lit mult args) = Some v ->
  exists ks vs, all_some (map (item_key true os) args) = Some ks /\ opt_list (map denote args) = Some vs
    /\ k = KCont TPyTuple false (none_entry true :: ks) /\ v = CSeq TPyTuple vs.
Proof.
  intros G K D. destruct (good_seq_inv _ _ _ _ G) as (-> & Em & _).
  cbn [item_key] in K. rewrite mult_keys in K.
  cbn [denote] in D. rewrite Em in D.
  assert (Ee : eff_mult lit mult = None) by (rewrite <- eff_mult_if; exact Em).
  rewrite Ee in K. apply cont_key_inv in K. destruct K as (ks0 & A & ->).
  cbn [all_some] in A. destruct (all_some (map (item_key true os) args)) as [ks|]; [|discriminate].
  inversion A; subst ks0. destruct (opt_list (map denote args)) as [vs|]; [|discriminate].
  inversion D; subst v. exists ks, vs. repeat split; reflexivity.
Qed.

Lemma faithful_lists os args1 :
  Forall (fun n1 => forall n2 k1 k2 v1 v2, good n1 -> good n2 ->
            item_key true os n1 = Some k1 -> item_key true os n2 = Some k2 ->
            denote n1 = Some v1 -> denote n2 = Some v2 ->
            py_eq (key_value k1) (key_value k2) = py_eq v1 v2) args1 ->
  forall args2 ks1 ks2 vs1 vs2, Forall good args1 -> Forall good args2 ->
  all_some (map (item_key true os) args1) = Some ks1 -> all_some (map (item_key true os) args2) = Some ks2 ->
  opt_list (map denote args1) = Some vs1 -> opt_list (map denote args2) = Some vs2 ->
  pys_eq (map key_value ks1) (map key_value ks2) = pys_eq vs1 vs2.
Proof.
  induction 1 as [|a1 r1 Ha _ IH]; intros args2 ks1 ks2 vs1 vs2 G1 G2 K1 K2 D1 D2.
  - cbn in K1, D1. inversion K1; inversion D1; subst. destruct args2 as [|a2 r2].
    + cbn in K2, D2. inversion K2; inversion D2; subst. reflexivity.
    + cbn [map all_some opt_list] in K2, D2.
      destruct (item_key true os a2); [|discriminate]. destruct (all_some _); [|discriminate].
      destruct (denote a2); [|discriminate]. destruct (opt_list _); [|discriminate].
      inversion K2; inversion D2; subst. reflexivity.
  - cbn [map all_some opt_list] in K1, D1.
    destruct (item_key true os a1) as [k1|] eqn:Ek1; [|discriminate].
    destruct (all_some (map (item_key true os) r1)) as [kr1|] eqn:Er1; [|discriminate].
    destruct (denote a1) as [v1|] eqn:Ev1; [|discriminate].
    destruct (opt_list (map denote r1)) as [vr1|] eqn:Evr1; [|discriminate].
    inversion K1; inversion D1; subst ks1 vs1.
    destruct args2 as [|a2 r2].
    + cbn in K2, D2. inversion K2; inversion D2; subst. reflexivity.
    + cbn [map all_some opt_list] in K2, D2.
      destruct (item_key true os a2) as [k2|] eqn:Ek2; [|discriminate].
      destruct (all_some (map (item_key true os) r2)) as [kr2|] eqn:Er2; [|discriminate].
      destruct (denote a2) as [v2|] eqn:Ev2; [|discriminate].
      destruct (opt_list (map denote r2)) as [vr2|] eqn:Evr2; [|discriminate].
      inversion K2; inversion D2; subst ks2 vs2.
      inversion G1 as [|? ? Ga1 Gr1]; subst. inversion G2 as [|? ? Ga2 Gr2]; subst.
      cbn [map pys_eq].
      rewrite (Ha a2 k1 k2 v1 v2 Ga1 Ga2 eq_refl Ek2 eq_refl Ev2).
      rewrite (IH r2 kr1 kr2 vr1 vr2 Gr1 Gr2 eq_refl Er2 eq_refl Evr2). reflexivity.
Qed.

Lemma key_value_faithful os : forall n1 n2 k1 k2 v1 v2, good n1 -> good n2 ->
  item_key true os n1 = Some k1 -> item_key true os n2 = Some k2 ->
  denote n1 = Some v1 -> denote n2 = Some v2 ->
  py_eq (key_value k1) (key_value k2) = py_eq v1 v2.
Proof.
  induction n1 as [ty1 x1|ty1 lit1 mult1 args1 IHm IHa|ty1 a1 b1 c1 _ _ _|] using cnode_ind2;
    intros n2 k1 k2 v1 v2 G1 G2 K1 K2 D1 D2.
  - cbn in K1, D1. inversion K1; inversion D1; subst.
    destruct n2 as [ty2 x2|ty2 lit2 mult2 args2|ty2 a2 b2 c2|].
    + cbn in K2, D2. inversion K2; inversion D2; subst. reflexivity.
    + destruct (good_seq_key os _ _ _ _ _ _ G2 K2 D2) as (ks & vs & _ & _ & -> & ->). reflexivity.
    + destruct G2 as (_ & H & _). discriminate.
    + discriminate.
  - destruct (good_seq_key os _ _ _ _ _ _ G1 K1 D1) as (ks1 & vs1 & A1 & O1 & -> & ->).
    destruct n2 as [ty2 x2|ty2 lit2 mult2 args2|ty2 a2 b2 c2|].
    + cbn in K2, D2. inversion K2; inversion D2; subst. reflexivity.
    + destruct (good_seq_key os _ _ _ _ _ _ G2 K2 D2) as (ks2 & vs2 & A2 & O2 & -> & ->).
      cbn [key_value map]. rewrite !py_eq_seq. cbn [pys_eq].
      change (py_eq (key_value (none_entry true)) (key_value (none_entry true))) with true. cbn [andb].
      f_equal.
      destruct (good_seq_inv _ _ _ _ G1) as (_ & _ & Ga1). destruct (good_seq_inv _ _ _ _ G2) as (_ & _ & Ga2).
      exact (faithful_lists os args1 IHa args2 ks1 ks2 vs1 vs2 Ga1 Ga2 A1 A2 O1 O2).
    + destruct G2 as (_ & H & _). discriminate.
    + discriminate.
  - destruct G1 as (_ & H & _). discriminate.
  - discriminate.
Qed.

(* ------------------------------------------------------------------ *)
(* the frozenset key                                                   *)
(* ------------------------------------------------------------------ *)

Fixpoint ex_key (x : key) (l : list key) : bool :=
  match l with [] => false | y :: r => key_eq x y || ex_key x r end.

Lemma key_eq_cont_set t1 t2 l1 l2 :
  key_eq (KCont t1 true l1) (KCont t2 true l2)
  = ntype_eqb t1 t2 && (forallb (fun x => existsb (fun y => key_eq x y) l2) l1
                        && forallb (fun y => existsb (fun x => key_eq x y) l1) l2).
Proof. cbn. reflexivity. Qed.

Lemma key_eq_set_tuple t1 t2 l1 l2 : key_eq (KCont t1 true l1) (KCont t2 false l2) = false.
Proof. cbn. destruct (ntype_eqb t1 t2); reflexivity. Qed.
Lemma key_eq_tuple_set t1 t2 l1 l2 : key_eq (KCont t1 false l1) (KCont t2 true l2) = false.
Proof. cbn. destruct (ntype_eqb t1 t2); reflexivity. Qed.

(* the items of a frozenset with their keys and values *)
Definition trip := (cnode * key * pyconst)%type.
Definition t_node (x : trip) := fst (fst x).
Definition t_key (x : trip) := snd (fst x).
Definition t_val (x : trip) := snd x.
Definition trip_ok (x : trip) : Prop :=
  good (t_node x) /\ item_key true true (t_node x) = Some (t_key x) /\ denote (t_node x) = Some (t_val x).

Lemma trips_exist : forall args ks, Forall good args ->
  all_some (map (item_key true true) args) = Some ks ->
  exists l : list trip, Forall trip_ok l /\ map t_key l = ks /\ map t_node l = args
                        /\ opt_list (map denote args) = Some (map t_val l).
Proof.
  induction args as [|a r IH]; intros ks G K.
  - cbn in K. inversion K. exists []. repeat split; constructor.
  - cbn [map all_some] in K. destruct (item_key true true a) as [k|] eqn:Ek; [|discriminate].
    destruct (all_some (map (item_key true true) r)) as [kr|] eqn:Er; [|discriminate]. inversion K; subst ks.
    inversion G as [|? ? Ga Gr]; subst. destruct (IH kr Gr eq_refl) as (l & F & Mk & Mn & Mv).
    destruct (wf_denote a (proj1 Ga)) as (v & Ev).
    exists ((a, k, v) :: l). split; [constructor; [repeat split; try assumption; apply Ga|exact F]|].
    cbn [map t_key t_node t_val fst snd]. rewrite Mk, Mn. split; [reflexivity|]. split; [reflexivity|].
    cbn [opt_list]. rewrite Ev, Mv. reflexivity.
Qed.

(* the key keeps the item keys of exactly the elements frozenset() keeps *)
Lemma frozen_key_first (l : list trip) : Forall trip_ok l ->
  first_by key_value [] (map t_key l) = map t_key (first_by t_val [] l)
  /\ fs_build (map t_val l) = map t_val (first_by t_val [] l).
Proof.
  intros F. split.
  - rewrite first_by_map. f_equal.
    apply (first_by_agree (fun x => key_value (t_key x)) t_val l []).
    intros a b Ha Hb. cbn [app] in Ha, Hb. rewrite Forall_forall in F.
    destruct (F a Ha) as (Ga & Ka & Da). destruct (F b Hb) as (Gb & Kb & Db).
    exact (key_value_faithful true _ _ _ _ _ _ Ga Gb Ka Kb Da Db).
  - unfold fs_build. rewrite (fs_build_first t_val l []). reflexivity.
Qed.

Lemma set_incl_values (F1 F2 : list trip) :
  Forall trip_ok F1 -> Forall trip_ok F2 ->
  forallb (fun x => existsb (fun y => key_eq x y) (map t_key F2)) (map t_key F1) = true ->
  forall v, In v (map t_val F1) -> In v (map t_val F2).
Proof.
  intros O1 O2 H v Hin. apply in_map_iff in Hin. destruct Hin as (x & <- & Hx).
  rewrite forallb_forall in H. specialize (H (t_key x) (in_map t_key _ _ Hx)).
  apply existsb_exists in H. destruct H as (ky & Hy & E). apply in_map_iff in Hy. destruct Hy as (y & <- & Hy).
  rewrite Forall_forall in O1, O2. destruct (O1 x Hx) as (Gx & Kx & Dx). destruct (O2 y Hy) as (Gy & Ky & Dy).
  destruct (item_key_exact true _ _ _ _ (proj1 Gx) (proj1 Gy) Kx Ky E) as (c & C1 & C2).
  rewrite Dx in C1. rewrite Dy in C2. inversion C1; inversion C2; subst.
  apply in_map_iff. exists y. split; [congruence|exact Hy].
Qed.

Lemma set_incl_values_rev (F1 F2 : list trip) :
  Forall trip_ok F1 -> Forall trip_ok F2 ->
  forallb (fun y => existsb (fun x => key_eq x y) (map t_key F1)) (map t_key F2) = true ->
  forall v, In v (map t_val F2) -> In v (map t_val F1).
Proof.
  intros O1 O2 H v Hin. apply in_map_iff in Hin. destruct Hin as (y & <- & Hy).
  rewrite forallb_forall in H. specialize (H (t_key y) (in_map t_key _ _ Hy)).
  apply existsb_exists in H. destruct H as (kx & Hx & E). apply in_map_iff in Hx. destruct Hx as (x & <- & Hx).
  rewrite Forall_forall in O1, O2. destruct (O1 x Hx) as (Gx & Kx & Dx). destruct (O2 y Hy) as (Gy & Ky & Dy).
  destruct (item_key_exact true _ _ _ _ (proj1 Gx) (proj1 Gy) Kx Ky E) as (c & C1 & C2).
  rewrite Dx in C1. rewrite Dy in C2. inversion C1; inversion C2; subst.
  apply in_map_iff. exists x. split; [congruence|exact Hx].
Qed.

Lemma sub_ok (l : list trip) : Forall trip_ok l -> Forall trip_ok (first_by t_val [] l).
Proof.
  intros F. apply Forall_forall. intros x Hx. rewrite Forall_forall in F. apply F.
  exact (first_by_in _ _ _ _ Hx).
Qed.

Lemma frozen_args_good args : forallb wf_node args = true -> forallb hashable args = true ->
  existsb has_mult args = false -> Forall good args.
Proof.
  intros W H M. apply Forall_forall. intros a Hin. split; [|split].
  - rewrite forallb_forall in W. exact (W a Hin).
  - rewrite forallb_forall in H. exact (H a Hin).
  - destruct (has_mult a) eqn:E; [|reflexivity].
    assert (existsb has_mult args = true) by (apply existsb_exists; exists a; auto). congruence.
Qed.

(* Theorem: with the key function since a8197db74 (sign of a float in the leaf key, first item key
   per value for frozensets), pooled containers with equal keys are identical constants --
   for frozensets provided no multiplied tuple occurs among the items (the guard of the repaired
   code; without it the statement is false, see below) *)
Theorem dedup_first_injective guard t1 t2 k1 k2 :
  wf_top2 t1 = true -> wf_top2 t2 = true ->
  guard = true \/ (top_has_mult t1 = false /\ top_has_mult t2 = false) ->
  top_key2 true guard t1 = Some k1 -> top_key2 true guard t2 = Some k2 ->
  key_eq k1 k2 = true ->
  exists c1 c2, denote_top t1 = Some c1 /\ denote_top t2 = Some c2 /\ identical_top c1 c2.
Proof.
  intros W1 W2 Hg K1 K2 E.
  unfold wf_top2 in W1, W2. apply andb_prop in W1. destruct W1 as (W1 & H1).
  apply andb_prop in W2. destruct W2 as (W2 & H2).
  assert (FRO : forall args k, top_key2 true guard (TopFrozen args) = Some k ->
            (guard = true \/ existsb has_mult args = false) ->
            existsb has_mult args = false /\
            exists ks, all_some (map (item_key true true) args) = Some ks
                       /\ k = KCont TPyFrozenset true (first_by key_value [] ks)).
  { intros args k K Hm. cbn [top_key2] in K. unfold frozen_key in K.
    destruct (existsb has_mult args) eqn:M.
    - destruct Hm as [->|Hm]; [cbn in K; discriminate|discriminate].
    - rewrite andb_false_r in K. split; [reflexivity|].
      destruct (all_some (map (item_key true true) args)) as [ks|]; [|discriminate]. inversion K. eauto. }
  assert (OLD : forall t k, (forall a, t <> TopFrozen a) -> top_key2 true guard t = Some k -> top_key true true t = Some k).
  { intros t k Nt K. destruct t; try exact K. exfalso. exact (Nt args eq_refl). }
  assert (NOTSET : forall t k, (forall a, t <> TopFrozen a) -> wf_top t = true -> top_key true true t = Some k ->
            exists ty ks, k = KCont ty false ks).
  { intros t k Nt W K. destruct t as [n|n|a]; [| |exfalso; exact (Nt a eq_refl)].
    - destruct n as [|ty l m a| |]; try discriminate W. rewrite top_seq_key in K. cbn [item_key] in K.
      apply cont_key_inv in K. destruct K as (ks & _ & ->).
      cbn [wf_top wf_node] in W. apply andb_prop in W. destruct W as (W & _). apply andb_prop in W. destruct W as (W & _).
      rewrite (wf_not_frozenset _ W). eauto.
    - destruct n as [| |ty a b c|]; try discriminate W. cbn [top_key] in K. unfold make_dedup_key in K.
      apply cont_key_inv in K. destruct K as (ks & _ & ->).
      cbn [wf_top wf_node] in W. apply andb_prop in W. destruct W as (W & _). apply andb_prop in W. destruct W as (W & _).
      apply andb_prop in W. destruct W as (W & _). apply ntype_eqb_eq in W. subst ty. eauto. }
  destruct t1 as [n1|n1|args1]; destruct t2 as [n2|n2|args2];
    try (apply (dedup_injective _ _ k1 k2); [exact W1|exact W2|exact K1|exact K2|exact E]).
  - (* tuple / frozenset *)
    exfalso. assert (N : forall a, TopSeq n1 <> TopFrozen a) by (intros a Ha; discriminate Ha).
    destruct (NOTSET _ _ N W1 K1) as (ty & ks & ->).
    assert (Hm : guard = true \/ existsb has_mult args2 = false) by (destruct Hg as [?|(_ & ?)]; [left|right]; assumption).
    destruct (FRO _ _ K2 Hm) as (_ & ks2 & _ & ->). rewrite key_eq_tuple_set in E. discriminate.
  - exfalso. assert (N : forall a, TopSlice n1 <> TopFrozen a) by (intros a Ha; discriminate Ha).
    destruct (NOTSET _ _ N W1 K1) as (ty & ks & ->).
    assert (Hm : guard = true \/ existsb has_mult args2 = false) by (destruct Hg as [?|(_ & ?)]; [left|right]; assumption).
    destruct (FRO _ _ K2 Hm) as (_ & ks2 & _ & ->). rewrite key_eq_tuple_set in E. discriminate.
  - exfalso. assert (N : forall a, TopSeq n2 <> TopFrozen a) by (intros a Ha; discriminate Ha).
    destruct (NOTSET _ _ N W2 K2) as (ty & ks & ->).
    assert (Hm : guard = true \/ existsb has_mult args1 = false) by (destruct Hg as [?|(? & _)]; [left|right]; assumption).
    destruct (FRO _ _ K1 Hm) as (_ & ks1 & _ & ->). rewrite key_eq_set_tuple in E. discriminate.
  - exfalso. assert (N : forall a, TopSlice n2 <> TopFrozen a) by (intros a Ha; discriminate Ha).
    destruct (NOTSET _ _ N W2 K2) as (ty & ks & ->).
    assert (Hm : guard = true \/ existsb has_mult args1 = false) by (destruct Hg as [?|(? & _)]; [left|right]; assumption).
    destruct (FRO _ _ K1 Hm) as (_ & ks1 & _ & ->). rewrite key_eq_set_tuple in E. discriminate.
  - (* frozenset / frozenset *)
    assert (Hm1 : guard = true \/ existsb has_mult args1 = false) by (destruct Hg as [?|(? & _)]; [left|right]; assumption).
    assert (Hm2 : guard = true \/ existsb has_mult args2 = false) by (destruct Hg as [?|(_ & ?)]; [left|right]; assumption).
    destruct (FRO _ _ K1 Hm1) as (M1 & ks1 & A1 & ->).
    destruct (FRO _ _ K2 Hm2) as (M2 & ks2 & A2 & ->).
    cbn [wf_top] in W1, W2.
    destruct (trips_exist args1 ks1 (frozen_args_good _ W1 H1 M1) A1) as (l1 & F1 & Mk1 & _ & Mv1).
    destruct (trips_exist args2 ks2 (frozen_args_good _ W2 H2 M2) A2) as (l2 & F2 & Mk2 & _ & Mv2).
    destruct (frozen_key_first l1 F1) as (R1 & B1). destruct (frozen_key_first l2 F2) as (R2 & B2).
    rewrite <- Mk1, <- Mk2, R1, R2 in E. rewrite key_eq_cont_set in E.
    apply andb_prop in E. destruct E as (_ & E). apply andb_prop in E. destruct E as (E12 & E21).
    exists (VFrozen (fs_build (map t_val l1))), (VFrozen (fs_build (map t_val l2))).
    cbn [denote_top]. rewrite Mv1, Mv2. split; [reflexivity|]. split; [reflexivity|].
    rewrite B1, B2. split.
    + exact (set_incl_values _ _ (sub_ok l1 F1) (sub_ok l2 F2) E12).
    + exact (set_incl_values_rev _ _ (sub_ok l1 F1) (sub_ok l2 F2) E21).
Qed.

(* ... and without the guard two different frozensets share a key (finding
   frozenset_multiplied_tuple_merged): frozenset(((1,)*2, (1.0, 1.0))) and
   frozenset(((1.0, 1.0), (1,)*2)) -- the value read off the key of (1,)*2 is (2, 1), not (1, 1) *)
Definition one_f : Z := 4607182418800017408.
Definition wit_mult : cnode := NSeq TPyTuple true (Some (NLeaf (TC 0) (SInt 2))) [NLeaf TPyInt (SInt 1)].
Definition wit_flt : cnode := NSeq TPyTuple true None [NLeaf TPyFloat (SFloat one_f); NLeaf TPyFloat (SFloat one_f)].

Theorem dedup_first_unguarded_refuted :
  exists t1 t2 k1 k2 c1 c2,
    wf_top2 t1 = true /\ wf_top2 t2 = true /\
    top_key2 true false t1 = Some k1 /\ top_key2 true false t2 = Some k2 /\ key_eq k1 k2 = true /\
    denote_top t1 = Some c1 /\ denote_top t2 = Some c2 /\ ~ identical_top c1 c2.
Proof.
  exists (TopFrozen [wit_mult; wit_flt]), (TopFrozen [wit_flt; wit_mult]).
  do 2 eexists.
  exists (VFrozen [CSeq TPyTuple [CScalar (SInt 1); CScalar (SInt 1)]]),
         (VFrozen [CSeq TPyTuple [CScalar (SFloat one_f); CScalar (SFloat one_f)]]).
  split; [vm_compute; reflexivity|]. split; [vm_compute; reflexivity|].
  split; [vm_compute; reflexivity|]. split; [vm_compute; reflexivity|].
  split; [vm_compute; reflexivity|]. split; [vm_compute; reflexivity|].
  split; [vm_compute; reflexivity|].
  intros [A _]. specialize (A _ (or_introl eq_refl)). destruct A as [A|A]; [discriminate A|exact A].
Qed.

(* sharing: the order of the items no longer matters when no two of them are == *)
Theorem frozen_key_order_free :
  exists k1 k2,
    top_key2 true true (TopFrozen [NLeaf TPyInt (SInt 1); NLeaf TPyInt (SInt 2); NLeaf TPyInt (SInt 3)]) = Some k1 /\
    top_key2 true true (TopFrozen [NLeaf TPyInt (SInt 3); NLeaf TPyInt (SInt 1); NLeaf TPyInt (SInt 2)]) = Some k2 /\
    key_eq k1 k2 = true.
Proof. do 2 eexists. split; [vm_compute; reflexivity|]. split; [vm_compute; reflexivity|]. vm_compute. reflexivity. Qed.
