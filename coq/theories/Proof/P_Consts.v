(* Proofs for property C09 (Model/M_Consts.v). *)
From Coq Require Import ZArith List Bool Lia ZifyBool.
From CyVerif Require Import Lib.CInt Model.M_Consts.
Import ListNotations.
Open Scope Z_scope.

(* ------------------------------------------------------------------ *)
(* A. str_to_number on literals                                        *)
(* ------------------------------------------------------------------ *)

Definition step (base : Z) (a c : Z) : Z := a * base + digit_val c.

Lemma eval_digits_fold base s : eval_digits base s = fold_left (step base) s 0.
Proof. reflexivity. Qed.

(* a character that scan consumes as a digit of the base *)
Definition dig_ok (base c : Z) : Prop := digit_val c < base /\ c <> ch_us.

Lemma scan_digits base s : forall acc nd,
  Forall (dig_ok base) s ->
  scan base false acc nd s = Some (fold_left (step base) s acc, nd + Z.of_nat (length s), []).
Proof.
  induction s as [|c t IH]; intros acc nd H.
  - cbn. rewrite Z.add_0_r. reflexivity.
  - inversion H as [|? ? [Hd Hu] Ht]; subst. cbn [scan].
    destruct (Z.eqb_spec c ch_us) as [E|_]; [contradiction|].
    destruct (Z.ltb_spec (digit_val c) base) as [_|L]; [|lia].
    rewrite IH by assumption. cbn [fold_left length]. unfold step at 2.
    f_equal. f_equal. f_equal. lia.
Qed.

Lemma digit_val_range c : 0 <= digit_val c.
Proof. unfold digit_val. repeat match goal with |- context [if ?b then _ else _] => destruct b eqn:? end; lia. Qed.

(* classes of digit characters *)
Lemma is_dec_val c : is_dec c = true -> digit_val c = c - 48 /\ 48 <= c <= 57.
Proof. unfold is_dec, digit_val. intros H. rewrite H. lia. Qed.

Lemma is_hexd_ok c : is_hexd c = true -> dig_ok 16 c /\ is_space c = false /\ is_l c = false
  /\ c <> ch_minus /\ c <> ch_plus /\ is_x c = false.
Proof.
  unfold is_hexd, is_dec, dig_ok, digit_val, is_space, is_l, is_x, ch_us, ch_minus, ch_plus. intros H.
  repeat match goal with |- context [if ?b then _ else _] => destruct b eqn:? end; lia.
Qed.

Lemma is_octd_ok c : is_octd c = true -> dig_ok 8 c /\ is_space c = false
  /\ c <> ch_minus /\ c <> ch_plus /\ is_o c = false /\ is_x c = false /\ is_b c = false.
Proof.
  unfold is_octd, dig_ok, digit_val, is_space, is_o, is_x, is_b, ch_us, ch_minus, ch_plus. intros H.
  repeat match goal with |- context [if ?b then _ else _] => destruct b eqn:? end; lia.
Qed.

Lemma is_bind_ok c : is_bind c = true -> dig_ok 2 c /\ is_space c = false
  /\ c <> ch_minus /\ c <> ch_plus /\ is_b c = false.
Proof.
  unfold is_bind, dig_ok, digit_val, is_space, is_b, ch_us, ch_minus, ch_plus. intros H.
  repeat match goal with |- context [if ?b then _ else _] => destruct b eqn:? end; lia.
Qed.

Lemma is_dec_ok c : is_dec c = true -> dig_ok 10 c /\ dig_ok 8 c \/ dig_ok 10 c.
Proof.
  unfold is_dec, dig_ok, digit_val, ch_us. intros H.
  repeat match goal with |- context [if ?b then _ else _] => destruct b eqn:? end; lia.
Qed.

(* a plain character: not a space, sign or underscore *)
Definition plain (c : Z) : Prop :=
  is_space c = false /\ c <> ch_minus /\ c <> ch_plus /\ c <> ch_us.

(* int(s, b) for an explicit power-of-two base on a bare digit string *)
Lemma py_int_pow2_digits b s :
  is_pow2_base b = true -> b <> 0 ->
  s <> [] -> Forall (dig_ok b) s -> Forall plain s ->
  (forall c0 c1 t, s = c0 :: c1 :: t ->
     (c0 =? ch_0) && (((b =? 16) && is_x c1) || ((b =? 8) && is_o c1) || ((b =? 2) && is_b c1)) = false) ->
  py_int b s = Some (eval_digits b s).
Proof.
  intros Hp Hb0 Hne Hd Hpl Hpre.
  destruct s as [|c0 t]; [congruence|].
  inversion Hpl as [|? ? [Hs [Hm [Hpls Hus]]] Hplt]; subst.
  unfold py_int. cbn [drop_space]. rewrite Hs.
  destruct (Z.eqb_spec c0 ch_minus) as [E|_]; [contradiction|].
  destruct (Z.eqb_spec c0 ch_plus) as [E|_]; [contradiction|].
  cbn [orb].
  destruct (Z.eqb_spec b 0) as [E|_]; [contradiction|]. cbn [andb].
  assert (S3 : match c0 :: t with
               | c2 :: c1 :: t0 =>
                   if (c2 =? ch_0) && ((b =? 16) && is_x c1 || (b =? 8) && is_o c1 || (b =? 2) && is_b c1)
                   then match t0 with u :: t' => if u =? ch_us then t' else t0 | [] => t0 end
                   else c0 :: t
               | _ => c0 :: t end = c0 :: t).
  { destruct t as [|c1 t0]; [reflexivity|]. rewrite (Hpre c0 c1 t0 eq_refl). reflexivity. }
  rewrite S3.
  destruct (Z.eqb_spec c0 ch_us) as [E|_]; [contradiction|].
  rewrite scan_digits by assumption.
  cbn [forallb]. rewrite Hp. cbn [negb andb].
  destruct (Z.eqb_spec (0 + Z.of_nat (length (c0 :: t))) 0) as [E|_]; [cbn [length] in E; lia|].
  reflexivity.
Qed.

Lemma fold_zeros base s acc : Forall (fun c => c = ch_0) s -> fold_left (step base) s acc = acc * base ^ Z.of_nat (length s).
Proof.
  revert acc. induction s as [|c t IH]; intros acc H.
  - cbn. lia.
  - inversion H; subst. cbn [fold_left length]. rewrite IH by assumption.
    unfold step, digit_val, ch_0. cbn [Z.leb Z.compare Pos.compare Pos.compare_cont andb].
    rewrite Nat2Z.inj_succ, Z.pow_succ_r by lia. cbn. lia.
Qed.

(* int(s, 0) on a decimal digit string that does not start with '0' *)
Lemma py_int_0_decimal s c0 t :
  s = c0 :: t -> is_nonzero_dec c0 = true -> Forall (fun c => is_dec c = true) t ->
  py_int 0 s = if max_str_digits <? Z.of_nat (length s) then None else Some (eval_digits 10 s).
Proof.
  intros -> H0 Ht.
  assert (Hall : Forall (dig_ok 10) (c0 :: t)).
  { constructor.
    - unfold is_nonzero_dec, dig_ok, digit_val, ch_us in *.
      repeat match goal with |- context [if ?b then _ else _] => destruct b eqn:? end; lia.
    - eapply Forall_impl; [|exact Ht]. intros c Hc. unfold is_dec, dig_ok, digit_val, ch_us in *.
      repeat match goal with |- context [if ?b then _ else _] => destruct b eqn:? end; lia. }
  assert (Hc0 : is_space c0 = false /\ c0 <> ch_minus /\ c0 <> ch_plus /\ c0 <> ch_us /\ c0 <> ch_0).
  { unfold is_nonzero_dec, is_space, ch_minus, ch_plus, ch_us, ch_0 in *. lia. }
  destruct Hc0 as (Hs & Hm & Hp & Hu & Hz).
  unfold py_int. cbn [drop_space]. rewrite Hs.
  destruct (Z.eqb_spec c0 ch_minus) as [E|_]; [contradiction|].
  destruct (Z.eqb_spec c0 ch_plus) as [E|_]; [contradiction|].
  cbn [orb]. change (0 =? 0) with true. cbn [andb].
  destruct (Z.eqb_spec c0 ch_0) as [E|_]; [contradiction|]. cbn [andb].
  assert (B : (match t with | c1 :: _ => 10 | [] => 10 end) = 10) by (destruct t; reflexivity).
  destruct t as [|c1 t0].
  - destruct (Z.eqb_spec c0 ch_us) as [E|_]; [contradiction|].
    rewrite scan_digits by assumption. cbn [length forallb Z.of_nat negb andb is_pow2_base].
    change (is_pow2_base 10) with false. cbn [negb andb].
    change (0 + Z.pos (Pos.of_succ_nat 0) =? 0) with false.
    cbn [Z.add]. destruct (max_str_digits <? 1); reflexivity.
  - change (10 =? 16) with false. change (10 =? 8) with false. change (10 =? 2) with false.
    cbn [andb orb].
    destruct (Z.eqb_spec c0 ch_us) as [E|_]; [contradiction|].
    rewrite scan_digits by assumption. cbn [forallb negb andb].
    change (is_pow2_base 10) with false. cbn [negb andb].
    destruct (Z.eqb_spec (0 + Z.of_nat (length (c0 :: c1 :: t0))) 0) as [E|_]; [cbn [length] in E; lia|].
    rewrite Z.add_0_l. destruct (max_str_digits <? Z.of_nat (length (c0 :: c1 :: t0))); reflexivity.
Qed.

Lemma py_int_0_zero : py_int 0 [ch_0] = Some 0.
Proof. reflexivity. Qed.

(* (["_"] d)* : removing the underscores leaves digits only *)
Lemma us_digits_strip isd : (isd ch_us = false) -> forall n s, (length s <= n)%nat ->
  us_digits isd s = true -> Forall (fun c => isd c = true) (strip_us s) /\ (s <> [] -> strip_us s <> []).
Proof.
  intros Hus. induction n as [|n IH]; intros s Hl H.
  - destruct s; [|cbn in Hl; lia]. split; [constructor|congruence].
  - destruct s as [|c t]; [split; [constructor|congruence]|].
    cbn [us_digits] in H. cbn [length] in Hl.
    destruct (Z.eqb_spec c ch_us) as [E|N].
    + subst c. destruct t as [|d t']; [discriminate|].
      apply andb_prop in H. destruct H as [Hd Ht].
      assert (Nd : d <> ch_us) by (intros ->; congruence).
      destruct (IH t' ltac:(cbn [length] in Hl; lia) Ht) as [F _].
      unfold strip_us. cbn [filter]. change (ch_us =? ch_us) with true. cbn [negb].
      destruct (Z.eqb_spec d ch_us) as [E|_]; [contradiction|]. cbn [negb].
      split; [constructor; assumption|congruence].
    + apply andb_prop in H. destruct H as [Hd Ht].
      destruct (IH t ltac:(lia) Ht) as [F _].
      unfold strip_us. cbn [filter]. destruct (Z.eqb_spec c ch_us) as [E|_]; [contradiction|]. cbn [negb].
      split; [constructor; assumption|congruence].
Qed.

Lemma strip_us_cons_keep c t : c <> ch_us -> strip_us (c :: t) = c :: strip_us t.
Proof. intros N. unfold strip_us. cbn [filter]. destruct (Z.eqb_spec c ch_us); [contradiction|reflexivity]. Qed.

Lemma last_cons_ne {A} (a : A) l d : l <> [] -> last (a :: l) d = last l d.
Proof. destruct l; [congruence|reflexivity]. Qed.

Lemma Forall_last {A} (P : A -> Prop) l d : l <> [] -> Forall P l -> P (last l d).
Proof.
  induction l as [|a l IH]; [congruence|]. intros _ H. inversion H; subst.
  destruct l as [|b l']; [assumption|]. rewrite last_cons_ne by congruence. apply IH; [congruence|assumption].
Qed.

(* the value of a literal whose underscores were removed by the scanner *)
Lemma str_to_number_unsigned t v :
  python_int_literal t = Some v -> literal_within_limit t = true ->
  (match t with c :: _ => c <> ch_minus | [] => True end) /\
  (let u := strip_us t in
   match u with
   | c0 :: c1 :: rest =>
       if c0 =? ch_0 then
         if is_x c1 then py_int 16 (skipn 2 (strip_L u))
         else if is_o c1 then py_int 8 rest
         else if is_b c1 then py_int 2 rest
         else py_int 8 u
       else py_int 0 u
   | _ => py_int 0 u
   end = Some v).
Proof.
  unfold python_int_literal, literal_within_limit.
  destruct (lit_split t) as [[b d]|] eqn:L; [|discriminate]. intros Hv Hlim. inversion Hv; subst v; clear Hv.
  unfold lit_split in L. destruct t as [|c0 t0]; [discriminate|].
  destruct (Z.eqb_spec c0 ch_0) as [E0|N0].
  - subst c0. split; [unfold ch_0, ch_minus; lia|].
    assert (Z0us : ch_0 <> ch_us) by (unfold ch_0, ch_us; lia).
    rewrite strip_us_cons_keep by assumption.
    destruct t0 as [|c1 u].
    + inversion L; subst. cbn. reflexivity.
    + destruct (is_x c1) eqn:X.
      { (* hex *)
        destruct (nonempty u && us_digits is_hexd u) eqn:G; [|discriminate]. inversion L; subst b d; clear L.
        apply andb_prop in G. destruct G as [Gn Gd].
        assert (C1 : c1 <> ch_us) by (unfold is_x, ch_us in *; lia).
        rewrite strip_us_cons_keep by assumption.
        destruct (us_digits_strip is_hexd ltac:(reflexivity) (length u) u ltac:(lia) Gd) as [F NE].
        assert (NEu : strip_us u <> []) by (apply NE; destruct u; [discriminate|congruence]).
        cbn zeta. change (ch_0 =? ch_0) with true. cbn iota. rewrite X.
        assert (SL : strip_L (ch_0 :: c1 :: strip_us u) = ch_0 :: c1 :: strip_us u).
        { unfold strip_L. rewrite !last_cons_ne by congruence.
          pose proof (Forall_last _ _ 0 NEu F) as HL. cbn beta in HL.
          apply is_hexd_ok in HL. destruct HL as (_ & _ & HL & _). rewrite HL. reflexivity. }
        rewrite SL. cbn [skipn].
        apply py_int_pow2_digits; try reflexivity; try lia; try assumption.
        - eapply Forall_impl; [|exact F]. intros c Hc. apply is_hexd_ok in Hc. tauto.
        - eapply Forall_impl; [|exact F]. intros c Hc. apply is_hexd_ok in Hc. unfold plain, dig_ok in *. tauto.
        - intros a1 a2 tt Eq. rewrite Eq in F. inversion F as [|? ? _ F2]; subst. inversion F2 as [|? ? H2 _]; subst.
          apply is_hexd_ok in H2. destruct H2 as (_ & _ & _ & _ & _ & H2). rewrite H2.
          change (16 =? 8) with false. change (16 =? 2) with false. cbn. apply andb_false_r. }
      destruct (is_o c1) eqn:O.
      { destruct (nonempty u && us_digits is_octd u) eqn:G; [|discriminate]. inversion L; subst b d; clear L.
        apply andb_prop in G. destruct G as [Gn Gd].
        assert (C1 : c1 <> ch_us) by (unfold is_o, ch_us in *; lia).
        rewrite strip_us_cons_keep by assumption.
        destruct (us_digits_strip is_octd ltac:(reflexivity) (length u) u ltac:(lia) Gd) as [F NE].
        assert (NEu : strip_us u <> []) by (apply NE; destruct u; [discriminate|congruence]).
        cbn zeta. change (ch_0 =? ch_0) with true. cbn iota. rewrite X, O.
        apply py_int_pow2_digits; try reflexivity; try lia; try assumption.
        - eapply Forall_impl; [|exact F]. intros c Hc. apply is_octd_ok in Hc. tauto.
        - eapply Forall_impl; [|exact F]. intros c Hc. apply is_octd_ok in Hc. unfold plain, dig_ok in *. tauto.
        - intros a1 a2 tt Eq. rewrite Eq in F. inversion F as [|? ? _ F2]; subst. inversion F2 as [|? ? H2 _]; subst.
          apply is_octd_ok in H2. destruct H2 as (_ & _ & _ & _ & H2 & _). rewrite H2.
          change (8 =? 16) with false. change (8 =? 2) with false. cbn. apply andb_false_r. }
      destruct (is_b c1) eqn:Bb.
      { destruct (nonempty u && us_digits is_bind u) eqn:G; [|discriminate]. inversion L; subst b d; clear L.
        apply andb_prop in G. destruct G as [Gn Gd].
        assert (C1 : c1 <> ch_us) by (unfold is_b, ch_us in *; lia).
        rewrite strip_us_cons_keep by assumption.
        destruct (us_digits_strip is_bind ltac:(reflexivity) (length u) u ltac:(lia) Gd) as [F NE].
        assert (NEu : strip_us u <> []) by (apply NE; destruct u; [discriminate|congruence]).
        cbn zeta. change (ch_0 =? ch_0) with true. cbn iota. rewrite X, O, Bb.
        apply py_int_pow2_digits; try reflexivity; try lia; try assumption.
        - eapply Forall_impl; [|exact F]. intros c Hc. apply is_bind_ok in Hc. tauto.
        - eapply Forall_impl; [|exact F]. intros c Hc. apply is_bind_ok in Hc. unfold plain, dig_ok in *. tauto.
        - intros a1 a2 tt Eq. rewrite Eq in F. inversion F as [|? ? _ F2]; subst. inversion F2 as [|? ? H2 _]; subst.
          apply is_bind_ok in H2. destruct H2 as (_ & _ & _ & _ & H2). rewrite H2.
          change (2 =? 16) with false. change (2 =? 8) with false. cbn. apply andb_false_r. }
      (* "0" ( ["_"] "0" )* *)
      destruct (us_digits is_zero_ch (c1 :: u)) eqn:G; [|discriminate]. inversion L; subst b d; clear L.
      destruct (us_digits_strip is_zero_ch ltac:(reflexivity) (length (c1 :: u)) (c1 :: u) ltac:(lia) G) as [F NE].
      assert (NEu : strip_us (c1 :: u) <> []) by (apply NE; congruence).
      assert (FZ : Forall (fun c => c = ch_0) (strip_us (c1 :: u))).
      { eapply Forall_impl; [|exact F]. intros c Hc. unfold is_zero_ch, ch_0 in *. lia. }
      destruct (strip_us (c1 :: u)) as [|z1 zs] eqn:SU; [congruence|].
      inversion FZ as [|? ? Ez FZs]; subst z1.
      cbn zeta. change (ch_0 =? ch_0) with true. cbn iota.
      change (is_x ch_0) with false. change (is_o ch_0) with false. change (is_b ch_0) with false. cbn iota.
      assert (ALLZ : Forall (fun c => c = ch_0) (ch_0 :: ch_0 :: zs)) by (repeat constructor; assumption).
      rewrite py_int_pow2_digits; try reflexivity; try lia; try congruence.
      + rewrite !eval_digits_fold, !fold_zeros by assumption.
        rewrite strip_us_cons_keep by assumption. rewrite SU, fold_zeros by assumption. reflexivity.
      + eapply Forall_impl; [|exact ALLZ]. intros c ->. unfold dig_ok, digit_val, ch_0, ch_us. cbn. lia.
      + eapply Forall_impl; [|exact ALLZ]. intros c ->. unfold plain, is_space, ch_0, ch_us, ch_minus, ch_plus. cbn. lia.
      + intros a1 a2 tt Eq. inversion Eq; subst. reflexivity.
  - (* decimal, first digit 1-9 *)
    destruct (is_nonzero_dec c0 && us_digits is_dec t0) eqn:G; [|discriminate]. inversion L; subst b d; clear L.
    apply andb_prop in G. destruct G as [G0 Gd].
    split; [unfold is_nonzero_dec, ch_minus in *; lia|].
    assert (C0 : c0 <> ch_us) by (unfold is_nonzero_dec, ch_us in *; lia).
    rewrite strip_us_cons_keep in * by assumption.
    destruct (us_digits_strip is_dec ltac:(reflexivity) (length t0) t0 ltac:(lia) Gd) as [F _].
    pose proof (py_int_0_decimal (c0 :: strip_us t0) c0 (strip_us t0) eq_refl G0 F) as P.
    change (10 =? 10) with true in Hlim. cbn [negb orb] in Hlim.
    destruct (Z.eqb_spec c0 ch_0) as [E|_]; [contradiction|]. cbn [orb] in Hlim.
    destruct (Z.ltb_spec max_str_digits (Z.of_nat (length (c0 :: strip_us t0)))) as [Lt|_]; [lia|].
    cbn zeta. destruct (strip_us t0) as [|c1 rest] eqn:SU; [exact P|].
    destruct (Z.eqb_spec c0 ch_0) as [E|_]; [contradiction|]. exact P.
Qed.

(* Theorem: on every literal of CPython's grammar (optionally signed by the compiler), after the
   scanner removed the underscores, str_to_number returns the value CPython assigns *)
Theorem str_to_number_value s v :
  signed_literal s = Some v -> signed_within_limit s = true ->
  str_to_number (strip_us s) = Some v.
Proof.
  unfold signed_literal, signed_within_limit. destruct s as [|c t]; [discriminate|].
  destruct (Z.eqb_spec c ch_minus) as [E|N].
  - subst c. destruct (python_int_literal t) as [w|] eqn:P; [|discriminate]. intros Hv Hl. inversion Hv; subst v.
    destruct (str_to_number_unsigned t w P Hl) as [Hm Hr].
    rewrite strip_us_cons_keep by (unfold ch_minus, ch_us; lia).
    unfold str_to_number. change (ch_minus =? ch_minus) with true. cbn iota.
    cbn zeta in Hr. rewrite Hr. reflexivity.
  - intros P Hl. destruct (str_to_number_unsigned (c :: t) v P Hl) as [Hm Hr].
    unfold str_to_number. cbn zeta in Hr.
    destruct (strip_us (c :: t)) as [|d r] eqn:SU.
    + rewrite Hr. reflexivity.
    + assert (d <> ch_minus).
      { (* the first character of a literal is a digit *)
        unfold python_int_literal, lit_split in P.
        destruct (Z.eqb_spec c ch_0).
        - subst c. rewrite strip_us_cons_keep in SU by (unfold ch_0, ch_us; lia). inversion SU. unfold ch_0, ch_minus. lia.
        - destruct (is_nonzero_dec c) eqn:Nz; [|discriminate].
          rewrite strip_us_cons_keep in SU by (unfold is_nonzero_dec, ch_us in *; lia). inversion SU; subst.
          unfold is_nonzero_dec, ch_minus in *. lia. }
      destruct (Z.eqb_spec d ch_minus) as [E|_]; [contradiction|].
      rewrite Hr. reflexivity.
Qed.
