(* Proofs for property C09 (Model/M_Consts.v). *)
From Coq Require Import ZArith List Bool Lia ZifyBool.
From CyVerif Require Import Lib.CInt Model.M_Consts.
Import ListNotations.
Open Scope Z_scope.

(* ------------------------------------------------------------------ *)
(* A. str_to_number on literals                                        *)
(* ------------------------------------------------------------------ *)

Definition step (base : Z) (a c : Z) : Z := a * base + digit_val c.

Lemma eval_digits_fold base s : eval_digits base s = fold_left (step base) s 0.
Proof. reflexivity. Qed.

(* a character that scan consumes as a digit of the base *)
Definition dig_ok (base c : Z) : Prop := digit_val c < base /\ c <> ch_us.

Lemma scan_digits base s : forall acc nd,
  Forall (dig_ok base) s ->
  scan base false acc nd s = Some (fold_left (step base) s acc, nd + Z.of_nat (length s), []).
Proof.
  induction s as [|c t IH]; intros acc nd H.
  - cbn. rewrite Z.add_0_r. reflexivity.
  - inversion H as [|? ? [Hd Hu] Ht]; subst. cbn [scan].
    destruct (Z.eqb_spec c ch_us) as [E|_]; [contradiction|].
    destruct (Z.ltb_spec (digit_val c) base) as [_|L]; [|lia].
    rewrite IH by assumption. cbn [fold_left length]. unfold step at 2.
    f_equal. f_equal. f_equal. lia.
Qed.

Lemma digit_val_range c : 0 <= digit_val c.
Proof. unfold digit_val. repeat match goal with |- context [if ?b then _ else _] => destruct b eqn:? end; lia. Qed.

(* classes of digit characters *)
Lemma is_dec_val c : is_dec c = true -> digit_val c = c - 48 /\ 48 <= c <= 57.
Proof. unfold is_dec, digit_val. intros H. rewrite H. lia. Qed.

Lemma is_hexd_ok c : is_hexd c = true -> dig_ok 16 c /\ is_space c = false /\ is_l c = false
  /\ c <> ch_minus /\ c <> ch_plus /\ is_x c = false.
Proof.
  unfold is_hexd, is_dec, dig_ok, digit_val, is_space, is_l, is_x, ch_us, ch_minus, ch_plus. intros H.
  repeat match goal with |- context [if ?b then _ else _] => destruct b eqn:? end; lia.
Qed.

Lemma is_octd_ok c : is_octd c = true -> dig_ok 8 c /\ is_space c = false
  /\ c <> ch_minus /\ c <> ch_plus /\ is_o c = false /\ is_x c = false /\ is_b c = false.
Proof.
  unfold is_octd, dig_ok, digit_val, is_space, is_o, is_x, is_b, ch_us, ch_minus, ch_plus. intros H.
  repeat match goal with |- context [if ?b then _ else _] => destruct b eqn:? end; lia.
Qed.

Lemma is_bind_ok c : is_bind c = true -> dig_ok 2 c /\ is_space c = false
  /\ c <> ch_minus /\ c <> ch_plus /\ is_b c = false.
Proof.
  unfold is_bind, dig_ok, digit_val, is_space, is_b, ch_us, ch_minus, ch_plus. intros H.
  repeat match goal with |- context [if ?b then _ else _] => destruct b eqn:? end; lia.
Qed.

Lemma is_dec_ok c : is_dec c = true -> dig_ok 10 c /\ dig_ok 8 c \/ dig_ok 10 c.
Proof.
  unfold is_dec, dig_ok, digit_val, ch_us. intros H.
  repeat match goal with |- context [if ?b then _ else _] => destruct b eqn:? end; lia.
Qed.

(* a plain character: not a space, sign or underscore *)
Definition plain (c : Z) : Prop :=
  is_space c = false /\ c <> ch_minus /\ c <> ch_plus /\ c <> ch_us.

(* int(s, b) for an explicit power-of-two base on a bare digit string *)
Lemma py_int_pow2_digits b s :
  is_pow2_base b = true -> b <> 0 ->
  s <> [] -> Forall (dig_ok b) s -> Forall plain s ->
  (forall c0 c1 t, s = c0 :: c1 :: t ->
     (c0 =? ch_0) && (((b =? 16) && is_x c1) || ((b =? 8) && is_o c1) || ((b =? 2) && is_b c1)) = false) ->
  py_int b s = Some (eval_digits b s).
Proof.
  intros Hp Hb0 Hne Hd Hpl Hpre.
  destruct s as [|c0 t]; [congruence|].
  inversion Hpl as [|? ? [Hs [Hm [Hpls Hus]]] Hplt]; subst.
  unfold py_int. cbn [drop_space]. rewrite Hs.
  destruct (Z.eqb_spec c0 ch_minus) as [E|_]; [contradiction|].
  destruct (Z.eqb_spec c0 ch_plus) as [E|_]; [contradiction|].
  cbn [orb].
  destruct (Z.eqb_spec b 0) as [E|_]; [contradiction|]. cbn [andb].
  assert (S3 : match c0 :: t with
               | c2 :: c1 :: t0 =>
                   if (c2 =? ch_0) && ((b =? 16) && is_x c1 || (b =? 8) && is_o c1 || (b =? 2) && is_b c1)
                   then match t0 with u :: t' => if u =? ch_us then t' else t0 | [] => t0 end
                   else c0 :: t
               | _ => c0 :: t end = c0 :: t).
  { destruct t as [|c1 t0]; [reflexivity|]. rewrite (Hpre c0 c1 t0 eq_refl). reflexivity. }
  rewrite S3.
  destruct (Z.eqb_spec c0 ch_us) as [E|_]; [contradiction|].
  rewrite scan_digits by assumption.
  cbn [forallb]. rewrite Hp. cbn [negb andb].
  destruct (Z.eqb_spec (0 + Z.of_nat (length (c0 :: t))) 0) as [E|_]; [cbn [length] in E; lia|].
  reflexivity.
Qed.

Lemma fold_zeros base s acc : Forall (fun c => c = ch_0) s -> fold_left (step base) s acc = acc * base ^ Z.of_nat (length s).
Proof.
  revert acc. induction s as [|c t IH]; intros acc H.
  - cbn. lia.
  - inversion H; subst. cbn [fold_left length]. rewrite IH by assumption.
    unfold step, digit_val, ch_0. cbn [Z.leb Z.compare Pos.compare Pos.compare_cont andb].
    rewrite Nat2Z.inj_succ, Z.pow_succ_r by lia. cbn. lia.
Qed.

(* int(s, 0) on a decimal digit string that does not start with '0' *)
Lemma py_int_0_decimal s c0 t :
  s = c0 :: t -> is_nonzero_dec c0 = true -> Forall (fun c => is_dec c = true) t ->
  py_int 0 s = if max_str_digits <? Z.of_nat (length s) then None else Some (eval_digits 10 s).
Proof.
  intros -> H0 Ht.
  assert (Hall : Forall (dig_ok 10) (c0 :: t)).
  { constructor.
    - unfold is_nonzero_dec, dig_ok, digit_val, ch_us in *.
      repeat match goal with |- context [if ?b then _ else _] => destruct b eqn:? end; lia.
    - eapply Forall_impl; [|exact Ht]. intros c Hc. unfold is_dec, dig_ok, digit_val, ch_us in *.
      repeat match goal with |- context [if ?b then _ else _] => destruct b eqn:? end; lia. }
  assert (Hc0 : is_space c0 = false /\ c0 <> ch_minus /\ c0 <> ch_plus /\ c0 <> ch_us /\ c0 <> ch_0).
  { unfold is_nonzero_dec, is_space, ch_minus, ch_plus, ch_us, ch_0 in *. lia. }
  destruct Hc0 as (Hs & Hm & Hp & Hu & Hz).
  unfold py_int. cbn [drop_space]. rewrite Hs.
  destruct (Z.eqb_spec c0 ch_minus) as [E|_]; [contradiction|].
  destruct (Z.eqb_spec c0 ch_plus) as [E|_]; [contradiction|].
  cbn [orb]. change (0 =? 0) with true. cbn [andb].
  destruct (Z.eqb_spec c0 ch_0) as [E|_]; [contradiction|]. cbn [andb].
  assert (B : (match t with | c1 :: _ => 10 | [] => 10 end) = 10) by (destruct t; reflexivity).
  destruct t as [|c1 t0].
  - destruct (Z.eqb_spec c0 ch_us) as [E|_]; [contradiction|].
    rewrite scan_digits by assumption. cbn [length forallb Z.of_nat negb andb is_pow2_base].
    change (is_pow2_base 10) with false. cbn [negb andb].
    change (0 + Z.pos (Pos.of_succ_nat 0) =? 0) with false.
    cbn [Z.add]. destruct (max_str_digits <? 1); reflexivity.
  - change (10 =? 16) with false. change (10 =? 8) with false. change (10 =? 2) with false.
    cbn [andb orb].
    destruct (Z.eqb_spec c0 ch_us) as [E|_]; [contradiction|].
    rewrite scan_digits by assumption. cbn [forallb negb andb].
    change (is_pow2_base 10) with false. cbn [negb andb].
    destruct (Z.eqb_spec (0 + Z.of_nat (length (c0 :: c1 :: t0))) 0) as [E|_]; [cbn [length] in E; lia|].
    rewrite Z.add_0_l. destruct (max_str_digits <? Z.of_nat (length (c0 :: c1 :: t0))); reflexivity.
Qed.

Lemma py_int_0_zero : py_int 0 [ch_0] = Some 0.
Proof. reflexivity. Qed.

(* (["_"] d)* : removing the underscores leaves digits only *)
Lemma us_digits_strip isd : (isd ch_us = false) -> forall n s, (length s <= n)%nat ->
  us_digits isd s = true -> Forall (fun c => isd c = true) (strip_us s) /\ (s <> [] -> strip_us s <> []).
Proof.
  intros Hus. induction n as [|n IH]; intros s Hl H.
  - destruct s; [|cbn in Hl; lia]. split; [constructor|congruence].
  - destruct s as [|c t]; [split; [constructor|congruence]|].
    cbn [us_digits] in H. cbn [length] in Hl.
    destruct (Z.eqb_spec c ch_us) as [E|N].
    + subst c. destruct t as [|d t']; [discriminate|].
      apply andb_prop in H. destruct H as [Hd Ht].
      assert (Nd : d <> ch_us) by (intros ->; congruence).
      destruct (IH t' ltac:(cbn [length] in Hl; lia) Ht) as [F _].
      unfold strip_us. cbn [filter]. change (ch_us =? ch_us) with true. cbn [negb].
      destruct (Z.eqb_spec d ch_us) as [E|_]; [contradiction|]. cbn [negb].
      split; [constructor; assumption|congruence].
    + apply andb_prop in H. destruct H as [Hd Ht].
      destruct (IH t ltac:(lia) Ht) as [F _].
      unfold strip_us. cbn [filter]. destruct (Z.eqb_spec c ch_us) as [E|_]; [contradiction|]. cbn [negb].
      split; [constructor; assumption|congruence].
Qed.

Lemma strip_us_cons_keep c t : c <> ch_us -> strip_us (c :: t) = c :: strip_us t.
Proof. intros N. unfold strip_us. cbn [filter]. destruct (Z.eqb_spec c ch_us); [contradiction|reflexivity]. Qed.

Lemma last_cons_ne {A} (a : A) l d : l <> [] -> last (a :: l) d = last l d.
Proof. destruct l; [congruence|reflexivity]. Qed.

Lemma Forall_last {A} (P : A -> Prop) l d : l <> [] -> Forall P l -> P (last l d).
Proof.
  induction l as [|a l IH]; [congruence|]. intros _ H. inversion H; subst.
  destruct l as [|b l']; [assumption|]. rewrite last_cons_ne by congruence. apply IH; [congruence|assumption].
Qed.

(* the value of a literal whose underscores were removed by the scanner *)
Lemma str_to_number_unsigned t v :
  python_int_literal t = Some v -> literal_within_limit t = true ->
  (match t with c :: _ => c <> ch_minus | [] => True end) /\
  (let u := strip_us t in
   match u with
   | c0 :: c1 :: rest =>
       if c0 =? ch_0 then
         if is_x c1 then py_int 16 (skipn 2 (strip_L u))
         else if is_o c1 then py_int 8 rest
         else if is_b c1 then py_int 2 rest
         else py_int 8 u
       else py_int 0 u
   | _ => py_int 0 u
   end = Some v).
Proof.
  unfold python_int_literal, literal_within_limit.
  destruct (lit_split t) as [[b d]|] eqn:L; [|discriminate]. intros Hv Hlim. inversion Hv; subst v; clear Hv.
  unfold lit_split in L. destruct t as [|c0 t0]; [discriminate|].
  destruct (Z.eqb_spec c0 ch_0) as [E0|N0].
  - subst c0. split; [unfold ch_0, ch_minus; lia|].
    assert (Z0us : ch_0 <> ch_us) by (unfold ch_0, ch_us; lia).
    rewrite strip_us_cons_keep by assumption.
    destruct t0 as [|c1 u].
    + inversion L; subst. cbn. reflexivity.
    + destruct (is_x c1) eqn:X.
      { (* hex *)
        destruct (nonempty u && us_digits is_hexd u) eqn:G; [|discriminate]. inversion L; subst b d; clear L.
        apply andb_prop in G. destruct G as [Gn Gd].
        assert (C1 : c1 <> ch_us) by (unfold is_x, ch_us in *; lia).
        rewrite strip_us_cons_keep by assumption.
        destruct (us_digits_strip is_hexd ltac:(reflexivity) (length u) u ltac:(lia) Gd) as [F NE].
        assert (NEu : strip_us u <> []) by (apply NE; destruct u; [discriminate|congruence]).
        cbn zeta. change (ch_0 =? ch_0) with true. cbn iota. rewrite X.
        assert (SL : strip_L (ch_0 :: c1 :: strip_us u) = ch_0 :: c1 :: strip_us u).
        { unfold strip_L. rewrite !last_cons_ne by congruence.
          pose proof (Forall_last _ _ 0 NEu F) as HL. cbn beta in HL.
          apply is_hexd_ok in HL. destruct HL as (_ & _ & HL & _). rewrite HL. reflexivity. }
        rewrite SL. cbn [skipn].
        apply py_int_pow2_digits; try reflexivity; try lia; try assumption.
        - eapply Forall_impl; [|exact F]. intros c Hc. apply is_hexd_ok in Hc. tauto.
        - eapply Forall_impl; [|exact F]. intros c Hc. apply is_hexd_ok in Hc. unfold plain, dig_ok in *. tauto.
        - intros a1 a2 tt Eq. rewrite Eq in F. inversion F as [|? ? _ F2]; subst. inversion F2 as [|? ? H2 _]; subst.
          apply is_hexd_ok in H2. destruct H2 as (_ & _ & _ & _ & _ & H2). rewrite H2.
          change (16 =? 8) with false. change (16 =? 2) with false. cbn. apply andb_false_r. }
      destruct (is_o c1) eqn:O.
      { destruct (nonempty u && us_digits is_octd u) eqn:G; [|discriminate]. inversion L; subst b d; clear L.
        apply andb_prop in G. destruct G as [Gn Gd].
        assert (C1 : c1 <> ch_us) by (unfold is_o, ch_us in *; lia).
        rewrite strip_us_cons_keep by assumption.
        destruct (us_digits_strip is_octd ltac:(reflexivity) (length u) u ltac:(lia) Gd) as [F NE].
        assert (NEu : strip_us u <> []) by (apply NE; destruct u; [discriminate|congruence]).
        cbn zeta. change (ch_0 =? ch_0) with true. cbn iota. rewrite X, O.
        apply py_int_pow2_digits; try reflexivity; try lia; try assumption.
        - eapply Forall_impl; [|exact F]. intros c Hc. apply is_octd_ok in Hc. tauto.
        - eapply Forall_impl; [|exact F]. intros c Hc. apply is_octd_ok in Hc. unfold plain, dig_ok in *. tauto.
        - intros a1 a2 tt Eq. rewrite Eq in F. inversion F as [|? ? _ F2]; subst. inversion F2 as [|? ? H2 _]; subst.
          apply is_octd_ok in H2. destruct H2 as (_ & _ & _ & _ & H2 & _). rewrite H2.
          change (8 =? 16) with false. change (8 =? 2) with false. cbn. apply andb_false_r. }
      destruct (is_b c1) eqn:Bb.
      { destruct (nonempty u && us_digits is_bind u) eqn:G; [|discriminate]. inversion L; subst b d; clear L.
        apply andb_prop in G. destruct G as [Gn Gd].
        assert (C1 : c1 <> ch_us) by (unfold is_b, ch_us in *; lia).
        rewrite strip_us_cons_keep by assumption.
        destruct (us_digits_strip is_bind ltac:(reflexivity) (length u) u ltac:(lia) Gd) as [F NE].
        assert (NEu : strip_us u <> []) by (apply NE; destruct u; [discriminate|congruence]).
        cbn zeta. change (ch_0 =? ch_0) with true. cbn iota. rewrite X, O, Bb.
        apply py_int_pow2_digits; try reflexivity; try lia; try assumption.
        - eapply Forall_impl; [|exact F]. intros c Hc. apply is_bind_ok in Hc. tauto.
        - eapply Forall_impl; [|exact F]. intros c Hc. apply is_bind_ok in Hc. unfold plain, dig_ok in *. tauto.
        - intros a1 a2 tt Eq. rewrite Eq in F. inversion F as [|? ? _ F2]; subst. inversion F2 as [|? ? H2 _]; subst.
          apply is_bind_ok in H2. destruct H2 as (_ & _ & _ & _ & H2). rewrite H2.
          change (2 =? 16) with false. change (2 =? 8) with false. cbn. apply andb_false_r. }
      (* "0" ( ["_"] "0" )* *)
      destruct (us_digits is_zero_ch (c1 :: u)) eqn:G; [|discriminate]. inversion L; subst b d; clear L.
      destruct (us_digits_strip is_zero_ch ltac:(reflexivity) (length (c1 :: u)) (c1 :: u) ltac:(lia) G) as [F NE].
      assert (NEu : strip_us (c1 :: u) <> []) by (apply NE; congruence).
      assert (FZ : Forall (fun c => c = ch_0) (strip_us (c1 :: u))).
      { eapply Forall_impl; [|exact F]. intros c Hc. unfold is_zero_ch, ch_0 in *. lia. }
      destruct (strip_us (c1 :: u)) as [|z1 zs] eqn:SU; [congruence|].
      inversion FZ as [|? ? Ez FZs]; subst z1.
      cbn zeta. change (ch_0 =? ch_0) with true. cbn iota.
      change (is_x ch_0) with false. change (is_o ch_0) with false. change (is_b ch_0) with false. cbn iota.
      assert (ALLZ : Forall (fun c => c = ch_0) (ch_0 :: ch_0 :: zs)) by (repeat constructor; assumption).
      rewrite py_int_pow2_digits; try reflexivity; try lia; try congruence.
      * rewrite strip_us_cons_keep by assumption. rewrite SU.
        rewrite !eval_digits_fold, !fold_zeros by assumption. rewrite !Z.mul_0_l. reflexivity.
      * eapply Forall_impl; [|exact ALLZ]. intros c ->. unfold dig_ok, digit_val, ch_0, ch_us. cbn. lia.
      * eapply Forall_impl; [|exact ALLZ]. intros c ->. unfold plain, is_space, ch_0, ch_us, ch_minus, ch_plus. cbn. lia.
      * intros a1 a2 tt Eq. inversion Eq; subst. reflexivity.
  - (* decimal, first digit 1-9 *)
    destruct (is_nonzero_dec c0 && us_digits is_dec t0) eqn:G; [|discriminate]. inversion L; subst b d; clear L.
    apply andb_prop in G. destruct G as [G0 Gd].
    split; [unfold is_nonzero_dec, ch_minus in *; lia|].
    assert (C0 : c0 <> ch_us) by (unfold is_nonzero_dec, ch_us in *; lia).
    rewrite strip_us_cons_keep in * by assumption.
    destruct (us_digits_strip is_dec ltac:(reflexivity) (length t0) t0 ltac:(lia) Gd) as [F _].
    pose proof (py_int_0_decimal (c0 :: strip_us t0) c0 (strip_us t0) eq_refl G0 F) as P.
    change (10 =? 10) with true in Hlim. cbn [negb orb] in Hlim.
    destruct (Z.eqb_spec c0 ch_0) as [E|_]; [contradiction|]. cbn [orb] in Hlim.
    destruct (Z.ltb_spec max_str_digits (Z.of_nat (length (c0 :: strip_us t0)))) as [Lt|_]; [lia|].
    cbn zeta. destruct (strip_us t0) as [|c1 rest] eqn:SU; [exact P|].
    destruct (Z.eqb_spec c0 ch_0) as [E|_]; [contradiction|]. exact P.
Qed.

(* Theorem: on every literal of CPython's grammar (optionally signed by the compiler), after the
   scanner removed the underscores, str_to_number returns the value CPython assigns *)
Theorem str_to_number_value s v :
  signed_literal s = Some v -> signed_within_limit s = true ->
  str_to_number (strip_us s) = Some v.
Proof.
  unfold signed_literal, signed_within_limit. destruct s as [|c t]; [discriminate|].
  destruct (Z.eqb_spec c ch_minus) as [E|N].
  - subst c. destruct (python_int_literal t) as [w|] eqn:P; [|discriminate]. intros Hv Hl. inversion Hv; subst v.
    destruct (str_to_number_unsigned t w P Hl) as [Hm Hr].
    rewrite strip_us_cons_keep by (unfold ch_minus, ch_us; lia).
    unfold str_to_number. change (ch_minus =? ch_minus) with true. cbn iota.
    cbn zeta in Hr. rewrite Hr. reflexivity.
  - intros P Hl. destruct (str_to_number_unsigned (c :: t) v P Hl) as [Hm Hr].
    unfold str_to_number. cbn zeta in Hr.
    destruct (strip_us (c :: t)) as [|d r] eqn:SU.
    + rewrite Hr. reflexivity.
    + assert (d <> ch_minus).
      { (* the first character of a literal is a digit *)
        unfold python_int_literal, lit_split in P.
        destruct (Z.eqb_spec c ch_0).
        - subst c. rewrite strip_us_cons_keep in SU by (unfold ch_0, ch_us; lia). inversion SU. unfold ch_0, ch_minus. lia.
        - destruct (is_nonzero_dec c) eqn:Nz; [|discriminate].
          rewrite strip_us_cons_keep in SU by (unfold is_nonzero_dec, ch_us in *; lia). inversion SU; subst.
          unfold is_nonzero_dec, ch_minus in *. lia. }
      destruct (Z.eqb_spec d ch_minus) as [E|_]; [contradiction|].
      rewrite Hr. reflexivity.
Qed.

(* the legacy "0NNN" form the lexicon still admits is read as octal *)
Theorem str_to_number_legacy_octal s :
  legacy_octal s = true -> str_to_number s = Some (eval_digits 8 s).
Proof.
  unfold legacy_octal. destruct s as [|c0 [|c1 t]]; try discriminate.
  intros H. apply andb_prop in H. destruct H as [H0 H1].
  assert (c0 = ch_0) by lia. subst c0.
  assert (F : Forall (fun c => is_octd c = true) (ch_0 :: c1 :: t)).
  { constructor; [reflexivity|]. apply Forall_forall. intros x Hx. apply (proj1 (forallb_forall _ _) H1 x Hx). }
  inversion F as [|? ? _ F1]; subst. inversion F1 as [|? ? Hc1 _]; subst.
  apply is_octd_ok in Hc1. destruct Hc1 as (_ & _ & _ & _ & Ho & Hx & Hb).
  unfold str_to_number. change (ch_0 =? ch_minus) with false. cbn iota.
  change (ch_0 =? ch_0) with true. cbn iota. rewrite Hx, Ho, Hb.
  rewrite py_int_pow2_digits; try reflexivity; try lia; try congruence.
  - eapply Forall_impl; [|exact F]. intros c Hc. apply is_octd_ok in Hc. tauto.
  - eapply Forall_impl; [|exact F]. intros c Hc. apply is_octd_ok in Hc. unfold plain, dig_ok in *. tauto.
  - intros a1 a2 tt Eq. inversion Eq; subst. rewrite Ho.
    change (8 =? 16) with false. change (8 =? 2) with false. cbn. reflexivity.
Qed.

(* the raw token with an underscore directly after the base prefix is NOT accepted by
   str_to_number (int("_1f", 16) raises); harmless because the scanner strips underscores *)
Lemma str_to_number_raw_prefix_underscore :
  python_int_literal [48; 120; 95; 49; 102] = Some 31 /\ str_to_number [48; 120; 95; 49; 102] = None
  /\ str_to_number (strip_us [48; 120; 95; 49; 102]) = Some 31.
Proof. vm_compute. auto. Qed.

(* ------------------------------------------------------------------ *)
(* B. emission of integer constants                                    *)
(* ------------------------------------------------------------------ *)

Lemma digit_val_char d : 0 <= d < 36 -> digit_val (digit_char d) = d.
Proof.
  intros H. unfold digit_char. destruct (Z.ltb_spec d 10); unfold digit_val;
  repeat match goal with |- context [if ?b then _ else _] => destruct b eqn:? end; lia.
Qed.

Lemma digit_char_ok b d : 2 <= b <= 36 -> 0 <= d < b ->
  dig_ok b (digit_char d) /\ plain (digit_char d)
  /\ (b <= 16 -> is_l (digit_char d) = false /\ is_x (digit_char d) = false /\ is_o (digit_char d) = false)
  /\ (b <= 10 -> is_b (digit_char d) = false).
Proof.
  intros Hb Hd. unfold dig_ok. rewrite digit_val_char by lia.
  unfold plain, digit_char, is_space, is_l, is_x, is_o, is_b, ch_us, ch_minus, ch_plus.
  destruct (Z.ltb_spec d 10); lia.
Qed.

Lemma div_eucl_eq n b : Z.div_eucl n b = (n / b, n mod b).
Proof. unfold Z.div, Z.modulo. destruct (Z.div_eucl n b). reflexivity. Qed.

(* value, shape and last digit of the digit list, least significant first *)
Lemma digits_rev_spec b : 2 <= b <= 36 -> forall fuel n,
  0 <= n < 2 ^ Z.of_nat fuel ->
  fold_left (step b) (rev (digits_rev fuel b n)) 0 = n
  /\ Forall (fun c => exists d, 0 <= d < b /\ c = digit_char d) (digits_rev fuel b n)
  /\ (0 < n -> exists l d, digits_rev fuel b n = l ++ [digit_char d] /\ 0 < d < b).
Proof.
  intros Hb. induction fuel as [|f IH]; intros n Hn.
  - cbn in Hn. assert (n = 0) by lia. subst. cbn. repeat split; [constructor|lia].
  - cbn [digits_rev]. destruct (Z.leb_spec n 0) as [L|G].
    + assert (n = 0) by lia. subst. cbn. repeat split; [constructor|lia].
    + rewrite div_eucl_eq.
      assert (Hq : 0 <= n / b < 2 ^ Z.of_nat f).
      { rewrite Nat2Z.inj_succ, Z.pow_succ_r in Hn by lia.
        split; [apply Z.div_pos; lia|].
        apply Z.div_lt_upper_bound; [lia|]. nia. }
      destruct (IH (n / b) Hq) as (V & F & Lst).
      pose proof (Z.mod_pos_bound n b ltac:(lia)) as Hr.
      repeat split.
      * cbn [rev]. rewrite fold_left_app. cbn [fold_left]. rewrite V. unfold step.
        rewrite digit_val_char by lia. pose proof (Z.div_mod n b ltac:(lia)). lia.
      * constructor; [exists (n mod b); split; [lia|reflexivity]|assumption].
      * intros _. destruct (Z.eq_dec (n / b) 0) as [E|NE].
        -- exists [], (n mod b). rewrite E.
           assert (D0 : forall f', digits_rev f' b 0 = []) by (destruct f'; reflexivity).
           rewrite D0. split; [reflexivity|].
           pose proof (Z.div_mod n b ltac:(lia)). lia.
        -- destruct (Lst ltac:(lia)) as (l & d & El & Hd).
           exists (digit_char (n mod b) :: l), d. rewrite El. split; [reflexivity|assumption].
Qed.

Lemma digits_rev_pow2_eq k : 0 < k -> forall fuel n,
  0 <= n -> digits_rev_pow2 fuel k n = digits_rev fuel (2 ^ k) n.
Proof.
  intros Hk. induction fuel as [|f IH]; intros n Hn; [reflexivity|].
  cbn [digits_rev_pow2 digits_rev]. destruct (n <=? 0); [reflexivity|].
  rewrite div_eucl_eq, Z.land_ones, Z.shiftr_div_pow2 by lia.
  rewrite IH; [reflexivity|]. apply Z.div_pos; [lia|]. apply Z.pow_pos_nonneg; lia.
Qed.

Lemma digit_fuel_ok n : 0 < n -> 0 <= n < 2 ^ Z.of_nat (digit_fuel n).
Proof.
  intros H. unfold digit_fuel. rewrite Nat2Z.inj_succ, Z2Nat.id by apply Z.log2_nonneg.
  pose proof (Z.log2_spec n H). lia.
Qed.

(* the digit string of n > 0 in base b: evaluates to n, consists of digits of the base,
   is not empty and does not start with '0' *)
Lemma to_digits_spec b n : 2 <= b <= 36 -> 0 < n ->
  eval_digits b (to_digits b n) = n
  /\ Forall (fun c => exists d, 0 <= d < b /\ c = digit_char d) (to_digits b n)
  /\ exists d t, to_digits b n = digit_char d :: t /\ 0 < d < b.
Proof.
  intros Hb Hn. unfold to_digits.
  destruct (digits_rev_spec b Hb (digit_fuel n) n (digit_fuel_ok n Hn)) as (V & F & Lst).
  repeat split.
  - exact V.
  - apply Forall_rev. exact F.
  - destruct (Lst Hn) as (l & d & El & Hd). exists d, (rev l). rewrite El, rev_app_distr. split; [reflexivity|assumption].
Qed.

Lemma to_digits_pow2_eq k n : 0 < k -> 0 < n -> to_digits_pow2 k n = to_digits (2 ^ k) n.
Proof. intros. unfold to_digits_pow2, to_digits. rewrite digits_rev_pow2_eq by lia. reflexivity. Qed.

Lemma digits_facts b l : 2 <= b <= 36 ->
  Forall (fun c => exists d, 0 <= d < b /\ c = digit_char d) l ->
  Forall (dig_ok b) l /\ Forall plain l.
Proof.
  intros Hb F. split; eapply Forall_impl; try exact F; intros c (d & Hd & ->);
    destruct (digit_char_ok b d Hb Hd) as (A & B & _); assumption.
Qed.

(* int("-" + s, b) = -int(s, b) when s starts with a plain character *)
Lemma py_int_minus b c t : plain c ->
  py_int b (ch_minus :: c :: t) = match py_int b (c :: t) with Some v => Some (- v) | None => None end.
Proof.
  intros (Hs & Hm & Hp & Hu). unfold py_int. cbn [drop_space].
  change (is_space ch_minus) with false. cbn iota. rewrite Hs.
  change (ch_minus =? ch_minus) with true. cbn [orb]. cbn iota.
  destruct (Z.eqb_spec c ch_minus) as [E|_]; [contradiction|].
  destruct (Z.eqb_spec c ch_plus) as [E|_]; [contradiction|]. cbn [orb]. cbn iota.
  repeat match goal with
         | |- context [match ?x with _ => _ end] =>
             lazymatch x with
             | context [match _ with _ => _ end] => fail
             | _ => destruct x eqn:?
             end
         end; try reflexivity; try congruence.
Qed.

Lemma strip_L_digits b l : 2 <= b <= 16 -> l <> [] ->
  Forall (fun c => exists d, 0 <= d < b /\ c = digit_char d) l ->
  forall pre, strip_L (pre ++ l) = pre ++ l.
Proof.
  intros Hb Hne F pre. unfold strip_L.
  assert (L : last (pre ++ l) 0 = last l 0).
  { destruct l as [|a l']; [congruence|]. clear. induction pre as [|p pre IH]; [reflexivity|].
    cbn [app]. rewrite last_cons_ne; [exact IH|]. destruct pre; discriminate. }
  rewrite L. pose proof (Forall_last _ _ 0 Hne F) as (d & Hd & E). cbn beta in E. rewrite E.
  destruct (digit_char_ok b d ltac:(lia) Hd) as (_ & _ & H16 & _). destruct (H16 ltac:(lia)) as (Hl & _).
  rewrite Hl. reflexivity.
Qed.

(* hex(v) is read back as v, for every integer *)
Lemma py_hex_roundtrip v : strip_L (py_hex v) = py_hex v /\ str_to_number (py_hex v) = Some v.
Proof.
  assert (KEY : forall n, 0 <= n ->
     let d := if n =? 0 then [ch_0] else to_digits_pow2 4 n in
     strip_L ([ch_0; 120] ++ d) = [ch_0; 120] ++ d /\
     strip_L ([ch_minus; ch_0; 120] ++ d) = [ch_minus; ch_0; 120] ++ d /\
     py_int 16 d = Some n /\ d <> []).
  { intros n Hn. destruct (Z.eqb_spec n 0) as [->|NZ].
    - cbn zeta. repeat split; try reflexivity. discriminate.
    - cbn zeta. rewrite to_digits_pow2_eq by lia. change (2 ^ 4) with 16.
      destruct (to_digits_spec 16 n ltac:(lia) ltac:(lia)) as (V & F & (d0 & t0 & E & Hd0)).
      destruct (digits_facts 16 _ ltac:(lia) F) as (FD & FP).
      assert (NE : to_digits 16 n <> []) by (rewrite E; discriminate).
      split; [apply (strip_L_digits 16); try lia; assumption|].
      split; [apply (strip_L_digits 16 _ ltac:(lia) NE F [ch_minus; ch_0; 120])|].
      split; [|assumption].
      rewrite py_int_pow2_digits; try reflexivity; try lia; try assumption.
      + rewrite V. reflexivity.
      + intros a1 a2 tt Eq. rewrite Eq in F. inversion F as [|? ? _ F2]; subst. inversion F2 as [|? ? (d2 & Hd2 & E2) _]; subst.
        destruct (digit_char_ok 16 d2 ltac:(lia) Hd2) as (_ & _ & H16 & _). destruct (H16 ltac:(lia)) as (_ & Hx & _).
        rewrite Hx. change (16 =? 8) with false. change (16 =? 2) with false. cbn. apply andb_false_r. }
  unfold py_hex. destruct (Z.ltb_spec v 0) as [Neg|Pos].
  - destruct (KEY (Z.abs v) ltac:(lia)) as (_ & S2 & P & NE). cbn zeta in *.
    replace (Z.abs v =? 0) with (v =? 0) in * by lia.
    split; [exact S2|].
    unfold str_to_number. cbn [app]. change (ch_minus =? ch_minus) with true. cbn iota.
    change (ch_0 =? ch_0) with true. cbn iota. change (is_x 120) with true. cbn iota.
    destruct (KEY (Z.abs v) ltac:(lia)) as (S1 & _ & _ & _). cbn zeta in S1.
    replace (Z.abs v =? 0) with (v =? 0) in * by lia. cbn [app] in S1. rewrite S1. cbn [skipn].
    rewrite P. f_equal. lia.
  - destruct (KEY (Z.abs v) ltac:(lia)) as (S1 & _ & P & NE). cbn zeta in *.
    replace (Z.abs v =? 0) with (v =? 0) in * by lia.
    split; [exact S1|].
    unfold str_to_number. cbn [app]. change (ch_0 =? ch_minus) with false. cbn iota.
    change (ch_0 =? ch_0) with true. cbn iota. change (is_x 120) with true. cbn iota.
    cbn [app] in S1. rewrite S1. cbn [skipn]. rewrite P. f_equal. lia.
Qed.

Lemma digits_rev_length b : 2 <= b -> forall fuel k n,
  0 <= n < b ^ Z.of_nat k -> (length (digits_rev fuel b n) <= k)%nat.
Proof.
  intros Hb. induction fuel as [|f IH]; intros k n Hn; [cbn; lia|].
  cbn [digits_rev]. destruct (Z.leb_spec n 0); [cbn; lia|].
  rewrite div_eucl_eq. destruct k as [|k]; [cbn in Hn; lia|].
  cbn [length]. apply le_n_S. apply IH.
  rewrite Nat2Z.inj_succ, Z.pow_succ_r in Hn by lia.
  split; [apply Z.div_pos; lia|]. apply Z.div_lt_upper_bound; [lia|]. nia.
Qed.

Lemma dec_digit_char d : 0 <= d < 10 -> is_dec (digit_char d) = true /\ (0 < d -> is_nonzero_dec (digit_char d) = true).
Proof. intros H. unfold digit_char, is_dec, is_nonzero_dec. destruct (Z.ltb_spec d 10); lia. Qed.

(* str(v), when it does not raise, is read back as v *)
Lemma py_str_roundtrip v s : py_str v = Some s -> strip_L s = s /\ str_to_number s = Some v.
Proof.
  unfold py_str. destruct (Z.eqb_spec v 0) as [->|NZ].
  - intros E; inversion E; subst. split; reflexivity.
  - destruct (Z.leb_spec pow10_limit (Z.abs v)) as [|Lim]; [discriminate|]. intros E.
    destruct (to_digits_spec 10 (Z.abs v) ltac:(lia) ltac:(lia)) as (V & F & (d0 & t0 & Ed & Hd0)).
    assert (NE : to_digits 10 (Z.abs v) <> []) by (rewrite Ed; discriminate).
    assert (Len : Z.of_nat (length (to_digits 10 (Z.abs v))) <= max_str_digits).
    { unfold to_digits. rewrite rev_length.
      pose proof (digits_rev_length 10 ltac:(lia) (digit_fuel (Z.abs v)) (Z.to_nat max_str_digits) (Z.abs v)) as B.
      rewrite Z2Nat.id in B by (unfold max_str_digits; lia). fold pow10_limit in B.
      specialize (B ltac:(lia)). unfold max_str_digits in *. lia. }
    assert (P : py_int 0 (to_digits 10 (Z.abs v)) = Some (Z.abs v)).
    { rewrite (py_int_0_decimal _ (digit_char d0) t0 Ed).
      - destruct (Z.ltb_spec max_str_digits (Z.of_nat (length (to_digits 10 (Z.abs v))))); [lia|]. rewrite V. reflexivity.
      - apply dec_digit_char; lia.
      - rewrite Ed in F. inversion F as [|? ? _ F2]; subst. eapply Forall_impl; [|exact F2].
        intros c (d & Hd & ->). apply dec_digit_char. lia. }
    assert (C0 : digit_char d0 <> ch_minus /\ digit_char d0 <> ch_0).
    { unfold digit_char, ch_minus, ch_0. destruct (Z.ltb_spec d0 10); lia. }
    destruct (Z.ltb_spec v 0) as [Neg|Pos]; inversion E; subst s; clear E.
    + split; [apply (strip_L_digits 10 _ ltac:(lia) NE F [ch_minus])|].
      unfold str_to_number. change (ch_minus =? ch_minus) with true. cbn iota.
      rewrite Ed in *. destruct (Z.eqb_spec (digit_char d0) ch_0) as [E0|_]; [tauto|].
      destruct t0; rewrite P; f_equal; lia.
    + split; [apply (strip_L_digits 10 _ ltac:(lia) NE F [])|].
      unfold str_to_number. rewrite Ed in *.
      destruct (Z.eqb_spec (digit_char d0) ch_minus) as [E0|_]; [tauto|].
      destruct (Z.eqb_spec (digit_char d0) ch_0) as [E0|_]; [tauto|].
      destruct t0; rewrite P; f_equal; lia.
Qed.

(* the base-32 text is read back by PyLong_FromString(.., 32) *)
Lemma to_base32_roundtrip n : py_int 32 (to_base32 n) = Some n.
Proof.
  unfold to_base32. destruct (Z.eqb_spec n 0) as [->|NZ]; [reflexivity|].
  rewrite to_digits_pow2_eq by lia. change (2 ^ 5) with 32.
  destruct (to_digits_spec 32 (Z.abs n) ltac:(lia) ltac:(lia)) as (V & F & (d0 & t0 & Ed & Hd0)).
  destruct (digits_facts 32 _ ltac:(lia) F) as (FD & FP).
  assert (P : py_int 32 (to_digits 32 (Z.abs n)) = Some (Z.abs n)).
  { rewrite py_int_pow2_digits; try reflexivity; try lia; try assumption.
    - rewrite V. reflexivity.
    - rewrite Ed. discriminate. }
  destruct (Z.ltb_spec n 0) as [Neg|Pos]; cbn [app].
  - rewrite Ed in *. inversion FP as [|? ? Pl _]; subst. rewrite py_int_minus by assumption. rewrite P. f_equal. lia.
  - rewrite P. f_equal. lia.
Qed.

Lemma bit_length_bound n : Z.abs n < 2 ^ bit_length n /\ 0 <= bit_length n.
Proof.
  unfold bit_length. destruct (Z.eqb_spec n 0) as [->|NZ]; [cbn; lia|].
  pose proof (Z.log2_spec (Z.abs n) ltac:(lia)). pose proof (Z.log2_nonneg (Z.abs n)). lia.
Qed.

(* a small constant fits the C array element it is put in, whatever size class was reached *)
Lemma c_array_fits cur n : bit_length n <= 63 ->
  wrap (8 * c_array_bytes cur n) true n = n.
Proof.
  intros H. destruct (bit_length_bound n) as [B B0].
  set (need := (bit_length n + 8) / 8).
  assert (Hneed : 8 * need >= bit_length n + 1 /\ 1 <= need <= 8).
  { pose proof (Z.div_mod (bit_length n + 8) 8 ltac:(lia)) as DM.
    pose proof (Z.mod_pos_bound (bit_length n + 8) 8 ltac:(lia)) as MB. fold need in DM. lia. }
  assert (Hb : need <= c_array_bytes cur n).
  { unfold c_array_bytes. fold need. unfold next_size.
    destruct (Z.leb_spec need cur); [lia|]. destruct (Z.leb_spec need 2); [lia|]. destruct (Z.leb_spec need 4); lia. }
  apply wrap_id; [lia|]. unfold in_range, min_int, max_int.
  assert (2 ^ bit_length n <= 2 ^ (8 * c_array_bytes cur n - 1)) by (apply Z.pow_le_mono_r; lia).
  lia.
Qed.

(* Theorem: the text chosen for a Python int constant, pooled, emitted (C array element or base-32
   string) and decoded by the module init code gives back the value -- for every integer with
   the repaired formatter choice, and for every integer above -10^4300 with the current one *)
Theorem int_emission_roundtrip abs_threshold cur v :
  abs_threshold = true \/ - pow10_limit < v ->
  int_emission abs_threshold cur v = Some v.
Proof.
  intros H. unfold int_emission, int_const_text.
  assert (TXT : exists t, (if (if abs_threshold then Z.abs v else v) >? 10 ^ 13 then Some (strip_L (py_hex v))
                 else match py_str v with Some s => Some (strip_L s) | None => None end) = Some t
                 /\ str_to_number t = Some v).
  { destruct (Z.gtb_spec (if abs_threshold then Z.abs v else v) (10 ^ 13)) as [G|L].
    - destruct (py_hex_roundtrip v) as (S & R). exists (py_hex v). rewrite S. auto.
    - destruct (py_str v) as [s|] eqn:PS.
      + destruct (py_str_roundtrip v s PS) as (S & R). exists s. rewrite S. auto.
      + exfalso. unfold py_str in PS. destruct (v =? 0); [discriminate|].
        destruct (Z.leb_spec pow10_limit (Z.abs v)) as [Big|]; [|destruct (v <? 0); discriminate].
        assert (10 ^ 13 < pow10_limit) by (vm_compute; reflexivity).
        set (P10 := pow10_limit) in *. clearbody P10. cbv beta iota in L.
        destruct abs_threshold; [lia|]. destruct H as [?|Hv]; [discriminate|]. lia. }
  destruct TXT as (t & -> & R). unfold emit_num. rewrite R.
  destruct (Z.leb_spec (bit_length v) 63) as [Small|Large]; cbn [decode_emitted].
  - rewrite c_array_fits by assumption. reflexivity.
  - apply to_base32_roundtrip.
Qed.

(* ... and the current formatter choice does fail below that bound (finding) *)
Theorem int_emission_current_refuted : exists v, int_emission false 1 v = None.
Proof. exists (- pow10_limit). vm_compute. reflexivity. Qed.

(* the pool key of an int constant determines its value *)
Theorem int_const_key_injective a v1 l1 v2 l2 k :
  int_const_key a v1 l1 = Some k -> int_const_key a v2 l2 = Some k -> v1 = v2 /\ l1 = l2.
Proof.
  unfold int_const_key.
  assert (R : forall v t, int_const_text a v = Some t -> str_to_number t = Some v).
  { intros v t. unfold int_const_text. destruct (_ >? _).
    - intros E; inversion E; subst. destruct (py_hex_roundtrip v) as (S & R). rewrite S. exact R.
    - destruct (py_str v) as [s|] eqn:PS; [|discriminate]. intros E; inversion E; subst.
      destruct (py_str_roundtrip v s PS) as (S & R). rewrite S. exact R. }
  destruct (int_const_text a v1) as [t1|] eqn:E1; [|discriminate].
  destruct (int_const_text a v2) as [t2|] eqn:E2; [|discriminate].
  intros K1 K2. inversion K1; subst k. inversion K2; subst.
  pose proof (R v1 t1 E1) as R1. pose proof (R v2 t1 E2) as R2. rewrite R1 in R2. inversion R2. auto.
Qed.

(* unop_node: the text of the negated literal reads back as the negated value *)
Theorem negated_literal_roundtrip repaired s v :
  str_to_number s = Some v -> repaired = true \/ Z.abs v < pow10_limit ->
  exists t, negated_literal_text repaired s = Some t /\ str_to_number t = Some (- v).
Proof.
  intros R H. unfold negated_literal_text. rewrite R.
  assert (PSok : Z.abs v < pow10_limit -> exists s', py_str (- v) = Some s').
  { intros B. unfold py_str. destruct (- v =? 0); [eauto|].
    set (P10 := pow10_limit) in *. clearbody P10.
    destruct (Z.leb_spec P10 (Z.abs (- v))); [lia|]. eauto. }
  destruct repaired; cbn [andb].
  - destruct (Z.gtb_spec (Z.abs (- v)) (2 ^ 64)) as [G|L].
    + destruct (py_hex_roundtrip (- v)) as (S & R'). exists (py_hex (- v)). auto.
    + assert (B13 : 2 ^ 64 < pow10_limit) by (vm_compute; reflexivity).
      assert (B : Z.abs v < pow10_limit) by (set (P10 := pow10_limit) in *; clearbody P10; lia).
      destruct (PSok B) as (s' & PS). rewrite PS.
      destruct (py_str_roundtrip _ s' PS) as (S & R'). exists s'. auto.
  - destruct H as [?|Hv]; [discriminate|].
    destruct (PSok Hv) as (s' & PS). rewrite PS.
    destruct (py_str_roundtrip _ s' PS) as (S & R'). exists s'. auto.
Qed.

Theorem negated_literal_current_refuted :
  exists s v, str_to_number s = Some v /\ negated_literal_text false s = None.
Proof.
  exists (py_hex pow10_limit), pow10_limit. split.
  - apply py_hex_roundtrip.
  - unfold negated_literal_text. rewrite (proj2 (py_hex_roundtrip pow10_limit)). vm_compute. reflexivity.
Qed.

(* ------------------------------------------------------------------ *)
(* C. constant pooling keys                                            *)
(* ------------------------------------------------------------------ *)

Section cnode_induction.
  Variable P : cnode -> Prop.
  Hypothesis HL : forall ty v, P (NLeaf ty v).
  Hypothesis HQ : forall ty lit mult args,
    (forall m, mult = Some m -> P m) -> Forall P args -> P (NSeq ty lit mult args).
  Hypothesis HS : forall ty a b c, P a -> P b -> P c -> P (NSlice ty a b c).
  Hypothesis HO : P NOpaque.
  Fixpoint cnode_ind2 (n : cnode) : P n :=
    match n with
    | NLeaf ty v => HL ty v
    | NSeq ty lit mult args =>
        HQ ty lit mult args
           (fun m => match mult as o return o = Some m -> P m with
                     | Some m' => fun E => match E in _ = o return match o with Some x => P x | None => True end
                                           with eq_refl => cnode_ind2 m' end
                     | None => fun E => match E with eq_refl => I end
                     end)
           ((fix go (l : list cnode) : Forall P l :=
               match l with [] => Forall_nil P | x :: t => Forall_cons x (cnode_ind2 x) (go t) end) args)
    | NSlice ty a b c => HS ty a b c (cnode_ind2 a) (cnode_ind2 b) (cnode_ind2 c)
    | NOpaque => HO
    end.
End cnode_induction.

Lemma ntype_eqb_eq a b : ntype_eqb a b = true -> a = b.
Proof. destruct a, b; cbn; try discriminate; try reflexivity. intros H. f_equal. lia. Qed.

Lemma ntype_eqb_refl a : ntype_eqb a a = true.
Proof. destruct a; cbn; try reflexivity. lia. Qed.

Lemma zlist_eqb_eq a : forall b, zlist_eqb a b = true -> a = b.
Proof.
  induction a as [|x a IH]; destruct b as [|y b]; cbn; try discriminate; try reflexivity.
  intros H. apply andb_prop in H. destruct H as [H1 H2]. f_equal; [lia|apply IH; assumption].
Qed.

(* IEEE equality plus equal sign bit is equality of bit patterns *)
Lemma float_exact x y : 0 <= x < 2 ^ 64 -> 0 <= y < 2 ^ 64 ->
  float_eq x y = true -> f_sign x = f_sign y -> x = y.
Proof.
  intros Hx Hy E S. unfold float_eq in E. apply andb_prop in E. destruct E as [_ E].
  apply orb_prop in E. destruct E as [E|E]; [lia|].
  apply andb_prop in E. destruct E as [Zx Zy]. unfold f_is_zero, f_sign in *.
  pose proof (Z.div_mod x (2 ^ 63) ltac:(lia)). pose proof (Z.div_mod y (2 ^ 63) ltac:(lia)). lia.
Qed.

Definition leaf_cls (ty : ntype) (v : scalar) : option pyclass :=
  if ntype_eqb ty TPyObject then Some (class_of v) else None.

Lemma same_class ty v1 v2 : leaf_okb ty v1 = true -> leaf_okb ty v2 = true ->
  optclass_eqb (leaf_cls ty v1) (leaf_cls ty v2) = true -> class_of v1 = class_of v2.
Proof. destruct ty, v1, v2; cbn; try discriminate; reflexivity. Qed.

(* the repaired leaf key identifies the constant *)
Lemma leaf_key_exact ty1 v1 ty2 v2 :
  leaf_okb ty1 v1 = true -> leaf_okb ty2 v2 = true -> float_okb v1 = true -> float_okb v2 = true ->
  key_eq (leaf_key true ty1 v1) (leaf_key true ty2 v2) = true -> ty1 = ty2 /\ v1 = v2.
Proof.
  intros O1 O2 F1 F2 K. unfold leaf_key in K. cbn [key_eq] in K.
  apply andb_prop in K. destruct K as [K Ks]. apply andb_prop in K. destruct K as [K Kc].
  apply andb_prop in K. destruct K as [Kt Kv]. apply ntype_eqb_eq in Kt. subst ty2. split; [reflexivity|].
  pose proof (same_class ty1 v1 v2 O1 O2 Kc) as SC.
  destruct v1, v2; try discriminate SC; try reflexivity; cbn in Kv, Ks.
  - f_equal. lia.
  - f_equal. destruct b, b0; cbn in Kv; try reflexivity; discriminate.
  - f_equal. unfold float_okb in *. apply float_exact; try lia. 
  - f_equal. apply zlist_eqb_eq. assumption.
  - f_equal. apply zlist_eqb_eq. assumption.
Qed.

Fixpoint keys_eq (l1 l2 : list key) : bool :=
  match l1, l2 with
  | [], [] => true
  | x :: t1, y :: t2 => key_eq x y && keys_eq t1 t2
  | _, _ => false
  end.

Lemma key_eq_cont_list t1 t2 l1 l2 :
  key_eq (KCont t1 false l1) (KCont t2 false l2) = ntype_eqb t1 t2 && keys_eq l1 l2.
Proof.
  cbn. reflexivity.
Qed.

Lemma key_eq_leaf_cont ty v c s t f l : key_eq (KLeaf ty v c s) (KCont t f l) = false.
Proof. reflexivity. Qed.
Lemma key_eq_cont_leaf ty v c s t f l : key_eq (KCont t f l) (KLeaf ty v c s) = false.
Proof. reflexivity. Qed.

Lemma all_some_map {A} (f : A -> option key) l ks :
  all_some (map f l) = Some ks -> Forall2 (fun a k => f a = Some k) l ks.
Proof.
  revert ks. induction l as [|a l IH]; intros ks H; cbn in H.
  - inversion H. constructor.
  - destruct (f a) as [k|] eqn:E; [|discriminate].
    destruct (all_some (map f l)) as [r|]; [|discriminate]. inversion H; subst. constructor; auto.
Qed.

Lemma cont_key_inv os ty items k :
  cont_key os ty items = Some k ->
  exists ks, all_some items = Some ks /\ k = KCont ty (ntype_eqb ty TPyFrozenset && negb os) ks.
Proof. unfold cont_key. destruct (all_some items) as [ks|]; [|discriminate]. intros E; inversion E. eauto. Qed.

Definition eff_mult (lit : bool) (mult : option cnode) : option cnode :=
  match mult with Some m => if lit then Some m else None | None => None end.

Lemma eff_mult_if (lit : bool) (mult : option cnode) : (if lit then mult else None) = eff_mult lit mult.
Proof. destruct mult, lit; reflexivity. Qed.

Lemma mult_keys os (lit : bool) (mult : option cnode) :
  (match mult with
   | Some m => if lit then item_key true os m else Some (none_entry true)
   | None => Some (none_entry true)
   end) = match eff_mult lit mult with Some m => item_key true os m | None => Some (none_entry true) end.
Proof. destruct mult, lit; reflexivity. Qed.

Lemma mult_exact os lit1 m1 lit2 m2 k1 k2 :
  mult_okb m1 = true -> mult_okb m2 = true ->
  match eff_mult lit1 m1 with Some m => item_key true os m | None => Some (none_entry true) end = Some k1 ->
  match eff_mult lit2 m2 with Some m => item_key true os m | None => Some (none_entry true) end = Some k2 ->
  key_eq k1 k2 = true ->
  (eff_mult lit1 m1 = None /\ eff_mult lit2 m2 = None) \/
  (exists t1 v1 t2 v2 z, eff_mult lit1 m1 = Some (NLeaf t1 v1) /\ eff_mult lit2 m2 = Some (NLeaf t2 v2)
                         /\ as_int v1 = Some z /\ as_int v2 = Some z).
Proof.
  intros O1 O2 K1 K2 E.
  assert (OK : forall lit m e, mult_okb m = true -> eff_mult lit m = Some e ->
               exists t v z, e = NLeaf t v /\ as_int v = Some z /\
                 key_eq (none_entry true) (leaf_key true t v) = false /\ key_eq (leaf_key true t v) (none_entry true) = false).
  { intros lit m e Hm He. destruct m as [m|]; [|discriminate]. destruct lit; [|discriminate]. inversion He; subst e.
    destruct m as [t v| | |]; cbn in Hm; try discriminate.
    destruct t, v; cbn in Hm; try discriminate; (do 3 eexists; repeat split; reflexivity). }
  destruct (eff_mult lit1 m1) as [e1|] eqn:E1; destruct (eff_mult lit2 m2) as [e2|] eqn:E2.
  - destruct (OK _ _ _ O1 E1) as (t1 & v1 & z1 & -> & A1 & _).
    destruct (OK _ _ _ O2 E2) as (t2 & v2 & z2 & -> & A2 & _).
    cbn [item_key] in K1, K2. inversion K1; subst k1. inversion K2; subst k2.
    right. exists t1, v1, t2, v2, z1. repeat split; try assumption.
    unfold leaf_key in E. cbn [key_eq] in E. 
    apply andb_prop in E. destruct E as [E _]. apply andb_prop in E. destruct E as [E _].
    apply andb_prop in E. destruct E as [_ Ev].
    rewrite A2. f_equal.
    destruct v1, v2; cbn in A1, A2, Ev; try discriminate; inversion A1; inversion A2; subst; unfold b2z in *;
      repeat match goal with b : bool |- _ => destruct b end; lia.
  - destruct (OK _ _ _ O1 E1) as (t1 & v1 & z1 & -> & _ & _ & F). cbn [item_key] in K1.
    inversion K1; subst k1. inversion K2; subst k2. rewrite F in E. discriminate.
  - destruct (OK _ _ _ O2 E2) as (t2 & v2 & z2 & -> & _ & F & _). cbn [item_key] in K2.
    inversion K1; subst k1. inversion K2; subst k2. rewrite F in E. discriminate.
  - left. auto.
Qed.

Lemma wf_not_frozenset ty : ntype_eqb ty TPyTuple || ntype_eqb ty TPyList = true -> ntype_eqb ty TPyFrozenset = false.
Proof. destruct ty; cbn; intros; try discriminate; reflexivity. Qed.

Lemma args_exact os args1 :
  Forall (fun n1 => forall n2 k1 k2, wf_node n1 = true -> wf_node n2 = true ->
            item_key true os n1 = Some k1 -> item_key true os n2 = Some k2 -> key_eq k1 k2 = true ->
            exists c, denote n1 = Some c /\ denote n2 = Some c) args1 ->
  forall args2 r1 r2, forallb wf_node args1 = true -> forallb wf_node args2 = true ->
  all_some (map (item_key true os) args1) = Some r1 -> all_some (map (item_key true os) args2) = Some r2 ->
  keys_eq r1 r2 = true ->
  exists cs, opt_list (map denote args1) = Some cs /\ opt_list (map denote args2) = Some cs.
Proof.
  induction 1 as [|a1 args1 IHa1 _ IH]; intros args2 r1 r2 W1 W2 R1 R2 Er.
  - cbn in R1. inversion R1; subst r1. destruct r2; [|discriminate].
    destruct args2 as [|a2 args2]; [exists []; split; reflexivity|].
    cbn in R2. destruct (item_key true os a2); [|discriminate].
    destruct (all_some (map (item_key true os) args2)); discriminate.
  - cbn [map all_some] in R1. destruct (item_key true os a1) as [k1|] eqn:Hk1; [|discriminate].
    destruct (all_some (map (item_key true os) args1)) as [r1'|] eqn:R1'; [|discriminate].
    inversion R1; subst r1. destruct r2 as [|k2 r2]; [discriminate|].
    destruct args2 as [|a2 args2]; [discriminate|].
    cbn [map all_some] in R2. destruct (item_key true os a2) as [k2'|] eqn:Hk2; [|discriminate].
    destruct (all_some (map (item_key true os) args2)) as [r2'|] eqn:R2'; [|discriminate].
    inversion R2; subst k2' r2'.
    cbn [keys_eq] in Er. apply andb_prop in Er. destruct Er as [E1 Er].
    cbn [forallb] in W1, W2. apply andb_prop in W1. destruct W1 as [Wa1 Wr1].
    apply andb_prop in W2. destruct W2 as [Wa2 Wr2].
    destruct (IHa1 a2 k1 k2 Wa1 Wa2 eq_refl Hk2 E1) as (c & D1 & D2).
    destruct (IH args2 r1' r2 Wr1 Wr2 eq_refl R2' Er) as (cs & C1 & C2).
    exists (c :: cs). cbn [map opt_list]. rewrite D1, D2, C1, C2. split; reflexivity.
Qed.

(* Main lemma: with the repaired keys, equal keys mean the same run-time constant *)
Lemma item_key_exact os : forall n1 n2 k1 k2,
  wf_node n1 = true -> wf_node n2 = true ->
  item_key true os n1 = Some k1 -> item_key true os n2 = Some k2 ->
  key_eq k1 k2 = true ->
  exists c, denote n1 = Some c /\ denote n2 = Some c.
Proof.
  induction n1 as [ty1 v1|ty1 lit1 mult1 args1 IHm IHa|ty1 a1 b1 c1 IHa IHb IHc|] using cnode_ind2;
    intros n2 k1 k2 W1 W2 K1 K2 E.
  - (* leaf *)
    cbn [item_key] in K1. inversion K1; subst k1.
    destruct n2 as [ty2 v2|ty2 lit2 mult2 args2|ty2 a2 b2 c2|]; cbn [item_key] in K2.
    + inversion K2; subst k2. cbn [wf_node] in W1, W2.
      apply andb_prop in W1. destruct W1. apply andb_prop in W2. destruct W2.
      destruct (leaf_key_exact ty1 v1 ty2 v2) as [-> ->]; try assumption. cbn. eauto.
    + apply cont_key_inv in K2. destruct K2 as (ks & _ & ->). discriminate.
    + apply cont_key_inv in K2. destruct K2 as (ks & _ & ->). discriminate.
    + discriminate.
  - (* sequence *)
    cbn [item_key] in K1. rewrite mult_keys in K1. apply cont_key_inv in K1. destruct K1 as (ks1 & A1 & ->).
    cbn [wf_node] in W1. apply andb_prop in W1. destruct W1 as [W1 Wa1]. apply andb_prop in W1. destruct W1 as [Wt1 Wm1].
    rewrite (wf_not_frozenset _ Wt1) in E. cbn [andb] in E.
    destruct n2 as [ty2 v2|ty2 lit2 mult2 args2|ty2 a2 b2 c2|]; cbn [item_key] in K2.
    + inversion K2; subst k2. discriminate.
    + rewrite mult_keys in K2. apply cont_key_inv in K2. destruct K2 as (ks2 & A2 & ->).
      cbn [wf_node] in W2. apply andb_prop in W2. destruct W2 as [W2 Wa2]. apply andb_prop in W2. destruct W2 as [Wt2 Wm2].
      rewrite (wf_not_frozenset _ Wt2) in E. cbn [andb] in E.
      rewrite key_eq_cont_list in E. apply andb_prop in E. destruct E as [Et Ek]. apply ntype_eqb_eq in Et. subst ty2.
      cbn [all_some] in A1, A2.
      destruct (match eff_mult lit1 mult1 with Some m => item_key true os m | None => Some (none_entry true) end) as [mk1|] eqn:M1; [|discriminate].
      destruct (match eff_mult lit2 mult2 with Some m => item_key true os m | None => Some (none_entry true) end) as [mk2|] eqn:M2; [|discriminate].
      destruct (all_some (map (item_key true os) args1)) as [r1|] eqn:R1; [|discriminate].
      destruct (all_some (map (item_key true os) args2)) as [r2|] eqn:R2; [|discriminate].
      inversion A1; subst ks1. inversion A2; subst ks2. cbn [keys_eq] in Ek.
      apply andb_prop in Ek. destruct Ek as [Em Er].
      (* the items *)
      destruct (args_exact os args1 IHa args2 r1 r2 Wa1 Wa2 R1 R2 Er) as (cs & C1 & C2).
      cbn [denote]. rewrite C1, C2, !eff_mult_if.
      destruct (mult_exact os lit1 mult1 lit2 mult2 mk1 mk2 Wm1 Wm2 M1 M2 Em)
        as [[N1 N2]|(t1 & v1 & t2 & v2 & z & S1 & S2 & Z1 & Z2)].
      * rewrite N1, N2. eauto.
      * rewrite S1, S2, Z1, Z2. eauto.
    + apply cont_key_inv in K2. destruct K2 as (ks2 & A2 & ->).
      cbn [wf_node] in W2. apply andb_prop in W2. destruct W2 as [W2 _]. apply andb_prop in W2. destruct W2 as [W2 _].
      apply andb_prop in W2. destruct W2 as [Wt2 _]. apply ntype_eqb_eq in Wt2. subst ty2. cbn [ntype_eqb andb] in E.
      rewrite key_eq_cont_list in E. apply andb_prop in E. destruct E as [Et _]. apply ntype_eqb_eq in Et. subst ty1. discriminate.
    + discriminate.
  - (* slice *)
    cbn [item_key] in K1. apply cont_key_inv in K1. destruct K1 as (ks1 & A1 & ->).
    cbn [wf_node] in W1. apply andb_prop in W1. destruct W1 as [W1 Wc1]. apply andb_prop in W1. destruct W1 as [W1 Wb1].
    apply andb_prop in W1. destruct W1 as [Wt1 Wa1]. apply ntype_eqb_eq in Wt1. subst ty1. cbn [ntype_eqb andb] in E.
    destruct n2 as [ty2 v2|ty2 lit2 mult2 args2|ty2 a2 b2 c2|]; cbn [item_key] in K2.
    + inversion K2; subst k2. discriminate.
    + rewrite mult_keys in K2. apply cont_key_inv in K2. destruct K2 as (ks2 & A2 & ->).
      cbn [wf_node] in W2. apply andb_prop in W2. destruct W2 as [W2 _]. apply andb_prop in W2. destruct W2 as [Wt2 _].
      rewrite (wf_not_frozenset _ Wt2) in E. cbn [andb] in E.
      rewrite key_eq_cont_list in E. apply andb_prop in E. destruct E as [Et _]. apply ntype_eqb_eq in Et. subst ty2. discriminate.
    + apply cont_key_inv in K2. destruct K2 as (ks2 & A2 & ->).
      cbn [wf_node] in W2. apply andb_prop in W2. destruct W2 as [W2 Wc2]. apply andb_prop in W2. destruct W2 as [W2 Wb2].
      apply andb_prop in W2. destruct W2 as [Wt2 Wa2]. apply ntype_eqb_eq in Wt2. subst ty2. cbn [ntype_eqb andb] in E.
      rewrite key_eq_cont_list in E. apply andb_prop in E. destruct E as [_ Ek].
      cbn [all_some] in A1, A2.
      destruct (item_key true os a1) as [ka1|] eqn:Ka1; [|discriminate].
      destruct (item_key true os b1) as [kb1|] eqn:Kb1; [|discriminate].
      destruct (item_key true os c1) as [kc1|] eqn:Kc1; [|discriminate].
      destruct (item_key true os a2) as [ka2|] eqn:Ka2; [|discriminate].
      destruct (item_key true os b2) as [kb2|] eqn:Kb2; [|discriminate].
      destruct (item_key true os c2) as [kc2|] eqn:Kc2; [|discriminate].
      inversion A1; subst ks1. inversion A2; subst ks2. cbn [keys_eq] in Ek.
      apply andb_prop in Ek. destruct Ek as [Ea Ek]. apply andb_prop in Ek. destruct Ek as [Eb Ek].
      apply andb_prop in Ek. destruct Ek as [Ec _].
      destruct (IHa a2 ka1 ka2 Wa1 Wa2 eq_refl Ka2 Ea) as (xa & Da1 & Da2).
      destruct (IHb b2 kb1 kb2 Wb1 Wb2 eq_refl Kb2 Eb) as (xb & Db1 & Db2).
      destruct (IHc c2 kc1 kc2 Wc1 Wc2 eq_refl Kc2 Ec) as (xc & Dc1 & Dc2).
      cbn [denote]. rewrite Da1, Da2, Db1, Db2, Dc1, Dc2. eauto.
    + discriminate.
  - discriminate.
Qed.

Lemma top_seq_key fx os ty lit mult args :
  top_key fx os (TopSeq (NSeq ty lit mult args)) = item_key fx os (NSeq ty lit mult args).
Proof.
  cbn [top_key item_key]. unfold make_dedup_key. cbn [map]. rewrite map_map. f_equal. f_equal.
  destruct mult, lit; reflexivity.
Qed.

Lemma item_key_exact_all os args : Forall (fun n1 => forall n2 k1 k2, wf_node n1 = true -> wf_node n2 = true ->
            item_key true os n1 = Some k1 -> item_key true os n2 = Some k2 -> key_eq k1 k2 = true ->
            exists c, denote n1 = Some c /\ denote n2 = Some c) args.
Proof. apply Forall_forall. intros n _. apply item_key_exact. Qed.

(* Theorem: with the repaired key function, two pooled containers (tuples, slices, frozensets,
   nested, with multipliers) that get equal keys are identical constants *)
Theorem dedup_injective t1 t2 k1 k2 :
  wf_top t1 = true -> wf_top t2 = true ->
  top_key true true t1 = Some k1 -> top_key true true t2 = Some k2 ->
  key_eq k1 k2 = true ->
  exists c1 c2, denote_top t1 = Some c1 /\ denote_top t2 = Some c2 /\ identical_top c1 c2.
Proof.
  intros W1 W2 K1 K2 E.
  assert (SEQ : forall ty l m a k, wf_node (NSeq ty l m a) = true -> item_key true true (NSeq ty l m a) = Some k ->
                exists ks, k = KCont ty false ks /\ ntype_eqb ty TPyTuple || ntype_eqb ty TPyList = true).
  { intros ty l m a k W K. cbn [item_key] in K. apply cont_key_inv in K. destruct K as (ks & _ & ->).
    cbn [wf_node] in W. apply andb_prop in W. destruct W as [W _]. apply andb_prop in W. destruct W as [W _].
    rewrite (wf_not_frozenset _ W). eauto. }
  assert (SLI : forall ty a b c k, wf_node (NSlice ty a b c) = true ->
                top_key true true (TopSlice (NSlice ty a b c)) = Some k ->
                exists k', k = KCont TPySlice false [k'] /\ item_key true true (NSlice ty a b c) = Some k' /\ ty = TPySlice).
  { intros ty a b c k W K.
    assert (ty = TPySlice).
    { cbn [wf_node] in W. apply andb_prop in W. destruct W as [W _]. apply andb_prop in W. destruct W as [W _].
      apply andb_prop in W. destruct W as [W _]. apply ntype_eqb_eq in W. assumption. }
    subst ty. cbn [top_key] in K. unfold make_dedup_key in K. cbn [map] in K.
    apply cont_key_inv in K. destruct K as (ks & A & ->). cbn [all_some] in A.
    destruct (item_key true true (NSlice TPySlice a b c)) as [k'|]; [|discriminate]. inversion A; subst. eauto. }
  assert (FRO : forall args k, top_key true true (TopFrozen args) = Some k ->
                exists ks, k = KCont TPyFrozenset false ks /\ all_some (map (item_key true true) args) = Some ks).
  { intros args k K. cbn [top_key] in K. unfold make_dedup_key in K. rewrite map_map in K.
    apply cont_key_inv in K. destruct K as (ks & A & ->). eauto. }
  destruct t1 as [n1|n1|args1], t2 as [n2|n2|args2].
  - (* tuple / tuple *)
    destruct n1 as [| ty1 l1 m1 a1 | |]; try discriminate W1. destruct n2 as [| ty2 l2 m2 a2 | |]; try discriminate W2.
    rewrite top_seq_key in K1, K2. cbn [wf_top] in W1, W2.
    destruct (item_key_exact true _ _ _ _ W1 W2 K1 K2 E) as (c & D1 & D2).
    exists (VConst c), (VConst c). cbn [denote_top]. rewrite D1, D2. repeat split.
  - destruct n1 as [| ty1 l1 m1 a1 | |]; try discriminate W1. destruct n2 as [| | ty2 a2 b2 c2 |]; try discriminate W2.
    rewrite top_seq_key in K1. cbn [wf_top] in W1, W2.
    destruct (SEQ _ _ _ _ _ W1 K1) as (ks & -> & T1). destruct (SLI _ _ _ _ _ W2 K2) as (k' & -> & _ & _).
    rewrite key_eq_cont_list in E. apply andb_prop in E. destruct E as [Et _]. apply ntype_eqb_eq in Et. subst. discriminate.
  - destruct n1 as [| ty1 l1 m1 a1 | |]; try discriminate W1.
    rewrite top_seq_key in K1. cbn [wf_top] in W1.
    destruct (SEQ _ _ _ _ _ W1 K1) as (ks & -> & T1). destruct (FRO _ _ K2) as (ks2 & -> & _).
    rewrite key_eq_cont_list in E. apply andb_prop in E. destruct E as [Et _]. apply ntype_eqb_eq in Et. subst. discriminate.
  - destruct n1 as [| | ty1 a1 b1 c1 |]; try discriminate W1. destruct n2 as [| ty2 l2 m2 a2 | |]; try discriminate W2.
    rewrite top_seq_key in K2. cbn [wf_top] in W1, W2.
    destruct (SEQ _ _ _ _ _ W2 K2) as (ks & -> & T2). destruct (SLI _ _ _ _ _ W1 K1) as (k' & -> & _ & _).
    rewrite key_eq_cont_list in E. apply andb_prop in E. destruct E as [Et _]. apply ntype_eqb_eq in Et. subst. discriminate.
  - (* slice / slice *)
    destruct n1 as [| | ty1 a1 b1 c1 |]; try discriminate W1. destruct n2 as [| | ty2 a2 b2 c2 |]; try discriminate W2.
    cbn [wf_top] in W1, W2.
    destruct (SLI _ _ _ _ _ W1 K1) as (k1' & -> & I1 & _). destruct (SLI _ _ _ _ _ W2 K2) as (k2' & -> & I2 & _).
    rewrite key_eq_cont_list in E. apply andb_prop in E. destruct E as [_ Ek]. cbn [keys_eq] in Ek.
    apply andb_prop in Ek. destruct Ek as [Ek _].
    destruct (item_key_exact true _ _ _ _ W1 W2 I1 I2 Ek) as (c & D1 & D2).
    exists (VConst c), (VConst c). cbn [denote_top]. rewrite D1, D2. repeat split.
  - destruct n1 as [| | ty1 a1 b1 c1 |]; try discriminate W1. cbn [wf_top] in W1.
    destruct (SLI _ _ _ _ _ W1 K1) as (k1' & -> & _ & _). destruct (FRO _ _ K2) as (ks2 & -> & _).
    rewrite key_eq_cont_list in E. discriminate.
  - destruct n2 as [| ty2 l2 m2 a2 | |]; try discriminate W2.
    rewrite top_seq_key in K2. cbn [wf_top] in W2.
    destruct (SEQ _ _ _ _ _ W2 K2) as (ks & -> & T2). destruct (FRO _ _ K1) as (ks1 & -> & _).
    rewrite key_eq_cont_list in E. apply andb_prop in E. destruct E as [Et _]. apply ntype_eqb_eq in Et. subst. discriminate.
  - destruct n2 as [| | ty2 a2 b2 c2 |]; try discriminate W2. cbn [wf_top] in W2.
    destruct (SLI _ _ _ _ _ W2 K2) as (k2' & -> & _ & _). destruct (FRO _ _ K1) as (ks1 & -> & _).
    rewrite key_eq_cont_list in E. discriminate.
  - (* frozenset / frozenset: ordered keys, so the argument lists denote the same values in order *)
    destruct (FRO _ _ K1) as (ks1 & -> & A1). destruct (FRO _ _ K2) as (ks2 & -> & A2).
    rewrite key_eq_cont_list in E. apply andb_prop in E. destruct E as [_ Ek]. cbn [wf_top] in W1, W2.
    destruct (args_exact true args1 (item_key_exact_all true args1) args2 ks1 ks2 W1 W2 A1 A2 Ek) as (cs & C1 & C2).
    exists (VFrozen (fs_build cs)), (VFrozen (fs_build cs)). cbn [denote_top]. rewrite C1, C2.
    repeat split; auto.
Qed.

(* ... and the key function as it is merges different constants (findings): the sign of a float
   zero is not part of the key, and a frozenset's key forgets the order of ==-equal elements.
   Each of the two repairs alone still leaves a counterexample. *)
Definition wit_tuple (bits : Z) : topnode :=
  TopSeq (NSeq TPyTuple true None [NLeaf TPyFloat (SFloat bits); NLeaf TPyInt (SInt 1)]).
Definition wit_frozen (a b : scalar * ntype) : topnode :=
  TopFrozen [NLeaf (snd a) (fst a); NLeaf (snd b) (fst b)].

Theorem dedup_unrepaired_refuted fx os : fx && os = false ->
  exists t1 t2 k1 k2 c1 c2,
    wf_top t1 = true /\ wf_top t2 = true /\
    top_key fx os t1 = Some k1 /\ top_key fx os t2 = Some k2 /\ key_eq k1 k2 = true /\
    denote_top t1 = Some c1 /\ denote_top t2 = Some c2 /\ ~ identical_top c1 c2.
Proof.
  intros H. destruct fx.
  - (* floats exact, frozensets unordered: frozenset((1.0, 1)) vs frozenset((1, 1.0)) *)
    destruct os; [discriminate|].
    exists (wit_frozen (SFloat 4607182418800017408, TPyFloat) (SInt 1, TPyInt)),
           (wit_frozen (SInt 1, TPyInt) (SFloat 4607182418800017408, TPyFloat)).
    do 2 eexists. exists (VFrozen [CScalar (SFloat 4607182418800017408)]), (VFrozen [CScalar (SInt 1)]).
    repeat split; try (vm_compute; reflexivity).
    intros [A _]. specialize (A (CScalar (SFloat 4607182418800017408)) (or_introl eq_refl)).
    destruct A as [A|A]; [discriminate A|exact A].
  - (* the sign of a float zero is not in the key: (0.0, 1) vs (-0.0, 1) *)
    exists (wit_tuple 0), (wit_tuple (2 ^ 63)).
    do 2 eexists.
    exists (VConst (CSeq TPyTuple [CScalar (SFloat 0); CScalar (SInt 1)])),
           (VConst (CSeq TPyTuple [CScalar (SFloat 9223372036854775808); CScalar (SInt 1)])).
    repeat split; try (vm_compute; reflexivity).
    cbv [identical_top identical]. discriminate.
Qed.

(* the same for a slice and a nested tuple, on the current code *)
Theorem dedup_current_refuted_slice_nested :
  (exists k, top_key false false (TopSlice (NSlice TPySlice (NLeaf TPyFloat (SFloat 0)) (NLeaf TPyInt (SInt 1)) (NLeaf TPyObject SNone))) = Some k
     /\ exists k', top_key false false (TopSlice (NSlice TPySlice (NLeaf TPyFloat (SFloat (2 ^ 63))) (NLeaf TPyInt (SInt 1)) (NLeaf TPyObject SNone))) = Some k'
     /\ key_eq k k' = true) /\
  (exists k, top_key false false (TopSeq (NSeq TPyTuple true None [NSeq TPyTuple true None [NLeaf TPyFloat (SFloat 0)]; NLeaf TPyInt (SInt 2)])) = Some k
     /\ exists k', top_key false false (TopSeq (NSeq TPyTuple true None [NSeq TPyTuple true None [NLeaf TPyFloat (SFloat (2 ^ 63))]; NLeaf TPyInt (SInt 2)])) = Some k'
     /\ key_eq k k' = true).
Proof. split; eexists; (split; [vm_compute; reflexivity|]); eexists; (split; [vm_compute; reflexivity|]); vm_compute; reflexivity. Qed.

(* the hazard itself: Python == does not separate different constants *)
Lemma py_eq_not_identical :
  scalar_eq (SInt 1) (SFloat 4607182418800017408) = true /\ scalar_eq (SInt 1) (SBool true) = true
  /\ scalar_eq (SFloat 0) (SFloat (2 ^ 63)) = true /\ scalar_eq (SStr [97]) (SBytes [97]) = false
  /\ scalar_eq (SFloat 9221120237041090560) (SFloat 9221120237041090560) = false.
Proof. vm_compute. auto. Qed.

(* ------------------------------------------------------------------ *)
(* D. constant folding of int / bool literals                          *)
(* ------------------------------------------------------------------ *)

Lemma hex_text_value z : str_to_number (strip_L (py_hex z)) = Some z.
Proof. destruct (py_hex_roundtrip z) as (S & R). rewrite S. exact R. Qed.

(* Theorem: whenever visit_BinopNode replaces "a op b" (BoolNode/IntNode literals) by a new literal
   node, that node has the class (bool/int) and the value of Python's own result *)
Theorem fold_binop_exact op a b f x :
  fold_binop op a b = Some f ->
  exists r, py_binop op a b = Some r /\ folded_value x f = Some r.
Proof.
  unfold fold_binop. destruct (py_binop op a b) as [r|] eqn:P; [|discriminate].
  intros F. exists r. split; [reflexivity|].
  destruct (negb (match a, b with LBool _, LBool _ => true | _, _ => false end) || op_in_arith_string op) eqn:T.
  - inversion F; subst f. cbn [folded_value]. rewrite hex_text_value.
    (* the result of an int-class fold is an int *)
    assert (exists z, r = LInt z) as (z & ->).
    { destruct op, a, b; cbn in P, T; try discriminate;
        repeat match goal with H : context [if ?c then _ else _] |- _ => destruct c end;
        try discriminate; inversion P; eauto. }
    reflexivity.
  - destruct r as [v|z]; [|discriminate]. inversion F; subst f. reflexivity.
Qed.

(* every constant int/bool operation is folded (the BoolNode branch never meets an int) *)
Theorem fold_binop_total op a b r : py_binop op a b = Some r -> exists f, fold_binop op a b = Some f.
Proof.
  intros P. unfold fold_binop. rewrite P.
  destruct op, a, b; cbn in *; eauto;
    repeat match goal with H : context [if ?c then _ else _] |- _ => destruct c end; inversion P; eauto.
Qed.

(* unary operators on a literal operand *)
Theorem fold_unop_exact op a f :
  fold_unop op a = Some f -> folded_value a f = Some (py_unop op a).
Proof.
  unfold fold_unop.
  assert (STR : forall z t, py_str z = Some t -> folded_value a (FInt t) = Some (LInt z)).
  { intros z t PS. cbn [folded_value]. destruct (py_str_roundtrip z t PS) as (_ & R). rewrite R. reflexivity. }
  destruct op, a as [b|z]; cbn [py_unop lit_int int_of_lit bool_of_lit];
    try (destruct (py_str _) as [t|] eqn:PS; [|discriminate]; intros F; inversion F; subst f; apply STR; exact PS);
    try discriminate; intros F; inversion F; subst f; cbn [folded_value]; try reflexivity.
  - f_equal. f_equal. destruct b; reflexivity.
  - f_equal. f_equal. unfold b2z. destruct (Z.eqb_spec z 0); reflexivity.
Qed.

Theorem fold_unop_bool_total op b : exists f, fold_unop op (LBool b) = Some f.
Proof.
  destruct op; cbn [fold_unop py_unop lit_int int_of_lit]; try (eexists; reflexivity);
    destruct b; eexists; vm_compute; reflexivity.
Qed.
