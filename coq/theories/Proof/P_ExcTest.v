(* C32 -- proofs about the value-level sentinel test (Model/M_ExcTest.v). *)
From Coq Require Import ZArith List Bool Lia ZifyBool.
From CyVerif Require Import Lib.CInt Model.M_ExcSpec Model.M_ExcTest Proof.P_ExcSpec.
Import ListNotations.
Open Scope Z_scope.

(* ------------------------------------------------------------------ arithmetic facts *)
Lemma pow2_mono a b : 0 <= a <= b -> 2 ^ a <= 2 ^ b.
Proof. intros. apply Z.pow_le_mono_r; lia. Qed.

Lemma okb_iff t : ity_okb t = true <-> 1 <= iw t.
Proof. unfold ity_okb. lia. Qed.

Lemma in_ty_spec t v : in_ty t v = true <-> in_range (iw t) (isg t) v.
Proof. apply in_rangeb_spec. Qed.

Lemma conv_in_ty t v : 1 <= iw t -> in_ty t (conv t v) = true.
Proof. intros. apply in_ty_spec. apply wrap_in_range. assumption. Qed.

Lemma conv_id t v : 1 <= iw t -> in_ty t v = true -> conv t v = v.
Proof. intros H Hv. apply wrap_id; [assumption|]. apply in_ty_spec. assumption. Qed.

Lemma conv_idem t v : 1 <= iw t -> conv t (conv t v) = conv t v.
Proof. intros. apply conv_id; [assumption|]. apply conv_in_ty. assumption. Qed.

(* every value of a type lies in an interval of length 2^w *)
Lemma range_span w s a b : 1 <= w -> in_range w s a -> in_range w s b -> - 2 ^ w < a - b < 2 ^ w.
Proof.
  intros Hw [A1 A2] [B1 B2]. unfold min_int, max_int in *.
  pose proof (pow2_split w Hw) as E. pose proof (pow2_pos (w - 1) ltac:(lia)) as P.
  destruct s; lia.
Qed.

(* reduction modulo 2^W is injective on the values of any type of width w <= W *)
Lemma conv_inj ct rt a b :
  1 <= iw rt -> iw rt <= iw ct -> in_ty rt a = true -> in_ty rt b = true ->
  conv ct a = conv ct b -> a = b.
Proof.
  intros Hw Hle Ha Hb E. apply in_ty_spec in Ha. apply in_ty_spec in Hb.
  pose proof (range_span _ _ _ _ Hw Ha Hb) as Sp.
  pose proof (pow2_mono (iw rt) (iw ct) ltac:(lia)) as Mo.
  pose proof (pow2_pos (iw ct) ltac:(lia)) as Pc.
  pose proof (wrap_congr (iw ct) (isg ct) a ltac:(lia)) as Ca.
  pose proof (wrap_congr (iw ct) (isg ct) b ltac:(lia)) as Cb.
  unfold conv in E. rewrite E in Ca.
  apply Z.mod_divide in Ca; [|lia]. apply Z.mod_divide in Cb; [|lia].
  assert (D : (2 ^ iw ct | a - b)).
  { replace (a - b) with ((wrap (iw ct) (isg ct) b - b) - (wrap (iw ct) (isg ct) b - a)) by lia.
    apply Z.divide_sub_r; assumption. }
  destruct (Z.eq_dec a b) as [|N]; [assumption|exfalso].
  destruct (Z.lt_ge_cases b a).
  - assert (Q : 0 < a - b) by lia. pose proof (Z.divide_pos_le _ _ Q D). lia.
  - assert (D' : (2 ^ iw ct | b - a)).
    { replace (b - a) with (- (a - b)) by lia. apply Z.divide_opp_r. assumption. }
    assert (Q : 0 < b - a) by lia. pose proof (Z.divide_pos_le _ _ Q D'). lia.
Qed.

(* ------------------------------------------------------------------ promotion, common type *)
Lemma promote_ok t : 1 <= iw t -> 1 <= iw (promote t).
Proof. unfold promote. destruct (iw t <? 32) eqn:E; cbn; lia. Qed.

Lemma promote_wider t : iw t <= iw (promote t).
Proof. unfold promote. destruct (iw t <? 32) eqn:E; cbn; lia. Qed.

Lemma promote_contains t v : 1 <= iw t -> in_ty t v = true -> in_ty (promote t) v = true.
Proof.
  intros Hw Hv. unfold promote. destruct (iw t <? 32) eqn:E; [|assumption].
  apply in_ty_spec in Hv. apply in_ty_spec. destruct Hv as [L U].
  unfold in_range, min_int, max_int in *. cbn [iw isg T_INT].
  pose proof (pow2_mono (iw t - 1) 31 ltac:(lia)) as M1.
  pose proof (pow2_mono (iw t) 31 ltac:(lia)) as M2.
  pose proof (pow2_pos (iw t - 1) ltac:(lia)) as P.
  change (32 - 1) with 31. destruct (isg t); lia.
Qed.

Lemma uac_ok a b : 1 <= iw a -> 1 <= iw b -> 1 <= iw (uac a b).
Proof.
  intros. unfold uac. destruct (Bool.eqb (isg a) (isg b)).
  - destruct (iw a <? iw b); assumption.
  - destruct (isg a); destruct (_ <=? _); assumption.
Qed.

Lemma uac_wider_l a b : iw a <= iw (uac a b).
Proof.
  unfold uac. destruct (Bool.eqb (isg a) (isg b)).
  - destruct (iw a <? iw b) eqn:E; lia.
  - destruct (isg a); destruct (_ <=? _) eqn:E; lia.
Qed.

Lemma uac_wider_r a b : iw b <= iw (uac a b).
Proof.
  unfold uac. destruct (Bool.eqb (isg a) (isg b)).
  - destruct (iw a <? iw b) eqn:E; lia.
  - destruct (isg a); destruct (_ <=? _) eqn:E; lia.
Qed.

(* a signed type contains every type that is narrower, or signed and not wider *)
Lemma signed_contains c t v :
  isg c = true -> 1 <= iw t -> (if isg t then iw t <= iw c else iw t < iw c) ->
  in_ty t v = true -> in_ty c v = true.
Proof.
  intros Hc Hw Hle Hv. apply in_ty_spec in Hv. apply in_ty_spec. destruct Hv as [L U].
  unfold in_range, min_int, max_int in *. rewrite Hc.
  pose proof (pow2_pos (iw t - 1) ltac:(lia)) as P.
  destruct (isg t).
  - pose proof (pow2_mono (iw t - 1) (iw c - 1) ltac:(lia)). lia.
  - pose proof (pow2_mono (iw t) (iw c - 1) ltac:(lia)). lia.
Qed.

(* when the common type is signed it holds all values of both operand types *)
Lemma uac_signed_contains a b v :
  1 <= iw a -> 1 <= iw b -> isg (uac a b) = true ->
  (in_ty a v = true \/ in_ty b v = true) -> in_ty (uac a b) v = true.
Proof.
  intros Ha Hb. unfold uac.
  destruct (isg a) eqn:Sa, (isg b) eqn:Sb; cbn [Bool.eqb].
  - destruct (iw a <? iw b) eqn:E; intros Hs [H|H]; try assumption.
    + apply (signed_contains b a v); try assumption. rewrite Sa. lia.
    + apply (signed_contains a b v); try assumption. rewrite Sb. lia.
  - destruct (iw a <=? iw b) eqn:E; intros Hs [H|H]; try congruence; try assumption.
    apply (signed_contains a b v); try assumption. rewrite Sb. lia.
  - destruct (iw b <=? iw a) eqn:E; intros Hs [H|H]; try congruence; try assumption.
    apply (signed_contains b a v); try assumption. rewrite Sa. lia.
  - destruct (iw a <? iw b); intros Hs; congruence.
Qed.

(* ------------------------------------------------------------------ constant expressions *)
Lemma first_fit_spec l n t v :
  first_fit l n = Some (t, v) -> v = n /\ in_ty t n = true /\ In t l.
Proof.
  induction l as [|x r IH]; cbn; [discriminate|].
  destruct (in_ty x n) eqn:E.
  - intros [= <- <-]. auto.
  - intros H. destruct (IH H) as (A & B & C). auto.
Qed.

Lemma lit_types_ok hex s t : In t (lit_types hex s) -> 1 <= iw t.
Proof.
  destruct s, hex; cbn; intros H;
    repeat (destruct H as [<-|H]; [cbn; lia|]); contradiction.
Qed.

Lemma arith_spec ct r t v : 1 <= iw ct -> arith ct r = Some (t, v) -> t = ct /\ in_ty ct v = true.
Proof.
  intros Hw. unfold arith. destruct (isg ct).
  - destruct (in_ty ct r) eqn:E; [|discriminate]. intros [= <- <-]. auto.
  - intros [= <- <-]. split; [reflexivity|]. apply conv_in_ty. assumption.
Qed.

(* the value of a constant expression lies in its type *)
Lemma ceval_in_range e : forall t v, ceval e = Some (t, v) -> 1 <= iw t /\ in_ty t v = true.
Proof.
  assert (B : forall f a b,
             (forall t v, ceval a = Some (t, v) -> 1 <= iw t /\ in_ty t v = true) ->
             (forall t v, ceval b = Some (t, v) -> 1 <= iw t /\ in_ty t v = true) ->
             forall t v, binop f (ceval a) (ceval b) = Some (t, v) -> 1 <= iw t /\ in_ty t v = true).
  { intros f a b IHa IHb t v. unfold binop.
    destruct (ceval a) as [[ta va]|]; [|discriminate].
    destruct (ceval b) as [[tb vb]|]; [|discriminate].
    destruct (IHa _ _ eq_refl) as [Wa _]. destruct (IHb _ _ eq_refl) as [Wb _].
    intros H. apply arith_spec in H.
    - destruct H as [-> H]. split; [|assumption]. apply uac_ok; apply promote_ok; assumption.
    - apply uac_ok; apply promote_ok; assumption. }
  induction e as [n s|n s|z|a IHa|a IHa b IHb|a IHa b IHb|a IHa b IHb|tc a IHa]; intros t v; cbn [ceval].
  - destruct (0 <=? n); [|discriminate]. intros H. apply first_fit_spec in H.
    destruct H as (-> & H & I). split; [eapply lit_types_ok; eassumption|assumption].
  - destruct (0 <=? n); [|discriminate]. intros H. apply first_fit_spec in H.
    destruct H as (-> & H & I). split; [eapply lit_types_ok; eassumption|assumption].
  - destruct (in_ty T_INT z) eqn:E; [|discriminate]. intros [= <- <-]. split; [cbn; lia|assumption].
  - destruct (ceval a) as [[ta va]|]; [|discriminate].
    destruct (IHa _ _ eq_refl) as [Wa _]. intros H. apply arith_spec in H.
    + destruct H as [-> H]. split; [apply promote_ok|]; assumption.
    + apply promote_ok. assumption.
  - apply B; assumption.
  - apply B; assumption.
  - apply B; assumption.
  - destruct (ceval a) as [[ta va]|]; [|discriminate].
    destruct (ity_okb tc) eqn:E; [|discriminate]. apply okb_iff in E.
    intros [= <- <-]. split; [assumption|apply conv_in_ty; assumption].
Qed.

Lemma ceval_cast tc e te v :
  1 <= iw tc -> ceval e = Some (te, v) -> ceval (CCast tc e) = Some (tc, conv tc v).
Proof.
  intros Hw H. cbn [ceval]. rewrite H.
  replace (ity_okb tc) with true by (symmetry; apply okb_iff; assumption). reflexivity.
Qed.

(* ------------------------------------------------------------------ the emitted test *)
(* a cast that does not change what the callee stores makes the test exact: it holds for r
   iff r is the stored sentinel -- every return type width/signedness, every constant *)
Theorem cast_exact : forall rt tc e te v r,
  1 <= iw rt -> 1 <= iw tc ->
  in_ty rt r = true -> ceval e = Some (te, v) ->
  conv tc v = conv rt v ->
  eq_test rt r (emitted (Some tc) e) = Some (r =? conv rt v).
Proof.
  intros rt tc e te v r Hr Hc Hin He Hs.
  unfold eq_test, emitted. rewrite (ceval_cast tc e te v Hc He). f_equal. rewrite Hs.
  set (ct := uac (promote rt) (promote tc)).
  assert (Wle : iw rt <= iw ct).
  { pose proof (promote_wider rt). pose proof (uac_wider_l (promote rt) (promote tc)). subst ct. lia. }
  assert (Is : in_ty rt (conv rt v) = true) by (apply conv_in_ty; assumption).
  destruct (Z.eqb_spec r (conv rt v)) as [->|N].
  - apply Z.eqb_refl.
  - apply Z.eqb_neq. intros E. apply N. apply (conv_inj ct rt); assumption.
Qed.

(* the repaired code / integer literals (constant typed with the return type) *)
Corollary cast_ret_exact : forall rt e te v r,
  1 <= iw rt -> in_ty rt r = true -> ceval e = Some (te, v) ->
  eq_test rt r (emitted (Some rt) e) = Some (r =? conv rt v).
Proof. intros. eapply cast_exact; eauto. Qed.

Corollary cast_ret_matches_stored : forall rt e te v r,
  1 <= iw rt -> in_ty rt r = true -> ceval e = Some (te, v) ->
  (fires (Some rt) rt e r = true <-> stored rt e = Some r).
Proof.
  intros rt e te v r Hw Hin He. unfold fires, stored.
  rewrite (cast_ret_exact rt e te v r Hw Hin He), He.
  split.
  - intros H. apply Z.eqb_eq in H. congruence.
  - intros [= H]. apply Z.eqb_eq. congruence.
Qed.

(* a constant whose (cast) value is not a value of the return type is never matched when the
   comparison happens in a signed type *)
Theorem out_of_range_never_fires : forall rt tc e te v r,
  1 <= iw rt -> 1 <= iw tc ->
  in_ty rt r = true -> ceval e = Some (te, v) ->
  isg (uac (promote rt) (promote tc)) = true ->
  in_ty rt (conv tc v) = false ->
  eq_test rt r (emitted (Some tc) e) = Some false.
Proof.
  intros rt tc e te v r Hr Hc Hin He Hsg Hout.
  unfold eq_test, emitted. rewrite (ceval_cast tc e te v Hc He). f_equal.
  set (ct := uac (promote rt) (promote tc)) in *.
  assert (Wc : 1 <= iw ct) by (apply uac_ok; apply promote_ok; assumption).
  assert (I1 : in_ty ct r = true).
  { apply uac_signed_contains; try apply promote_ok; try assumption.
    left. apply promote_contains; assumption. }
  assert (I2 : in_ty ct (conv tc v) = true).
  { apply uac_signed_contains; try apply promote_ok; try assumption.
    right. apply promote_contains; [assumption|]. apply conv_in_ty. assumption. }
  rewrite (conv_id ct r Wc I1), (conv_id ct (conv tc v) Wc I2).
  apply Z.eqb_neq. intros ->. congruence.
Qed.

(* casting a constant to its own type changes nothing: the uncast text is the special case *)
Lemma cast_own_type : forall rt e te v r,
  ceval e = Some (te, v) -> eq_test rt r (emitted (Some te) e) = eq_test rt r (emitted None e).
Proof.
  intros rt e te v r He. destruct (ceval_in_range e te v He) as [Wt It].
  unfold eq_test, emitted. rewrite (ceval_cast te e te v Wt He), He, (conv_id te v Wt It). reflexivity.
Qed.

(* the seeded text (no cast): for every unsigned return type narrower than int and every
   negative constant of a signed type the test is never true *)
Theorem nocast_never_fires : forall rt e te v r,
  1 <= iw rt -> iw rt < 32 -> isg rt = false -> in_ty rt r = true ->
  ceval e = Some (te, v) -> isg te = true -> v < 0 ->
  eq_test rt r (emitted None e) = Some false.
Proof.
  intros rt e te v r Hw Hn Hu Hin He Hs Hneg.
  destruct (ceval_in_range e te v He) as [Wt It].
  rewrite <- (cast_own_type rt e te v r He).
  eapply out_of_range_never_fires; try eassumption.
  - unfold promote at 1. replace (iw rt <? 32) with true by lia.
    unfold uac. cbn [isg T_INT]. unfold promote. destruct (iw te <? 32); cbn [isg iw T_INT]; rewrite ?Hs; cbn.
    + reflexivity.
    + destruct (32 <? iw te); [assumption|reflexivity].
  - rewrite (conv_id te v Wt It). unfold in_ty, in_rangeb, min_int. rewrite Hu. lia.
Qed.

(* witnesses *)
Theorem nocast_refuted :
  exists rt e r, in_ty rt r = true /\ stored rt e = Some r /\ fires None rt e r = false.
Proof. exists T_UCHAR, (CNeg (CDec 1 SufNone)), 255. vm_compute. auto. Qed.

(* the code as it is: a constant expression typed long by the compiler, unsigned char return *)
Theorem cast_const_refuted :
  exists rt tc e r, in_ty rt r = true /\ stored rt e = Some r /\ fires (Some tc) rt e r = false.
Proof.
  exists T_UCHAR, T_LONG, (CNeg (CAdd (CDec 1 SufNone) (CDec 1 SufNone))), 254. vm_compute. auto.
Qed.

(* ------------------------------------------------------------------ link to the decision level *)
Lemma site_spec_is_fn_spec : forall rt tc e te v ck,
  1 <= iw rt -> 1 <= iw tc -> ceval e = Some (te, v) -> conv tc v = conv rt v ->
  site_spec (Some tc) rt e ck = Some {| ev := Some (Sent (VInt (conv rt v)) false); ec := ck |} /\
  fn_spec rt e ck = Some {| ev := Some (Sent (VInt (conv rt v)) false); ec := ck |}.
Proof.
  intros rt tc e te v ck Hr Hc He Hs. split.
  - unfold site_spec. cbn [emitted]. rewrite (ceval_cast tc e te v Hc He).
    rewrite Hs, (conv_idem rt v Hr). unfold fires.
    rewrite (cast_exact rt tc e te v (conv rt v) Hr Hc (conv_in_ty rt v Hr) He Hs).
    rewrite Z.eqb_refl. reflexivity.
  - unfold fn_spec, stored. rewrite He. reflexivity.
Qed.

(* the sentinel test of the decision-level model is the emitted C test *)
Theorem c_test_is_emitted_test : forall rt tc e te v r,
  1 <= iw rt -> 1 <= iw tc -> in_ty rt r = true -> ceval e = Some (te, v) -> conv tc v = conv rt v ->
  c_test (kind_of rt) (Sent (VInt (conv rt v)) false) (VInt r) = fires (Some tc) rt e r.
Proof.
  intros rt tc e te v r Hr Hc Hin He Hs. unfold fires.
  rewrite (cast_exact rt tc e te v r Hr Hc Hin He Hs).
  unfold kind_of. cbn [c_test]. fold (conv rt r). fold (conv rt (conv rt v)).
  rewrite (conv_idem rt v Hr), (conv_id rt r Hr Hin). reflexivity.
Qed.

(* with a cast that preserves the stored value, every integer return type, declaration form,
   constant, body, caller context: the caller observes the documented outcome *)
Theorem value_faithful : forall rt tc e te v ck fl cn b st,
  1 <= iw rt -> 1 <= iw tc -> ceval e = Some (te, v) -> conv tc v = conv rt v ->
  chk_plus ck = false ->
  let fsp := {| ev := Some (Sent (VInt (conv rt v)) false); ec := ck |} in
  cython_body b = true -> body_val_okb (kind_of rt) b = true ->
  ctx_okb fl cn = true -> clean cn st -> contract_okb fsp (kind_of rt) b = true ->
  observe_value (Some tc) rt e ck fl cn b st = Some (documented fsp (kind_of rt) b st).
Proof.
  intros rt tc e te v ck fl cn b st Hr Hc He Hs Hck fsp Hb Hv Hctx Hcl Hcon.
  destruct (site_spec_is_fn_spec rt tc e te v ck Hr Hc He Hs) as [S F].
  unfold observe_value. rewrite S, F. f_equal. fold fsp.
  apply (spec_faithful fsp (kind_of rt) fl cn b st); try assumption.
  unfold wf_specb, fsp, kind_of. cbn [ev ec kind_okb sent_okb is_obj].
  rewrite Hck. fold (conv rt v). fold (in_ty rt (conv rt v)). rewrite (conv_in_ty rt v Hr).
  cbn. rewrite andb_true_r. apply Z.leb_le. assumption.
Qed.

(* the code as it is hides a raised exception (cast to the constant's own type) *)
Theorem cast_const_hides_exception :
  exists rt tc e ck fl cn ex st o,
    clean cn st /\ ctx_okb fl cn = true /\
    observe_value (Some tc) rt e ck fl cn (Raise ex) st = Some o /\
    o_err o = false /\ pending (o_st o) = Some ex.
Proof.
  exists T_UCHAR, T_LONG, (CNeg (CAdd (CDec 1 SufNone) (CDec 1 SufNone))), ChkYes, FPlain, false, 7,
    {| pending := None; unraisable := []; gil := true; viol := O |}.
  eexists. unfold clean. cbn [pending gil negb]. repeat split; try reflexivity.
Qed.

(* and so does the seeded text *)
Theorem nocast_hides_exception :
  exists rt e ck fl cn ex st o,
    clean cn st /\ ctx_okb fl cn = true /\
    observe_value None rt e ck fl cn (Raise ex) st = Some o /\
    o_err o = false /\ pending (o_st o) = Some ex.
Proof.
  exists T_UCHAR, (CNeg (CDec 1 SufNone)), ChkYes, FPlain, false, 7,
    {| pending := None; unraisable := []; gil := true; viol := O |}.
  eexists. unfold clean. cbn [pending gil negb]. repeat split; try reflexivity.
Qed.

(* ------------------------------------------------------------------ floating return types *)
Section FloatFacts.
  Variable V : Type.
  Variable feq : V -> V -> bool.
  Variable to_f32 : V -> V.

  (* cast to the return type: the stored error value always satisfies the test (NaN included) *)
  Theorem float_cast_ret_self : forall rt c,
    float_test V feq to_f32 true (Some rt) c (float_stored V to_f32 rt c) = true.
  Proof.
    intros rt c. unfold float_test, float_stored.
    destruct (feq (fconv V to_f32 rt c) (fconv V to_f32 rt c)); reflexivity.
  Qed.

  (* the code as it is for a float function with a double-typed constant: the stored value is
     matched iff rounding to float does not change the constant *)
  Theorem float_cast_const_self : forall m c,
    feq c c = true ->
    float_test V feq to_f32 m (Some F64) c (float_stored V to_f32 F32 c) = feq (to_f32 c) c.
  Proof.
    intros m c H. unfold float_test, float_stored. cbn [fconv]. rewrite H. destruct m; reflexivity.
  Qed.
End FloatFacts.
