(* C13: proofs about Model/M_Builtins.v *)
From Coq Require Import ZArith List Bool Lia ZifyBool ZifyNat.
From CyVerif Require Import Lib.CInt Model.M_Builtins.
Import ListNotations.
Open Scope Z_scope.
Ltac Zify.zify_post_hook ::= Z.to_euclidean_division_equations.

(* ------------------------------------------------------------------------------------------ *)
(* generic list lemmas                                                                          *)

Lemma zlen_nonneg {A} (l : list A) : 0 <= zlen l.
Proof. unfold zlen. lia. Qed.

Lemma zlen_sub_at {A} (l : list A) p n :
  0 <= p -> 0 <= n -> p + n <= zlen l -> zlen (sub_at l p n) = n.
Proof.
  intros Hp Hn H. unfold sub_at, zlen in *. rewrite firstn_length, skipn_length. lia.
Qed.

Lemma skipn_skipn' {A} (a b : nat) (l : list A) : skipn a (skipn b l) = skipn (b + a) l.
Proof.
  revert l. induction b as [|b IH]; intros l; [reflexivity|].
  destruct l as [|x l]; [now rewrite !skipn_nil|]. cbn [skipn Nat.add]. apply IH.
Qed.

Lemma sub_at_sub_at {A} (l : list A) p k q m :
  0 <= p -> 0 <= q -> 0 <= m -> q + m <= k ->
  sub_at (sub_at l p k) q m = sub_at l (p + q) m.
Proof.
  intros Hp Hq Hm H. unfold sub_at.
  rewrite skipn_firstn_comm, firstn_firstn.
  replace (Init.Nat.min (Z.to_nat m) (Z.to_nat k - Z.to_nat q)) with (Z.to_nat m) by lia.
  rewrite skipn_skipn'. f_equal. f_equal. lia.
Qed.

Lemma sub_at_all_tail {A} (l : list A) p :
  0 <= p -> sub_at l p (zlen l - p) = skipn (Z.to_nat p) l.
Proof.
  intros Hp. unfold sub_at. apply firstn_all2. rewrite skipn_length. unfold zlen. lia.
Qed.

(* ------------------------------------------------------------------------------------------ *)
(* 1. list.pop                                                                                   *)

Lemma shiftr1 a : Z.shiftr a 1 = a / 2.
Proof. rewrite Z.shiftr_div_pow2 by lia. reflexivity. Qed.

Lemma is_valid_index_spec i n :
  ssize_min <= i <= ssize_max -> 0 <= n <= ssize_max ->
  is_valid_index i n = (0 <=? i) && (i <? n).
Proof.
  unfold is_valid_index, wrap, ssize_min, ssize_max. intros Hi Hn.
  change (2 ^ 64) with 18446744073709551616. lia.
Qed.

Section ListPopProofs.
Context {A : Type}.

Theorem pop_index_eq (l : list A) alloc ix :
  ssize_min <= ix <= ssize_max -> zlen l <= ssize_max ->
  pyx_list_popindex l alloc ix = py_list_pop l ix.
Proof.
  intros Hix Hlen. pose proof (zlen_nonneg l) as Hn.
  unfold pyx_list_popindex.
  destruct (Z.ltb_spec (Z.shiftr alloc 1) (zlen l)) as [Hfast|]; [|reflexivity].
  assert (Hc : (if ix <? 0 then sadd ix (zlen l) else Some ix)
               = Some (if ix <? 0 then ix + zlen l else ix)).
  { destruct (Z.ltb_spec ix 0); [|reflexivity]. unfold sadd, fits_ssize.
    unfold ssize_min, ssize_max in *.
    destruct ((-9223372036854775808 <=? ix + zlen l) && (ix + zlen l <=? 9223372036854775807)) eqn:E;
      [reflexivity | lia]. }
  rewrite Hc. clear Hc.
  set (cix := if ix <? 0 then ix + zlen l else ix).
  assert (Hcr : ssize_min <= cix <= ssize_max).
  { subst cix. unfold ssize_min, ssize_max in *. destruct (Z.ltb_spec ix 0); lia. }
  rewrite is_valid_index_spec by (unfold ssize_max in *; lia).
  destruct ((0 <=? cix) && (cix <? zlen l)) eqn:Ev; [|reflexivity].
  assert (Hv : 0 <= cix < zlen l) by lia.
  unfold py_list_pop. fold cix.
  destruct ((cix <? 0) || (zlen l <=? cix)) eqn:E2; [lia|].
  destruct (nth_error l (Z.to_nat cix)) as [v|] eqn:En; [|reflexivity].
  destruct (Z.ltb_spec (zlen l - 1 - cix) 0) as [|_]; [lia|].
  f_equal. f_equal. f_equal.
  replace (zlen l - 1 - cix) with (zlen l - (cix + 1)) by lia.
  rewrite sub_at_all_tail by lia. f_equal. lia.
Qed.

(* the macro: every C index value; values outside Py_ssize_t go to the generic call *)
Theorem pop_index_macro_eq (l : list A) alloc v :
  zlen l <= ssize_max -> pyx_list_popindex_macro l alloc v = py_list_pop l v.
Proof.
  intros Hlen. unfold pyx_list_popindex_macro, fits_ssize.
  destruct ((ssize_min <=? v) && (v <=? ssize_max)) eqn:E; [|reflexivity].
  apply pop_index_eq; lia.
Qed.

(* the IndexError decision of list.pop(i), stated on its own *)
Theorem pop_index_error_iff (l : list A) alloc v :
  zlen l <= ssize_max ->
  (pyx_list_popindex_macro l alloc v = Raise IndexError <-> ~ (- zlen l <= v < zlen l)).
Proof.
  intros Hlen. rewrite pop_index_macro_eq by assumption. unfold py_list_pop.
  pose proof (zlen_nonneg l) as Hn.
  set (j := if v <? 0 then v + zlen l else v).
  assert (Hj : (0 <= j < zlen l) <-> (- zlen l <= v < zlen l)).
  { subst j. destruct (Z.ltb_spec v 0); lia. }
  destruct ((j <? 0) || (zlen l <=? j)) eqn:E.
  - split; [intros _; lia | reflexivity].
  - destruct (nth_error l (Z.to_nat j)) eqn:En.
    + split; [discriminate | intros; lia].
    + apply nth_error_None in En. unfold zlen in *. lia.
Qed.

Theorem pop_eq (l : list A) alloc :
  0 <= alloc -> pyx_list_pop l alloc = py_list_pop l (-1).
Proof.
  intros Ha. pose proof (zlen_nonneg l) as Hn. unfold pyx_list_pop.
  rewrite shiftr1.
  destruct (Z.ltb_spec (alloc / 2) (zlen l)) as [Hfast|]; [|reflexivity].
  assert (0 < zlen l) by lia.
  unfold py_list_pop. change (-1 <? 0) with true. cbv iota.
  replace (-1 + zlen l) with (zlen l - 1) by lia.
  destruct ((zlen l - 1 <? 0) || (zlen l <=? zlen l - 1)) eqn:E; [lia|].
  destruct (nth_error l (Z.to_nat (zlen l - 1))) as [v|]; [|reflexivity].
  destruct (Z.ltb_spec (zlen l - 1) 0); [lia|].
  f_equal. f_equal.
  rewrite (skipn_all2 l) by (unfold zlen in *; lia). rewrite app_nil_r. reflexivity.
Qed.

End ListPopProofs.

(* ------------------------------------------------------------------------------------------ *)
(* 2. tailmatch                                                                                  *)

Ltac brk :=
  repeat (match goal with
          | |- context [if ?a <? ?b then _ else _] => destruct (Z.ltb_spec a b)
          | |- context [if ?a <=? ?b then _ else _] => destruct (Z.leb_spec a b)
          end; cbv iota).

Lemma memcmp_in_bounds s sub st :
  0 <= st -> st + zlen sub <= zlen s ->
  memcmp_eq s sub st = Ok (zlist_eqb (sub_at s st (zlen sub)) sub).
Proof.
  intros H1 H2. unfold memcmp_eq.
  destruct ((st <? 0) || (zlen s <? st + zlen sub)) eqn:E; [lia | reflexivity].
Qed.

(* when the window is well formed it is the Python slice *)
Lemma py_slice_window (s : list Z) start stop :
  let n := zlen s in
  let sa := if start <? 0 then (if start + n <? 0 then 0 else start + n) else start in
  let ea := snd (py_slice_adjust n start stop) in
  sa <= ea -> py_slice s start stop = sub_at s sa (ea - sa).
Proof.
  pose proof (zlen_nonneg s) as Hn. cbv zeta. unfold py_slice, py_slice_adjust. cbn [snd].
  set (n := zlen s) in *. intros H.
  assert (He : (if stop <? 0 then if stop + n <? 0 then 0 else stop + n else if n <? stop then n else stop) <= n) by (brk; lia).
  destruct (Z.ltb_spec start 0).
  - destruct (Z.ltb_spec (start + n) 0); brk; try lia; try reflexivity;
      match goal with |- [] = sub_at _ _ ?k => replace k with 0 by lia; reflexivity end.
  - destruct (Z.ltb_spec n start); [lia|]. brk; try lia; try reflexivity;
      match goal with |- [] = sub_at _ _ ?k => replace k with 0 by lia; reflexivity end.
Qed.

Lemma tm_core s sub st0 e dir :
  0 <= st0 -> 0 <= e <= zlen s ->
  (if zlen sub <=? e - (if 0 <? dir then (if st0 <? e - zlen sub then e - zlen sub else st0) else st0)
   then memcmp_eq s sub (if 0 <? dir then (if st0 <? e - zlen sub then e - zlen sub else st0) else st0)
   else Ok false)
  = Ok (if e <? st0 then false
        else if 0 <? dir then is_suffix sub (sub_at s st0 (e - st0))
             else is_prefix sub (sub_at s st0 (e - st0))).
Proof.
  intros H0 He. pose proof (zlen_nonneg sub) as Hm. set (m := zlen sub) in *.
  destruct (Z.ltb_spec e st0) as [Hlt|Hge].
  - destruct (Z.ltb_spec 0 dir); brk; try lia; reflexivity.
  - assert (HW : zlen (sub_at s st0 (e - st0)) = e - st0) by (apply zlen_sub_at; lia).
    unfold is_suffix, is_prefix. rewrite HW. fold m.
    destruct (Z.ltb_spec 0 dir) as [Hd|Hd].
    + destruct (Z.ltb_spec st0 (e - m)) as [Hs|Hs].
      * destruct (Z.leb_spec m (e - (e - m))); [|lia].
        rewrite memcmp_in_bounds by (fold m; lia). fold m.
        destruct (Z.leb_spec m (e - st0)); [|lia]. cbn [andb].
        rewrite sub_at_sub_at by lia. do 3 f_equal. lia.
      * destruct (Z.leb_spec m (e - st0)) as [Hle|Hle]; cbn [andb]; [|reflexivity].
        rewrite memcmp_in_bounds by (fold m; lia). fold m.
        rewrite sub_at_sub_at by lia. do 3 f_equal. lia.
    + destruct (Z.leb_spec m (e - st0)) as [Hle|Hle]; cbn [andb]; [|reflexivity].
      rewrite memcmp_in_bounds by (fold m; lia). fold m.
      rewrite sub_at_sub_at by lia. do 3 f_equal. lia.
Qed.

(* the repaired helper agrees with CPython for ALL start/end *)
Theorem bytes_tailmatch_fixed_eq s sub start stop dir :
  pyx_bytes_single true s sub start stop dir = Ok (py_tailmatch s sub start stop dir).
Proof.
  pose proof (zlen_nonneg s) as Hn.
  unfold pyx_bytes_single, py_tailmatch, py_slice_adjust. cbn [snd]. cbv zeta.
  set (n := zlen s) in *.
  set (e := if (if n <? stop then n else if stop <? 0 then stop + n else stop) <? 0 then 0
            else (if n <? stop then n else if stop <? 0 then stop + n else stop)).
  set (st0 := if (if start <? 0 then start + n else start) <? 0 then 0
              else (if start <? 0 then start + n else start)).
  assert (E1 : (if stop <? 0 then if stop + n <? 0 then 0 else stop + n else if n <? stop then n else stop) = e)
    by (subst e; destruct (Z.ltb_spec n stop), (Z.ltb_spec stop 0), (Z.ltb_spec (stop + n) 0); cbv iota; brk; lia).
  assert (E2 : (if start <? 0 then if start + n <? 0 then 0 else start + n else start) = st0)
    by (subst st0; destruct (Z.ltb_spec start 0), (Z.ltb_spec (start + n) 0); cbv iota; brk; lia).
  rewrite E1, E2.
  assert (He : 0 <= e <= n)
    by (subst e; destruct (Z.ltb_spec n stop), (Z.ltb_spec stop 0), (Z.ltb_spec (stop + n) 0); cbv iota; brk; lia).
  assert (Hs : 0 <= st0)
    by (subst st0; destruct (Z.ltb_spec start 0), (Z.ltb_spec (start + n) 0); cbv iota; brk; lia).
  apply tm_core; assumption.
Qed.

(* the tree's helper: equal whenever start + len(sub) cannot overflow
   (both buffers live in one address space: len(s) + len(sub) <= PY_SSIZE_T_MAX) *)
Theorem bytes_tailmatch_eq_partial s sub start stop dir :
  zlen s + zlen sub <= ssize_max -> ssize_min <= start -> start + zlen sub <= ssize_max ->
  pyx_bytes_single false s sub start stop dir = Ok (py_tailmatch s sub start stop dir).
Proof.
  intros Hs Hlo Hno. rewrite <- bytes_tailmatch_fixed_eq.
  pose proof (zlen_nonneg s) as Hn. pose proof (zlen_nonneg sub) as Hm.
  unfold pyx_bytes_single.
  set (e := if (if zlen s <? stop then zlen s else if stop <? 0 then stop + zlen s else stop) <? 0 then 0
            else (if zlen s <? stop then zlen s else if stop <? 0 then stop + zlen s else stop)).
  set (st0 := if (if start <? 0 then start + zlen s else start) <? 0 then 0
              else (if start <? 0 then start + zlen s else start)).
  set (st := if 0 <? dir then if st0 <? e - zlen sub then e - zlen sub else st0 else st0).
  assert (He : 0 <= e <= zlen s).
  { subst e. brk; lia. }
  assert (Hst0 : 0 <= st0 /\ st0 + zlen sub <= ssize_max).
  { subst st0. unfold ssize_max in *. brk; lia. }
  assert (Hst : 0 <= st /\ st + zlen sub <= ssize_max).
  { subst st. unfold ssize_max in *. brk; lia. }
  unfold sadd, fits_ssize. unfold ssize_min, ssize_max in *.
  destruct ((-9223372036854775808 <=? st + zlen sub) && (st + zlen sub <=? 9223372036854775807)) eqn:E; [|lia].
  destruct (Z.leb_spec (st + zlen sub) e); destruct (Z.leb_spec (zlen sub) (e - st)); try lia; reflexivity.
Qed.

(* full statement (false on the tree): forall s sub start stop dir, start/stop in Py_ssize_t ->
   pyx_bytes_single false s sub start stop dir = Ok (py_tailmatch s sub start stop dir) *)
Theorem bytes_tailmatch_refuted :
  exists s sub start stop dir,
    ssize_min <= start <= ssize_max /\ ssize_min <= stop <= ssize_max /\
    pyx_bytes_single false s sub start stop dir = UB /\
    py_tailmatch s sub start stop dir = false.
Proof.
  exists [97; 98; 99], [97], ssize_max, ssize_max, (-1).
  unfold ssize_min, ssize_max. repeat split; try lia; vm_compute; reflexivity.
Qed.

Theorem tuple_loop_eq {S} (single : S -> res bool) subs :
  pyx_tuple_loop single subs = py_tuple_match single subs.
Proof.
  unfold py_tuple_match. induction subs as [|x r IH]; [reflexivity|].
  cbn [pyx_tuple_loop find].
  destruct (single x) as [[|]| |] eqn:E; cbn [is_ok_false negb]; try (rewrite E; reflexivity).
  exact IH.
Qed.

(* ------------------------------------------------------------------------------------------ *)
(* 3. slice normalisation                                                                        *)

Theorem decode_c_bytes_range_eq len start stop :
  0 <= len -> pyx_decode_c_bytes_range len start stop = py_slice_range len start stop.
Proof.
  intros Hl. unfold pyx_decode_c_bytes_range, py_slice_range, py_slice_adjust.
  destruct (Z.ltb_spec start 0); destruct (Z.ltb_spec stop 0); cbn [orb];
  repeat match goal with
  | |- context [if ?a <? ?b then _ else _] => destruct (Z.ltb_spec a b)
  | |- context [if ?a <=? ?b then _ else _] => destruct (Z.leb_spec a b)
  end; try lia; try reflexivity; f_equal; f_equal; lia.
Qed.

Theorem substring_range_eq len start stop :
  0 <= len -> pyx_substring_range len start stop = py_slice_range len start stop.
Proof.
  intros Hl. unfold pyx_substring_range, py_slice_range, py_slice_adjust.
  destruct (Z.ltb_spec start 0); destruct (Z.ltb_spec stop 0);
  repeat match goal with
  | |- context [if ?a <? ?b then _ else _] => destruct (Z.ltb_spec a b)
  | |- context [if ?a <=? ?b then _ else _] => destruct (Z.leb_spec a b)
  end; try lia; try reflexivity; f_equal; f_equal; lia.
Qed.

(* the decoded range always lies inside the buffer *)
Theorem decode_c_bytes_range_in_bounds len start stop o n :
  0 <= len -> pyx_decode_c_bytes_range len start stop = Some (o, n) -> 0 <= o /\ 0 < n /\ o + n <= len.
Proof.
  intros Hl. rewrite decode_c_bytes_range_eq by assumption.
  unfold py_slice_range, py_slice_adjust.
  repeat match goal with
  | |- context [if ?a <? ?b then _ else _] => destruct (Z.ltb_spec a b)
  | |- context [if ?a <=? ?b then _ else _] => destruct (Z.leb_spec a b)
  end; intros [= <- <-]; lia.
Qed.

(* char*: same as Python slicing of the strlen-long string when the caller's stop is inside it *)
Theorem decode_c_string_range_eq_partial len start stop :
  0 <= len -> stop <= len ->
  pyx_decode_c_string_range len start stop = py_slice_range len start stop.
Proof.
  intros Hl Hs. unfold pyx_decode_c_string_range, py_slice_range, py_slice_adjust.
  destruct (Z.ltb_spec start 0); destruct (Z.ltb_spec stop 0); cbn [orb];
  repeat match goal with
  | |- context [if ?a <? ?b then _ else _] => destruct (Z.ltb_spec a b)
  | |- context [if ?a <=? ?b then _ else _] => destruct (Z.leb_spec a b)
  end; try lia; try reflexivity; f_equal; f_equal; lia.
Qed.

(* ------------------------------------------------------------------------------------------ *)
(* 4. abs                                                                                        *)

Lemma pow2_63 : 2 ^ 63 = 9223372036854775808. Proof. reflexivity. Qed.

Theorem abs_c_eq w ovf x :
  (w = 8 \/ w = 16 \/ w = 32 \/ w = 64) -> in_range w true x ->
  x <> min_int (if w <? 32 then 32 else w) true ->
  pyx_abs_c w ovf x = py_abs_c w x /\ pyx_abs_c w ovf x = Ok (Z.abs x).
Proof.
  intros Hw Hx Hne. unfold pyx_abs_c, py_abs_c, in_rangeb, in_range, min_int, max_int in *.
  destruct Hw as [-> | [-> | [-> | ->]]].
  - change (8 <? 32) with true in *. cbv iota in *.
    change (2 ^ (8 - 1)) with 128 in *. change (2 ^ (32 - 1)) with 2147483648 in *.
    destruct (Z.eqb_spec x (Z.opp 2147483648)); [lia|].
    destruct ((Z.opp 2147483648 <=? Z.abs x) && (Z.abs x <=? 2147483648 - 1)) eqn:E; [|lia].
    destruct (Z.ltb_spec x 0); cbv iota; split; f_equal; lia.
  - change (16 <? 32) with true in *. cbv iota in *.
    change (2 ^ (16 - 1)) with 32768 in *. change (2 ^ (32 - 1)) with 2147483648 in *.
    destruct (Z.eqb_spec x (Z.opp 2147483648)); [lia|].
    destruct ((Z.opp 2147483648 <=? Z.abs x) && (Z.abs x <=? 2147483648 - 1)) eqn:E; [|lia].
    destruct (Z.ltb_spec x 0); cbv iota; split; f_equal; lia.
  - change (32 <? 32) with false in *. cbv iota in *.
    change (2 ^ (32 - 1)) with 2147483648 in *.
    destruct (Z.eqb_spec x (Z.opp 2147483648)); [lia|].
    destruct ((Z.opp 2147483648 <=? Z.abs x) && (Z.abs x <=? 2147483648 - 1)) eqn:E; [|lia].
    destruct (Z.ltb_spec x 0); cbv iota; split; f_equal; lia.
  - change (64 <? 32) with false in *. cbv iota in *.
    change (2 ^ (64 - 1)) with 9223372036854775808 in *.
    destruct (Z.eqb_spec x (Z.opp 9223372036854775808)); [lia|].
    destruct ((Z.opp 9223372036854775808 <=? Z.abs x) && (Z.abs x <=? 9223372036854775808 - 1)) eqn:E; [|lia].
    destruct (Z.ltb_spec x 0); cbv iota; split; f_equal; lia.
Qed.

(* the most negative value: OverflowError under overflowcheck (which is what Python's value, not
   representable in the result type, must become), undefined behaviour without it *)
Theorem abs_c_min w :
  (w = 32 \/ w = 64) ->
  pyx_abs_c w true (min_int w true) = py_abs_c w (min_int w true) /\
  py_abs_c w (min_int w true) = Raise OverflowError /\
  pyx_abs_c w false (min_int w true) = UB.
Proof. intros [->| ->]; vm_compute; repeat split. Qed.

(* ------------------------------------------------------------------------------------------ *)
(* 5. ord / chr                                                                                  *)

Theorem ord_fixed_eq o : pyx_ord true o = py_ord o.
Proof.
  destruct o as [l|l|l|]; try reflexivity; unfold py_ord; cbn [seq_of pyx_ord];
  (destruct l as [|c [|d r]]; [reflexivity | reflexivity |]);
  unfold zlen; cbn [length]; (destruct (Z.eqb_spec (Z.of_nat (S (S (length r)))) 1); [lia | reflexivity]).
Qed.

Theorem ord_eq_partial o :
  (forall l, o = OStr l -> zlen l = 1) -> pyx_ord false o = py_ord o.
Proof.
  intros H. rewrite <- ord_fixed_eq. destruct o as [l|l|l|]; try reflexivity.
  specialize (H l eq_refl). destruct l as [|c [|d r]]; try reflexivity; unfold zlen in H; cbn [length] in H; lia.
Qed.

(* full statement (false on the tree): forall o, pyx_ord false o = py_ord o *)
Theorem ord_refuted : exists o, pyx_ord false o = Raise ValueError /\ py_ord o = Raise TypeError.
Proof. exists (OStr [97; 98]). split; reflexivity. Qed.

Theorem chr_eq v : pyx_chr v = py_chr v.
Proof.
  unfold pyx_chr, py_chr, in_rangeb, min_int, max_int.
  change (2 ^ (32 - 1)) with 2147483648.
  destruct ((Z.opp 2147483648 <=? v) && (v <=? 2147483648 - 1)) eqn:E1;
  destruct ((v <? -2147483648) || (2147483647 <? v)) eqn:E2; try lia; try reflexivity.
  destruct ((v <? 0) || (1114111 <? v)) eqn:E3; destruct ((0 <=? v) && (v <? 1114112)) eqn:E4; try lia; reflexivity.
Qed.

(* ------------------------------------------------------------------------------------------ *)
(* 6. dict                                                                                       *)

Theorem dict_get_eq d k dflt : pyx_dict_get d k dflt = py_dict_get d k dflt.
Proof. destruct k as [z|]; [|reflexivity]. unfold pyx_dict_get, py_dict_get. cbn. destruct (lookup d z); reflexivity. Qed.

Theorem dict_pop_313_eq d k dflt : pyx_dict_pop_313 d k dflt = py_dict_pop d k dflt.
Proof.
  destruct k as [z|]; [|destruct d, dflt; reflexivity]. unfold pyx_dict_pop_313, py_dict_pop, PyDict_Pop_313.
  destruct (lookup d z); [reflexivity|]. destruct dflt; reflexivity.
Qed.

(* the statement form d.pop(k, default): same final dict / same exception whatever the default *)
Theorem dict_pop_ignore_eq d k dflt :
  pyx_dict_pop_ignore d k =
  match py_dict_pop d k (Some dflt) with Ok (_, d') => Ok d' | Raise e => Raise e | UB => UB end.
Proof.
  destruct k as [z|]; [|destruct d; reflexivity]. unfold pyx_dict_pop_ignore, py_dict_pop.
  destruct (lookup d z); reflexivity.
Qed.

(* the KeyError decision *)
Theorem dict_pop_keyerror_iff d z dflt :
  pyx_dict_pop_313 d (KInt z) dflt = Raise KeyError <-> (lookup d z = None /\ dflt = None).
Proof.
  rewrite dict_pop_313_eq. unfold py_dict_pop. destruct (lookup d z); destruct dflt; split;
    try discriminate; try (intros [? ?]; discriminate); intuition.
Qed.

Theorem dict_setdefault_eq d k dflt : pyx_dict_setdefault d k dflt = py_dict_setdefault d k dflt.
Proof. destruct k; reflexivity. Qed.

(* ------------------------------------------------------------------------------------------ *)
(* 7. min / max                                                                                  *)

Section MinMaxProofs.
Variable cmp : Z -> Z -> option bool.
Variable args : nat -> Z.

Lemma chain_eval (is : list nat) (m : nat) (env : nat -> Z) :
  (forall i, In i is -> (1 <= i <= m)%nat /\ env i = args i) ->
  forall last o t0, eval cmp args last env = (o, t0) ->
  eval cmp args (build_chain is m last) env =
  match o with
  | Ok cur => let '(o', t) := py_scan cmp cur (map args is) in (o', t0 ++ t)
  | other => (other, t0)
  end.
Proof.
  induction is as [|i r IH]; intros Hin last o t0 Hl.
  - cbn [build_chain map py_scan]. rewrite Hl. destruct o; try reflexivity. now rewrite app_nil_r.
  - cbn [build_chain map py_scan].
    destruct (Hin i (or_introl eq_refl)) as [Hi Hei].
    assert (Hneq : Nat.eqb i (m + i) = false) by (apply Nat.eqb_neq; lia).
    set (last' := ELet (m + i) last (ECond (ERef i) (ERef (m + i)) (ERef i) (ERef (m + i)))).
    assert (Hl' : eval cmp args last' env =
                  match o with
                  | Ok cur => match cmp (args i) cur with
                              | None => (Raise CmpError, t0 ++ [(args i, cur)])
                              | Some c => (Ok (if c then args i else cur), t0 ++ [(args i, cur)])
                              end
                  | other => (other, t0)
                  end).
    { subst last'. cbn [eval]. rewrite Hl. destruct o as [cur| |]; try reflexivity.
      unfold upd. rewrite Hneq, Nat.eqb_refl, Hei. cbn [app].
      destruct (cmp (args i) cur) as [[|]|]; cbn [eval]; unfold upd;
        rewrite ?Hneq, ?Nat.eqb_refl, ?Hei; reflexivity. }
    assert (Hin' : forall j, In j r -> (1 <= j <= m)%nat /\ env j = args j)
      by (intros j Hj; apply Hin; right; exact Hj).
    destruct o as [cur| |].
    + destruct (cmp (args i) cur) as [c|] eqn:Ec.
      * rewrite (IH Hin' _ _ _ Hl').
        destruct (py_scan cmp (if c then args i else cur) (map args r)) as [o' t].
        rewrite <- app_assoc. reflexivity.
      * rewrite (IH Hin' _ _ _ Hl'). reflexivity.
    + rewrite (IH Hin' _ _ _ Hl'). reflexivity.
    + rewrite (IH Hin' _ _ _ Hl'). reflexivity.
Qed.

Lemma wrap_lets_eval (is : list nat) body (env : nat -> Z) :
  NoDup is ->
  exists env', (forall i, In i is -> env' i = args i) /\
               (forall j, ~ In j is -> env' j = env j) /\
               eval cmp args (wrap_lets is body) env = eval cmp args body env'.
Proof.
  revert env. induction is as [|i r IH]; intros env Hnd.
  - exists env. repeat split; intros; try reflexivity; contradiction.
  - inversion Hnd as [|? ? Hni Hnd']; subst. cbn [wrap_lets eval].
    destruct (IH (upd env i (args i)) Hnd') as [env' [H1 [H2 H3]]].
    exists env'. split; [|split].
    + intros j [Hji|Hj]; [subst j|apply H1; exact Hj].
      rewrite (H2 i Hni). unfold upd. now rewrite Nat.eqb_refl.
    + intros j Hj. rewrite H2 by (intros Hc; apply Hj; right; exact Hc).
      unfold upd. destruct (Nat.eqb_spec j i) as [->|]; [exfalso; apply Hj; left; reflexivity | reflexivity].
    + rewrite H3. destruct (eval cmp args body env') as [o t]. reflexivity.
Qed.

(* the unrolled conditional chain computes Python's left-to-right scan: same winner (ties keep the
   first), same exception, same sequence of comparison calls - for ANY comparison function *)
Theorem minmax_unrolled_eq (m : nat) env :
  eval cmp args (build_minmax m) env = py_scan cmp (args 0%nat) (map args (seq 1 m)).
Proof.
  unfold build_minmax.
  destruct (wrap_lets_eval (seq 1 m) (build_chain (seq 1 m) m (EArg 0)) env (seq_NoDup m 1))
    as [env' [H1 [_ H3]]].
  rewrite H3.
  rewrite (chain_eval (seq 1 m) m env') with (o := Ok (args 0%nat)) (t0 := []).
  - destruct (py_scan cmp (args 0%nat) (map args (seq 1 m))). reflexivity.
  - intros i Hi. split; [apply in_seq in Hi; lia | apply H1; exact Hi].
  - reflexivity.
Qed.
End MinMaxProofs.

Lemma map_nth_seq (l : list Z) : map (fun i => nth i l 0) (seq 0 (length l)) = l.
Proof.
  induction l as [|y r IH]; [reflexivity|]. cbn [length seq map nth]. f_equal.
  rewrite <- seq_shift, map_map. exact IH.
Qed.

Theorem minmax_list_eq cmp x rest :
  pyx_minmax cmp (x :: rest) = py_minmax cmp (x :: rest).
Proof.
  unfold pyx_minmax, py_minmax. rewrite minmax_unrolled_eq.
  cbn [length]. replace (S (length rest) - 1)%nat with (length rest) by lia.
  f_equal. unfold nth_arg. rewrite <- seq_shift, map_map. exact (map_nth_seq rest).
Qed.

(* ties keep the first: with a comparison that never answers true the first argument wins *)
Corollary minmax_ties_keep_first cmp x rest :
  (forall a b, cmp a b = Some false) -> fst (pyx_minmax cmp (x :: rest)) = Ok x.
Proof.
  intros H. rewrite minmax_list_eq. unfold py_minmax.
  revert x. induction rest as [|y r IH]; intros x; [reflexivity|].
  cbn [py_scan]. rewrite H. specialize (IH x). destruct (py_scan cmp x r). exact IH.
Qed.

(* ------------------------------------------------------------------------------------------ *)
(* 8. any / all                                                                                  *)

Theorem anyall_inlined_eq filt pred is_any xs :
  pyx_anyall filt pred is_any xs = py_anyall filt pred is_any xs.
Proof.
  unfold py_anyall. induction xs as [|x r IH]; [reflexivity|].
  cbn [pyx_anyall find take_until].
  destruct (filt x) as [[|]|] eqn:Ef.
  - assert (Hp : pred_evaluated filt x = true) by (unfold pred_evaluated; rewrite Ef; reflexivity).
    destruct (pred x) as [b|] eqn:Ep.
    + assert (Ho : item_outcome filt pred x = Some (Ok b)) by (unfold item_outcome; rewrite Ef, Ep; reflexivity).
      assert (Hd : decides filt pred is_any x = Bool.eqb b is_any) by (unfold decides; rewrite Ho; reflexivity).
      rewrite Hd. destruct (Bool.eqb b is_any) eqn:Eb.
      * cbn [filter]. rewrite Hp, Ho. reflexivity.
      * rewrite IH. cbn [filter]. rewrite Hp. reflexivity.
    + assert (Ho : item_outcome filt pred x = Some (Raise CmpError)) by (unfold item_outcome; rewrite Ef, Ep; reflexivity).
      assert (Hd : decides filt pred is_any x = true) by (unfold decides; rewrite Ho; reflexivity).
      rewrite Hd. cbn [filter]. rewrite Hp, Ho. reflexivity.
  - assert (Hp : pred_evaluated filt x = false) by (unfold pred_evaluated; rewrite Ef; reflexivity).
    assert (Ho : item_outcome filt pred x = None) by (unfold item_outcome; rewrite Ef; reflexivity).
    assert (Hd : decides filt pred is_any x = false) by (unfold decides; rewrite Ho; reflexivity).
    rewrite Hd, IH. cbn [filter]. rewrite Hp. reflexivity.
  - assert (Hp : pred_evaluated filt x = false) by (unfold pred_evaluated; rewrite Ef; reflexivity).
    assert (Ho : item_outcome filt pred x = Some (Raise CmpError)) by (unfold item_outcome; rewrite Ef; reflexivity).
    assert (Hd : decides filt pred is_any x = true) by (unfold decides; rewrite Ho; reflexivity).
    rewrite Hd. cbn [filter]. rewrite Hp, Ho. reflexivity.
Qed.

(* early exit: nothing after the deciding item is evaluated *)
Theorem anyall_early_exit filt pred is_any pre x post :
  decides filt pred is_any x = true ->
  pyx_anyall filt pred is_any (pre ++ x :: post) = pyx_anyall filt pred is_any (pre ++ [x]).
Proof.
  intros Hd. rewrite !anyall_inlined_eq. unfold py_anyall.
  assert (Hf : forall post', find (decides filt pred is_any) (pre ++ x :: post') =
                             find (decides filt pred is_any) (pre ++ [x])).
  { intros post'. induction pre as [|p r IH]; cbn [app find]; [rewrite Hd; reflexivity|].
    destruct (decides filt pred is_any p); [reflexivity | exact IH]. }
  assert (Ht : forall post', take_until (decides filt pred is_any) (pre ++ x :: post') =
                             take_until (decides filt pred is_any) (pre ++ [x])).
  { clear - Hd. intros post'. induction pre as [|p r IH]; cbn [app take_until]; [rewrite Hd; reflexivity|].
    destruct (decides filt pred is_any p); [reflexivity | rewrite IH; reflexivity]. }
  rewrite Hf, Ht. reflexivity.
Qed.
