(* C33 -- proofs about Model/M_Convert.v *)
From Coq Require Import ZArith NArith List Bool Lia.
From CyVerif Require Import Lib.CInt Model.M_Convert.
Import ListNotations.
Open Scope Z_scope.

(* ---------- equality tests are sound ---------- *)

Lemma list_eqb_N_sound a b : list_eqb N.eqb a b = true -> a = b.
Proof.
  revert b. induction a as [|x a IH]; destruct b as [|y b]; cbn; try discriminate; auto.
  intros H. apply andb_prop in H. destruct H as [H1 H2]. apply N.eqb_eq in H1. f_equal; auto.
Qed.

Fixpoint pyeqb_sound (a b : pyval) {struct a} : pyeqb a b = true -> a = b.
Proof.
  destruct a; destruct b; cbn; try discriminate; intros H.
  - reflexivity.
  - f_equal. apply Bool.eqb_prop. exact H.
  - f_equal. apply Z.eqb_eq. exact H.
  - f_equal. apply Z.eqb_eq. exact H.
  - f_equal. apply list_eqb_N_sound. exact H.
  - f_equal. apply list_eqb_N_sound. exact H.
  - f_equal. revert l0 H. induction l as [|u us IHl]; intros [|w ws] H; try discriminate; auto.
    apply andb_prop in H. destruct H as [H1 H2]. f_equal.
    + apply pyeqb_sound. exact H1.
    + apply IHl. exact H2.
Qed.

Fixpoint ceqb_sound (a b : cval) {struct a} : ceqb a b = true -> a = b.
Proof.
  destruct a; destruct b; cbn; try discriminate; intros H.
  - f_equal. apply Z.eqb_eq. exact H.
  - f_equal. apply Z.eqb_eq. exact H.
  - f_equal. apply list_eqb_N_sound. exact H.
  - f_equal. revert l0 H. induction l as [|u us IHl]; intros [|w ws] H; try discriminate; auto.
    apply andb_prop in H. destruct H as [H1 H2]. f_equal.
    + apply ceqb_sound. exact H1.
    + apply IHl. exact H2.
Qed.

(* ---------- res / mapM ---------- *)

Lemma mapM_Forall2 {A B} (f : A -> res B) l ys :
  mapM f l = Ok ys <-> Forall2 (fun x y => f x = Ok y) l ys.
Proof.
  revert ys. induction l as [|x r IH]; intros ys; cbn.
  - split; intros H. { inversion H. constructor. } { inversion H. reflexivity. }
  - destruct (f x) as [y|e] eqn:Hx.
    + destruct (mapM f r) as [yr|e] eqn:Hr.
      * split; intros H.
        { inversion H; subst. constructor; [exact Hx | apply IH; reflexivity]. }
        { inversion H as [|x0 y0 l0 l1 H1 H2]; subst. rewrite Hx in H1. inversion H1; subst.
          apply IH in H2. inversion H2. reflexivity. }
      * split; intros H; [discriminate|].
        inversion H as [|x0 y0 l0 l1 H1 H2]; subst. apply IH in H2. discriminate.
    + split; intros H; [discriminate|]. inversion H as [|x0 y0 l0 l1 H1 H2]; subst.
      rewrite Hx in H1. discriminate.
Qed.

(* the first failing element, in iteration order, decides; nothing is returned *)
Definition first_err {A B} (f : A -> res B) (l : list A) (e : exc) : Prop :=
  exists pre x post ys, l = pre ++ x :: post /\ mapM f pre = Ok ys /\ f x = Err e.

Lemma mapM_err_first {A B} (f : A -> res B) l e :
  mapM f l = Err e <-> first_err f l e.
Proof.
  unfold first_err. induction l as [|x r IH]; cbn.
  - split; [discriminate|]. intros (pre & x & post & ys & H & _). destruct pre; discriminate.
  - destruct (f x) as [y|e'] eqn:Hx.
    + destruct (mapM f r) as [yr|e''] eqn:Hr.
      * split; [discriminate|]. intros (pre & x0 & post & ys & H & Hp & Hx0).
        destruct pre as [|p pre]; cbn in H; inversion H; subst.
        { rewrite Hx in Hx0. discriminate. }
        assert (Err e = @Ok (list B) yr) as Habs; [|discriminate].
        rewrite <- Hr. symmetry. apply IH. cbn in Hp. rewrite Hx in Hp.
        destruct (mapM f pre) as [yp|] eqn:Hpre; [|discriminate].
        exists pre, x0, post, yp. auto.
      * split.
        { intros H. inversion H; subst. destruct (proj1 IH eq_refl) as (pre & x0 & post & ys & H1 & H2 & H3).
          exists (x :: pre), x0, post, (y :: ys). subst r. cbn. rewrite Hx, H2. auto. }
        { intros (pre & x0 & post & ys & H & Hp & Hx0).
          destruct pre as [|p pre]; cbn in H; inversion H; subst.
          { rewrite Hx in Hx0. discriminate. }
          cbn in Hp. rewrite Hx in Hp. destruct (mapM f pre) as [yp|] eqn:Hpre; [|discriminate].
          f_equal. assert (Err e'' = @Err (list B) e) as Hq; [|inversion Hq; reflexivity].
          apply IH. exists pre, x0, post, yp. auto. }
    + split.
      * intros H. inversion H; subst. exists [], x, r, []. cbn. auto.
      * intros (pre & x0 & post & ys & H & Hp & Hx0).
        destruct pre as [|p pre]; cbn in H; inversion H; subst.
        { rewrite Hx in Hx0. inversion Hx0. reflexivity. }
        cbn in Hp. rewrite Hx in Hp. discriminate.
Qed.

Lemma Forall2_law_inv {A B} (R : A -> B -> Prop) (g : B -> res A) l vs :
  Forall2 R l vs -> (forall x v, In x l -> R x v -> g v = Ok x) -> mapM g vs = Ok l.
Proof.
  induction 1 as [|x v l vs Hxv H IH]; intros Hlaw; cbn; [reflexivity|].
  rewrite (Hlaw x v (or_introl eq_refl) Hxv). rewrite IH; [reflexivity|].
  intros x' v' Hin. apply Hlaw. right. exact Hin.
Qed.

(* ---------- generic container theorems: any element converters ---------- *)
Section GenericProofs.
  Context {X Y : Type}.
  Variable fromX : pyval -> res X.
  Variable toX : X -> res pyval.
  Variable fromY : pyval -> res Y.
  Variable toY : Y -> res pyval.
  Variable eqb : X -> X -> bool.
  Hypothesis eqb_sound : forall a b, eqb a b = true -> a = b.

  (* vector / std::list / C array payload: order preserving round trip *)
  Lemma seq_roundtrip (l : list X) (vs : list pyval) :
    (forall x v, In x l -> toX x = Ok v -> fromX v = Ok x) ->
    mapM toX l = Ok vs -> seq_from_py fromX (PList vs) = Ok l.
  Proof.
    intros Hlaw H. unfold seq_from_py. cbn. apply mapM_Forall2 in H.
    eapply Forall2_law_inv; eauto.
  Qed.

  Lemma seq_error_position (v : pyval) (e : exc) :
    seq_from_py fromX v = Err e <->
    iter_items v = Err e \/ exists items, iter_items v = Ok items /\ first_err fromX items e.
  Proof.
    unfold seq_from_py. destruct (iter_items v) as [items|e'] eqn:Hi; cbn.
    - rewrite mapM_err_first. split.
      + intros H. right. exists items. auto.
      + intros [H|(it & H & H')]; [discriminate|]. inversion H; subst. exact H'.
    - split.
      + intros H. left. exact H.
      + intros [H|(it & H & _)]; [exact H|discriminate].
  Qed.

  (* set / unordered_set *)
  Lemma set_loop_err items acc e :
    set_loop fromX eqb items acc = Err e <-> mapM fromX items = Err e.
  Proof.
    revert acc. induction items as [|it r IH]; intros acc; cbn.
    - split; discriminate.
    - destruct (fromX it) as [x|e'] eqn:Hx; [|tauto].
      rewrite IH. destruct (mapM fromX r); split; intros H; try discriminate; try exact H.
      + inversion H; reflexivity.
      + inversion H; reflexivity.
  Qed.

  Lemma set_loop_ok items acc r :
    set_loop fromX eqb items acc = Ok r ->
    exists xs, mapM fromX items = Ok xs /\ r = fold_left (fun a x => set_insert eqb x a) xs acc.
  Proof.
    revert acc. induction items as [|it rest IH]; intros acc; cbn.
    - intros H. inversion H. exists []. auto.
    - destruct (fromX it) as [x|e'] eqn:Hx; [|discriminate]. intros H.
      destruct (IH _ H) as (xs & H1 & H2). exists (x :: xs). rewrite H1. cbn. auto.
  Qed.

  Lemma set_insert_In x a acc : In a (set_insert eqb x acc) <-> In a acc \/
      (a = x /\ existsb (eqb x) acc = false).
  Proof.
    unfold set_insert. destruct (existsb (eqb x) acc) eqn:He.
    - split; [auto|]. intros [H|[_ H]]; [exact H|discriminate].
    - rewrite in_app_iff. cbn. split.
      + intros [H|[H|[]]]; auto.
      + intros [H|[H _]]; auto.
  Qed.

  (* duplicates collapse: the result holds exactly the converted items *)
  Lemma set_members items r :
    set_loop fromX eqb items [] = Ok r ->
    exists xs, mapM fromX items = Ok xs /\ forall a, In a r -> In a xs.
  Proof.
    intros H. destruct (set_loop_ok _ _ _ H) as (xs & H1 & H2). exists xs. split; [exact H1|].
    subst r. assert (G : forall l acc a, In a (fold_left (fun a x => set_insert eqb x a) l acc) ->
                                        In a acc \/ In a l).
    { induction l as [|x l IH]; cbn; intros acc a Ha; [auto|].
      apply IH in Ha. destruct Ha as [Ha|Ha]; [|auto].
      apply set_insert_In in Ha. destruct Ha as [Ha|[Ha _]]; auto. }
    intros a Ha. apply G in Ha. destruct Ha as [[]|Ha]; exact Ha.
  Qed.

  Lemma pyset_images (l accl : list X) (accv vs : list pyval) :
    NoDup (accl ++ l) ->
    Forall2 (fun x v => toX x = Ok v) accl accv ->
    (forall x v, In x (accl ++ l) -> toX x = Ok v -> fromX v = Ok x) ->
    pyset_loop toX l accv = Ok vs ->
    Forall2 (fun x v => toX x = Ok v) (accl ++ l) vs.
  Proof.
    revert accl accv. induction l as [|x r IH]; intros accl accv Hnd Hacc Hlaw H; cbn in H.
    - inversion H; subst. rewrite app_nil_r. exact Hacc.
    - destruct (toX x) as [v|e] eqn:Hx; [|discriminate].
      unfold pyset_add in H. destruct (hashable v); [|discriminate].
      destruct (existsb (pyeqb v) accv) eqn:He.
      + exfalso. apply existsb_exists in He. destruct He as (u & Hu & Huv).
        assert (exists a, In a accl /\ toX a = Ok u) as (a & Ha & Hau).
        { clear - Hacc Hu. induction Hacc as [|a0 u0 la lu H0 H1 IH]; [destruct Hu|].
          destruct Hu as [<-|Hu]; [exists a0; cbn; auto|].
          destruct (IH Hu) as (a & Ha & Hau). exists a. cbn. auto. }
        assert (Hvu : v = u) by (apply pyeqb_sound; exact Huv).
        subst u.
        assert (fromX v = Ok a) by (apply Hlaw; [apply in_app_iff; auto|exact Hau]).
        assert (fromX v = Ok x) by (apply Hlaw; [apply in_app_iff; right; left; reflexivity|exact Hx]).
        assert (a = x) by congruence. subst a.
        apply NoDup_remove_2 in Hnd. apply Hnd. apply in_app_iff. auto.
      + replace (accl ++ x :: r) with ((accl ++ [x]) ++ r) by (rewrite <- app_assoc; reflexivity).
        apply IH with (accv := accv ++ [v]).
        * rewrite <- app_assoc. exact Hnd.
        * apply Forall2_app; [exact Hacc|]. constructor; [exact Hx|constructor].
        * rewrite <- app_assoc. exact Hlaw.
        * exact H.
  Qed.
End GenericProofs.
