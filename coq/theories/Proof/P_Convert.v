(* C33 -- proofs about Model/M_Convert.v *)
From Coq Require Import ZArith NArith List Bool Lia ZifyBool ZifyNat ZifyN.
From CyVerif Require Import Lib.CInt Model.M_Convert.
From CyVerif Require Model.M_IntFmt.
Import ListNotations.
Open Scope Z_scope.

(* ---------- equality tests are sound ---------- *)

Lemma list_eqb_N_sound a b : list_eqb N.eqb a b = true -> a = b.
Proof.
  revert b. induction a as [|x a IH]; destruct b as [|y b]; cbn; try discriminate; auto.
  intros H. apply andb_prop in H. destruct H as [H1 H2]. apply N.eqb_eq in H1. f_equal; auto.
Qed.

Fixpoint pyeqb_sound (a b : pyval) {struct a} : pyeqb a b = true -> a = b.
Proof.
  destruct a; destruct b; cbn; try discriminate; intros H.
  - reflexivity.
  - f_equal. apply Bool.eqb_prop. exact H.
  - f_equal. apply Z.eqb_eq. exact H.
  - f_equal. apply Z.eqb_eq. exact H.
  - f_equal. apply list_eqb_N_sound. exact H.
  - f_equal. apply list_eqb_N_sound. exact H.
  - f_equal. revert l0 H. induction l as [|u us IHl]; intros [|w ws] H; try discriminate; auto.
    apply andb_prop in H. destruct H as [H1 H2]. f_equal.
    + apply pyeqb_sound. exact H1.
    + apply IHl. exact H2.
Qed.

Fixpoint ceqb_sound (a b : cval) {struct a} : ceqb a b = true -> a = b.
Proof.
  destruct a; destruct b; cbn; try discriminate; intros H.
  - f_equal. apply Z.eqb_eq. exact H.
  - f_equal. apply Z.eqb_eq. exact H.
  - f_equal. apply list_eqb_N_sound. exact H.
  - f_equal. revert l0 H. induction l as [|u us IHl]; intros [|w ws] H; try discriminate; auto.
    apply andb_prop in H. destruct H as [H1 H2]. f_equal.
    + apply ceqb_sound. exact H1.
    + apply IHl. exact H2.
Qed.

(* ---------- res / mapM ---------- *)

Lemma mapM_Forall2 {A B} (f : A -> res B) l ys :
  mapM f l = Ok ys <-> Forall2 (fun x y => f x = Ok y) l ys.
Proof.
  revert ys. induction l as [|x r IH]; intros ys; cbn.
  - split; intros H. { inversion H. constructor. } { inversion H. reflexivity. }
  - destruct (f x) as [y|e] eqn:Hx.
    + destruct (mapM f r) as [yr|e] eqn:Hr.
      * split; intros H.
        { inversion H; subst. constructor; [exact Hx | apply IH; reflexivity]. }
        { inversion H as [|x0 y0 l0 l1 H1 H2]; subst. rewrite Hx in H1. inversion H1; subst.
          apply IH in H2. inversion H2. reflexivity. }
      * split; intros H; [discriminate|].
        inversion H as [|x0 y0 l0 l1 H1 H2]; subst. apply IH in H2. discriminate.
    + split; intros H; [discriminate|]. inversion H as [|x0 y0 l0 l1 H1 H2]; subst.
      rewrite Hx in H1. discriminate.
Qed.

(* the first failing element, in iteration order, decides; nothing is returned *)
Definition first_err {A B} (f : A -> res B) (l : list A) (e : exc) : Prop :=
  exists pre x post ys, l = pre ++ x :: post /\ mapM f pre = Ok ys /\ f x = Err e.

Lemma mapM_err_first {A B} (f : A -> res B) l e :
  mapM f l = Err e <-> first_err f l e.
Proof.
  unfold first_err. split.
  - induction l as [|x r IH]; cbn; [discriminate|].
    destruct (f x) as [y|e'] eqn:Hx.
    + destruct (mapM f r) as [yr|e''] eqn:Hr; [discriminate|].
      intros H. inversion H; subst. destruct (IH eq_refl) as (pre & x0 & post & ys & H1 & H2 & H3).
      exists (x :: pre), x0, post, (y :: ys). subst r. cbn. rewrite Hx, H2. auto.
    + intros H. inversion H; subst. exists [], x, r, []. auto.
  - intros (pre & x & post & ys & -> & Hp & Hx). revert ys Hp.
    induction pre as [|p pre IH]; intros ys Hp; cbn.
    + rewrite Hx. reflexivity.
    + cbn in Hp. destruct (f p) as [y|]; [|discriminate].
      destruct (mapM f pre) as [yp|] eqn:Hpre; [|discriminate].
      rewrite (IH yp eq_refl). reflexivity.
Qed.

Lemma Forall2_len {A B} (R : A -> B -> Prop) l vs : Forall2 R l vs -> length l = length vs.
Proof. induction 1; cbn; auto. Qed.

Lemma Forall2_law_inv {A B} (R : A -> B -> Prop) (g : B -> res A) l vs :
  Forall2 R l vs -> (forall x v, In x l -> R x v -> g v = Ok x) -> mapM g vs = Ok l.
Proof.
  induction 1 as [|x v l vs Hxv H IH]; intros Hlaw; cbn; [reflexivity|].
  rewrite (Hlaw x v (or_introl eq_refl) Hxv). rewrite IH; [reflexivity|].
  intros x' v' Hin. apply Hlaw. right. exact Hin.
Qed.

(* ---------- generic container theorems: any element converters ---------- *)
Section GenericProofs.
  Context {X Y : Type}.
  Variable fromX : pyval -> res X.
  Variable toX : X -> res pyval.
  Variable fromY : pyval -> res Y.
  Variable toY : Y -> res pyval.
  Variable eqb : X -> X -> bool.
  Hypothesis eqb_sound : forall a b, eqb a b = true -> a = b.

  (* vector / std::list / C array payload: order preserving round trip *)
  Lemma seq_roundtrip (l : list X) (vs : list pyval) :
    (forall x v, In x l -> toX x = Ok v -> fromX v = Ok x) ->
    mapM toX l = Ok vs -> seq_from_py fromX (PList vs) = Ok l.
  Proof.
    intros Hlaw H. unfold seq_from_py. cbn. apply mapM_Forall2 in H.
    eapply Forall2_law_inv; eauto.
  Qed.

  Lemma seq_error_position (v : pyval) (e : exc) :
    seq_from_py fromX v = Err e <->
    iter_items v = Err e \/ exists items, iter_items v = Ok items /\ first_err fromX items e.
  Proof.
    unfold seq_from_py. destruct (iter_items v) as [items|e'] eqn:Hi; cbn.
    - rewrite mapM_err_first. split.
      + intros H. right. exists items. auto.
      + intros [H|(it & H & H')]; [discriminate|]. inversion H; subst. exact H'.
    - split.
      + intros H. left. inversion H. reflexivity.
      + intros [H|(it & H & _)]; [inversion H; reflexivity|discriminate].
  Qed.

  (* set / unordered_set *)
  Lemma set_loop_err items acc e :
    set_loop fromX eqb items acc = Err e <-> mapM fromX items = Err e.
  Proof.
    revert acc. induction items as [|it r IH]; intros acc; cbn.
    - split; discriminate.
    - destruct (fromX it) as [x|e'] eqn:Hx; [|tauto].
      rewrite IH. destruct (mapM fromX r); split; intros H; try discriminate; try exact H;
        inversion H; reflexivity.
  Qed.

  Lemma set_loop_ok items acc r :
    set_loop fromX eqb items acc = Ok r ->
    exists xs, mapM fromX items = Ok xs /\ r = fold_left (fun a x => set_insert eqb x a) xs acc.
  Proof.
    revert acc. induction items as [|it rest IH]; intros acc; cbn.
    - intros H. inversion H. exists []. auto.
    - destruct (fromX it) as [x|e'] eqn:Hx; [|discriminate]. intros H.
      destruct (IH _ H) as (xs & H1 & H2). exists (x :: xs). rewrite H1. cbn. auto.
  Qed.

  Lemma set_insert_In x a acc : In a (set_insert eqb x acc) <-> In a acc \/
      (a = x /\ existsb (eqb x) acc = false).
  Proof.
    unfold set_insert. destruct (existsb (eqb x) acc) eqn:He.
    - split; [auto|]. intros [H|[_ H]]; [exact H|discriminate].
    - rewrite in_app_iff. cbn. split.
      + intros [H|[H|[]]]; auto.
      + intros [H|[H _]]; auto.
  Qed.

  (* duplicates collapse: the result holds exactly the converted items *)
  Lemma set_members items r :
    set_loop fromX eqb items [] = Ok r ->
    exists xs, mapM fromX items = Ok xs /\ forall a, In a r -> In a xs.
  Proof.
    intros H. destruct (set_loop_ok _ _ _ H) as (xs & H1 & H2). exists xs. split; [exact H1|].
    subst r. assert (G : forall l acc a, In a (fold_left (fun a x => set_insert eqb x a) l acc) ->
                                        In a acc \/ In a l).
    { induction l as [|x l IH]; cbn; intros acc a Ha; [auto|].
      apply IH in Ha. destruct Ha as [Ha|Ha]; [|auto].
      apply set_insert_In in Ha. destruct Ha as [Ha|[Ha _]]; auto. }
    intros a Ha. apply G in Ha. destruct Ha as [[]|Ha]; exact Ha.
  Qed.

  Lemma pyset_images (l accl : list X) (accv vs : list pyval) :
    NoDup (accl ++ l) ->
    Forall2 (fun x v => toX x = Ok v) accl accv ->
    (forall x v, In x (accl ++ l) -> toX x = Ok v -> fromX v = Ok x) ->
    pyset_loop toX l accv = Ok vs ->
    Forall2 (fun x v => toX x = Ok v) (accl ++ l) vs.
  Proof.
    revert accl accv. induction l as [|x r IH]; intros accl accv Hnd Hacc Hlaw H; cbn in H.
    - inversion H; subst. rewrite app_nil_r. exact Hacc.
    - destruct (toX x) as [v|e] eqn:Hx; [|discriminate].
      unfold pyset_add in H. destruct (hashable v); [|discriminate].
      destruct (existsb (pyeqb v) accv) eqn:He.
      + exfalso. apply existsb_exists in He. destruct He as (u & Hu & Huv).
        assert (exists a, In a accl /\ toX a = Ok u) as (a & Ha & Hau).
        { clear - Hacc Hu. induction Hacc as [|a0 u0 la lu H0 H1 IH]; [destruct Hu|].
          destruct Hu as [<-|Hu]; [exists a0; cbn; auto|].
          destruct (IH Hu) as (a & Ha & Hau). exists a. cbn. auto. }
        assert (Hvu : v = u) by (apply pyeqb_sound; exact Huv).
        subst u.
        assert (fromX v = Ok a) by (apply Hlaw; [apply in_app_iff; auto|exact Hau]).
        assert (fromX v = Ok x) by (apply Hlaw; [apply in_app_iff; right; left; reflexivity|exact Hx]).
        assert (a = x) by congruence. subst a.
        apply NoDup_remove_2 in Hnd. apply Hnd. apply in_app_iff. auto.
      + replace (accl ++ x :: r) with ((accl ++ [x]) ++ r) by (rewrite <- app_assoc; reflexivity).
        apply IH with (accv := accv ++ [v]).
        * rewrite <- app_assoc. exact Hnd.
        * apply Forall2_app; [exact Hacc|]. constructor; [exact Hx|constructor].
        * rewrite <- app_assoc. exact Hlaw.
        * exact H.
  Qed.

  Lemma set_back (l accl : list X) (vs : list pyval) :
    Forall2 (fun x v => toX x = Ok v) l vs ->
    (forall x v, In x l -> toX x = Ok v -> fromX v = Ok x) ->
    NoDup (accl ++ l) ->
    set_loop fromX eqb vs accl = Ok (accl ++ l).
  Proof.
    intros HF. revert accl. induction HF as [|x v l vs Hxv HF IH]; intros accl Hlaw Hnd; cbn.
    - rewrite app_nil_r. reflexivity.
    - rewrite (Hlaw x v (or_introl eq_refl) Hxv).
      unfold set_insert. destruct (existsb (eqb x) accl) eqn:He.
      + exfalso. apply existsb_exists in He. destruct He as (a & Ha & Hxa).
        apply eqb_sound in Hxa. subst a. apply NoDup_remove_2 in Hnd. apply Hnd.
        apply in_app_iff; auto.
      + replace (accl ++ x :: l) with ((accl ++ [x]) ++ l) by (rewrite <- app_assoc; reflexivity).
        apply IH.
        * intros x' v' Hin. apply Hlaw. right. exact Hin.
        * rewrite <- app_assoc. exact Hnd.
  Qed.

  (* C set -> Python set -> C set is the identity (any element converters obeying the law) *)
  Theorem set_roundtrip (l : list X) (vs : list pyval) :
    NoDup l -> (forall x v, In x l -> toX x = Ok v -> fromX v = Ok x) ->
    pyset_loop toX l [] = Ok vs -> set_from_py fromX eqb (PSet vs) = Ok l.
  Proof.
    intros Hnd Hlaw H. unfold set_from_py. cbn.
    assert (HF := pyset_images l [] [] vs Hnd (Forall2_nil _) Hlaw H). cbn in HF.
    exact (set_back l [] vs HF Hlaw Hnd).
  Qed.

  (* maps *)
  Definition kv_rel (c : X * Y) (p : pyval * pyval) : Prop :=
    toX (fst c) = Ok (fst p) /\ toY (snd c) = Ok (snd p).

  Lemma dict_set_fresh k v d :
    (forall k' v', In (k', v') d -> pyeqb k k' = false) -> dict_set k v d = d ++ [(k, v)].
  Proof.
    induction d as [|[k' v'] d IH]; cbn; intros H; [reflexivity|].
    rewrite (H k' v' (or_introl eq_refl)). f_equal. apply IH.
    intros k2 v2 Hin. apply (H k2 v2). right; exact Hin.
  Qed.

  Lemma pydict_images (kv accl : list (X * Y)) (accd d : list (pyval * pyval)) :
    NoDup (map fst (accl ++ kv)) ->
    Forall2 kv_rel accl accd ->
    (forall k v, In k (map fst (accl ++ kv)) -> toX k = Ok v -> fromX v = Ok k) ->
    pydict_loop toX toY kv accd = Ok d ->
    Forall2 kv_rel (accl ++ kv) d.
  Proof.
    revert accl accd. induction kv as [|[k y] r IH]; intros accl accd Hnd Hacc Hlaw H; cbn in H.
    - inversion H; subst. rewrite app_nil_r. exact Hacc.
    - destruct (toY y) as [pv|e] eqn:Hy; [|discriminate].
      destruct (toX k) as [pk|e] eqn:Hk; [|discriminate].
      destruct (hashable pk); [|discriminate].
      assert (Hfresh : forall k' v', In (k', v') accd -> pyeqb pk k' = false).
      { intros k' v' Hin. destruct (pyeqb pk k') eqn:He; [|reflexivity]. exfalso.
        apply pyeqb_sound in He. subst k'.
        assert (exists c, In c accl /\ toX (fst c) = Ok pk) as (c & Hc & Hcp).
        { clear - Hacc Hin. induction Hacc as [|c0 p0 la lp H0 H1 IH]; [destruct Hin|].
          destruct Hin as [Hin|Hin].
          - exists c0. split; [left; reflexivity|]. destruct H0 as [H0 _]. rewrite Hin in H0. exact H0.
          - destruct (IH Hin) as (c & Hc & Hcp). exists c. split; [right; exact Hc|exact Hcp]. }
        assert (Hin1 : In (fst c) (map fst (accl ++ (k, y) :: r))).
        { rewrite map_app. apply in_app_iff. left. apply in_map. exact Hc. }
        assert (Hin2 : In k (map fst (accl ++ (k, y) :: r))).
        { rewrite map_app. apply in_app_iff. right. left. reflexivity. }
        assert (E1 : fromX pk = Ok (fst c)) by (apply Hlaw; assumption).
        assert (E2 : fromX pk = Ok k) by (apply Hlaw; assumption).
        assert (E3 : fst c = k) by congruence.
        rewrite map_app in Hnd. cbn in Hnd. apply NoDup_remove_2 in Hnd. apply Hnd.
        apply in_app_iff. left. rewrite <- E3. apply in_map. exact Hc. }
      rewrite (dict_set_fresh _ _ _ Hfresh) in H.
      replace (accl ++ (k, y) :: r) with ((accl ++ [(k, y)]) ++ r) by (rewrite <- app_assoc; reflexivity).
      apply IH with (accd := accd ++ [(pk, pv)]).
      + rewrite <- app_assoc. exact Hnd.
      + apply Forall2_app; [exact Hacc|]. constructor; [split; assumption|constructor].
      + rewrite <- app_assoc. exact Hlaw.
      + exact H.
  Qed.

  Lemma map_back (kv accl : list (X * Y)) (d : list (pyval * pyval)) :
    Forall2 kv_rel kv d ->
    (forall c p, In c kv -> kv_rel c p -> fromX (fst p) = Ok (fst c) /\ fromY (snd p) = Ok (snd c)) ->
    NoDup (map fst (accl ++ kv)) ->
    map_loop fromX fromY eqb d accl = Ok (accl ++ kv).
  Proof.
    intros HF. revert accl. induction HF as [|c p kv d Hcp HF IH]; intros accl Hlaw Hnd; cbn.
    - rewrite app_nil_r. reflexivity.
    - destruct p as [pk pv]. destruct c as [k y].
      destruct (Hlaw (k, y) (pk, pv) (or_introl eq_refl) Hcp) as [Hk Hy]. cbn in Hk, Hy.
      rewrite Hk, Hy. unfold map_insert.
      destruct (existsb (fun p => eqb k (fst p)) accl) eqn:He.
      + exfalso. apply existsb_exists in He. destruct He as (a & Ha & Hka). apply eqb_sound in Hka.
        rewrite map_app in Hnd. cbn in Hnd. apply NoDup_remove_2 in Hnd. apply Hnd.
        apply in_app_iff. left. rewrite Hka. apply in_map. exact Ha.
      + replace (accl ++ (k, y) :: kv) with ((accl ++ [(k, y)]) ++ kv) by (rewrite <- app_assoc; reflexivity).
        apply IH.
        * intros c p Hin. apply Hlaw. right; exact Hin.
        * rewrite <- app_assoc. exact Hnd.
  Qed.

  (* C map -> Python dict -> C map is the identity *)
  Theorem map_roundtrip kv d :
    NoDup (map fst kv) ->
    (forall k v, In k (map fst kv) -> toX k = Ok v -> fromX v = Ok k) ->
    (forall y v, In y (map snd kv) -> toY y = Ok v -> fromY v = Ok y) ->
    pydict_loop toX toY kv [] = Ok d -> map_from_py fromX fromY eqb (PDict d) = Ok kv.
  Proof.
    intros Hnd HlK HlV H. unfold map_from_py. cbn.
    assert (HF := pydict_images kv [] [] d Hnd (Forall2_nil _) HlK H). cbn in HF.
    apply (map_back kv [] d HF); [|exact Hnd].
    intros c p Hin [H1 H2]. split.
    - apply HlK; [apply in_map; exact Hin|exact H1].
    - apply HlV; [apply in_map; exact Hin|exact H2].
  Qed.

  Definition conv_kv (p : pyval * pyval) : res (X * Y) :=
    match fromX (fst p) with
    | Err e => Err e
    | Ok k => match fromY (snd p) with Err e => Err e | Ok y => Ok (k, y) end
    end.

  (* key before value, entries in dict order; the first failure decides *)
  Lemma map_loop_err kvs acc e :
    map_loop fromX fromY eqb kvs acc = Err e <-> mapM conv_kv kvs = Err e.
  Proof.
    revert acc. induction kvs as [|[k v] r IH]; intros acc; cbn.
    - split; discriminate.
    - unfold conv_kv at 1. cbn. destruct (fromX k) as [ck|e'] eqn:Hk; [|tauto].
      destruct (fromY v) as [cv|e'] eqn:Hv; [|tauto].
      rewrite IH. destruct (mapM conv_kv r); split; intros H; try discriminate; try exact H;
        inversion H; reflexivity.
  Qed.

  Theorem pair_roundtrip x y px py :
    fromX px = Ok x -> fromY py = Ok y ->
    pair_from_py fromX fromY (PTuple [px; py]) = Ok (x, y).
  Proof. intros H1 H2. unfold pair_from_py. cbn. rewrite H1, H2. reflexivity. Qed.

  Theorem pair_error_order v a b e :
    unpack2 v = Ok (a, b) ->
    (pair_from_py fromX fromY v = Err e <->
     fromX a = Err e \/ (exists x, fromX a = Ok x) /\ fromY b = Err e).
  Proof.
    intros Hu. unfold pair_from_py. rewrite Hu. destruct (fromX a) as [x|e1].
    - destruct (fromY b) as [y|e2]; split.
      + discriminate.
      + intros [H|[_ H]]; discriminate.
      + intros H. right. split; [eauto|]. inversion H; reflexivity.
      + intros [H|[_ H]]; [discriminate|]. inversion H; reflexivity.
    - split.
      + intros H. left. inversion H; reflexivity.
      + intros [H|[[x H] _]]; [inversion H; reflexivity|discriminate].
  Qed.

  (* C arrays *)
  Lemma arr_loop_spec n items :
    arr_loop fromX n items =
    match mapM fromX (firstn n items) with
    | Err e => Err e
    | Ok xs => if Nat.eqb (length items) n then Ok xs
               else if Nat.ltb n (length items) then Err IndexTooMany else Err IndexNotEnough
    end.
  Proof.
    revert n. induction items as [|it r IH]; intros [|m]; cbn; try reflexivity.
    destruct (fromX it) as [x|e]; [|reflexivity].
    rewrite IH. destruct (mapM fromX (firstn m r)) as [xs|e]; [|reflexivity].
    unfold Nat.ltb. cbn.
    destruct (Nat.eqb (length r) m); [reflexivity|].
    destruct (length r) as [|l']; [reflexivity|]. destruct (Nat.leb m l'); reflexivity.
  Qed.

  Lemma py_len_items v m :
    py_len v = Some m -> exists items, iter_items v = Ok items /\ length items = m.
  Proof.
    destruct v; cbn; intros H; inversion H; subst; eexists; split; try reflexivity;
      rewrite ?map_length; reflexivity.
  Qed.

  (* a result is produced only from exactly n items, all converted *)
  Theorem arr_exact n v xs :
    arr_from_py fromX n v = Ok xs ->
    exists items, iter_items v = Ok items /\ length items = n /\ mapM fromX items = Ok xs.
  Proof.
    unfold arr_from_py. intros H.
    assert (G : arr_run fromX n v = Ok xs ->
                exists items, iter_items v = Ok items /\ length items = n /\ mapM fromX items = Ok xs).
    { unfold arr_run. destruct (iter_items v) as [items|e]; [|discriminate].
      destruct items as [|i0 ir].
      - destruct n; [|discriminate]. intros E. inversion E. exists []. auto.
      - rewrite arr_loop_spec. destruct (mapM fromX (firstn n (i0 :: ir))) as [ys|e] eqn:Hm; [|discriminate].
        destruct (Nat.eqb (length (i0 :: ir)) n) eqn:Hl.
        + apply Nat.eqb_eq in Hl. intros E. inversion E; subst ys. exists (i0 :: ir).
          split; [reflexivity|]. split; [exact Hl|]. rewrite <- Hl in Hm. rewrite firstn_all in Hm. exact Hm.
        + destruct (Nat.ltb n (length (i0 :: ir))); discriminate. }
    destruct (py_len v) as [m|]; [|exact (G H)].
    destruct (Nat.eqb m n); [exact (G H)|]. destruct (Nat.leb n m); discriminate.
  Qed.

  Theorem arr_wrong_length_raises n v items :
    iter_items v = Ok items -> length items <> n -> exists e, arr_from_py fromX n v = Err e.
  Proof.
    intros Hi Hl. destruct (arr_from_py fromX n v) as [xs|e] eqn:H; [|eauto].
    exfalso. destruct (arr_exact _ _ _ H) as (items' & H1 & H2 & _). congruence.
  Qed.

  Theorem arr_roundtrip n (l : list X) vs :
    length l = n -> (forall x v, In x l -> toX x = Ok v -> fromX v = Ok x) ->
    mapM toX l = Ok vs -> arr_from_py fromX n (PList vs) = Ok l.
  Proof.
    intros Hn Hlaw H. apply mapM_Forall2 in H.
    assert (Hlen : length vs = n) by (rewrite <- Hn; symmetry; eapply Forall2_len; eauto).
    assert (Hback : mapM fromX vs = Ok l) by (eapply Forall2_law_inv; eauto).
    unfold arr_from_py. cbn. rewrite Hlen, Nat.eqb_refl. unfold arr_run. cbn.
    destruct vs as [|v0 vr].
    - cbn in Hback. inversion Hback. subst. cbn. reflexivity.
    - rewrite arr_loop_spec. rewrite <- Hlen at 1. rewrite firstn_all, Hback, Hlen, Nat.eqb_refl. reflexivity.
  Qed.
End GenericProofs.

(* ---------- strings ---------- *)

Definition codec_law (e : senc) : Prop :=
  forall b s, decode_with e b = Ok s -> encode_with e s = Ok b.

Lemma ascii_codec_law : codec_law EAscii.
Proof.
  intros b s. cbn. destruct (all_ascii b) eqn:Ha; [|discriminate].
  intros H. inversion H; subst. rewrite Ha. reflexivity.
Qed.

(* --- the str object: the ascii flag is "every code point below 128" --- *)
Lemma is_ascii_all s : is_ascii s = all_ascii s.
Proof.
  unfold is_ascii. induction s as [|c r IH]; [reflexivity|].
  cbn [maxchar fold_right all_ascii forallb]. fold (maxchar r). fold (all_ascii r).
  rewrite <- IH. destruct (N.ltb_spec c 128), (N.ltb_spec (maxchar r) 128); cbn [andb]; lia.
Qed.

Lemma kind1_not_ascii : exists s, kind_of s = K1BYTE /\ is_ascii s = false.
Proof. exists [233%N]. split; reflexivity. Qed.

(* --- sizes of the UTF-8 form --- *)
Lemma ns_zs l : ns (zs l) = l.
Proof. unfold ns, zs. rewrite map_map. rewrite <- (map_id l) at 2. apply map_ext. intros a. apply N2Z.id. Qed.

Lemma utf8_ref_ascii c : (c < 128)%N -> ns (M_IntFmt.utf8_ref (Z.of_N c)) = [c].
Proof.
  intros H. unfold M_IntFmt.utf8_ref. replace (Z.of_N c <? 128) with true by lia.
  cbn [ns map]. rewrite N2Z.id. reflexivity.
Qed.

Lemma utf8_ref_length z : 128 <= z -> (2 <= length (M_IntFmt.utf8_ref z))%nat.
Proof.
  intros H. unfold M_IntFmt.utf8_ref. replace (z <? 128) with false by lia.
  destruct (z <? 2048); [cbn; lia|]. destruct (z <? 65536); cbn; lia.
Qed.

Lemma enc1_ascii c : (c < 128)%N -> utf8_enc1 c = Some [c].
Proof.
  intros H. unfold utf8_enc1, encodable, is_surrogate.
  replace ((c <? 1114112)%N && negb ((55296 <=? c)%N && (c <=? 57343)%N)) with true by lia.
  rewrite (utf8_ref_ascii c H). reflexivity.
Qed.

Lemma enc1_length c bs : utf8_enc1 c = Some bs ->
  (1 <= length bs)%nat /\ (length bs = 1%nat <-> (c < 128)%N).
Proof.
  destruct (N.ltb_spec c 128) as [L|G].
  - rewrite (enc1_ascii c L). intros [= <-]. cbn. lia.
  - unfold utf8_enc1. destruct (encodable c); [|discriminate]. intros [= <-].
    unfold ns. rewrite map_length. pose proof (utf8_ref_length (Z.of_N c)). lia.
Qed.

Lemma utf8_encode_ascii s : all_ascii s = true -> utf8_encode s = Ok s.
Proof.
  induction s as [|c r IH]; [reflexivity|]. cbn [all_ascii forallb]. fold (all_ascii r).
  intros H. apply andb_prop in H as [Hc Hr]. cbn [utf8_encode].
  rewrite (enc1_ascii c) by lia. rewrite (IH Hr). reflexivity.
Qed.

Lemma utf8_encode_length s : forall b, utf8_encode s = Ok b ->
  (length s <= length b)%nat /\ (length s = length b <-> all_ascii s = true).
Proof.
  induction s as [|c r IH]; intros b; cbn [utf8_encode].
  - intros [= <-]. cbn. split; [lia|]. split; reflexivity.
  - destruct (utf8_enc1 c) as [bs|] eqn:E1; [|discriminate].
    destruct (utf8_encode r) as [t|] eqn:Er; [|discriminate]. intros [= <-].
    destruct (enc1_length c bs E1) as [L1 L2]. destruct (IH t eq_refl) as [M1 M2].
    rewrite app_length. cbn [length all_ascii forallb]. fold (all_ascii r). split; [lia|].
    rewrite andb_true_iff. destruct (N.ltb_spec c 128); split; intros; lia.
Qed.

Lemma firstn_length_all {A} (l : list A) : firstn (length l) l = l.
Proof. apply firstn_all. Qed.

(* --- the C helper computes CPython's s.encode(E) and reports the number of BYTES ---
   all strings; Full API and Limited API with the NULL check; the Limited API as it is
   (Limited false) on the strings PyUnicode_AsUTF8AndSize accepts (see asas_limited_refuted) *)
Definition api_exact (a : api) (e : senc) (s : list N) : Prop :=
  a = Limited false -> e = EAscii -> exists b, utf8_encode s = Ok b.

Lemma utf8_encode_error s x : utf8_encode s = Err x -> x = UnicodeEncodeError.
Proof.
  revert x. induction s as [|c r IH]; cbn [utf8_encode]; [discriminate|].
  intros x. destruct (utf8_enc1 c); [|intros [= <-]; reflexivity].
  destruct (utf8_encode r); [discriminate|]. intros [= <-]. apply (IH e). reflexivity.
Qed.

Theorem asas_spec a e s : str_accepts_unicode e = true -> api_exact a e s ->
  unicode_asas a e s = rmap (fun b => (b, length b)) (encode_with e s).
Proof.
  destruct e; try discriminate; intros _ Hx; unfold unicode_asas, py_as_utf8; cbn [encode_with cd_enc ascii_codec utf8_codec].
  2: reflexivity.
  destruct a as [|checked].
  - rewrite is_ascii_all. destruct (all_ascii s) eqn:A; [|reflexivity].
    rewrite (utf8_encode_ascii s A). reflexivity.
  - destruct (utf8_encode s) as [b|x] eqn:E.
    + destruct (utf8_encode_length s b E) as [_ H]. destruct (all_ascii s) eqn:A.
      * rewrite (utf8_encode_ascii s A) in E. injection E as <-. rewrite Nat.eqb_refl. reflexivity.
      * destruct (Nat.eqb_spec (length s) (length b)) as [Q|Q]; [|reflexivity].
        apply H in Q. discriminate.
    + destruct (all_ascii s) eqn:A; [rewrite (utf8_encode_ascii s A) in E; discriminate|].
      destruct checked.
      * rewrite (utf8_encode_error s x E). reflexivity.
      * destruct (Hx eq_refl eq_refl) as [b Hb]. rewrite E in Hb. discriminate.
Qed.

(* the Limited-API text as it is: a lone surrogate under ascii ends in SystemError *)
Theorem asas_limited_refuted :
  exists s, unicode_asas (Limited false) EAscii s = Err SystemError /\
            encode_with EAscii s = Err UnicodeEncodeError.
Proof. exists [97; 55296]%N. split; reflexivity. Qed.

Definition api_sound (a : api) : Prop := a <> Limited false.
Lemma api_sound_exact a e s : api_sound a -> api_exact a e s.
Proof. intros H E. contradiction. Qed.

Lemma sized_exact b : sized (b, length b) = Ok b.
Proof. unfold sized. cbn [fst snd]. rewrite Nat.leb_refl, firstn_all. reflexivity. Qed.

(* (pointer, length) users see exactly s.encode(E) *)
Theorem as_string_and_size_str a sc s : api_exact a (sc_enc sc) s ->
  as_string_and_size_l a sc (PStr s) = encode_with (sc_enc sc) s.
Proof.
  intros Hx. unfold as_string_and_size_l, obj_asas. destruct (str_accepts_unicode (sc_enc sc)) eqn:A.
  - rewrite (asas_spec a _ s A Hx). destruct (encode_with (sc_enc sc) s); cbn [rmap bind]; [apply sized_exact|reflexivity].
  - destruct (sc_enc sc); try discriminate; reflexivity.
Qed.

(* pointer-only users see the same bytes *)
Theorem charp_from_py_str a sc s : api_exact a (sc_enc sc) s ->
  charp_from_py_l a sc (PStr s) = rmap CBytes (encode_with (sc_enc sc) s).
Proof.
  intros Hx. unfold charp_from_py_l, obj_asas. destruct (str_accepts_unicode (sc_enc sc)) eqn:A.
  - rewrite (asas_spec a _ s A Hx). destruct (encode_with (sc_enc sc) s); reflexivity.
  - destruct (sc_enc sc); try discriminate; reflexivity.
Qed.

Lemma as_string_and_size_bytes a sc b :
  as_string_and_size_l a sc (PBytes b) = Ok b /\ as_string_and_size_l a sc (PByteArray b) = Ok b.
Proof. unfold as_string_and_size_l, obj_asas. cbn [bind]. rewrite sized_exact. split; reflexivity. Qed.

Lemma full_exact e s : api_exact Full e s.
Proof. intros H. discriminate. Qed.

(* the Limited-API variant of the helper (with the NULL check) is observably the same function;
   as it is, it is the same on every argument but a str with a lone surrogate under ascii *)
Theorem limited_api_agrees a sc v :
  (forall s, v = PStr s -> api_exact a (sc_enc sc) s) ->
  as_string_and_size_l a sc v = as_string_and_size_l Full sc v /\
  charp_from_py_l a sc v = charp_from_py_l Full sc v.
Proof.
  intros Hx. destruct v; try (split; reflexivity).
  split; [rewrite !as_string_and_size_str|rewrite !charp_from_py_str]; try reflexivity;
    try apply full_exact; apply Hx; reflexivity.
Qed.

(* std::string is length based in both directions: C -> Python -> C is exact for every byte
   string (embedded NULs included) whenever the text codec inverts its own decoding *)
Theorem string_to_from sc b v :
  (sc_type sc = SUnicode -> codec_law (sc_enc sc)) ->
  string_to_py sc (CBytes b) = Ok v -> string_from_py sc v = Ok (CBytes b).
Proof.
  intros Hc. unfold string_to_py, from_string_and_size, string_from_py, string_from_py_l.
  destruct (sc_type sc); cbn.
  - intros H; inversion H. rewrite (proj1 (as_string_and_size_bytes Full sc b)). reflexivity.
  - intros H; inversion H. rewrite (proj2 (as_string_and_size_bytes Full sc b)). reflexivity.
  - destruct (decode_with (sc_enc sc) b) as [s|e] eqn:Hd; cbn; intros H; inversion H; subst.
    rewrite as_string_and_size_str by apply full_exact. rewrite (Hc eq_refl _ _ Hd). reflexivity.
Qed.

Theorem string_bytes_roundtrip sc b :
  sc_type sc = SBytes -> string_roundtrip sc (PBytes b) = Ok (PBytes b).
Proof.
  intros H. unfold string_roundtrip, string_roundtrip_l, string_from_py_l, string_to_py, from_string_and_size.
  rewrite (proj1 (as_string_and_size_bytes Full sc b)). cbn. rewrite H. reflexivity.
Qed.

(* c_string_type=str with a non ascii/utf8 encoding: what to_py produces is refused by from_py *)
Theorem string_latin1_raises sc b v :
  sc_type sc = SUnicode -> sc_enc sc = ELatin1 ->
  string_to_py sc (CBytes b) = Ok v -> string_from_py sc v = Err TypeError.
Proof.
  intros Ht He. unfold string_to_py, from_string_and_size, string_from_py, string_from_py_l. rewrite Ht, He. cbn.
  intros H; inversion H; subst. rewrite as_string_and_size_str by apply full_exact. rewrite He. reflexivity.
Qed.

Lemma until_nul_id b : ~ In 0%N b -> until_nul b = b.
Proof.
  induction b as [|x r IH]; cbn; intros H; [reflexivity|].
  destruct (N.eqb x 0) eqn:E.
  - apply N.eqb_eq in E. exfalso. apply H. left. exact E.
  - f_equal. apply IH. intros Hin. apply H. right. exact Hin.
Qed.

Lemma until_nul_cut b1 b2 : ~ In 0%N b1 -> until_nul (b1 ++ 0%N :: b2) = b1.
Proof.
  induction b1 as [|x r IH]; cbn; intros H; [reflexivity|].
  destruct (N.eqb x 0) eqn:E.
  - apply N.eqb_eq in E. exfalso. apply H. left. exact E.
  - f_equal. apply IH. intros Hin. apply H. right. exact Hin.
Qed.

(* char*: exact on NUL-free byte strings ... *)
Theorem charp_nul_free_roundtrip sc b :
  sc_type sc = SBytes -> ~ In 0%N b -> charp_roundtrip sc (PBytes b) = Ok (PBytes b).
Proof.
  intros Ht Hn. unfold charp_roundtrip, charp_roundtrip_l, charp_from_py_l, charp_to_py, from_string_and_size. cbn.
  rewrite Ht, (until_nul_id b Hn). reflexivity.
Qed.

(* ... and silently cut at the first NUL otherwise *)
Theorem charp_truncates sc b1 b2 :
  sc_type sc = SBytes -> ~ In 0%N b1 ->
  charp_roundtrip sc (PBytes (b1 ++ 0%N :: b2)) = Ok (PBytes b1).
Proof.
  intros Ht Hn. unfold charp_roundtrip, charp_roundtrip_l, charp_from_py_l, charp_to_py, from_string_and_size. cbn.
  rewrite Ht, (until_nul_cut b1 b2 Hn). reflexivity.
Qed.

Theorem charp_roundtrip_refuted :
  exists sc b r, charp_roundtrip sc (PBytes b) = Ok (PBytes r) /\ r <> b.
Proof.
  exists {| sc_type := SBytes; sc_enc := ENone |}, [97; 0; 98]%N, [97]%N.
  split; [reflexivity|discriminate].
Qed.

(* char* C -> Python -> C: exact for every NUL-free buffer *)
Theorem charp_to_from sc b v :
  (sc_type sc = SUnicode -> codec_law (sc_enc sc)) -> ~ In 0%N b ->
  charp_to_py sc (CBytes b) = Ok v -> charp_from_py sc v = Ok (CBytes b).
Proof.
  intros Hc Hn. unfold charp_to_py. rewrite (until_nul_id b Hn).
  unfold from_string_and_size, charp_from_py.
  destruct (sc_type sc); cbn.
  - intros H; inversion H. reflexivity.
  - intros H; inversion H. reflexivity.
  - destruct (decode_with (sc_enc sc) b) as [s|e] eqn:Hd; cbn; intros H; inversion H; subst.
    rewrite charp_from_py_str by apply full_exact. rewrite (Hc eq_refl _ _ Hd). reflexivity.
Qed.

(* ---------- struct from dict ---------- *)

Lemma lookup_all_ext names d1 d2 :
  (forall n, In n names -> dict_get n d1 = dict_get n d2) ->
  lookup_all names (PDict d1) = lookup_all names (PDict d2).
Proof.
  unfold lookup_all. induction names as [|n r IH]; intros H; cbn [mapM]; [reflexivity|].
  assert (E : getitem_str n (PDict d1) = getitem_str n (PDict d2)).
  { cbn. rewrite (H n (or_introl eq_refl)). reflexivity. }
  rewrite E. rewrite IH; [reflexivity|].
  intros n' Hin. apply H. right. exact Hin.
Qed.

(* only the member keys of the dict matter: any other key is ignored *)
Theorem struct_only_member_keys sc fs d1 d2 :
  (forall n, In n (field_names fs) -> dict_get n d1 = dict_get n d2) ->
  from_py sc (TStruct fs) (PDict d1) = from_py sc (TStruct fs) (PDict d2).
Proof. intros H. cbn. rewrite (lookup_all_ext _ d1 d2 H). reflexivity. Qed.

Lemma lookup_all_missing names d :
  (exists n, In n names /\ dict_get n d = None) -> lookup_all names (PDict d) = Err ValueError.
Proof.
  unfold lookup_all. induction names as [|n0 r IH]; intros (n & Hin & Hn); [destruct Hin|].
  cbn [mapM]. destruct (dict_get n0 d) as [x|] eqn:H0.
  - assert (E : getitem_str n0 (PDict d) = Ok x) by (cbn; rewrite H0; reflexivity).
    rewrite E. destruct Hin as [->|Hin]; [congruence|].
    rewrite IH; [reflexivity|]. exists n. auto.
  - assert (E : getitem_str n0 (PDict d) = Err ValueError) by (cbn; rewrite H0; reflexivity).
    rewrite E. reflexivity.
Qed.

Lemma lookup_all_present names d :
  (forall n, In n names -> dict_get n d <> None) -> exists vals, lookup_all names (PDict d) = Ok vals.
Proof.
  unfold lookup_all. induction names as [|n0 r IH]; intros H; cbn [mapM]; [eauto|].
  destruct (dict_get n0 d) as [x|] eqn:H0; [|exfalso; apply (H n0 (or_introl eq_refl)); exact H0].
  assert (E : getitem_str n0 (PDict d) = Ok x) by (cbn; rewrite H0; reflexivity).
  destruct IH as (vals & Hv); [intros n Hin; apply H; right; exact Hin|].
  rewrite E, Hv. eauto.
Qed.

(* a missing member key is always a ValueError, whatever else the dict holds and whatever the
   other members convert to (all lookups precede all conversions) *)
Theorem struct_missing_key_raises sc fs d n :
  In n (field_names fs) -> dict_get n d = None ->
  from_py sc (TStruct fs) (PDict d) = Err ValueError.
Proof. intros Hin Hn. cbn. rewrite lookup_all_missing; [reflexivity|]. exists n. auto. Qed.

(* with all member keys present no key error is raised: the outcome is that of the member
   conversions on the looked-up values *)
Theorem struct_keys_present sc fs d :
  (forall n, In n (field_names fs) -> dict_get n d <> None) ->
  exists vals, lookup_all (field_names fs) (PDict d) = Ok vals /\
               from_py sc (TStruct fs) (PDict d) = from_py sc fs (PTuple vals).
Proof.
  intros H. destruct (lookup_all_present _ _ H) as (vals & Hv). exists vals. split; [exact Hv|].
  cbn. rewrite Hv. reflexivity.
Qed.

(* the property text says wrong keys raise; an extra key does not *)
Theorem struct_extra_key_refuted :
  exists sc fs d extra, dict_get extra d <> None /\ ~ In extra (field_names fs) /\
                        exists c, from_py sc (TStruct fs) (PDict d) = Ok c.
Proof.
  exists {| sc_type := SBytes; sc_enc := ENone |},
         (FCons [97%N] (TLeaf (LInt 32 true)) FNil),
         [(PStr [97%N], PInt 1); (PStr [122%N], PInt 2)], [122%N].
  split; [cbn; discriminate|]. split.
  - cbn. intros [H|[]]. discriminate.
  - eexists. vm_compute. reflexivity.
Qed.

(* std::map from a non-dict: AttributeError, not TypeError *)
Theorem map_nonmapping_refuted :
  exists sc t v, from_py sc t v = Err AttributeError.
Proof.
  exists {| sc_type := SBytes; sc_enc := ENone |},
         (TMap (TLeaf (LInt 32 true)) (TLeaf (LInt 32 true))), (PList []).
  vm_compute. reflexivity.
Qed.

(* ---------- nested types: induction on the type structure ---------- *)

Fixpoint is_fields (fs : ctype) : bool :=
  match fs with FNil => true | FCons _ _ r => is_fields r | _ => false end.

(* well-formed C value of a type (what C++ itself guarantees: ranges, distinct set elements and
   map keys, array extents); unions are excluded *)
Fixpoint wf (sc : scfg) (t : ctype) (c : cval) {struct t} : Prop :=
  match t with
  | TLeaf (LInt w sg) => exists z, c = CInt z /\ in_range w sg z
  | TLeaf LDouble => exists d, c = CDouble d
  | TLeaf LString => exists b, c = CBytes b
  | TLeaf LCharp => exists b, c = CBytes b /\ ~ In 0%N b
  | TVector e | TCppList e => exists l, c = CSeq l /\ Forall (wf sc e) l
  | TArray n e => exists l, c = CSeq l /\ length l = n /\ Forall (wf sc e) l
  | TSet e | TUSet e => rigid e = true /\ exists l, c = CSet l /\ NoDup l /\ Forall (wf sc e) l
  | TMap k e | TUMap k e =>
      rigid k = true /\ exists kv, c = CMap kv /\ NoDup (map fst kv) /\
        Forall (wf sc k) (map fst kv) /\ Forall (wf sc e) (map snd kv)
  | TPair a b => exists x y, c = CSeq [x; y] /\ wf sc a x /\ wf sc b y
  | TCTuple fs => is_fields fs = true /\ wf sc fs c
  | TStruct fs => is_fields fs = true /\ NoDup (field_names fs) /\ wf sc fs c
  | TUnion _ => False
  | FNil => c = CSeq []
  | FCons _ ft r => exists x xs, c = CSeq (x :: xs) /\ wf sc ft x /\ wf sc r (CSeq xs)
  end.

Lemma dict_get_app n a b :
  dict_get n (a ++ b) = match dict_get n a with Some x => Some x | None => dict_get n b end.
Proof.
  induction a as [|[k v] a IH]; cbn; [reflexivity|]. destruct (key_is n k); [reflexivity|exact IH].
Qed.

Lemma list_eqb_N_refl a : list_eqb N.eqb a a = true.
Proof. induction a as [|x a IH]; cbn; [reflexivity|]. rewrite N.eqb_refl. exact IH. Qed.

Lemma lookup_combine_gen names : forall vals d0,
  NoDup names -> length vals = length names ->
  (forall n, In n names -> dict_get n d0 = None) ->
  mapM (fun n => getitem_str n (PDict (d0 ++ combine (map PStr names) vals))) names = Ok vals.
Proof.
  induction names as [|n r IH]; intros vals d0 Hnd Hlen Hd0.
  - destruct vals; [reflexivity|discriminate].
  - destruct vals as [|v vr]; [discriminate|]. cbn [mapM map combine].
    assert (E : getitem_str n (PDict (d0 ++ (PStr n, v) :: combine (map PStr r) vr)) = Ok v).
    { cbn [getitem_str]. rewrite dict_get_app, (Hd0 n (or_introl eq_refl)). cbn [dict_get key_is].
      rewrite list_eqb_N_refl. reflexivity. }
    rewrite E.
    replace (d0 ++ (PStr n, v) :: combine (map PStr r) vr)
      with ((d0 ++ [(PStr n, v)]) ++ combine (map PStr r) vr) by (rewrite <- app_assoc; reflexivity).
    rewrite IH; [reflexivity| | |].
    + inversion Hnd; assumption.
    + cbn in Hlen. injection Hlen as Hlen. exact Hlen.
    + intros n' Hin. rewrite dict_get_app, (Hd0 n' (or_intror Hin)). cbn [dict_get key_is].
      destruct (list_eqb N.eqb n n') eqn:E2; [|reflexivity].
      apply list_eqb_N_sound in E2. subst n'. inversion Hnd; contradiction.
Qed.

Lemma lookup_combine names vals :
  NoDup names -> length vals = length names ->
  lookup_all names (PDict (combine (map PStr names) vals)) = Ok vals.
Proof.
  intros Hnd Hlen. unfold lookup_all.
  apply (lookup_combine_gen names vals [] Hnd Hlen). intros n _. reflexivity.
Qed.

Lemma nfields_names fs : nfields fs = length (field_names fs).
Proof. induction fs; cbn; auto. Qed.

Lemma fields_shape sc fs : forall c pv,
  is_fields fs = true -> to_py sc fs c = Ok pv ->
  exists vals, pv = PTuple vals /\ length vals = nfields fs.
Proof.
  induction fs; intros c pv Hf H; cbn [is_fields] in Hf; try discriminate.
  - cbn [to_py] in H. destruct c as [| | |l| | |]; try discriminate. destruct l; [|discriminate].
    inversion H. exists []. auto.
  - cbn [to_py] in H. destruct c as [| | |l| | |]; try discriminate. destruct l as [|x xs]; [discriminate|].
    destruct (to_py sc fs1 x) as [p|]; [|discriminate].
    destruct (to_py sc fs2 (CSeq xs)) as [pr|] eqn:Hr; [|discriminate].
    destruct (IHfs2 _ _ Hf Hr) as (vals & -> & Hl). cbn in H. inversion H.
    exists (p :: vals). cbn. auto.
Qed.

(* C -> Python -> C is the identity on every well-formed value of every (nested) type *)
Theorem to_from sc :
  (sc_type sc = SUnicode -> codec_law (sc_enc sc)) ->
  forall t c v, wf sc t c -> to_py sc t c = Ok v -> from_py sc t v = Ok c.
Proof.
  intros Hc. induction t; intros c v Hwf Hto.
  - (* leaf *) destruct l as [w sg| | |].
    + destruct Hwf as (z & -> & Hr). cbn in Hto. inversion Hto; subst.
      cbn [from_py leaf_from_py int_from_py]. apply in_rangeb_spec in Hr. rewrite Hr. reflexivity.
    + destruct Hwf as (d & ->). cbn in Hto. inversion Hto; subst. reflexivity.
    + destruct Hwf as (b & ->). cbn [to_py leaf_to_py] in Hto. cbn [from_py leaf_from_py].
      eapply string_to_from; eauto.
    + destruct Hwf as (b & -> & Hn). cbn [to_py leaf_to_py] in Hto. cbn [from_py leaf_from_py].
      eapply charp_to_from; eauto.
  - (* vector *) destruct Hwf as (l & -> & HF). cbn [to_py] in Hto.
    destruct (mapM (to_py sc t) l) as [vs|] eqn:Hm; cbn in Hto; inversion Hto; subst.
    cbn [from_py]. rewrite (seq_roundtrip (from_py sc t) (to_py sc t) l vs); [reflexivity| |exact Hm].
    intros x v' Hin Hx. apply IHt; [|exact Hx]. rewrite Forall_forall in HF. apply HF; exact Hin.
  - (* std::list *) destruct Hwf as (l & -> & HF). cbn [to_py] in Hto.
    destruct (mapM (to_py sc t) l) as [vs|] eqn:Hm; cbn in Hto; inversion Hto; subst.
    cbn [from_py]. rewrite (seq_roundtrip (from_py sc t) (to_py sc t) l vs); [reflexivity| |exact Hm].
    intros x v' Hin Hx. apply IHt; [|exact Hx]. rewrite Forall_forall in HF. apply HF; exact Hin.
  - (* set *) destruct Hwf as (Hr & l & -> & Hnd & HF). cbn [to_py] in Hto.
    destruct (pyset_loop (to_py sc t) l []) as [vs|] eqn:Hm; cbn in Hto; inversion Hto; subst.
    cbn [from_py]. rewrite Hr.
    rewrite (set_roundtrip (from_py sc t) (to_py sc t) ceqb ceqb_sound l vs Hnd); [reflexivity| |exact Hm].
    intros x v' Hin Hx. apply IHt; [|exact Hx]. rewrite Forall_forall in HF. apply HF; exact Hin.
  - (* unordered_set *) destruct Hwf as (Hr & l & -> & Hnd & HF). cbn [to_py] in Hto.
    destruct (pyset_loop (to_py sc t) l []) as [vs|] eqn:Hm; cbn in Hto; inversion Hto; subst.
    cbn [from_py]. rewrite Hr.
    rewrite (set_roundtrip (from_py sc t) (to_py sc t) ceqb ceqb_sound l vs Hnd); [reflexivity| |exact Hm].
    intros x v' Hin Hx. apply IHt; [|exact Hx]. rewrite Forall_forall in HF. apply HF; exact Hin.
  - (* map *) destruct Hwf as (Hr & kv & -> & Hnd & HK & HV). cbn [to_py] in Hto.
    destruct (pydict_loop (to_py sc t1) (to_py sc t2) kv []) as [d|] eqn:Hm; cbn in Hto; inversion Hto; subst.
    cbn [from_py]. rewrite Hr.
    rewrite (map_roundtrip (from_py sc t1) (to_py sc t1) (from_py sc t2) (to_py sc t2) ceqb ceqb_sound kv d Hnd);
      [reflexivity| | |exact Hm].
    + intros x v' Hin Hx. apply IHt1; [|exact Hx]. rewrite Forall_forall in HK. apply HK; exact Hin.
    + intros x v' Hin Hx. apply IHt2; [|exact Hx]. rewrite Forall_forall in HV. apply HV; exact Hin.
  - (* unordered_map *) destruct Hwf as (Hr & kv & -> & Hnd & HK & HV). cbn [to_py] in Hto.
    destruct (pydict_loop (to_py sc t1) (to_py sc t2) kv []) as [d|] eqn:Hm; cbn in Hto; inversion Hto; subst.
    cbn [from_py]. rewrite Hr.
    rewrite (map_roundtrip (from_py sc t1) (to_py sc t1) (from_py sc t2) (to_py sc t2) ceqb ceqb_sound kv d Hnd);
      [reflexivity| | |exact Hm].
    + intros x v' Hin Hx. apply IHt1; [|exact Hx]. rewrite Forall_forall in HK. apply HK; exact Hin.
    + intros x v' Hin Hx. apply IHt2; [|exact Hx]. rewrite Forall_forall in HV. apply HV; exact Hin.
  - (* pair *) destruct Hwf as (x & y & -> & Hx & Hy). cbn [to_py] in Hto.
    destruct (to_py sc t1 x) as [px|] eqn:Ha; cbn [bind] in Hto; [|discriminate].
    destruct (to_py sc t2 y) as [py|] eqn:Hb; cbn [bind] in Hto; [|discriminate].
    inversion Hto; subst. cbn [from_py].
    rewrite (pair_roundtrip (from_py sc t1) (from_py sc t2) x y px py (IHt1 _ _ Hx Ha) (IHt2 _ _ Hy Hb)).
    reflexivity.
  - (* C array *) destruct Hwf as (l & -> & Hn & HF). cbn [to_py] in Hto.
    destruct (mapM (to_py sc t) l) as [vs|] eqn:Hm; cbn in Hto; inversion Hto; subst.
    cbn [from_py]. rewrite (arr_roundtrip (from_py sc t) (to_py sc t) (length l) l vs eq_refl); [reflexivity| |exact Hm].
    intros x v' Hin Hx. apply IHt; [|exact Hx]. rewrite Forall_forall in HF. apply HF; exact Hin.
  - (* struct *) destruct Hwf as (Hf & Hnd & Hw). cbn [to_py] in Hto.
    destruct (to_py sc t c) as [pv|] eqn:Hfs; [|discriminate].
    destruct (fields_shape sc t c pv Hf Hfs) as (vals & -> & Hl). cbn in Hto. inversion Hto; subst.
    cbn [from_py mapping_check]. rewrite nfields_names in Hl.
    rewrite (lookup_combine _ _ Hnd Hl). cbn [bind]. apply IHt; assumption.
  - (* union *) destruct Hwf.
  - (* ctuple *) destruct Hwf as (Hf & Hw). cbn [to_py] in Hto.
    destruct (fields_shape sc t c v Hf Hto) as (vals & -> & Hl).
    cbn [from_py seq_items]. rewrite Hl, Nat.eqb_refl. apply IHt; assumption.
  - (* FNil *) cbn in Hwf. subst c. cbn in Hto. inversion Hto. reflexivity.
  - (* FCons *) destruct Hwf as (x & xs & -> & Hx & Hr). cbn [to_py] in Hto.
    destruct (to_py sc t1 x) as [p|] eqn:Hp; [|discriminate].
    destruct (to_py sc t2 (CSeq xs)) as [pr|] eqn:Hpr; [|discriminate].
    destruct pr; try discriminate. cbn in Hto. inversion Hto; subst.
    cbn [from_py]. rewrite (IHt1 _ _ Hx Hp). rewrite (IHt2 _ _ Hr Hpr). reflexivity.
Qed.
