(* Proofs about the trace-event model (M_Trace.v). *)
From Coq Require Import List Bool Arith Lia.
From CyVerif Require Import Model.M_Trace.
Import ListNotations.

Scheme node_mind := Induction for node Sort Prop
with items_mind := Induction for items Sort Prop.
Combined Scheme node_mutind from node_mind, items_mind.

(* ---------- parser steps ---------- *)
Lemma parse_start : forall k f r cur stk,
  classify k = CStart -> parse ((k, f) :: r) cur stk = parse r [] ((f, cur) :: stk).
Proof. intros k f r cur stk H. cbn [parse]. rewrite H. reflexivity. Qed.

Lemma parse_end : forall k f r cur saved stk,
  classify k = CEnd ->
  parse ((k, f) :: r) cur ((f, saved) :: stk) = parse r (Sh f (rev cur) :: saved) stk.
Proof. intros k f r cur saved stk H. cbn [parse]. rewrite H, Nat.eqb_refl. reflexivity. Qed.

Lemma parse_other : forall k f r cur saved stk,
  classify k = COther ->
  parse ((k, f) :: r) cur ((f, saved) :: stk) = parse r cur ((f, saved) :: stk).
Proof. intros k f r cur saved stk H. cbn [parse]. rewrite H, Nat.eqb_refl. reflexivity. Qed.

Lemma start_cy_one : forall t s f, exists k, start_cy t s f = [(k, f)] /\ classify k = CStart.
Proof. intros [|] [| | | |] f; cbn; eauto. Qed.

Lemma start_py_one : forall t s f, exists k, start_py t s f = [(k, f)] /\ classify k = CStart.
Proof. intros [|] [| | | |] f; cbn; eauto. Qed.

Lemma end_ev_parse : forall t e f rest cur saved stk,
  parse (end_ev t e f ++ rest) cur ((f, saved) :: stk) = parse rest (Sh f (rev cur) :: saved) stk.
Proof.
  intros [|] e f rest cur saved stk.
  - cbn [end_ev app]. apply parse_end. reflexivity.
  - destruct e; cbn [end_ev app];
      try (apply parse_end; reflexivity).
    rewrite parse_other by reflexivity. apply parse_end. reflexivity.
Qed.

Lemma line_ev_parse : forall lt l f rest cur saved stk,
  parse (line_ev lt l f ++ rest) cur ((f, saved) :: stk) = parse rest cur ((f, saved) :: stk).
Proof.
  intros [|] l f rest cur saved stk; cbn [line_ev app]; [|reflexivity].
  apply parse_other. reflexivity.
Qed.

(* [ok fx] : either the repaired placement, or no return inside try/finally *)
Definition ok_node (fx : bool) (n : node) : Prop := fx = false -> clean n = true.
Definition ok_items (fx : bool) (b : items) : Prop := fx = false -> cleans b = true.

Lemma end_cy_parse : forall t fx e f rest cur saved stk,
  (fx = false -> e <> EPending) ->
  parse (end_cy t fx e f ++ rest) cur ((f, saved) :: stk) = parse rest (Sh f (rev cur) :: saved) stk.
Proof.
  intros t fx e f rest cur saved stk H.
  destruct e; cbn [end_cy]; try apply end_ev_parse.
  destruct fx; [apply end_ev_parse|]. exfalso. apply H; reflexivity.
Qed.

(* ---------- main simulation lemma ---------- *)
Lemma parse_cy_mut : forall t fx lt,
  (forall n, ok_node fx n -> forall rest cur stk,
      parse (ev_cy t fx lt n ++ rest) cur stk = parse rest (shape_of n :: cur) stk) /\
  (forall b, ok_items fx b -> forall f rest cur saved stk,
      parse (evs_cy t fx lt f b ++ rest) cur ((f, saved) :: stk)
      = parse rest (rev (shapes_of b) ++ cur) ((f, saved) :: stk)).
Proof.
  intros t fx lt. apply node_mutind.
  - (* Node *)
    intros f s b IHb e Hok rest cur stk.
    cbn [ev_cy shape_of].
    destruct (start_cy_one t s f) as [k [Hs Hk]]. rewrite Hs.
    cbn [app]. rewrite parse_start by exact Hk.
    rewrite <- app_assoc.
    rewrite IHb.
    + rewrite end_cy_parse.
      * rewrite app_nil_r, rev_involutive. reflexivity.
      * intros Hfx He. specialize (Hok Hfx). cbn [clean] in Hok. subst e.
        rewrite andb_false_r in Hok. discriminate.
    + intros Hfx. specialize (Hok Hfx). cbn [clean] in Hok.
      apply andb_true_iff in Hok. tauto.
  - (* INil *)
    intros _ f rest cur saved stk. reflexivity.
  - (* ICall *)
    intros n IHn r IHr Hok f rest cur saved stk.
    cbn [evs_cy shapes_of]. rewrite <- app_assoc.
    assert (Hn : ok_node fx n /\ ok_items fx r).
    { split; intros Hfx; specialize (Hok Hfx); cbn [cleans] in Hok;
        apply andb_true_iff in Hok; tauto. }
    destruct Hn as [Hn Hr].
    rewrite IHn by exact Hn. rewrite IHr by exact Hr.
    cbn [rev]. rewrite <- app_assoc. reflexivity.
  - (* IRet *)
    intros r IHr Hok f rest cur saved stk.
    cbn [evs_cy shapes_of]. unfold ret_stmt_cy.
    destruct fx.
    + cbn [app]. apply IHr. intros H; discriminate.
    + specialize (Hok eq_refl). cbn [cleans] in Hok. discriminate.
  - (* ILine *)
    intros l r IHr Hok f rest cur saved stk.
    cbn [evs_cy shapes_of]. rewrite <- app_assoc, line_ev_parse.
    apply IHr. intros Hfx. specialize (Hok Hfx). exact Hok.
Qed.

(* The event sequence of every call tree is a Dyck word with matching function ids (and
   every line / raise event names the innermost open activation), and its nesting structure
   is exactly the call tree. *)
Theorem events_well_nested : forall t fx lt n,
  (fx = false -> clean n = true) ->
  parse (ev_cy t fx lt n) [] [] = Some [shape_of n].
Proof.
  intros t fx lt n H.
  rewrite <- (app_nil_r (ev_cy t fx lt n)).
  rewrite (proj1 (parse_cy_mut t fx lt) n H). reflexivity.
Qed.

Corollary events_well_nested_bool : forall t fx lt n,
  (fx = false -> clean n = true) -> well_nested (ev_cy t fx lt n) = true.
Proof. intros. unfold well_nested. rewrite events_well_nested by assumption. reflexivity. Qed.

(* ---------- exactly one start and one end per activation ---------- *)
Lemma count_app : forall c a b, count_class c (a ++ b) = count_class c a + count_class c b.
Proof. intros. unfold count_class. rewrite filter_app, app_length. reflexivity. Qed.

Lemma count_start_cy : forall t s f,
  count_class CStart (start_cy t s f) = 1 /\ count_class CEnd (start_cy t s f) = 0.
Proof. intros [|] [| | | |] f; split; reflexivity. Qed.

Lemma count_end_ev : forall t e f,
  count_class CStart (end_ev t e f) = 0 /\ count_class CEnd (end_ev t e f) = 1.
Proof. intros [|] [| | |] f; split; reflexivity. Qed.

Lemma count_line : forall lt l f c, c <> COther -> count_class c (line_ev lt l f) = 0.
Proof. intros [|] l f [| |] H; try reflexivity. congruence. Qed.

Lemma count_mut : forall t fx lt,
  (forall n, ok_node fx n ->
     count_class CStart (ev_cy t fx lt n) = size n /\ count_class CEnd (ev_cy t fx lt n) = size n) /\
  (forall b, ok_items fx b -> forall f,
     count_class CStart (evs_cy t fx lt f b) = sizes b /\ count_class CEnd (evs_cy t fx lt f b) = sizes b).
Proof.
  intros t fx lt. apply node_mutind.
  - intros f s b IHb e Hok.
    assert (Hb : ok_items fx b).
    { intros Hfx. specialize (Hok Hfx). cbn [clean] in Hok. apply andb_true_iff in Hok. tauto. }
    destruct (IHb Hb f) as [I1 I2].
    destruct (count_start_cy t s f) as [S1 S2].
    assert (E : count_class CStart (end_cy t fx e f) = 0 /\ count_class CEnd (end_cy t fx e f) = 1).
    { destruct e; cbn [end_cy]; try apply count_end_ev.
      destruct fx; [apply count_end_ev|].
      specialize (Hok eq_refl). cbn [clean] in Hok. rewrite andb_false_r in Hok. discriminate. }
    destruct E as [E1 E2].
    cbn [ev_cy size]. rewrite !count_app, I1, I2, S1, S2, E1, E2. split; lia.
  - intros _ f. split; reflexivity.
  - intros n IHn r IHr Hok f.
    assert (Hn : ok_node fx n /\ ok_items fx r).
    { split; intros Hfx; specialize (Hok Hfx); cbn [cleans] in Hok;
        apply andb_true_iff in Hok; tauto. }
    destruct Hn as [Hn Hr].
    destruct (IHn Hn) as [A1 A2]. destruct (IHr Hr f) as [B1 B2].
    cbn [evs_cy sizes]. rewrite !count_app, A1, A2, B1, B2. split; reflexivity.
  - intros r IHr Hok f. destruct fx.
    + cbn [evs_cy sizes]. unfold ret_stmt_cy. cbn [app]. apply IHr. intros H; discriminate.
    + specialize (Hok eq_refl). cbn [cleans] in Hok. discriminate.
  - intros l r IHr Hok f.
    assert (Hr : ok_items fx r) by (intros Hfx; exact (Hok Hfx)).
    destruct (IHr Hr f) as [B1 B2].
    cbn [evs_cy sizes]. rewrite !count_app, B1, B2.
    rewrite !count_line by discriminate. split; reflexivity.
Qed.

Theorem one_start_one_end_per_activation : forall t fx lt n,
  (fx = false -> clean n = true) ->
  count_class CStart (ev_cy t fx lt n) = size n /\ count_class CEnd (ev_cy t fx lt n) = size n.
Proof. intros t fx lt n H. exact (proj1 (count_mut t fx lt) n H). Qed.

(* ---------- the exception event of a raising activation ---------- *)
(* sys.monitoring variant: RAISE comes after everything the activation did (all callee
   events included) and immediately before its PY_UNWIND; the legacy variant sends no
   exception event at all (the __Pyx_TraceException macros are empty). *)
Theorem raise_event_placement : forall fx lt f s b,
  ev_cy Monitoring fx lt (Node f s b ERaise)
  = start_cy Monitoring s f ++ evs_cy Monitoring fx lt f b ++ [(KRaise, f); (KUnwind, f)].
Proof. reflexivity. Qed.

Theorem legacy_no_exception_event : forall fx lt n,
  count_class COther (ev_cy Legacy fx false n) = 0 /\
  (forall f, ~ In (KRaise, f) (ev_cy Legacy fx lt n)).
Proof.
  intros fx lt n. split.
  - revert n.
    assert (H : (forall n, count_class COther (ev_cy Legacy fx false n) = 0) /\
                (forall b f, count_class COther (evs_cy Legacy fx false f b) = 0)).
    { apply node_mutind.
      - intros f s b IHb e. cbn [ev_cy]. rewrite !count_app, IHb.
        destruct e, fx; reflexivity.
      - reflexivity.
      - intros n IHn r IHr f. cbn [evs_cy]. rewrite count_app, IHn, IHr. reflexivity.
      - intros r IHr f. cbn [evs_cy]. rewrite count_app, IHr. destruct fx; reflexivity.
      - intros l r IHr f. cbn [evs_cy]. rewrite count_app, IHr. reflexivity. }
    exact (proj1 H).
  - revert n.
    assert (H : (forall n g, ~ In (KRaise, g) (ev_cy Legacy fx lt n)) /\
                (forall b f g, ~ In (KRaise, g) (evs_cy Legacy fx lt f b))).
    { apply node_mutind.
      - intros f s b IHb e g. cbn [ev_cy]. rewrite !in_app_iff.
        intros [H|[H|H]].
        + cbn in H. destruct H as [H|[]]. discriminate.
        + exact (IHb f g H).
        + destruct e, fx; cbn in H; try (destruct H as [H|[]]; discriminate); exact H.
      - intros f g [].
      - intros n IHn r IHr f g. cbn [evs_cy]. rewrite in_app_iff. intros [H|H]; [exact (IHn g H)|exact (IHr f g H)].
      - intros r IHr f g. cbn [evs_cy]. rewrite in_app_iff. intros [H|H]; [|exact (IHr f g H)].
        destruct fx; cbn in H; [exact H|]. destruct H as [H|[]]. discriminate.
      - intros l r IHr f g. cbn [evs_cy]. rewrite in_app_iff. intros [H|H]; [|exact (IHr f g H)].
        destruct lt; cbn in H; [|exact H]. destruct H as [H|[]]. discriminate. }
    intros n f. exact (proj1 H n f).
Qed.

(* ---------- equality with CPython ---------- *)
Lemma map_tar_end_ev : forall t e f, map throw_as_resume (end_ev t e f) = end_ev t e f.
Proof. intros [|] [| | |] f; reflexivity. Qed.

Lemma map_tar_line : forall lt l f, map throw_as_resume (line_ev lt l f) = line_ev lt l f.
Proof. intros [|] l f; reflexivity. Qed.

Lemma cy_py_mut : forall fx lt,
  (forall n, ok_node fx n -> started n = true ->
     ev_cy Legacy fx lt n = ev_py Legacy lt n /\
     ev_cy Monitoring fx lt n = map throw_as_resume (ev_py Monitoring lt n)) /\
  (forall b, ok_items fx b -> starteds b = true -> forall f,
     evs_cy Legacy fx lt f b = evs_py Legacy lt f b /\
     evs_cy Monitoring fx lt f b = map throw_as_resume (evs_py Monitoring lt f b)).
Proof.
  intros fx lt. apply node_mutind.
  - intros f s b IHb e Hok Hst.
    cbn [started] in Hst. apply andb_true_iff in Hst. destruct Hst as [Hsb Hs].
    assert (Hb : ok_items fx b).
    { intros Hfx. specialize (Hok Hfx). cbn [clean] in Hok. apply andb_true_iff in Hok. tauto. }
    destruct (IHb Hb Hsb f) as [I1 I2].
    assert (E : forall t, end_cy t fx e f = end_ev t e f).
    { intros t. destruct e; try reflexivity. cbn [end_cy]. destruct fx; [reflexivity|].
      specialize (Hok eq_refl). cbn [clean] in Hok. rewrite andb_false_r in Hok. discriminate. }
    cbn [ev_cy ev_py]. rewrite !E, I1, I2.
    destruct s; try discriminate; cbn [start_cy start_py];
      (split; [reflexivity|]);
      rewrite !map_app, map_tar_end_ev; reflexivity.
  - intros _ _ f. split; reflexivity.
  - intros n IHn r IHr Hok Hst f.
    cbn [starteds] in Hst. apply andb_true_iff in Hst. destruct Hst as [Hsn Hsr].
    assert (Hn : ok_node fx n /\ ok_items fx r).
    { split; intros Hfx; specialize (Hok Hfx); cbn [cleans] in Hok;
        apply andb_true_iff in Hok; tauto. }
    destruct Hn as [Hn Hr].
    destruct (IHn Hn Hsn) as [A1 A2]. destruct (IHr Hr Hsr f) as [B1 B2].
    cbn [evs_cy evs_py]. rewrite A1, A2, B1, B2, map_app. split; reflexivity.
  - intros r IHr Hok Hst f. destruct fx.
    + cbn [evs_cy evs_py]. unfold ret_stmt_cy. cbn [app]. apply IHr; [intros H; discriminate|exact Hst].
    + specialize (Hok eq_refl). cbn [cleans] in Hok. discriminate.
  - intros l r IHr Hok Hst f.
    assert (Hr : ok_items fx r) by (intros Hfx; exact (Hok Hfx)).
    destruct (IHr Hr Hst f) as [B1 B2].
    cbn [evs_cy evs_py]. rewrite B1, B2, map_app, map_tar_line. split; reflexivity.
Qed.

Theorem events_equal_cpython_legacy : forall fx lt n,
  (fx = false -> clean n = true) -> started n = true ->
  ev_cy Legacy fx lt n = ev_py Legacy lt n.
Proof. intros fx lt n H S. exact (proj1 (proj1 (cy_py_mut fx lt) n H S)). Qed.

Theorem events_equal_cpython_monitoring : forall fx lt n,
  (fx = false -> clean n = true) -> started n = true ->
  ev_cy Monitoring fx lt n = map throw_as_resume (ev_py Monitoring lt n).
Proof. intros fx lt n H S. exact (proj2 (proj1 (cy_py_mut fx lt) n H S)). Qed.

(* the specification side is itself well nested (sanity of the oracle model) *)
Corollary cpython_events_well_nested : forall lt n,
  started n = true -> parse (ev_py Legacy lt n) [] [] = Some [shape_of n].
Proof.
  intros lt n S.
  rewrite <- (events_equal_cpython_legacy true lt n) by (try exact S; intros H; discriminate).
  apply events_well_nested. intros H; discriminate.
Qed.

(* ---------- the code as it is: return inside try/finally ---------- *)
(* def f(): try: return 1 / finally: return 2     ->  call f, return f, return f *)
Definition w_double : node := Node 0 SCall (IRet INil) EReturn.
(* def f(): try: return 1 / finally: g()          ->  call f, return f, call g, return g *)
Definition w_misnest : node := Node 0 SCall (IRet (ICall (Node 1 SCall INil EReturn) INil)) EPending.
(* same with linetrace: a line event of f after f's return event *)
Definition w_line : node := Node 0 SCall (IRet (ILine 5 INil)) EPending.

Theorem early_return_refuted :
  parse (ev_cy Legacy false false w_double) [] [] = None /\
  count_class CEnd (ev_cy Legacy false false w_double) = 2 /\
  (exists sh, parse (ev_cy Legacy false false w_misnest) [] [] = Some sh /\ sh <> [shape_of w_misnest]) /\
  parse (ev_cy Legacy false true w_line) [] [] = None /\
  (* the repaired placement handles all three *)
  parse (ev_cy Legacy true false w_double) [] [] = Some [shape_of w_double] /\
  parse (ev_cy Legacy true false w_misnest) [] [] = Some [shape_of w_misnest] /\
  parse (ev_cy Legacy true true w_line) [] [] = Some [shape_of w_line].
Proof.
  repeat split; try reflexivity.
  eexists. split; [reflexivity|]. discriminate.
Qed.

(* close() of a never-started generator: one extra (balanced) activation that CPython
   does not have *)
Definition w_unstarted : node :=
  Node 0 SCall (ICall (Node 1 SCloseUnstarted INil ERaise) INil) EReturn.

Theorem unstarted_close_differs :
  ev_cy Legacy false false w_unstarted = [(KCall, 0); (KCall, 1); (KRet, 1); (KRet, 0)] /\
  ev_py Legacy false w_unstarted = [(KCall, 0); (KRet, 0)].
Proof. split; reflexivity. Qed.
