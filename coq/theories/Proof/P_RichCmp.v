(* C28 — rich comparison proofs (exhaustive evaluation over the finite families) *)
From Coq Require Import List Bool.
From CyVerif Require Import Model.M_BinopSlot Proof.P_BinopSlot.
Import ListNotations.

(* ================================================================ rich comparison *)
Definition all_cstate := [CU; CN; CTr; CFa].
Definition all_val := [CN; CTr; CFa].
Definition all_rcls := [rT; rX; rU].
Lemma all_cstate_ok : forall x, In x all_cstate. Proof. destruct x; simpl; tauto. Qed.
Lemma all_rcls_ok : forall x, In x all_rcls. Proof. destruct x; simpl; tauto. Qed.
Lemma all_cop_ok : forall x, In x all_cop. Proof. destruct x; simpl; tauto. Qed.
Definition RM_eq_dec : forall a b : RM, {a = b} + {a <> b}.
Proof. repeat decide equality. Defined.
Definition rnofuel (m : RM) : bool := match snd m with RFuel => false | _ => true end.
Definition chk2 (e : bool) (a b : RM) : bool := e || ((if RM_eq_dec a b then true else false) && rnofuel b).
Lemma chk2_elim : forall e a b, chk2 e a b = true -> e = false -> a = b /\ snd b <> RFuel.
Proof.
  intros e a b H He. unfold chk2 in H. rewrite He in H. simpl in H.
  apply andb_prop in H. destruct H as [H1 H2].
  destruct (RM_eq_dec a b) as [E|E]; [|discriminate].
  split; [exact E|]. unfold rnofuel in H2. intro Hf. rewrite Hf in H2. discriminate.
Qed.

(* a class as seen by operator `op` without total_ordering: the state of the method the operator
   dispatches to (a), of its reflection - for != : of __eq__ - (b), and whether the class defines any
   other comparison method (which only decides whether Cython generates a tp_richcompare for it) *)
Definition view := (cstate * cstate * bool)%type.
Definition all_view : list view := list_prod (list_prod all_cstate all_cstate) all_bool.
Lemma all_view_ok : forall x, In x all_view.
Proof. intros [[a b] o]. repeat apply in_prod; try apply all_cstate_ok. apply all_bool_ok. Qed.
Definition st_of_view (op : cop) (v : view) (m : cop) : cstate :=
  let '(a, b, oth) := v in
  if cop_eqb m op then a
  else if cop_eqb m (match op with NE => EQ | o => swap o end) then b
  else if oth then CN else CU.

Definition exc_ne (op : cop) (tv xv : view) (xpy : bool) (L R : rcls) : bool :=
  let tst := st_of_view op tv in let xst := st_of_view op xv in
  xpy && cop_eqb op NE && existsb (fun m => match tst m with CU => false | _ => true end) all_cop
  && (match tst NE with CU => true | _ => false end)
  && (match xst EQ with CU => false | _ => true end) && (match xst NE with CU => true | _ => false end)
  && (rcls_eqb L rX || rcls_eqb R rX).

Definition rc_plain (w : world) (nefix : bool) (op : cop) (tv xv : view) (xpy : bool) (ub : cstate) (L R : rcls) : RM :=
  rc_run w (st_of_view op tv) (st_of_view op xv) false xpy ub ub nefix L R op.

(* operand pairs with the answer of the opaque class U (never consulted when no operand is a U: fixed to CN there) *)
Definition pair_dom : list (rcls * rcls * cstate) :=
  [(rT, rT, CN); (rT, rX, CN); (rX, rT, CN); (rX, rX, CN); (rU, rU, CN)] ++
  flat_map (fun ub => [(rT, rU, ub); (rU, rT, ub); (rX, rU, ub); (rU, rX, ub)]) all_val.
(* X's view: the two relevant methods (its other methods are taken as undefined) *)
Definition all_xview : list view := list_prod (list_prod all_cstate all_cstate) [false].

Definition chk_rc (op : cop) (tv xv : view) (xpy : bool) (L R : rcls) (ub : cstate) : bool :=
  chk2 (exc_ne op tv xv xpy L R) (rc_plain WPy false op tv xv xpy ub L R) (rc_plain WCy false op tv xv xpy ub L R).

Lemma chk_rc_all : forallb (fun op => forallb (fun tv => forallb (fun xv => forallb (fun xpy => forallb (fun p =>
  chk_rc op tv xv xpy (fst (fst p)) (snd (fst p)) (snd p)) pair_dom) all_bool) all_xview) all_view) all_cop = true.
Proof. vm_compute. reflexivity. Qed.

Theorem richcmp_eq_partial : forall op tv xv xpy ub L R,
  In xv all_xview -> In (L, R, ub) pair_dom -> exc_ne op tv xv xpy L R = false ->
  rc_plain WPy false op tv xv xpy ub L R = rc_plain WCy false op tv xv xpy ub L R
  /\ snd (rc_plain WCy false op tv xv xpy ub L R) <> RFuel.
Proof.
  intros op tv xv xpy ub L R Hxv Hp He.
  pose proof chk_rc_all as H.
  rewrite forallb_forall in H. specialize (H op (all_cop_ok op)).
  rewrite forallb_forall in H. specialize (H tv (all_view_ok tv)).
  rewrite forallb_forall in H. specialize (H xv Hxv).
  rewrite forallb_forall in H. specialize (H xpy (all_bool_ok xpy)).
  rewrite forallb_forall in H. specialize (H (L, R, ub) Hp).
  cbn [fst snd] in H. exact (chk2_elim _ _ _ H He).
Qed.

(* finding: `x != y`, X a Python subclass overriding __eq__ of an extension type that has a generated
   tp_richcompare without __ne__: X.__eq__ is not consulted *)
Theorem richcmp_ne_refuted :
  exists tv xv, rc_plain WPy false NE tv xv true CN rX rU = ([(rX, EQ, true)], RB true)
             /\ rc_plain WCy false NE tv xv true CN rX rU = ([(rT, EQ, true)], RB false).
Proof. exists (CU, CTr, false), (CU, CFa, false). vm_compute. split; reflexivity. Qed.

(* ---- total_ordering: T defines __eq__ (answering True/False), no __ne__, at least one ordering method;
   X a plain subclass; every operand pair except (T, X) and (X, T) *)
Definition ordst := (cstate * cstate * cstate * cstate)%type.        (* lt le gt ge *)
Definition all_ordst : list ordst := list_prod (list_prod (list_prod all_cstate all_cstate) all_cstate) all_cstate.
Lemma all_ordst_ok : forall x, In x all_ordst.
Proof. intros [[[a b] c] d]. repeat apply in_prod; apply all_cstate_ok. Qed.
Definition st_of_ord (o : ordst) (e n : cstate) (m : cop) : cstate :=
  let '(a, b, c, d) := o in match m with LT => a | LE => b | GT => c | GE => d | EQ => e | NE => n end.
Definition has_ord (o : ordst) : bool :=
  let '(a, b, c, d) := o in
  negb (match a, b, c, d with CU, CU, CU, CU => true | _, _, _, _ => false end).
Definition no_st (m : cop) : cstate := CU.
Definition rc_tot (w : world) (o : ordst) (e n : cstate) (xpy : bool) (uo ue : cstate) (L R : rcls) (op : cop) : RM :=
  rc_run w (st_of_ord o e n) no_st true xpy uo ue false L R op.

(* every operand pair except those mixing a T instance with a subclass instance (either order: the inner
   `self != other` of functools gives the subclass operand priority) *)
Definition tot_dom : list (rcls * rcls * cstate) :=
  filter (fun p => let '(L, R, _) := p in
                   negb ((rcls_eqb L rT && rcls_eqb R rX) || (rcls_eqb L rX && rcls_eqb R rT))) pair_dom.

Definition chk_tot (o : ordst) (eb : bool) (xpy : bool) (L R : rcls) (ub : cstate) (op : cop) : bool :=
  chk2 (negb (has_ord o))
       (rc_tot WPy o (if eb then CTr else CFa) CU xpy ub ub L R op)
       (rc_tot WCy o (if eb then CTr else CFa) CU xpy ub ub L R op).
Lemma chk_tot_all : forallb (fun o => forallb (fun eb => forallb (fun xpy => forallb (fun p =>
  forallb (fun op => chk_tot o eb xpy (fst (fst p)) (snd (fst p)) (snd p) op) all_cop) tot_dom) all_bool) all_bool) all_ordst = true.
Proof. vm_compute. reflexivity. Qed.

Theorem richcmp_total_ordering_partial : forall o (eb xpy : bool) ub L R op,
  In (L, R, ub) tot_dom -> has_ord o = true ->
  let e := if eb then CTr else CFa in
  rc_tot WPy o e CU xpy ub ub L R op = rc_tot WCy o e CU xpy ub ub L R op
  /\ snd (rc_tot WCy o e CU xpy ub ub L R op) <> RFuel.
Proof.
  intros o eb xpy ub L R op Hp Ho e.
  pose proof chk_tot_all as H.
  rewrite forallb_forall in H. specialize (H o (all_ordst_ok o)).
  rewrite forallb_forall in H. specialize (H eb (all_bool_ok eb)).
  rewrite forallb_forall in H. specialize (H xpy (all_bool_ok xpy)).
  rewrite forallb_forall in H. specialize (H (L, R, ub) Hp).
  rewrite forallb_forall in H. specialize (H op (all_cop_ok op)).
  cbn [fst snd] in H. apply (chk2_elim _ _ _ H). rewrite Ho. reflexivity.
Qed.

Definition ord_lt (s : cstate) : ordst := (s, CU, CU, CU).
(* F23: __eq__ answers NotImplemented: functools evaluates `self == other` (full protocol, reflected
   U.__eq__ consulted, identity fallback), Cython hands the method's NotImplemented on *)
Theorem richcmp_total_ordering_eq_ni_refuted :
  rc_tot WPy (ord_lt CFa) CN CU true CN CTr rT rU LE = ([(rT, LT, true); (rT, EQ, true); (rU, EQ, false)], RB true)
  /\ rc_tot WCy (ord_lt CFa) CN CU true CN CTr rT rU LE = ([(rT, LT, true); (rT, EQ, true); (rU, GE, false)], RTypeErr).
Proof. vm_compute. split; reflexivity. Qed.
(* both __eq__ and __ne__ defined: functools' `self != other` reaches __ne__, Cython calls __eq__ *)
Theorem richcmp_total_ordering_ne_refuted :
  rc_tot WPy (ord_lt CFa) CTr CTr true CN CN rT rT GT = ([(rT, LT, true); (rT, NE, true)], RB true)
  /\ rc_tot WCy (ord_lt CFa) CTr CTr true CN CN rT rT GT = ([(rT, LT, true); (rT, EQ, true)], RB false).
Proof. vm_compute. split; reflexivity. Qed.
(* neither __eq__ nor __ne__: Cython switches the directive off (compile-time warning) *)
Theorem richcmp_total_ordering_no_eq_refuted :
  rc_tot WPy (ord_lt CFa) CU CU true CN CN rT rT GT = ([(rT, LT, true)], RB true)
  /\ rc_tot WCy (ord_lt CFa) CU CU true CN CN rT rT GT = ([(rT, LT, false)], RB false).
Proof. vm_compute. split; reflexivity. Qed.
(* subclass instance on the right: functools' inner `self != other` gives the subclass priority *)
Theorem richcmp_total_ordering_subclass_refuted :
  exists o, rc_tot WPy o CTr CU true CN CN rT rX LT <> rc_tot WCy o CTr CU true CN CN rT rX LT.
Proof. exists (CU, CTr, CN, CU). vm_compute. congruence. Qed.
