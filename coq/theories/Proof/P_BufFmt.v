(* C17 -- proofs about the model of __Pyx_BufFmt_CheckString (Model/M_BufFmt.v). *)
From Coq Require Import ZArith List Bool Lia ZifyBool Arith.
From CyVerif Require Import Lib.CInt Model.M_BufFmt.
Import ListNotations.
Open Scope Z_scope.

(* ------------------------------------------------------------------ *)
(* 1. witnesses against the code as it is (fx_none)                    *)
(* ------------------------------------------------------------------ *)
Definition ti_int : tinfo := mktinfo [(mkleaf 73 4 [], 0)] 4 0.
Definition ti_id : tinfo := mktinfo [(mkleaf 73 4 [], 0); (mkleaf 82 8 [], 8)] 16 0.

(* "i:abc" : the name-skipping loop walks over the NUL *)
Lemma name_oob_witness : check fx_none [105; 58; 97; 98; 99] ti_int 4 = OOB.
Proof. vm_compute. reflexivity. Qed.
Lemma name_fixed_witness : check fx_all [105; 58; 97; 98; 99] ti_int 4 = Err.
Proof. vm_compute. reflexivity. Qed.

(* "idi" and numpy's "T{i:a:=d:b:}" on an int view: ctx->head == NULL is dereferenced *)
Lemma null_witness : check fx_none [105; 100; 105] ti_int 4 = NullDeref.
Proof. vm_compute. reflexivity. Qed.
Lemma null_witness_numpy :
  check fx_none [84; 123; 105; 58; 97; 58; 61; 100; 58; 98; 58; 125] ti_int 4 = NullDeref.
Proof. vm_compute. reflexivity. Qed.
Lemma null_witness_array : check fx_none [105; 40; 50; 41; 105] ti_int 4 = NullDeref.
Proof. vm_compute. reflexivity. Qed.
Lemma null_fixed_witness : check fx_all [105; 100; 105] ti_int 4 = Err
  /\ check fx_all [84; 123; 105; 58; 97; 58; 61; 100; 58; 98; 58; 125] ti_int 4 = Err
  /\ check fx_all [105; 40; 50; 41; 105] ti_int 4 = Err.
Proof. vm_compute. auto. Qed.

(* "( 2)i" : the whitespace `continue` never advances: no amount of fuel suffices *)
Lemma parr_ws_loops : forall fuel arr r i, parr_loop fx_none fuel arr (32 :: r) i = OutOfFuel.
Proof. induction fuel as [|f IH]; intros; [reflexivity|]. cbn. apply IH. Qed.

Lemma hang_witness : forall fuel, check_fuel fx_none fuel [40; 32; 50; 41; 105] ti_int 4 = OutOfFuel.
Proof.
  intros [|f]; [reflexivity|].
  unfold check_fuel. cbn. rewrite parr_ws_loops. reflexivity.
Qed.
Lemma hang_fixed_witness : check fx_all [40; 32; 50; 41; 105] ti_int 4 = Err.
Proof. vm_compute. reflexivity. Qed.

(* ------------------------------------------------------------------ *)
(* 2. repeat counts in a C int                                         *)
(* ------------------------------------------------------------------ *)
Definition digits (ds : list Z) : Prop := Forall (fun d => is_digit d = true) ds.
Definition no_digit_head (r : list Z) : Prop :=
  match r with [] => True | d :: _ => is_digit d = false end.

Lemma dval_ge : forall ds a, 0 <= a -> digits ds -> a <= dval a ds.
Proof.
  induction ds as [|d ds IH]; intros a Ha Hd; cbn; [lia|].
  inversion Hd as [|? ? Hd1 Hd2]; subst. unfold is_digit in Hd1.
  specialize (IH (a * 10 + (d - 48)) ltac:(lia) Hd2). unfold dval in IH. lia.
Qed.

Lemma pn_loop_ok : forall ds acc rest,
  0 <= acc -> digits ds -> no_digit_head rest -> dval acc ds <= INT_MAX ->
  pn_loop acc (ds ++ rest) = Ok (dval acc ds, rest).
Proof.
  induction ds as [|d ds IH]; intros acc rest Ha Hd Hr Hv.
  - cbn. destruct rest as [|x r]; [reflexivity|]. cbn in Hr. cbn. rewrite Hr. reflexivity.
  - change (dval acc (d :: ds)) with (dval (acc * 10 + (d - 48)) ds) in *.
    cbn [app pn_loop].
    inversion Hd as [|? ? Hd1 Hd2]; subst. rewrite Hd1.
    assert (Hacc : 0 <= acc * 10 + (d - 48)) by (unfold is_digit in Hd1; lia).
    pose proof (dval_ge ds _ Hacc Hd2) as Hge.
    destruct (Z.ltb_spec INT_MAX (acc * 10 + (d - 48))); [lia|].
    apply IH; auto.
Qed.

Lemma pn_loop_ovf : forall ds acc rest,
  0 <= acc <= INT_MAX -> digits ds -> INT_MAX < dval acc ds -> pn_loop acc (ds ++ rest) = IntOvf.
Proof.
  induction ds as [|d ds IH]; intros acc rest Ha Hd Hv.
  - cbn in Hv. lia.
  - change (dval acc (d :: ds)) with (dval (acc * 10 + (d - 48)) ds) in *.
    cbn [app pn_loop].
    inversion Hd as [|? ? Hd1 Hd2]; subst. rewrite Hd1.
    destruct (Z.ltb_spec INT_MAX (acc * 10 + (d - 48))); [reflexivity|].
    apply IH; auto. unfold is_digit in Hd1. lia.
Qed.

(* the count parsed by __Pyx_BufFmt_ParseNumber is the decimal value iff it fits a C int;
   otherwise the accumulation overflows (undefined behaviour) *)
Theorem count_no_overflow : forall d ds rest,
  digits (d :: ds) -> no_digit_head rest ->
  (dval 0 (d :: ds) <= INT_MAX -> parse_number (d :: ds ++ rest) = Ok (Some (dval 0 (d :: ds), rest))) /\
  (INT_MAX < dval 0 (d :: ds) -> parse_number (d :: ds ++ rest) = IntOvf).
Proof.
  intros d ds rest Hd Hr. inversion Hd as [|? ? Hd1 Hd2]; subst.
  assert (H0 : 0 <= d - 48) by (unfold is_digit in Hd1; lia).
  cbn [parse_number]. rewrite Hd1. cbn [dval fold_left]. replace (0 * 10 + (d - 48)) with (d - 48) by lia.
  fold (dval (d - 48) ds). split; intros Hv.
  - rewrite pn_loop_ok; auto.
  - rewrite pn_loop_ovf; auto. unfold is_digit, INT_MAX in *. lia.
Qed.

Lemma count_overflow_witness :
  check fx_all [50; 49; 52; 55; 52; 56; 51; 54; 52; 56; 105] ti_int 4 = IntOvf.   (* 2147483648i *)
Proof. vm_compute. reflexivity. Qed.

(* ------------------------------------------------------------------ *)
(* 3. the repaired parser terminates and stays inside the string       *)
(* ------------------------------------------------------------------ *)
Definition safe {A} (r : res A) : Prop :=
  match r with OOB | NullDeref | OutOfFuel => False | _ => True end.
(* safe, and an Ok result carries a remaining string no longer than [bound] *)
Definition good {A} (len : A -> nat) (bound : nat) (r : res A) : Prop :=
  match r with Ok a => (len a <= bound)%nat | Err | IntOvf => True | _ => False end.

Lemma good_mono {A} (len : A -> nat) b1 b2 r : (b1 <= b2)%nat -> good len b1 r -> good len b2 r.
Proof. destruct r; cbn; auto. lia. Qed.

Lemma good_bind {A B} (r : res A) (f : A -> res B) len b :
  safe r -> (forall a, r = Ok a -> good len b (f a)) -> good len b (bind r f).
Proof. destruct r; cbn; auto; contradiction. Qed.

Lemma good_bind2 {A B} (r : res A) (f : A -> res B) lenA len b1 b :
  good lenA b1 r -> (forall a, (lenA a <= b1)%nat -> good len b (f a)) -> good len b (bind r f).
Proof. destruct r; cbn; auto. Qed.

Lemma chunk_loop_safe : forall et z pm g arrsz h o cnt sal,
  h <> [] -> safe (chunk_loop et z pm g arrsz h o cnt sal).
Proof.
  induction h as [|[l fo] rest IH]; intros o cnt sal Hne; [congruence|].
  cbn [chunk_loop].
  destruct ((pm =? 64) && (alignment et =? 0)); [exact I|].
  destruct (negb (leaf_ok l _ g)); [exact I|].
  destruct (negb (_ =? fo)); [exact I|].
  destruct rest as [|f rest'].
  - destruct (_ =? 0); exact I.
  - destruct (_ =? 0); [exact I|]. apply IH. congruence.
Qed.

Lemma process_chunk_safe : forall c, safe (process_chunk fx_all c).
Proof.
  intros c. unfold process_chunk.
  destruct (etype c =? 0); [exact I|].
  destruct (hd c) as [|[l fo] rest] eqn:Hh; [exact I|].
  destruct (nth 0 (l_arr l) 0 =? 0).
  - cbn [bind]. pose proof (chunk_loop_safe (etype c) (cplx c) (epm c) (type_group (etype c) (cplx c)) 1
      ((l, fo) :: rest) (off c) (ecnt c) (salign c) ltac:(congruence)) as Hs.
    destruct (chunk_loop _ _ _ _ _ _ _ _ _) as [[[[h o] cn] sa]| | | | |]; cbn in *; auto.
  - destruct (_ && negb (ecnt c =? _)); [exact I|].
    destruct (negb _); [exact I|]. cbn [bind].
    match goal with |- context [chunk_loop ?a ?b ?c0 ?d ?e ?f ?g ?h ?i] =>
      pose proof (chunk_loop_safe a b c0 d e f g h i ltac:(congruence)) as Hs;
      destruct (chunk_loop a b c0 d e f g h i) as [[[[h' o'] cn] sa]| | | | |] end; cbn in *; auto.
Qed.

Lemma pn_loop_good : forall ts acc, good (fun p : Z * list Z => length (snd p)) (length ts) (pn_loop acc ts).
Proof.
  induction ts as [|d r IH]; intros acc; cbn; [lia|].
  destruct (is_digit d); [|cbn; lia].
  destruct (INT_MAX <? _); [exact I|].
  eapply good_mono; [|apply IH]. lia.
Qed.

(* a number consumes at least one character *)
Lemma expect_number_good : forall ts,
  good (fun p : Z * list Z => S (length (snd p))) (length ts) (expect_number ts).
Proof.
  intros [|d r]; [exact I|]. unfold expect_number, parse_number.
  destruct (is_digit d); [|exact I].
  pose proof (pn_loop_good r (d - 48)) as H.
  destruct (pn_loop (d - 48) r) as [[n r']| | | | |]; cbn in *; auto. lia.
Qed.

Lemma skip_name_good : forall ts, good (fun r : list Z => S (length r)) (length ts) (skip_name fx_all ts).
Proof.
  induction ts as [|ch r IH]; [exact I|]. cbn [skip_name].
  destruct (ch =? 58); [cbn; lia|]. eapply good_mono; [|apply IH]. cbn. lia.
Qed.

Lemma parr_loop_good : forall fuel arr ts i, (length ts < fuel)%nat ->
  good (fun p : list Z * nat => length (fst p)) (length ts) (parr_loop fx_all fuel arr ts i).
Proof.
  induction fuel as [|f IH]; intros arr ts i Hf; [lia|].
  destruct ts as [|ch r]; [cbn; lia|]. cbn [parr_loop].
  destruct (ch =? 41); [cbn; lia|].
  destruct (is_arr_space ch).
  - cbn [fx_arrws fx_all]. eapply good_mono; [|apply IH]; cbn in *; lia.
  - pose proof (expect_number_good (ch :: r)) as Hn.
    destruct (expect_number (ch :: r)) as [[n ts1]| | | | |]; cbn [bind good] in *; auto.
    destruct (_ && _); [exact I|].
    destruct ts1 as [|c1 r1]; [exact I|].
    cbn [length snd] in Hn.
    destruct (Z.eq_dec c1 44) as [->|N1].
    + eapply good_mono; [|apply IH]; cbn in *; lia.
    + destruct (Z.eq_dec c1 41) as [->|N2].
      * eapply good_mono; [|apply IH]; cbn in *; lia.
      * destruct c1 as [|p|p]; try exact I.
        repeat (destruct p as [p|p|]; try exact I); congruence.
Qed.

Lemma parse_array_good : forall fuel ts c, (length ts < fuel)%nat ->
  good (fun p : list Z * ctx => S (length (fst p))) (length ts) (parse_array fx_all fuel ts c).
Proof.
  intros fuel ts c Hf. unfold parse_array.
  destruct (negb (ncnt c =? 1)); [exact I|].
  apply good_bind; [apply process_chunk_safe|]. intros c1 _.
  destruct (hd c1) as [|[l fo] rest]; [exact I|].
  eapply good_bind2; [apply parr_loop_good; exact Hf|].
  intros [ts1 i] Hl. cbn [fst] in Hl.
  destruct (negb _); [exact I|].
  destruct ts1 as [|x r]; [exact I|]. cbn in *. lia.
Qed.

Lemma iter_pos_good {A} (len : A -> nat) b (f : A -> res A) :
  (forall a, good len b (f a)) -> forall p a, good len b (iter_pos p f a).
Proof.
  intros Hf. induction p as [p IH|p IH|]; intros a; cbn [iter_pos].
  - eapply good_bind2; [apply Hf|]. intros a1 _. eapply good_bind2; [apply IH|]. intros a2 _. apply IH.
  - eapply good_bind2; [apply IH|]. intros a1 _. apply IH.
  - apply Hf.
Qed.

Lemma type_char_safe : forall ch gz pool c, safe (type_char fx_all ch gz pool c).
Proof.
  intros. unfold type_char. destruct (_ && _); [exact I|].
  pose proof (process_chunk_safe c) as H. destruct (process_chunk fx_all c); cbn in *; auto.
Qed.

Definition lenp (p : list Z * ctx) : nat := length (fst p).

Lemma check_string_good : forall fuel ts c, (length ts < fuel)%nat ->
  good lenp (length ts) (check_string fx_all fuel ts c).
Proof.
  induction fuel as [|f IH]; intros ts c Hf; [lia|].
  destruct ts as [|ch r].
  - cbn [check_string]. destruct (_ && _); [exact I|].
    apply good_bind; [apply process_chunk_safe|]. intros c1 _.
    destruct (hd c1); [cbn; lia|exact I].
  - cbn [length] in Hf.
    assert (Hr : forall c', good lenp (length (ch :: r)) (check_string fx_all f r c')).
    { intros c'. eapply good_mono; [|apply IH; lia]. cbn. lia. }
    cbn [check_string].
    destruct (in_list ch [32; 13; 10]); [apply Hr|].
    destruct (ch =? 60); [apply Hr|].
    destruct (in_list ch [62; 33]); [exact I|].
    destruct (in_list ch [61; 64; 94]); [apply Hr|].
    destruct (ch =? 84).
    { destruct r as [|c2 r2]; [exact I|].
      destruct (Z.eq_dec c2 123) as [->|N].
      - apply good_bind; [apply process_chunk_safe|]. intros c1 _.
        cbn [length] in Hf.
        eapply good_bind2 with (lenA := lenp) (b1 := length r2).
        + unfold iter_z. destruct (ncnt c) as [|p|p]; try (cbn; unfold lenp; cbn; lia).
          apply iter_pos_good. intros st. apply IH. lia.
        + intros [ts1 c3] Hl. unfold lenp in Hl. cbn [fst] in Hl.
          eapply good_mono; [|apply IH; lia]. cbn. lia.
      - destruct c2 as [|p|p]; try exact I.
        repeat (destruct p as [p|p|]; try exact I); congruence. }
    destruct (ch =? 125).
    { apply good_bind; [apply process_chunk_safe|]. intros c1 _. cbn. unfold lenp. cbn. lia. }
    destruct (ch =? 120).
    { apply good_bind; [apply process_chunk_safe|]. intros c1 _. apply Hr. }
    destruct (ch =? 90).
    { destruct r as [|c2 r2]; [exact I|]. destruct (in_list c2 [102; 100; 103]); [|exact I].
      apply good_bind; [apply type_char_safe|]. intros c1 _.
      eapply good_mono; [|apply IH; cbn in *; lia]. cbn. lia. }
    destruct (in_list ch type_chars).
    { apply good_bind; [apply type_char_safe|]. intros c1 _. apply Hr. }
    destruct (ch =? 115).
    { apply good_bind; [apply type_char_safe|]. intros c1 _. apply Hr. }
    destruct (ch =? 58).
    { eapply good_bind2; [apply skip_name_good|]. intros r1 Hl. cbn beta in Hl.
      eapply good_mono; [|apply IH; lia]. cbn. lia. }
    destruct (ch =? 40).
    { eapply good_bind2; [apply parse_array_good; lia|]. intros [r1 c1] Hl. cbn [fst] in Hl.
      eapply good_mono; [|apply IH; lia]. cbn. lia. }
    eapply good_bind2; [apply expect_number_good|]. intros [n r1] Hl. cbn [snd length] in Hl.
    eapply good_mono; [|apply IH; lia]. cbn. lia.
Qed.

Lemma cstr_length : forall s, (length (cstr s) <= length s)%nat.
Proof. induction s as [|ch r IH]; cbn; [lia|]. destruct (ch =? 0); cbn; lia. Qed.

(* for ALL byte strings and all flat type infos the repaired parser returns: it accepts, raises
   ValueError, or hits the (separately stated) C int overflow of a repeat count >= 2^31 --
   never reads past the NUL, never dereferences NULL, never loops *)
Theorem repaired_parser_terminates_in_bounds : forall s ti isz,
  check fx_all s ti isz = Ok tt \/ check fx_all s ti isz = Err \/ check fx_all s ti isz = IntOvf.
Proof.
  intros s ti isz. unfold check, check_fuel.
  pose proof (check_string_good (S (length s)) (cstr s) (init ti)
                ltac:(pose proof (cstr_length s); lia)) as H.
  destruct (check_string fx_all (S (length s)) (cstr s) (init ti)) as [[ts c]| | | | |];
    cbn in *; try contradiction; auto.
  destruct (isz =? ti_size ti); auto.
Qed.

(* ------------------------------------------------------------------ *)
(* 4. accept <-> struct-module layout equality: the one-item corner     *)
(* ------------------------------------------------------------------ *)
(* C types: a C char has size 1, floating/complex types have size >= 4 *)
Definition scalar_ti (g sz : Z) : tinfo := mktinfo [(mkleaf g sz [], 0)] sz 0.

Theorem accept_iff_layout_single_item_partial : forall fx t g sz isz,
  In g [72; 73; 85; 82; 67] -> In sz [1; 2; 4; 8; 16; 32] -> (g = 82 \/ g = 67 -> 4 <= sz) -> (g = 72 -> sz = 1) ->
  check fx (render (FPlain [TItem [] t])) (scalar_ti g sz) isz = Ok tt <->
  spec_accept (FPlain [TItem [] t]) (scalar_ti g sz) isz = true.
Proof.
  intros fx t g sz isz Hg Hs Hw Hc.
  unfold check, check_fuel, spec_accept, scalar_ti. cbn [ti_size].
  generalize (isz =? sz) as b. intros b.
  cbn [In] in Hg, Hs.
  destruct Hg as [<-|[<-|[<-|[<-|[<-|[]]]]]]; destruct Hs as [<-|[<-|[<-|[<-|[<-|[<-|[]]]]]]];
    try (exfalso; lia); clear Hw Hc;
    destruct t; destruct b; vm_compute; split; congruence.
Qed.
