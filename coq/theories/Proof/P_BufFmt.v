From Coq Require Import ZArith List Bool Lia.
From CyVerif Require Import Lib.CInt Model.M_BufFmt.
Import ListNotations.
Open Scope Z_scope.
Lemma stub_true : True. Proof. exact I. Qed.
