(* Proofs for C14: the C for-from loop emitted for range()/reversed(range()) = Python's loop. *)
From Coq Require Import ZArith List Bool Lia ZifyBool.
From CyVerif Require Import Lib.CInt Model.M_Prange Model.M_Range.
Import ListNotations.
Open Scope Z_scope.
Ltac Zify.zify_post_hook ::= Z.to_euclidean_division_equations.

(* ---- the generic loop ---------------------------------------------------------------------- *)
Section Generic.
  Context {S : Type}.
  Variable body : Z -> S -> ctl * S.
  Variables (test : Z -> bool) (pre next : Z -> option Z).

  (* l = the values the body will see if it never breaks, starting with loop variable u *)
  Fixpoint follows (l : list Z) (u : Z) : Prop :=
    match l with
    | [] => test u = false
    | v :: r => test u = true /\ pre u = Some v /\ exists u', next v = Some u' /\ follows r u'
    end.

  Lemma c_loop_follows l : forall u st fuel, follows l u -> (length l < fuel)%nat ->
    c_loop body test pre next fuel u st = done_of (py_for body l st).
  Proof.
    induction l as [|v r IH]; intros u st fuel Hf Hfuel; destruct fuel as [|f]; cbn [length] in Hfuel; try lia.
    - cbn in *. rewrite Hf. reflexivity.
    - destruct Hf as (Ht & Hp & u' & Hn & Hr). cbn [c_loop py_for]. rewrite Ht, Hp.
      destruct (body v st) as [[|] st']; [|reflexivity].
      rewrite Hn. apply IH; [exact Hr | lia].
  Qed.

  (* sequences given by index functions: U i = loop variable at the i-th test, V i = i-th value *)
  Lemma follows_indexed (U V : nat -> Z) n : forall k,
    (forall i, (k <= i < k + n)%nat ->
       test (U i) = true /\ pre (U i) = Some (V i) /\ next (V i) = Some (U (Datatypes.S i))) ->
    test (U (k + n)%nat) = false ->
    follows (map V (seq k n)) (U k).
  Proof.
    induction n as [|n IH]; intros k H Hend.
    - cbn. replace (k + 0)%nat with k in Hend by lia. exact Hend.
    - cbn [seq map follows]. destruct (H k ltac:(lia)) as (H1 & H2 & H3).
      repeat split; try assumption. exists (U (Datatypes.S k)). split; [exact H3|].
      apply IH.
      + intros i Hi. apply H. lia.
      + replace (Datatypes.S k + n)%nat with (k + Datatypes.S n)%nat by lia. exact Hend.
  Qed.

  Lemma follows_indexed0 (U V : nat -> Z) n u :
    u = U 0%nat ->
    (forall i, (i < n)%nat ->
       test (U i) = true /\ pre (U i) = Some (V i) /\ next (V i) = Some (U (Datatypes.S i))) ->
    test (U n) = false ->
    follows (map V (seq 0 n)) u.
  Proof.
    intros -> H Hend. apply follows_indexed; [intros i Hi; apply H; lia | exact Hend].
  Qed.
End Generic.

(* ---- C arithmetic that stays inside the type is exact ------------------------------------- *)
Lemma pow2_le_mono x y : 0 <= x <= y -> 2 ^ x <= 2 ^ y.
Proof. intros. apply Z.pow_le_mono_r; lia. Qed.

Lemma in_range_promoted w sg v : 1 <= w -> in_range w sg v -> in_range (prom_w w) (prom_s w sg) v.
Proof.
  intros Hw. unfold in_range, prom_w, prom_s, min_int, max_int.
  destruct (Z.ltb_spec w 32) as [Hlt|Hge].
  - replace (Z.max w 32) with 32 by lia. intros H.
    pose proof (pow2_le_mono (w - 1) 31 ltac:(lia)) as P1.
    pose proof (pow2_le_mono w 31 ltac:(lia)) as P2.
    pose proof (pow2_pos (w - 1) ltac:(lia)) as P3.
    change (32 - 1) with 31. destruct sg; lia.
  - replace (Z.max w 32) with w by lia. tauto.
Qed.

Lemma carith_id w sg v : 1 <= w -> in_range (prom_w w) (prom_s w sg) v -> carith w sg v = Some v.
Proof.
  intros Hw H. unfold carith. destruct (prom_s w sg) eqn:E.
  - apply in_rangeb_spec in H. rewrite H. reflexivity.
  - f_equal. apply wrap_id; [unfold prom_w; lia | exact H].
Qed.

Lemma cop_id w sg v : 1 <= w -> in_range w sg v -> cop w sg v = Some v.
Proof.
  intros Hw H. unfold cop. rewrite carith_id by (try apply in_range_promoted; assumption).
  cbn. f_equal. apply wrap_id; assumption.
Qed.

Lemma carith_signed_exact w sg v r : prom_s w sg = true -> carith w sg v = Some r -> r = v.
Proof.
  intros E. unfold carith. rewrite E. destruct (in_rangeb (prom_w w) true v); congruence.
Qed.

Lemma in_range_between w sg lo hi v : in_range w sg lo -> in_range w sg hi -> lo <= v <= hi -> in_range w sg v.
Proof. unfold in_range. lia. Qed.

(* ---- Python's length formula ---------------------------------------------------------------- *)
Lemma len_spec_pos a b s : 0 < s ->
  let n := py_range_len a b s in
  0 <= n /\ (forall i, 0 <= i < n -> a + s * i < b) /\ b <= a + s * n /\ (n = 0 -> b <= a).
Proof.
  intros Hs. unfold py_range_len. destruct (Z.ltb_spec 0 s); [|lia].
  destruct (Z.ltb_spec a b) as [Hab|Hab]; cbn zeta.
  - pose proof (Z.div_mod (b - a - 1) s ltac:(lia)) as D.
    pose proof (Z.mod_pos_bound (b - a - 1) s Hs) as M.
    set (q := (b - a - 1) / s) in *. set (r := (b - a - 1) mod s) in *.
    assert (0 <= q) by (subst q; apply Z.div_pos; lia).
    repeat split; try lia.
    intros i Hi. assert (s * i <= s * q) by (apply Z.mul_le_mono_nonneg_l; lia). lia.
  - repeat split; try lia.
Qed.

Lemma len_spec_neg a b s : s < 0 ->
  let n := py_range_len a b s in
  0 <= n /\ (forall i, 0 <= i < n -> b < a + s * i) /\ a + s * n <= b /\ (n = 0 -> a <= b).
Proof.
  intros Hs. unfold py_range_len. destruct (Z.ltb_spec 0 s); [lia|].
  destruct (Z.ltb_spec b a) as [Hab|Hab]; cbn zeta.
  - pose proof (Z.div_mod (a - b - 1) (- s) ltac:(lia)) as D.
    pose proof (Z.mod_pos_bound (a - b - 1) (- s) ltac:(lia)) as M.
    set (q := (a - b - 1) / (- s)) in *. set (r := (a - b - 1) mod (- s)) in *.
    assert (0 <= q) by (subst q; apply Z.div_pos; lia).
    repeat split; try lia.
    intros i Hi. assert ((- s) * i <= (- s) * q) by (apply Z.mul_le_mono_nonneg_l; lia). lia.
  - repeat split; try lia.
Qed.

Lemma py_range_len_nonneg a b s : s <> 0 -> 0 <= py_range_len a b s.
Proof.
  intros. destruct (Z.lt_trichotomy s 0) as [H1|[H1|H1]]; try lia.
  - apply (len_spec_neg a b s H1). - apply (len_spec_pos a b s H1).
Qed.

Lemma py_range_length a b s : length (py_range a b s) = Z.to_nat (py_range_len a b s).
Proof. unfold py_range. rewrite map_length, seq_length. reflexivity. Qed.

(* reversed(range) as an indexed sequence *)
Lemma rev_map_seq {A} (f : nat -> A) n :
  rev (map f (seq 0 n)) = map (fun i => f (n - 1 - i)%nat) (seq 0 n).
Proof.
  induction n as [|n IH]; [reflexivity|].
  rewrite seq_S at 1. rewrite map_app, rev_app_distr. cbn [map rev app plus]. rewrite IH.
  cbn [seq map]. f_equal.
  - f_equal. lia.
  - rewrite <- seq_shift, map_map. apply map_ext. intros i. f_equal. lia.
Qed.

Lemma py_reversed_range_indexed a b s :
  py_reversed_range a b s =
  map (fun i => a + s * (py_range_len a b s - 1) - s * Z.of_nat i) (seq 0 (Z.to_nat (py_range_len a b s))).
Proof.
  unfold py_reversed_range, py_range. rewrite rev_map_seq. apply map_ext_in.
  intros i Hi. apply in_seq in Hi. set (N := py_range_len a b s) in *.
  replace (Z.of_nat (Z.to_nat N - 1 - i)) with (N - 1 - Z.of_nat i) by lia. ring.
Qed.

(* ---- forward loops -------------------------------------------------------------------------- *)
Section Fwd.
  Context {S : Type}.
  Variable body : Z -> S -> ctl * S.

  Theorem range_loop_eq w sg a b s fuel st :
    1 <= w -> s <> 0 -> in_range w sg a -> in_range w sg b ->
    fwd_safe w sg a b s = true ->
    (length (py_range a b s) < fuel)%nat ->
    range_loop body w sg a b s fuel st = done_of (py_for body (py_range a b s) st).
  Proof.
    intros Hw Hs Ha Hb Hsafe Hfuel.
    set (n := py_range_len a b s). pose proof (py_range_len_nonneg a b s Hs) as Hn. fold n in Hn.
    unfold range_loop, fwd_safe, unsigned_desc in *.
    destruct (Z.ltb_spec s 0) as [Hneg|Hpos].
    - (* descending *)
      destruct (len_spec_neg a b s Hneg) as (_ & Hin & Hout & Hz). fold n in Hin, Hout, Hz.
      cbn [find_relations snd rel_is_gt] in *. unfold for_from. cbn [rel_is_gt rel_offset rel_incr].
      replace (Z.abs s) with (- s) in * by lia.
      destruct sg; cbn [negb andb] in *.
      + (* signed: for (t = a; t > b; t -= A) *)
        rewrite Z.add_0_r, cop_id by assumption.
        apply c_loop_follows; [|exact Hfuel].
        unfold py_range. fold n.
        apply (follows_indexed0 _ _ _ (fun i => a + s * Z.of_nat i) (fun i => a + s * Z.of_nat i)); [cbn; lia | |].
        * intros i Hi. repeat split.
          -- cbn [rel_test]. specialize (Hin (Z.of_nat i) ltac:(lia)). lia.
          -- replace (a + s * Z.of_nat i - - s) with (a + s * Z.of_nat (Datatypes.S i)) by lia.
             apply cop_id; [assumption|].
             apply in_rangeb_spec in Hsafe.
             apply (in_range_between _ _ (a + s * n) a); try assumption. nia.
        * cbn [rel_test]. rewrite Z2Nat.id by lia. lia.
      + (* unsigned: for (t = a + A; t > b + A; ) { t -= A; *)
        apply andb_true_iff in Hsafe. destruct Hsafe as [S1 S2].
        apply in_rangeb_spec in S1. apply in_rangeb_spec in S2.
        rewrite Z.add_0_r, cop_id, carith_id by assumption.
        apply c_loop_follows; [|exact Hfuel].
        unfold py_range. fold n.
        apply (follows_indexed0 _ _ _ (fun i => a + s * Z.of_nat i - s) (fun i => a + s * Z.of_nat i)); [cbn; lia | |].
        * intros i Hi. specialize (Hin (Z.of_nat i) ltac:(lia)). repeat split.
          -- cbn [rel_test]. lia.
          -- replace (a + s * Z.of_nat i - s - - s) with (a + s * Z.of_nat i) by lia.
             apply cop_id; [assumption|].
             apply (in_range_between _ _ b a); try assumption. nia.
          -- f_equal. lia.
        * cbn [rel_test]. rewrite Z2Nat.id by lia. lia.
    - (* ascending: for (t = a; t < b; t += A) *)
      assert (Hpos' : 0 < s) by lia.
      destruct (len_spec_pos a b s Hpos') as (_ & Hin & Hout & Hz). fold n in Hin, Hout, Hz.
      cbn [find_relations snd rel_is_gt] in *. rewrite andb_false_r in *.
      unfold for_from. cbn [rel_is_gt rel_offset rel_incr]. rewrite andb_false_r.
      replace (Z.abs s) with s in * by lia.
      rewrite Z.add_0_r, cop_id by assumption.
      apply c_loop_follows; [|exact Hfuel].
      unfold py_range. fold n.
      apply (follows_indexed0 _ _ _ (fun i => a + s * Z.of_nat i) (fun i => a + s * Z.of_nat i)); [cbn; lia | |].
      + intros i Hi. repeat split.
        * cbn [rel_test]. specialize (Hin (Z.of_nat i) ltac:(lia)). lia.
        * replace (a + s * Z.of_nat i + s) with (a + s * Z.of_nat (Datatypes.S i)) by lia.
          apply cop_id; [assumption|].
          apply in_rangeb_spec in Hsafe.
          apply (in_range_between _ _ a (a + s * n)); try assumption. nia.
      + cbn [rel_test]. rewrite Z2Nat.id by lia. lia.
  Qed.
End Fwd.
