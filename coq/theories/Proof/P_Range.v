(* Proofs for C14: the C for-from loop emitted for range()/reversed(range()) = Python's loop. *)
From Coq Require Import ZArith List Bool Lia ZifyBool.
From CyVerif Require Import Lib.CInt Model.M_Prange Model.M_Range.
Import ListNotations.
Open Scope Z_scope.
Ltac Zify.zify_post_hook ::= Z.to_euclidean_division_equations.

(* ---- the generic loop ---------------------------------------------------------------------- *)
Section Generic.
  Context {S : Type}.
  Variable body : Z -> S -> ctl * S.
  Variables (test : Z -> bool) (pre next : Z -> option Z).

  (* l = the values the body will see if it never breaks, starting with loop variable u *)
  Fixpoint follows (l : list Z) (u : Z) : Prop :=
    match l with
    | [] => test u = false
    | v :: r => test u = true /\ pre u = Some v /\ exists u', next v = Some u' /\ follows r u'
    end.

  Lemma c_loop_follows l : forall u st fuel, follows l u -> (length l < fuel)%nat ->
    c_loop body test pre next fuel u st = done_of (py_for body l st).
  Proof.
    induction l as [|v r IH]; intros u st fuel Hf Hfuel; destruct fuel as [|f]; cbn [length] in Hfuel; try lia.
    - cbn in *. rewrite Hf. reflexivity.
    - destruct Hf as (Ht & Hp & u' & Hn & Hr). cbn [c_loop py_for]. rewrite Ht, Hp.
      destruct (body v st) as [[|] st']; [|reflexivity].
      rewrite Hn. apply IH; [exact Hr | lia].
  Qed.

  (* sequences given by index functions: U i = loop variable at the i-th test, V i = i-th value *)
  Lemma follows_indexed (U V : nat -> Z) n : forall k,
    (forall i, (k <= i < k + n)%nat ->
       test (U i) = true /\ pre (U i) = Some (V i) /\ next (V i) = Some (U (Datatypes.S i))) ->
    test (U (k + n)%nat) = false ->
    follows (map V (seq k n)) (U k).
  Proof.
    induction n as [|n IH]; intros k H Hend.
    - cbn. replace (k + 0)%nat with k in Hend by lia. exact Hend.
    - cbn [seq map follows]. destruct (H k ltac:(lia)) as (H1 & H2 & H3).
      repeat split; try assumption. exists (U (Datatypes.S k)). split; [exact H3|].
      apply IH.
      + intros i Hi. apply H. lia.
      + replace (Datatypes.S k + n)%nat with (k + Datatypes.S n)%nat by lia. exact Hend.
  Qed.

  Lemma follows_indexed0 (U V : nat -> Z) n u :
    u = U 0%nat ->
    (forall i, (i < n)%nat ->
       test (U i) = true /\ pre (U i) = Some (V i) /\ next (V i) = Some (U (Datatypes.S i))) ->
    test (U n) = false ->
    follows (map V (seq 0 n)) u.
  Proof.
    intros -> H Hend. apply follows_indexed; [intros i Hi; apply H; lia | exact Hend].
  Qed.
End Generic.

(* ---- C arithmetic that stays inside the type is exact ------------------------------------- *)
Lemma pow2_le_mono x y : 0 <= x <= y -> 2 ^ x <= 2 ^ y.
Proof. intros. apply Z.pow_le_mono_r; lia. Qed.

Lemma in_range_promoted w sg v : 1 <= w -> in_range w sg v -> in_range (prom_w w) (prom_s w sg) v.
Proof.
  intros Hw. unfold in_range, prom_w, prom_s, min_int, max_int.
  destruct (Z.ltb_spec w 32) as [Hlt|Hge].
  - replace (Z.max w 32) with 32 by lia. intros H.
    pose proof (pow2_le_mono (w - 1) 31 ltac:(lia)) as P1.
    pose proof (pow2_le_mono w 31 ltac:(lia)) as P2.
    pose proof (pow2_pos (w - 1) ltac:(lia)) as P3.
    change (32 - 1) with 31. destruct sg; lia.
  - replace (Z.max w 32) with w by lia. tauto.
Qed.

Lemma carith_id w sg v : 1 <= w -> in_range (prom_w w) (prom_s w sg) v -> carith w sg v = Some v.
Proof.
  intros Hw H. unfold carith. destruct (prom_s w sg) eqn:E.
  - apply in_rangeb_spec in H. rewrite H. reflexivity.
  - f_equal. apply wrap_id; [unfold prom_w; lia | exact H].
Qed.

Lemma cop_id w sg v : 1 <= w -> in_range w sg v -> cop w sg v = Some v.
Proof.
  intros Hw H. unfold cop. rewrite carith_id by (try apply in_range_promoted; assumption).
  cbn. f_equal. apply wrap_id; assumption.
Qed.

Lemma carith_signed_exact w sg v r : prom_s w sg = true -> carith w sg v = Some r -> r = v.
Proof.
  intros E. unfold carith. rewrite E. destruct (in_rangeb (prom_w w) true v); congruence.
Qed.

Lemma in_range_between w sg lo hi v : in_range w sg lo -> in_range w sg hi -> lo <= v <= hi -> in_range w sg v.
Proof. unfold in_range. lia. Qed.

(* ---- Python's length formula ---------------------------------------------------------------- *)
Lemma len_spec_pos a b s : 0 < s ->
  let n := py_range_len a b s in
  0 <= n /\ (forall i, 0 <= i < n -> a + s * i < b) /\ b <= a + s * n /\ (n = 0 -> b <= a).
Proof.
  intros Hs. unfold py_range_len. destruct (Z.ltb_spec 0 s); [|lia].
  destruct (Z.ltb_spec a b) as [Hab|Hab]; cbn zeta.
  - pose proof (Z.div_mod (b - a - 1) s ltac:(lia)) as D.
    pose proof (Z.mod_pos_bound (b - a - 1) s Hs) as M.
    set (q := (b - a - 1) / s) in *. set (r := (b - a - 1) mod s) in *.
    assert (0 <= q) by (subst q; apply Z.div_pos; lia).
    repeat split; try lia.
    intros i Hi. assert (s * i <= s * q) by (apply Z.mul_le_mono_nonneg_l; lia). lia.
  - repeat split; try lia.
Qed.

Lemma len_spec_neg a b s : s < 0 ->
  let n := py_range_len a b s in
  0 <= n /\ (forall i, 0 <= i < n -> b < a + s * i) /\ a + s * n <= b /\ (n = 0 -> a <= b).
Proof.
  intros Hs. unfold py_range_len. destruct (Z.ltb_spec 0 s); [lia|].
  destruct (Z.ltb_spec b a) as [Hab|Hab]; cbn zeta.
  - pose proof (Z.div_mod (a - b - 1) (- s) ltac:(lia)) as D.
    pose proof (Z.mod_pos_bound (a - b - 1) (- s) ltac:(lia)) as M.
    set (q := (a - b - 1) / (- s)) in *. set (r := (a - b - 1) mod (- s)) in *.
    assert (0 <= q) by (subst q; apply Z.div_pos; lia).
    repeat split; try lia.
    intros i Hi. assert ((- s) * i <= (- s) * q) by (apply Z.mul_le_mono_nonneg_l; lia). lia.
  - repeat split; try lia.
Qed.

Lemma py_range_len_nonneg a b s : s <> 0 -> 0 <= py_range_len a b s.
Proof.
  intros. destruct (Z.lt_trichotomy s 0) as [H1|[H1|H1]]; try lia.
  - apply (len_spec_neg a b s H1). - apply (len_spec_pos a b s H1).
Qed.

Lemma py_range_length a b s : length (py_range a b s) = Z.to_nat (py_range_len a b s).
Proof. unfold py_range. rewrite map_length, seq_length. reflexivity. Qed.

(* reversed(range) as an indexed sequence *)
Lemma rev_map_seq {A} (f : nat -> A) n :
  rev (map f (seq 0 n)) = map (fun i => f (n - 1 - i)%nat) (seq 0 n).
Proof.
  induction n as [|n IH]; [reflexivity|].
  rewrite seq_S at 1. rewrite map_app, rev_app_distr. cbn [map rev app plus]. rewrite IH.
  cbn [seq map]. f_equal.
  - f_equal. lia.
  - rewrite <- seq_shift, map_map. apply map_ext. intros i. f_equal. lia.
Qed.

Lemma py_reversed_range_indexed a b s :
  py_reversed_range a b s =
  map (fun i => a + s * (py_range_len a b s - 1) - s * Z.of_nat i) (seq 0 (Z.to_nat (py_range_len a b s))).
Proof.
  unfold py_reversed_range, py_range. rewrite rev_map_seq. apply map_ext_in.
  intros i Hi. apply in_seq in Hi. set (N := py_range_len a b s) in *.
  replace (Z.of_nat (Z.to_nat N - 1 - i)) with (N - 1 - Z.of_nat i) by lia. ring.
Qed.

(* ---- forward loops -------------------------------------------------------------------------- *)
Section Fwd.
  Context {S : Type}.
  Variable body : Z -> S -> ctl * S.

  Theorem range_loop_eq w sg a b s fuel st :
    1 <= w -> s <> 0 -> in_range w sg a -> in_range w sg b ->
    fwd_safe w sg a b s = true ->
    (length (py_range a b s) < fuel)%nat ->
    range_loop body w sg a b s fuel st = done_of (py_for body (py_range a b s) st).
  Proof.
    intros Hw Hs Ha Hb Hsafe Hfuel.
    set (n := py_range_len a b s). pose proof (py_range_len_nonneg a b s Hs) as Hn. fold n in Hn.
    unfold range_loop, fwd_safe, unsigned_desc in *.
    destruct (Z.ltb_spec s 0) as [Hneg|Hpos].
    - (* descending *)
      destruct (len_spec_neg a b s Hneg) as (_ & Hin & Hout & Hz). fold n in Hin, Hout, Hz.
      cbn [find_relations snd rel_is_gt] in *. unfold for_from. cbn [rel_is_gt rel_offset rel_incr].
      replace (Z.abs s) with (- s) in * by lia.
      destruct sg; cbn [negb andb] in *.
      + (* signed: for (t = a; t > b; t -= A) *)
        rewrite Z.add_0_r, cop_id by assumption.
        apply c_loop_follows; [|exact Hfuel].
        unfold py_range. fold n.
        apply (follows_indexed0 _ _ _ (fun i => a + s * Z.of_nat i) (fun i => a + s * Z.of_nat i)); [cbn; lia | |].
        * intros i Hi. repeat split.
          -- cbn [rel_test]. specialize (Hin (Z.of_nat i) ltac:(lia)). lia.
          -- replace (a + s * Z.of_nat i - - s) with (a + s * Z.of_nat (Datatypes.S i)) by lia.
             apply cop_id; [assumption|].
             apply in_rangeb_spec in Hsafe.
             apply (in_range_between _ _ (a + s * n) a); try assumption. nia.
        * cbn [rel_test]. rewrite Z2Nat.id by lia. lia.
      + (* unsigned: for (t = a + A; t > b + A; ) { t -= A; *)
        apply andb_true_iff in Hsafe. destruct Hsafe as [S1 S2].
        apply in_rangeb_spec in S1. apply in_rangeb_spec in S2.
        rewrite Z.add_0_r, cop_id, carith_id by assumption.
        apply c_loop_follows; [|exact Hfuel].
        unfold py_range. fold n.
        apply (follows_indexed0 _ _ _ (fun i => a + s * Z.of_nat i - s) (fun i => a + s * Z.of_nat i)); [cbn; lia | |].
        * intros i Hi. specialize (Hin (Z.of_nat i) ltac:(lia)). repeat split.
          -- cbn [rel_test]. lia.
          -- replace (a + s * Z.of_nat i - s - - s) with (a + s * Z.of_nat i) by lia.
             apply cop_id; [assumption|].
             apply (in_range_between _ _ b a); try assumption. nia.
          -- f_equal. lia.
        * cbn [rel_test]. rewrite Z2Nat.id by lia. lia.
    - (* ascending: for (t = a; t < b; t += A) *)
      assert (Hpos' : 0 < s) by lia.
      destruct (len_spec_pos a b s Hpos') as (_ & Hin & Hout & Hz). fold n in Hin, Hout, Hz.
      cbn [find_relations snd rel_is_gt] in *. rewrite andb_false_r in *.
      unfold for_from. cbn [rel_is_gt rel_offset rel_incr]. rewrite andb_false_r.
      replace (Z.abs s) with s in * by lia.
      rewrite Z.add_0_r, cop_id by assumption.
      apply c_loop_follows; [|exact Hfuel].
      unfold py_range. fold n.
      apply (follows_indexed0 _ _ _ (fun i => a + s * Z.of_nat i) (fun i => a + s * Z.of_nat i)); [cbn; lia | |].
      + intros i Hi. repeat split.
        * cbn [rel_test]. specialize (Hin (Z.of_nat i) ltac:(lia)). lia.
        * replace (a + s * Z.of_nat i + s) with (a + s * Z.of_nat (Datatypes.S i)) by lia.
          apply cop_id; [assumption|].
          apply in_rangeb_spec in Hsafe.
          apply (in_range_between _ _ a (a + s * n)); try assumption. nia.
      + cbn [rel_test]. rewrite Z2Nat.id by lia. lia.
  Qed.
End Fwd.

(* ---- reversed loops --------------------------------------------------------------------------- *)
(* the constant start bound without the |s| = 1 shortcut *)
Lemma rev_bound1_const_formula a b s : s <> 0 ->
  rev_bound1_const a b s =
  if s <? 0 then a - Z.abs s * ((a - b - 1) / Z.abs s) - 1 else a + Z.abs s * ((b - a - 1) / Z.abs s) + 1.
Proof.
  intros Hs. unfold rev_bound1_const. destruct (Z.eqb_spec (Z.abs s) 1) as [E|E]; [|reflexivity].
  rewrite E, !Z.div_1_r. destruct (s <? 0); lia.
Qed.

(* first value of the reversed loop: the last element of the range, or a value that fails the test *)
Lemma rev_first_pos a b s : 0 < s ->
  let n := py_range_len a b s in
  let F := rev_bound1_const a b s - 1 in
  (0 < n -> F = a + s * (n - 1)) /\ (n = 0 -> F < a).
Proof.
  intros Hs. cbn zeta. rewrite rev_bound1_const_formula by lia.
  destruct (Z.ltb_spec s 0); [lia|]. replace (Z.abs s) with s by lia.
  unfold py_range_len. destruct (Z.ltb_spec 0 s); [|lia].
  pose proof (Z.div_mod (b - a - 1) s ltac:(lia)) as D.
  pose proof (Z.mod_pos_bound (b - a - 1) s Hs) as M.
  set (q := (b - a - 1) / s) in *. set (r := (b - a - 1) mod s) in *.
  destruct (Z.ltb_spec a b) as [Hab|Hab].
  - split; [intros _; ring_simplify; lia | intros E].
    assert (0 <= q) by (subst q; apply Z.div_pos; lia). lia.
  - split; [lia | intros _]. assert (q <= -1) by nia. nia.
Qed.

Lemma rev_first_neg a b s : s < 0 ->
  let n := py_range_len a b s in
  let F := rev_bound1_const a b s + 1 in
  (0 < n -> F = a + s * (n - 1)) /\ (n = 0 -> a < F).
Proof.
  intros Hs. cbn zeta. rewrite rev_bound1_const_formula by lia.
  destruct (Z.ltb_spec s 0); [|lia]. replace (Z.abs s) with (- s) by lia.
  unfold py_range_len. destruct (Z.ltb_spec 0 s); [lia|].
  pose proof (Z.div_mod (a - b - 1) (- s) ltac:(lia)) as D.
  pose proof (Z.mod_pos_bound (a - b - 1) (- s) ltac:(lia)) as M.
  set (q := (a - b - 1) / (- s)) in *. set (r := (a - b - 1) mod (- s)) in *.
  destruct (Z.ltb_spec b a) as [Hab|Hab].
  - split; [intros _; ring_simplify; lia | intros E].
    assert (0 <= q) by (subst q; apply Z.div_pos; lia). lia.
  - split; [lia | intros _]. assert (q <= -1) by nia. nia.
Qed.

Section Rev.
  Context {S : Type}.
  Variable body : Z -> S -> ctl * S.

  Theorem reversed_loop_const_eq w sg a b s fuel st :
    1 <= w -> s <> 0 -> in_range w sg a ->
    rev_safe w sg (rev_bound1_const a b s) a s = true ->
    (length (py_range a b s) < fuel)%nat ->
    reversed_loop_const body w sg a b s fuel st = done_of (py_for body (py_reversed_range a b s) st).
  Proof.
    intros Hw Hs Ha Hsafe Hfuel.
    set (n := py_range_len a b s). pose proof (py_range_len_nonneg a b s Hs) as Hn. fold n in Hn.
    rewrite py_range_length in Hfuel. fold n in Hfuel.
    rewrite py_reversed_range_indexed. fold n.
    unfold reversed_loop_const, reversed_loop_from, rev_safe, unsigned_desc in *.
    set (b1 := rev_bound1_const a b s) in *.
    apply andb_true_iff in Hsafe. destruct Hsafe as [Sb1 Hsafe]. apply in_rangeb_spec in Sb1.
    destruct (Z.ltb_spec s 0) as [Hneg|Hpos].
    - (* reversed(range(a, b, -A)): for (t = b1 + 1; t <= a; t += A) *)
      destruct (rev_first_neg a b s Hneg) as [F1 F0]. fold n b1 in F1, F0.
      cbn [find_relations fst snd rel_is_gt rel_offset] in *. rewrite andb_false_r in *.
      unfold for_from. cbn [rel_is_gt rel_offset rel_incr]. rewrite andb_false_r.
      replace (Z.abs s) with (- s) in * by lia.
      apply andb_true_iff in Hsafe. destruct Hsafe as [S1 S2].
      apply in_rangeb_spec in S1. apply in_rangeb_spec in S2.
      rewrite cop_id by assumption.
      apply c_loop_follows; [|rewrite map_length, seq_length; exact Hfuel].
      apply (follows_indexed0 _ _ _ (fun i => b1 + 1 - s * Z.of_nat i) (fun i => a + s * (n - 1) - s * Z.of_nat i)).
      + cbn. lia.
      + intros i Hi. specialize (F1 ltac:(lia)). repeat split.
        * cbn [rel_test]. nia.
        * f_equal. lia.
        * replace (a + s * (n - 1) - s * Z.of_nat i + - s) with (b1 + 1 - s * Z.of_nat (Datatypes.S i)) by lia.
          apply cop_id; [assumption|].
          apply (in_range_between _ _ (b1 + 1) (a - s)); try assumption. nia.
      + cbn [rel_test]. rewrite Z2Nat.id by lia.
        destruct (Z.eq_dec n 0) as [E|E]; [specialize (F0 E); rewrite E; lia | specialize (F1 ltac:(lia)); nia].
    - (* reversed(range(a, b, A)) *)
      assert (Hpos' : 0 < s) by lia.
      destruct (rev_first_pos a b s Hpos') as [F1 F0]. fold n b1 in F1, F0.
      cbn [find_relations fst snd rel_is_gt rel_offset] in *.
      unfold for_from. cbn [rel_is_gt rel_offset rel_incr].
      replace (Z.abs s) with s in * by lia.
      destruct sg; cbn [negb andb] in *.
      + (* signed: for (t = b1 - 1; t >= a; t -= A) *)
        apply andb_true_iff in Hsafe. destruct Hsafe as [S1 S2].
        apply in_rangeb_spec in S1. apply in_rangeb_spec in S2.
        rewrite cop_id by assumption.
        apply c_loop_follows; [|rewrite map_length, seq_length; exact Hfuel].
        apply (follows_indexed0 _ _ _ (fun i => b1 + -1 - s * Z.of_nat i) (fun i => a + s * (n - 1) - s * Z.of_nat i)).
        * cbn. lia.
        * intros i Hi. specialize (F1 ltac:(lia)). repeat split.
          -- cbn [rel_test]. nia.
          -- f_equal. lia.
          -- replace (a + s * (n - 1) - s * Z.of_nat i - s) with (b1 + -1 - s * Z.of_nat (Datatypes.S i)) by lia.
             apply cop_id; [assumption|].
             apply (in_range_between _ _ (a - s) (b1 + -1)); try assumption. nia.
        * cbn [rel_test]. rewrite Z2Nat.id by lia.
          destruct (Z.eq_dec n 0) as [E|E]; [specialize (F0 E); rewrite E; lia | specialize (F1 ltac:(lia)); nia].
      + (* unsigned: for (t = b1 - 1 + A; t >= a + A; ) { t -= A; *)
        apply andb_true_iff in Hsafe. destruct Hsafe as [S1 S2].
        apply in_rangeb_spec in S1. apply in_rangeb_spec in S2.
        rewrite cop_id, carith_id by assumption.
        apply c_loop_follows; [|rewrite map_length, seq_length; exact Hfuel].
        apply (follows_indexed0 _ _ _ (fun i => b1 + -1 + s - s * Z.of_nat i) (fun i => a + s * (n - 1) - s * Z.of_nat i)).
        * cbn. lia.
        * intros i Hi. specialize (F1 ltac:(lia)). repeat split.
          -- cbn [rel_test]. nia.
          -- replace (b1 + -1 + s - s * Z.of_nat i - s) with (a + s * (n - 1) - s * Z.of_nat i) by lia.
             apply cop_id; [assumption|].
             apply (in_range_between _ _ a (b1 + -1 + s)); try assumption. nia.
          -- f_equal. lia.
        * cbn [rel_test]. rewrite Z2Nat.id by lia.
          destruct (Z.eq_dec n 0) as [E|E]; [specialize (F0 E); rewrite E; lia | specialize (F1 ltac:(lia)); nia].
  Qed.

  (* runtime bounds: when the C evaluation of the start bound is exact, the loop is the constant-bound loop *)
  Theorem reversed_loop_rt_eq floor w sg cw csg a b s fuel st :
    1 <= w -> s <> 0 -> in_range w sg a ->
    rev_bound1_rt floor cw csg a b s = Some (rev_bound1_const a b s) ->
    rev_safe w sg (rev_bound1_const a b s) a s = true ->
    (length (py_range a b s) < fuel)%nat ->
    reversed_loop_rt body floor w sg cw csg a b s fuel st = done_of (py_for body (py_reversed_range a b s) st).
  Proof.
    intros Hw Hs Ha Hb1 Hsafe Hfuel. unfold reversed_loop_rt. rewrite Hb1.
    apply (reversed_loop_const_eq w sg a b s fuel st); assumption.
  Qed.
End Rev.

(* with Python's // (cdivision=False) and a signed computation type the start bound is exact whenever
   the C expression is free of undefined behaviour *)
Theorem rev_bound1_rt_signed_exact cw csg a b s r :
  s <> 0 -> prom_s cw csg = true ->
  rev_bound1_rt true cw csg a b s = Some r -> r = rev_bound1_const a b s.
Proof.
  intros Hs Hp. unfold rev_bound1_rt, rev_bound1_const. cbn [orb].
  destruct (Z.abs s =? 1); [congruence|].
  destruct (s <? 0).
  - destruct (carith cw csg (a - b)) as [d|] eqn:E1; cbn [bind]; [|discriminate].
    destruct (carith cw csg (d - 1)) as [d1|] eqn:E2; cbn [bind]; [|discriminate].
    destruct (carith cw csg (Z.abs s * (d1 / Z.abs s))) as [m|] eqn:E3; cbn [bind]; [|discriminate].
    destruct (carith cw csg (a - m)) as [x|] eqn:E4; cbn [bind]; [|discriminate].
    intros E5.
    apply carith_signed_exact in E1, E2, E3, E4, E5; try assumption. subst. reflexivity.
  - destruct (carith cw csg (b - a)) as [d|] eqn:E1; cbn [bind]; [|discriminate].
    destruct (carith cw csg (d - 1)) as [d1|] eqn:E2; cbn [bind]; [|discriminate].
    destruct (carith cw csg (Z.abs s * (d1 / Z.abs s))) as [m|] eqn:E3; cbn [bind]; [|discriminate].
    destruct (carith cw csg (a + m)) as [x|] eqn:E4; cbn [bind]; [|discriminate].
    intros E5.
    apply carith_signed_exact in E1, E2, E3, E4, E5; try assumption. subst. reflexivity.
Qed.

(* ---- object targets: the loop variable is a C long and all three arguments are small literals ---- *)
Lemma small_in_range64 v : - 2 ^ 31 <= v < 2 ^ 31 -> in_range 64 true v.
Proof. unfold in_range, min_int, max_int. change (2 ^ (64 - 1)) with 9223372036854775808. lia. Qed.

Lemma fwd_safe_small a b s :
  s <> 0 -> - 2 ^ 30 <= a < 2 ^ 30 -> - 2 ^ 30 <= b < 2 ^ 30 -> - 2 ^ 30 <= s < 2 ^ 30 ->
  fwd_safe 64 true a b s = true.
Proof.
  intros Hs Ha Hb Hs'. unfold fwd_safe, unsigned_desc. cbn [negb andb].
  apply in_rangeb_spec. apply small_in_range64.
  set (n := py_range_len a b s).
  destruct (Z.lt_trichotomy s 0) as [H|[H|H]]; [|lia|].
  - destruct (len_spec_neg a b s H) as (Hn & Hin & Hout & Hz). fold n in Hn, Hin, Hout, Hz.
    destruct (Z.eq_dec n 0) as [E|E]; [rewrite E; lia|].
    specialize (Hin (n - 1) ltac:(lia)). lia.
  - destruct (len_spec_pos a b s H) as (Hn & Hin & Hout & Hz). fold n in Hn, Hin, Hout, Hz.
    destruct (Z.eq_dec n 0) as [E|E]; [rewrite E; lia|].
    specialize (Hin (n - 1) ltac:(lia)). lia.
Qed.

Lemma rev_safe_small a b s :
  s <> 0 -> - 2 ^ 30 <= a < 2 ^ 30 -> - 2 ^ 30 <= b < 2 ^ 30 -> - 2 ^ 30 <= s < 2 ^ 30 ->
  rev_safe 64 true (rev_bound1_const a b s) a s = true.
Proof.
  intros Hs Ha Hb Hs'. unfold rev_safe, unsigned_desc. cbn [negb andb].
  set (n := py_range_len a b s). set (b1 := rev_bound1_const a b s).
  assert (- 2 ^ 31 + 1 <= b1 < 2 ^ 31 - 1) as Hb1.
  { destruct (Z.lt_trichotomy s 0) as [H|[H|H]]; [|lia|].
    - destruct (rev_first_neg a b s H) as [F1 F0]. fold n b1 in F1, F0.
      destruct (len_spec_neg a b s H) as (Hn & Hin & Hout & Hz). fold n in Hn, Hin, Hout, Hz.
      destruct (Z.eq_dec n 0) as [E|E].
      + (* empty: b1 + 1 = a - A*q with -? *) clear F1. specialize (F0 E).
        subst b1. rewrite rev_bound1_const_formula in * by lia.
        destruct (Z.ltb_spec s 0); [|lia]. replace (Z.abs s) with (- s) in * by lia.
        pose proof (Z.div_mod (a - b - 1) (- s) ltac:(lia)) as D.
        pose proof (Z.mod_pos_bound (a - b - 1) (- s) ltac:(lia)) as M.
        set (q := (a - b - 1) / (- s)) in *. set (r := (a - b - 1) mod (- s)) in *. lia.
      + specialize (F1 ltac:(lia)). specialize (Hin (n - 1) ltac:(lia)).
        assert (a + s * (n - 1) <= a) by nia. lia.
    - destruct (rev_first_pos a b s H) as [F1 F0]. fold n b1 in F1, F0.
      destruct (len_spec_pos a b s H) as (Hn & Hin & Hout & Hz). fold n in Hn, Hin, Hout, Hz.
      destruct (Z.eq_dec n 0) as [E|E].
      + clear F1. specialize (F0 E).
        subst b1. rewrite rev_bound1_const_formula in * by lia.
        destruct (Z.ltb_spec s 0); [lia|]. replace (Z.abs s) with s in * by lia.
        pose proof (Z.div_mod (b - a - 1) s ltac:(lia)) as D.
        pose proof (Z.mod_pos_bound (b - a - 1) s ltac:(lia)) as M.
        set (q := (b - a - 1) / s) in *. set (r := (b - a - 1) mod s) in *. lia.
      + specialize (F1 ltac:(lia)). specialize (Hin (n - 1) ltac:(lia)).
        assert (a <= a + s * (n - 1)) by nia. lia. }
  rewrite !andb_true_iff. repeat split; apply in_rangeb_spec; apply small_in_range64.
  - lia.
  - destruct (s <? 0); cbn [find_relations fst rel_offset]; lia.
  - lia.
Qed.

(* ---- enumerate ---------------------------------------------------------------------------------- *)
Lemma py_enumerate_cons v r start :
  py_enumerate (v :: r) start = (start, v) :: py_enumerate r (start + 1).
Proof.
  unfold py_enumerate. cbn [length seq map combine]. f_equal; [f_equal; lia|].
  f_equal. rewrite <- seq_shift, map_map. apply map_ext. intros i. lia.
Qed.

Theorem enumerate_eq {S} (body : Z * Z -> S -> ctl * S) w sg typed vals : forall start st,
  1 <= w ->
  (typed = true -> in_range w sg start /\ in_range w sg (start + Z.of_nat (length vals))) ->
  (let '((_, st'), e) := py_for (enum_body w sg typed body) vals (start, st) in (st', e))
  = py_for_pairs body (py_enumerate vals start) st.
Proof.
  induction vals as [|v r IH]; intros start st Hw Hfit; [reflexivity|].
  rewrite py_enumerate_cons. cbn [py_for py_for_pairs enum_body].
  destruct (body (start, v) st) as [[|] st']; [|reflexivity].
  assert (Hc : (if typed then wrap w sg (start + 1) else start + 1) = start + 1).
  { destruct typed; [|reflexivity]. destruct (Hfit eq_refl) as [H1 H2].
    apply wrap_id; [assumption|]. cbn [length] in H2. unfold in_range in *. lia. }
  rewrite Hc. apply IH; [assumption|].
  intros Ht. destruct (Hfit Ht) as [H1 H2]. cbn [length] in H2. split.
  - unfold in_range in *. lia.
  - replace (start + 1 + Z.of_nat (length r)) with (start + Z.of_nat (Datatypes.S (length r))) by lia. exact H2.
Qed.

(* ---- the observing body: values seen, final target, else flag ------------------------------------ *)
Lemma last_cons {A} (l : list A) : forall x d, last (x :: l) d = last l x.
Proof.
  induction l as [|y l IH]; intros x d; [reflexivity|].
  change (last (x :: y :: l) d) with (last (y :: l) d). rewrite !IH. reflexivity.
Qed.

Lemma py_for_log_nobreak brk vals : forall l t,
  Z.of_nat (length l + length vals) < brk ->
  py_for (log_body brk) vals (l, t) = ((l ++ vals, last (map Some vals) t), true).
Proof.
  induction vals as [|v r IH]; intros l t H.
  - cbn. rewrite app_nil_r. reflexivity.
  - cbn [py_for log_body fst]. rewrite app_length in *. cbn [length] in *.
    destruct (Z.leb_spec brk (Z.of_nat (length l + 1))); [lia|].
    rewrite IH by (rewrite app_length; cbn [length]; lia).
    rewrite <- app_assoc. cbn [app map]. rewrite last_cons. reflexivity.
Qed.

(* the else clause runs iff the body never breaks *)
Lemma py_for_else_iff {S} (body : Z -> S -> ctl * S) vals : forall st,
  snd (py_for body vals st) = false <->
  exists pre v post st1, vals = pre ++ v :: post /\ py_for body pre st = (st1, true) /\ fst (body v st1) = Break.
Proof.
  induction vals as [|v r IH]; intros st.
  - cbn. split; [discriminate|]. intros (pre & v & post & st1 & E & _). destruct pre; discriminate.
  - cbn [py_for]. destruct (body v st) as [[|] st'] eqn:Eb.
    + rewrite IH. split.
      * intros (pre & v' & post & st1 & E & Hp & Hb). exists (v :: pre), v', post, st1.
        subst r. cbn [app py_for]. rewrite Eb. auto.
      * intros (pre & v' & post & st1 & E & Hp & Hb). destruct pre as [|p pre].
        -- cbn in E, Hp. injection E as -> ->. injection Hp as <-. rewrite Eb in Hb. discriminate.
        -- cbn in E. injection E as -> ->. cbn [py_for] in Hp. rewrite Eb in Hp.
           exists pre, v', post, st1. auto.
    + cbn [snd]. split; [intros _|reflexivity].
      exists [], v, r, st. cbn. rewrite Eb. auto.
Qed.

(* ---- refutations (finding F16 and the cdivision-dependent start bound) --------------------------- *)
(* cdef int i; for i in range(2147483646, 2147483647, 2): the increment overflows int -> undefined behaviour *)
Theorem no_wrap_in_increment_refuted_signed :
  exists a b s, in_range 32 true a /\ in_range 32 true b /\ s <> 0 /\
    range_loop (log_body 10) 32 true a b s 20 l0 = UB.
Proof.
  exists 2147483646, 2147483647, 2. repeat split; try (vm_compute; intuition congruence).
Qed.

(* cdef unsigned int i; for i in range(4294967294, 4294967295, 2): wraps to 0 and keeps iterating *)
Theorem no_wrap_in_increment_refuted_unsigned :
  exists a b s, in_range 32 false a /\ in_range 32 false b /\ s <> 0 /\
    range_loop (log_body 3) 32 false a b s 20 l0 = Done ([4294967294; 0; 2], Some 2) false /\
    py_for (log_body 3) (py_range a b s) l0 = (([4294967294], Some 4294967294), true).
Proof.
  exists 4294967294, 4294967295, 2. repeat split; try (vm_compute; intuition congruence).
Qed.

(* cdef unsigned int i; for i in range(4294967295, 4294967290, -3): start + |step| wraps, zero iterations *)
Theorem unsigned_descending_refuted :
  exists a b s, in_range 32 false a /\ in_range 32 false b /\ s <> 0 /\
    range_loop (log_body 10) 32 false a b s 20 l0 = Done l0 true /\
    py_for (log_body 10) (py_range a b s) l0 = (([4294967295; 4294967292], Some 4294967292), true).
Proof.
  exists 4294967295, 4294967290, (-3). repeat split; try (vm_compute; intuition congruence).
Qed.

(* reversed(range(-2147483648, 2147483647, 2)) with int bounds: `b - a` overflows in the bound computation *)
Theorem no_overflow_in_bound_calc_refuted :
  exists a b s, in_range 32 true a /\ in_range 32 true b /\ s <> 0 /\
    rev_bound1_rt true 32 true a b s = None.
Proof.
  exists (-2147483648), 2147483647, 2. repeat split; try (vm_compute; intuition congruence).
Qed.

(* under cdivision=True the start bound of reversed(range(0, 0, 3)) is computed with C division:
   the loop runs once where Python's range is empty *)
Theorem reversed_bound_cdivision_refuted :
  exists a b s, in_range 32 true a /\ in_range 32 true b /\ s <> 0 /\
    reversed_loop_rt (log_body 10) false 32 true 32 true a b s 20 l0 = Done ([0], Some 0) true /\
    py_reversed_range a b s = [].
Proof.
  exists 0, 0, 3. repeat split; try (vm_compute; intuition congruence).
Qed.

(* ---- packaged statements ---------------------------------------------------------------------- *)
Theorem object_target_range_eq {S} (body : Z -> S -> ctl * S) a b s fuel st :
  s <> 0 -> - 2 ^ 30 <= a < 2 ^ 30 -> - 2 ^ 30 <= b < 2 ^ 30 -> - 2 ^ 30 <= s < 2 ^ 30 ->
  (length (py_range a b s) < fuel)%nat ->
  range_loop body 64 true a b s fuel st = done_of (py_for body (py_range a b s) st).
Proof.
  intros Hs Ha Hb Hs' Hf.
  apply (range_loop_eq body); try assumption; try lia; try (apply small_in_range64; lia).
  apply fwd_safe_small; assumption.
Qed.

Theorem object_target_reversed_eq {S} (body : Z -> S -> ctl * S) a b s fuel st :
  s <> 0 -> - 2 ^ 30 <= a < 2 ^ 30 -> - 2 ^ 30 <= b < 2 ^ 30 -> - 2 ^ 30 <= s < 2 ^ 30 ->
  (length (py_range a b s) < fuel)%nat ->
  reversed_loop_const body 64 true a b s fuel st = done_of (py_for body (py_reversed_range a b s) st).
Proof.
  intros Hs Ha Hb Hs' Hf.
  apply (reversed_loop_const_eq body); try assumption; try lia; try (apply small_in_range64; lia).
  apply rev_safe_small; assumption.
Qed.

Theorem iterations_final_value_else w sg a b s fuel brk :
  1 <= w -> s <> 0 -> in_range w sg a -> in_range w sg b -> fwd_safe w sg a b s = true ->
  (length (py_range a b s) < fuel)%nat -> Z.of_nat (length (py_range a b s)) < brk ->
  range_loop (log_body brk) w sg a b s fuel l0
  = Done (py_range a b s, last (map Some (py_range a b s)) None) true.
Proof.
  intros. rewrite (range_loop_eq (log_body brk)) by assumption.
  unfold l0. rewrite py_for_log_nobreak by (cbn [length plus]; assumption). reflexivity.
Qed.
