(* C43 - runs of dots: the TEXT rule (ellipsis | punct | diphthong) of the lexicon under longest match,
   and the relative import level that Parsing.p_from_import_statement computes from the tokens. *)
From Coq Require Import ZArith List Bool Lia Arith PeanoNat.
From CyVerif Require Import Model.M_Plex Proof.P_Plex_Deriv Model.M_Lexicon Proof.P_Lexicon.
Import ListNotations.

Lemma n_matches_empty : forall w, n_matches EEmpty w = false.
Proof. induction w as [|e w IH]; [reflexivity|]. cbn [n_matches n_deriv]. exact IH. Qed.

Lemma firstn_dots j n : (j <= n)%nat -> firstn j (dots n) = dots j.
Proof.
  unfold dots. revert n. induction j as [|j IH]; intros n H; [reflexivity|].
  destruct n as [|n]; [lia|]. cbn [repeat firstn]. rewrite IH by lia. reflexivity.
Qed.
Lemma length_dots n : length (dots n) = n.
Proof. unfold dots. apply repeat_length. Qed.
Lemma dots_S n : dots (S n) = dot_ev :: dots n.
Proof. reflexivity. Qed.

(* ---- which runs of dots are tokens at all ---- *)
Lemma text_dots_ge4 n : n_matches lex_text (dots (4 + n)) = false.
Proof.
  change (dots (4 + n)) with (dot_ev :: dot_ev :: dot_ev :: dot_ev :: dots n).
  cbn [n_matches].
  replace (n_deriv dot_ev (n_deriv dot_ev (n_deriv dot_ev (n_deriv dot_ev lex_text)))) with EEmpty
    by (vm_compute; reflexivity).
  apply n_matches_empty.
Qed.
Theorem text_rule_dots : forall n, L lex_text (dots n) <-> (n = 1 \/ n = 3)%nat.
Proof.
  intros n. rewrite <- n_matches_correct.
  destruct n as [|[|[|[|n]]]].
  - split; [vm_compute; discriminate | lia].
  - split; [auto | intros _; vm_compute; reflexivity].
  - split; [vm_compute; discriminate | lia].
  - split; [auto | intros _; vm_compute; reflexivity].
  - change (S (S (S (S n)))) with (4 + n)%nat. rewrite text_dots_ge4. split; [discriminate | lia].
Qed.
Lemma number_dots_ge2 b n : n_matches (lex_number b) (dots (2 + n)) = false.
Proof.
  change (dots (2 + n)) with (dot_ev :: dot_ev :: dots n). cbn [n_matches].
  replace (n_deriv dot_ev (n_deriv dot_ev (lex_number b))) with EEmpty by (destruct b; vm_compute; reflexivity).
  apply n_matches_empty.
Qed.
Theorem number_rules_dots : forall b n, ~ L (lex_number b) (dots n).
Proof.
  intros b n H. apply n_matches_correct in H.
  destruct n as [|[|n]].
  - destruct b; vm_compute in H; discriminate.
  - destruct b; vm_compute in H; discriminate.
  - change (S (S n)) with (2 + n)%nat in H. rewrite number_dots_ge2 in H. discriminate.
Qed.

(* ---- longest match: meaning of the executable function ---- *)
Lemma longest_from_spec : forall w r pos best, (best <= pos)%nat ->
  let k := longest_from r w pos best in
  (k = best \/ exists j, (0 < j <= length w)%nat /\ k = (pos + j)%nat /\ n_matches r (firstn j w) = true) /\
  (forall j, (0 < j <= length w)%nat -> n_matches r (firstn j w) = true -> (pos + j <= k)%nat) /\
  (best <= k)%nat.
Proof.
  induction w as [|e w IH]; intros r pos best Hb; cbn [longest_from length].
  - split; [left; reflexivity|]. split; [intros j Hj; lia | lia].
  - destruct (is_empty (n_deriv e r)) eqn:He.
    + apply is_empty_spec in He. split; [left; reflexivity|]. split; [|lia].
      intros j Hj Hm. destruct j as [|j]; [lia|]. cbn [firstn n_matches] in Hm.
      rewrite He, n_matches_empty in Hm. discriminate.
    + remember (e_nullable (n_deriv e r)) as nl eqn:Hn. symmetry in Hn.
      remember (if nl then S pos else best) as best' eqn:Hbest.
      assert (Hb' : (best' <= S pos)%nat) by (subst best'; destruct nl; lia).
      assert (Hbb : (best <= best')%nat) by (subst best'; destruct nl; lia).
      destruct (IH (n_deriv e r) (S pos) best' Hb') as (H1 & H2 & H3).
      cbv zeta in H1, H2, H3. cbv zeta.
      remember (longest_from (n_deriv e r) w (S pos) best') as k' eqn:Hk'.
      split; [|split].
      * destruct H1 as [H1 | (j & Hj & Hk & Hm)].
        -- destruct nl.
           ++ right. exists 1%nat. split; [lia|]. split; [lia|].
              cbn [firstn n_matches]. exact Hn.
           ++ left. lia.
        -- right. exists (S j). split; [lia|]. split; [lia|]. cbn [firstn n_matches]. exact Hm.
      * intros j Hj Hm. destruct j as [|[|j]]; [lia| |].
        -- cbn [firstn n_matches] in Hm. rewrite Hm in Hn. subst nl. lia.
        -- change (firstn (S (S j)) (e :: w)) with (e :: firstn (S j) w) in Hm. cbn [n_matches] in Hm.
           assert (S pos + S j <= k')%nat by (apply H2; [lia | exact Hm]). lia.
      * lia.
Qed.
Theorem longest_spec : forall r w,
  let k := longest r w in
  (k <= length w)%nat /\ ((0 < k)%nat -> L r (firstn k w)) /\
  (forall j, (k < j <= length w)%nat -> ~ L r (firstn j w)).
Proof.
  intros r w k. destruct (longest_from_spec w r 0 0 (le_n 0)) as (H1 & H2 & _). fold (longest r w) in H1, H2. fold k in H1, H2.
  split; [|split].
  - destruct H1 as [-> | (j & Hj & -> & _)]; lia.
  - intros Hk. destruct H1 as [H1 | (j & Hj & Hkj & Hm)]; [lia|]. cbn in Hkj. subst k. rewrite Hkj.
    apply n_matches_correct. exact Hm.
  - intros j Hj HL. apply n_matches_correct in HL. specialize (H2 j). cbn in H2. assert (j <= k)%nat by (apply H2; [lia | exact HL]). lia.
Qed.

(* ---- the longest TEXT match on a run of dots ---- *)
Lemma longest_text_dots_ge3 n : longest lex_text (dots (3 + n)) = 3%nat.
Proof.
  destruct n as [|n].
  - vm_compute. reflexivity.
  - change (dots (3 + S n)) with (dot_ev :: dot_ev :: dot_ev :: dot_ev :: dots n).
    unfold longest. cbn [longest_from].
    replace (n_deriv dot_ev lex_text) with (n_deriv dot_ev lex_text) by reflexivity.
    remember (dots n) as rest. vm_compute. reflexivity.
Qed.
Lemma longest_number_dots b n : longest (lex_number b) (dots n) = 0%nat.
Proof.
  destruct n as [|[|n]].
  - reflexivity.
  - destruct b; vm_compute; reflexivity.
  - change (dots (S (S n))) with (dot_ev :: dot_ev :: dots n). remember (dots n) as rest.
    destruct b; vm_compute; reflexivity.
Qed.

Lemma dot_tokens_lt3 n : (n < 3)%nat -> dot_tokens n = repeat 1%nat n.
Proof. intros H. unfold dot_tokens. rewrite Nat.div_small, Nat.mod_small by lia. reflexivity. Qed.
Lemma dot_tokens_add3 n : dot_tokens (3 + n) = 3%nat :: dot_tokens n.
Proof.
  unfold dot_tokens.
  replace (3 + n)%nat with (n + 1 * 3)%nat by lia.
  rewrite Nat.div_add, Nat.mod_add by lia. rewrite Nat.add_1_r. reflexivity.
Qed.

Theorem scan_dots_correct : forall fixed n fuel, (n <= fuel)%nat -> scan_dots fuel fixed n = dot_tokens n.
Proof.
  intros fixed n. induction n as [n IH] using (well_founded_induction lt_wf). intros fuel Hf.
  destruct n as [|[|[|n]]].
  - destruct fuel; reflexivity.
  - destruct fuel as [|fuel]; [lia|]. cbn [scan_dots]. rewrite longest_number_dots. cbn [Nat.ltb Nat.leb].
    replace (longest lex_text (dots 1)) with 1%nat by (vm_compute; reflexivity).
    cbn [Nat.sub]. rewrite (IH 0%nat) by lia. reflexivity.
  - destruct fuel as [|fuel]; [lia|]. cbn [scan_dots]. rewrite longest_number_dots. cbn [Nat.ltb Nat.leb].
    replace (longest lex_text (dots 2)) with 1%nat by (vm_compute; reflexivity).
    change (2 - 1)%nat with 1%nat. rewrite (IH 1%nat) by lia. reflexivity.
  - destruct fuel as [|fuel]; [lia|]. cbn [scan_dots]. rewrite longest_number_dots. cbn [Nat.ltb Nat.leb].
    change (S (S (S n))) with (3 + n)%nat. rewrite longest_text_dots_ge3.
    replace (3 + n - 3)%nat with n by lia. rewrite (IH n) by lia. rewrite dot_tokens_add3. reflexivity.
Qed.

Theorem dot_tokens_level : forall n, import_level (dot_tokens n) = n.
Proof.
  intros n. induction n as [n IH] using (well_founded_induction lt_wf).
  destruct (Nat.lt_ge_cases n 3) as [H | H].
  - rewrite dot_tokens_lt3 by exact H. destruct n as [|[|[|n]]]; try reflexivity; lia.
  - replace n with (3 + (n - 3))%nat at 1 by lia. rewrite dot_tokens_add3. cbn [import_level fold_right].
    fold (import_level (dot_tokens (n - 3))). rewrite IH by lia. lia.
Qed.
Theorem dot_tokens_shape : forall n, Forall (fun k => k = 1 \/ k = 3)%nat (dot_tokens n).
Proof.
  intros n. unfold dot_tokens. apply Forall_app. split; apply Forall_forall; intros x Hx; apply repeat_spec in Hx; lia.
Qed.
