(* Proofs about Model/M_IntFmt.v, part 1: tables, specification digits, one pass of the C loop. *)
From Coq Require Import ZArith List Bool Lia ZifyBool ZifyNat.
From CyVerif Require Import Lib.CInt Model.M_IntFmt.
Import ListNotations.
Open Scope Z_scope.
Ltac Zify.zify_post_hook ::= Z.to_euclidean_division_equations.

Ltac ifs := repeat match goal with
  | |- context [if ?c <? ?d then _ else _] => destruct (Z.ltb_spec c d)
  | |- context [if ?c =? ?d then _ else _] => destruct (Z.eqb_spec c d)
  | |- context [if ?c <=? ?d then _ else _] => destruct (Z.leb_spec c d)
  end.

(* ---------- finite table facts, by computation over the whole index range ---------- *)
Lemma zseq_forall (P : Z -> bool) n :
  forallb P (zseq n) = true -> forall i, 0 <= i < Z.of_nat n -> P i = true.
Proof.
  intros H i Hi. rewrite forallb_forall in H. apply H. unfold zseq.
  apply in_map_iff. exists (Z.to_nat i). split; [lia|]. apply in_seq. lia.
Qed.

Definition pair_ok (t : list Z) (b i : Z) : bool :=
  match tbl_get t (i * 2), tbl_get t (i * 2 + 1) with
  | Some c1, Some c2 => (c1 =? 48 + i / b) && (c2 =? 48 + i mod b)
  | _, _ => false
  end.

Lemma pairs_get t b i : pair_ok t b i = true ->
  tbl_get t (i * 2) = Some (48 + i / b) /\ tbl_get t (i * 2 + 1) = Some (48 + i mod b).
Proof.
  unfold pair_ok. destruct (tbl_get t (i * 2)); [|discriminate].
  destruct (tbl_get t (i * 2 + 1)); [|discriminate].
  intros H. apply andb_true_iff in H. destruct H as [H1 H2].
  apply Z.eqb_eq in H1. apply Z.eqb_eq in H2. subst. auto.
Qed.

Lemma pairs8 i : 0 <= i < 64 -> pair_ok DIGIT_PAIRS_8 8 i = true.
Proof. apply (zseq_forall (pair_ok DIGIT_PAIRS_8 8) 64). vm_compute. reflexivity. Qed.
Lemma pairs10 i : 0 <= i < 100 -> pair_ok DIGIT_PAIRS_10 10 i = true.
Proof. apply (zseq_forall (pair_ok DIGIT_PAIRS_10 10) 100). vm_compute. reflexivity. Qed.

Definition hex_ok (upp : bool) (d : Z) : bool :=
  match tbl_get DIGITS_HEX ((if upp then 16 else 0) + d) with
  | Some c => c =? digit_char upp d | None => false end.
Lemma hex_get (upp : bool) d : 0 <= d < 16 ->
  tbl_get DIGITS_HEX ((if upp then 16 else 0) + d) = Some (digit_char upp d).
Proof.
  intros H. assert (E : hex_ok upp d = true).
  { destruct upp; apply (zseq_forall (hex_ok _) 16); try (vm_compute; reflexivity); exact H. }
  unfold hex_ok in E. destruct (tbl_get DIGITS_HEX _); [|discriminate].
  apply Z.eqb_eq in E. subst. reflexivity.
Qed.

(* ---------- the specification digits ---------- *)
Definition okb (b : Z) : Prop := b = 8 \/ b = 10 \/ b = 16.

Lemma pow2_succ_nat f : 2 ^ Z.of_nat (S f) = 2 * 2 ^ Z.of_nat f.
Proof. rewrite Nat2Z.inj_succ. apply Z.pow_succ_r. lia. Qed.

Lemma digs_fuel b u : okb b -> forall f1 f2 n,
  0 <= n < 2 ^ Z.of_nat (S f1) -> n < 2 ^ Z.of_nat (S f2) ->
  digs (S f1) b u n = digs (S f2) b u n.
Proof.
  intros Hb. induction f1 as [|f1 IH]; intros f2 n H1 H2.
  - change (2 ^ Z.of_nat 1) with 2 in H1.
    cbn [digs]. assert (E : n / b = 0) by (destruct Hb as [->|[->| ->]]; lia).
    rewrite E. reflexivity.
  - cbn [digs]. destruct (Z.eqb_spec (n / b) 0) as [E|E]; [reflexivity|].
    f_equal. rewrite pow2_succ_nat in H1.
    destruct f2 as [|f2].
    + change (2 ^ Z.of_nat 1) with 2 in H2. exfalso. destruct Hb as [->|[->| ->]]; lia.
    + rewrite pow2_succ_nat in H2. apply IH; destruct Hb as [->|[->| ->]]; lia.
Qed.

Lemma py_digits_step b u n : okb b -> 0 <= n ->
  py_digits b u n = (if n / b =? 0 then [] else py_digits b u (n / b)) ++ [digit_char u (n mod b)].
Proof.
  intros Hb Hn. unfold py_digits at 1. cbn [digs].
  destruct (Z.eqb_spec (n / b) 0) as [E|E]; [reflexivity|]. f_equal.
  assert (Hq : 1 <= n / b < n) by (destruct Hb as [->|[->| ->]]; lia).
  assert (H2 : 2 <= n) by lia.
  pose proof (Z.log2_spec n ltac:(lia)) as [L1 L2].
  pose proof (Z.log2_spec (n / b) ltac:(lia)) as [M1 M2].
  assert (Lp : 1 <= Z.log2 n).
  { destruct (Z.le_gt_cases 1 (Z.log2 n)); [assumption|].
    assert (Z.log2 n = 0) by (pose proof (Z.log2_nonneg n); lia).
    rewrite H0 in L2. change (2 ^ Z.succ 0) with 2 in L2. lia. }
  unfold py_digits.
  destruct (Z.to_nat (Z.log2 n)) as [|k] eqn:K; [lia|].
  apply digs_fuel; [assumption| |].
  - replace (Z.of_nat (S k)) with (Z.log2 n) by lia.
    rewrite Z.pow_succ_r in L2 by (apply Z.log2_nonneg).
    destruct Hb as [->|[->| ->]]; lia.
  - replace (Z.of_nat (S (Z.to_nat (Z.log2 (n / b))))) with (Z.succ (Z.log2 (n / b)))
      by (pose proof (Z.log2_nonneg (n / b)); lia).
    lia.
Qed.

Lemma py_digits_small b u n : okb b -> 0 <= n < b -> py_digits b u n = [digit_char u n].
Proof.
  intros Hb H. rewrite py_digits_step by (assumption || lia).
  assert (E : n / b = 0) by (destruct Hb as [->|[->| ->]]; lia).
  assert (E2 : n mod b = n) by (destruct Hb as [->|[->| ->]]; lia).
  rewrite E, E2. reflexivity.
Qed.

Lemma py_digits_nonempty b u n : okb b -> 0 <= n -> (1 <= length (py_digits b u n))%nat.
Proof.
  intros Hb H. rewrite py_digits_step by assumption. rewrite app_length. cbn [length]. lia.
Qed.

(* ---------- digits parse back, are valid, have no leading zero ---------- *)
Lemma parse_app b l c : parse_base b (l ++ [c]) = parse_base b l * b + digit_val c.
Proof. unfold parse_base. rewrite fold_left_app. reflexivity. Qed.

Lemma digit_val_char u d : 0 <= d < 16 -> digit_val (digit_char u d) = d.
Proof. intros H. unfold digit_val, digit_char. destruct u; ifs; lia. Qed.

Lemma is_digit_char b u d : okb b -> 0 <= d < b -> is_digit_of b u (digit_char u d) = true.
Proof.
  intros Hb H. unfold is_digit_of. rewrite digit_val_char by (destruct Hb as [->|[->| ->]]; lia).
  rewrite Z.eqb_refl. lia.
Qed.

Definition no_leading_zero (n : Z) (l : list Z) : Prop :=
  match l with [] => False | c :: rest => c = 48 -> (n = 0 /\ rest = []) end.

Lemma digit_char_48 u d : 0 <= d < 16 -> digit_char u d = 48 -> d = 0.
Proof. unfold digit_char. destruct u; ifs; lia. Qed.

Lemma py_digits_correct b u : okb b -> forall k n, 0 <= n < Z.of_nat k ->
  parse_base b (py_digits b u n) = n /\
  forallb (is_digit_of b u) (py_digits b u n) = true /\
  no_leading_zero n (py_digits b u n).
Proof.
  intros Hb. induction k as [|k IH]; intros n Hn; [lia|].
  rewrite py_digits_step by (assumption || lia).
  assert (Hm : 0 <= n mod b < b) by (destruct Hb as [->|[->| ->]]; lia).
  assert (Hm16 : 0 <= n mod b < 16) by (destruct Hb as [->|[->| ->]]; lia).
  destruct (Z.eqb_spec (n / b) 0) as [E|E].
  - cbn [app]. unfold parse_base. cbn [fold_left forallb no_leading_zero].
    rewrite digit_val_char by assumption. rewrite is_digit_char by assumption.
    repeat split; try (destruct Hb as [->|[->| ->]]; lia).
    apply digit_char_48 in H; [|assumption]. destruct Hb as [->|[->| ->]]; lia.
  - assert (Hq : 1 <= n / b < n) by (destruct Hb as [->|[->| ->]]; lia).
    destruct (IH (n / b) ltac:(lia)) as (P1 & P2 & P3).
    rewrite parse_app, P1, digit_val_char by assumption.
    rewrite forallb_app, P2. cbn [forallb]. rewrite is_digit_char by assumption.
    repeat split; try (destruct Hb as [->|[->| ->]]; lia).
    destruct (py_digits b u (n / b)) as [|c rest]; [contradiction|].
    cbn [app no_leading_zero] in *. intros C. destruct (P3 C). lia.
Qed.

(* ---------- C arithmetic in the loop ---------- *)
Lemma int_small x : -100 < x < 100 -> wrap 32 true x = x.
Proof.
  intros H. apply wrap_id; [lia|]. unfold in_range, min_int, max_int.
  change (2 ^ (32 - 1)) with 2147483648. lia.
Qed.

Lemma quot_in_range w s a c : 1 <= w -> in_range w s a -> (c = 64 \/ c = 100 \/ c = 16) ->
  wrap w s (Z.quot a c) = Z.quot a c /\ in_range w s (Z.quot a c).
Proof.
  intros Hw Ha Hc.
  assert (R : in_range w s (Z.quot a c)).
  { unfold in_range, min_int, max_int in *. pose proof (pow2_pos (w - 1) ltac:(lia)).
    pose proof (pow2_pos w ltac:(lia)). destruct s; destruct Hc as [->|[->| ->]]; lia. }
  split; [apply wrap_id; assumption | assumption].
Qed.

Lemma pow2_ge_64 m : 0 <= m -> 64 <= 2 ^ m -> 6 <= m /\ 2 ^ m = 64 * 2 ^ (m - 6).
Proof.
  intros Hm H. assert (6 <= m).
  { destruct (Z.le_gt_cases 6 m); [assumption|].
    pose proof (Z.pow_le_mono_r 2 m 5 ltac:(lia) ltac:(lia)) as P.
    change (2 ^ 5) with 32 in P. lia. }
  split; [assumption|]. change 64 with (2 ^ 6). rewrite <- Z.pow_add_r by lia. f_equal. lia.
Qed.

Lemma pow2_ge_16 m : 0 <= m -> 16 <= 2 ^ m -> 4 <= m /\ 2 ^ m = 16 * 2 ^ (m - 4).
Proof.
  intros Hm H. assert (4 <= m).
  { destruct (Z.le_gt_cases 4 m); [assumption|].
    pose proof (Z.pow_le_mono_r 2 m 3 ltac:(lia) ltac:(lia)) as P.
    change (2 ^ 3) with 8 in P. lia. }
  split; [assumption|]. change 16 with (2 ^ 4). rewrite <- Z.pow_add_r by lia. f_equal. lia.
Qed.

Definition opt0 (loo : bool) : list Z := if loo then [48] else [].

(* one pass of case 'o' / case 'd' *)
Lemma pair_step_spec w s b table rem dpos buf :
  1 <= w -> in_range w s rem ->
  ((b = 8 /\ table = DIGIT_PAIRS_8) \/ (b = 10 /\ table = DIGIT_PAIRS_10)) ->
  2 <= dpos ->
  pair_step w s b table rem dpos buf =
    SOk (Z.quot rem (b * b)) (dpos - 2)
        ((48 + (Z.abs rem mod (b * b)) / b) :: (48 + (Z.abs rem mod (b * b)) mod b) :: buf)
        (Z.abs rem mod (b * b) <? b).
Proof.
  intros Hw Hr Hb Hd. unfold pair_step.
  assert (Hc : b * b = 64 \/ b * b = 100 \/ b * b = 16) by (destruct Hb as [[-> _]|[-> _]]; lia).
  destruct (quot_in_range w s rem (b * b) Hw Hr Hc) as [Q _]. rewrite Q.
  assert (A : Z.abs (wrap 32 true (Z.rem rem (b * b))) = Z.abs rem mod (b * b)).
  { rewrite int_small by (destruct Hb as [[-> _]|[-> _]]; lia).
    destruct Hb as [[-> _]|[-> _]]; lia. }
  rewrite A.
  destruct (Z.ltb_spec (dpos - 2) 0); [lia|].
  set (dp := Z.abs rem mod (b * b)).
  assert (G : tbl_get table (dp * 2) = Some (48 + dp / b) /\ tbl_get table (dp * 2 + 1) = Some (48 + dp mod b)).
  { apply pairs_get. subst dp. destruct Hb as [[-> ->]|[-> ->]]; [apply pairs8 | apply pairs10]; lia. }
  destruct G as [G1 G2]. rewrite G1, G2. reflexivity.
Qed.

Lemma pair_arith b n : (b = 8 \/ b = 10) -> 0 <= n ->
  (n mod (b * b)) / b = (n / b) mod b /\ (n mod (b * b)) mod b = n mod b.
Proof. intros [-> | ->] H; lia. Qed.

Lemma quot_abs_pair b r : (b = 8 \/ b = 10) -> Z.abs (Z.quot r (b * b)) = Z.abs r / (b * b).
Proof. intros [-> | ->]; lia. Qed.

Lemma d48 x : 0 <= x < 10 -> digit_char false x = 48 + x.
Proof. intros H. unfold digit_char. ifs; lia. Qed.

(* characters of the last pass: the pair is the digits, with one excess '0' iff pair < b *)
Lemma last_pass_chars b n : (b = 8 \/ b = 10) -> 0 <= n -> n / (b * b) = 0 ->
  [48 + n / b mod b; 48 + n mod b] = opt0 (n mod (b * b) <? b) ++ py_digits b false n.
Proof.
  intros Hb Hn E. assert (Hokb : okb b) by (destruct Hb as [->| ->]; unfold okb; auto).
  destruct (Z.ltb_spec (n mod (b * b)) b) as [L|L]; cbn [opt0 app].
  - assert (F : n < b /\ n / b mod b = 0 /\ n mod b = n /\ n < 10) by (destruct Hb as [->| ->]; lia).
    destruct F as (F1 & F2 & F3 & F4).
    rewrite py_digits_small by (try assumption; lia). rewrite d48 by lia. rewrite F2, F3. reflexivity.
  - assert (F : n / b <> 0 /\ 0 <= n / b < b /\ n / b mod b = n / b /\ n / b < 10 /\ 0 <= n mod b < 10)
      by (destruct Hb as [->| ->]; lia).
    destruct F as (F1 & F2 & F3 & F4 & F5).
    rewrite (py_digits_step b false n) by assumption.
    destruct (Z.eqb_spec (n / b) 0) as [C|_]; [contradiction|].
    rewrite py_digits_small by assumption. rewrite !d48 by lia. rewrite F3. reflexivity.
Qed.

Lemma more_pass_chars b n : (b = 8 \/ b = 10) -> 0 <= n -> n / (b * b) <> 0 ->
  py_digits b false n = py_digits b false (n / (b * b)) ++ [48 + n / b mod b; 48 + n mod b].
Proof.
  intros Hb Hn E. assert (Hokb : okb b) by (destruct Hb as [->| ->]; unfold okb; auto).
  assert (F : n / b <> 0 /\ 0 <= n / b /\ 0 <= n / b mod b < 10 /\ 0 <= n mod b < 10 /\ n / b / b = n / (b * b))
    by (destruct Hb as [->| ->]; lia).
  destruct F as (F1 & F2 & F3 & F4 & F5).
  rewrite (py_digits_step b false n) by assumption.
  destruct (Z.eqb_spec (n / b) 0) as [C|_]; [contradiction|].
  rewrite (py_digits_step b false (n / b)) by assumption. rewrite F5.
  destruct (Z.eqb_spec (n / (b * b)) 0) as [C|_]; [contradiction|].
  rewrite !d48 by lia. rewrite <- app_assoc. reflexivity.
Qed.

Lemma more_pass_bounds b n X Y : (b = 8 \/ b = 10) -> 0 <= n -> n / (b * b) <> 0 ->
  64 <= n /\ 1 <= n / (b * b) /\ (n <= 64 * X -> n / (b * b) <= X) /\ (n < 2 * Y -> n / (b * b) < Y).
Proof. intros [-> | ->] H E; lia. Qed.

Lemma div6 m : (m - 6) / 6 = m / 6 - 1.
Proof. lia. Qed.

Definition is_pair_fc (fc b : Z) (table : list Z) : Prop :=
  (fc = 111 /\ b = 8 /\ table = DIGIT_PAIRS_8) \/ (fc = 100 /\ b = 10 /\ table = DIGIT_PAIRS_10).

Lemma pair_unfold w s fc b table hexoff f rem dpos buf loo0 :
  1 <= w -> is_pair_fc fc b table -> in_range w s rem -> 2 <= dpos ->
  digits_loop (S f) w s fc hexoff rem dpos buf loo0 =
    let n := Z.abs rem in
    let buf' := (48 + n / b mod b) :: (48 + n mod b) :: buf in
    if Z.quot rem (b * b) =? 0 then LDone (dpos - 2) buf' (n mod (b * b) <? b)
    else digits_loop f w s fc hexoff (Z.quot rem (b * b)) (dpos - 2) buf' (n mod (b * b) <? b).
Proof.
  intros Hw Hfc Hr Hd. cbn [digits_loop].
  assert (Hb8 : b = 8 \/ b = 10) by (destruct Hfc as [(_ & -> & _)|(_ & -> & _)]; auto).
  assert (St : (if fc =? 111 then pair_step w s 8 DIGIT_PAIRS_8 rem dpos buf
                else if fc =? 100 then pair_step w s 10 DIGIT_PAIRS_10 rem dpos buf
                else if fc =? 120 then hex_step w s hexoff rem dpos buf loo0 else SErr ErrAssert)
               = pair_step w s b table rem dpos buf).
  { destruct Hfc as [(-> & -> & ->)|(-> & -> & ->)]; reflexivity. }
  rewrite St. rewrite (pair_step_spec w s b table) by
    (try assumption; destruct Hfc as [(_ & -> & ->)|(_ & -> & ->)]; auto).
  destruct (pair_arith b (Z.abs rem) Hb8 ltac:(apply Z.abs_nonneg)) as (A1 & A2).
  rewrite A1, A2. reflexivity.
Qed.


(* ---------- case 'x' ---------- *)
Lemma hex_step_spec w s (upp : bool) rem dpos buf loo :
  1 <= w -> in_range w s rem -> 1 <= dpos ->
  hex_step w s (if upp then 16 else 0) rem dpos buf loo =
    SOk (Z.quot rem 16) (dpos - 1) (digit_char upp (Z.abs rem mod 16) :: buf) loo.
Proof.
  intros Hw Hr Hd. unfold hex_step.
  destruct (quot_in_range w s rem 16 Hw Hr ltac:(auto)) as [Q _]. rewrite Q.
  assert (A : Z.abs (wrap 32 true (Z.rem rem 16)) = Z.abs rem mod 16).
  { rewrite int_small by lia. lia. }
  rewrite A. destruct (Z.ltb_spec (dpos - 1) 0); [lia|].
  rewrite hex_get by lia. reflexivity.
Qed.

Lemma hex_unfold w s (upp : bool) f rem dpos buf loo0 :
  1 <= w -> in_range w s rem -> 1 <= dpos ->
  digits_loop (S f) w s 120 (if upp then 16 else 0) rem dpos buf loo0 =
    let buf' := digit_char upp (Z.abs rem mod 16) :: buf in
    if Z.quot rem 16 =? 0 then LDone (dpos - 1) buf' loo0
    else digits_loop f w s 120 (if upp then 16 else 0) (Z.quot rem 16) (dpos - 1) buf' loo0.
Proof.
  intros Hw Hr Hd. cbn [digits_loop].
  change (120 =? 111) with false. change (120 =? 100) with false. change (120 =? 120) with true.
  cbv iota. rewrite hex_step_spec by assumption. reflexivity.
Qed.

Lemma hex_last u n : 0 <= n -> n / 16 = 0 -> [digit_char u (n mod 16)] = py_digits 16 u n.
Proof.
  intros Hn E. rewrite (py_digits_step 16 u n) by (unfold okb; auto). rewrite E. reflexivity.
Qed.

Lemma hex_more u n : 0 <= n -> n / 16 <> 0 ->
  py_digits 16 u n = py_digits 16 u (n / 16) ++ [digit_char u (n mod 16)].
Proof.
  intros Hn E. rewrite (py_digits_step 16 u n) by (unfold okb; auto).
  destruct (Z.eqb_spec (n / 16) 0); [contradiction|reflexivity].
Qed.

Lemma hex_bounds n X Y : 0 <= n -> n / 16 <> 0 ->
  16 <= n /\ 1 <= n / 16 /\ (n <= 16 * X -> n / 16 <= X) /\ (n < 2 * Y -> n / 16 < Y).
Proof. intros H E; lia. Qed.

Lemma quot_abs_16 r : Z.abs (Z.quot r 16) = Z.abs r / 16.
Proof. lia. Qed.

Lemma div4 m : (m - 4) / 4 = m / 4 - 1.
Proof. lia. Qed.

(* the declared buffer size against the worst-case number of characters *)
Lemma buf_bounds w : 1 <= w ->
  2 * ((w - 1) / 6 + 1) + 1 <= buf_size w /\ 2 * (w / 6 + 1) <= buf_size w /\
  (w - 1) / 4 + 2 <= buf_size w /\ w / 4 + 1 <= buf_size w.
Proof. intros H. unfold buf_size, sizeof. lia. Qed.

(* ---------- the 'c' range test ---------- *)
Lemma land_high v : 0 <= v -> (Z.land v (Z.lnot 2097151) =? 0) = (v <? 2097152).
Proof.
  intros H. rewrite <- Z.ldiff_land. change 2097151 with (Z.ones 21).
  rewrite Z.ldiff_ones_r by lia. rewrite Z.shiftr_div_pow2, Z.shiftl_mul_pow2 by lia.
  change (2 ^ 21) with 2097152. lia.
Qed.

Lemma int_id x : 0 <= x < 2147483648 -> wrap 32 true x = x.
Proof.
  intros H. apply wrap_id; [lia|]. unfold in_range, min_int, max_int.
  change (2 ^ (32 - 1)) with 2147483648. lia.
Qed.

Lemma small_type w s v : 1 <= w -> sizeof w <= 2 -> in_range w s v -> v < 65536.
Proof.
  intros Hw Hs Hr. unfold sizeof in Hs. assert (w <= 16) by lia.
  pose proof (Z.pow_le_mono_r 2 w 16 ltac:(lia) ltac:(lia)) as P. change (2 ^ 16) with 65536 in P.
  pose proof (pow2_split w Hw). pose proof (pow2_pos (w - 1) ltac:(lia)).
  unfold in_range, min_int, max_int in Hr. destruct s; lia.
Qed.

Lemma mods v : (0 <= v < 256 -> v mod 256 = v) /\ (0 <= v < 2097152 -> v mod 2097152 = v).
Proof. lia. Qed.
