(* C06 -- proofs about the float(str/bytes) pre-scanner (Model/M_AsDouble.v). *)
From Coq Require Import ZArith List Bool Lia ZifyBool.
From CyVerif Require Import Model.M_AsDouble.
Import ListNotations.
Open Scope Z_scope.

(* ---------- stripping ---------- *)

Lemma lskip_some sp mem rest :
  lskip sp mem = Some rest ->
  exists ws, mem = ws ++ rest /\ Forall (fun c => sp c = true) ws /\
             exists c t, rest = c :: t /\ sp c = false.
Proof.
  revert rest. induction mem as [|c t IH]; intros rest H; cbn in H; [discriminate|].
  destruct (sp c) eqn:E.
  - destruct (IH _ H) as (ws & -> & Hws & Hr). exists (c :: ws). repeat split; auto.
  - injection H as <-. exists []. repeat split; auto. exists c, t. auto.
Qed.

Lemma lskip_terminated sp data : sp 0 = false -> lskip sp (data ++ [0]) <> None.
Proof.
  intros H0. induction data as [|c t IH]; cbn.
  - rewrite H0. discriminate.
  - destruct (sp c); [exact IH | discriminate].
Qed.

Lemma dropwhile_split sp l :
  exists ws, l = ws ++ dropwhile sp l /\ Forall (fun c => sp c = true) ws.
Proof.
  induction l as [|c t IH]; cbn.
  - exists []. auto.
  - destruct (sp c) eqn:E.
    + destruct IH as (ws & H1 & H2). exists (c :: ws). split; [cbn; congruence | auto].
    + exists []. auto.
Qed.

Lemma rstrip_split sp body :
  exists ws, body = rstrip sp body ++ ws /\ Forall (fun c => sp c = true) ws.
Proof.
  destruct body as [|c t]; cbn.
  - exists []. auto.
  - destruct (dropwhile_split sp (rev t)) as (ws & H1 & H2).
    exists (rev ws). split.
    + f_equal. rewrite <- (rev_involutive t), H1 at 1. rewrite rev_app_distr. reflexivity.
    + apply Forall_rev. exact H2.
Qed.

Lemma rstrip_length sp body : (length (rstrip sp body) <= length body)%nat.
Proof.
  destruct (rstrip_split sp body) as (ws & H & _). rewrite H at 2. rewrite app_length. lia.
Qed.

(* the buffer from `start` on is: stripped region, stripped spaces, terminator *)
Lemma rest_shape sp data rest :
  lskip sp (data ++ [0]) = Some rest ->
  exists ws, rest = rstrip sp (removelast rest) ++ ws /\ (1 <= length ws)%nat.
Proof.
  intros H. destruct (lskip_some _ _ _ H) as (pre & E & _ & c & t & Hr & _).
  assert (Hne : rest <> []) by (rewrite Hr; discriminate).
  destruct (rstrip_split sp (removelast rest)) as (ws & H1 & _).
  exists (ws ++ [last rest 0]). split.
  - rewrite app_assoc, <- H1. apply app_removelast_last. exact Hne.
  - rewrite app_length. cbn. lia.
Qed.

(* ---------- inf_nan never reads outside the buffer ---------- *)

Lemma rd_some l i : (i < length l)%nat -> exists c, rd l i = Some c.
Proof.
  intros H. unfold rd. destruct (nth_error l i) eqn:E; [eauto|].
  apply nth_error_None in E. lia.
Qed.

Lemma inf_nan_no_oob rest len :
  (1 <= len)%nat -> (len < length rest)%nat -> inf_nan rest (Z.of_nat len) <> INOOB.
Proof.
  intros H1 H2. unfold inf_nan.
  destruct (rd_some rest 0 ltac:(lia)) as (sign & ->).
  set (sg := (sign =? 45) || (sign =? 43)).
  destruct (rd_some rest (if sg then 1%nat else 0%nat) ltac:(destruct sg; lia)) as (c0 & ->).
  destruct (is2 c0 110 78).
  { destruct (negb _) eqn:E3; [discriminate|].
    destruct (rd_some rest ((if sg then 1 else 0) + 1)%nat ltac:(destruct sg; lia)) as (c1 & ->).
    destruct (rd_some rest ((if sg then 1 else 0) + 2)%nat ltac:(destruct sg; lia)) as (c2 & ->).
    destruct (_ && _); discriminate. }
  destruct (is2 c0 105 73).
  { destruct (_ <? 3) eqn:E3; [discriminate|].
    destruct (rd_some rest ((if sg then 1 else 0) + 1)%nat ltac:(destruct sg; lia)) as (c1 & ->).
    destruct (rd_some rest ((if sg then 1 else 0) + 2)%nat ltac:(destruct sg; lia)) as (c2 & ->).
    cbv zeta. destruct (_ && _); [discriminate|].
    destruct (negb _) eqn:E8; [discriminate|].
    destruct (rd_some rest ((if sg then 1 else 0) + 3)%nat ltac:(destruct sg; lia)) as (c3 & ->).
    destruct (rd_some rest ((if sg then 1 else 0) + 4)%nat ltac:(destruct sg; lia)) as (c4 & ->).
    destruct (rd_some rest ((if sg then 1 else 0) + 5)%nat ltac:(destruct sg; lia)) as (c5 & ->).
    destruct (rd_some rest ((if sg then 1 else 0) + 6)%nat ltac:(destruct sg; lia)) as (c6 & ->).
    destruct (rd_some rest ((if sg then 1 else 0) + 7)%nat ltac:(destruct sg; lia)) as (c7 & ->).
    destruct (_ && _); discriminate. }
  destruct ((c0 =? 46) || is_digit c0); discriminate.
Qed.

(* ---------- the repaired underscore rule is CPython's ---------- *)

Definition st_ok (s : ust) (prev : Z) : Prop := st_d s = is_digit prev /\ st_u s = is_us prev.

Lemma st_ok0 : st_ok ust0 0.
Proof. split; reflexivity. Qed.

Lemma ustep_new punct s prev c :
  st_ok s prev ->
  fst (ustep true punct s c)
    = negb (if is_us c then is_digit prev else negb (is_us prev) || is_digit c)
  /\ st_ok (snd (ustep true punct s c)) c.
Proof.
  intros [Hd Hu]. unfold ustep. cbn [fst snd st_d st_u]. rewrite Hd, Hu.
  split; [|split; reflexivity].
  destruct (is_us c) eqn:Ec; unfold is_digit, is_us in *; lia.
Qed.

Lemma remove_us_cons c t :
  remove_us (c :: t) = if is_us c then remove_us t else c :: remove_us t.
Proof. unfold remove_us. cbn. destruct (is_us c); reflexivity. Qed.

Lemma copy_b_new : forall l cap out s prev err,
  st_ok s prev -> (length out + length (remove_us l) < cap)%nat ->
  copy_b true l cap out s err
  = if err || negb (us_ok_from prev l) then Fallback else Parse (rev out ++ remove_us l).
Proof.
  induction l as [|c t IH]; intros cap out s prev err Hs Hc.
  - cbn in *. destruct (Nat.leb_spec cap (length out)); [lia|].
    destruct Hs as [_ Hu]. rewrite Hu, negb_involutive, app_nil_r. reflexivity.
  - cbn [copy_b us_ok_from]. rewrite remove_us_cons in *.
    destruct (Nat.leb_spec cap (length out)); [destruct (is_us c); cbn in Hc; lia|].
    destruct (ustep_new is_punct_b s prev c Hs) as [He Hs'].
    destruct (ustep true is_punct_b s c) as [e s'] eqn:U. cbn [fst snd] in He, Hs'.
    rewrite (IH cap _ s' c (err || e) Hs').
    + rewrite He. destruct (is_us c) eqn:Ec.
      * destruct err, (is_digit prev), (us_ok_from c t); reflexivity.
      * cbn [rev]. rewrite <- app_assoc. cbn [app].
        destruct err, (negb (is_us prev) || is_digit c), (us_ok_from c t); reflexivity.
    + destruct (is_us c); cbn [length] in *; lia.
Qed.

Lemma copy_b_no_oob : forall fu l cap out s err,
  (length out + length (remove_us l) < cap)%nat ->
  copy_b fu l cap out s err <> OOBWrite /\ copy_b fu l cap out s err <> OOBRead.
Proof.
  induction l as [|c t IH]; intros cap out s err Hc.
  - cbn in *. destruct (Nat.leb_spec cap (length out)); [lia|].
    destruct (err || ufinal fu s); split; discriminate.
  - cbn [copy_b]. rewrite remove_us_cons in Hc.
    destruct (Nat.leb_spec cap (length out)); [destruct (is_us c); cbn in Hc; lia|].
    destruct (ustep fu is_punct_b s c) as [e s']. apply IH.
    destruct (is_us c); cbn [length] in *; lia.
Qed.

Lemma copy_u_new_sound : forall l cap out s prev r,
  st_ok s prev -> copy_u true l cap out s = Parse r ->
  r = rev out ++ remove_us l /\ us_ok_from prev l = true /\ Forall (fun c => c <= 127) l.
Proof.
  induction l as [|c t IH]; intros cap out s prev r Hs H.
  - cbn in *. destruct Hs as [_ Hu]. rewrite Hu in H.
    destruct (is_us prev); [discriminate|].
    destruct (cap <=? length out)%nat; [discriminate|]. injection H as <-.
    rewrite app_nil_r. auto.
  - cbn [copy_u us_ok_from] in *. rewrite remove_us_cons.
    destruct (cap <=? length out)%nat; [discriminate|].
    destruct (Z.ltb_spec 127 c); [discriminate|].
    destruct (ustep_new is_punct_u s prev c Hs) as [He Hs'].
    destruct (ustep true is_punct_u s c) as [e s'] eqn:U. cbn [fst snd] in He, Hs'.
    destruct e; [discriminate|].
    destruct (IH _ _ _ _ _ Hs' H) as (Hr & Hu & Hf).
    split; [|split].
    + rewrite Hr. destruct (is_us c); [reflexivity|]. cbn [rev]. rewrite <- app_assoc. reflexivity.
    + rewrite Hu, andb_true_r. symmetry in He. apply negb_false_iff in He. exact He.
    + constructor; [lia | exact Hf].
Qed.

Lemma copy_u_no_oob : forall fu l cap out s,
  (length out + length l < cap)%nat ->
  copy_u fu l cap out s <> OOBWrite /\ copy_u fu l cap out s <> OOBRead.
Proof.
  induction l as [|c t IH]; intros cap out s Hc.
  - cbn in *. destruct (ufinal fu s); [split; discriminate|].
    destruct (Nat.leb_spec cap (length out)); [lia|]. split; discriminate.
  - cbn [copy_u]. cbn [length] in Hc.
    destruct (Nat.leb_spec cap (length out)); [lia|].
    destruct (127 <? c); [split; discriminate|].
    destruct (ustep fu is_punct_u s c) as [e s']. destruct e; [split; discriminate|].
    apply IH. destruct (is_us c); cbn [length]; lia.
Qed.

(* ---------- strings without underscores ---------- *)

Lemma filter_len_le {A} (f : A -> bool) l : (length (filter f l) <= length l)%nat.
Proof. induction l as [|a t IH]; cbn; [lia|]. destruct (f a); cbn; lia. Qed.

Lemma filter_length_id {A} (f : A -> bool) l :
  length (filter f l) = length l -> filter f l = l /\ Forall (fun x => f x = true) l.
Proof.
  induction l as [|a t IH]; cbn; [auto|].
  pose proof (filter_len_le f t) as Hle.
  destruct (f a) eqn:E; cbn; intros H.
  - destruct IH as [H1 H2]; [lia|]. split; [congruence | auto].
  - lia.
Qed.

Lemma us_ok_no_us : forall l prev,
  is_us prev = false -> Forall (fun c => negb (is_us c) = true) l -> us_ok_from prev l = true.
Proof.
  induction l as [|c t IH]; intros prev Hp Hf; cbn.
  - rewrite Hp. reflexivity.
  - inversion Hf as [|? ? Hc Ht]; subst. apply negb_true_iff in Hc.
    rewrite Hc, Hp. cbn. apply IH; auto.
Qed.

(* ---------- the scanners ---------- *)

(* the input between the leading and the trailing spaces, as the C code delimits it *)
Definition strip (sp : Z -> bool) (data : list Z) : list Z :=
  match lskip sp (data ++ [0]) with
  | Some rest => rstrip sp (removelast rest)
  | None => []
  end.

Lemma isspace_b_0 : isspace_b 0 = false. Proof. reflexivity. Qed.
Lemma isspace_u_0 : isspace_u 0 = false. Proof. reflexivity. Qed.
Lemma isspace_u_new_0 : isspace_u_new 0 = false. Proof. reflexivity. Qed.

(* F4 repaired: what __Pyx__PyBytes_AsDouble hands to the C parser *)
Theorem scan_bytes_sound : forall data s',
  scan_bytes true data = Parse s' ->
  s' = remove_us (strip isspace_b data) /\ us_ok (strip isspace_b data) = true.
Proof.
  intros data s'. unfold scan_bytes, strip.
  destruct (lskip isspace_b (data ++ [0])) as [rest|]; [|discriminate].
  set (region := rstrip isspace_b (removelast rest)).
  destruct region as [|c0 r0] eqn:R; [discriminate|]. rewrite <- R. clearbody region.
  destruct (inf_nan rest (Z.of_nat (length region))); try discriminate.
  destruct (Nat.eqb_spec (length (remove_us region)) (length region)) as [E|E].
  - intros H. injection H as <-.
    destruct (filter_length_id _ _ E) as [H1 H2]. split; [symmetry; exact H1|].
    apply us_ok_no_us; [reflexivity | exact H2].
  - rewrite (copy_b_new region _ [] ust0 0 false st_ok0).
    + cbn [orb rev app]. fold (us_ok region). destruct (us_ok region); [|discriminate].
      intros H. injection H as <-. auto.
    + cbn [length]. destruct (Nat.ltb_spec (length (remove_us region)) 40); lia.
Qed.

Theorem scan_bytes_no_oob : forall fu data,
  scan_bytes fu data <> OOBWrite /\ scan_bytes fu data <> OOBRead.
Proof.
  intros fu data. unfold scan_bytes.
  destruct (lskip isspace_b (data ++ [0])) as [rest|] eqn:L;
    [| exfalso; exact (lskip_terminated _ data isspace_b_0 L)].
  destruct (rest_shape _ _ _ L) as (ws & Hr & Hw).
  set (region := rstrip isspace_b (removelast rest)) in *.
  destruct region as [|c0 r0] eqn:R; [split; discriminate|]. rewrite <- R in *.
  assert (Hl : (1 <= length region < length rest)%nat).
  { pose proof (f_equal (@length Z) Hr) as HL. rewrite app_length in HL.
    rewrite R in *. cbn [length] in *. lia. }
  clearbody region.
  pose proof (inf_nan_no_oob rest (length region) ltac:(lia) ltac:(lia)) as Hin.
  destruct (inf_nan rest (Z.of_nat (length region))); try (split; discriminate).
  - destruct (length (remove_us region) =? length region)%nat; [split; discriminate|].
    apply copy_b_no_oob. cbn [length].
    destruct (Nat.ltb_spec (length (remove_us region)) 40); lia.
  - congruence.
Qed.

(* F4 + F5 repaired (and the space test): what the unicode path hands to the C parser *)
Theorem scan_uni_sound : forall fs data s',
  scan_uni true true fs data = Parse s' ->
  let sp := if fs then isspace_u_new else isspace_u in
  s' = remove_us (strip sp data) /\ us_ok (strip sp data) = true
  /\ Forall (fun c => c <= 127) (strip sp data).
Proof.
  intros fs data s'. unfold scan_uni, strip. cbv zeta.
  set (sp := if fs then isspace_u_new else isspace_u).
  destruct (lskip sp (data ++ [0])) as [rest|]; [|discriminate].
  set (region := rstrip sp (removelast rest)).
  destruct region as [|c0 r0] eqn:R; [discriminate|]. rewrite <- R. clearbody region.
  destruct (inf_nan rest (Z.of_nat (length region))); try discriminate.
  intros H. apply (copy_u_new_sound _ _ _ _ 0 _ st_ok0) in H. exact H.
Qed.

Theorem scan_uni_no_oob : forall fu fs data,
  scan_uni true fu fs data <> OOBWrite /\ scan_uni true fu fs data <> OOBRead.
Proof.
  intros fu fs data. unfold scan_uni.
  set (sp := if fs then isspace_u_new else isspace_u).
  assert (H0 : sp 0 = false) by (subst sp; destruct fs; reflexivity).
  destruct (lskip sp (data ++ [0])) as [rest|] eqn:L;
    [| exfalso; exact (lskip_terminated _ data H0 L)].
  destruct (rest_shape _ _ _ L) as (ws & Hr & Hw).
  set (region := rstrip sp (removelast rest)) in *.
  destruct region as [|c0 r0] eqn:R; [split; discriminate|]. rewrite <- R in *.
  assert (Hl : (1 <= length region < length rest)%nat).
  { pose proof (f_equal (@length Z) Hr) as HL. rewrite app_length in HL.
    rewrite R in *. cbn [length] in *. lia. }
  clearbody region.
  pose proof (inf_nan_no_oob rest (length region) ltac:(lia) ltac:(lia)) as Hin.
  destruct (inf_nan rest (Z.of_nat (length region))); try (split; discriminate).
  - apply copy_u_no_oob. cbn [length]. destruct (Nat.ltb_spec (length region) 40); lia.
  - congruence.
Qed.

(* float(str): both paths *)
Theorem scan_str_no_oob : forall fu fs data,
  scan_str true fu fs data <> OOBWrite /\ scan_str true fu fs data <> OOBRead.
Proof.
  intros. unfold scan_str. destruct (is_ascii data);
    [apply scan_bytes_no_oob | apply scan_uni_no_oob].
Qed.

Theorem scan_str_sound : forall data s',
  scan_str true true true data = Parse s' ->
  let sp := if is_ascii data then isspace_b else isspace_u_new in
  s' = remove_us (strip sp data) /\ us_ok (strip sp data) = true.
Proof.
  intros data s'. unfold scan_str. destruct (is_ascii data); cbv zeta.
  - apply scan_bytes_sound.
  - intros H. apply scan_uni_sound in H. cbv zeta in H. tauto.
Qed.

(* ---------- the current code is refuted ---------- *)

(* F4: "1e+_5" is handed to the parser as "1e+5" although CPython's rule rejects it *)
Theorem scan_bytes_old_refuted :
  exists data s', scan_bytes false data = Parse s' /\ us_ok (strip isspace_b data) = false.
Proof. exists [49; 101; 43; 95; 53], [49; 101; 43; 53]. vm_compute. auto. Qed.

(* F5: U+2003 followed by 39 digits: the 41st byte is written into `char number[40]`;
   with 40 digits the (length+2)-th byte is written into the (length+1)-byte heap buffer *)
Theorem scan_str_old_oob_refuted :
  scan_str false false false (8195 :: repeat 49 39) = OOBWrite /\
  scan_str false false false (8195 :: repeat 49 40) = OOBWrite /\
  scan_str false false false (8195 :: repeat 49 38) = Parse (repeat 49 38 ++ [0]).
Proof. vm_compute. auto. Qed.

(* with `i <= end` the terminator (or the first stripped space) is copied as part of the number,
   so the parser can never consume the whole buffer: the path always falls back *)
Theorem scan_str_old_extra_char_refuted :
  exists data s', scan_str false false false data = Parse s' /\
                  s' <> remove_us (strip isspace_u data).
Proof. exists [8195; 49; 46; 53], [49; 46; 53; 0]. vm_compute. split; [reflexivity | discriminate]. Qed.

(* new: the unicode path strips the ASCII separators 0x1c-0x1f, CPython's float() does not:
   " inf\x1c" is returned as inf, CPython raises ValueError *)
Theorem scan_str_old_separator_refuted : forall todecimal,
  scan_str false false false [8195; 105; 110; 102; 28] = Special false false /\
  py_scan_str todecimal [8195; 105; 110; 102; 28] = PyParse [105; 110; 102; 28] /\
  infnan_spelling [105; 110; 102; 28] = None /\
  scan_str true true true [8195; 105; 110; 102; 28] = Fallback.
Proof. intros. vm_compute. auto. Qed.
