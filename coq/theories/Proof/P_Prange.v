From Coq Require Import ZArith List Bool Lia ZifyBool Permutation.
From CyVerif Require Import Lib.CInt Model.M_Prange Proof.P_IntPow.
Import ListNotations.
Open Scope Z_scope.

(* ---- (i) iteration space ---------------------------------------------------------------- *)

Lemma c_abs_int_fits step : Z.abs step <= 2 ^ 31 - 1 -> c_abs_int step = Z.abs step.
Proof.
  intros H. unfold c_abs_int. rewrite wrap_id; [reflexivity|lia|].
  unfold in_range, min_int, max_int. change (32 - 1) with 31. lia.
Qed.

Lemma quot_sign step : step <> 0 -> Z.quot step (Z.abs step) = Z.sgn step.
Proof.
  intros H. destruct (Z.lt_trichotomy step 0) as [N|[E|P]]; [|contradiction|].
  - rewrite Z.abs_neq by lia. rewrite Z.quot_opp_r by lia. rewrite Z.quot_same by lia. lia.
  - rewrite Z.abs_eq by lia. rewrite Z.quot_same by lia. lia.
Qed.

Lemma nsteps_sgn start stop step : step <> 0 ->
  nsteps start stop step = Some (Z.quot (stop - start + step - Z.sgn step) step).
Proof.
  intros Hs. unfold nsteps, b2z. destruct (Z.eqb_spec step 0); [contradiction|].
  do 2 f_equal. destruct (Z.ltb_spec 0 step), (Z.ltb_spec step 0); lia.
Qed.

Lemma nsteps_old_fits start stop step : step <> 0 -> Z.abs step <= 2 ^ 31 - 1 ->
  nsteps_old start stop step = nsteps start stop step.
Proof.
  intros Hs Hfit. rewrite nsteps_sgn by assumption. unfold nsteps_old.
  rewrite c_abs_int_fits by assumption.
  replace ((step =? 0) || (Z.abs step =? 0)) with false by lia.
  now rewrite quot_sign.
Qed.

Theorem nsteps_count start stop step :
  step <> 0 ->
  exists n, nsteps start stop step = Some n /\ Z.max 0 n = py_range_len start stop step.
Proof.
  intros Hs. rewrite nsteps_sgn by assumption.
  eexists; split; [reflexivity|].
  unfold py_range_len. destruct (Z.ltb_spec 0 step) as [Hp|Hn].
  - rewrite Z.sgn_pos by lia. destruct (Z.ltb_spec start stop) as [Hlt|Hge].
    + rewrite Z.quot_div_nonneg by lia.
      replace (stop - start + step - 1) with ((stop - start - 1) + 1 * step) by lia.
      rewrite Z.div_add by lia.
      assert (0 <= (stop - start - 1) / step) by (apply Z.div_pos; lia). lia.
    + assert (Hq : Z.quot (stop - start + step - 1) step <= 0).
      { destruct (Z.le_gt_cases 0 (stop - start + step - 1)).
        - rewrite Z.quot_small by lia. lia.
        - pose proof (Z.mul_quot_ge (stop - start + step - 1) step ltac:(lia) ltac:(lia)). nia. }
      lia.
  - assert (Hneg : step < 0) by lia. rewrite Z.sgn_neg by lia.
    replace (stop - start + step - -1) with (- (start - stop - 1 + 1 * (- step))) by lia.
    replace step with (- (- step)) at 2 by lia. rewrite Z.quot_opp_opp by lia.
    destruct (Z.ltb_spec stop start) as [Hlt|Hge].
    + rewrite Z.quot_div_nonneg by lia. rewrite Z.div_add by lia.
      assert (0 <= (start - stop - 1) / - step) by (apply Z.div_pos; lia). lia.
    + assert (Hq : Z.quot (start - stop - 1 + 1 * - step) (- step) <= 0).
      { destruct (Z.le_gt_cases 0 (start - stop - 1 + 1 * - step)).
        - rewrite Z.quot_small by lia. lia.
        - pose proof (Z.mul_quot_ge (start - stop - 1 + 1 * - step) (- step) ltac:(lia) ltac:(lia)). nia. }
      lia.
Qed.

Lemma loop_indices_max n : loop_indices n = loop_indices (Z.max 0 n).
Proof.
  unfold loop_indices. destruct (Z.le_gt_cases 0 n); [now rewrite Z.max_r by lia|].
  rewrite Z.max_l by lia. replace (Z.to_nat n) with O by lia. reflexivity.
Qed.

(* the values assigned to the loop target by the generated loop = list(range(start, stop, step)) *)
Theorem prange_values_eq start stop step :
  step <> 0 ->
  prange_values start stop step = Some (py_range start stop step).
Proof.
  intros Hs. destruct (nsteps_count start stop step Hs) as (n & Hn & Hlen).
  unfold prange_values. rewrite Hn. f_equal. unfold py_range. rewrite <- Hlen.
  rewrite loop_indices_max. unfold loop_indices. rewrite map_map. reflexivity.
Qed.

(* lastprivate: the value the target has after the loop is that of the last logical iteration *)
Theorem lastprivate_is_last start stop step :
  step <> 0 -> 0 < py_range_len start stop step ->
  exists vs, prange_values start stop step = Some vs /\
             last vs start = start + step * (py_range_len start stop step - 1).
Proof.
  intros Hs Hpos. eexists; split; [apply prange_values_eq; assumption|].
  unfold py_range. set (k := py_range_len start stop step) in *.
  replace (Z.to_nat k) with (S (Z.to_nat (k - 1))) by lia.
  rewrite seq_S, map_app. cbn [map]. rewrite last_last. f_equal. f_equal. lia.
Qed.

(* finding: abs() is int abs(int): a step that is a non-zero multiple of 2^32 makes the C
   expression divide by zero *)
Theorem nsteps_old_abs_truncation_refuted :
  (exists start stop step, step <> 0 /\ nsteps_old start stop step = None) /\
  (exists start stop step n, nsteps_old start stop step = Some n /\ Z.max 0 n <> py_range_len start stop step).
Proof.
  split.
  - exists 0, 10, 4294967296. split; [lia|]. vm_compute. reflexivity.
  - exists 0, 4294967298, 4294967297, 1. split; vm_compute; [reflexivity|discriminate].
Qed.

(* ---- (ii) reductions ----------------------------------------------------------------------- *)

Section Monoid.
  Context {A : Type} (op : A -> A -> A) (e : A).
  Hypothesis op_assoc : forall a b c, op a (op b c) = op (op a b) c.
  Hypothesis op_comm : forall a b, op a b = op b a.
  Hypothesis op_id : forall a, op a e = a.

  Lemma fold_left_op_init l : forall a, fold_left op l a = op a (fold_left op l e).
  Proof.
    induction l as [|x l IH]; intros a; cbn [fold_left]; [now rewrite op_id|].
    rewrite IH, (IH (op e x)). rewrite (op_comm e x), op_id. symmetry. apply op_assoc.
  Qed.

  Lemma fold_left_perm l l' : Permutation l l' -> forall a, fold_left op l a = fold_left op l' a.
  Proof.
    induction 1 as [|x l l' _ IH|x y l|l1 l2 l3 _ IH1 _ IH2]; intros a; cbn [fold_left].
    - reflexivity.
    - apply IH.
    - f_equal. rewrite <- !op_assoc. f_equal. apply op_comm.
    - now rewrite IH1.
  Qed.

  Lemma seq_reduce_map (f : Z -> A) l a : seq_reduce op f a l = fold_left op (map f l) a.
  Proof. unfold seq_reduce. revert a. induction l as [|x l IH]; intros a; cbn; [reflexivity|apply IH]. Qed.

  Lemma fold_left_concat_partials (f : Z -> A) chunks : forall a,
    fold_left op (map (seq_reduce op f e) chunks) a = fold_left op (map f (concat chunks)) a.
  Proof.
    induction chunks as [|c cs IH]; intros a; cbn [map concat fold_left]; [reflexivity|].
    rewrite map_app, fold_left_app, IH. f_equal.
    rewrite seq_reduce_map. symmetry. apply fold_left_op_init.
  Qed.

  (* any partition of any permutation of the iterations, partial results combined in any order *)
  Theorem reduction_schedule_independent (f : Z -> A) init idxs chunks partials :
    Permutation (concat chunks) idxs ->
    Permutation partials (map (seq_reduce op f e) chunks) ->
    fold_left op partials init = seq_reduce op f init idxs.
  Proof.
    intros Hc Hp. rewrite (fold_left_perm _ _ Hp), fold_left_concat_partials, seq_reduce_map.
    apply fold_left_perm. apply Permutation_map. exact Hc.
  Qed.
End Monoid.

(* the reduction operators Cython accepts, on mathematical integers ... *)
Definition reduce_ops : list ((Z -> Z -> Z) * Z) :=
  [(Z.add, 0); (Z.mul, 1); (Z.land, -1); (Z.lor, 0); (Z.lxor, 0)].

Lemma reduce_ops_monoid : forall op e, In (op, e) reduce_ops ->
  (forall a b c, op a (op b c) = op (op a b) c) /\ (forall a b, op a b = op b a) /\ (forall a, op a e = a).
Proof.
  intros op e H. cbn in H.
  destruct H as [H|[H|[H|[H|[H|[]]]]]]; inversion H; subst; clear H.
  - repeat split; intros; lia.
  - repeat split; intros; lia.
  - repeat split; intros; [apply Z.land_assoc | apply Z.land_comm | apply Z.land_m1_r].
  - repeat split; intros; [apply Z.lor_assoc | apply Z.lor_comm | apply Z.lor_0_r].
  - repeat split; intros; [symmetry; apply Z.lxor_assoc | apply Z.lxor_comm | apply Z.lxor_0_r].
Qed.

Theorem int_reduction_schedule_independent op e f init idxs chunks partials :
  In (op, e) reduce_ops ->
  Permutation (concat chunks) idxs ->
  Permutation partials (map (seq_reduce op f e) chunks) ->
  fold_left op partials init = seq_reduce op f init idxs.
Proof.
  intros Hin. destruct (reduce_ops_monoid op e Hin) as (Ha & Hc & Hi).
  apply reduction_schedule_independent; assumption.
Qed.

(* ... and on a C integer type with wrap-around (plus and times): the wrapped fold is the wrap of the
   mathematical fold, sequentially and under any schedule alike *)
Definition addw w s a b := wrap w s (a + b).
Definition mulw w s a b := wrap w s (a * b).

Lemma fold_addw w s l : 1 <= w -> forall a, wrap w s (fold_left (addw w s) l a) = wrap w s (fold_left Z.add l a).
Proof.
  intros Hw. pose proof (pow2_pos w ltac:(lia)) as P.
  induction l as [|x l IH]; intros a; cbn [fold_left]; [reflexivity|].
  rewrite IH. clear IH. revert a. 
  assert (G : forall u v, u mod 2 ^ w = v mod 2 ^ w -> wrap w s (fold_left Z.add l u) = wrap w s (fold_left Z.add l v)).
  { induction l as [|y l IH]; intros u v E; cbn [fold_left]; [now apply wrap_eq_of_mod|].
    apply IH. rewrite (Z.add_mod u), (Z.add_mod v), E by lia. reflexivity. }
  intros a. apply G. unfold addw. apply wrap_mod. lia.
Qed.

Lemma fold_mulw w s l : 1 <= w -> forall a, wrap w s (fold_left (mulw w s) l a) = wrap w s (fold_left Z.mul l a).
Proof.
  intros Hw. pose proof (pow2_pos w ltac:(lia)) as P.
  induction l as [|x l IH]; intros a; cbn [fold_left]; [reflexivity|].
  rewrite IH. clear IH. revert a.
  assert (G : forall u v, u mod 2 ^ w = v mod 2 ^ w -> wrap w s (fold_left Z.mul l u) = wrap w s (fold_left Z.mul l v)).
  { induction l as [|y l IH]; intros u v E; cbn [fold_left]; [now apply wrap_eq_of_mod|].
    apply IH. rewrite (Z.mul_mod u), (Z.mul_mod v), E by lia. reflexivity. }
  intros a. apply G. unfold mulw. apply wrap_mod. lia.
Qed.

(* transfer: the wrapped sequential fold is the mathematical fold reduced to the type, so a
   sequential C loop and the Z-level theorem above speak about the same value modulo 2^w *)
Theorem c_add_fold_is_wrapped_sum w s l a : 1 <= w ->
  wrap w s (fold_left (addw w s) l a) = wrap w s (fold_left Z.add l a).
Proof. intros; now apply fold_addw. Qed.

Theorem c_mul_fold_is_wrapped_product w s l a : 1 <= w ->
  wrap w s (fold_left (mulw w s) l a) = wrap w s (fold_left Z.mul l a).
Proof. intros; now apply fold_mulw. Qed.

(* ---- (iii) exception hand-off ---------------------------------------------------------------- *)

Definition opt_list (o : option Z) : list Z := match o with Some x => [x] | None => [] end.

Lemma run_app evs1 evs2 : run (evs1 ++ evs2) = fold_left step evs2 (run evs1).
Proof. unfold run. apply fold_left_app. Qed.

(* conservation: after any sequence of events, the raised exception objects are exactly the saved
   one plus those left pending in thread states (as multisets) *)
Lemma conservation_gen evs : forall s,
  Permutation (opt_list (saved (fold_left step evs s)) ++ map snd (pending (fold_left step evs s)))
              (opt_list (saved s) ++ map snd (pending s) ++ raised evs).
Proof.
  induction evs as [|ev evs IH]; intros s; cbn [fold_left raised flat_map].
  - rewrite app_nil_r. reflexivity.
  - rewrite IH. destruct ev as [t e|t k]; cbn [step].
    + unfold fetch. destruct (saved s) as [x|] eqn:Hs; cbn [saved pending opt_list map snd app].
      * apply perm_skip. fold (raised evs).
        change (e :: map snd (pending s) ++ raised evs) with ((e :: map snd (pending s)) ++ raised evs).
        apply Permutation_sym. apply Permutation_sym. apply (Permutation_middle (map snd (pending s)) (raised evs) e).
      * change ([e] ++ raised evs) with (e :: raised evs).
        apply Permutation_middle.
    + cbn [saved pending]. reflexivity.
Qed.

Theorem exceptions_conserved evs :
  Permutation (raised evs) (opt_list (snd (fst (finish (run evs)))) ++ snd (finish (run evs))).
Proof.
  unfold finish. cbn [fst snd]. unfold run.
  pose proof (conservation_gen evs h0) as H. cbn [h0 saved pending opt_list map app] in H.
  symmetry. exact H.
Qed.

(* the exception re-raised in the caller is the first one fetched; nothing is saved iff nothing raised *)
Lemma saved_first_gen evs : forall s,
  saved (fold_left step evs s) = match saved s with Some x => Some x | None => hd_error (raised evs) end.
Proof.
  induction evs as [|ev evs IH]; intros s; cbn [fold_left raised flat_map].
  - destruct (saved s); reflexivity.
  - rewrite IH. destruct ev as [t e|t k]; cbn [step].
    + unfold fetch. destruct (saved s); cbn [saved app hd_error]; reflexivity.
    + cbn [saved app]. reflexivity.
Qed.

Theorem saved_is_first_raised evs : snd (fst (finish (run evs))) = hd_error (raised evs).
Proof. unfold finish, run. cbn [fst snd]. rewrite saved_first_gen. reflexivity. Qed.

(* each raised exception object is disposed of exactly once: if the raised objects are pairwise
   distinct, so are (re-raised ++ released), and they are the same objects *)
Theorem each_exception_once evs :
  NoDup (raised evs) ->
  NoDup (opt_list (snd (fst (finish (run evs)))) ++ snd (finish (run evs))) /\ (forall e, In e (raised evs) <-> In e (opt_list (snd (fst (finish (run evs)))) ++ snd (finish (run evs)))).
Proof.
  intros Hnd. pose proof (exceptions_conserved evs) as P. split.
  - eapply Permutation_NoDup; eassumption.
  - intros e. split; intros H; [eapply Permutation_in; eassumption|].
    eapply Permutation_in; [apply Permutation_sym|]; eassumption.
Qed.

(* errors win: the dispatch value after the region is 4 iff some thread raised; otherwise it is
   0 or one of the exit kinds (1 continue, 2 break, 3 return) some thread wrote *)
Lemma why_no_raise evs : forall s, raised evs = [] ->
  why (fold_left step evs s) = why s \/ (exists t k, In (Exit t k) evs /\ why (fold_left step evs s) = k).
Proof.
  induction evs as [|ev evs IH]; intros s Hr; cbn [fold_left]; [now left|].
  destruct ev as [t e|t k]; cbn [raised flat_map app] in Hr; [discriminate|].
  destruct (IH (step s (Exit t k)) Hr) as [H|(t' & k' & Hin & Hk)].
  - right. exists t, k. split; [now left|]. rewrite H. reflexivity.
  - right. exists t', k'. split; [now right|assumption].
Qed.

Theorem why_is_allowed_outcome evs :
  (forall t k, In (Exit t k) evs -> 1 <= k <= 3) ->
  let w := fst (fst (finish (run evs))) in
  (w = 4 <-> raised evs <> []) /\
  (raised evs = [] -> w = 0 \/ exists t k, In (Exit t k) evs /\ w = k).
Proof.
  intros Hwf. cbn zeta. unfold finish. cbn [fst].
  pose proof (saved_is_first_raised evs) as Hs. unfold finish in Hs. cbn [fst snd] in Hs.
  assert (Hnone : raised evs = [] ->
                  why (run evs) = 0 \/ exists t k, In (Exit t k) evs /\ why (run evs) = k).
  { intros Hr. unfold run. destruct (why_no_raise evs h0 Hr) as [E|E]; [left; rewrite E; reflexivity|right; exact E]. }
  split; [split|].
  - intros Hw Hr. rewrite Hs, Hr in Hw. cbn [hd_error] in Hw.
    destruct (Hnone Hr) as [E|(t & k & Hin & Hk)]; [lia|]. specialize (Hwf t k Hin). lia.
  - intros Hr. rewrite Hs. destruct (raised evs); [contradiction|reflexivity].
  - intros Hr. rewrite Hs, Hr. cbn [hd_error]. exact (Hnone Hr).
Qed.
