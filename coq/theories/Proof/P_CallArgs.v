(* C43 - proofs about the argument-list loop of p_call_parse_args (Model/M_CallArgs.v) *)
From Coq Require Import List Bool Arith Lia.
From CyVerif Require Import Model.M_CallArgs.
Import ListNotations.

(* ---- the specification: Python's grammar of argument lists ---- *)
Definition compat (a b : akind) : Prop := compatb a b = true.
(* pairwise: whenever a stands before b, b is allowed after a *)
Definition py_args_ok (l : list akind) : Prop := ForallOrdPairs compat l.
(* the PEG rule itself: (positional | *x)* (k=v | *x)* (k=v | **x)* *)
Definition py_grammar (l : list akind) : Prop :=
  exists l1 l2 l3, l = l1 ++ l2 ++ l3 /\ forallb in_ps l1 = true /\ forallb in_ks l2 = true /\ forallb in_kd l3 = true.
Definition py_valid (is_call : bool) (l : list akind) (t : atail) : Prop :=
  match t with
  | TEnd => py_args_ok l
  | TComma => py_args_ok l /\ l <> []
  | TFor => is_call = true /\ l = [APos]
  end.

(* ---- the loop ---- *)
Definition allowed (kw ss : bool) (b : akind) : bool :=
  match b with APos => negb kw | AStar => negb ss | _ => true end.
Definition is_kwlike k := match k with AKw | ADStar => true | _ => false end.
Definition is_dstar k := match k with ADStar => true | _ => false end.

Lemma step_spec : forall st i k,
  match step false st i k with
  | Some st' => allowed (nonempty (keywords st)) (starstar_seen st) k = true /\
                nonempty (keywords st') = (nonempty (keywords st) || is_kwlike k) /\
                starstar_seen st' = (starstar_seen st || is_dstar k)
  | None => allowed (nonempty (keywords st)) (starstar_seen st) k = false
  end.
Proof.
  intros st i k. destruct k; unfold step; cbn [allowed is_kwlike is_dstar].
  - destruct (nonempty (keywords st)) eqn:E; cbn; [reflexivity|]. rewrite E. repeat split; auto using orb_false_r.
  - destruct (starstar_seen st) eqn:E; cbn; [reflexivity|]. repeat split; auto using orb_false_r.
  - cbn. repeat split; auto using orb_true_r, orb_false_r.
  - cbn. repeat split; auto using orb_true_r.
Qed.

Lemma allowed_step : forall a b kw ss,
  allowed (kw || is_kwlike a) (ss || is_dstar a) b = (allowed kw ss b && compatb a b).
Proof. intros a b kw ss. destruct a, b, kw, ss; reflexivity. Qed.

Lemma run_ok : forall l st i,
  (exists st', run false st i l = Some st') <->
  (Forall (fun b => allowed (nonempty (keywords st)) (starstar_seen st) b = true) l /\ py_args_ok l).
Proof.
  induction l as [|a r IH]; intros st i; cbn [run].
  - split; [intros _; split; constructor | intros _; eauto].
  - pose proof (step_spec st i a) as Hs. destruct (step false st i a) as [st1|].
    + destruct Hs as (Ha & Hk & Hss). rewrite IH, Hk, Hss. split.
      * intros [HF HP]. split.
        -- constructor; [exact Ha|]. eapply Forall_impl; [|exact HF]. intros b Hb. cbv beta in Hb.
           rewrite allowed_step in Hb. apply andb_true_iff in Hb. tauto.
        -- constructor; [|exact HP]. eapply Forall_impl; [|exact HF]. intros b Hb. cbv beta in Hb.
           rewrite allowed_step in Hb. apply andb_true_iff in Hb. unfold compat. tauto.
      * intros [HF HP]. inversion HF as [|? ? _ HF']; subst. inversion HP as [|? ? HC HP']; subst. split; [|exact HP'].
        rewrite Forall_forall in *. intros b Hb. rewrite allowed_step. apply andb_true_iff. split; [auto | apply HC; exact Hb].
    + split.
      * intros [st' H]. discriminate.
      * intros [HF _]. inversion HF; subst. congruence.
Qed.

(* number of arguments recorded in a state *)
Fixpoint psize (ps : list pitem) : nat :=
  match ps with [] => 0 | PGroup g :: r => length g + psize r | PUnpack _ :: r => S (psize r) end.
Definition ssize (st : pstate) : nat := psize (positional st) + length (keywords st).

Lemma step_size : forall g st i k st', step g st i k = Some st' -> ssize st' = S (ssize st).
Proof.
  intros g st i k st'. unfold step, ssize. destruct k.
  - destruct (nonempty (keywords st)); [discriminate|]. intros [= <-]. cbn [positional keywords].
    destruct (positional st) as [|[gr|u] r]; destruct (last_unpack st); cbn [psize length]; try rewrite app_length; cbn [length]; lia.
  - destruct (if g then nonempty (keywords st) else starstar_seen st); [discriminate|]. intros [= <-]. cbn. lia.
  - intros [= <-]. cbn. lia.
  - intros [= <-]. cbn. lia.
Qed.

Lemma run_size : forall g l st i st', run g st i l = Some st' -> ssize st' = ssize st + length l.
Proof.
  induction l as [|a r IH]; intros st i st'; cbn [run length].
  - intros [= <-]. lia.
  - destruct (step g st i a) as [st1|] eqn:E; [|discriminate]. intros H. apply IH in H. apply step_size in E. lia.
Qed.

Lemma finish_for : forall g ag l st, run g pstate0 0 l = Some st -> finish ag (length l) TFor st = true -> ag = true /\ l = [APos].
Proof.
  intros g ag l st Hr Hf. pose proof (run_size _ _ _ _ _ Hr) as Hsz. cbn [finish] in Hf.
  apply andb_true_iff in Hf as [Hf Hsp]. apply andb_true_iff in Hf as [Hf Hlu]. apply andb_true_iff in Hf as [Hag Hkw].
  split; [exact Hag|].
  assert (length l = 1) as Hl.
  { unfold ssize in Hsz. destruct (keywords st); [|discriminate]. destruct (positional st) as [|[[|x [|y gr]]|u] [|q r]]; try discriminate.
    cbn in Hsz. lia. }
  destruct l as [|a [|b r]]; try discriminate. destruct a, g; cbn in Hr; try discriminate; injection Hr as <-; try discriminate; reflexivity.
Qed.

(* MAIN: the loop as it is accepts exactly the argument lists of Python's grammar, in every context
   (allow_genexp = true: calls; false: class headers) *)
Theorem accepts_iff_python : forall ag l t, accepts false ag l t = true <-> py_valid ag l t.
Proof.
  intros ag l t. unfold accepts, parse_args.
  pose proof (run_ok l pstate0 0) as Hr. cbn [pstate0 keywords starstar_seen nonempty] in Hr.
  assert (HF : Forall (fun b => allowed false false b = true) l) by (apply Forall_forall; intros b _; destruct b; reflexivity).
  destruct (run false pstate0 0 l) as [st|] eqn:E.
  - assert (Hok : py_args_ok l) by (apply Hr; eauto).
    destruct t; cbn [py_valid].
    + cbn [finish]. tauto.
    + cbn [finish]. destruct l; cbn; split; try tauto; try discriminate. intros _. split; [exact Hok | discriminate].
    + destruct (finish ag (length l) TFor st) eqn:Ef.
      * split; [intros _; eapply finish_for; eauto | reflexivity].
      * split; [discriminate|]. intros [-> ->]. cbn in E. injection E as <-. discriminate.
  - assert (Hno : ~ py_args_ok l) by (intros H; destruct Hr as [_ Hr]; destruct (Hr (conj HF H)); discriminate).
    split; [discriminate|]. destruct t; cbn [py_valid]; try tauto.
    intros [_ ->]. discriminate.
Qed.

(* accepted argument lists lose nothing: every argument is recorded exactly once *)
Theorem accepted_keeps_all_arguments : forall g ag l t ps ks,
  parse_args g ag l t = Some (ps, ks) -> psize ps + length ks = length l.
Proof.
  intros g ag l t ps ks. unfold parse_args. destruct (run g pstate0 0 l) as [st|] eqn:E; [|discriminate].
  destruct (finish ag (length l) t st); [|discriminate]. intros [= <- <-]. apply run_size in E. unfold ssize in E. cbn in E.
  rewrite rev_length.
  assert (Hp : forall q, psize (rev q) = psize q).
  { induction q as [|[gr|u] q IH]; cbn; auto; assert (Ha : forall a b, psize (a ++ b) = psize a + psize b)
      by (induction a as [|[?|?] a IHa]; intros; cbn; auto; rewrite IHa; lia); rewrite Ha; cbn; lia. }
  destruct (rev (positional st)) eqn:Er.
  - rewrite <- (Hp (positional st)), Er in E. cbn in *. lia.
  - rewrite <- Er, Hp. lia.
Qed.

(* the guard `if keyword_args:` before a `*` argument (instead of `if starstar_seen:`) rejects valid Python *)
Theorem star_guard_on_keywords_refuted :
  py_valid true [AKw; AStar] TEnd /\ accepts true true [AKw; AStar] TEnd = false /\ accepts false true [AKw; AStar] TEnd = true
  /\ py_valid false [AKw; AStar; AKw; ADStar] TComma /\ accepts true false [AKw; AStar; AKw; ADStar] TComma = false.
Proof.
  repeat split; try reflexivity; try discriminate; cbn; repeat constructor.
Qed.

(* ---- pairwise form = the three-segment PEG rule = its executable (longest-segment) form ---- *)
Fixpoint fopb (l : list akind) : bool :=
  match l with [] => true | a :: r => forallb (compatb a) r && fopb r end.

Lemma fopb_spec : forall l, fopb l = true <-> py_args_ok l.
Proof.
  induction l as [|a r IH]; cbn [fopb].
  - split; [constructor | reflexivity].
  - rewrite andb_true_iff, forallb_forall, IH. split.
    + intros [H1 H2]. constructor; [apply Forall_forall; exact H1 | exact H2].
    + intros H. inversion H; subst. split; [apply Forall_forall; assumption | assumption].
Qed.

Definition notp (k : akind) := match k with APos => false | _ => true end.

Lemma kd_fopb : forall l, forallb in_kd l = true -> fopb l = true /\ forallb notp l = true.
Proof.
  induction l as [|a r IH]; cbn; [auto|]. intros H. apply andb_true_iff in H as [Ha Hr]. destruct (IH Hr) as [H1 H2].
  rewrite H1, H2, !andb_true_r. split; [|destruct a; auto; discriminate].
  apply forallb_forall. intros b Hb. rewrite forallb_forall in Hr. specialize (Hr b Hb).
  destruct a, b; try discriminate; reflexivity.
Qed.

Lemma compat_d : forall r, forallb (compatb ADStar) r = forallb in_kd r.
Proof. induction r as [|b r IH]; cbn; [reflexivity|]. rewrite IH. destruct b; reflexivity. Qed.
Lemma compat_k : forall r, forallb (compatb AKw) r = forallb notp r.
Proof. induction r as [|b r IH]; cbn; [reflexivity|]. rewrite IH. destruct b; reflexivity. Qed.
Lemma compat_ps : forall a r, in_ps a = true -> forallb (compatb a) r = true.
Proof. intros a r Ha. apply forallb_forall. intros b _. destruct a, b; try discriminate; reflexivity. Qed.

Lemma seg_b : forall l, forallb in_kd (drop_while in_ks l) = (fopb l && forallb notp l).
Proof.
  induction l as [|a r IH]; [reflexivity|]. destruct a; cbn [drop_while in_ks fopb forallb notp in_kd].
  - cbn [andb]. rewrite andb_false_r. reflexivity.
  - rewrite IH, (compat_ps AStar) by reflexivity. reflexivity.
  - rewrite IH. change (forallb (compatb AKw) r) with (forallb notp r). destruct (forallb notp r), (fopb r); reflexivity.
  - change (forallb (compatb ADStar) r) with (forallb in_kd r). destruct (forallb in_kd r) eqn:E; [|reflexivity]. destruct (kd_fopb r E) as [-> ->]. reflexivity.
Qed.

Lemma py_args_b_fopb : forall l, py_args_b l = fopb l.
Proof.
  unfold py_args_b. induction l as [|a r IH]; [reflexivity|]. destruct a; cbn [drop_while in_ps fopb].
  - rewrite IH, (compat_ps APos) by reflexivity. reflexivity.
  - rewrite IH, (compat_ps AStar) by reflexivity. reflexivity.
  - cbn [in_ks]. rewrite seg_b. change (forallb (compatb AKw) r) with (forallb notp r). apply andb_comm.
  - cbn [drop_while in_ks forallb in_kd]. change (forallb (compatb ADStar) r) with (forallb in_kd r). destruct (forallb in_kd r) eqn:E; [|reflexivity].
    destruct (kd_fopb r E) as [-> _]. reflexivity.
Qed.

Theorem py_args_b_spec : forall l, py_args_b l = true <-> py_args_ok l.
Proof. intros l. rewrite py_args_b_fopb. apply fopb_spec. Qed.

Fixpoint take_while (p : akind -> bool) (l : list akind) : list akind :=
  match l with [] => [] | a :: r => if p a then a :: take_while p r else [] end.
Lemma take_drop : forall p l, l = take_while p l ++ drop_while p l /\ forallb p (take_while p l) = true.
Proof.
  induction l as [|a r [IH1 IH2]]; cbn; [auto|]. destruct (p a) eqn:E; cbn; [|auto]. rewrite E, IH2. split; [f_equal; exact IH1 | reflexivity].
Qed.

Lemma fopb_app : forall l1 l2, fopb (l1 ++ l2) = (fopb l1 && fopb l2 && forallb (fun a => forallb (compatb a) l2) l1).
Proof.
  induction l1 as [|a r IH]; intros l2; cbn [app fopb forallb].
  - rewrite andb_true_r. reflexivity.
  - rewrite IH, forallb_app. destruct (forallb (compatb a) r), (forallb (compatb a) l2), (fopb r), (fopb l2); reflexivity.
Qed.

Theorem pairwise_iff_grammar : forall l, py_args_ok l <-> py_grammar l.
Proof.
  intros l. split.
  - intros H. apply py_args_b_spec in H. unfold py_args_b in H.
    exists (take_while in_ps l), (take_while in_ks (drop_while in_ps l)), (drop_while in_ks (drop_while in_ps l)).
    destruct (take_drop in_ps l) as [E1 F1]. destruct (take_drop in_ks (drop_while in_ps l)) as [E2 F2].
    repeat split; auto. rewrite <- E2. exact E1.
  - intros (l1 & l2 & l3 & -> & H1 & H2 & H3). apply fopb_spec. rewrite !fopb_app.
    assert (A1 : forall m, forallb (fun a => forallb (compatb a) m) l1 = true).
    { intros m. apply forallb_forall. intros a Ha. apply compat_ps. rewrite forallb_forall in H1. auto. }
    assert (A2 : forallb (fun a => forallb (compatb a) l3) l2 = true).
    { apply forallb_forall. intros a Ha. apply forallb_forall. intros b Hb. rewrite forallb_forall in H2, H3.
      specialize (H2 a Ha). specialize (H3 b Hb). destruct a, b; try discriminate; reflexivity. }
    assert (B1 : fopb l1 = true).
    { clear A1. induction l1 as [|a r IH]; cbn in *; [reflexivity|]. apply andb_true_iff in H1 as [Ha Hr]. rewrite (compat_ps a r Ha), IH; auto. }
    assert (B2 : fopb l2 = true).
    { clear A2. induction l2 as [|a r IH]; cbn in *; [reflexivity|]. apply andb_true_iff in H2 as [Ha Hr]. rewrite IH by auto. rewrite andb_true_r.
      apply forallb_forall. intros b Hb. rewrite forallb_forall in Hr. specialize (Hr b Hb). destruct a, b; try discriminate; reflexivity. }
    destruct (kd_fopb l3 H3) as [B3 _]. rewrite A1, A2, B1, B2, B3. reflexivity.
Qed.
