From Coq Require Import ZArith List Bool Lia ZifyBool.
From CyVerif Require Import Lib.CInt Model.M_CMath Proof.P_CMath Model.M_Overflow.
Open Scope Z_scope.

(* ---- wrap: piecewise description ------------------------------------------------------- *)

Lemma wrap_repr w s x : 1 <= w -> exists k, wrap w s x = x + k * 2 ^ w.
Proof.
  intros Hw. pose proof (pow2_pos w ltac:(lia)) as P. unfold wrap. destruct s.
  - exists (- ((x + 2 ^ (w - 1)) / 2 ^ w)).
    pose proof (Z.div_mod (x + 2 ^ (w - 1)) (2 ^ w) ltac:(lia)). lia.
  - exists (- (x / 2 ^ w)). pose proof (Z.div_mod x (2 ^ w) ltac:(lia)). lia.
Qed.

Lemma wrap_shift w s x k : 1 <= w -> wrap w s (x + k * 2 ^ w) = wrap w s x.
Proof.
  intros Hw. unfold wrap. destruct s.
  - replace (x + k * 2 ^ w + 2 ^ (w - 1)) with (x + 2 ^ (w - 1) + k * 2 ^ w) by lia.
    now rewrite Z_mod_plus_full.
  - now rewrite Z_mod_plus_full.
Qed.

Lemma wrap_wrap w s s' x : 1 <= w -> wrap w s (wrap w s' x) = wrap w s x.
Proof. intros Hw. destruct (wrap_repr w s' x Hw) as [k ->]. now apply wrap_shift. Qed.

Lemma wrap_mul_wrap w s a b : 1 <= w ->
  wrap w s (wrap w false a * wrap w false b) = wrap w s (a * b).
Proof.
  intros Hw. destruct (wrap_repr w false a Hw) as [k1 ->]. destruct (wrap_repr w false b Hw) as [k2 ->].
  replace ((a + k1 * 2 ^ w) * (b + k2 * 2 ^ w)) with (a * b + (k1 * b + k2 * a + k1 * k2 * 2 ^ w) * 2 ^ w) by ring.
  now apply wrap_shift.
Qed.

Lemma wrap_add_wrap w s a b : 1 <= w ->
  wrap w s (wrap w false a + wrap w false b) = wrap w s (a + b).
Proof.
  intros Hw. destruct (wrap_repr w false a Hw) as [k1 ->]. destruct (wrap_repr w false b Hw) as [k2 ->].
  replace (a + k1 * 2 ^ w + (b + k2 * 2 ^ w)) with (a + b + (k1 + k2) * 2 ^ w) by ring.
  now apply wrap_shift.
Qed.

Lemma wrap_sub_wrap w s a b : 1 <= w ->
  wrap w s (wrap w false a - wrap w false b) = wrap w s (a - b).
Proof.
  intros Hw. destruct (wrap_repr w false a Hw) as [k1 ->]. destruct (wrap_repr w false b Hw) as [k2 ->].
  replace (a + k1 * 2 ^ w - (b + k2 * 2 ^ w)) with (a - b + (k1 - k2) * 2 ^ w) by ring.
  now apply wrap_shift.
Qed.

(* unsigned wrap of a value at most one modulus away *)
Lemma wrapu_cases w x : 1 <= w -> - 2 ^ w <= x < 2 * 2 ^ w ->
  wrap w false x = if x <? 0 then x + 2 ^ w else if x <? 2 ^ w then x else x - 2 ^ w.
Proof.
  intros Hw Hx. pose proof (pow2_pos w ltac:(lia)) as P.
  destruct (Z.ltb_spec x 0).
  - replace x with ((x + 2 ^ w) + (-1) * 2 ^ w) at 1 by ring. rewrite wrap_shift by lia.
    apply wrap_id; [lia|]. unfold in_range, min_int, max_int. lia.
  - destruct (Z.ltb_spec x (2 ^ w)).
    + apply wrap_id; [lia|]. unfold in_range, min_int, max_int. lia.
    + replace x with ((x - 2 ^ w) + 1 * 2 ^ w) at 1 by ring. rewrite wrap_shift by lia.
      apply wrap_id; [lia|]. unfold in_range, min_int, max_int. lia.
Qed.

(* signed wrap of a value at most one modulus away; H = 2^(w-1) *)
Lemma wraps_cases w x : 1 <= w -> - 3 * 2 ^ (w - 1) <= x < 3 * 2 ^ (w - 1) ->
  wrap w true x = if x <? - 2 ^ (w - 1) then x + 2 ^ w else if x <? 2 ^ (w - 1) then x else x - 2 ^ w.
Proof.
  intros Hw Hx. pose proof (pow2_pos (w - 1) ltac:(lia)) as P. pose proof (pow2_split w Hw) as E.
  destruct (Z.ltb_spec x (- 2 ^ (w - 1))).
  - replace x with ((x + 2 ^ w) + (-1) * 2 ^ w) at 1 by ring. rewrite wrap_shift by lia.
    apply wrap_id; [lia|]. unfold in_range, min_int, max_int. lia.
  - destruct (Z.ltb_spec x (2 ^ (w - 1))).
    + apply wrap_id; [lia|]. unfold in_range, min_int, max_int. lia.
    + replace x with ((x - 2 ^ w) + 1 * 2 ^ w) at 1 by ring. rewrite wrap_shift by lia.
      apply wrap_id; [lia|]. unfold in_range, min_int, max_int. lia.
Qed.

Lemma in_rangeb_wrap_iff w s x : 1 <= w -> (x =? wrap w s x) = in_rangeb w s x.
Proof.
  intros Hw. apply Bool.eq_true_iff_eq. rewrite Z.eqb_eq, in_rangeb_spec. split.
  - intros ->. now apply wrap_in_range.
  - intros H. symmetry. now apply wrap_id.
Qed.

(* ---- the Common.proto macros are the limits of the type -------------------------------- *)

Lemma half_max_val w : 2 <= w -> pyx_half_max w true = 2 ^ (w - 2).
Proof.
  intros Hw. unfold pyx_half_max. rewrite Z.shiftl_1_l.
  apply wrap_id; [lia|]. unfold in_range, min_int, max_int.
  pose proof (pow2_pos (w - 2) ltac:(lia)). pose proof (pow2_split (w - 1) ltac:(lia)) as E.
  replace (w - 1 - 1) with (w - 2) in E by lia. lia.
Qed.

Lemma pyx_min_eq w s : 2 <= w -> pyx_min w s = min_int w s.
Proof.
  intros Hw. unfold pyx_min. destruct s; [|reflexivity].
  rewrite half_max_val by lia.
  pose proof (pow2_pos (w - 2) ltac:(lia)). pose proof (pow2_split (w - 1) ltac:(lia)) as E.
  replace (w - 1 - 1) with (w - 2) in E by lia.
  assert (R1 : wrap w true (0 - 2 ^ (w - 2)) = - 2 ^ (w - 2)).
  { apply wrap_id; [lia|]. unfold in_range, min_int, max_int. lia. }
  rewrite R1. unfold min_int.
  rewrite wrap_id; [lia | lia |]. unfold in_range, min_int, max_int. lia.
Qed.

Lemma pyx_max_eq w s : 2 <= w -> pyx_max w s = max_int w s.
Proof.
  intros Hw. unfold pyx_max. rewrite pyx_min_eq by lia.
  pose proof (pow2_pos (w - 1) ltac:(lia)). pose proof (pow2_split w ltac:(lia)) as E.
  unfold Z.lnot. destruct s; unfold min_int, max_int.
  - replace (Z.pred (- - 2 ^ (w - 1))) with (2 ^ (w - 1) - 1) by lia.
    apply wrap_id; [lia|]. unfold in_range, min_int, max_int. lia.
  - replace (Z.pred (- 0)) with (-1) by lia. rewrite wrapu_cases by lia.
    destruct (Z.ltb_spec (-1) 0); lia.
Qed.

Lemma pyx_min_no_overflow_ok w s : 2 <= w -> pyx_min_no_overflow w s = true.
Proof.
  intros Hw. unfold pyx_min_no_overflow. destruct s; [|reflexivity].
  pose proof (pow2_pos (w - 2) ltac:(lia)). pose proof (pow2_split (w - 1) ltac:(lia)) as E.
  replace (w - 1 - 1) with (w - 2) in E by lia.
  rewrite !andb_true_iff, !in_rangeb_spec. rewrite Z.shiftl_1_l.
  rewrite half_max_val by lia. unfold in_range, min_int, max_int. lia.
Qed.

(* ---- unsigned base cases ---------------------------------------------------------------- *)

Lemma uadd_eq_builtin w a b : 1 <= w -> in_range w false a -> in_range w false b ->
  uadd_portable w a b = builtin_res w false (a + b).
Proof.
  intros Hw Ha Hb. unfold uadd_portable, builtin_res, in_rangeb, in_range, min_int, max_int in *.
  pose proof (pow2_pos w ltac:(lia)) as P.
  rewrite wrapu_cases by lia.
  destruct (Z.ltb_spec (a + b) 0); [lia|].
  destruct (Z.ltb_spec (a + b) (2 ^ w)); f_equal; lia.
Qed.

Lemma usub_eq_builtin w a b : 1 <= w -> in_range w false a -> in_range w false b ->
  usub_portable w a b = builtin_res w false (a - b).
Proof.
  intros Hw Ha Hb. unfold usub_portable, builtin_res, in_rangeb, in_range, min_int, max_int in *.
  pose proof (pow2_pos w ltac:(lia)) as P.
  rewrite wrapu_cases by lia.
  destruct (Z.ltb_spec (a - b) 0).
  - f_equal; lia.
  - destruct (Z.ltb_spec (a - b) (2 ^ w)); f_equal; lia.
Qed.

(* x / b < y  <->  x < y * b   (b > 0) *)
Lemma div_ltb_mul x b y : 0 < b -> (x / b <? y) = (x <? y * b).
Proof.
  intros Hb. apply Bool.eq_true_iff_eq. rewrite !Z.ltb_lt. split; intros H.
  - destruct (Z.lt_ge_cases x (y * b)) as [|G]; [assumption|].
    exfalso. pose proof (Z.div_le_lower_bound x b y Hb ltac:(lia)). lia.
  - apply Z.div_lt_upper_bound; lia.
Qed.

Lemma umul_const_eq_builtin w swap a b : 2 <= w -> in_range w false a -> in_range w false b ->
  umul_const_portable w swap a b = builtin_res w false (a * b).
Proof.
  intros Hw Ha Hb. unfold umul_const_portable, builtin_res.
  rewrite pyx_max_eq by lia.
  assert (G : forall a' b', in_range w false a' -> in_range w false b' ->
             (if b' =? 0 then false else Z.quot (max_int w false) b' <? a') = negb (in_rangeb w false (a' * b'))).
  { clear. intros a' b' Ha Hb. unfold in_rangeb, in_range, min_int, max_int in *.
    destruct (Z.eqb_spec b' 0) as [->|Hn].
    - rewrite Z.mul_0_r. pose proof (Z.pow_nonneg 2 w ltac:(lia)). lia.
    - pose proof (Z.pow_nonneg 2 w ltac:(lia)).
      rewrite Z.quot_div_nonneg by lia. rewrite div_ltb_mul by lia.
      assert (0 <= a' * b') by nia. lia. }
  destruct swap.
  - rewrite (G b a Hb Ha). now rewrite (Z.mul_comm b a).
  - now rewrite (G a b Ha Hb).
Qed.

Lemma widen_eq_builtin w s bw exact : 1 <= w -> 1 <= bw -> in_range bw s exact ->
  widen_res w s bw exact = builtin_res w s exact.
Proof.
  intros Hw Hbw Hx. unfold widen_res, builtin_res.
  rewrite (wrap_id bw s exact Hbw Hx). now rewrite in_rangeb_wrap_iff.
Qed.

Lemma pow2_mono a b : 0 <= a <= b -> 2 ^ a <= 2 ^ b.
Proof. intros. apply Z.pow_le_mono_r; lia. Qed.

Lemma pow2_double w : 0 <= w -> 2 ^ (2 * w) = 2 ^ w * 2 ^ w.
Proof. intros. replace (2 * w) with (w + w) by lia. apply Z.pow_add_r; lia. Qed.

(* products of in-range operands fit a type of twice the width *)
Lemma mul_fits_double w s bw a b : 2 <= w -> 2 * w <= bw ->
  in_range w s a -> in_range w s b -> in_range bw s (a * b).
Proof.
  intros Hw Hbw Ha Hb.
  pose proof (pow2_pos (w - 1) ltac:(lia)) as P. pose proof (pow2_split w ltac:(lia)) as E.
  pose proof (pow2_double w ltac:(lia)) as D. pose proof (pow2_mono (2 * w) bw ltac:(lia)) as Mo.
  pose proof (pow2_split bw ltac:(lia)) as Eb.
  unfold in_range, min_int, max_int in *. destruct s.
  - assert (- (2 ^ (w - 1) * 2 ^ (w - 1)) <= a * b <= 2 ^ (w - 1) * 2 ^ (w - 1)) by nia.
    nia.
  - assert (0 <= a * b <= (2 ^ w - 1) * (2 ^ w - 1)) by nia. nia.
Qed.

(* the platform condition of the widening paths: a wider type is at least twice as wide *)
Definition wide_ok (w lw llw : Z) : Prop :=
  (w < lw -> 2 * w <= lw) /\ (lw <= w -> w < llw -> 2 * w <= llw).

Lemma umul_eq_builtin w lw llw cb ca swap a b : 2 <= w -> wide_ok w lw llw ->
  in_range w false a -> in_range w false b ->
  umul_portable w lw llw cb ca swap a b = builtin_res w false (a * b).
Proof.
  intros Hw [W1 W2] Ha Hb. unfold umul_portable.
  destruct cb; [now apply umul_const_eq_builtin|].
  destruct ca; [rewrite (Z.mul_comm a b); now apply umul_const_eq_builtin|].
  destruct (Z.ltb_spec w lw).
  - apply widen_eq_builtin; [lia | lia |]. apply (mul_fits_double w false lw); auto; lia.
  - destruct (Z.ltb_spec w llw).
    + apply widen_eq_builtin; [lia | lia |]. apply (mul_fits_double w false llw); auto; lia.
    + now apply umul_const_eq_builtin.
Qed.

(* ---- sign-bit extraction ------------------------------------------------------------------ *)

Lemma testbit_top w x : 1 <= w -> 0 <= x < 2 ^ w -> Z.testbit x (w - 1) = (2 ^ (w - 1) <=? x).
Proof.
  intros Hw Hx. pose proof (pow2_pos (w - 1) ltac:(lia)) as P. pose proof (pow2_split w Hw) as E.
  pose proof (Z.testbit_spec' x (w - 1) ltac:(lia)) as T.
  assert (D : x / 2 ^ (w - 1) = if 2 ^ (w - 1) <=? x then 1 else 0).
  { destruct (Z.leb_spec (2 ^ (w - 1)) x).
    - symmetry. apply (Z.div_unique x (2 ^ (w - 1)) 1 (x - 2 ^ (w - 1))); lia.
    - apply Z.div_small. lia. }
  rewrite D in T. destruct (2 ^ (w - 1) <=? x); destruct (Z.testbit x (w - 1)); cbn in T; congruence.
Qed.

Lemma shiftr_top w x : 1 <= w -> 0 <= x < 2 ^ w -> Z.shiftr x (w - 1) = b2z (Z.testbit x (w - 1)).
Proof.
  intros Hw Hx. pose proof (pow2_pos (w - 1) ltac:(lia)) as P. pose proof (pow2_split w Hw) as E.
  rewrite Z.shiftr_div_pow2 by lia. rewrite testbit_top by lia.
  destruct (Z.leb_spec (2 ^ (w - 1)) x); unfold b2z.
  - symmetry. apply (Z.div_unique x (2 ^ (w - 1)) 1 (x - 2 ^ (w - 1))); lia.
  - apply Z.div_small. lia.
Qed.

Lemma lt_pow2_log2 w x : 1 <= w -> 0 <= x -> (x < 2 ^ w <-> Z.log2 x < w).
Proof.
  intros Hw Hx. destruct (Z.eq_dec x 0) as [->|Hn].
  - cbn. pose proof (pow2_pos w ltac:(lia)). lia.
  - apply Z.log2_lt_pow2. lia.
Qed.

Lemma lxor_bound w a b : 1 <= w -> 0 <= a < 2 ^ w -> 0 <= b < 2 ^ w -> 0 <= Z.lxor a b < 2 ^ w.
Proof.
  intros Hw Ha Hb. assert (N : 0 <= Z.lxor a b) by (apply Z.lxor_nonneg; lia).
  split; [exact N|]. apply lt_pow2_log2; [lia | exact N |].
  pose proof (Z.log2_lxor a b ltac:(lia) ltac:(lia)).
  pose proof (proj1 (lt_pow2_log2 w a Hw ltac:(lia)) ltac:(lia)).
  pose proof (proj1 (lt_pow2_log2 w b Hw ltac:(lia)) ltac:(lia)). lia.
Qed.

Lemma land_bound w a b : 1 <= w -> 0 <= a < 2 ^ w -> 0 <= b < 2 ^ w -> 0 <= Z.land a b < 2 ^ w.
Proof.
  intros Hw Ha Hb. assert (N : 0 <= Z.land a b) by (apply Z.land_nonneg; lia).
  split; [exact N|]. apply lt_pow2_log2; [lia | exact N |].
  pose proof (Z.log2_land a b ltac:(lia) ltac:(lia)).
  pose proof (proj1 (lt_pow2_log2 w a Hw ltac:(lia)) ltac:(lia)). lia.
Qed.

(* ((x ^ r) & (y ^ r)) >> (w-1)  on w-bit patterns: 1 iff sign r differs from both signs *)
Lemma signtrick w x y r : 1 <= w -> 0 <= x < 2 ^ w -> 0 <= y < 2 ^ w -> 0 <= r < 2 ^ w ->
  Z.shiftr (Z.land (Z.lxor x r) (Z.lxor y r)) (w - 1)
  = b2z (xorb (2 ^ (w - 1) <=? x) (2 ^ (w - 1) <=? r) && xorb (2 ^ (w - 1) <=? y) (2 ^ (w - 1) <=? r)).
Proof.
  intros Hw Hx Hy Hr.
  rewrite shiftr_top; [| lia | apply land_bound; [lia | apply lxor_bound; lia | apply lxor_bound; lia]].
  rewrite Z.land_spec, !Z.lxor_spec. now rewrite !testbit_top by lia.
Qed.

Lemma wrapu_of_signed w a : 1 <= w -> in_range w true a ->
  wrap w false a = if a <? 0 then a + 2 ^ w else a.
Proof.
  intros Hw Ha. pose proof (pow2_pos (w - 1) ltac:(lia)) as P. pose proof (pow2_split w Hw) as E.
  unfold in_range, min_int, max_int in Ha. rewrite wrapu_cases by lia.
  destruct (Z.ltb_spec a 0); [reflexivity|]. destruct (Z.ltb_spec a (2 ^ w)); lia.
Qed.

(* ---- signed base cases ------------------------------------------------------------------- *)

Lemma sadd_trick_eq w a b : 1 <= w -> in_range w true a -> in_range w true b ->
  (wrap w true (wrap w false (wrap w false a + wrap w false b)), negb (sadd_flagword w a b =? 0))
  = builtin_res w true (a + b)
  /\ 0 <= sadd_flagword w a b <= 1.
Proof.
  intros Hw Ha Hb. pose proof (pow2_pos (w - 1) ltac:(lia)) as P. pose proof (pow2_split w Hw) as E.
  unfold builtin_res. rewrite wrap_wrap, wrap_add_wrap by lia.
  unfold sadd_flagword.
  pose proof (wrap_in_range w false a Hw) as Ua. pose proof (wrap_in_range w false b Hw) as Ub.
  pose proof (wrap_in_range w false (wrap w false a + wrap w false b) Hw) as Ur.
  unfold in_range, min_int, max_int in Ua, Ub, Ur.
  rewrite signtrick by lia.
  set (F := xorb _ _ && xorb _ _).
  assert (HF : F = negb (in_rangeb w true (a + b))).
  { unfold F. clear F. rewrite wrap_add_wrap by lia.
    rewrite (wrapu_of_signed w a), (wrapu_of_signed w b) by assumption.
    unfold in_range, in_rangeb, min_int, max_int in *.
    rewrite (wrapu_cases w (a + b)) by lia.
    destruct (Z.ltb_spec a 0), (Z.ltb_spec b 0), (Z.ltb_spec (a + b) 0), (Z.ltb_spec (a + b) (2 ^ w)); lia. }
  rewrite HF. split.
  - f_equal. unfold b2z. destruct (in_rangeb w true (a + b)); reflexivity.
  - unfold b2z. destruct (negb _); lia.
Qed.

Lemma add_fits_wider w bw a b : 1 <= w -> w < bw -> in_range w true a -> in_range w true b ->
  in_range bw true (a + b).
Proof.
  intros Hw Hbw Ha Hb. pose proof (pow2_pos (w - 1) ltac:(lia)) as P. pose proof (pow2_split w Hw) as E.
  pose proof (pow2_mono w (bw - 1) ltac:(lia)). unfold in_range, min_int, max_int in *. lia.
Qed.

Lemma sadd_eq_builtin w lw llw a b : 1 <= w -> in_range w true a -> in_range w true b ->
  sadd_portable w lw llw a b = builtin_res w true (a + b).
Proof.
  intros Hw Ha Hb. unfold sadd_portable.
  destruct (Z.ltb_spec w lw).
  - apply widen_eq_builtin; [lia | lia |]. now apply (add_fits_wider w lw).
  - destruct (Z.ltb_spec w llw).
    + apply widen_eq_builtin; [lia | lia |]. now apply (add_fits_wider w llw).
    + now apply sadd_trick_eq.
Qed.

Lemma sadd_ub_free_ok w lw llw a b : 1 <= w -> in_range w true a -> in_range w true b ->
  sadd_ub_free w lw llw a b = true.
Proof.
  intros Hw Ha Hb. unfold sadd_ub_free, widen_ub_free.
  destruct (Z.ltb_spec w lw).
  - apply in_rangeb_spec. now apply (add_fits_wider w lw).
  - destruct (Z.ltb_spec w llw).
    + apply in_rangeb_spec. now apply (add_fits_wider w llw).
    + destruct (sadd_trick_eq w a b Hw Ha Hb) as [_ F]. lia.
Qed.

Lemma ssub_eq_builtin w a b : 1 <= w -> in_range w true a -> in_range w true b ->
  ssub_portable w a b = builtin_res w true (a - b) /\ ssub_ub_free w a b = true.
Proof.
  intros Hw Ha Hb. pose proof (pow2_pos (w - 1) ltac:(lia)) as P. pose proof (pow2_split w Hw) as E.
  unfold ssub_portable, ssub_ub_free, builtin_res. rewrite wrap_wrap, wrap_sub_wrap by lia.
  unfold ssub_flagword.
  pose proof (wrap_in_range w false a Hw) as Ua. pose proof (wrap_in_range w false b Hw) as Ub.
  pose proof (wrap_in_range w false (wrap w false a - wrap w false b) Hw) as Ur.
  unfold in_range, min_int, max_int in Ua, Ub, Ur.
  (* (a ^ b) & (a ^ r): bring to the shape of signtrick with the roles (b, r, a) *)
  rewrite (Z.lxor_comm (wrap w false a) (wrap w false b)).
  rewrite (Z.lxor_comm (wrap w false a) (wrap w false (wrap w false a - wrap w false b))).
  rewrite signtrick by lia.
  set (F := xorb _ _ && xorb _ _).
  assert (HF : F = negb (in_rangeb w true (a - b))).
  { unfold F. clear F. rewrite wrap_sub_wrap by lia.
    rewrite (wrapu_of_signed w a), (wrapu_of_signed w b) by assumption.
    unfold in_range, in_rangeb, min_int, max_int in *.
    rewrite (wrapu_cases w (a - b)) by lia.
    destruct (Z.ltb_spec a 0), (Z.ltb_spec b 0), (Z.ltb_spec (a - b) 0), (Z.ltb_spec (a - b) (2 ^ w)); lia. }
  rewrite HF. split.
  - f_equal. unfold b2z. destruct (in_rangeb w true (a - b)); reflexivity.
  - unfold b2z. destruct (negb _); lia.
Qed.

(* ---- signed multiplication by the division tests ----------------------------------------- *)

Lemma smul_const_flag_exact w a b : 2 <= w -> in_range w true a -> in_range w true b ->
  smul_const_flag w a b = negb (in_rangeb w true (a * b)).
Proof.
  intros Hw Ha Hb. unfold smul_const_flag. rewrite pyx_max_eq, pyx_min_eq by lia.
  pose proof (pow2_pos (w - 1) ltac:(lia)) as P.
  unfold in_rangeb, in_range, min_int, max_int in *. set (H := 2 ^ (w - 1)) in *.
  destruct (Z.ltb_spec 1 b) as [B1|B1].
  - (* b > 1 *)
    rewrite (Z.quot_div_nonneg (H - 1) b) by lia.
    replace (- H) with (- (H)) by lia. rewrite (Z.quot_opp_l H b) by lia.
    rewrite (Z.quot_div_nonneg H b) by lia.
    rewrite div_ltb_mul by lia.
    assert (E2 : (a <? - (H / b)) = (a * b <? - H)).
    { replace (a <? - (H / b)) with (H / b <? - a) by lia. rewrite div_ltb_mul by lia. lia. }
    rewrite E2. lia.
  - destruct (Z.eqb_spec b (-1)) as [->|Bm1]; [lia|].
    destruct (Z.ltb_spec b (-1)) as [B2|B2].
    + (* b < -1 : c = -b > 1 *)
      set (c := - b). assert (Hc : 1 < c) by (unfold c; lia). replace b with (- c) by (unfold c; lia).
      rewrite (Z.quot_opp_opp H c) by lia. rewrite (Z.quot_div_nonneg H c) by lia.
      rewrite (Z.quot_opp_r (H - 1) c) by lia. rewrite (Z.quot_div_nonneg (H - 1) c) by lia.
      rewrite div_ltb_mul by lia.
      assert (E2 : (a <? - ((H - 1) / c)) = (H - 1 <? - a * c)).
      { replace (a <? - ((H - 1) / c)) with ((H - 1) / c <? - a) by lia. now rewrite div_ltb_mul by lia. }
      rewrite E2. lia.
    + (* b = 0 or 1 *)
      assert (b = 0 \/ b = 1) as [-> | ->] by lia; lia.
Qed.

Lemma smul_const_eq_builtin w swap a b : 2 <= w -> in_range w true a -> in_range w true b ->
  smul_const_portable w swap a b = builtin_res w true (a * b).
Proof.
  intros Hw Ha Hb. unfold smul_const_portable, builtin_res.
  rewrite wrap_wrap, wrap_mul_wrap by lia.
  destruct swap.
  - rewrite smul_const_flag_exact by assumption. now rewrite (Z.mul_comm b a).
  - now rewrite smul_const_flag_exact by assumption.
Qed.

Lemma smul_eq_builtin w lw llw cb ca swap a b : 2 <= w -> wide_ok w lw llw ->
  in_range w true a -> in_range w true b ->
  smul_portable w lw llw cb ca swap a b = builtin_res w true (a * b).
Proof.
  intros Hw [W1 W2] Ha Hb. unfold smul_portable.
  destruct cb; [now apply smul_const_eq_builtin|].
  destruct ca; [rewrite (Z.mul_comm a b); now apply smul_const_eq_builtin|].
  destruct (Z.ltb_spec w lw).
  - apply widen_eq_builtin; [lia | lia |]. apply (mul_fits_double w true lw); auto; lia.
  - destruct (Z.ltb_spec w llw).
    + apply widen_eq_builtin; [lia | lia |]. apply (mul_fits_double w true llw); auto; lia.
    + now apply smul_const_eq_builtin.
Qed.

Lemma smul_const_ub_free_ok w a b : 2 <= w -> smul_const_ub_free w a b = true.
Proof.
  intros Hw. unfold smul_const_ub_free, cdiv_defined. rewrite pyx_min_no_overflow_ok by lia.
  rewrite pyx_max_eq, pyx_min_eq by lia.
  destruct (Z.ltb_spec 1 b); [lia|]. destruct (Z.eqb_spec b (-1)); [lia|].
  destruct (Z.ltb_spec b (-1)); lia.
Qed.

Lemma smul_ub_free_ok w lw llw cb ca swap a b : 2 <= w -> wide_ok w lw llw ->
  in_range w true a -> in_range w true b ->
  smul_ub_free w lw llw cb ca swap a b = true.
Proof.
  intros Hw [W1 W2] Ha Hb. unfold smul_ub_free, widen_ub_free.
  destruct cb; [now apply smul_const_ub_free_ok|].
  destruct ca; [now apply smul_const_ub_free_ok|].
  destruct (Z.ltb_spec w lw).
  - apply in_rangeb_spec. apply (mul_fits_double w true lw); auto; lia.
  - destruct (Z.ltb_spec w llw).
    + apply in_rangeb_spec. apply (mul_fits_double w true llw); auto; lia.
    + now apply smul_const_ub_free_ok.
Qed.

(* without the double-width condition the widening multiplication misses overflows (unsigned)
   resp. overflows in the wider signed type *)
Lemma umul_widen_needs_double_width :
  exists w lw llw a b, 8 <= w /\ w < lw /\ in_range w false a /\ in_range w false b /\
    umul_portable w lw llw false false false a b = (0, false) /\ a * b <> 0.
Proof. exists 8, 12, 12, 64, 64. unfold in_range. vm_compute. intuition congruence. Qed.

Lemma smul_widen_needs_double_width :
  exists w lw llw a b, 8 <= w /\ w < lw /\ in_range w true a /\ in_range w true b /\
    smul_ub_free w lw llw false false false a b = false.
Proof. exists 8, 12, 12, 64, 64. unfold in_range. vm_compute. intuition congruence. Qed.

(* ---- every base helper: portable = builtin = (wrapped exact result, exact does not fit) ---- *)

Theorem base_helper_exact builtin op w s lw llw cb ca swap a b :
  2 <= w -> wide_ok w lw llw -> in_range w s a -> in_range w s b ->
  base_helper builtin op w s lw llw cb ca swap a b = builtin_res w s (exact_op op a b).
Proof.
  intros Hw Wd Ha Hb. unfold base_helper. destruct builtin; [reflexivity|].
  destruct op, s; cbn [exact_op].
  - now apply sadd_eq_builtin; try lia.
  - now apply uadd_eq_builtin; try lia.
  - now apply ssub_eq_builtin; try lia.
  - now apply usub_eq_builtin; try lia.
  - now apply smul_eq_builtin.
  - now apply umul_eq_builtin.
Qed.

(* ---- LeftShift ---------------------------------------------------------------------------- *)

Lemma width_fits w s : 8 <= w -> wrap w s w = w.
Proof.
  intros Hw. apply wrap_id; [lia|].
  pose proof (Z.pow_gt_lin_r 2 (w - 2) ltac:(lia) ltac:(lia)) as G.
  pose proof (pow2_split (w - 1) ltac:(lia)) as E. replace (w - 1 - 1) with (w - 2) in E by lia.
  pose proof (pow2_split w ltac:(lia)) as E2.
  unfold in_range, min_int, max_int. destruct s; lia.
Qed.

(* a <= MAX >> b  <->  a * 2^b <= MAX *)
Lemma shiftr_ltb_mul m b a : 0 <= b -> 0 <= m -> (Z.shiftr m b <? a) = (m <? a * 2 ^ b).
Proof. intros Hb Hm. rewrite Z.shiftr_div_pow2 by lia. apply div_ltb_mul. now apply pow2_pos. Qed.

Lemma max_int_nonneg w s : 1 <= w -> 0 <= max_int w s.
Proof.
  intros Hw. pose proof (pow2_pos (w - 1) ltac:(lia)). pose proof (pow2_split w Hw).
  unfold max_int. destruct s; lia.
Qed.

(* decomposition of the test for in-range operands *)
Lemma lshift_check_spec w s a b : 8 <= w -> in_range w s a -> in_range w s b ->
  lshift_check w s a b = true <->
  (s = true /\ (a < 0 \/ b < 0)) \/ (0 <= a /\ 0 <= b /\ (w <= b \/ (b < w /\ max_int w s < a * 2 ^ b))).
Proof.
  intros Hw Ha Hb. unfold lshift_check. rewrite width_fits, pyx_max_eq by lia.
  assert (Hs : s = false -> 0 <= a /\ 0 <= b).
  { intros ->. unfold in_range, min_int in *. lia. }
  destruct (Z.ltb_spec a 0) as [A|A]; destruct (Z.ltb_spec b 0) as [B|B];
    try (destruct s; [cbn [andb orb]; split; [intros _; left; split; [reflexivity | lia] | reflexivity]
                     | exfalso; specialize (Hs eq_refl); lia]).
  replace (s && (false || false)) with false by (destruct s; reflexivity). cbn [orb].
  destruct (Z.leb_spec w b) as [WB|WB]; cbn [orb].
  - split; [intros _; right; lia | reflexivity].
  - rewrite shiftr_ltb_mul by (try lia; now apply max_int_nonneg; lia).
    rewrite Z.ltb_lt. split.
    + intros L. right. lia.
    + intros [[_ [N|N]] | (_ & _ & [N | [_ N]])]; lia.
Qed.

Lemma pow2_ge_width_exceeds w s a b : 1 <= w -> 0 < a -> w <= b -> max_int w s < a * 2 ^ b.
Proof.
  intros Hw Ha Hb. pose proof (pow2_mono w b ltac:(lia)) as Mo.
  pose proof (pow2_pos (w - 1) ltac:(lia)). pose proof (pow2_split w Hw).
  unfold max_int. destruct s; nia.
Qed.

(* soundness: no flag -> the value is the exact a * 2^b, and it fits *)
Lemma lshift_sound w s a b v : 8 <= w -> in_range w s a -> in_range w s b ->
  lshift_helper w s a b = (v, false) -> 0 <= b /\ v = a * 2 ^ b /\ in_range w s v.
Proof.
  intros Hw Ha Hb. unfold lshift_helper.
  destruct (lshift_check w s a b) eqn:C; [discriminate|].
  intros E. injection E as <-.
  assert (NC : ~ ((s = true /\ (a < 0 \/ b < 0)) \/
                  (0 <= a /\ 0 <= b /\ (w <= b \/ (b < w /\ max_int w s < a * 2 ^ b))))).
  { rewrite <- lshift_check_spec by assumption. congruence. }
  assert (Hs : s = false -> 0 <= a /\ 0 <= b).
  { intros ->. unfold in_range, min_int in *. lia. }
  assert (A : 0 <= a /\ 0 <= b) by (destruct s; [lia | auto]).
  assert (R : in_range w s (a * 2 ^ b)).
  { pose proof (pow2_pos b ltac:(lia)). unfold in_range. split.
    - assert (min_int w s <= 0) by (unfold min_int; destruct s; [pose proof (pow2_pos (w - 1) ltac:(lia)); lia | lia]).
      nia.
    - lia. }
  rewrite Z.shiftl_mul_pow2 by lia. rewrite (wrap_id w s (a * 2 ^ b) ltac:(lia) R).
  split; [lia|]. split; [reflexivity | exact R].
Qed.

(* the flag is set exactly when: the exact result does not fit, or (documented imprecision) the
   left operand is negative, or zero is shifted by >= width; b < 0 always flags *)
Lemma lshift_flag_iff w s a b : 8 <= w -> in_range w s a -> in_range w s b -> 0 <= b ->
  (snd (lshift_helper w s a b) = true <->
   ~ in_range w s (a * 2 ^ b) \/ (s = true /\ a < 0) \/ (a = 0 /\ w <= b)).
Proof.
  intros Hw Ha Hb B. unfold lshift_helper.
  pose proof (lshift_check_spec w s a b Hw Ha Hb) as S.
  pose proof (pow2_pos b B) as Pb.
  assert (M0 : min_int w s <= 0) by (unfold min_int; destruct s; [pose proof (pow2_pos (w - 1) ltac:(lia)); lia | lia]).
  destruct (lshift_check w s a b); cbn [snd].
  - split; [intros _ | reflexivity].
    destruct (proj1 S eq_refl) as [[-> [N|N]] | (A0 & _ & [N | [N1 N2]])].
    + right. left. auto.
    + lia.
    + destruct (Z.eq_dec a 0) as [->|An]; [right; right; auto|].
      left. pose proof (pow2_ge_width_exceeds w s a b ltac:(lia) ltac:(lia) N). unfold in_range. lia.
    + left. unfold in_range. lia.
  - split; [discriminate|]. intros G. exfalso.
    assert (NS : ~ ((s = true /\ (a < 0 \/ b < 0)) \/
                  (0 <= a /\ 0 <= b /\ (w <= b \/ (b < w /\ max_int w s < a * 2 ^ b))))) by (rewrite <- S; congruence).
    assert (Hs : s = false -> 0 <= a).
    { intros ->. unfold in_range, min_int in *. lia. }
    destruct G as [G | [[-> G] | [-> G]]].
    + apply G. unfold in_range. assert (0 <= a) by (destruct s; [lia | auto]). split; [nia | lia].
    + lia.
    + lia.
Qed.

Lemma lshift_negative_count_flags w s a b : 8 <= w -> in_range w s a -> in_range w s b -> b < 0 ->
  snd (lshift_helper w s a b) = true.
Proof.
  intros Hw Ha Hb B. unfold lshift_helper.
  assert (C : lshift_check w s a b = true).
  { apply lshift_check_spec; try assumption. left. split; [|lia].
    destruct s; [reflexivity|]. unfold in_range, min_int in Hb. lia. }
  now rewrite C.
Qed.

Lemma lshift_ub_free_ok w s a b : 8 <= w -> in_range w s a -> in_range w s b ->
  lshift_ub_free w s a b = true.
Proof.
  intros Hw Ha Hb. unfold lshift_ub_free. rewrite pyx_min_no_overflow_ok by lia. cbn [andb].
  rewrite width_fits, pyx_max_eq by lia.
  assert (Hs : s = false -> 0 <= a /\ 0 <= b).
  { intros ->. unfold in_range, min_int in *. lia. }
  destruct (Z.ltb_spec a 0) as [A|A]; destruct (Z.ltb_spec b 0) as [B|B];
    try (destruct s; [reflexivity | exfalso; specialize (Hs eq_refl); lia]).
  replace (s && (false || false)) with false by (destruct s; reflexivity). cbn [orb].
  destruct (Z.leb_spec w b) as [WB|WB]; [reflexivity|].
  rewrite shiftr_ltb_mul by (try lia; now apply max_int_nonneg; lia).
  destruct (Z.ltb_spec (max_int w s) (a * 2 ^ b)) as [L|L].
  - lia.
  - pose proof (pow2_pos b ltac:(lia)).
    assert (M0 : min_int w s <= 0) by (unfold min_int; destruct s; [pose proof (pow2_pos (w - 1) ltac:(lia)); lia | lia]).
    destruct s; [|lia].
    assert (in_rangeb w true (a * 2 ^ b) = true) by (apply in_rangeb_spec; unfold in_range; split; [nia | lia]).
    lia.
Qed.

(* ---- the generated statement -------------------------------------------------------------- *)

(* + - * : value iff the exact result fits, OverflowError otherwise; no spurious errors *)
Theorem binop_node_exact builtin op w s lw llw cb ca swap a b :
  op <> OLshift -> 2 <= w -> wide_ok w lw llw -> in_range w s a -> in_range w s b ->
  binop_node builtin op w s lw llw cb ca swap a b
  = if in_rangeb w s (exact_cop op a b) then Val (exact_cop op a b) else Ovf.
Proof.
  intros Hop Hw Wd Ha Hb. unfold binop_node, helper, raise_if.
  destruct op; try congruence; rewrite base_helper_exact by assumption;
    unfold builtin_res; cbn [fst snd exact_op exact_cop];
    (destruct (in_rangeb w s _) eqn:R; cbn [negb]; [rewrite wrap_id; [reflexivity | lia | now apply in_rangeb_spec] | reflexivity]).
Qed.

Lemma cop_eq_dec (x y : cop) : {x = y} + {x <> y}.
Proof. decide equality. Qed.

(* every operator: a returned value is the exact result (soundness) *)
Theorem binop_node_sound builtin op w s lw llw cb ca swap a b v :
  8 <= w -> wide_ok w lw llw -> in_range w s a -> in_range w s b ->
  binop_node builtin op w s lw llw cb ca swap a b = Val v ->
  v = exact_cop op a b /\ in_range w s v /\ exact_defined op b = true.
Proof.
  intros Hw Wd Ha Hb E. destruct (cop_eq_dec op OLshift) as [->|Hop].
  - unfold binop_node, helper, raise_if in E. destruct (lshift_helper w s a b) as [v' f] eqn:L.
    cbn [fst snd] in E. destruct f; [discriminate|]. injection E as ->.
    destruct (lshift_sound w s a b v Hw Ha Hb L) as (B & Ev & R). cbn [exact_cop exact_defined]. split; [exact Ev | split; [exact R | lia]].
  - rewrite binop_node_exact in E by (try assumption; lia).
    destruct (in_rangeb w s (exact_cop op a b)) eqn:R; [|discriminate]. injection E as <-.
    split; [reflexivity | split; [now apply in_rangeb_spec | destruct op; try reflexivity; congruence]].
Qed.

(* every operator: an exact result that does not fit (or an undefined one: negative shift count)
   raises (completeness of detection) *)
Theorem binop_node_complete builtin op w s lw llw cb ca swap a b :
  8 <= w -> wide_ok w lw llw -> in_range w s a -> in_range w s b ->
  ~ in_range w s (exact_cop op a b) \/ exact_defined op b = false ->
  binop_node builtin op w s lw llw cb ca swap a b = Ovf.
Proof.
  intros Hw Wd Ha Hb N. destruct (cop_eq_dec op OLshift) as [->|Hop].
  - unfold binop_node, helper, raise_if. cbn [exact_cop exact_defined] in N.
    assert (F : snd (lshift_helper w s a b) = true).
    { destruct (Z.lt_ge_cases b 0) as [B|B].
      - now apply lshift_negative_count_flags.
      - apply lshift_flag_iff; try assumption; try lia. left. destruct N as [N|N]; [exact N | lia]. }
    now rewrite F.
  - rewrite binop_node_exact by (try assumption; lia).
    destruct N as [N|N]; [|destruct op; cbn in N; congruence].
    destruct (in_rangeb w s (exact_cop op a b)) eqn:R; [|reflexivity].
    exfalso. apply N. now apply in_rangeb_spec.
Qed.

(* the portable branch and the builtin branch give the same outcome on every operator *)
Theorem portable_eq_builtin op w s lw llw cb ca swap a b :
  2 <= w -> wide_ok w lw llw -> in_range w s a -> in_range w s b ->
  helper false op w s lw llw cb ca swap a b = helper true op w s lw llw cb ca swap a b.
Proof.
  intros Hw Wd Ha Hb. unfold helper. destruct op; try reflexivity;
    now rewrite !base_helper_exact by assumption.
Qed.

(* spurious errors: exactly the documented imprecision of '<<' *)
Theorem spurious_exactly builtin op w s lw llw cb ca swap a b :
  8 <= w -> wide_ok w lw llw -> in_range w s a -> in_range w s b ->
  (spurious builtin op w s lw llw cb ca swap a b = true <->
   op = OLshift /\ 0 <= b /\ in_range w s (a * 2 ^ b) /\ ((s = true /\ a < 0) \/ (a = 0 /\ w <= b))).
Proof.
  intros Hw Wd Ha Hb. unfold spurious. rewrite !andb_true_iff, in_rangeb_spec.
  destruct (cop_eq_dec op OLshift) as [->|Hop].
  - unfold helper. cbn [exact_cop exact_defined]. rewrite Z.leb_le. split.
    + intros [[F R] B]. rewrite lshift_flag_iff in F by assumption. intuition.
    + intros (_ & B & R & G). rewrite lshift_flag_iff by assumption. intuition.
  - split; [|intros [-> _]; congruence]. intros [[F R] _]. exfalso.
    assert (E : binop_node builtin op w s lw llw cb ca swap a b = Ovf).
    { unfold binop_node, raise_if. now rewrite F. }
    rewrite binop_node_exact in E by (try assumption; lia).
    apply in_rangeb_spec in R. rewrite R in E. discriminate.
Qed.

(* ---- unary minus, abs ------------------------------------------------------------------------- *)

Lemma neg_node_unchecked_refuted :
  (exists w a, 8 <= w /\ in_range w true a /\ neg_node false w true a = Undef)
  /\ (exists w a v, 8 <= w /\ in_range w false a /\ neg_node false w false a = Val v /\ v <> - a
                    /\ ~ in_range w false (- a)).
Proof.
  split.
  - exists 32, (-2147483648). unfold in_range. vm_compute. intuition congruence.
  - exists 32, 1, 4294967295. unfold in_range. vm_compute. intuition congruence.
Qed.

Lemma neg_node_checked_exact w s a : 1 <= w -> in_range w s a ->
  neg_node true w s a = if in_rangeb w s (- a) then Val (- a) else Ovf.
Proof.
  intros Hw Ha. unfold neg_node. cbn [andb].
  destruct (in_rangeb w s (- a)) eqn:R; cbn [negb]; [|reflexivity].
  apply in_rangeb_spec in R.
  assert (N : s && (a =? min_int w s) = false).
  { destruct s; [|reflexivity]. cbn [andb]. pose proof (pow2_pos (w - 1) ltac:(lia)).
    unfold in_range, min_int, max_int in *. lia. }
  rewrite N. now rewrite wrap_id.
Qed.

(* the unchecked code is right wherever -a fits *)
Lemma neg_node_unchecked_partial w s a : 1 <= w -> in_range w s a -> in_range w s (- a) ->
  neg_node false w s a = Val (- a).
Proof.
  intros Hw Ha R. unfold neg_node. cbn [andb].
  assert (N : s && (a =? min_int w s) = false).
  { destruct s; [|reflexivity]. cbn [andb]. pose proof (pow2_pos (w - 1) ltac:(lia)).
    unfold in_range, min_int, max_int in *. lia. }
  rewrite N. now rewrite wrap_id.
Qed.

Lemma abs_node_exact w a : 2 <= w -> in_range w true a ->
  abs_node w a = if in_rangeb w true (Z.abs a) then Val (Z.abs a) else Ovf.
Proof.
  intros Hw Ha. unfold abs_node. rewrite pyx_min_eq by lia.
  pose proof (pow2_pos (w - 1) ltac:(lia)).
  destruct (Z.eqb_spec a (min_int w true)) as [->|N].
  - assert (in_rangeb w true (Z.abs (min_int w true)) = false) by (unfold in_rangeb, min_int, max_int; lia).
    now rewrite H0.
  - assert (R : in_range w true (Z.abs a)) by (unfold in_range, min_int, max_int in *; lia).
    rewrite (proj2 (in_rangeb_spec _ _ _) R). now rewrite wrap_id by (try lia; exact R).
Qed.

(* ---- Binop dispatch, the unused division helpers ---------------------------------------------- *)

Lemma dispatch_sane builtin op iw lw llw w s cb ca swap a b :
  size_sane iw lw llw w = true -> iw <= w ->
  binop_dispatch builtin op iw lw llw w s cb ca swap a b
  = of_pair (base_helper builtin op w s lw llw cb ca swap a b).
Proof.
  intros S I. unfold binop_dispatch, size_sane in *.
  destruct (Z.ltb_spec w iw); [lia|].
  destruct (Z.eqb_spec w iw) as [->|]; [reflexivity|].
  destruct (Z.eqb_spec w lw) as [->|]; [reflexivity|].
  destruct (Z.eqb_spec w llw) as [->|]; [reflexivity|]. lia.
Qed.

(* the sizeof(T) < sizeof(int) arm applies the unchecked macro: overflow of the narrow type is
   not reported.  (NumBinopNode never has a result type narrower than int.) *)
Lemma dispatch_narrow_unchecked_refuted :
  exists builtin op iw lw llw w s a b v,
    8 <= w /\ w < iw /\ in_range w s a /\ in_range w s b /\
    binop_dispatch builtin op iw lw llw w s false false false a b = R v false /\ v <> exact_op op a b.
Proof. exists false, Add, 32, 64, 64, 16, true, 32767, 1, (-32768). unfold in_range. vm_compute. intuition congruence. Qed.

(* __Pyx_div_<int>_checking_overflow divides the operands as unsigned numbers *)
Lemma sdiv_helper_refuted :
  exists w a b v, 8 <= w /\ in_range w true a /\ in_range w true b /\
    sdiv_helper w a b = (v, false) /\ v <> a / b /\ v <> Z.quot a b.
Proof. exists 32, (-6), 2, 2147483645. unfold in_range. vm_compute. intuition congruence. Qed.

Lemma sdiv_helper_nonneg_partial w a b : 1 <= w -> in_range w true a -> in_range w true b ->
  0 <= a -> 0 < b -> sdiv_helper w a b = (a / b, false).
Proof.
  intros Hw Ha Hb A B. unfold sdiv_helper.
  destruct (Z.eqb_spec b 0); [lia|].
  rewrite !wrapu_of_signed by assumption.
  destruct (Z.ltb_spec a 0); [lia|]. destruct (Z.ltb_spec b 0); [lia|].
  rewrite Z.quot_div_nonneg by lia.
  assert (R : in_range w true (a / b)).
  { pose proof (Z.div_pos a b ltac:(lia) ltac:(lia)). pose proof (Z.div_le_upper_bound a b a ltac:(lia) ltac:(nia)).
    unfold in_range, min_int, max_int in *. pose proof (pow2_pos (w - 1) ltac:(lia)). lia. }
  rewrite wrap_id by (try lia; exact R). f_equal. lia.
Qed.

Lemma udiv_helper_exact w a b : in_range w false a -> in_range w false b ->
  udiv_helper w a b = if b =? 0 then (0, true) else (a / b, false).
Proof.
  intros Ha Hb. unfold udiv_helper. destruct (Z.eqb_spec b 0); [reflexivity|].
  unfold in_range, min_int in *. now rewrite Z.quot_div_nonneg by lia.
Qed.

(* ---- ConsolidateOverflowCheck ------------------------------------------------------------------ *)
Section Fold.
  Variable builtin : bool.
  Variables w lw llw : Z.
  Variable s : bool.
  Variable env : nat -> Z.
  Notation run' := (run builtin w lw llw s env).
  Notation ref' := (ref_eval builtin w lw llw s env).
  Notation hlp' := (hlp builtin w lw llw s).

  (* fold off: every node tests its own bit; nothing is ever pending *)
  Lemma run_annotate e :
    run' (annotate e) = match ref' e with Some v => Some (v, false) | None => None end.
  Proof.
    induction e as [i | c | op e1 IH1 e2 IH2]; cbn [annotate run ref_eval]; try reflexivity.
    rewrite IH1, IH2. destruct (ref' e1) as [v1|]; [|reflexivity].
    destruct (ref' e2) as [v2|]; [|reflexivity].
    cbn [orb]. destruct (snd (hlp' op v1 v2)); reflexivity.
  Qed.

  (* fold on, below the top node: no node tests; the pending bit is set iff some sub-operation
     (evaluated on exact operand values, in evaluation order) was flagged *)
  Lemma run_folded_inner e :
    exists v p, run' (consolidate true (annotate e)) = Some (v, p) /\
      match ref' e with Some v' => p = false /\ v = v' | None => p = true end.
  Proof.
    induction e as [i | c | op e1 IH1 e2 IH2]; cbn [annotate consolidate run ref_eval negb].
    - eexists _, _. split; [reflexivity|]. auto.
    - eexists _, _. split; [reflexivity|]. auto.
    - destruct IH1 as (v1 & p1 & R1 & S1). destruct IH2 as (v2 & p2 & R2 & S2).
      rewrite R1, R2. eexists _, _. split; [reflexivity|].
      destruct (ref' e1) as [v1'|].
      + destruct S1 as [-> ->]. destruct (ref' e2) as [v2'|].
        * destruct S2 as [-> ->]. cbn [orb]. destruct (snd (hlp' op v1' v2')); auto.
        * subst p2. cbn [orb]. reflexivity.
      + subst p1. reflexivity.
  Qed.

  Theorem fold_preserves e :
    run_top builtin w lw llw s env (consolidate false (annotate e)) = Some (ref' e)
    /\ run_top builtin w lw llw s env (annotate e) = Some (ref' e).
  Proof.
    split.
    - destruct e as [i | c | op e1 e2]; cbn [annotate consolidate negb]; try reflexivity.
      unfold run_top. cbn [run ref_eval].
      destruct (run_folded_inner e1) as (v1 & p1 & R1 & S1).
      destruct (run_folded_inner e2) as (v2 & p2 & R2 & S2).
      rewrite R1, R2.
      destruct (ref' e1) as [v1'|].
      + destruct S1 as [-> ->]. destruct (ref' e2) as [v2'|].
        * destruct S2 as [-> ->]. cbn [orb]. destruct (snd (hlp' op v1' v2')); reflexivity.
        * subst p2. cbn [orb]. reflexivity.
      + subst p1. reflexivity.
    - unfold run_top. rewrite run_annotate. destruct (ref' e); reflexivity.
  Qed.
End Fold.

(* exact evaluation of a tree: None iff some sub-operation's exact result does not fit the type
   (or a shift count is negative), operands taken exact *)
Fixpoint exact_eval (w : Z) (s : bool) (env : nat -> Z) (e : expr) : option Z :=
  match e with
  | EVar i => Some (env i)
  | EConst c => Some c
  | EBin op e1 e2 =>
      match exact_eval w s env e1, exact_eval w s env e2 with
      | Some v1, Some v2 =>
          if in_rangeb w s (exact_cop op v1 v2) && exact_defined op v2
          then Some (exact_cop op v1 v2) else None
      | _, _ => None
      end
  end.

Fixpoint leaves_ok (w : Z) (s : bool) (env : nat -> Z) (e : expr) : Prop :=
  match e with
  | EVar i => in_range w s (env i)
  | EConst c => in_range w s c
  | EBin _ e1 e2 => leaves_ok w s env e1 /\ leaves_ok w s env e2
  end.

Section FoldExact.
  Variable builtin : bool.
  Variables w lw llw : Z.
  Variable s : bool.
  Variable env : nat -> Z.
  Hypothesis Hw : 8 <= w.
  Hypothesis Wd : wide_ok w lw llw.
  Notation ref' := (ref_eval builtin w lw llw s env).

  Lemma hlp_node op a b :
    binop_node builtin op w s lw llw false false false a b
    = if snd (hlp builtin w lw llw s op a b) then Ovf else Val (fst (hlp builtin w lw llw s op a b)).
  Proof. reflexivity. Qed.

  Lemma ref_eval_sound e : leaves_ok w s env e -> forall v, ref' e = Some v ->
    exact_eval w s env e = Some v /\ in_range w s v.
  Proof.
    induction e as [i | c | op e1 IH1 e2 IH2]; cbn [leaves_ok ref_eval exact_eval].
    - intros L v E. injection E as <-. auto.
    - intros L v E. injection E as <-. auto.
    - intros [L1 L2] v E.
      destruct (ref' e1) as [v1|]; [|discriminate]. destruct (ref' e2) as [v2|]; [|discriminate].
      destruct (IH1 L1 v1 eq_refl) as [X1 R1]. destruct (IH2 L2 v2 eq_refl) as [X2 R2].
      rewrite X1, X2.
      destruct (snd (hlp builtin w lw llw s op v1 v2)) eqn:F; [discriminate|]. injection E as <-.
      pose proof (hlp_node op v1 v2) as N. rewrite F in N.
      destruct (binop_node_sound _ _ _ _ _ _ _ _ _ _ _ _ Hw Wd R1 R2 N) as (Ev & Rv & D).
      rewrite <- Ev. rewrite D. rewrite (proj2 (in_rangeb_spec _ _ _) Rv). auto.
  Qed.

  Lemma ref_eval_complete e : leaves_ok w s env e -> exact_eval w s env e = None -> ref' e = None.
  Proof.
    induction e as [i | c | op e1 IH1 e2 IH2]; cbn [leaves_ok ref_eval exact_eval]; try discriminate.
    intros [L1 L2] X.
    destruct (ref' e1) as [v1|] eqn:E1; [|reflexivity].
    destruct (ref' e2) as [v2|] eqn:E2; [|reflexivity].
    destruct (ref_eval_sound e1 L1 v1 E1) as [X1 R1]. destruct (ref_eval_sound e2 L2 v2 E2) as [X2 R2].
    rewrite X1, X2 in X.
    destruct (in_rangeb w s (exact_cop op v1 v2) && exact_defined op v2) eqn:G; [discriminate|].
    assert (N : binop_node builtin op w s lw llw false false false v1 v2 = Ovf).
    { apply binop_node_complete; try assumption.
      apply andb_false_iff in G. destruct G as [G|G]; [left | right; exact G].
      rewrite <- in_rangeb_spec. congruence. }
    rewrite hlp_node in N. destruct (snd (hlp builtin w lw llw s op v1 v2)); [reflexivity | discriminate].
  Qed.

  (* folded check (one shared bit) on a tree whose leaves are values of the type:
     a value is returned only if it is the exact value of the whole expression, and
     OverflowError is raised whenever some sub-operation's exact result does not fit *)
  Theorem folded_tree_sound_complete e : leaves_ok w s env e ->
    exists r, run_top builtin w lw llw s env (consolidate false (annotate e)) = Some r /\
      (forall v, r = Some v -> exact_eval w s env e = Some v) /\
      (exact_eval w s env e = None -> r = None).
  Proof.
    intros L. exists (ref' e). split; [apply fold_preserves|]. split.
    - intros v E. now apply ref_eval_sound.
    - now apply ref_eval_complete.
  Qed.
End FoldExact.

(* a negative operand of an operation whose result type is unsigned is converted (wrapped) to that
   type before the checked helper sees it: the helper is exact on what it gets, the statement is not *)
Lemma negative_operand_conversion_refuted :
  exists w a c v, 8 <= w /\ in_range w false a /\ in_range w true c /\ c < 0 /\
    binop_node true OAdd w false 64 64 false false false a (wrap w false c) = Val v /\ v <> a + c.
Proof. exists 64, 0, (-1), 18446744073709551615. unfold in_range. vm_compute. intuition congruence. Qed.

Lemma helpers_ub_free w lw llw cb ca swap s a b : 8 <= w -> wide_ok w lw llw ->
  in_range w s a -> in_range w s b ->
  (s = true -> sadd_ub_free w lw llw a b = true /\ ssub_ub_free w a b = true
               /\ smul_ub_free w lw llw cb ca swap a b = true)
  /\ lshift_ub_free w s a b = true.
Proof.
  intros Hw Wd Ha Hb. split.
  - intros ->. split; [apply sadd_ub_free_ok; auto; lia|]. split.
    + apply ssub_eq_builtin; auto; lia.
    + apply smul_ub_free_ok; auto; lia.
  - now apply lshift_ub_free_ok.
Qed.
