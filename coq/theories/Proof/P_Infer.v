(* C40 - proofs about the model of safe type inference (M_Infer.v). *)
From Coq Require Import ZArith List Bool Lia ZifyBool.
From CyVerif Require Import Lib.CInt Model.M_Infer.
Import ListNotations.
Open Scope Z_scope.

(* ------------------------------------------------------------------ A. spanning of type lists *)
(* the two ways a spanning type can fail to hold an assigned value unchanged:
   an integer (C or Python) stored into a C double, and a float object (possibly None) into a C double *)
Definition span_exc (t r : ty) : bool :=
  match r, t with
  | TCDouble, (TPyInt | TCLong | TCInt | TPyFloat) => true
  | _, _ => false
  end.
Definition R (t r : ty) : bool :=
  match t with
  | TCBint => match r with TCBint | TObj => true | _ => false end
  | TPyBool => match r with TPyBool | TObj => true | _ => false end
  | _ => tsub t r || span_exc t r
  end.

Lemma R_refl : forall t, R t t = true.
Proof. destruct t; reflexivity. Qed.
Lemma R_step : forall t acc t2, R t acc = true -> R t (find_span acc t2) = true.
Proof. destruct t, acc, t2; vm_compute; intros H; try reflexivity; try discriminate H. Qed.
Lemma R_right : forall t1 t2, R t2 (find_span t1 t2) = true.
Proof. destruct t1, t2; reflexivity. Qed.

Lemma fold_R_acc : forall l acc t, R t acc = true -> R t (fold_left find_span l acc) = true.
Proof. induction l as [|x l IH]; intros acc t H; simpl; [exact H|]. apply IH, R_step, H. Qed.
Lemma fold_R_in : forall l acc t, In t l -> R t (fold_left find_span l acc) = true.
Proof.
  induction l as [|x l IH]; intros acc t H; simpl in *; [contradiction|].
  destruct H as [-> | H]; [apply fold_R_acc, R_right | apply IH, H].
Qed.
Lemma reduce_R : forall types t, In t types -> R t (reduce_span types) = true.
Proof.
  intros [|x l] t H; simpl in *; [contradiction|].
  destruct H as [-> | H]; [apply fold_R_acc, R_refl | apply fold_R_in, H].
Qed.

Definition finish (fx : flags) (allf : bool) (r : ty) (mo : bool) : ty :=
  if is_pyobj r then r
  else match r with
       | TCDouble => if fx_float fx && negb allf then TObj else TCDouble
       | TCBint => if fx_bint fx && mo then TObj else TCBint
       | TCLong | TCInt => if mo then TPyInt else r
       | _ => r
       end.
Lemma safe_span_finish : forall fx types mo,
  safe_span fx types mo = finish fx (forallb is_floatty types) (reduce_span types) mo.
Proof. reflexivity. Qed.

Definition Rf (t r : ty) : bool := tsub t r || span_exc t r.
Lemma finish_R : forall f1 f2 f3 allf t r mo,
  R t r = true -> Rf t (finish {| fx_float := f1; fx_bint := f2; fx_closure := f3 |} allf r mo) = true.
Proof.
  intros f1 f2 f3 allf t r mo.
  destruct f1, f2, allf, mo, t, r; vm_compute; intros H; try reflexivity; try discriminate H.
Qed.

Lemma span_exc_inv : forall t r, span_exc t r = true ->
  r = TCDouble /\ (t = TPyInt \/ t = TCLong \/ t = TCInt \/ t = TPyFloat).
Proof. destruct t, r; simpl; intros H; try discriminate H; split; auto. Qed.

(* MAIN (all type lists): every assigned type is held unchanged by the safe spanning type, except
   exactly int / float-object into C double *)
Theorem safe_span_sound_partial : forall fx types mo t,
  In t types ->
  tsub t (safe_span fx types mo) = true \/
  (safe_span fx types mo = TCDouble /\ (t = TPyInt \/ t = TCLong \/ t = TCInt \/ t = TPyFloat)).
Proof.
  intros [f1 f2 f3] types mo t Hin.
  rewrite safe_span_finish.
  pose proof (finish_R f1 f2 f3 (forallb is_floatty types) t _ mo (reduce_R types t Hin)) as H.
  unfold Rf in H. apply orb_true_iff in H. destruct H as [H | H]; [left; exact H | right].
  apply span_exc_inv, H.
Qed.

(* repaired variant: C double only when every assigned type is a float type *)
Theorem safe_span_sound_fixed : forall fx types mo t,
  fx_float fx = true -> In t types ->
  tsub t (safe_span fx types mo) = true \/ (safe_span fx types mo = TCDouble /\ t = TPyFloat).
Proof.
  intros fx types mo t Hfx Hin.
  destruct (safe_span_sound_partial fx types mo t Hin) as [H | [Hr Ht]]; [left; exact H|].
  pose proof Hr as Hr0.
  rewrite safe_span_finish in Hr. unfold finish in Hr.
  destruct (forallb is_floatty types) eqn:Hall.
  - rewrite forallb_forall in Hall. specialize (Hall t Hin).
    destruct Ht as [-> | [-> | [-> | ->]]]; simpl in Hall; try discriminate Hall.
    right. split; [exact Hr0|reflexivity].
  - rewrite Hfx in Hr. simpl in Hr.
    destruct (reduce_span types); simpl in Hr; try discriminate Hr;
      try (destruct mo; discriminate Hr); try (destruct (fx_bint fx && mo); discriminate Hr).
Qed.

Theorem safe_span_refuted :
  exists types mo t v, In t types /\ ty_ok t v = true /\ ty_ok (safe_span fx_none types mo) v = false.
Proof. exists [TCLong; TCDouble], false, TCLong, (VInt 5). vm_compute. auto. Qed.

Lemma finish_cint_mo : forall fx allf r mo, is_cintw (finish fx allf r mo) = true -> mo = false.
Proof.
  intros fx allf r mo. unfold finish.
  destruct r, mo; simpl; try reflexivity; try discriminate;
    destruct (fx_float fx), allf, (fx_bint fx); simpl; discriminate.
Qed.

(* a C integer type is chosen only for names not used in arithmetic and only when every assigned type
   is a C integer type contained in it *)
Theorem safe_span_cint : forall fx types mo,
  is_cintw (safe_span fx types mo) = true ->
  mo = false /\ forall t, In t types -> is_cintw t = true /\ tsub t (safe_span fx types mo) = true.
Proof.
  intros fx types mo H. split.
  - rewrite safe_span_finish in H. eapply finish_cint_mo, H.
  - intros t Hin. destruct (safe_span_sound_partial fx types mo t Hin) as [Hs | [Hr _]].
    + split; [|exact Hs]. destruct (safe_span fx types mo), t; simpl in *; try discriminate; reflexivity.
    + rewrite Hr in H. discriminate H.
Qed.

Theorem safe_span_bint : forall fx types mo,
  safe_span fx types mo = TCBint -> forall t, In t types -> t = TCBint.
Proof.
  intros fx types mo H t Hin.
  destruct (safe_span_sound_partial fx types mo t Hin) as [Hs | [Hr _]].
  - rewrite H in Hs. destruct t; vm_compute in Hs; try discriminate Hs; reflexivity.
  - rewrite H in Hr. discriminate Hr.
Qed.

Theorem safe_span_double : forall fx types mo,
  fx_float fx = true -> safe_span fx types mo = TCDouble -> forall t, In t types -> is_floatty t = true.
Proof.
  intros fx types mo Hfx H t Hin.
  destruct (safe_span_sound_fixed fx types mo t Hfx Hin) as [Hs | [_ ->]]; [|reflexivity].
  rewrite H in Hs. destruct t; vm_compute in Hs; try discriminate Hs; reflexivity.
Qed.

(* ---- tsub is sound for the value predicate *)
Lemma in32_in64 : forall z, in32 z = true -> in64 z = true.
Proof. intros z. unfold in32, in64. lia. Qed.

Lemma tsub_sound : forall t r v, tsub t r = true -> ty_ok t v = true -> ty_ok r v = true.
Proof.
  intros t r v Hs Hv.
  destruct t, r; vm_compute in Hs; try discriminate Hs; clear Hs;
    destruct v; simpl in *; try discriminate Hv; try reflexivity; try exact Hv;
    try (apply in32_in64; exact Hv).
Qed.

(* observable Python type: a held value keeps its kind *)
Lemma ty_ok_kind : forall t v, ty_ok t v = true -> kmem (kind_of v) (kinds t) = true.
Proof. intros t v H. unfold ty_ok in H. apply andb_true_iff in H. apply H. Qed.

Lemma kind_ty_ok : forall t v, is_cintw t = false -> kmem (kind_of v) (kinds t) = true -> ty_ok t v = true.
Proof. intros t v Hc Hk. unfold ty_ok. rewrite Hk. destruct t; simpl in *; try reflexivity; discriminate Hc. Qed.

(* ------------------------------------------------------------------ B. expressions *)
(* reference semantics of right-hand sides over a store of abstract values.  The store keeps the
   assignment that wrote each value; a NameNode only ever reads a value written by one of its
   reaching assignments (cf_state) - reaching-definition soundness is property C21's subject. *)
Definition store := nat -> option (value * nat).

Inductive ev (st : store) : expr -> value -> Prop :=
| ev_int : forall z, ev st (EInt z) (VInt z)
| ev_float : ev st EFloat VFloat
| ev_bool : forall b, ev st (EBool b) (VBool b)
| ev_str : ev st EStr VStr
| ev_none : ev st ENone VNone
| ev_name : forall x ann cf v w, st x = Some (v, w) -> In w cf -> ev st (EName x ann cf) v
| ev_bin : forall o a b v1 v2 v, ev st a v1 -> ev st b v2 -> pybin o v1 v2 = Some v -> ev st (EBin o a b) v
| ev_not : forall a v1 b, ev st a v1 -> ev st (EUn Not a) (VBool b)
| ev_un : forall o a v1 v, o <> Not -> ev st a v1 -> pyun o v1 = Some v -> ev st (EUn o a) v
| ev_cmp : forall a b v, ev st (ECmp a b) v
| ev_cond1 : forall c a b v, ev st a v -> ev st (ECond c a b) v
| ev_cond2 : forall c a b v, ev st b v -> ev st (ECond c a b) v
| ev_bool1 : forall a b v, ev st a v -> ev st (EBoolOp a b) v
| ev_bool2 : forall a b v, ev st b v -> ev st (EBoolOp a b) v
| ev_call : forall a v, ev st (ECall a) v
| ev_opaque : forall t a v, ty_ok t v = true -> ev st (EOpaque t a) v.

Lemma pybin_kind : forall o v1 v2 v, pybin o v1 v2 = Some v ->
  kbin o (kind_of v1) (kind_of v2) = Some (kind_of v).
Proof.
  intros o v1 v2 v H.
  destruct v1, v2, o; simpl in H; try discriminate H;
    repeat match goal with
    | H : context [if ?c then _ else _] |- _ => destruct c
    end; try discriminate H; inversion H; subst; reflexivity.
Qed.

Lemma pyun_kind : forall o v1 v, pyun o v1 = Some v -> kun o (kind_of v1) = Some (kind_of v).
Proof.
  intros o v1 v H. destruct o, v1; simpl in H; try discriminate H; inversion H; subst; reflexivity.
Qed.

Lemma kmem_forallb : forall (f : kind -> bool) l k, forallb f l = true -> kmem k l = true -> f k = true.
Proof.
  induction l as [|x l IH]; intros k Hf Hk; simpl in *; [discriminate Hk|].
  apply andb_true_iff in Hf. destruct Hf as [Hx Hl].
  apply orb_true_iff in Hk. destruct Hk as [Hk | Hk]; [|apply IH; assumption].
  destruct k, x; simpl in Hk; try discriminate Hk; exact Hx.
Qed.

Section ExprSound.
  Variable T : tables.
  Variable E : nat -> ty.
  Variable MO : nat -> bool.
  Variable st : store.
  (* every name node of the expression reads a value its NameNode type describes *)
  Fixpoint names_ok (e : expr) : Prop :=
    match e with
    | EName x ann cf => forall v w, st x = Some (v, w) -> In w cf -> ty_ok (name_ty (E x) (MO x) ann) v = true
    | EBin _ a b | ECond _ a b | EBoolOp a b => names_ok a /\ names_ok b
    | EUn _ a => names_ok a
    | _ => True
    end.

  Lemma expr_sound : forall e v, ev st e v -> expr_ok T E MO e = true -> names_ok e ->
    ty_ok (ety T E MO e) v = true.
  Proof.
    intros e v H. induction H; intros Hok Hn; simpl in *; try reflexivity;
      try (match goal with |- ty_ok TObj ?v = true => destruct v; reflexivity end).
    - (* int *) unfold long_literal. destruct ((- 2 ^ 31 <=? z) && (z <? 2 ^ 31)) eqn:Hz; [|reflexivity].
      change (in64 z = true). unfold in64. lia.
    - (* name *) eapply Hn; eassumption.
    - (* bin *)
      apply andb_true_iff in Hok. destruct Hok as [Hok Hent].
      apply andb_true_iff in Hok. destruct Hok as [Ha Hb].
      specialize (IHev1 Ha (proj1 Hn)). specialize (IHev2 Hb (proj2 Hn)).
      unfold bin_entry_ok in Hent. apply andb_true_iff in Hent. destruct Hent as [Hc Hall].
      apply kind_ty_ok; [destruct (is_cintw _); [discriminate Hc | reflexivity]|].
      pose proof (kmem_forallb _ _ _ Hall (ty_ok_kind _ _ IHev1)) as H3. simpl in H3.
      pose proof (kmem_forallb _ _ _ H3 (ty_ok_kind _ _ IHev2)) as H4. simpl in H4.
      rewrite (pybin_kind _ _ _ _ H1) in H4. exact H4.
    - (* not *)
      apply andb_true_iff in Hok. destruct Hok as [Ha Hent]. specialize (IHev Ha Hn).
      unfold un_entry_ok in Hent. apply andb_true_iff in Hent. destruct Hent as [Hc Hall].
      apply kind_ty_ok; [destruct (is_cintw _); [discriminate Hc | reflexivity]|].
      pose proof (kmem_forallb _ _ _ Hall (ty_ok_kind _ _ IHev)) as H3. simpl in H3. exact H3.
    - (* unop *)
      apply andb_true_iff in Hok. destruct Hok as [Ha Hent]. specialize (IHev Ha Hn).
      unfold un_entry_ok in Hent. apply andb_true_iff in Hent. destruct Hent as [Hc Hall].
      apply kind_ty_ok; [destruct (is_cintw _); [discriminate Hc | reflexivity]|].
      pose proof (kmem_forallb _ _ _ Hall (ty_ok_kind _ _ IHev)) as H3. simpl in H3.
      rewrite (pyun_kind _ _ _ H1) in H3. exact H3.
    - (* cond 1 *)
      apply andb_true_iff in Hok. destruct Hok as [Hok Hent].
      apply andb_true_iff in Hok. destruct Hok as [Ha Hb].
      unfold cond_entry_ok in Hent. apply andb_true_iff in Hent. destruct Hent as [H1 H2].
      eapply tsub_sound; [exact H1 | apply IHev; [exact Ha | exact (proj1 Hn)]].
    - (* cond 2 *)
      apply andb_true_iff in Hok. destruct Hok as [Hok Hent].
      apply andb_true_iff in Hok. destruct Hok as [Ha Hb].
      unfold cond_entry_ok in Hent. apply andb_true_iff in Hent. destruct Hent as [H1 H2].
      eapply tsub_sound; [exact H2 | apply IHev; [exact Hb | exact (proj2 Hn)]].
    - (* boolop 1 *)
      apply andb_true_iff in Hok. destruct Hok as [Hok Hent].
      apply andb_true_iff in Hok. destruct Hok as [Ha Hb].
      unfold bool_entry_ok in Hent. apply andb_true_iff in Hent. destruct Hent as [H1 H2].
      eapply tsub_sound; [exact H1 | apply IHev; [exact Ha | exact (proj1 Hn)]].
    - (* boolop 2 *)
      apply andb_true_iff in Hok. destruct Hok as [Hok Hent].
      apply andb_true_iff in Hok. destruct Hok as [Ha Hb].
      unfold bool_entry_ok in Hent. apply andb_true_iff in Hent. destruct Hent as [H1 H2].
      eapply tsub_sound; [exact H2 | apply IHev; [exact Hb | exact (proj2 Hn)]].
    - (* opaque *) exact H.
  Qed.
End ExprSound.

(* ------------------------------------------------------------------ C. all executions of a summary *)
Lemma ty_eqb_eq : forall a b, ty_eqb a b = true -> a = b.
Proof. destruct a, b; simpl; intros H; try discriminate H; reflexivity. Qed.
Lemma ty_ok_obj : forall v, ty_ok TObj v = true.
Proof. destruct v; reflexivity. Qed.
Lemma pyobj_none : forall t, is_pyobj t = true -> ty_ok t VNone = true.
Proof. destruct t; simpl; intros H; try discriminate H; reflexivity. Qed.
Lemma is_none_rhs_inv : forall e, is_none_rhs e = true -> e = ENone.
Proof. destruct e; simpl; intros H; try discriminate H; reflexivity. Qed.

Section Trace.
  Variable fx : flags.
  Variable T : tables.
  Variable s : summary.
  Variable D : list ty.
  Let MO := mo_of fx s.
  Let E := lookup D.
  (* D is a state the inferer can stop at *)
  Hypothesis Hstable : stable fx T s D MSafe = true.
  (* pure Python: declared entries (arguments) are plain objects *)
  Hypothesis Hdecl : forall x d, nth x (s_decl s) None = Some d -> d = TObj.
  (* right-hand sides avoid the operator typings of bad_bin / bad_un / bad_cond / bad_bool *)
  Hypothesis Hexpr : forall a asg, nth_error (s_assigns s) a = Some asg -> expr_ok T E MO (a_rhs asg) = true.
  (* exclusion of the finding class: no int / float-object source of a local inferred as C double *)
  Hypothesis Hnoexc : forall a asg, nth_error (s_assigns s) a = Some asg ->
    span_exc (aty fx T s D a) (E (a_lhs asg)) = false.
  (* a local that is assigned None stays a Python object *)
  Hypothesis Hnone : forall a asg, nth_error (s_assigns s) a = Some asg ->
    is_none_rhs (a_rhs asg) = true -> is_pyobj (E (a_lhs asg)) = true.

  Definition inv (st : store) : Prop := forall x v w, st x = Some (v, w) ->
    exists asg, nth_error (s_assigns s) w = Some asg /\ a_lhs asg = x /\
      ty_ok (aty fx T s D w) v = true /\ (is_none_rhs (a_rhs asg) = true -> v = VNone).

  (* one step = any assignment of the function, in any order (control flow abstracted away) *)
  Inductive step : store -> store -> Prop :=
  | step_asg : forall st a asg v, nth_error (s_assigns s) a = Some asg -> ev st (a_rhs asg) v ->
      step st (fun y => if Nat.eqb y (a_lhs asg) then Some (v, a) else st y).
  Inductive steps : store -> store -> Prop :=
  | steps_refl : forall st, steps st st
  | steps_cons : forall st1 st2 st3, steps st1 st2 -> step st2 st3 -> steps st1 st3.

  Lemma stable_parts :
    (forall x, (x < length D)%nat -> stable_entry fx T s D MSafe x = true) /\
    (forall asg, In asg (s_assigns s) -> ann_ok fx T s D (a_rhs asg) = true).
  Proof.
    unfold stable in Hstable. apply andb_true_iff in Hstable. destruct Hstable as [H12 H3].
    apply andb_true_iff in H12. destruct H12 as [_ H2]. split.
    - intros x Hx. rewrite forallb_forall in H2. apply H2. apply in_seq. lia.
    - intros asg Hin. rewrite forallb_forall in H3. apply H3, Hin.
  Qed.

  Lemma entry_holds : forall w asg v,
    nth_error (s_assigns s) w = Some asg -> ty_ok (aty fx T s D w) v = true ->
    (is_none_rhs (a_rhs asg) = true -> v = VNone) -> ty_ok (E (a_lhs asg)) v = true.
  Proof.
    intros w asg v Hw Hv Hnv.
    destruct (is_none_rhs (a_rhs asg)) eqn:Hisn.
    { rewrite (Hnv eq_refl). apply pyobj_none. eapply Hnone; eassumption. }
    clear Hnv.
    set (x := a_lhs asg).
    destruct (Nat.ltb x (length D)) eqn:Hlt.
    2:{ unfold E, lookup. rewrite nth_overflow; [apply ty_ok_obj|]. apply Nat.ltb_ge in Hlt. exact Hlt. }
    apply Nat.ltb_lt in Hlt.
    pose proof (proj1 stable_parts x Hlt) as Hse. unfold stable_entry in Hse.
    destruct (nth x (s_decl s) None) as [d|] eqn:Hd.
    { apply ty_eqb_eq in Hse. fold E in Hse. fold (E x). rewrite Hse. rewrite (Hdecl _ _ Hd). apply ty_ok_obj. }
    apply orb_true_iff in Hse. destruct Hse as [Hse | Hse].
    { apply ty_eqb_eq in Hse. fold (E x). unfold E. rewrite Hse. apply ty_ok_obj. }
    apply ty_eqb_eq in Hse. unfold entry_type in Hse. rewrite Hd in Hse. fold MO in Hse. fold E in Hse.
    assert (Hin : In (aty fx T s D w) (inferred_types T s E MO x)).
    { unfold inferred_types.
      assert (Hm : In (aty fx T s D w)
                (map (fun a => ety T E MO (a_rhs a))
                   (filter (fun a => negb (is_none_rhs (a_rhs a))) (assigns_of s x)))).
      { unfold aty. rewrite Hw. fold MO. fold E.
        apply (in_map (fun a => ety T E MO (a_rhs a))). apply filter_In. split.
        - unfold assigns_of. apply filter_In. split; [eapply nth_error_In; exact Hw | apply Nat.eqb_refl].
        - rewrite Hisn. reflexivity. }
      match goal with |- In _ (if ?c then _ else _) => destruct c end; [apply in_or_app; left|]; exact Hm. }
    destruct (inferred_types T s E MO x) as [|t0 tys] eqn:Hty; [contradiction|].
    simpl in Hse.
    destruct (safe_span_sound_partial fx (t0 :: tys) (MO x) _ Hin) as [Hs | [Hr Hexc]].
    - fold (E x). rewrite Hse. eapply tsub_sound; eassumption.
    - exfalso. pose proof (Hnoexc w asg Hw) as Hne. fold x in Hne. rewrite Hse, Hr in Hne.
      destruct Hexc as [He | [He | [He | He]]]; rewrite He in Hne; discriminate Hne.
  Qed.

  Lemma names_hold : forall st e, inv st -> ann_ok fx T s D e = true -> names_ok E MO st e.
  Proof.
    intros st e Hinv. induction e; simpl; intros Ha; try exact I;
      try (apply andb_true_iff in Ha; destruct Ha as [Ha1 Ha2]; split; auto; fail); auto.
    - (* name *)
      intros v w Hst Hin. apply andb_true_iff in Ha. destruct Ha as [_ Hann].
      destruct (Hinv _ _ _ Hst) as [asg [Hw [Hl [Hv Hnv]]]].
      pose proof (entry_holds w asg v Hw Hv Hnv) as Hent. rewrite Hl in Hent.
      unfold name_ty. destruct (is_pyobj (E x)); [|exact Hent].
      destruct ann as [t|]; [|exact Hent].
      destruct (negb (is_cint t && MO x)); [|exact Hent].
      rewrite forallb_forall in Hann. specialize (Hann w Hin). rewrite Hw in Hann.
      apply orb_true_iff in Hann. destruct Hann as [Hn | Hs].
      + apply andb_true_iff in Hn. destruct Hn as [Hn Hp]. rewrite (Hnv Hn). apply pyobj_none, Hp.
      + eapply tsub_sound; eassumption.
    - (* cond *)
      apply andb_true_iff in Ha. destruct Ha as [Ha Ha3]. apply andb_true_iff in Ha. destruct Ha as [Ha1 Ha2].
      split; auto.
  Qed.

  Lemma step_inv : forall st st', inv st -> step st st' -> inv st'.
  Proof.
    intros st st' Hinv Hstep. destruct Hstep as [st a asg v Ha Hev].
    intros x v' w' Hst'. destruct (Nat.eqb x (a_lhs asg)) eqn:Hx.
    - inversion Hst'; subst v' w'. apply Nat.eqb_eq in Hx. exists asg. repeat split; auto.
      + unfold aty. rewrite Ha. fold MO. fold E. apply expr_sound with (st := st); auto.
        * eapply Hexpr; eassumption.
        * apply names_hold; [exact Hinv|]. apply (proj2 stable_parts). eapply nth_error_In; eassumption.
      + intros Hn. rewrite (is_none_rhs_inv _ Hn) in Hev. inversion Hev. reflexivity.
    - apply Hinv, Hst'.
  Qed.

  Lemma steps_inv : forall st0 st, inv st0 -> steps st0 st -> inv st.
  Proof.
    intros st0 st H0 Hs. induction Hs as [st1|st1 st2 st3 H12 IH H23]; [exact H0|].
    eapply step_inv; [apply IH, H0 | exact H23].
  Qed.

  (* MAIN: in every state reachable from the empty store, by any sequence of the function's
     assignments evaluated in the reference semantics, every local holds a value that its inferred
     type represents with unchanged Python type and, for C integers, within range *)
  Theorem infer_sound_partial : forall st x v w,
    steps (fun _ => None) st -> st x = Some (v, w) -> ty_ok (E x) v = true.
  Proof.
    intros st x v w Hsteps.
    assert (Hinv : inv st).
    { eapply steps_inv; [|exact Hsteps]. intros x0 v0 w0 H0. discriminate H0. }
    intros Hst. destruct (Hinv _ _ _ Hst) as [asg [Hw [Hl [Hv Hnv]]]].
    rewrite <- Hl. eapply entry_holds; eassumption.
  Qed.
End Trace.

(* ------------------------------------------------------------------ facts about the dumped tables *)
From CyVerif Require Import Gen.Gen_Infer.

(* operator typings of the running compiler under which a Python value is NOT guaranteed to be held
   unchanged (beyond the C-integer-typed results, which are all excluded): bool objects through
   + * % and unary - ~ +, bint through unary - ~ +, and C long/int/double/float-object mixes in
   conditional and and/or expressions *)
Definition is_cint_result_bin (e : nat * nat * nat) : bool :=
  let '(o, t1, t2) := e in
  is_cintw (tb2 (tb_bin gen_tables) o (ty_of_idx t1) (ty_of_idx t2)).
Definition bad_bin_kinds : list (nat * nat * nat) := filter (fun e => negb (is_cint_result_bin e)) (bad_bin gen_tables).

Definition eq3 (a b : nat * nat * nat) : bool :=
  let '(a1, a2, a3) := a in let '(b1, b2, b3) := b in Nat.eqb a1 b1 && Nat.eqb a2 b2 && Nat.eqb a3 b3.
Definition eq2 (a b : nat * nat) : bool :=
  let '(a1, a2) := a in let '(b1, b2) := b in Nat.eqb a1 b1 && Nat.eqb a2 b2.
Definition subset {A} (eq : A -> A -> bool) (l1 l2 : list A) : bool :=
  forallb (fun x => existsb (eq x) l2) l1.
(* stated as inclusions so that they survive repairs that shrink the sets *)
Definition known_bad_bin : list (nat * nat * nat) :=
  [(0, 3, 3); (2, 3, 3); (2, 3, 6); (2, 3, 7); (2, 3, 9); (2, 6, 3); (2, 7, 3); (2, 9, 3); (4, 3, 3);
   (8, 7, 9); (9, 7, 9); (10, 7, 9)]%nat.
Definition known_bad_un : list (nat * nat) :=
  [(0, 3); (0, 6); (0, 7); (0, 9); (1, 3); (1, 6); (1, 7); (1, 9); (3, 3); (3, 6); (3, 7); (3, 9)]%nat.
Definition known_bad_cond : list (nat * nat) := [(2, 8); (3, 9); (6, 8); (7, 8); (8, 2); (8, 6); (8, 7); (9, 3)]%nat.
Lemma gen_bad_bin_kinds : subset eq3 bad_bin_kinds known_bad_bin = true.
Proof. vm_compute. reflexivity. Qed.
Lemma gen_bad_un : subset eq2 (bad_un gen_tables) known_bad_un = true.
Proof. vm_compute. reflexivity. Qed.
Lemma gen_bad_cond : subset eq2 (bad_cond gen_tables) known_bad_cond = true.
Proof. vm_compute. reflexivity. Qed.
Lemma gen_bad_bool : subset eq2 (bad_bool gen_tables) known_bad_cond = true.
Proof. vm_compute. reflexivity. Qed.

(* refutations on the faithful tables: unary minus / invert of a bint is typed bint; a conditional
   expression over a C long and a C double is typed double *)
Lemma neg_bint_refuted : exists v1 v, ty_ok TCBint v1 = true /\ pyun Neg v1 = Some v /\
  ty_ok (un_ty gen_tables Neg TCBint) v = false.
Proof. exists (VBool true), (VInt (-1)). vm_compute. auto. Qed.
Lemma cond_long_double_refuted : exists v, ty_ok TCLong v = true /\ ty_ok (cond_ty gen_tables TCLong TCDouble) v = false.
Proof. exists (VInt 3). vm_compute. auto. Qed.

Lemma ty_ok_cint_value : forall v, ty_ok TCLong v = true -> exists z, v = VInt z /\ - 2 ^ 63 <= z < 2 ^ 63.
Proof.
  intros v H. destruct v; try discriminate H. exists z. split; [reflexivity|].
  change (in64 z = true) in H. unfold in64 in H. lia.
Qed.
Lemma ty_ok_cdouble_value : forall v, ty_ok TCDouble v = true -> v = VFloat.
Proof. intros v H. destruct v; simpl in H; try discriminate H. reflexivity. Qed.
Lemma ty_ok_cbint_value : forall v, ty_ok TCBint v = true -> exists b, v = VBool b.
Proof. intros v H. destruct v; simpl in H; try discriminate H. eexists; reflexivity. Qed.
