From Coq Require Import ZArith List Bool Lia ZifyBool.
From CyVerif Require Import Model.M_GlobalCache.
Import ListNotations.
Open Scope Z_scope.

Lemma dget_dset_same {V} (d : list (Z * V)) k v : dget (dset d k v) k = Some v.
Proof. cbn. now rewrite Z.eqb_refl. Qed.

Lemma dget_dset_other {V} (d : list (Z * V)) k k' v : k <> k' -> dget (dset d k v) k' = dget d k'.
Proof. intros H. cbn. destruct (Z.eqb_spec k k'); [contradiction|reflexivity]. Qed.

(* the uncached semantics does not look at the call-site caches *)
Definition same_dicts (a b : world) : Prop :=
  moddict a = moddict b /\ builtins a = builtins b.

Lemma run_uncached_sites nm ops : forall a b, same_dicts a b -> run false nm a ops = run false nm b ops.
Proof.
  induction ops as [|o ops IH]; intros a b [Hm Hb]; [reflexivity|].
  destruct o as [k v|k|k v|k|i]; cbn [run step fst snd].
  - apply IH. split; cbn; congruence.
  - rewrite Hm. destruct (dget (moddict b) k); apply IH; split; cbn; congruence.
  - apply IH. split; cbn; congruence.
  - rewrite Hb. destruct (dget (builtins b) k); apply IH; split; cbn; congruence.
  - unfold lookup_uncached, builtin_lookup. rewrite Hm, Hb. f_equal. apply IH. split; assumption.
Qed.

(* invariant tying each call-site cache to the module dict through the version tag *)
Definition Inv (nm : Z -> name) (w : world) : Prop :=
  0 < mod_version w /\ mod_version w < next_version w /\
  forall i cv cval, dget (sites w) i = Some (cv, cval) ->
    cv < next_version w /\ (cv = mod_version w -> cval = dget (moddict w) (nm i)).

Lemma inv_w0 nm : Inv nm w0.
Proof. unfold Inv, w0; cbn. repeat split; try lia; discriminate. Qed.

Lemma inv_bump nm w d : Inv nm w -> Inv nm (bump w d).
Proof.
  intros (H0 & H1 & H2). unfold bump. split; [cbn; lia|]. split; [cbn; lia|].
  intros i cv cval H. cbn in *. destruct (H2 _ _ _ H) as [Hlt _]. split; [lia|]. intros E. lia.
Qed.

Lemma inv_bump_b nm w b : Inv nm w -> Inv nm (bump_b w b).
Proof.
  intros (H0 & H1 & H2). unfold bump_b. split; [cbn; lia|]. split; [cbn; lia|].
  intros i cv cval H. cbn in *. destruct (H2 _ _ _ H) as [Hlt Hc]. split; [lia|]. exact Hc.
Qed.

Lemma lookup_cached_correct nm w i :
  Inv nm w -> lookup_cached_result w i (nm i) = lookup_spec w (nm i).
Proof.
  intros (H0 & H1 & H2). unfold lookup_cached_result, cache_hit, site_get, lookup_spec, lookup_uncached.
  destruct (dget (sites w) i) as [[cv cval]|] eqn:Hs; cbn [fst snd].
  - destruct (Z.eqb_spec cv (mod_version w)) as [E|NE]; [|reflexivity].
    destruct (H2 _ _ _ Hs) as [_ Hc]. rewrite <- (Hc E). reflexivity.
  - (* a site never used before: its static version 0 is not a live dict's tag *)
    destruct (Z.eqb_spec 0 (mod_version w)); [lia|reflexivity].
Qed.

Lemma lookup_cached_world_inv nm w i :
  Inv nm w -> Inv nm (lookup_cached_world w i (nm i)) /\ same_dicts (lookup_cached_world w i (nm i)) w.
Proof.
  intros HI. unfold lookup_cached_world. destruct (cache_hit w i); [split; [assumption|split; reflexivity]|].
  split; [|split; reflexivity]. destruct HI as (H0 & H1 & H2).
  unfold with_sites. split; [cbn; lia|]. split; [cbn; lia|].
  intros j cv cval H. cbn [sites moddict mod_version next_version] in *.
  destruct (Z.eq_dec i j) as [->|Ne].
  - rewrite dget_dset_same in H. inversion H; subst. split; [lia|reflexivity].
  - rewrite dget_dset_other in H by assumption. exact (H2 _ _ _ H).
Qed.

(* For every history of module-dict / builtins mutations and global-name reads, from any state
   satisfying the invariant, the cached lookups return what the uncached lookups return *)
Theorem cached_eq_uncached_from nm ops : forall w, Inv nm w -> run true nm w ops = run false nm w ops.
Proof.
  induction ops as [|o ops IH]; intros w HI; [reflexivity|].
  destruct o as [k v|k|k v|k|i]; cbn [run step fst snd].
  - apply IH. apply inv_bump; assumption.
  - destruct (dget (moddict w) k); apply IH; [apply inv_bump|]; assumption.
  - apply IH. apply inv_bump_b; assumption.
  - destruct (dget (builtins w) k); apply IH; [apply inv_bump_b|]; assumption.
  - rewrite (lookup_cached_correct nm w i HI). unfold lookup_spec. f_equal.
    destruct (lookup_cached_world_inv nm w i HI) as [HI' Hsame].
    rewrite (IH _ HI'). apply run_uncached_sites. assumption.
Qed.

Theorem cached_eq_uncached nm ops : run true nm w0 ops = run false nm w0 ops.
Proof. apply cached_eq_uncached_from. apply inv_w0. Qed.

(* and the uncached lookups are the language rule evaluated on the current dicts: each read
   returns the binding current at that point of the history *)
Fixpoint spec_run (nm : Z -> name) (m b : list (name * value)) (ops : list op) : list result :=
  match ops with
  | [] => []
  | SetMod k v :: r => spec_run nm (dset m k v) b r
  | DelMod k :: r => spec_run nm (ddel m k) b r
  | SetBuiltin k v :: r => spec_run nm m (dset b k v) r
  | DelBuiltin k :: r => spec_run nm m (ddel b k) r
  | Lookup i :: r =>
      (match dget m (nm i) with
       | Some v => Found v
       | None => match dget b (nm i) with Some v => Found v | None => NameError end
       end) :: spec_run nm m b r
  end.

Lemma ddel_absent {V} (d : list (Z * V)) k : dget d k = None -> ddel d k = d.
Proof.
  induction d as [|[k' v] d IH]; cbn; [reflexivity|]. destruct (Z.eqb_spec k' k); [discriminate|].
  intros H. f_equal. apply IH. assumption.
Qed.

Lemma run_uncached_spec nm ops : forall w,
  run false nm w ops = spec_run nm (moddict w) (builtins w) ops.
Proof.
  induction ops as [|o ops IH]; intros w; [reflexivity|].
  destruct o as [k v|k|k v|k|i]; cbn [run step fst snd spec_run].
  - rewrite IH. reflexivity.
  - destruct (dget (moddict w) k) eqn:E; rewrite IH; cbn [bump moddict builtins]; [reflexivity|].
    now rewrite ddel_absent.
  - rewrite IH. reflexivity.
  - destruct (dget (builtins w) k) eqn:E; rewrite IH; cbn [bump_b moddict builtins]; [reflexivity|].
    now rewrite ddel_absent.
  - rewrite IH. reflexivity.
Qed.

Theorem lookup_current nm ops : run true nm w0 ops = spec_run nm [] [] ops.
Proof. rewrite cached_eq_uncached, run_uncached_spec. reflexivity. Qed.

(* ddel really removes, dset really binds: the association-list dict is a map *)
Lemma dget_ddel_same {V} (d : list (Z * V)) k : dget (ddel d k) k = None.
Proof.
  induction d as [|[k' v] d IH]; cbn; [reflexivity|]. destruct (Z.eqb_spec k' k); [assumption|].
  cbn. destruct (Z.eqb_spec k' k); [contradiction|assumption].
Qed.
Lemma dget_ddel_other {V} (d : list (Z * V)) k k' : k <> k' -> dget (ddel d k) k' = dget d k'.
Proof.
  intros Hne. induction d as [|[k0 v] d IH]; cbn; [reflexivity|].
  destruct (Z.eqb_spec k0 k) as [->|N].
  - destruct (Z.eqb_spec k k'); [contradiction|assumption].
  - cbn. destruct (Z.eqb_spec k0 k'); [reflexivity|assumption].
Qed.
