From Coq Require Import ZArith List Bool Lia.
From CyVerif Require Import Model.M_MemviewAxes.
Import ListNotations.
Open Scope Z_scope.

Lemma vc_loop_spec : forall isz dims inner, vc_loop isz inner dims = true <-> contig_from isz inner dims.
Proof.
  intros isz dims. induction dims as [|[sh st] r IH]; intros inner; cbn [vc_loop contig_from].
  - tauto.
  - destruct (Z.eqb_spec (inner * isz) st) as [E|E]; destruct (Z.ltb_spec 1 sh) as [L|L]; cbn [negb andb].
    + rewrite IH. split; [intros H; split; [intros _; lia|exact H]|tauto].
    + rewrite IH. split; [intros H; split; [intros; lia|exact H]|tauto].
    + split; [discriminate|]. intros [H _]. specialize (H L). lia.
    + rewrite IH. split; [intros H; split; [intros; lia|exact H]|tauto].
Qed.

Theorem verify_contig_c : forall isz shape strides,
  verify_contig FC isz shape strides = true <-> c_contiguous isz shape strides.
Proof. intros. apply vc_loop_spec. Qed.
Theorem verify_contig_f : forall isz shape strides,
  verify_contig FF isz shape strides = true <-> f_contiguous isz shape strides.
Proof. intros. apply vc_loop_spec. Qed.

(* a C-contiguous declared type  T[:, :, ::1]  (all axes "follow", the last one "contig", flag C) *)
Fixpoint c_axes (n : nat) : list axis :=
  match n with O => [] | S O => [AContig] | S m => AFollow :: c_axes m end.
(* ... and the Fortran one  T[::1, :, :] *)
Definition f_axes (n : nat) : list axis :=
  match n with O => [] | S m => AContig :: repeat AFollow m end.

(* on a contiguous prefix the per-axis tests are implied: |stride| >= itemsize for "follow" axes and
   stride = itemsize for the "contig" axis *)
Lemma contig_from_strides : forall isz dims inner, 0 < isz -> 1 <= inner ->
  Forall (fun d => 1 <= fst d) dims -> contig_from isz inner dims ->
  Forall (fun d => 1 < fst d -> isz <= Z.abs (snd d)) dims.
Proof.
  intros isz dims. induction dims as [|[sh st] r IH]; intros inner Hi Hn Hs Hc; constructor.
  - cbn [fst snd]. intros L. destruct Hc as [Hc _]. rewrite (Hc L). nia.
  - destruct Hc as [_ Hc]. apply (IH (inner * sh)); auto.
    + pose proof (Forall_inv Hs) as H1. cbn [fst] in H1. nia.
    + exact (Forall_inv_tail Hs).
Qed.

Definition chk (isz : Z) (t : axis * (Z * Z)) : bool := check_stride isz (fst t) (fst (snd t)) (snd (snd t)).
Definition Pfollow (isz : Z) (d : Z * Z) : Prop := 1 < fst d -> isz <= Z.abs (snd d).
Definition Qcontig (isz : Z) (d : Z * Z) : Prop := 1 < fst d -> snd d = isz.

Lemma chk_follow : forall isz d, Pfollow isz d -> chk isz (AFollow, d) = true.
Proof.
  intros isz [sh st] H. unfold chk, check_stride. cbn [fst snd] in *.
  destruct (Z.leb_spec sh 1); [reflexivity|]. unfold Pfollow in H. cbn [fst snd] in H. apply Z.leb_le. apply H. lia.
Qed.
Lemma chk_contig : forall isz d, Qcontig isz d -> chk isz (AContig, d) = true.
Proof.
  intros isz [sh st] H. unfold chk, check_stride. cbn [fst snd] in *.
  destruct (Z.leb_spec sh 1); [reflexivity|]. unfold Qcontig in H. cbn [fst snd] in H. apply Z.eqb_eq. apply H. lia.
Qed.

Lemma check_c_axes : forall isz dims n, length dims = n -> Forall (Pfollow isz) dims ->
  match rev dims with d :: _ => Qcontig isz d | [] => True end ->
  forallb (chk isz) (combine (c_axes n) dims) = true.
Proof.
  intros isz dims. induction dims as [|d r IH]; intros n Hn HP HQ.
  - destruct n; [reflexivity|destruct n; reflexivity].
  - destruct n as [|m]; [discriminate Hn|]. cbn [length] in Hn. injection Hn as Hn.
    destruct r as [|d2 r2].
    + cbn [length] in Hn. subst m. cbn [c_axes combine forallb]. cbn [rev app] in HQ.
      rewrite (chk_contig isz d HQ). reflexivity.
    + destruct m as [|m']; [discriminate Hn|].
      change (c_axes (S (S m'))) with (AFollow :: c_axes (S m')). cbn [combine forallb].
      rewrite (chk_follow isz d (Forall_inv HP)). cbn [andb].
      apply IH; [exact Hn|exact (Forall_inv_tail HP)|].
      cbn [rev] in HQ. cbn [rev].
      destruct (rev r2 ++ [d2]) as [|x xs] eqn:E; [destruct (rev r2); discriminate E|].
      cbn [app] in HQ. exact HQ.
Qed.

Lemma check_f_axes : forall isz dims n, length dims = n -> Forall (Pfollow isz) dims ->
  match dims with d :: _ => Qcontig isz d | [] => True end ->
  forallb (chk isz) (combine (f_axes n) dims) = true.
Proof.
  intros isz [|d r] n Hn HP HQ; [destruct n; reflexivity|].
  destruct n as [|m]; [discriminate Hn|]. cbn [f_axes combine forallb].
  rewrite (chk_contig isz d HQ). cbn [andb]. cbn [length] in Hn. injection Hn as Hn.
  apply Forall_inv_tail in HP. clear HQ d. revert m Hn. induction r as [|d r IH]; intros m Hn.
  - destruct m; reflexivity.
  - destruct m as [|m']; [discriminate Hn|]. cbn [repeat combine forallb].
    rewrite (chk_follow isz d (Forall_inv HP)). cbn [andb]. apply IH; [exact (Forall_inv_tail HP)|].
    cbn [length] in Hn. lia.
Qed.

Lemma contig_head : forall isz dims, contig_from isz 1 dims ->
  match dims with d :: _ => Qcontig isz d | [] => True end.
Proof. intros isz [|[sh st] r] H; [exact I|]. destruct H as [H _]. unfold Qcontig. cbn [fst snd]. intros L. rewrite (H L). lia. Qed.

Lemma prodz_cons : forall x r, prodz (x :: r) = x * prodz r.
Proof. reflexivity. Qed.
Lemma prodz_nonneg : forall l, Forall (fun s => 0 <= s) l -> 0 <= prodz l.
Proof.
  induction l as [|x r IH]; intros Hn; [cbn; lia|]. rewrite prodz_cons.
  pose proof (Forall_inv Hn) as Hx. cbn beta in Hx. specialize (IH (Forall_inv_tail Hn)). nia.
Qed.
Lemma prodz_pos : forall l, Forall (fun s => 0 <= s) l -> 0 < prodz l -> Forall (fun s => 1 <= s) l.
Proof.
  induction l as [|x r IH]; intros Hn Hp; constructor.
  - rewrite prodz_cons in Hp. pose proof (Forall_inv Hn) as Hx. cbn beta in Hx.
    pose proof (prodz_nonneg r (Forall_inv_tail Hn)). nia.
  - apply IH; [exact (Forall_inv_tail Hn)|]. rewrite prodz_cons in Hp.
    pose proof (Forall_inv Hn) as Hx. cbn beta in Hx.
    pose proof (prodz_nonneg r (Forall_inv_tail Hn)). nia.
Qed.

Lemma dims_pos : forall shape strides, Forall (fun s => 1 <= s) shape ->
  Forall (fun d : Z * Z => 1 <= fst d) (combine shape strides).
Proof.
  induction shape as [|x r IH]; intros [|y t] H; cbn [combine]; constructor.
  - exact (Forall_inv H).
  - apply IH. exact (Forall_inv_tail H).
Qed.

Lemma follow_all : forall isz (dims : list (Z * Z)), 0 < isz -> Forall (fun d => 1 <= fst d) dims -> contig_from isz 1 dims ->
  Forall (Pfollow isz) dims.
Proof. intros isz dims Hi Hs Hc. apply (contig_from_strides isz dims 1); auto; lia. Qed.

(* T[:, ..., ::1] accepts exactly the buffers of the right ndim that are empty or C-contiguous *)
Theorem validate_c_contig_iff : forall n isz shape strides,
  0 < isz -> Forall (fun s => 0 <= s) shape -> length strides = length shape ->
  (validate_axes (c_axes n) FC isz shape strides = true <->
   length shape = n /\ (prodz shape = 0 \/ c_contiguous isz shape strides)).
Proof.
  intros n isz shape strides Hi Hn Hl. unfold validate_axes.
  assert (Hca : length (c_axes n) = n).
  { clear. induction n as [|m IH]; [reflexivity|]. destruct m; [reflexivity|].
    change (c_axes (S (S m))) with (AFollow :: c_axes (S m)). cbn [length]. rewrite IH. reflexivity. }
  rewrite Hca.
  pose proof (prodz_nonneg shape Hn) as Hp0.
  destruct (Nat.eqb_spec (length shape) n) as [E|E]; cbn [negb]; [|split; [discriminate|intros [H _]; contradiction]].
  destruct (Z.leb_spec (prodz shape * isz) 0) as [Z0|Z0].
  - split; [intros _; split; [exact E|left; nia]|reflexivity].
  - rewrite <- verify_contig_c. split.
    + intros H. apply andb_prop in H. split; [exact E|right; exact (proj2 H)].
    + intros [_ [H|H]]; [nia|]. rewrite H, andb_true_r.
      unfold check_axes. fold (chk isz).
      assert (Hpos : Forall (fun d => 1 <= fst d) (combine shape strides)).
      { apply dims_pos. apply prodz_pos; [exact Hn|nia]. }
      apply verify_contig_c in H. unfold c_contiguous in H.
      apply check_c_axes.
      * rewrite combine_length, Hl, Nat.min_id. exact E.
      * apply Forall_rev in Hpos. pose proof (follow_all isz _ Hi Hpos H) as HF.
        apply Forall_rev in HF. rewrite rev_involutive in HF. exact HF.
      * exact (contig_head isz _ H).
Qed.

Theorem validate_f_contig_iff : forall n isz shape strides,
  0 < isz -> Forall (fun s => 0 <= s) shape -> length strides = length shape ->
  (validate_axes (f_axes n) FF isz shape strides = true <->
   length shape = n /\ (prodz shape = 0 \/ f_contiguous isz shape strides)).
Proof.
  intros n isz shape strides Hi Hn Hl. unfold validate_axes.
  assert (Hca : length (f_axes n) = n).
  { destruct n; [reflexivity|]. cbn [f_axes length]. rewrite repeat_length. reflexivity. }
  rewrite Hca.
  destruct (Nat.eqb_spec (length shape) n) as [E|E]; cbn [negb]; [|split; [discriminate|intros [H _]; contradiction]].
  destruct (Z.leb_spec (prodz shape * isz) 0) as [Z0|Z0].
  - pose proof (prodz_nonneg shape Hn) as Hp0.
    split; [intros _; split; [exact E|left; nia]|reflexivity].
  - rewrite <- verify_contig_f. split.
    + intros H. apply andb_prop in H. split; [exact E|right; exact (proj2 H)].
    + intros [_ [H|H]]; [nia|]. rewrite H, andb_true_r.
      unfold check_axes. fold (chk isz).
      assert (Hpos : Forall (fun d => 1 <= fst d) (combine shape strides)).
      { apply dims_pos. apply prodz_pos; [exact Hn|nia]. }
      apply verify_contig_f in H. unfold f_contiguous in H.
      apply check_f_axes.
      * rewrite combine_length, Hl, Nat.min_id. exact E.
      * exact (follow_all isz _ Hi Hpos H).
      * exact (contig_head isz _ H).
Qed.

(* a strided type T[:, :] only tests ndim *)
Theorem validate_strided_iff : forall n isz shape strides,
  validate_axes (repeat AStrided n) FNone isz shape strides = true <-> length shape = n.
Proof.
  intros n isz shape strides. unfold validate_axes. rewrite repeat_length.
  destruct (Nat.eqb_spec (length shape) n) as [E|E]; cbn [negb]; [|split; [discriminate|contradiction]].
  split; [intros _; exact E|intros _].
  destruct (prodz shape * isz <=? 0); [reflexivity|]. cbn [verify_contig]. rewrite andb_true_r.
  unfold check_axes. apply forallb_forall. intros [ax [sh st]] Hin.
  apply in_combine_l in Hin. apply repeat_spec in Hin. subst ax. cbn [fst snd]. unfold check_stride.
  destruct (sh <=? 1); reflexivity.
Qed.
