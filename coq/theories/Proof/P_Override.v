From Coq Require Import ZArith List Bool Lia ZifyBool Arith.
From CyVerif Require Import Model.M_Override.
Import ListNotations.
Open Scope Z_scope.

(* ---------- list update ---------- *)
Lemma upd_length {A} (l : list A) i x : length (upd l i x) = length l.
Proof. revert i; induction l as [|y l IH]; intros [|i]; cbn; auto. Qed.

Lemma nth_upd_same {A} (l : list A) i x d : (i < length l)%nat -> nth i (upd l i x) d = x.
Proof. revert i; induction l as [|y l IH]; intros [|i] H; cbn in *; try lia; auto. apply IH; lia. Qed.

Lemma nth_upd_other {A} (l : list A) i j x d : i <> j -> nth j (upd l i x) d = nth j l d.
Proof.
  revert i j; induction l as [|y l IH]; intros [|i] [|j] H; cbn; auto; try congruence.
Qed.

Lemma nth_error_upd_same {A} (l : list A) i x : (i < length l)%nat -> nth_error (upd l i x) i = Some x.
Proof. revert i; induction l as [|y l IH]; intros [|i] H; cbn in *; try lia; auto. apply IH; lia. Qed.

Lemma nth_error_upd_other {A} (l : list A) i j x : i <> j -> nth_error (upd l i x) j = nth_error l j.
Proof.
  revert i j; induction l as [|y l IH]; intros [|i] [|j] H; cbn; auto; try congruence.
Qed.

Lemma map_upd {A B} (f : A -> B) (l : list A) i x : map f (upd l i x) = upd (map f l) i (f x).
Proof. revert i; induction l as [|y l IH]; intros [|i]; cbn; auto. now rewrite IH. Qed.

Lemma nth_error_lt {A} (l : list A) i x : nth_error l i = Some x -> (i < length l)%nat.
Proof. intros H. apply nth_error_Some. congruence. Qed.

Lemma nth_error_app_last {A} (l : list A) x i y :
  nth_error (l ++ [x]) i = Some y -> nth_error l i = Some y \/ (i = length l /\ y = x).
Proof.
  intros H. destruct (Nat.lt_ge_cases i (length l)) as [Hl|Hl].
  - left. rewrite nth_error_app1 in H by assumption. assumption.
  - right. rewrite nth_error_app2 in H by assumption.
    destruct (i - length l)%nat as [|n] eqn:E; cbn in H.
    + split; [lia|congruence].
    + destruct n; discriminate.
Qed.

(* ---------- lookups ---------- *)
Lemma mro_find_ext cd cd' m : (forall c, In c m -> cd c = cd' c) -> mro_find cd m = mro_find cd' m.
Proof.
  induction m as [|c m IH]; intros H; cbn; [reflexivity|].
  rewrite (H c) by (left; reflexivity). destruct (cd' c); [reflexivity|]. apply IH. intros; apply H; right; assumption.
Qed.

Lemma existsb_eqb_In k m : existsb (Nat.eqb k) m = true <-> In k m.
Proof.
  rewrite existsb_exists. split.
  - intros (x & Hi & He). apply Nat.eqb_eq in He. subst. assumption.
  - intros H. exists k. split; [assumption|apply Nat.eqb_refl].
Qed.

Lemma init_cls_nth h : forall j v i, (i < length h)%nat ->
  nth i (init_cls h j v) (mkcs None 0) = mkcs (init_entry (j + i) (nth i h dcls)) (v + Z.of_nat i).
Proof.
  induction h as [|d h IH]; intros j v i Hi; cbn in *; [lia|].
  destruct i as [|i].
  - rewrite Nat.add_0_r, Z.add_0_r. reflexivity.
  - rewrite IH by lia. f_equal; [f_equal; lia|lia].
Qed.

Lemma init_cls_length h : forall j v, length (init_cls h j v) = length h.
Proof. induction h as [|d h IH]; intros; cbn; auto. Qed.

(* ---------- well-formedness facts ---------- *)
Lemma wf_from_nth h0 : forall l i j, wf_from h0 i l = true -> (j < length l)%nat ->
  wf_cls h0 (i + j) (nth j l dcls) = true.
Proof.
  induction l as [|d l IH]; intros i j H Hj; cbn in *; [lia|].
  apply andb_true_iff in H as [H1 H2]. destruct j as [|j].
  - now rewrite Nat.add_0_r.
  - replace (i + S j)%nat with (S i + j)%nat by lia. apply IH; [assumption|lia].
Qed.

Section Hier.
Variable h : hier.
Hypothesis Hwf : wf_hier h = true.
Variable fx : bool.

Lemma wf_c c : (c < length h)%nat -> wf_cls h c (getc h c) = true.
Proof. intros H. apply (wf_from_nth h h 0 c Hwf H). Qed.

Lemma wf_mro_head c : (c < length h)%nat -> exists r, cmro (getc h c) = c :: r /\ ~ In c r.
Proof.
  intros H. pose proof (wf_c c H) as W. unfold wf_cls in W.
  apply andb_true_iff in W as [W _]. apply andb_true_iff in W as [W _].
  destruct (cmro (getc h c)) as [|c0 r]; [discriminate|].
  apply andb_true_iff in W as [W1 W2]. apply Nat.eqb_eq in W1. subst c0.
  exists r. split; [reflexivity|]. intros Hin. apply existsb_eqb_In in Hin. rewrite Hin in W2. discriminate.
Qed.

Lemma wf_mro_valid c b : (c < length h)%nat -> In b (cmro (getc h c)) -> (b < length h)%nat.
Proof.
  intros H Hin. pose proof (wf_c c H) as W. unfold wf_cls in W.
  apply andb_true_iff in W as [W _]. apply andb_true_iff in W as [_ W].
  rewrite forallb_forall in W. specialize (W b Hin). unfold validc in W. apply Nat.ltb_lt in W. assumption.
Qed.

Lemma wf_ext_mro c b : (c < length h)%nat -> is_py (getc h c) = false -> In b (cmro (getc h c)) ->
  is_py (getc h b) = false.
Proof.
  intros H Hk Hin. pose proof (wf_c c H) as W. unfold wf_cls in W.
  apply andb_true_iff in W as [_ W]. rewrite Hk in W. rewrite forallb_forall in W.
  specialize (W b Hin). unfold is_ext in W. now apply negb_true_iff in W.
Qed.

Lemma wf_cpdef_ext c : (c < length h)%nat -> cdecl (getc h c) = MCpdef -> is_py (getc h c) = false.
Proof.
  intros H Hd. pose proof (wf_c c H) as W. unfold wf_cls in W.
  apply andb_true_iff in W as [_ W]. destruct (is_py (getc h c)); [|reflexivity]. rewrite Hd in W. discriminate.
Qed.

Lemma in_mro_self c : (c < length h)%nat -> in_mro h c c = true.
Proof.
  intros H. destruct (wf_mro_head c H) as (r & E & _). unfold in_mro. rewrite E. cbn. now rewrite Nat.eqb_refl.
Qed.

Lemma first_cpdef_in m k : first_cpdef h m = Some k -> In k m /\ cdecl (getc h k) = MCpdef.
Proof.
  induction m as [|c m IH]; cbn; [discriminate|].
  destruct (cdecl (getc h c)) eqn:E; intros H.
  - inversion H; subst. split; [left; reflexivity|assumption].
  - destruct (IH H). split; [right|]; assumption.
  - destruct (IH H). split; [right|]; assumption.
Qed.

(* in a list of extension types without plain def overrides, whose dicts hold their initial entry,
   the MRO search finds the wrapper of the most derived cpdef definition *)
Lemma mro_find_ext_chain cd m :
  no_ext_def h = true ->
  (forall c, In c m -> (c < length h)%nat /\ is_py (getc h c) = false /\ cd c = init_entry c (getc h c)) ->
  mro_find cd m = option_map Wrap (first_cpdef h m).
Proof.
  intros Hnd. induction m as [|c m IH]; intros H; cbn; [reflexivity|].
  destruct (H c (or_introl eq_refl)) as (Hc & Hk & He). rewrite He. unfold init_entry.
  destruct (cdecl (getc h c)) eqn:Ed; cbn.
  - reflexivity.
  - exfalso. unfold no_ext_def in Hnd. rewrite forallb_forall in Hnd.
    specialize (Hnd (getc h c)). unfold getc in *. rewrite Hk, Ed in Hnd.
    assert (In (nth c h dcls) h) by (apply nth_In; assumption). specialize (Hnd H0). discriminate.
  - apply IH. intros c' Hin. apply H. right. assumption.
Qed.

(* ---------- invariants ---------- *)
Record Base (w : world) : Prop := {
  b_len : length (w_cls w) = length h;
  b_ext : forall c, (c < length h)%nat -> is_py (getc h c) = false -> cd_w w c = init_entry c (getc h c);
  b_ocls : forall oi o, nth_error (w_objs w) oi = Some o -> (os_cls o < length h)%nat;
  b_nodict : forall oi o, nth_error (w_objs w) oi = Some o -> has_dict h (os_cls o) = false -> os_dict o = None;
  b_next : 0 < w_next w;
  b_cver : forall c, (c < length h)%nat -> 0 < tp_ver w c < w_next w;
  b_over : forall oi o e v, nth_error (w_objs w) oi = Some o -> os_dict o = Some (e, v) -> 0 < v < w_next w;
  b_cuniq : forall c c', (c < length h)%nat -> (c' < length h)%nat -> tp_ver w c = tp_ver w c' -> c = c';
  b_ouniq : forall oi oj o o' e e' v, nth_error (w_objs w) oi = Some o -> nth_error (w_objs w) oj = Some o' ->
       os_dict o = Some (e, v) -> os_dict o' = Some (e', v) -> oi = oj
}.

(* the invariant of the dict-version cache of C body k: a type whose dict carries the cached
   type tag resolves m (at type level) to k's own wrapper; the instance dict carrying the cached
   instance tag has no entry for m *)
Definition CacheOK (w : world) : Prop := forall k,
  fst (cache_find (w_cache w) k) < w_next w /\ snd (cache_find (w_cache w) k) < w_next w /\
  (forall c, (c < length h)%nat -> tp_ver w c = fst (cache_find (w_cache w) k) ->
     type_lookup h (cd_w w) c = Some (Wrap k) /\ in_mro h k c = true /\
     (fx = true -> static_bases h c = true)) /\
  (forall oi o e, nth_error (w_objs w) oi = Some o ->
     os_dict o = Some (e, snd (cache_find (w_cache w) k)) -> e = None).

Definition Inv (cv : bool) (w : world) : Prop := Base w /\ (cv = true -> CacheOK w).

Lemma base_w0 : Base (w0 h).
Proof.
  unfold w0. constructor; cbn [w_cls w_objs w_cache w_next].
  - apply init_cls_length.
  - intros c Hc _. unfold cd_w, cs_get. cbn [w_cls]. rewrite init_cls_nth by assumption. reflexivity.
  - intros [|oi] o H; discriminate.
  - intros [|oi] o H; discriminate.
  - lia.
  - intros c Hc. unfold tp_ver, cs_get. cbn [w_cls]. rewrite init_cls_nth by assumption. cbn [cs_ver]. lia.
  - intros [|oi] o e v H; discriminate.
  - intros c c' Hc Hc'. unfold tp_ver, cs_get. cbn [w_cls]. rewrite !init_cls_nth by assumption. cbn [cs_ver]. lia.
  - intros [|oi] oj o o' e e' v H; discriminate.
Qed.

Lemma cache_w0 : CacheOK (w0 h).
Proof.
  intros k. pose proof base_w0 as B. cbn. unfold VINIT. split; [lia|]. split; [lia|]. split.
  - intros c Hc E. pose proof (b_cver _ B c Hc). lia.
  - intros [|oi] o e H; discriminate.
Qed.

(* ---------- primitives preserve the invariants ---------- *)
Lemma cs_get_upd_same w c x : (c < length (w_cls w))%nat -> nth c (upd (w_cls w) c x) (mkcs None 0) = x.
Proof. apply nth_upd_same. Qed.

Lemma base_set_class w c e : Base w -> (c < length h)%nat -> is_py (getc h c) = true ->
  Base (set_class w c e).
Proof.
  intros B Hc Hp. pose proof (b_len _ B) as Hl. unfold set_class.
  assert (G : forall c', cs_get (mkw (upd (w_cls w) c (mkcs e (w_next w))) (w_objs w) (w_cache w) (w_next w + 1)) c'
              = if Nat.eqb c c' then mkcs e (w_next w) else cs_get w c').
  { intros c'. unfold cs_get; cbn [w_cls]. destruct (Nat.eqb_spec c c') as [<-|N].
    - apply nth_upd_same. lia.
    - apply nth_upd_other. assumption. }
  constructor; cbn [w_cls w_objs w_cache w_next].
  - rewrite upd_length. assumption.
  - intros c' Hc' Hk. unfold cd_w. rewrite G. destruct (Nat.eqb_spec c c') as [<-|N]; [congruence|].
    apply (b_ext _ B); assumption.
  - apply (b_ocls _ B).
  - apply (b_nodict _ B).
  - pose proof (b_next _ B). lia.
  - intros c' Hc'. unfold tp_ver. rewrite G. destruct (Nat.eqb_spec c c'); cbn.
    + pose proof (b_next _ B). lia.
    + pose proof (b_cver _ B c' Hc'). unfold tp_ver in *. lia.
  - intros oi o e0 v H1 H2. pose proof (b_over _ B _ _ _ _ H1 H2). lia.
  - intros c1 c2 H1 H2. unfold tp_ver. rewrite !G.
    pose proof (b_cver _ B c1 H1). pose proof (b_cver _ B c2 H2). unfold tp_ver in *.
    destruct (Nat.eqb_spec c c1), (Nat.eqb_spec c c2); cbn; try lia.
    apply (b_cuniq _ B); assumption.
  - apply (b_ouniq _ B).
Qed.

Lemma leaf_not_in_mro c c' : is_leaf h c = true -> (c' < length h)%nat -> c' <> c -> ~ In c (cmro (getc h c')).
Proof.
  intros L Hc' N Hin. unfold is_leaf in L. rewrite forallb_forall in L.
  assert (Hi : In (getc h c') h) by (apply nth_In; assumption).
  specialize (L _ Hi). destruct (wf_mro_head c' Hc') as (r & E & _). rewrite E in L, Hin.
  destruct Hin as [->|Hin]; [congruence|]. apply existsb_eqb_In in Hin. rewrite Hin in L. discriminate.
Qed.

Lemma cache_set_class w c e : Base w -> CacheOK w -> (c < length h)%nat -> is_py (getc h c) = true ->
  is_leaf h c = true \/ fx = true ->
  CacheOK (set_class w c e).
Proof.
  intros B C Hc Hpy L k. pose proof (b_len _ B) as Hl. destruct (C k) as (C1 & C2 & C3 & C4).
  unfold set_class. cbn [w_cls w_objs w_cache w_next].
  split; [lia|]. split; [lia|]. split.
  - intros c' Hc' E.
    assert (N : c' <> c).
    { intros ->. unfold tp_ver, cs_get in E. cbn [w_cls] in E. rewrite nth_upd_same in E by lia. cbn in E. lia. }
    assert (E' : tp_ver w c' = fst (cache_find (w_cache w) k)).
    { rewrite <- E. unfold tp_ver, cs_get. cbn [w_cls]. rewrite nth_upd_other by congruence. reflexivity. }
    destruct (C3 c' Hc' E') as (T1 & T2 & T3). split; [|split; assumption].
    rewrite <- T1. unfold type_lookup. apply mro_find_ext. intros x Hx.
    unfold cd_w, cs_get. cbn [w_cls]. rewrite nth_upd_other; [reflexivity|].
    intros ->. destruct L as [L|L]; [exact (leaf_not_in_mro x c' L Hc' N Hx)|].
    specialize (T3 L). unfold static_bases in T3. rewrite forallb_forall in T3.
    destruct (wf_mro_head c' Hc') as (r & Em & _). rewrite Em in Hx, T3. cbn [tl] in T3.
    destruct Hx as [->|Hx]; [congruence|]. specialize (T3 x Hx). unfold is_ext in T3. rewrite Hpy in T3. discriminate.
  - exact C4.
Qed.

(* replacing / creating the dict of object oi with a fresh tag *)
Lemma base_set_obj w oi o e : Base w -> nth_error (w_objs w) oi = Some o -> has_dict h (os_cls o) = true ->
  Base (set_obj w oi (mkos (os_cls o) (Some (e, w_next w)))).
Proof.
  intros B Ho Hd. pose proof (nth_error_lt _ _ _ Ho) as Hlt.
  assert (G : forall oj o', nth_error (upd (w_objs w) oi (mkos (os_cls o) (Some (e, w_next w)))) oj = Some o' ->
     (oj = oi /\ o' = mkos (os_cls o) (Some (e, w_next w))) \/ (oj <> oi /\ nth_error (w_objs w) oj = Some o')).
  { intros oj o' H. destruct (Nat.eq_dec oi oj) as [<-|N].
    - rewrite nth_error_upd_same in H by assumption. left. split; congruence.
    - rewrite nth_error_upd_other in H by assumption. right. split; congruence. }
  unfold set_obj. constructor; cbn [w_cls w_objs w_cache w_next].
  - apply (b_len _ B).
  - apply (b_ext _ B).
  - intros oj o' H. destruct (G _ _ H) as [[-> ->]|[N H']]; cbn; [apply (b_ocls _ B _ _ Ho)|apply (b_ocls _ B _ _ H')].
  - intros oj o' H Hn. destruct (G _ _ H) as [[-> ->]|[N H']]; cbn in *; [congruence|apply (b_nodict _ B _ _ H' Hn)].
  - pose proof (b_next _ B). lia.
  - intros c Hc. pose proof (b_cver _ B c Hc). unfold tp_ver, cs_get in *. cbn [w_cls]. lia.
  - intros oj o' e0 v H Hv. pose proof (b_next _ B). destruct (G _ _ H) as [[-> ->]|[N H']]; cbn in *.
    + inversion Hv; subst. lia.
    + pose proof (b_over _ B _ _ _ _ H' Hv). lia.
  - apply (b_cuniq _ B).
  - intros o1 o2 a b e1 e2 v H1 H2 V1 V2.
    destruct (G _ _ H1) as [[-> ->]|[N1 H1']], (G _ _ H2) as [[-> ->]|[N2 H2']]; cbn in *.
    + reflexivity.
    + inversion V1; subst. pose proof (b_over _ B _ _ _ _ H2' V2). lia.
    + inversion V2; subst. pose proof (b_over _ B _ _ _ _ H1' V1). lia.
    + apply (b_ouniq _ B _ _ _ _ _ _ _ H1' H2' V1 V2).
Qed.

Lemma cache_set_obj w oi o e : Base w -> CacheOK w -> nth_error (w_objs w) oi = Some o ->
  CacheOK (set_obj w oi (mkos (os_cls o) (Some (e, w_next w)))).
Proof.
  intros B C Ho k. destruct (C k) as (C1 & C2 & C3 & C4). pose proof (nth_error_lt _ _ _ Ho) as Hlt.
  unfold set_obj. cbn [w_cls w_objs w_cache w_next]. split; [lia|]. split; [lia|]. split.
  - exact C3.
  - intros oj o' e0 H Hv. destruct (Nat.eq_dec oi oj) as [<-|N].
    + rewrite nth_error_upd_same in H by assumption. inversion H; subst o'. cbn in Hv. inversion Hv. lia.
    + rewrite nth_error_upd_other in H by assumption. apply (C4 _ _ _ H Hv).
Qed.

Definition view (w : world) : list (nat * option Z) := map (fun o => (os_cls o, inst_m o)) (w_objs w).

Lemma view_set_obj w oi o e : nth_error (w_objs w) oi = Some o ->
  view (set_obj w oi (mkos (os_cls o) (Some (e, w_next w)))) = upd (view w) oi (os_cls o, e).
Proof. intros H. unfold view, set_obj. cbn [w_objs]. rewrite map_upd. reflexivity. Qed.

Lemma upd_same_id {A} (l : list A) i x : nth_error l i = Some x -> upd l i x = l.
Proof. revert i; induction l as [|y l IH]; intros [|i] H; cbn in *; try discriminate; [congruence|]. now rewrite IH. Qed.

(* __Pyx_get_object_dict_version *)
Lemma read_obj_ver_spec cv w oi o : Inv cv w -> nth_error (w_objs w) oi = Some o ->
  exists o1, nth_error (w_objs (fst (read_obj_ver h w oi))) oi = Some o1 /\
    os_cls o1 = os_cls o /\ inst_m o1 = inst_m o /\
    Inv cv (fst (read_obj_ver h w oi)) /\
    w_cls (fst (read_obj_ver h w oi)) = w_cls w /\ w_cache (fst (read_obj_ver h w oi)) = w_cache w /\
    view (fst (read_obj_ver h w oi)) = view w /\
    ((snd (read_obj_ver h w oi) = 0 /\ os_dict o1 = None) \/
     (os_dict o1 = Some (inst_m o, snd (read_obj_ver h w oi)))).
Proof.
  intros [B C] Ho. unfold read_obj_ver. rewrite Ho.
  destruct (os_dict o) as [[e v]|] eqn:Ed.
  - cbn [fst snd]. exists o. repeat (split; [solve [auto]|]). split; [split; assumption|].
    repeat (split; [reflexivity|]). right. unfold inst_m. rewrite Ed. reflexivity.
  - cbn [fst snd]. exists o. repeat (split; [solve [auto]|]). split; [split; assumption|].
    repeat (split; [reflexivity|]). left. split; [reflexivity|assumption].
Qed.


(* ---------- the override check ---------- *)
Lemma cd_w_cls_eq w w1 : w_cls w1 = w_cls w -> forall c, cd_w w1 c = cd_w w c.
Proof. intros E c. unfold cd_w, cs_get. now rewrite E. Qed.

Lemma tp_ver_cls_eq w w1 : w_cls w1 = w_cls w -> forall c, tp_ver w1 c = tp_ver w c.
Proof. intros E c. unfold tp_ver, cs_get. now rewrite E. Qed.

Lemma lookup_ext cd cd' c i : (forall x, cd x = cd' x) -> lookup h cd c i = lookup h cd' c i.
Proof.
  intros E. unfold lookup, type_lookup. rewrite (mro_find_ext cd cd') by (intros; apply E). reflexivity.
Qed.

Lemma lookup_twrap_inv cd c i k : lookup h cd c i = TWrap k ->
  i = None /\ type_lookup h cd c = Some (Wrap k) /\ in_mro h k c = true.
Proof.
  unfold lookup. destruct i as [n|]; [discriminate|]. destruct (type_lookup h cd c) as [[n|k']|]; cbn; try discriminate.
  destruct (in_mro h k' c) eqn:E; [|discriminate]. intros H. inversion H; subst. auto.
Qed.

(* prefilter says "cannot be overridden" -> Python lookup resolves to the wrapper of the C body in
   the vtable slot *)
Lemma prefilter_sound_w w oi o k : Base w -> no_ext_def h = true ->
  nth_error (w_objs w) oi = Some o -> prefilter h (os_cls o) = false -> vslot h (os_cls o) = Some k ->
  lookup h (cd_w w) (os_cls o) (inst_m o) = TWrap k.
Proof.
  intros B Hnd Ho Hp Hv. unfold prefilter in Hp. apply orb_false_iff in Hp as [Hd Hk].
  pose proof (b_ocls _ B _ _ Ho) as Hc.
  unfold inst_m. rewrite (b_nodict _ B _ _ Ho Hd). unfold lookup, type_lookup.
  rewrite (mro_find_ext_chain (cd_w w) (cmro (getc h (os_cls o))) Hnd).
  - unfold vslot in Hv. rewrite Hv. cbn. destruct (first_cpdef_in _ _ Hv) as [Hin _].
    unfold in_mro. apply existsb_eqb_In in Hin. now rewrite Hin.
  - intros c Hin. pose proof (wf_mro_valid _ _ Hc Hin) as Hv'. pose proof (wf_ext_mro _ _ Hc Hk Hin) as He.
    split; [assumption|]. split; [assumption|]. apply (b_ext _ B); assumption.
Qed.

Lemma base_set_cache w k p : Base w -> Base (set_cache w k p).
Proof. intros B. destruct B. constructor; assumption. Qed.

Lemma slow_path_ok cached cv w k oi o o1 : Inv cv w -> (cached = true -> cv = true) ->
  nth_error (w_objs w) oi = Some o1 -> os_cls o1 = os_cls o -> inst_m o1 = inst_m o ->
  snd (slow_path cached fx h w k oi o) = res_of_target (lookup h (cd_w w) (os_cls o) (inst_m o)) /\
  Inv cv (fst (slow_path cached fx h w k oi o)) /\
  w_cls (fst (slow_path cached fx h w k oi o)) = w_cls w /\ view (fst (slow_path cached fx h w k oi o)) = view w.
Proof.
  intros I Hcv Ho Ec Ei. unfold slow_path.
  destruct (lookup h (cd_w w) (os_cls o) (inst_m o)) as [k'| | |] eqn:El; cbn [fst snd res_of_target]; auto.
  destruct (Nat.eqb_spec k' k) as [->|N]; cbn [fst snd]; [|auto].
  destruct cached; cbn [fst snd]; [|auto].
  rewrite Z.eqb_refl. cbn [andb].
  destruct (read_obj_ver_spec cv w oi o1 I Ho) as (o2 & Ho2 & Ec2 & Ei2 & [B1 C1] & Ecl & Eca & Ev & Hver).
  destruct (read_obj_ver h w oi) as [w1 ov]. cbn [fst snd] in *.
  split; [reflexivity|]. split; [|split; assumption].
  split; [apply base_set_cache; assumption|]. intros Ecv. specialize (C1 Ecv).
  destruct (lookup_twrap_inv _ _ _ _ El) as (Hi & Ht & Hm).
  pose proof (b_ocls _ B1 _ _ Ho2) as Hc. rewrite Ec2, Ec in Hc.
  intros k0. unfold set_cache. cbn [w_cls w_objs w_cache w_next cache_find].
  destruct (Nat.eqb_spec k k0) as [<-|Nk]; [|apply C1].
  destruct (negb fx || static_bases h (os_cls o)) eqn:Efx; cbn [fst snd].
  2:{ (* not cached: the entry is reset to the initial value, which no live tag equals *)
      unfold VINIT. pose proof (b_next _ B1). split; [lia|]. split; [lia|]. split.
      - intros c Hc' E. pose proof (b_cver _ B1 c Hc') as Q. unfold tp_ver, cs_get in E, Q. cbn [w_cls] in E. lia.
      - intros oj o' e Hj Hd. pose proof (b_over _ B1 _ _ _ _ Hj Hd). lia. }
  split.
  { rewrite <- (tp_ver_cls_eq w w1 Ecl). apply (b_cver _ B1). assumption. }
  split.
  { destruct Hver as [[-> _]|Hd]; [apply (b_next _ B1)|]. apply (b_over _ B1 _ _ _ _ Ho2 Hd). }
  split.
  - intros c Hc' E. rewrite <- (tp_ver_cls_eq w w1 Ecl) in E.
    assert (c = os_cls o) by (apply (b_cuniq _ B1); assumption). subst c.
    split; [|split; [assumption|]].
    + rewrite <- Ht. unfold type_lookup. apply mro_find_ext. intros; apply cd_w_cls_eq; assumption.
    + intros Efx'. rewrite Efx' in Efx. exact Efx.
  - intros oj o' e Hj Hd. destruct Hver as [[-> _]|Hd2].
    + pose proof (b_over _ B1 _ _ _ _ Hj Hd). lia.
    + assert (oj = oi) by (apply (b_ouniq _ B1 _ _ _ _ _ _ _ Hj Ho2 Hd Hd2)). subst oj.
      rewrite Ho2 in Hj. inversion Hj; subst o'. rewrite Hd2 in Hd. inversion Hd. congruence.
Qed.

Lemma cbody_ok cached cv w k oi o : Inv cv w -> (cached = true -> cv = true) -> no_ext_def h = true ->
  nth_error (w_objs w) oi = Some o -> vslot h (os_cls o) = Some k ->
  snd (cbody cached fx h w k false oi o) = res_of_target (lookup h (cd_w w) (os_cls o) (inst_m o)) /\
  Inv cv (fst (cbody cached fx h w k false oi o)) /\
  w_cls (fst (cbody cached fx h w k false oi o)) = w_cls w /\ view (fst (cbody cached fx h w k false oi o)) = view w.
Proof.
  intros I Hcv Hnd Ho Hv. unfold cbody.
  destruct (cdecl_dict (getc h k) || prefilter h (os_cls o)) eqn:Echk.
  2:{ apply orb_false_iff in Echk as [_ Hp]. cbn [fst snd]. destruct I as [B C].
      rewrite (prefilter_sound_w w oi o k B Hnd Ho Hp Hv). cbn [res_of_target].
      split; [reflexivity|]. split; [split; assumption|]. split; reflexivity. }
  destruct cached eqn:Ecached; [|apply (slow_path_ok false cv w k oi o o); auto].
  destruct (Z.eqb_spec (fst (cache_find (w_cache w) k)) (tp_ver w (os_cls o))) as [Et|Nt];
    [|apply (slow_path_ok true cv w k oi o o); auto].
  destruct (read_obj_ver_spec cv w oi o I Ho) as (o2 & Ho2 & Ec2 & Ei2 & I1 & Ecl & Eca & Ev & Hver).
  destruct (read_obj_ver h w oi) as [w1 v]. cbn [fst snd] in *.
  destruct (Z.eqb_spec (snd (cache_find (w_cache w) k)) v) as [Eo|No].
  - (* cache hit: C body without lookup *)
    cbn [fst snd]. split; [|split; [assumption|split; assumption]].
    destruct I as [B C]. specialize (C (Hcv eq_refl)). destruct (C k) as (_ & _ & C3 & _).
    destruct (C3 (os_cls o) (b_ocls _ B _ _ Ho) (eq_sym Et)) as (Ht & Hm & _).
    assert (Hi : inst_m o = None).
    { destruct Hver as [[_ Hd]|Hd].
      - rewrite <- Ei2. unfold inst_m. now rewrite Hd.
      - destruct I1 as [B1 C1]. specialize (C1 (Hcv eq_refl)). destruct (C1 k) as (_ & _ & _ & C4).
        rewrite Eca in C4. apply (C4 oi o2 (inst_m o) Ho2). rewrite Eo. assumption. }
    rewrite Hi. unfold lookup. rewrite Ht. cbn. rewrite Hm. reflexivity.
  - destruct (slow_path_ok true cv w1 k oi o o2 I1 Hcv Ho2 Ec2 Ei2) as (R1 & R2 & R3 & R4).
    split; [rewrite R1; f_equal; apply lookup_ext; intros; apply cd_w_cls_eq; assumption|].
    split; [assumption|]. split; congruence.
Qed.

(* ---------- simulation of the Python semantics ---------- *)
Definition Rel (w : world) (s : pstate) : Prop := p_cls s = map cs_m (w_cls w) /\ p_objs s = view w.

Lemma cd_rel w s : Rel w s -> forall c, cd_p s c = cd_w w c.
Proof.
  intros [E _] c. unfold cd_p, cd_w, cs_get. rewrite E.
  change (@None value) with (cs_m (mkcs None 0)). apply map_nth.
Qed.

Lemma view_nth w oi : nth_error (view w) oi =
  match nth_error (w_objs w) oi with Some o => Some (os_cls o, inst_m o) | None => None end.
Proof. unfold view. rewrite nth_error_map. destruct (nth_error (w_objs w) oi); reflexivity. Qed.

Lemma base_new w c d nx : Base w -> (c < length h)%nat ->
  (d = None /\ nx = w_next w) \/ (d = Some (None, w_next w) /\ nx = w_next w + 1) ->
  (d <> None -> has_dict h c = true) ->
  Base (mkw (w_cls w) (w_objs w ++ [mkos c d]) (w_cache w) nx).
Proof.
  intros B Hc Hd Hhd. pose proof (b_next _ B) as Hn.
  assert (Hnx : w_next w <= nx) by (destruct Hd as [[_ ->]|[_ ->]]; lia).
  constructor; cbn [w_cls w_objs w_cache w_next].
  - apply (b_len _ B).
  - apply (b_ext _ B).
  - intros oi o H. destruct (nth_error_app_last _ _ _ _ H) as [H'|[_ ->]]; [apply (b_ocls _ B _ _ H')|assumption].
  - intros oi o H Hh. destruct (nth_error_app_last _ _ _ _ H) as [H'|[_ ->]]; [apply (b_nodict _ B _ _ H' Hh)|].
    cbn in *. destruct Hd as [[-> _]|[-> _]]; [reflexivity|].
    rewrite Hhd in Hh by discriminate. discriminate.
  - lia.
  - intros c' Hc'. pose proof (b_cver _ B c' Hc'). unfold tp_ver, cs_get in *. cbn [w_cls]. lia.
  - intros oi o e v H Hv. destruct (nth_error_app_last _ _ _ _ H) as [H'|[_ ->]].
    + pose proof (b_over _ B _ _ _ _ H' Hv). lia.
    + cbn in Hv. destruct Hd as [[-> _]|[-> ->]]; [discriminate|]. inversion Hv. lia.
  - apply (b_cuniq _ B).
  - intros o1 o2 a b e1 e2 v H1 H2 V1 V2.
    destruct (nth_error_app_last _ _ _ _ H1) as [H1'|[-> ->]], (nth_error_app_last _ _ _ _ H2) as [H2'|[-> ->]].
    + apply (b_ouniq _ B _ _ _ _ _ _ _ H1' H2' V1 V2).
    + cbn in V2. destruct Hd as [[-> _]|[-> _]]; [discriminate|]. inversion V2; subst.
      pose proof (b_over _ B _ _ _ _ H1' V1). lia.
    + cbn in V1. destruct Hd as [[-> _]|[-> _]]; [discriminate|]. inversion V1; subst.
      pose proof (b_over _ B _ _ _ _ H2' V2). lia.
    + reflexivity.
Qed.

Lemma cache_new w c d nx : Base w -> CacheOK w ->
  (d = None /\ nx = w_next w) \/ (d = Some (None, w_next w) /\ nx = w_next w + 1) ->
  CacheOK (mkw (w_cls w) (w_objs w ++ [mkos c d]) (w_cache w) nx).
Proof.
  intros B C Hd k. destruct (C k) as (C1 & C2 & C3 & C4).
  assert (Hnx : w_next w <= nx) by (destruct Hd as [[_ ->]|[_ ->]]; lia).
  cbn [w_cls w_objs w_cache w_next]. split; [lia|]. split; [lia|]. split; [exact C3|].
  intros oi o e H Hv. destruct (nth_error_app_last _ _ _ _ H) as [H'|[_ ->]]; [apply (C4 _ _ _ H' Hv)|].
  cbn in Hv. destruct Hd as [[-> _]|[-> _]]; [discriminate|]. congruence.
Qed.

Lemma nth_nth_error {A} (l : list A) i d : (i < length l)%nat -> nth_error l i = Some (nth i l d).
Proof. revert i; induction l as [|y l IH]; intros [|i] H; cbn in *; try lia; auto. apply IH; lia. Qed.

Lemma step_sim cached cv w s o : Inv cv w -> Rel w s -> (cached = true -> cv = true) ->
  (cv = true -> leaf_op h o = true \/ fx = true) -> no_ext_def h = true ->
  snd (step_cy cached fx h w o) = snd (step_py h s o) /\
  Inv cv (fst (step_cy cached fx h w o)) /\ Rel (fst (step_cy cached fx h w o)) (fst (step_py h s o)).
Proof.
  intros I R Hcv Hleaf Hnd. pose proof I as [B C]. pose proof R as [Rc Ro].
  pose proof (cd_rel w s R) as Hcd.
  destruct o as [c v|c|c|oi n|oi|oi|oi|c oi]; cbn [step_cy step_py fst snd].
  - (* SetClass *)
    split; [reflexivity|]. destruct (validc h c && is_py (getc h c)) eqn:E; [|split; assumption].
    apply andb_true_iff in E as [Ev Ep]. unfold validc in Ev. apply Nat.ltb_lt in Ev.
    split; [split; [apply base_set_class; assumption|intros Ecv; apply cache_set_class; auto; apply (Hleaf Ecv)]|].
    unfold set_class, Rel, view. cbn [p_cls p_objs w_cls w_objs]. rewrite map_upd, Rc. cbn [cs_m]. split; [reflexivity|assumption].
  - (* DelClass *)
    split; [reflexivity|]. destruct (validc h c && is_py (getc h c)) eqn:E; [|split; assumption].
    apply andb_true_iff in E as [Ev Ep]. unfold validc in Ev. apply Nat.ltb_lt in Ev.
    destruct (cd_w w c) as [v0|] eqn:Ecd.
    + split; [split; [apply base_set_class; assumption|intros Ecv; apply cache_set_class; auto; apply (Hleaf Ecv)]|].
      unfold set_class, Rel, view. cbn [p_cls p_objs w_cls w_objs]. rewrite map_upd, Rc. cbn [cs_m]. split; [reflexivity|assumption].
    + split; [assumption|]. unfold Rel. cbn [p_cls p_objs]. split; [|assumption].
      rewrite Rc. apply upd_same_id.
      assert (Hl : (c < length (map cs_m (w_cls w)))%nat) by (rewrite map_length, (b_len _ B); assumption).
      rewrite (nth_nth_error _ _ None Hl). f_equal.
      change (@None value) with (cs_m (mkcs None 0)). rewrite map_nth. exact Ecd.
  - (* New *)
    split; [reflexivity|]. destruct (validc h c) eqn:Ev; [|split; assumption].
    unfold validc in Ev. apply Nat.ltb_lt in Ev.
    assert (Hv : forall d nx, view (mkw (w_cls w) (w_objs w ++ [mkos c d]) (w_cache w) nx)
                    = view w ++ [(c, match d with Some (e, _) => e | None => None end)]).
    { intros. unfold view. cbn [w_objs]. rewrite map_app. reflexivity. }
    destruct (cdictk (getc h c)) eqn:Ek.
    + split; [split; [apply base_new; auto; congruence|intros Ecv; apply cache_new; auto]|].
      unfold Rel. cbn [p_cls p_objs]. rewrite Hv, Ro. split; [assumption|reflexivity].
    + split; [split; [apply base_new; auto; intros _; unfold has_dict; now rewrite Ek
                     |intros Ecv; apply cache_new; auto]|].
      unfold Rel. cbn [p_cls p_objs]. rewrite Hv, Ro. split; [assumption|reflexivity].
    + split; [split; [apply base_new; auto; congruence|intros Ecv; apply cache_new; auto]|].
      unfold Rel. cbn [p_cls p_objs]. rewrite Hv, Ro. split; [assumption|reflexivity].
  - (* SetInst *)
    split; [reflexivity|]. rewrite Ro, view_nth. destruct (nth_error (w_objs w) oi) as [o|] eqn:Eo; [|split; assumption].
    destruct (has_dict h (os_cls o)) eqn:Ehd; [|split; assumption].
    split; [split; [apply base_set_obj; assumption|intros Ecv; apply cache_set_obj; auto]|].
    unfold Rel. cbn [p_cls p_objs]. rewrite view_set_obj by assumption. split; [assumption|reflexivity].
  - (* DelInst *)
    split; [reflexivity|]. rewrite Ro, view_nth. destruct (nth_error (w_objs w) oi) as [o|] eqn:Eo; [|split; assumption].
    destruct (os_dict o) as [[[n|] v]|] eqn:Ed.
    + assert (Ehd : has_dict h (os_cls o) = true).
      { destruct (has_dict h (os_cls o)) eqn:E; [reflexivity|]. rewrite (b_nodict _ B _ _ Eo E) in Ed. discriminate. }
      split; [split; [apply base_set_obj; assumption|intros Ecv; apply cache_set_obj; auto]|].
      unfold Rel. cbn [p_cls p_objs]. rewrite view_set_obj by assumption. split; [assumption|reflexivity].
    + split; [assumption|]. unfold Rel. cbn [p_cls p_objs]. split; [assumption|].
      apply upd_same_id. rewrite view_nth, Eo. unfold inst_m. now rewrite Ed.
    + destruct (cdictk (getc h (os_cls o))) eqn:Ek.
      1,2: (split; [assumption|]; unfold Rel; cbn [p_cls p_objs]; split; [assumption|];
            apply upd_same_id; rewrite view_nth, Eo; unfold inst_m; now rewrite Ed).
      assert (Ehd : has_dict h (os_cls o) = true) by (unfold has_dict; now rewrite Ek).
      split; [split; [apply base_set_obj; assumption|intros Ecv; apply cache_set_obj; auto]|].
      unfold Rel. cbn [p_cls p_objs]. rewrite view_set_obj by assumption. split; [assumption|reflexivity].
  - (* CallPy *)
    rewrite Ro, view_nth. destruct (nth_error (w_objs w) oi) as [o|] eqn:Eo; cbn [fst snd]; [|split; [reflexivity|split; assumption]].
    unfold dispatch_py. rewrite (lookup_ext (cd_p s) (cd_w w)) by assumption.
    destruct (lookup h (cd_w w) (os_cls o) (inst_m o)); cbn [cbody fst snd res_of_target]; split; try reflexivity; split; assumption.
  - (* CallC *)
    rewrite Ro, view_nth. destruct (nth_error (w_objs w) oi) as [o|] eqn:Eo; cbn [fst snd]; [|split; [reflexivity|split; assumption]].
    unfold dispatch_cy, dispatch_py. destruct (vslot h (os_cls o)) as [k|] eqn:Ev; [|split; [reflexivity|split; assumption]].
    destruct (cbody_ok cached cv w k oi o I Hcv Hnd Eo Ev) as (R1 & R2 & R3 & R4).
    destruct (cbody cached fx h w k false oi o) as [w1 r]. cbn [fst snd] in *.
    split; [rewrite R1; f_equal; f_equal; apply lookup_ext; intros; symmetry; apply Hcd|].
    split; [assumption|]. unfold Rel. rewrite R3, R4. split; assumption.
  - (* CallVia *)
    rewrite Ro, view_nth. destruct (nth_error (w_objs w) oi) as [o|] eqn:Eo; cbn [fst snd]; [|split; [reflexivity|split; assumption]].
    destruct (validc h c); cbn [fst snd]; [|split; [reflexivity|split; assumption]].
    unfold call_via, type_lookup. rewrite (mro_find_ext (cd_p s) (cd_w w)) by (intros; apply Hcd).
    destruct (mro_find (cd_w w) (cmro (getc h c))) as [[n|k]|]; cbn [fst snd]; try (split; [reflexivity|split; assumption]).
    destruct (in_mro h k (os_cls o)); cbn [cbody fst snd]; split; try reflexivity; split; assumption.
Qed.

Theorem run_sim cached cv : forall ops w s, Inv cv w -> Rel w s -> (cached = true -> cv = true) ->
  (cv = true -> forallb (leaf_op h) ops = true \/ fx = true) -> no_ext_def h = true ->
  run_cy cached fx h w ops = run_py h s ops.
Proof.
  induction ops as [|o ops IH]; intros w s I R Hcv Hl Hnd; [reflexivity|].
  assert (Hl1 : cv = true -> leaf_op h o = true \/ fx = true).
  { intros E. destruct (Hl E) as [Hl'|Hl']; [left|right; assumption]. cbn in Hl'. now apply andb_true_iff in Hl' as [? _]. }
  assert (Hl2 : cv = true -> forallb (leaf_op h) ops = true \/ fx = true).
  { intros E. destruct (Hl E) as [Hl'|Hl']; [left|right; assumption]. cbn in Hl'. now apply andb_true_iff in Hl' as [_ ?]. }
  destruct (step_sim cached cv w s o I R Hcv Hl1 Hnd) as (S1 & S2 & S3).
  cbn [run_cy run_py]. rewrite S1. rewrite (IH _ _ S2 S3 Hcv Hl2 Hnd). reflexivity.
Qed.

Lemma exec_inv cached cv : forall ops w s, Inv cv w -> Rel w s -> (cached = true -> cv = true) ->
  (cv = true -> forallb (leaf_op h) ops = true \/ fx = true) -> no_ext_def h = true ->
  Inv cv (exec_cy cached fx h w ops).
Proof.
  induction ops as [|o ops IH]; intros w s I R Hcv Hl Hnd; [assumption|].
  assert (Hl1 : cv = true -> leaf_op h o = true \/ fx = true).
  { intros E. destruct (Hl E) as [Hl'|Hl']; [left|right; assumption]. cbn in Hl'. now apply andb_true_iff in Hl' as [? _]. }
  assert (Hl2 : cv = true -> forallb (leaf_op h) ops = true \/ fx = true).
  { intros E. destruct (Hl E) as [Hl'|Hl']; [left|right; assumption]. cbn in Hl'. now apply andb_true_iff in Hl' as [_ ?]. }
  destruct (step_sim cached cv w s o I R Hcv Hl1 Hnd) as (S1 & S2 & S3).
  cbn [exec_cy]. apply (IH _ _ S2 S3 Hcv Hl2 Hnd).
Qed.


(* the cache-independent part of the invariant holds along every history, in both builds *)
Lemma inv_false w : Base w -> Inv false w.
Proof. intros B. split; [assumption|discriminate]. Qed.

Lemma slow_path_base cached w k oi o o1 : Base w -> nth_error (w_objs w) oi = Some o1 ->
  Base (fst (slow_path cached fx h w k oi o)).
Proof.
  intros B Ho. unfold slow_path.
  destruct (lookup h (cd_w w) (os_cls o) (inst_m o)) as [k'| | |]; cbn [fst]; auto.
  destruct (Nat.eqb k' k); cbn [fst]; auto. destruct cached; cbn [fst]; auto.
  destruct (read_obj_ver_spec false w oi o1 (inv_false w B) Ho) as (o2 & _ & _ & _ & [B1 _] & _).
  destruct (read_obj_ver h w oi) as [w1 ov]. cbn [fst] in *. apply base_set_cache. assumption.
Qed.

Lemma cbody_base cached w k skip oi o : Base w -> nth_error (w_objs w) oi = Some o ->
  Base (fst (cbody cached fx h w k skip oi o)).
Proof.
  intros B Ho. unfold cbody. destruct skip; cbn [fst]; auto.
  destruct (cdecl_dict (getc h k) || prefilter h (os_cls o)); cbn [fst]; auto.
  destruct cached; [|eapply slow_path_base; eassumption].
  destruct (fst (cache_find (w_cache w) k) =? tp_ver w (os_cls o)); [|eapply slow_path_base; eassumption].
  destruct (read_obj_ver_spec false w oi o (inv_false w B) Ho) as (o2 & Ho2 & _ & _ & [B1 _] & _).
  destruct (read_obj_ver h w oi) as [w1 v]. cbn [fst] in *.
  destruct (snd (cache_find (w_cache w) k) =? v); cbn [fst]; [assumption|].
  eapply slow_path_base; eassumption.
Qed.

Lemma step_base cached w o : Base w -> Base (fst (step_cy cached fx h w o)).
Proof.
  intros B. destruct o as [c v|c|c|oi n|oi|oi|oi|c oi]; cbn [step_cy fst].
  - destruct (validc h c && is_py (getc h c)) eqn:E; [|assumption].
    apply andb_true_iff in E as [Ev Ep]. unfold validc in Ev. apply Nat.ltb_lt in Ev. apply base_set_class; assumption.
  - destruct (validc h c && is_py (getc h c)) eqn:E; [|assumption].
    apply andb_true_iff in E as [Ev Ep]. unfold validc in Ev. apply Nat.ltb_lt in Ev.
    destruct (cd_w w c); [apply base_set_class|]; assumption.
  - destruct (validc h c) eqn:Ev; [|assumption]. unfold validc in Ev. apply Nat.ltb_lt in Ev.
    destruct (cdictk (getc h c)) eqn:Ek; apply base_new; auto; try congruence.
    intros _; unfold has_dict; now rewrite Ek.
  - destruct (nth_error (w_objs w) oi) as [o|] eqn:Eo; [|assumption].
    destruct (has_dict h (os_cls o)) eqn:Ehd; [|assumption]. apply base_set_obj; assumption.
  - destruct (nth_error (w_objs w) oi) as [o|] eqn:Eo; [|assumption].
    destruct (os_dict o) as [[[n|] v]|] eqn:Ed; try assumption.
    + apply base_set_obj; try assumption.
      destruct (has_dict h (os_cls o)) eqn:E; [reflexivity|]. rewrite (b_nodict _ B _ _ Eo E) in Ed. discriminate.
    + destruct (cdictk (getc h (os_cls o))) eqn:Ek; try assumption.
      apply base_set_obj; try assumption. unfold has_dict; now rewrite Ek.
  - destruct (nth_error (w_objs w) oi) as [o|] eqn:Eo; cbn [fst]; [|assumption].
    destruct (lookup h (cd_w w) (os_cls o) (inst_m o)); cbn [cbody fst]; assumption.
  - destruct (nth_error (w_objs w) oi) as [o|] eqn:Eo; cbn [fst]; [|assumption].
    unfold dispatch_cy. destruct (vslot h (os_cls o)) as [k|]; cbn [fst]; [|assumption].
    pose proof (cbody_base cached w k false oi o B Eo) as H.
    destruct (cbody cached fx h w k false oi o) as [w1 r]. exact H.
  - destruct (nth_error (w_objs w) oi) as [o|] eqn:Eo; cbn [fst]; [|assumption].
    destruct (validc h c); cbn [fst]; [|assumption].
    destruct (type_lookup h (cd_w w) c) as [[n|k]|]; cbn [fst]; try assumption.
    destruct (in_mro h k (os_cls o)); cbn [cbody fst]; assumption.
Qed.

Lemma exec_base cached : forall ops w, Base w -> Base (exec_cy cached fx h w ops).
Proof. induction ops as [|o ops IH]; intros w B; [assumption|]. cbn [exec_cy]. apply IH, step_base, B. Qed.

Lemma rel_w0 : Rel (w0 h) (p0 h).
Proof. split; reflexivity. Qed.

End Hier.

(* ---------- main theorems ---------- *)
(* cache compiled out (CYTHON_USE_DICT_VERSIONS = 0, the default on CPython >= 3.12) *)
Theorem dispatch_eq_nocache h fx ops : wf_hier h = true -> no_ext_def h = true ->
  run_cy false fx h (w0 h) ops = run_py h (p0 h) ops.
Proof.
  intros Hwf Hnd. apply (run_sim h Hwf fx false false); auto; try discriminate.
  - split; [apply base_w0; assumption|discriminate].
  - apply rel_w0.
Qed.

(* dict-version cache on: histories that mutate leaf classes only *)
Theorem dispatch_eq_cached_leaf h ops : wf_hier h = true -> no_ext_def h = true ->
  forallb (leaf_op h) ops = true ->
  run_cy true false h (w0 h) ops = run_py h (p0 h) ops.
Proof.
  intros Hwf Hnd Hl. apply (run_sim h Hwf false true true); auto.
  - split; [apply base_w0; assumption|intros _; apply cache_w0; assumption].
  - apply rel_w0.
Qed.

(* repaired variant: all histories *)
Theorem dispatch_eq_cached_fx h ops : wf_hier h = true -> no_ext_def h = true ->
  run_cy true true h (w0 h) ops = run_py h (p0 h) ops.
Proof.
  intros Hwf Hnd. apply (run_sim h Hwf true true true); auto.
  - split; [apply base_w0; assumption|intros _; apply cache_w0; assumption].
  - apply rel_w0.
Qed.

Theorem cached_eq_uncached_leaf h ops : wf_hier h = true -> no_ext_def h = true ->
  forallb (leaf_op h) ops = true ->
  run_cy true false h (w0 h) ops = run_cy false false h (w0 h) ops.
Proof. intros. rewrite dispatch_eq_cached_leaf, dispatch_eq_nocache; auto. Qed.

(* prefilter soundness in every reachable state, both builds *)
Theorem prefilter_sound h cached fx ops oi o k : wf_hier h = true -> no_ext_def h = true ->
  nth_error (w_objs (exec_cy cached fx h (w0 h) ops)) oi = Some o ->
  prefilter h (os_cls o) = false -> vslot h (os_cls o) = Some k ->
  lookup h (cd_w (exec_cy cached fx h (w0 h) ops)) (os_cls o) (inst_m o) = TWrap k.
Proof.
  intros Hwf Hnd Ho Hp Hv.
  assert (B : Base h (exec_cy cached fx h (w0 h) ops)) by (apply exec_base; [assumption|apply base_w0; assumption]).
  apply (prefilter_sound_w h Hwf _ oi o k B Hnd Ho Hp Hv).
Qed.
