(* P_IOTree — refinement proof: the heap model of StringIOTree (M_IOTree part 1) refines the
   list-of-holes reference (part 2) on every well-formed history.
   Method: a ghost forest of trees F (one node per heap object reachable from a handle; the
   fragments of every stream kept separately) with
     rep heap t      : the heap objects are laid out as the tree says,
     gflat t         : the tree flattened to marks/fragments (with addresses),
     erase (gflat t) : = the reference document.
   All operations are "update the node at address a" (tupd); one context lemma describes gflat
   of an updated forest.  Induction over the operation list (fold_left). *)
From Coq Require Import List NArith Arith Bool Lia Permutation.
From CyVerif Require Import Model.M_IOTree.
Import ListNotations.

(* ---------- generic list facts ---------- *)
Lemma length_set_nth {A} (x : A) : forall l n, length (set_nth n x l) = length l.
Proof. induction l; intros [|n]; simpl; auto. Qed.

Lemma nth_set_nth_eq {A} (x : A) : forall l n, n < length l -> nth_error (set_nth n x l) n = Some x.
Proof. induction l; intros [|n] H; simpl in *; try lia; auto. apply IHl. lia. Qed.

Lemma nth_set_nth_neq {A} (x : A) : forall l n m, n <> m -> nth_error (set_nth n x l) m = nth_error l m.
Proof. induction l; intros [|n] [|m] H; simpl; auto; try congruence. Qed.

Lemma set_nth_same {A} : forall (l : list A) n x, nth_error l n = Some x -> set_nth n x l = l.
Proof. induction l; intros [|n] x H; simpl in *; try congruence. f_equal. auto. Qed.

Lemma nth_error_lt {A} (l : list A) n x : nth_error l n = Some x -> n < length l.
Proof. intro H. apply nth_error_Some. congruence. Qed.

Lemma nth_app_l {A} (l r : list A) n : n < length l -> nth_error (l ++ r) n = nth_error l n.
Proof. intro. apply nth_error_app1; auto. Qed.

Lemma nth_app_len {A} (l : list A) x : nth_error (l ++ [x]) (length l) = Some x.
Proof. rewrite nth_error_app2 by lia. rewrite Nat.sub_diag. reflexivity. Qed.

Lemma NoDup_app_inv {A} (l1 l2 : list A) :
  NoDup (l1 ++ l2) -> NoDup l1 /\ NoDup l2 /\ (forall x, In x l1 -> ~ In x l2).
Proof.
  induction l1 as [|y l1 IH]; simpl; intro H.
  - repeat split; auto. constructor.
  - inversion H as [|? ? Hn Hd]; subst. destruct (IH Hd) as (H1 & H2 & H3).
    repeat split; auto.
    + constructor; auto. intro Hi. apply Hn. apply in_or_app; auto.
    + intros x [->|Hx] Hx2; [apply Hn; apply in_or_app; auto | eapply H3; eauto].
Qed.

Lemma NoDup_app_intro {A} (l1 l2 : list A) :
  NoDup l1 -> NoDup l2 -> (forall x, In x l1 -> ~ In x l2) -> NoDup (l1 ++ l2).
Proof.
  induction l1 as [|y l1 IH]; simpl; intros H1 H2 H3; auto.
  inversion H1; subst. constructor.
  - intro Hi. apply in_app_or in Hi. destruct Hi; auto. eapply H3; eauto.
  - apply IH; auto.
Qed.

(* ---------- ghost trees ---------- *)
Definition frag := (text * list marker)%type.

Inductive tree := Node (addr : nat) (name : option nat) (kids : list tree) (frs : list frag).

Fixpoint tree_ind' (P : tree -> Prop)
  (H : forall a n ks fs, Forall P ks -> P (Node a n ks fs)) (t : tree) : P t :=
  match t with
  | Node a n ks fs =>
      H a n ks fs ((fix go (l : list tree) : Forall P l :=
                      match l with
                      | [] => Forall_nil P
                      | k :: r => Forall_cons k (tree_ind' P H k) (go r)
                      end) ks)
  end.

Definition taddr (t : tree) : nat := match t with Node a _ _ _ => a end.

Fixpoint taddrs (t : tree) : list nat :=
  match t with Node a _ ks _ => a :: flat_map taddrs ks end.

Inductive gitem :=
| GOpen (a : nat) (n : option nat)
| GClose (a : nat) (n : option nat)
| GTxt (f : frag).

Fixpoint gflat (t : tree) : list gitem :=
  match t with
  | Node a n ks fs => GOpen a n :: flat_map gflat ks ++ map GTxt fs ++ [GClose a n]
  end.

Definition gbody (ks : list tree) (fs : list frag) : list gitem := flat_map gflat ks ++ map GTxt fs.

Lemma gflat_node a n ks fs : gflat (Node a n ks fs) = GOpen a n :: gbody ks fs ++ [GClose a n].
Proof. unfold gbody. simpl. rewrite <- app_assoc. reflexivity. Qed.

Definition gaddr1 (i : gitem) : list nat := match i with GOpen a _ => [a] | _ => [] end.
Definition gcaddr1 (i : gitem) : list nat := match i with GClose a _ => [a] | _ => [] end.
Definition gfrag1 (i : gitem) : list frag := match i with GTxt f => [f] | _ => [] end.
Definition gaddrs (l : list gitem) : list nat := flat_map gaddr1 l.
Definition gcaddrs (l : list gitem) : list nat := flat_map gcaddr1 l.
Definition gfrags (l : list gitem) : list frag := flat_map gfrag1 l.

Definition erase1 (i : gitem) : list item :=
  match i with
  | GOpen _ (Some b) => [SOpen b]
  | GClose _ (Some b) => [SClose b]
  | GTxt (s, ms) => [STxt s ms]
  | _ => []
  end.
Definition erase (l : list gitem) : list item := flat_map erase1 l.

Lemma erase_app l1 l2 : erase (l1 ++ l2) = erase l1 ++ erase l2.
Proof. apply flat_map_app. Qed.
Lemma gaddrs_app l1 l2 : gaddrs (l1 ++ l2) = gaddrs l1 ++ gaddrs l2.
Proof. apply flat_map_app. Qed.
Lemma gcaddrs_app l1 l2 : gcaddrs (l1 ++ l2) = gcaddrs l1 ++ gcaddrs l2.
Proof. apply flat_map_app. Qed.
Lemma gfrags_app l1 l2 : gfrags (l1 ++ l2) = gfrags l1 ++ gfrags l2.
Proof. apply flat_map_app. Qed.

Lemma flat_map_flat_map {A B C} (f : A -> list B) (g : B -> list C) l :
  flat_map g (flat_map f l) = flat_map (fun x => flat_map g (f x)) l.
Proof. induction l; simpl; auto. rewrite flat_map_app. congruence. Qed.

Lemma gaddrs_txt fs : gaddrs (map GTxt fs) = [].
Proof. induction fs; simpl; auto. Qed.
Lemma gcaddrs_txt fs : gcaddrs (map GTxt fs) = [].
Proof. induction fs; simpl; auto. Qed.
Lemma gfrags_txt fs : gfrags (map GTxt fs) = fs.
Proof. induction fs; simpl; congruence. Qed.

Lemma gaddrs_gflat : forall t, gaddrs (gflat t) = taddrs t.
Proof.
  apply tree_ind'. intros a n ks fs IH. simpl. f_equal.
  rewrite !gaddrs_app, gaddrs_txt. simpl. rewrite app_nil_r.
  unfold gaddrs. rewrite flat_map_flat_map.
  induction IH as [|k r Hk _ IHr]; simpl; auto. unfold gaddrs in Hk. rewrite Hk, IHr. reflexivity.
Qed.

Lemma gaddrs_flatF F : gaddrs (flat_map gflat F) = flat_map taddrs F.
Proof. induction F; simpl; auto. rewrite gaddrs_app, gaddrs_gflat. congruence. Qed.

Lemma gcaddrs_perm : forall t, Permutation (gaddrs (gflat t)) (gcaddrs (gflat t)).
Proof.
  apply tree_ind'. intros a n ks fs IH. simpl.
  rewrite !gaddrs_app, !gcaddrs_app, gaddrs_txt, gcaddrs_txt. simpl.
  rewrite app_nil_r.
  apply Permutation_cons_app. rewrite app_nil_r.
  induction IH as [|k r Hk _ IHr]; simpl; auto.
  rewrite gaddrs_app, gcaddrs_app. apply Permutation_app; auto.
Qed.

Lemma gcaddrs_perm_F F : Permutation (gaddrs (flat_map gflat F)) (gcaddrs (flat_map gflat F)).
Proof.
  induction F; simpl; auto. rewrite gaddrs_app, gcaddrs_app. apply Permutation_app; auto.
  apply gcaddrs_perm.
Qed.

Lemma close_has_open : forall t a n, In (GClose a n) (gflat t) -> In (GOpen a n) (gflat t).
Proof.
  apply (tree_ind' (fun t => forall a n, In (GClose a n) (gflat t) -> In (GOpen a n) (gflat t))).
  intros a0 n0 ks fs IH a n H. simpl in *. destruct H as [H|H]; [discriminate|].
  apply in_app_or in H. destruct H as [H|H].
  - right. apply in_or_app. left. apply in_flat_map in H. destruct H as (k & Hk & Hin).
    apply in_flat_map. exists k. split; auto. rewrite Forall_forall in IH. apply IH; auto.
  - apply in_app_or in H. destruct H as [H|H].
    + apply in_map_iff in H. destruct H as (? & ? & ?). discriminate.
    + simpl in H. destruct H as [H|[]]. inversion H; subst. auto.
Qed.

Lemma close_has_open_F F a n : In (GClose a n) (flat_map gflat F) -> In (GOpen a n) (flat_map gflat F).
Proof.
  intro H. apply in_flat_map in H. destruct H as (t & Ht & Hin). apply in_flat_map.
  exists t. split; auto. apply close_has_open; auto.
Qed.

Lemma in_gaddrs a n l : In (GOpen a n) l -> In a (gaddrs l).
Proof. intro H. apply in_flat_map. exists (GOpen a n). simpl; auto. Qed.
Lemma in_gcaddrs a n l : In (GClose a n) l -> In a (gcaddrs l).
Proof. intro H. apply in_flat_map. exists (GClose a n). simpl; auto. Qed.
Lemma gaddrs_in a l : In a (gaddrs l) -> exists n, In (GOpen a n) l.
Proof.
  intro H. apply in_flat_map in H. destruct H as ([a' n| |] & Hi & Ha); simpl in Ha; try tauto.
  destruct Ha as [->|[]]. eauto.
Qed.

(* ---------- representation of a tree in the heap ---------- *)
Inductive rep (h : heap) : tree -> Prop :=
| rep_node a n ks fs o :
    nth_error h a = Some o ->
    o_children o = map taddr ks ->
    o_stream o = concat (map fst fs) ->
    o_markers o = concat (map snd fs) ->
    Forall (rep h) ks ->
    rep h (Node a n ks fs).

Lemma rep_valid h : forall t, rep h t -> forall x, In x (taddrs t) -> x < length h.
Proof.
  apply (tree_ind' (fun t => rep h t -> forall x, In x (taddrs t) -> x < length h)).
  intros a n ks fs IH Hr x Hx. inversion Hr; subst. simpl in Hx. destruct Hx as [<-|Hx].
  - eapply nth_error_lt; eauto.
  - apply in_flat_map in Hx. destruct Hx as (k & Hk & Hin).
    rewrite Forall_forall in IH. apply (IH k Hk); auto.
    match goal with H : Forall (rep h) ks |- _ => rewrite Forall_forall in H; auto end.
Qed.

Lemma rep_frame h h' : forall t, rep h t ->
  (forall x, In x (taddrs t) -> nth_error h' x = nth_error h x) -> rep h' t.
Proof.
  apply (tree_ind' (fun t => rep h t -> (forall x, In x (taddrs t) -> nth_error h' x = nth_error h x) -> rep h' t)).
  intros a n ks fs IH Hr Hf. inversion Hr as [? ? ? ? o Hn Hc Hs Hm Hk]; subst.
  econstructor; eauto.
  - rewrite Hf; simpl; auto.
  - rewrite Forall_forall in *. intros k Hin. apply IH; auto.
    intros x Hx. apply Hf. simpl. right. apply in_flat_map. eauto.
Qed.

(* ---------- updating the node at address a ---------- *)
Definition upd := list tree -> list frag -> list tree * list frag.

Fixpoint tupd (a : nat) (g : upd) (t : tree) : tree :=
  match t with
  | Node a' n ks fs =>
      if Nat.eqb a' a then Node a' n (fst (g ks fs)) (snd (g ks fs))
      else Node a' n (map (tupd a g) ks) fs
  end.

Lemma taddr_tupd a g t : taddr (tupd a g t) = taddr t.
Proof. destruct t as [a' n ks fs]. simpl. destruct (Nat.eqb a' a); reflexivity. Qed.

Lemma tupd_notin a g : forall t, ~ In a (taddrs t) -> tupd a g t = t.
Proof.
  apply (tree_ind' (fun t => ~ In a (taddrs t) -> tupd a g t = t)).
  intros a' n ks fs IH Hn. simpl in *. destruct (Nat.eqb_spec a' a) as [->|Hne]; [tauto|].
  f_equal. rewrite Forall_forall in IH.
  rewrite <- (map_id ks) at 2. apply map_ext_in. intros k Hk. apply IH; auto.
  intro Hi. apply Hn. right. apply in_flat_map. eauto.
Qed.

Lemma map_tupd_notin a g F : ~ In a (flat_map taddrs F) -> map (tupd a g) F = F.
Proof.
  intro Hn. rewrite <- (map_id F) at 2. apply map_ext_in. intros k Hk. apply tupd_notin.
  intro Hi. apply Hn. apply in_flat_map. eauto.
Qed.

Lemma NoDup_flat_map_split {A B} (f : A -> list B) l1 x l2 :
  NoDup (flat_map f (l1 ++ x :: l2)) ->
  NoDup (f x) /\ (forall a, In a (f x) -> ~ In a (flat_map f l1) /\ ~ In a (flat_map f l2)).
Proof.
  rewrite flat_map_app. simpl. intro H.
  apply NoDup_app_inv in H. destruct H as (_ & H2 & H3).
  apply NoDup_app_inv in H2. destruct H2 as (Hx & _ & H4).
  split; auto. intros a Ha. split.
  - intro Hi. apply (H3 a Hi). apply in_or_app; auto.
  - apply H4; auto.
Qed.

(* nodes without a name (the objects commit() makes) are leaves *)
Inductive tleaf : tree -> Prop :=
| tleaf_node a n ks fs : (n = None -> ks = []) -> Forall tleaf ks -> tleaf (Node a n ks fs).

(* the context lemma: gflat of a forest before/after updating the (unique) node at address a *)
Lemma tree_ctx a : forall t, In a (taddrs t) -> NoDup (taddrs t) ->
  exists pre post n ks fs,
    gflat t = pre ++ gflat (Node a n ks fs) ++ post /\
    (forall g, gflat (tupd a g t) = pre ++ gflat (Node a n (fst (g ks fs)) (snd (g ks fs))) ++ post) /\
    (forall h, rep h t -> rep h (Node a n ks fs)) /\
    (tleaf t -> tleaf (Node a n ks fs)).
Proof.
  apply (tree_ind' (fun t => In a (taddrs t) -> NoDup (taddrs t) ->
    exists pre post n ks fs,
      gflat t = pre ++ gflat (Node a n ks fs) ++ post /\
      (forall g, gflat (tupd a g t) = pre ++ gflat (Node a n (fst (g ks fs)) (snd (g ks fs))) ++ post) /\
      (forall h, rep h t -> rep h (Node a n ks fs)) /\
      (tleaf t -> tleaf (Node a n ks fs)))).
  intros a' n' ks' fs' IH Hin Hnd.
  destruct (Nat.eq_dec a' a) as [->|Hne].
  - exists [], [], n', ks', fs'. split; [|split; [|split]].
    + rewrite app_nil_r. reflexivity.
    + intro g. cbn [tupd]. rewrite Nat.eqb_refl. rewrite app_nil_r. reflexivity.
    + auto.
    + auto.
  - simpl in Hin. destruct Hin as [Hin|Hin]; [congruence|].
    apply in_flat_map in Hin. destruct Hin as (k & Hk & Hak).
    apply in_split in Hk. destruct Hk as (k1 & k2 & ->).
    simpl in Hnd. inversion Hnd as [|? ? _ Hnd']; subst.
    destruct (NoDup_flat_map_split taddrs k1 k k2 Hnd') as (Hndk & Hdis).
    destruct (Hdis a Hak) as (Hn1 & Hn2).
    rewrite Forall_forall in IH.
    destruct (IH k (in_elt k k1 k2) Hak Hndk)
      as (pre & post & n & ks & fs & E1 & E2 & E3 & E4).
    exists (GOpen a' n' :: flat_map gflat k1 ++ pre),
           (post ++ flat_map gflat k2 ++ map GTxt fs' ++ [GClose a' n']), n, ks, fs.
    split; [|split; [|split]].
    + cbn [gflat]. rewrite flat_map_app. cbn [flat_map]. rewrite E1.
      simpl. rewrite <- !app_assoc. simpl. rewrite <- !app_assoc. reflexivity.
    + intro g. cbn [tupd]. destruct (Nat.eqb_spec a' a) as [|_]; [congruence|].
      cbn [gflat]. rewrite map_app. cbn [map]. rewrite (map_tupd_notin a g k1 Hn1), (map_tupd_notin a g k2 Hn2).
      rewrite flat_map_app. cbn [flat_map]. rewrite E2.
      simpl. rewrite <- !app_assoc. simpl. rewrite <- !app_assoc. reflexivity.
    + intros h Hr. apply E3. inversion Hr; subst.
      match goal with H : Forall (rep h) _ |- _ => rewrite Forall_forall in H; apply H end.
      apply in_elt.
    + intros Hl. apply E4. inversion Hl; subst.
      match goal with H : Forall tleaf _ |- _ => rewrite Forall_forall in H; apply H end.
      apply in_elt.
Qed.

Lemma forest_ctx a : forall F, In a (flat_map taddrs F) -> NoDup (flat_map taddrs F) ->
  exists pre post n ks fs,
    flat_map gflat F = pre ++ gflat (Node a n ks fs) ++ post /\
    (forall g, flat_map gflat (map (tupd a g) F) = pre ++ gflat (Node a n (fst (g ks fs)) (snd (g ks fs))) ++ post) /\
    (forall h, Forall (rep h) F -> rep h (Node a n ks fs)) /\
    (Forall tleaf F -> tleaf (Node a n ks fs)).
Proof.
  intros F Hin Hnd. apply in_flat_map in Hin. destruct Hin as (t & Ht & Hat).
  apply in_split in Ht. destruct Ht as (F1 & F2 & ->).
  destruct (NoDup_flat_map_split taddrs F1 t F2 Hnd) as (Hndt & Hdis).
  destruct (Hdis a Hat) as (Hn1 & Hn2).
  destruct (tree_ctx a t Hat Hndt) as (pre & post & n & ks & fs & E1 & E2 & E3 & E4).
  exists (flat_map gflat F1 ++ pre), (post ++ flat_map gflat F2), n, ks, fs.
  split; [|split; [|split]].
  - rewrite flat_map_app. cbn [flat_map]. rewrite E1. rewrite <- !app_assoc. reflexivity.
  - intro g. rewrite map_app. cbn [map]. rewrite (map_tupd_notin a g F1 Hn1), (map_tupd_notin a g F2 Hn2).
    rewrite flat_map_app. cbn [flat_map]. rewrite E2. rewrite <- !app_assoc. reflexivity.
  - intros h Hr. apply E3. rewrite Forall_forall in Hr. apply Hr. apply in_elt.
  - intros Hl. apply E4. rewrite Forall_forall in Hl. apply Hl. apply in_elt.
Qed.

Lemma NoDup_flat_map_in {A B} (f : A -> list B) l x : NoDup (flat_map f l) -> In x l -> NoDup (f x).
Proof.
  intros H Hin. apply in_split in Hin. destruct Hin as (l1 & l2 & ->).
  apply NoDup_flat_map_split in H. tauto.
Qed.

Lemma rep_tupd h h' a g (P : frag -> Prop) : forall t, NoDup (taddrs t) -> rep h t ->
  (forall f, In (GTxt f) (gflat t) -> P f) ->
  (forall x, x <> a -> x < length h -> nth_error h' x = nth_error h x) ->
  (forall n ks fs, rep h (Node a n ks fs) -> ~ In a (flat_map taddrs ks) -> (forall f, In f fs -> P f) ->
                   rep h' (Node a n (fst (g ks fs)) (snd (g ks fs)))) ->
  rep h' (tupd a g t).
Proof.
  intros t Hnd Hr HP Hfr Hnew. revert t Hnd Hr HP.
  apply (tree_ind' (fun t => NoDup (taddrs t) -> rep h t -> (forall f, In (GTxt f) (gflat t) -> P f) ->
                             rep h' (tupd a g t))).
  intros a' n ks fs IH Hnd Hr HP. cbn [tupd]. destruct (Nat.eqb_spec a' a) as [->|Hne].
  - apply Hnew; auto.
    + simpl in Hnd. inversion Hnd; auto.
    + intros f Hf. apply HP. simpl. right. apply in_or_app. right. apply in_or_app. left.
      apply in_map. exact Hf.
  - inversion Hr as [? ? ? ? o Hn Hc Hs Hm Hk]; subst.
    apply rep_node with (o := o); auto.
    + rewrite Hfr; auto. eapply nth_error_lt; eauto.
    + rewrite Hc, map_map. apply map_ext. intro k. symmetry. apply taddr_tupd.
    + simpl in Hnd. inversion Hnd as [|? ? _ Hnd']; subst.
      rewrite Forall_forall in *. intros k' Hin. apply in_map_iff in Hin.
      destruct Hin as (k & <- & Hin). apply IH; auto.
      * eapply NoDup_flat_map_in; eauto.
      * intros f Hf. apply HP. simpl. right. apply in_or_app. left. apply in_flat_map. eauto.
Qed.

Lemma rep_forest_tupd h h' a g (P : frag -> Prop) F : NoDup (flat_map taddrs F) -> Forall (rep h) F ->
  (forall f, In (GTxt f) (flat_map gflat F) -> P f) ->
  (forall x, x <> a -> x < length h -> nth_error h' x = nth_error h x) ->
  (forall n ks fs, rep h (Node a n ks fs) -> ~ In a (flat_map taddrs ks) -> (forall f, In f fs -> P f) ->
                   rep h' (Node a n (fst (g ks fs)) (snd (g ks fs)))) ->
  Forall (rep h') (map (tupd a g) F).
Proof.
  intros Hnd Hr HP Hfr Hnew. rewrite Forall_forall in *. intros t' Hin. apply in_map_iff in Hin.
  destruct Hin as (t & <- & Hin). eapply rep_tupd; eauto.
  - eapply NoDup_flat_map_in; eauto.
  - intros f Hf. apply HP. apply in_flat_map. eauto.
Qed.

Lemma rep_app h l : forall t, rep h t -> rep (h ++ l) t.
Proof.
  intros t Hr. eapply rep_frame; eauto. intros x Hx. apply nth_app_l. eapply rep_valid; eauto.
Qed.

Definition ucomp (g2 g1 : upd) : upd := fun ks fs => g2 (fst (g1 ks fs)) (snd (g1 ks fs)).

Lemma tupd_tupd a g1 g2 : forall t, tupd a g2 (tupd a g1 t) = tupd a (ucomp g2 g1) t.
Proof.
  apply tree_ind'. intros a' n ks fs IH. cbn [tupd].
  destruct (Nat.eqb_spec a' a) as [->|Hne].
  - cbn [tupd]. rewrite Nat.eqb_refl. reflexivity.
  - cbn [tupd]. destruct (Nat.eqb_spec a' a); [congruence|]. f_equal.
    rewrite map_map. apply map_ext_in. intros k Hk. rewrite Forall_forall in IH. auto.
Qed.

Definition tname (t : tree) : option nat := match t with Node _ n _ _ => n end.
Lemma tname_tupd a g t : tname (tupd a g t) = tname t.
Proof. destruct t as [a' n ks fs]. simpl. destruct (Nat.eqb a' a); reflexivity. Qed.

Lemma tleaf_tupd a g : forall t, tleaf t -> (forall n, In (GOpen a n) (gflat t) -> n <> None) ->
  (forall ks fs, Forall tleaf ks -> Forall tleaf (fst (g ks fs))) -> tleaf (tupd a g t).
Proof.
  intros t Ht Hn Hg. revert t Ht Hn.
  apply (tree_ind' (fun t => tleaf t -> (forall n, In (GOpen a n) (gflat t) -> n <> None) -> tleaf (tupd a g t))).
  intros a' n ks fs IH Ht Hn. inversion Ht as [? ? ? ? Hl Hk]; subst. cbn [tupd].
  destruct (Nat.eqb_spec a' a) as [->|Hne].
  - constructor; auto. intro E. exfalso. apply (Hn n); simpl; auto.
  - constructor.
    + intro E. rewrite (Hl E). reflexivity.
    + rewrite Forall_forall in *. intros k' Hin. apply in_map_iff in Hin. destruct Hin as (k & <- & Hin).
      apply IH; auto. intros n0 Hi. apply Hn. simpl. right. apply in_or_app. left. apply in_flat_map. eauto.
Qed.

(* ---------- observations of a represented tree ---------- *)
Fixpoint theight (t : tree) : nat :=
  match t with Node _ _ ks _ => S (fold_right Nat.max 0 (map theight ks)) end.

Fixpoint tfrags (t : tree) : list frag :=
  match t with Node _ _ ks fs => flat_map tfrags ks ++ fs end.

Fixpoint tchunks (t : tree) : list text :=
  match t with
  | Node _ _ ks fs => flat_map tchunks ks ++ (if is_nil (concat (map fst fs)) then [] else [concat (map fst fs)])
  end.

Lemma gfrags_gflat : forall t, gfrags (gflat t) = tfrags t.
Proof.
  apply tree_ind'. intros a n ks fs IH. simpl.
  rewrite !gfrags_app, gfrags_txt. simpl. rewrite app_nil_r. f_equal.
  unfold gfrags. rewrite flat_map_flat_map.
  induction IH as [|k r Hk _ IHr]; simpl; auto. unfold gfrags in Hk. rewrite Hk, IHr. reflexivity.
Qed.

Lemma texts_of_app l1 l2 : texts_of (l1 ++ l2) = texts_of l1 ++ texts_of l2.
Proof. unfold texts_of. rewrite map_app, concat_app. reflexivity. Qed.
Lemma marks_of_app l1 l2 : marks_of (l1 ++ l2) = marks_of l1 ++ marks_of l2.
Proof. unfold marks_of. rewrite map_app, concat_app. reflexivity. Qed.

Lemma le_fold_max (f : tree -> nat) ks k : In k ks -> f k <= fold_right Nat.max 0 (map f ks).
Proof. induction ks; simpl; intros []; subst; try lia. specialize (IHks H). lia. Qed.

Lemma ocat_map {B} (f : nat -> option (list B)) (g : tree -> list B) ks :
  (forall k, In k ks -> f (taddr k) = Some (g k)) -> ocat f (map taddr ks) = Some (flat_map g ks).
Proof.
  induction ks; simpl; intro H; auto. rewrite H by auto. rewrite IHks by auto. reflexivity.
Qed.

Lemma oall_map (f : nat -> option bool) (g : tree -> bool) ks :
  (forall k, In k ks -> f (taddr k) = Some (g k)) -> oall f (map taddr ks) = Some (forallb g ks).
Proof.
  induction ks; simpl; intro H; auto. rewrite H by auto. rewrite IHks by auto. reflexivity.
Qed.

Lemma collect_rep h : forall t, rep h t -> forall fuel, theight t <= fuel ->
  collect fuel h (taddr t) = Some (tchunks t).
Proof.
  apply (tree_ind' (fun t => rep h t -> forall fuel, theight t <= fuel -> collect fuel h (taddr t) = Some (tchunks t))).
  intros a n ks fs IH Hr fuel Hf. inversion Hr as [? ? ? ? o Hn Hc Hs Hm Hk]; subst.
  destruct fuel as [|f]; [simpl in Hf; lia|]. cbn [collect taddr]. rewrite Hn, Hc.
  rewrite (ocat_map (collect f h) tchunks).
  - cbn [tchunks]. rewrite Hs. reflexivity.
  - intros k Hin. rewrite Forall_forall in IH, Hk. apply IH; auto.
    pose proof (le_fold_max theight ks k Hin). cbn [theight] in Hf. lia.
Qed.

Lemma allmarkers_rep h : forall t, rep h t -> forall fuel, theight t <= fuel ->
  h_allmarkers fuel h (taddr t) = Some (marks_of (tfrags t)).
Proof.
  apply (tree_ind' (fun t => rep h t -> forall fuel, theight t <= fuel ->
            h_allmarkers fuel h (taddr t) = Some (marks_of (tfrags t)))).
  intros a n ks fs IH Hr fuel Hf. inversion Hr as [? ? ? ? o Hn Hc Hs Hm Hk]; subst.
  destruct fuel as [|f]; [simpl in Hf; lia|]. cbn [h_allmarkers taddr]. rewrite Hn, Hc.
  rewrite (ocat_map (h_allmarkers f h) (fun k => marks_of (tfrags k))).
  - cbn [tfrags]. rewrite Hm, marks_of_app. f_equal. f_equal.
    clear. induction ks; simpl; auto. rewrite marks_of_app. congruence.
  - intros k Hin. rewrite Forall_forall in IH, Hk. apply IH; auto.
    pose proof (le_fold_max theight ks k Hin). cbn [theight] in Hf. lia.
Qed.

Lemma concat_tchunks : forall t, concat (tchunks t) = texts_of (tfrags t).
Proof.
  apply tree_ind'. intros a n ks fs IH. cbn [tchunks tfrags]. rewrite concat_app, texts_of_app. f_equal.
  - induction IH as [|k r Hk _ IHr]; simpl; auto. rewrite concat_app, texts_of_app. congruence.
  - unfold texts_of. destruct (concat (map fst fs)); simpl; auto. rewrite app_nil_r. reflexivity.
Qed.

Lemma tchunks_nonempty : forall t, Forall (fun c => c <> []) (tchunks t).
Proof.
  apply tree_ind'. intros a n ks fs IH. cbn [tchunks]. apply Forall_app. split.
  - apply Forall_forall. intros c Hc. apply in_flat_map in Hc. destruct Hc as (k & Hk & Hin).
    rewrite Forall_forall in IH. specialize (IH k Hk). rewrite Forall_forall in IH. auto.
  - destruct (concat (map fst fs)) eqn:E; simpl; constructor; auto. congruence.
Qed.

Lemma is_nil_app {A} (l1 l2 : list A) : is_nil (l1 ++ l2) = is_nil l1 && is_nil l2.
Proof. destruct l1; simpl; auto. Qed.

Lemma empty_rep h : forall t, rep h t -> forall fuel, theight t <= fuel ->
  h_empty fuel h (taddr t) = Some (is_nil (texts_of (tfrags t))).
Proof.
  apply (tree_ind' (fun t => rep h t -> forall fuel, theight t <= fuel ->
            h_empty fuel h (taddr t) = Some (is_nil (texts_of (tfrags t))))).
  intros a n ks fs IH Hr fuel Hf. inversion Hr as [? ? ? ? o Hn Hc Hs Hm Hk]; subst.
  destruct fuel as [|f]; [simpl in Hf; lia|]. cbn [h_empty taddr]. rewrite Hn.
  cbn [tfrags]. rewrite texts_of_app, is_nil_app. replace (texts_of fs) with (o_stream o) by (rewrite Hs; reflexivity).
  destruct (is_nil (o_stream o)) eqn:E.
  - rewrite andb_true_r, Hc.
    rewrite (oall_map (h_empty f h) (fun k => is_nil (texts_of (tfrags k)))).
    + f_equal. clear. induction ks; simpl; auto. rewrite texts_of_app, is_nil_app. congruence.
    + intros k Hin. rewrite Forall_forall in IH, Hk. apply IH; auto.
      pose proof (le_fold_max theight ks k Hin). cbn [theight] in Hf. lia.
  - rewrite andb_false_r. reflexivity.
Qed.

Lemma theight_le_size : forall t, theight t <= length (taddrs t).
Proof.
  apply tree_ind'. intros a n ks fs IH. cbn [theight taddrs length]. apply le_n_S.
  induction IH as [|k r Hk _ IHr]; simpl; auto. rewrite app_length. lia.
Qed.

Lemma size_le_heap h t : rep h t -> NoDup (taddrs t) -> length (taddrs t) <= length h.
Proof.
  intros Hr Hnd. rewrite <- (seq_length (length h) 0). apply NoDup_incl_length; auto.
  intros x Hx. apply in_seq. pose proof (rep_valid h t Hr x Hx). lia.
Qed.

(* ---------- facts about the reference lists ---------- *)
Lemma ins_skip b X l1 l2 : (forall i, In i l1 -> is_close b i = false) ->
  ins_before_close b X (l1 ++ SClose b :: l2) = l1 ++ X ++ SClose b :: l2.
Proof.
  induction l1 as [|i l1 IH]; simpl; intro H.
  - rewrite Nat.eqb_refl. reflexivity.
  - rewrite (H i) by auto. f_equal. apply IH. auto.
Qed.

Lemma ins_absent b X l : (forall i, In i l -> is_close b i = false) -> ins_before_close b X l = l.
Proof. induction l as [|i l IH]; simpl; intro H; auto. rewrite (H i) by auto. f_equal. auto. Qed.

Lemma ins_nil b l : ins_before_close b [] l = l.
Proof. induction l as [|i l IH]; simpl; auto. destruct (is_close b i); simpl; congruence. Qed.

Lemma after_open_skip b l1 l2 : (forall i, In i l1 -> is_open b i = false) ->
  after_open b (l1 ++ SOpen b :: l2) = Some l2.
Proof.
  induction l1 as [|i l1 IH]; simpl; intro H.
  - rewrite Nat.eqb_refl. reflexivity.
  - rewrite (H i) by auto. auto.
Qed.

Lemma until_close_skip b l1 l2 : (forall i, In i l1 -> is_close b i = false) ->
  until_close b (l1 ++ SClose b :: l2) = Some l1.
Proof.
  induction l1 as [|i l1 IH]; simpl; intro H.
  - rewrite Nat.eqb_refl. reflexivity.
  - rewrite (H i) by auto. rewrite IH by auto. reflexivity.
Qed.

Lemma region_found b pre body post :
  (forall i, In i pre -> is_open b i = false) -> (forall i, In i body -> is_close b i = false) ->
  region b (pre ++ SOpen b :: body ++ SClose b :: post) = Some body.
Proof. intros H1 H2. unfold region. rewrite after_open_skip by auto. apply until_close_skip; auto. Qed.

Lemma frags_erase l : frags (erase l) = gfrags l.
Proof.
  unfold erase, gfrags. induction l as [|i l IH]; simpl; auto.
  destruct i as [a [n|]|a [n|]|[s ms]]; simpl; auto. rewrite IH. reflexivity.
Qed.

Lemma erase_in_close b l : In (SClose b) (erase l) -> exists a, In (GClose a (Some b)) l.
Proof.
  induction l as [|i l IH]; simpl; [tauto|]. intro H. apply in_app_or in H. destruct H as [H|H].
  - destruct i as [a [n|]|a [n|]|[s ms]]; simpl in H; try tauto; destruct H as [H|[]]; try discriminate.
    inversion H; subst. eauto.
  - destruct (IH H) as (a & Ha). eauto.
Qed.

Lemma erase_in_open b l : In (SOpen b) (erase l) -> exists a, In (GOpen a (Some b)) l.
Proof.
  induction l as [|i l IH]; simpl; [tauto|]. intro H. apply in_app_or in H. destruct H as [H|H].
  - destruct i as [a [n|]|a [n|]|[s ms]]; simpl in H; try tauto; destruct H as [H|[]]; try discriminate.
    inversion H; subst. eauto.
  - destruct (IH H) as (a & Ha). eauto.
Qed.

Lemma no_close_erase b l : (forall a, ~ In (GClose a (Some b)) l) -> forall i, In i (erase l) -> is_close b i = false.
Proof.
  intros H i Hi. destruct i as [c|c|]; simpl; auto. destruct (Nat.eqb_spec c b) as [->|]; auto.
  apply erase_in_close in Hi. destruct Hi as (a & Ha). exfalso. eapply H; eauto.
Qed.

Lemma no_open_erase b l : (forall a, ~ In (GOpen a (Some b)) l) -> forall i, In i (erase l) -> is_open b i = false.
Proof.
  intros H i Hi. destruct i as [c|c|]; simpl; auto. destruct (Nat.eqb_spec c b) as [->|]; auto.
  apply erase_in_open in Hi. destruct Hi as (a & Ha). exfalso. eapply H; eauto.
Qed.

Lemma concat_docs F : concat (map (fun t => erase (gflat t)) F) = erase (flat_map gflat F).
Proof. induction F; cbn [map concat flat_map]; auto. rewrite erase_app, IHF. reflexivity. Qed.

(* ---------- the order-insensitive part of the invariant ---------- *)
Record SInv (hs : list nat) (G : list gitem) : Prop := {
  si_nd : NoDup (gaddrs G);
  si_l1 : forall b a, nth_error hs b = Some a -> In (GOpen a (Some b)) G;
  si_l2 : forall a b, In (GOpen a (Some b)) G -> nth_error hs b = Some a;
  si_ne : forall f, In (GTxt f) G -> fst f <> [] }.

Lemma sinv_perm hs G G' : Permutation G G' -> SInv hs G -> SInv hs G'.
Proof.
  intros P [H1 H2 H3 H4]. split.
  - eapply Permutation_NoDup; [|exact H1]. apply Permutation_flat_map. exact P.
  - intros b a Hb. eapply Permutation_in; eauto.
  - intros a b Hi. apply H3. eapply Permutation_in; [apply Permutation_sym; exact P|]. exact Hi.
  - intros f Hi. apply H4. eapply Permutation_in; [apply Permutation_sym; exact P|]. exact Hi.
Qed.

Lemma sinv_txt hs G f : SInv hs G -> fst f <> [] -> SInv hs (GTxt f :: G).
Proof.
  intros [H1 H2 H3 H4] Hf. split; simpl; auto.
  - intros a b [Hi|Hi]; [discriminate|auto].
  - intros f' [Hi|Hi]; [inversion Hi; subst; auto|auto].
Qed.

Lemma sinv_anon hs G c : SInv hs G -> ~ In c (gaddrs G) -> SInv hs (GOpen c None :: GClose c None :: G).
Proof.
  intros [H1 H2 H3 H4] Hc. split; simpl; auto.
  - constructor; auto.
  - intros a b [Hi|[Hi|Hi]]; try discriminate; auto.
  - intros f' [Hi|[Hi|Hi]]; try discriminate; auto.
Qed.

Lemma sinv_named hs G c : SInv hs G -> ~ In c (gaddrs G) ->
  SInv (hs ++ [c]) (GOpen c (Some (length hs)) :: GClose c (Some (length hs)) :: G).
Proof.
  intros [H1 H2 H3 H4] Hc. split; simpl; auto.
  - constructor; auto.
  - intros b a Hb. destruct (Nat.lt_ge_cases b (length hs)) as [Hlt|Hge].
    + rewrite nth_error_app1 in Hb by auto. auto.
    + assert (b < length (hs ++ [c])) by (apply nth_error_Some; congruence).
      rewrite app_length in H. simpl in H. assert (b = length hs) by lia. subst b.
      rewrite nth_app_len in Hb. inversion Hb; subst. auto.
  - intros a b [Hi|[Hi|Hi]]; try discriminate.
    + inversion Hi; subst. apply nth_app_len.
    + specialize (H3 a b Hi). rewrite nth_error_app1; auto. eapply nth_error_lt; eauto.
  - intros f' [Hi|[Hi|Hi]]; try discriminate; auto.
Qed.

Lemma nodup_open_unique G a n1 n2 : NoDup (gaddrs G) -> In (GOpen a n1) G -> In (GOpen a n2) G -> n1 = n2.
Proof.
  induction G as [|i G IH]; simpl; [tauto|]. intros Hnd H1 H2.
  apply NoDup_app_inv in Hnd. destruct Hnd as (_ & Hnd & Hdis).
  destruct H1 as [H1|H1], H2 as [H2|H2]; auto.
  - congruence.
  - subst i. exfalso. apply (Hdis a); simpl; auto. eapply in_gaddrs; eauto.
  - subst i. exfalso. apply (Hdis a); simpl; auto. eapply in_gaddrs; eauto.
Qed.

Lemma nodup_app_false {A} (l1 l2 : list A) x : NoDup (l1 ++ l2) -> In x l1 -> In x l2 -> False.
Proof. intros H H1 H2. apply NoDup_app_inv in H. destruct H as (_ & _ & H). eapply H; eauto. Qed.

Lemma sinv_nd_taddrs hs F : SInv hs (flat_map gflat F) -> NoDup (flat_map taddrs F).
Proof. intros [H _ _ _]. rewrite <- gaddrs_flatF. exact H. Qed.

Lemma sinv_close_addr hs F b a a' : SInv hs (flat_map gflat F) -> nth_error hs b = Some a ->
  In (GClose a' (Some b)) (flat_map gflat F) -> a' = a.
Proof.
  intros S Hb Hc. apply close_has_open_F in Hc. apply (si_l2 _ _ S) in Hc. congruence.
Qed.

Lemma locate hs F b a : SInv hs (flat_map gflat F) -> nth_error hs b = Some a ->
  exists pre post ks fs,
    flat_map gflat F = pre ++ gflat (Node a (Some b) ks fs) ++ post /\
    (forall g, flat_map gflat (map (tupd a g) F) =
               pre ++ gflat (Node a (Some b) (fst (g ks fs)) (snd (g ks fs))) ++ post) /\
    (forall h, Forall (rep h) F -> rep h (Node a (Some b) ks fs)) /\
    (forall i, In i (erase pre) -> is_open b i = false) /\
    (forall i, In i (erase (gbody ks fs)) -> is_close b i = false) /\
    (Forall tleaf F -> tleaf (Node a (Some b) ks fs)).
Proof.
  intros S Hb. pose proof (si_l1 _ _ S b a Hb) as Hopen.
  pose proof (sinv_nd_taddrs _ _ S) as Hnd.
  assert (Hin : In a (flat_map taddrs F)) by (rewrite <- gaddrs_flatF; eapply in_gaddrs; eauto).
  destruct (forest_ctx a F Hin Hnd) as (pre & post & n & ks & fs & E1 & E2 & E3 & E4).
  assert (n = Some b).
  { eapply nodup_open_unique; [apply (si_nd _ _ S)| |exact Hopen].
    rewrite E1. apply in_or_app. right. simpl. auto. }
  subst n. exists pre, post, ks, fs. split; [exact E1|]. split; [exact E2|]. split; [exact E3|].
  split; [|split; [|exact E4]].
  - apply no_open_erase. intros a' Hi.
    assert (a' = a). { assert (In (GOpen a' (Some b)) (flat_map gflat F)) by (rewrite E1; apply in_or_app; auto).
                       apply (si_l2 _ _ S) in H. congruence. }
    subst a'. pose proof (si_nd _ _ S) as Hn. rewrite E1, gaddrs_app in Hn.
    eapply nodup_app_false; [exact Hn| eapply in_gaddrs; eauto | rewrite gaddrs_app; simpl; auto].
  - apply no_close_erase. intros a' Hi.
    assert (a' = a).
    { eapply sinv_close_addr; eauto. rewrite E1, gflat_node. apply in_or_app. right. simpl. right.
      apply in_or_app. left. apply in_or_app. auto. }
    subst a'.
    assert (Hn : NoDup (gcaddrs (flat_map gflat F))).
    { eapply Permutation_NoDup; [apply gcaddrs_perm_F|]. apply (si_nd _ _ S). }
    rewrite E1, gflat_node, gcaddrs_app in Hn. apply NoDup_app_inv in Hn. destruct Hn as (_ & Hn & _).
    rewrite gcaddrs_app in Hn. apply NoDup_app_inv in Hn. destruct Hn as (Hn & _ & _).
    simpl in Hn. rewrite gcaddrs_app in Hn.
    eapply nodup_app_false; [exact Hn| eapply in_gcaddrs; eauto | simpl; auto].
Qed.

Lemma app_shape {A} (p : list A) o b c q : p ++ o :: (b ++ [c]) ++ q = (p ++ o :: b) ++ c :: q.
Proof. repeat (rewrite <- app_assoc; simpl). reflexivity. Qed.
Lemma app_shape2 {A} (p : list A) o b x c q : p ++ o :: ((b ++ x) ++ [c]) ++ q = (p ++ o :: b) ++ x ++ c :: q.
Proof. repeat (rewrite <- app_assoc; simpl). reflexivity. Qed.

Lemma doc_upd hs F b a g X : SInv hs (flat_map gflat F) -> nth_error hs b = Some a ->
  (forall ks fs, erase (gbody (fst (g ks fs)) (snd (g ks fs))) = erase (gbody ks fs) ++ X) ->
  forall t, In t F -> erase (gflat (tupd a g t)) = ins_before_close b X (erase (gflat t)).
Proof.
  intros S Hb Hg t Ht.
  assert (Hsub : forall x, In x (gflat t) -> In x (flat_map gflat F)) by (intros; apply in_flat_map; eauto).
  pose proof (NoDup_flat_map_in taddrs F t (sinv_nd_taddrs _ _ S) Ht) as Hndt.
  destruct (in_dec Nat.eq_dec a (taddrs t)) as [Hin|Hnin].
  - destruct (tree_ctx a t Hin Hndt) as (pre & post & n & ks & fs & E1 & E2 & _).
    assert (n = Some b).
    { eapply nodup_open_unique; [apply (si_nd _ _ S)| |apply (si_l1 _ _ S b a Hb)].
      apply Hsub. rewrite E1. apply in_or_app. right. simpl. auto. }
    subst n.
    assert (Hn : NoDup (gcaddrs (gflat t))).
    { eapply Permutation_NoDup; [apply gcaddrs_perm|]. rewrite gaddrs_gflat. exact Hndt. }
    rewrite E2, E1, !gflat_node. rewrite !erase_app. cbn [erase flat_map erase1]. rewrite !erase_app.
    cbn [erase flat_map erase1 app]. rewrite Hg.
    rewrite !app_shape.
    rewrite ins_skip.
    + repeat (rewrite <- app_assoc; cbn [app]). reflexivity.
    + intros i Hi. apply in_app_or in Hi. destruct Hi as [Hi|[<-|Hi]]; [|reflexivity|].
      * revert i Hi. apply no_close_erase. intros a' Hi.
        assert (a' = a) by (eapply sinv_close_addr; eauto; apply Hsub; rewrite E1; apply in_or_app; auto).
        subst a'. rewrite E1, gflat_node, gcaddrs_app in Hn.
        eapply nodup_app_false; [exact Hn|eapply in_gcaddrs; eauto|].
        rewrite gcaddrs_app. apply in_or_app. left. simpl. rewrite gcaddrs_app. apply in_or_app. right. simpl. auto.
      * revert i Hi. apply no_close_erase. intros a' Hi.
        assert (a' = a).
        { eapply sinv_close_addr; eauto. apply Hsub. rewrite E1, gflat_node. apply in_or_app. right.
          apply in_or_app. left. simpl. right. apply in_or_app. auto. }
        subst a'. rewrite E1, gflat_node, gcaddrs_app in Hn. apply NoDup_app_inv in Hn. destruct Hn as (_ & Hn & _).
        rewrite gcaddrs_app in Hn. apply NoDup_app_inv in Hn. destruct Hn as (Hn & _ & _).
        simpl in Hn. rewrite gcaddrs_app in Hn.
        eapply nodup_app_false; [exact Hn| eapply in_gcaddrs; eauto | simpl; auto].
  - rewrite tupd_notin by auto. symmetry. apply ins_absent. apply no_close_erase. intros a' Hi.
    assert (a' = a) by (eapply sinv_close_addr; eauto).
    subst a'. apply Hnin. rewrite <- gaddrs_gflat. apply close_has_open in Hi. eapply in_gaddrs; eauto.
Qed.

(* ---------- the invariant ---------- *)
Definition named_root (t : tree) : Prop := exists b, tname t = Some b.

Record HInv (h : heap) (hs : list nat) (F : list tree) : Prop := {
  hi_rep : Forall (rep h) F;
  hi_s : SInv hs (flat_map gflat F);
  hi_roots : Forall named_root F;
  hi_leaf : Forall tleaf F }.

Record Inv (st : state) (sp : spec) (F : list tree) : Prop := {
  inv_h : HInv (st_heap st) (st_handles st) F;
  inv_docs : sp_docs sp = map (fun t => erase (gflat t)) F;
  inv_n : length (st_handles st) = sp_n sp }.

Lemma fresh_addr h F c : Forall (rep h) F -> length h <= c -> ~ In c (gaddrs (flat_map gflat F)).
Proof.
  intros Hr Hc Hi. rewrite gaddrs_flatF in Hi. apply in_flat_map in Hi. destruct Hi as (t & Ht & Hi).
  rewrite Forall_forall in Hr. pose proof (rep_valid h t (Hr t Ht) c Hi). lia.
Qed.

Lemma perm_ctx {A} (pre N N' post X : list A) :
  Permutation N' (X ++ N) -> Permutation (pre ++ N' ++ post) (X ++ pre ++ N ++ post).
Proof.
  intro P. eapply Permutation_trans.
  - apply Permutation_app_head. apply Permutation_app_tail. exact P.
  - rewrite <- app_assoc. apply Permutation_app_swap_app.
Qed.

Lemma perm_wrap {A} (K T : list A) o c : Permutation (K ++ o :: T ++ [c]) (o :: c :: K ++ T).
Proof.
  eapply Permutation_trans; [apply Permutation_sym, Permutation_middle|]. apply perm_skip.
  rewrite app_assoc. eapply Permutation_trans; [apply Permutation_app_comm|]. reflexivity.
Qed.

Lemma perm_node a n ks fs ks' fs' X :
  Permutation (gbody ks' fs') (X ++ gbody ks fs) ->
  Permutation (gflat (Node a n ks' fs')) (X ++ gflat (Node a n ks fs)).
Proof.
  intro P. rewrite !gflat_node.
  change (GOpen a n :: gbody ks' fs' ++ [GClose a n]) with ([GOpen a n] ++ gbody ks' fs' ++ [GClose a n]).
  change (GOpen a n :: gbody ks fs ++ [GClose a n]) with ([GOpen a n] ++ gbody ks fs ++ [GClose a n]).
  apply perm_ctx. exact P.
Qed.

Lemma roots_tupd a g F : Forall named_root F -> Forall named_root (map (tupd a g) F).
Proof.
  intro H. rewrite Forall_forall in *. intros t' Hin. apply in_map_iff in Hin.
  destruct Hin as (t & <- & Hin). destruct (H t Hin) as (b & Hb). exists b. rewrite tname_tupd. exact Hb.
Qed.

Definition ne_frag (f : frag) : Prop := fst f <> [].

(* ghost updates *)
Definition g_w (f : frag) : upd := fun ks fs => (ks, fs ++ [f]).
Definition g_c (c : nat) : upd := fun ks fs => if is_nil fs then (ks, fs) else (ks ++ [Node c None [] fs], []).
Definition g_k (T : tree) : upd := fun ks fs => (ks ++ [T], fs).
Definition g_r : upd := fun _ _ => ([], []).

Lemma concat_nil_ne (fs : list frag) : (forall f, In f fs -> ne_frag f) -> concat (map fst fs) = [] -> fs = [].
Proof.
  destruct fs as [|f fs]; auto. intros H E. simpl in E. exfalso. apply (H f); simpl; auto.
  destruct (fst f); auto. discriminate.
Qed.

Lemma leaf_sub_tupd hs a b g F F' : SInv hs (flat_map gflat F) -> nth_error hs b = Some a ->
  incl F' F -> Forall tleaf F' ->
  (forall ks fs, Forall tleaf ks -> Forall tleaf (fst (g ks fs))) -> Forall tleaf (map (tupd a g) F').
Proof.
  intros S Hb Hsub Hl Hg. rewrite Forall_forall in *. intros t' Hin. apply in_map_iff in Hin.
  destruct Hin as (t & <- & Hin). apply tleaf_tupd; auto. intros n Hi.
  assert (n = Some b); [|congruence].
  eapply nodup_open_unique; [apply (si_nd _ _ S)| |apply (si_l1 _ _ S b a Hb)].
  apply in_flat_map. exists t. split; auto.
Qed.

Lemma leaf_g_w f ks fs : Forall tleaf ks -> Forall tleaf (fst (g_w f ks fs)).
Proof. auto. Qed.
Lemma leaf_g_c c ks fs : Forall tleaf ks -> Forall tleaf (fst (g_c c ks fs)).
Proof.
  intro H. unfold g_c. destruct (is_nil fs); cbn [fst]; auto. apply Forall_app. split; auto.
  constructor; [|constructor]. constructor; auto.
Qed.
Lemma leaf_g_k T ks fs : tleaf T -> Forall tleaf ks -> Forall tleaf (fst (g_k T ks fs)).
Proof. intros HT H. cbn [g_k fst]. apply Forall_app. split; auto. Qed.

(* --- write --- *)
Lemma write_hinv h hs F b a s ms : HInv h hs F -> nth_error hs b = Some a -> s <> [] ->
  exists h', h_write h a s ms = Some h' /\ HInv h' hs (map (tupd a (g_w (s, ms))) F) /\
             Permutation (flat_map gflat (map (tupd a (g_w (s, ms))) F)) (GTxt (s, ms) :: flat_map gflat F).
Proof.
  intros [Hr S Hroot Hleaf] Hb Hs.
  destruct (locate hs F b a S Hb) as (pre & post & ks & fs & E1 & E2 & E3 & _ & _).
  pose proof (E3 h Hr) as Hnode. inversion Hnode as [? ? ? ? o Hn Hc Hst Hm Hk]; subst.
  assert (HP : Permutation (flat_map gflat (map (tupd a (g_w (s, ms))) F)) (GTxt (s, ms) :: flat_map gflat F)).
  { rewrite E1, E2.
    change (GTxt (s, ms) :: pre ++ gflat (Node a (Some b) ks fs) ++ post)
      with ([GTxt (s, ms)] ++ pre ++ gflat (Node a (Some b) ks fs) ++ post).
    apply perm_ctx. apply perm_node. cbn [g_w fst snd]. unfold gbody.
    rewrite map_app, app_assoc. apply Permutation_app_comm. }
  unfold h_write. rewrite Hn. eexists. split; [reflexivity|]. split; [|exact HP]. split.
  - eapply rep_forest_tupd with (P := fun _ => True); eauto.
    + eapply sinv_nd_taddrs; eauto.
    + intros x Hx _. apply nth_set_nth_neq. auto.
    + intros n ks0 fs0 Hr0 Hnin _. inversion Hr0 as [? ? ? ? o0 Hn0 Hc0 Hst0 Hm0 Hk0]; subst.
      assert (o0 = o) by congruence. subst o0. cbn [g_w fst snd].
      eapply rep_node.
      * apply nth_set_nth_eq. eapply nth_error_lt; eauto.
      * exact Hc0.
      * cbn [o_stream]. rewrite map_app, concat_app. simpl. rewrite app_nil_r. rewrite Hst0. reflexivity.
      * cbn [o_markers]. rewrite map_app, concat_app. simpl. rewrite app_nil_r. rewrite Hm0. reflexivity.
      * rewrite Forall_forall in *. intros k Hin. eapply rep_frame; eauto.
        intros x Hx. apply nth_set_nth_neq. intro; subst x. apply Hnin. apply in_flat_map. eauto.
  - eapply sinv_perm; [apply Permutation_sym; exact HP|apply (sinv_txt hs _ (s, ms) S); auto].
  - apply roots_tupd; auto.
  - apply (leaf_sub_tupd hs a b _ F F S Hb (incl_refl F) Hleaf). intros; apply leaf_g_w; auto.
Qed.

(* --- commit --- *)
Lemma commit_hinv h hs F b a : HInv h hs F -> nth_error hs b = Some a ->
  exists h', h_commit h a = Some h' /\ HInv h' hs (map (tupd a (g_c (length h))) F) /\ length h <= length h' /\
             Permutation (gfrags (flat_map gflat (map (tupd a (g_c (length h))) F))) (gfrags (flat_map gflat F)).
Proof.
  intros [Hr S Hroot Hleaf] Hb.
  destruct (locate hs F b a S Hb) as (pre & post & ks & fs & E1 & E2 & E3 & _ & _).
  pose proof (E3 h Hr) as Hnode. inversion Hnode as [? ? ? ? o Hn Hc Hst Hm Hk]; subst.
  assert (Hne : forall f, In f fs -> ne_frag f).
  { intros f Hf. apply (si_ne _ _ S). rewrite E1. apply in_or_app. right. apply in_or_app. left.
    simpl. right. apply in_or_app. right. apply in_or_app. left. apply in_map. exact Hf. }
  assert (HS : SInv hs (flat_map gflat (map (tupd a (g_c (length h))) F)) /\
               Permutation (gfrags (flat_map gflat (map (tupd a (g_c (length h))) F))) (gfrags (flat_map gflat F))).
  { rewrite E2. unfold g_c. destruct fs as [|f0 fs0]; cbn [is_nil fst snd].
    - rewrite <- E1. split; [exact S|reflexivity].
    - assert (HP : Permutation (pre ++ gflat (Node a (Some b) (ks ++ [Node (length h) None [] (f0 :: fs0)]) []) ++ post)
                               (GOpen (length h) None :: GClose (length h) None :: flat_map gflat F)); [|split].
      2:{ eapply sinv_perm; [apply Permutation_sym; exact HP|apply (sinv_anon hs _ (length h) S); eapply fresh_addr; eauto]. }
      2:{ apply (Permutation_flat_map gfrag1) in HP. exact HP. }
      rewrite E1.
      change (GOpen (length h) None :: GClose (length h) None :: pre ++ gflat (Node a (Some b) ks (f0 :: fs0)) ++ post)
        with ([GOpen (length h) None; GClose (length h) None] ++ pre ++ gflat (Node a (Some b) ks (f0 :: fs0)) ++ post).
      apply perm_ctx. apply perm_node. unfold gbody. rewrite flat_map_app. cbn [flat_map gflat map].
      rewrite !app_nil_r. apply (perm_wrap (flat_map gflat ks) (map GTxt (f0 :: fs0))). }
  destruct HS as (HS & HPF).
  unfold h_commit. rewrite Hn. destruct (is_nil (o_stream o)) eqn:Enil.
  - exists h. split; [reflexivity|]. split; [|split; [lia|exact HPF]]. split; auto.
    + eapply rep_forest_tupd with (P := ne_frag); eauto.
      * eapply sinv_nd_taddrs; eauto.
      * intros f Hf. apply (si_ne _ _ S). exact Hf.
      * intros n ks0 fs1 Hr0 _ Hne0. inversion Hr0 as [? ? ? ? o0 Hn0 Hc0 Hst0 Hm0 Hk0]; subst.
        assert (o0 = o) by congruence. subst o0.
        assert (fs1 = []). { apply concat_nil_ne; auto. etransitivity; [symmetry; exact Hst0|]. destruct (o_stream o); auto; discriminate. }
        subst fs1. unfold g_c. cbn [is_nil fst snd]. exact Hr0.
    + apply roots_tupd; auto.
    + apply (leaf_sub_tupd hs a b _ F F S Hb (incl_refl F) Hleaf). intros; apply leaf_g_c; auto.
  - eexists. split; [reflexivity|]. split.
    + split; auto.
      * eapply rep_forest_tupd with (P := ne_frag); eauto.
        -- eapply sinv_nd_taddrs; eauto.
        -- intros f Hf. apply (si_ne _ _ S). exact Hf.
        -- intros x Hx Hlt. rewrite nth_app_l by (rewrite length_set_nth; auto). apply nth_set_nth_neq. auto.
        -- intros n ks0 fs1 Hr0 Hnin _. inversion Hr0 as [? ? ? ? o0 Hn0 Hc0 Hst0 Hm0 Hk0]; subst.
           assert (o0 = o) by congruence. subst o0.
           assert (Hlt : a < length h) by (eapply nth_error_lt; eauto).
           assert (fs1 <> []). { intro; subst fs1. simpl in Hst0. rewrite Hst0 in Enil. discriminate. }
           unfold g_c. destruct fs1 as [|f1 fs1]; [congruence|]. cbn [is_nil fst snd].
           eapply rep_node.
           ++ rewrite nth_app_l by (rewrite length_set_nth; auto). apply nth_set_nth_eq. auto.
           ++ cbn [o_children]. rewrite map_app, Hc0. reflexivity.
           ++ reflexivity.
           ++ reflexivity.
           ++ apply Forall_app. split.
              ** rewrite Forall_forall in *. intros k Hin. eapply rep_frame; eauto.
                 intros x Hx. assert (x < length h) by (eapply (rep_valid h k); [apply Hk0; exact Hin|exact Hx]).
                 rewrite nth_app_l by (rewrite length_set_nth; auto). apply nth_set_nth_neq.
                 intro; subst x. apply Hnin. apply in_flat_map. eauto.
              ** constructor; [|constructor]. eapply rep_node with (o := mkObj [] (o_stream o) (o_markers o)); auto.
                 rewrite <- (length_set_nth (mkObj (o_children o ++ [length h]) [] []) h a) at 2.
                 apply nth_app_len.
      * apply roots_tupd; auto.
      * apply (leaf_sub_tupd hs a b _ F F S Hb (incl_refl F) Hleaf). intros; apply leaf_g_c; auto.
    + split; [rewrite app_length, length_set_nth; lia|exact HPF].
Qed.

(* --- append a child tree T to the node at a --- *)
Lemma addkid_rep h F a T o : NoDup (flat_map taddrs F) -> Forall (rep h) F -> nth_error h a = Some o ->
  rep h T -> ~ In a (taddrs T) ->
  Forall (rep (set_nth a (mkObj (o_children o ++ [taddr T]) (o_stream o) (o_markers o)) h))
         (map (tupd a (g_k T)) F).
Proof.
  intros Hnd Hr Hn HT HaT.
  eapply rep_forest_tupd with (P := fun _ => True); eauto.
  - intros x Hx _. apply nth_set_nth_neq. auto.
  - intros n ks fs Hr0 Hnin _. inversion Hr0 as [? ? ? ? o0 Hn0 Hc0 Hst0 Hm0 Hk0]; subst.
    assert (o0 = o) by congruence. subst o0. cbn [g_k fst snd].
    eapply rep_node.
    + apply nth_set_nth_eq. eapply nth_error_lt; eauto.
    + cbn [o_children]. rewrite map_app, Hc0. reflexivity.
    + exact Hst0.
    + exact Hm0.
    + apply Forall_app. split.
      * rewrite Forall_forall in *. intros k Hin. eapply rep_frame; [apply Hk0; exact Hin|].
        intros x Hx. apply nth_set_nth_neq. intro; subst x. apply Hnin. apply in_flat_map. eauto.
      * constructor; [|constructor]. eapply rep_frame; eauto.
        intros x Hx. apply nth_set_nth_neq. intro; subst x. auto.
Qed.

Lemma addkid_perm F a T : In a (flat_map taddrs F) -> NoDup (flat_map taddrs F) ->
  Permutation (flat_map gflat (map (tupd a (g_k T)) F)) (gflat T ++ flat_map gflat F).
Proof.
  intros Hin Hnd. destruct (forest_ctx a F Hin Hnd) as (pre & post & n & ks & fs & E1 & E2 & _).
  rewrite E1, E2. apply perm_ctx. apply perm_node. cbn [g_k fst snd]. unfold gbody.
  rewrite flat_map_app. cbn [flat_map]. rewrite app_nil_r, <- app_assoc. apply Permutation_app_swap_app.
Qed.

Lemma fused_effect c T ks fs :
  erase (gbody (fst (ucomp (g_k T) (g_c c) ks fs)) (snd (ucomp (g_k T) (g_c c) ks fs)))
  = erase (gbody ks fs) ++ erase (gflat T).
Proof.
  unfold ucomp, g_k, g_c, gbody. destruct fs as [|f fs]; cbn [is_nil fst snd map].
  - rewrite !flat_map_app. cbn [flat_map]. rewrite !app_nil_r. apply erase_app.
  - rewrite !flat_map_app. cbn [flat_map gflat]. rewrite !app_nil_r, !erase_app.
    cbn [erase flat_map erase1 app]. rewrite !erase_app. cbn [erase flat_map erase1 app].
    rewrite !app_nil_r. reflexivity.
Qed.

Lemma take_doc_map t (f : tree -> doc) : forall F d rest, take_doc t (map f F) = Some (d, rest) ->
  exists Fa T Fb, F = Fa ++ T :: Fb /\ d = f T /\ rest = map f (Fa ++ Fb) /\ is_root t (f T) = true.
Proof.
  induction F as [|x F IH]; simpl; intros d rest H; [discriminate|].
  destruct (is_root t (f x)) eqn:E.
  - inversion H; subst. exists [], x, F. auto.
  - destruct (take_doc t (map f F)) as [[y r']|] eqn:E2; [|discriminate]. inversion H; subst.
    destruct (IH _ _ eq_refl) as (Fa & T & Fb & -> & -> & -> & Hroot).
    exists (x :: Fa), T, Fb. auto.
Qed.

Lemma open_has_close : forall t a n, In (GOpen a n) (gflat t) -> In (GClose a n) (gflat t).
Proof.
  apply (tree_ind' (fun t => forall a n, In (GOpen a n) (gflat t) -> In (GClose a n) (gflat t))).
  intros a0 n0 ks fs IH a n H. simpl in *. destruct H as [H|H].
  - inversion H; subst. right. apply in_or_app. right. apply in_or_app. right. simpl. auto.
  - apply in_app_or in H. destruct H as [H|H].
    + right. apply in_or_app. left. apply in_flat_map in H. destruct H as (k & Hk & Hin).
      apply in_flat_map. exists k. split; auto. rewrite Forall_forall in IH. apply IH; auto.
    + apply in_app_or in H. destruct H as [H|H].
      * apply in_map_iff in H. destruct H as (? & ? & ?). discriminate.
      * simpl in H. destruct H as [H|[]]. discriminate.
Qed.

Lemma handle_lookup (hs : list nat) b n : length hs = n -> (b <? n) = true -> exists a, nth_error hs b = Some a.
Proof.
  intros <- Hb. apply Nat.ltb_lt in Hb. destruct (nth_error hs b) eqn:E; eauto.
  apply nth_error_None in E. lia.
Qed.

(* ---------- one step preserves the invariant ---------- *)
Definition G_of (F : list tree) : list gitem := flat_map gflat F.

Lemma inv_lookup st sp F b : Inv st sp F -> (b <? sp_n sp) = true ->
  exists a o, nth_error (st_handles st) b = Some a /\ nth_error (st_heap st) a = Some o.
Proof.
  intros [[Hr S Hroot Hleaf] Hd Hn] Hb. destruct (handle_lookup _ _ _ Hn Hb) as (a & Ha).
  destruct (locate _ F b a S Ha) as (pre & post & ks & fs & _ & _ & E3 & _ & _).
  pose proof (E3 _ Hr) as Hnode. inversion Hnode; subst. eauto.
Qed.

Lemma step_new st sp F : Inv st sp F ->
  exists st' F', step st ONew = Some st' /\ Inv st' (spec_step sp ONew) F' /\
                 Permutation (gfrags (G_of F')) (gfrags (G_of F)).
Proof.
  intros [[Hr S Hroot Hleaf] Hd Hn]. destruct st as [h hs]. cbn [st_heap st_handles] in *.
  exists (mkState (h ++ [empty_obj]) (hs ++ [length h])), (F ++ [Node (length h) (Some (length hs)) [] []]).
  split; [reflexivity|]. split; [split; [split|..]|]; cbn [st_heap st_handles].
  - apply Forall_app. split.
    + eapply Forall_impl; [|exact Hr]. intros t Ht. apply rep_app. exact Ht.
    + constructor; [|constructor]. eapply rep_node with (o := empty_obj); try reflexivity.
      * apply nth_app_len.
      * constructor.
  - rewrite flat_map_app. cbn [flat_map gflat map app].
    eapply sinv_perm; [|apply (sinv_named hs _ (length h) S); eapply fresh_addr; eauto].
    apply (Permutation_app_comm [GOpen (length h) (Some (length hs)); GClose (length h) (Some (length hs))]).
  - apply Forall_app. split; auto. constructor; [|constructor]. exists (length hs). reflexivity.
  - apply Forall_app. split; auto. constructor; [|constructor]. constructor; auto.
  - cbn [spec_step sp_docs]. rewrite Hd, map_app, <- Hn. reflexivity.
  - cbn [spec_step sp_n]. rewrite app_length. simpl. lia.
  - unfold G_of. rewrite flat_map_app, gfrags_app. simpl. rewrite app_nil_r. reflexivity.
Qed.

Lemma docs_upd st sp F b a g X : Inv st sp F -> nth_error (st_handles st) b = Some a ->
  (forall ks fs, erase (gbody (fst (g ks fs)) (snd (g ks fs))) = erase (gbody ks fs) ++ X) ->
  map (ins_before_close b X) (sp_docs sp) = map (fun t => erase (gflat t)) (map (tupd a g) F).
Proof.
  intros [[Hr S Hroot Hleaf] Hd Hn] Hb Hg. rewrite Hd, !map_map. apply map_ext_in. intros t Ht.
  symmetry. eapply doc_upd; eauto.
Qed.

Lemma step_write st sp F b s ms : Inv st sp F -> wf_op sp (OWrite b s ms) = true ->
  exists st' F', step st (OWrite b s ms) = Some st' /\ Inv st' (spec_step sp (OWrite b s ms)) F' /\
                 Permutation (gfrags (G_of F')) (written [OWrite b s ms] ++ gfrags (G_of F)).
Proof.
  intros HI Hwf. cbn [wf_op] in Hwf. apply andb_true_iff in Hwf. destruct Hwf as (Hb & Hsm).
  destruct (inv_lookup _ _ _ _ HI Hb) as (a & o & Ha & Ho).
  destruct st as [h hs]. cbn [st_heap st_handles] in *.
  destruct s as [|c s].
  - destruct ms as [|m ms]; [|discriminate].
    exists (mkState h hs), F. split; [|split].
    + cbn [step st_heap st_handles]. rewrite Ha. unfold h_write. rewrite Ho. rewrite !app_nil_r.
      cbn [option_map]. rewrite set_nth_same; auto. destruct o; exact Ho.
    + exact HI.
    + reflexivity.
  - destruct HI as [HH Hd Hn]. cbn [st_heap st_handles] in *.
    destruct (write_hinv h hs F b a (c :: s) ms HH Ha) as (h' & Hw & HH' & HP); [discriminate|].
    exists (mkState h' hs), (map (tupd a (g_w (c :: s, ms))) F). split; [|split].
    + cbn [step st_heap st_handles]. rewrite Ha, Hw. reflexivity.
    + split; cbn [st_heap st_handles spec_step is_nil sp_docs sp_n]; auto.
      eapply (docs_upd (mkState h hs)); [split; eauto| exact Ha |].
      intros ks fs. cbn [g_w fst snd]. unfold gbody. rewrite map_app, app_assoc, erase_app. reflexivity.
    + cbn [written is_nil app]. apply (Permutation_flat_map gfrag1) in HP. exact HP.
Qed.

Lemma commit_effect c ks fs :
  erase (gbody (fst (g_c c ks fs)) (snd (g_c c ks fs))) = erase (gbody ks fs) ++ [].
Proof.
  rewrite app_nil_r. unfold g_c, gbody. destruct fs as [|f fs]; cbn [is_nil fst snd map]; auto.
  rewrite !flat_map_app. cbn [flat_map gflat]. rewrite !app_nil_r, !erase_app.
  cbn [erase flat_map erase1 app]. rewrite !erase_app. cbn [erase flat_map erase1 app].
  rewrite !app_nil_r. reflexivity.
Qed.

Lemma map_ins_nil b ds : map (ins_before_close b []) ds = ds.
Proof. rewrite <- (map_id ds) at 2. apply map_ext. intro. apply ins_nil. Qed.

Lemma step_commit st sp F b : Inv st sp F -> wf_op sp (OCommit b) = true ->
  exists st' F', step st (OCommit b) = Some st' /\ Inv st' (spec_step sp (OCommit b)) F' /\
                 Permutation (gfrags (G_of F')) (gfrags (G_of F)).
Proof.
  intros HI Hb. cbn [wf_op] in Hb.
  destruct (inv_lookup _ _ _ _ HI Hb) as (a & o & Ha & Ho).
  destruct st as [h hs]. cbn [st_heap st_handles] in *.
  pose proof HI as [HH Hd Hn]. cbn [st_heap st_handles] in *.
  destruct (commit_hinv h hs F b a HH Ha) as (h' & Hc & HH' & _ & HP).
  exists (mkState h' hs), (map (tupd a (g_c (length h))) F). split; [|split].
  - cbn [step st_heap st_handles]. rewrite Ha, Hc. reflexivity.
  - split; cbn [st_heap st_handles spec_step]; auto.
    rewrite <- (map_ins_nil b (sp_docs sp)).
    eapply (docs_upd (mkState h hs)); [exact HI| exact Ha |]. apply commit_effect.
  - exact HP.
Qed.

Lemma step_point st sp F b : Inv st sp F -> wf_op sp (OPoint b) = true ->
  exists st' F', step st (OPoint b) = Some st' /\ Inv st' (spec_step sp (OPoint b)) F' /\
                 Permutation (gfrags (G_of F')) (gfrags (G_of F)).
Proof.
  intros HI Hb. cbn [wf_op] in Hb.
  destruct (inv_lookup _ _ _ _ HI Hb) as (a & o & Ha & Ho).
  destruct st as [h hs]. cbn [st_heap st_handles] in *.
  pose proof HI as [HH Hd Hn]. cbn [st_heap st_handles] in *.
  destruct (commit_hinv h hs F b a HH Ha) as (h1 & Hc & HH1 & Hlen & HP).
  remember (map (tupd a (g_c (length h))) F) as F1 eqn:EF1.
  destruct HH1 as [Hr1 S1 Hroot1 Hleaf1].
  destruct (locate hs F1 b a S1 Ha) as (pre & post & ks & fs & E1 & _ & E3 & _ & _).
  pose proof (E3 _ Hr1) as Hnode. inversion Hnode as [? ? ? ? o1 Hn1 Hc1 Hst1 Hm1 Hk1]; subst a0 n ks0 fs0.
  pose (c := length h1). pose (T := Node c (Some (length hs)) [] []).
  assert (Hlt : a < length h1) by (eapply nth_error_lt; eauto).
  assert (Hn1' : nth_error (h1 ++ [empty_obj]) a = Some o1) by (rewrite nth_app_l; auto).
  assert (Hin1 : In a (flat_map taddrs F1)).
  { rewrite <- gaddrs_flatF. eapply in_gaddrs. apply (si_l1 _ _ S1 b a Ha). }
  pose proof (sinv_nd_taddrs _ _ S1) as Hnd1.
  exists (mkState (set_nth a (mkObj (o_children o1 ++ [c]) (o_stream o1) (o_markers o1)) (h1 ++ [empty_obj])) (hs ++ [c])),
         (map (tupd a (g_k T)) F1).
  split; [|split].
  - cbn [step st_heap st_handles]. rewrite Ha. unfold h_insertion_point. rewrite Hc. unfold h_add_child.
    rewrite Hn1'. reflexivity.
  - split; [split|..]; cbn [st_heap st_handles].
    + apply (addkid_rep (h1 ++ [empty_obj]) F1 a T o1); auto.
      * eapply Forall_impl; [|exact Hr1]. intros t Ht. apply rep_app. exact Ht.
      * eapply rep_node with (o := empty_obj); try reflexivity; [apply nth_app_len|constructor].
      * simpl. intros [H|[]]. unfold c in H. lia.
    + eapply sinv_perm; [apply Permutation_sym; apply addkid_perm; auto|].
      cbn [T gflat flat_map map app].
      apply (sinv_named hs _ c S1). eapply fresh_addr; eauto.
    + apply roots_tupd; auto.
    + apply (leaf_sub_tupd hs a b _ F1 F1 S1 Ha (incl_refl F1) Hleaf1). intros; apply leaf_g_k; auto.
      constructor; auto.
    + cbn [spec_step sp_docs]. rewrite EF1, (map_map (tupd a (g_c (length h))) (tupd a (g_k T))).
      rewrite (map_ext _ (tupd a (ucomp (g_k T) (g_c (length h))))) by (intro; apply tupd_tupd).
      rewrite <- Hn.
      eapply (docs_upd (mkState h hs)); [exact HI| exact Ha |]. intros ks0 fs0. apply fused_effect.
    + cbn [spec_step sp_n]. rewrite app_length. simpl. lia.
  - eapply Permutation_trans; [|exact HP].
    pose proof (addkid_perm F1 a T Hin1 Hnd1) as HP2.
    apply (Permutation_flat_map gfrag1) in HP2. exact HP2.
Qed.

Lemma NoDup_remove_mid {A} (l1 m l2 : list A) : NoDup (l1 ++ m ++ l2) -> NoDup (l1 ++ l2).
Proof.
  intro H. apply NoDup_app_inv in H. destruct H as (H1 & H2 & H3).
  apply NoDup_app_inv in H2. destruct H2 as (_ & H2 & _).
  apply NoDup_app_intro; auto. intros x Hx Hx2. apply (H3 x Hx). apply in_or_app. auto.
Qed.

Lemma in_erase_close a b l : In (GClose a (Some b)) l -> In (SClose b) (erase l).
Proof. intro H. apply in_flat_map. exists (GClose a (Some b)). simpl. auto. Qed.

Lemma has_close_in b d : In (SClose b) d -> has_close b d = true.
Proof. intro H. apply existsb_exists. exists (SClose b). split; auto. simpl. apply Nat.eqb_refl. Qed.

Lemma step_insert st sp F b t : Inv st sp F -> wf_op sp (OInsert b t) = true ->
  exists st' F', step st (OInsert b t) = Some st' /\ Inv st' (spec_step sp (OInsert b t)) F' /\
                 Permutation (gfrags (G_of F')) (gfrags (G_of F)).
Proof.
  intros HI Hwf. cbn [wf_op] in Hwf. apply andb_true_iff in Hwf. destruct Hwf as (Hb & Htd).
  destruct (inv_lookup _ _ _ _ HI Hb) as (a & o & Ha & Ho).
  destruct st as [h hs]. cbn [st_heap st_handles] in *.
  pose proof HI as [HH Hd Hn]. cbn [st_heap st_handles] in *.
  destruct (take_doc t (sp_docs sp)) as [[d rest]|] eqn:Etd; [|discriminate].
  pose proof Etd as Etd'. rewrite Hd in Etd'. apply take_doc_map in Etd'.
  destruct Etd' as (Fa & T & Fb & EF & Ed & Erest & HrootT).
  pose proof HH as [Hr S Hroots Hleaf].
  assert (HTin : In T F) by (rewrite EF; apply in_elt).
  destruct T as [aT nT ksT fsT].
  assert (nT = Some t).
  { rewrite Forall_forall in Hroots. destruct (Hroots _ HTin) as (bT & HbT). simpl in HbT. subst nT.
    simpl in HrootT. apply Nat.eqb_eq in HrootT. congruence. }
  subst nT. set (T := Node aT (Some t) ksT fsT) in *.
  assert (HaT : nth_error hs t = Some aT).
  { apply (si_l2 _ _ S). apply in_flat_map. exists T. split; auto. simpl. auto. }
  assert (HnotT : ~ In a (taddrs T)).
  { intro Hi. rewrite <- gaddrs_gflat in Hi. apply gaddrs_in in Hi. destruct Hi as (n & Hi).
    assert (n = Some b).
    { eapply nodup_open_unique; [apply (si_nd _ _ S)| |apply (si_l1 _ _ S b a Ha)].
      apply in_flat_map. eauto. }
    subst n. apply open_has_close in Hi. apply in_erase_close in Hi. apply has_close_in in Hi.
    rewrite Ed in Htd. rewrite Hi in Htd. discriminate. }
  destruct (commit_hinv h hs F b a HH Ha) as (h1 & Hc & HH1 & Hlen & HP).
  set (gc := g_c (length h)) in *.
  assert (EF1 : map (tupd a gc) F = map (tupd a gc) Fa ++ T :: map (tupd a gc) Fb).
  { rewrite EF, map_app. cbn [map]. rewrite (tupd_notin a gc T HnotT). reflexivity. }
  rewrite EF1 in HH1, HP. destruct HH1 as [Hr1 S1 Hroot1 Hleaf1].
  set (Fa1 := map (tupd a gc) Fa) in *. set (Fb1 := map (tupd a gc) Fb) in *.
  destruct (locate hs _ b a S1 Ha) as (pre & post & ks & fs & E1 & _ & E3 & _ & _).
  pose proof (E3 _ Hr1) as Hnode. inversion Hnode as [? ? ? ? o1 Hn1 Hc1 Hst1 Hm1 Hk1]; subst a0 n ks0 fs0.
  pose proof (sinv_nd_taddrs _ _ S1) as Hnd1.
  assert (Hnd12 : NoDup (flat_map taddrs (Fa1 ++ Fb1))).
  { rewrite flat_map_app in *. cbn [flat_map] in Hnd1. eapply NoDup_remove_mid; eauto. }
  assert (Hin12 : In a (flat_map taddrs (Fa1 ++ Fb1))).
  { assert (Hi : In a (flat_map taddrs (Fa1 ++ T :: Fb1))).
    { rewrite <- gaddrs_flatF. eapply in_gaddrs. apply (si_l1 _ _ S1 b a Ha). }
    rewrite flat_map_app in *. cbn [flat_map] in Hi. apply in_app_or in Hi. apply in_or_app.
    destruct Hi as [Hi|Hi]; auto. apply in_app_or in Hi. destruct Hi as [Hi|Hi]; auto. contradiction. }
  assert (Hr12 : Forall (rep h1) (Fa1 ++ Fb1) /\ rep h1 T).
  { apply Forall_app in Hr1. destruct Hr1 as (H1 & H2). inversion H2; subst. split; auto. apply Forall_app; auto. }
  destruct Hr12 as (Hr12 & HrT).
  assert (HPG : Permutation (flat_map gflat (map (tupd a (g_k T)) (Fa1 ++ Fb1))) (flat_map gflat (Fa1 ++ T :: Fb1))).
  { eapply Permutation_trans; [apply addkid_perm; auto|].
    rewrite !flat_map_app. cbn [flat_map]. apply Permutation_app_swap_app. }
  exists (mkState (set_nth a (mkObj (o_children o1 ++ [aT]) (o_stream o1) (o_markers o1)) h1) hs),
         (map (tupd a (g_k T)) (Fa1 ++ Fb1)).
  split; [|split].
  - cbn [step st_heap st_handles]. rewrite Ha, HaT. unfold h_insert. rewrite Hc. unfold h_add_child.
    rewrite Hn1. reflexivity.
  - split; [split|..]; cbn [st_heap st_handles].
    + apply (addkid_rep h1 (Fa1 ++ Fb1) a T o1); auto.
    + eapply sinv_perm; [apply Permutation_sym; exact HPG|exact S1].
    + apply roots_tupd. apply Forall_app in Hroot1. destruct Hroot1 as (H1 & H2). inversion H2; subst.
      apply Forall_app; auto.
    + apply Forall_app in Hleaf1. destruct Hleaf1 as (H1 & H2). inversion H2 as [|? ? HlT H2']; subst.
      eapply leaf_sub_tupd; [exact S1|exact Ha| |apply Forall_app; split; eauto|intros; apply leaf_g_k; auto].
      intros x Hx. apply in_app_or in Hx. apply in_or_app. destruct Hx; auto. right. right. auto.
    + cbn [spec_step]. rewrite Etd. cbn [sp_docs]. rewrite Erest, Ed.
      unfold Fa1, Fb1. rewrite <- map_app, !map_map. apply map_ext_in. intros x Hx.
      rewrite tupd_tupd. symmetry. eapply doc_upd with (F := F) (hs := hs); eauto.
      * intros ks0 fs0. apply fused_effect.
      * rewrite EF. apply in_app_or in Hx. apply in_or_app. destruct Hx; auto. right. right. auto.
    + cbn [spec_step]. rewrite Etd. cbn [sp_n]. exact Hn.
  - eapply Permutation_trans; [|exact HP].
    apply (Permutation_flat_map gfrag1) in HPG. exact HPG.
Qed.

(* --- reset (of a buffer without insertion points inside) --- *)
Lemma sinv_remove hs B G : SInv hs (B ++ G) -> (forall a b, ~ In (GOpen a (Some b)) B) -> SInv hs G.
Proof.
  intros [H1 H2 H3 H4] HB. split.
  - rewrite gaddrs_app in H1. apply NoDup_app_inv in H1. tauto.
  - intros b a Hb. specialize (H2 b a Hb). apply in_app_or in H2. destruct H2 as [H2|H2]; auto.
    exfalso. eapply HB; eauto.
  - intros a b Hi. apply H3. apply in_or_app. auto.
  - intros f Hi. apply H4. apply in_or_app. auto.
Qed.

Lemma split_top_no_open acc l : has_open l = false -> split_top 0 acc l = [].
Proof.
  unfold has_open. induction l as [|i l IH]; simpl; auto. destruct i; simpl; intro H; auto. discriminate.
Qed.

Lemma drop_until_skip b body l2 : (forall i, In i body -> is_close b i = false) ->
  drop_until_close b (body ++ SClose b :: l2) = SClose b :: l2.
Proof.
  induction body as [|i body IH]; simpl; intro H.
  - rewrite Nat.eqb_refl. reflexivity.
  - rewrite (H i) by auto. auto.
Qed.

Lemma clear_skip b l1 body l2 : (forall i, In i l1 -> is_open b i = false) ->
  (forall i, In i body -> is_close b i = false) ->
  clear_hole b (l1 ++ SOpen b :: body ++ SClose b :: l2) = l1 ++ SOpen b :: SClose b :: l2.
Proof.
  induction l1 as [|i l1 IH]; simpl; intros H1 H2.
  - rewrite Nat.eqb_refl. rewrite drop_until_skip; auto.
  - rewrite (H1 i) by auto. f_equal. auto.
Qed.

Lemma clear_absent b l : (forall i, In i l -> is_open b i = false) -> clear_hole b l = l.
Proof. induction l as [|i l IH]; simpl; intro H; auto. rewrite (H i) by auto. f_equal. auto. Qed.

Lemma has_open_in b l : In (SOpen b) l -> has_open l = true.
Proof. intro H. apply existsb_exists. exists (SOpen b). auto. Qed.

Lemma in_erase_open a b l : In (GOpen a (Some b)) l -> In (SOpen b) (erase l).
Proof. intro H. apply in_flat_map. exists (GOpen a (Some b)). simpl. auto. Qed.

Lemma doc_clear hs F b a : SInv hs (flat_map gflat F) -> nth_error hs b = Some a ->
  forall t, In t F -> erase (gflat (tupd a g_r t)) = clear_hole b (erase (gflat t)).
Proof.
  intros S Hb t Ht.
  assert (Hsub : forall x, In x (gflat t) -> In x (flat_map gflat F)) by (intros; apply in_flat_map; eauto).
  pose proof (NoDup_flat_map_in taddrs F t (sinv_nd_taddrs _ _ S) Ht) as Hndt.
  destruct (in_dec Nat.eq_dec a (taddrs t)) as [Hin|Hnin].
  - destruct (tree_ctx a t Hin Hndt) as (pre & post & n & ks & fs & E1 & E2 & _).
    assert (n = Some b).
    { eapply nodup_open_unique; [apply (si_nd _ _ S)| |apply (si_l1 _ _ S b a Hb)].
      apply Hsub. rewrite E1. apply in_or_app. right. simpl. auto. }
    subst n.
    assert (Hn : NoDup (gcaddrs (gflat t))).
    { eapply Permutation_NoDup; [apply gcaddrs_perm|]. rewrite gaddrs_gflat. exact Hndt. }
    rewrite E2, E1, !gflat_node. cbn [g_r fst snd]. unfold gbody at 1. cbn [flat_map map app].
    rewrite !erase_app. cbn [erase flat_map erase1 app]. rewrite !erase_app. cbn [erase flat_map erase1 app].
    rewrite <- app_assoc. cbn [app]. rewrite clear_skip; auto.
    + apply no_open_erase. intros a' Hi.
      assert (a' = a).
      { assert (Hg : In (GOpen a' (Some b)) (flat_map gflat F)) by (apply Hsub; rewrite E1; apply in_or_app; auto).
        apply (si_l2 _ _ S) in Hg. congruence. }
      subst a'. rewrite <- gaddrs_gflat in Hndt. rewrite E1, gaddrs_app in Hndt.
      eapply nodup_app_false; [exact Hndt|eapply in_gaddrs; eauto|]. rewrite gaddrs_app. simpl. auto.
    + apply no_close_erase. intros a' Hi.
      assert (a' = a).
      { eapply sinv_close_addr; eauto. apply Hsub. rewrite E1, gflat_node. apply in_or_app. right.
        apply in_or_app. left. simpl. right. apply in_or_app. auto. }
      subst a'. rewrite E1, gflat_node, gcaddrs_app in Hn. apply NoDup_app_inv in Hn. destruct Hn as (_ & Hn & _).
      rewrite gcaddrs_app in Hn. apply NoDup_app_inv in Hn. destruct Hn as (Hn & _ & _).
      simpl in Hn. rewrite gcaddrs_app in Hn.
      eapply nodup_app_false; [exact Hn| eapply in_gcaddrs; eauto | simpl; auto].
  - rewrite tupd_notin by auto. symmetry. apply clear_absent. apply no_open_erase. intros a' Hi.
    assert (a' = a). { apply Hsub in Hi. apply (si_l2 _ _ S) in Hi. congruence. }
    subst a'. apply Hnin. rewrite <- gaddrs_gflat. eapply in_gaddrs; eauto.
Qed.

Lemma sregion_locate sp F b pre post a ks fs :
  sp_docs sp = map (fun t => erase (gflat t)) F ->
  flat_map gflat F = pre ++ gflat (Node a (Some b) ks fs) ++ post ->
  (forall i, In i (erase pre) -> is_open b i = false) ->
  (forall i, In i (erase (gbody ks fs)) -> is_close b i = false) ->
  sregion sp b = Some (erase (gbody ks fs)).
Proof.
  intros Hd E1 H1 H2. unfold sregion. rewrite Hd, concat_docs, E1, gflat_node, !erase_app.
  cbn [erase flat_map erase1 app]. rewrite !erase_app. cbn [erase flat_map erase1 app].
  rewrite <- app_assoc. cbn [app]. apply region_found; auto.
Qed.

(* splitting the inside of a hole into its top-level holes *)
Lemma split_acc_txt d : forall fs acc l,
  split_top (S d) acc (erase (map GTxt fs) ++ l) = split_top (S d) (acc ++ erase (map GTxt fs)) l.
Proof.
  induction fs as [|[s ms] fs IH]; intros acc l; cbn [map erase flat_map erase1 app].
  - rewrite app_nil_r. reflexivity.
  - cbn [split_top]. fold (erase (map GTxt fs)). rewrite IH. rewrite <- app_assoc. reflexivity.
Qed.

Definition split_acc_P (t : tree) : Prop := forall d acc l,
  split_top (S d) acc (erase (gflat t) ++ l) = split_top (S d) (acc ++ erase (gflat t)) l.

Lemma split_acc_list ks : Forall split_acc_P ks -> forall d acc l,
  split_top (S d) acc (erase (flat_map gflat ks) ++ l) = split_top (S d) (acc ++ erase (flat_map gflat ks)) l.
Proof.
  induction 1 as [|k r Hk _ IH]; intros d acc l; cbn [flat_map].
  - cbn [erase flat_map app]. rewrite app_nil_r. reflexivity.
  - rewrite erase_app, <- app_assoc, Hk, IH, <- app_assoc. reflexivity.
Qed.

Lemma split_acc_body ks fs : Forall split_acc_P ks -> forall d acc l,
  split_top (S d) acc (erase (gbody ks fs) ++ l) = split_top (S d) (acc ++ erase (gbody ks fs)) l.
Proof.
  intros H d acc l. unfold gbody. rewrite erase_app, <- app_assoc, split_acc_list, split_acc_txt, <- app_assoc; auto.
Qed.

Lemma split_acc_tree : forall t, split_acc_P t.
Proof.
  apply tree_ind'. intros a n ks fs IH d acc l. rewrite gflat_node.
  destruct n as [c|]; cbn [erase flat_map erase1 app]; rewrite erase_app; cbn [erase flat_map erase1 app].
  - cbn [split_top]. rewrite <- app_assoc. rewrite split_acc_body by auto. cbn [app split_top].
    rewrite <- !app_assoc. reflexivity.
  - rewrite app_nil_r. apply split_acc_body; auto.
Qed.

Lemma split_txt0 : forall fs acc l, split_top 0 acc (erase (map GTxt fs) ++ l) = split_top 0 acc l.
Proof.
  induction fs as [|[s ms] fs IH]; intros acc l; cbn [map erase flat_map erase1 app]; auto.
  cbn [split_top]. fold (erase (map GTxt fs)). apply IH.
Qed.

Definition is_named (t : tree) : bool := match tname t with Some _ => true | None => false end.

Lemma split_top_kids fs : forall ks, Forall tleaf ks ->
  split_top 0 [] (erase (gbody ks fs)) = map (fun t => erase (gflat t)) (filter is_named ks).
Proof.
  induction ks as [|k ks IH]; intro Hl.
  - unfold gbody. cbn [flat_map app filter map]. rewrite <- (app_nil_r (erase (map GTxt fs))). rewrite split_txt0. reflexivity.
  - inversion Hl as [|? ? Hk Hl']; subst. specialize (IH Hl').
    unfold gbody. cbn [flat_map]. rewrite <- app_assoc. fold (gbody ks fs). rewrite erase_app.
    destruct k as [a [c|] ks' fs']; cbn [filter is_named tname map].
    + rewrite gflat_node. cbn [erase flat_map erase1 app]. rewrite erase_app. cbn [erase flat_map erase1 app].
      cbn [split_top]. rewrite <- app_assoc.
      rewrite (split_acc_body ks' fs') by (apply Forall_forall; intros; apply split_acc_tree).
      cbn [app split_top]. rewrite IH. reflexivity.
    + inversion Hk as [? ? ? ? Hnil _]; subst. rewrite (Hnil eq_refl). rewrite gflat_node.
      unfold gbody at 1. cbn [flat_map app]. cbn [erase flat_map erase1 app].
      rewrite erase_app. cbn [erase flat_map erase1 app]. rewrite app_nil_r.
      rewrite split_txt0. exact IH.
Qed.

Lemma filter_perm ks : Permutation (flat_map gflat ks)
  (flat_map gflat (filter is_named ks) ++ flat_map gflat (filter (fun k => negb (is_named k)) ks)).
Proof.
  induction ks as [|k ks IH]; cbn [filter flat_map]; auto.
  destruct (is_named k); cbn [negb flat_map].
  - rewrite <- app_assoc. apply Permutation_app_head. exact IH.
  - eapply Permutation_trans; [apply Permutation_app_head; exact IH|]. apply Permutation_app_swap_app.
Qed.

Lemma anon_no_named_open ks a b : Forall tleaf ks ->
  ~ In (GOpen a (Some b)) (flat_map gflat (filter (fun k => negb (is_named k)) ks)).
Proof.
  intros Hl Hi. apply in_flat_map in Hi. destruct Hi as (k & Hk & Hi). apply filter_In in Hk.
  destruct Hk as (Hk & Hn). rewrite Forall_forall in Hl. specialize (Hl k Hk).
  destruct k as [c [x|] ks' fs']; [discriminate|]. inversion Hl as [? ? ? ? Hnil _]; subst.
  rewrite (Hnil eq_refl) in Hi. simpl in Hi. destruct Hi as [Hi|Hi]; [discriminate|].
  apply in_app_or in Hi. destruct Hi as [Hi|[Hi|[]]]; [|discriminate].
  apply in_map_iff in Hi. destruct Hi as (? & ? & ?). discriminate.
Qed.

Lemma step_reset st sp F b : Inv st sp F -> wf_op sp (OReset b) = true ->
  exists st' F', step st (OReset b) = Some st' /\ Inv st' (spec_step sp (OReset b)) F' /\
                 incl (gfrags (G_of F')) (gfrags (G_of F)).
Proof.
  intros HI Hb. cbn [wf_op] in Hb.
  destruct (inv_lookup _ _ _ _ HI Hb) as (a & o & Ha & Ho).
  destruct st as [h hs]. cbn [st_heap st_handles] in *.
  pose proof HI as [HH Hd Hn]. cbn [st_heap st_handles] in *. pose proof HH as [Hr S Hroots Hleaf].
  destruct (locate hs F b a S Ha) as (pre & post & ks & fs & E1 & E2 & E3 & Hop & Hcl & E4).
  pose proof (sregion_locate sp F b pre post a ks fs Hd E1 Hop Hcl) as Hreg.
  pose proof (E3 _ Hr) as Hnode. inversion Hnode as [? ? ? ? o0 Hn0 Hc0 Hst0 Hm0 Hk0]; subst a0 n ks0 fs0.
  pose proof (E4 Hleaf) as HlN. inversion HlN as [? ? ? ? _ Hlk]; subst a0 n ks0 fs0.
  assert (HndN : NoDup (taddrs (Node a (Some b) ks fs))).
  { pose proof (si_nd _ _ S) as Hnd. rewrite E1, gaddrs_app in Hnd. apply NoDup_app_inv in Hnd.
    destruct Hnd as (_ & Hnd & _). rewrite gaddrs_app in Hnd. apply NoDup_app_inv in Hnd.
    destruct Hnd as (Hnd & _ & _). rewrite gaddrs_gflat in Hnd. exact Hnd. }
  set (NK := filter is_named ks).
  set (B := flat_map gflat (filter (fun k => negb (is_named k)) ks) ++ map GTxt fs).
  assert (HPG : Permutation (flat_map gflat F) (B ++ flat_map gflat (map (tupd a g_r) F ++ NK))).
  { rewrite flat_map_app, E2, E1. cbn [g_r fst snd].
    eapply Permutation_trans.
    - apply (perm_ctx pre [GOpen a (Some b); GClose a (Some b)] _ post (gbody ks fs)).
      rewrite gflat_node. apply Permutation_middle.
    - unfold gbody, B.
      eapply Permutation_trans; [apply Permutation_app_tail; apply Permutation_app_tail; apply filter_perm|].
      fold NK. rewrite <- !app_assoc.
      eapply Permutation_trans; [apply Permutation_app_comm|]. rewrite <- !app_assoc.
      apply Permutation_app_head. apply Permutation_app_head. rewrite !app_assoc.
      apply Permutation_app_tail. cbn [gflat flat_map map app]. rewrite <- !app_assoc. reflexivity. }
  exists (mkState (set_nth a empty_obj h) hs), (map (tupd a g_r) F ++ NK). split; [|split].
  3:{ unfold G_of. apply (Permutation_flat_map gfrag1) in HPG. intros f Hf.
      eapply Permutation_in; [apply Permutation_sym; exact HPG|].
      fold (gfrags (B ++ flat_map gflat (map (tupd a g_r) F ++ NK))).
      rewrite gfrags_app. apply in_or_app. right. exact Hf. }
  - cbn [step st_heap st_handles]. rewrite Ha. unfold h_reset. rewrite Ho. reflexivity.
  - split; [split|..]; cbn [st_heap st_handles].
    + apply Forall_app. split.
      * eapply rep_forest_tupd with (P := fun _ => True); eauto.
        -- eapply sinv_nd_taddrs; eauto.
        -- intros x Hx _. apply nth_set_nth_neq. auto.
        -- intros n ks0 fs0 Hr0 _ _. cbn [g_r fst snd].
           eapply rep_node with (o := empty_obj); try reflexivity; [|constructor].
           apply nth_set_nth_eq. eapply nth_error_lt; eauto.
      * apply Forall_forall. intros k Hk. unfold NK in Hk. apply filter_In in Hk. destruct Hk as (Hk & _).
        rewrite Forall_forall in Hk0. eapply rep_frame; [apply Hk0; exact Hk|].
        intros x Hx. apply nth_set_nth_neq. intro; subst x. simpl in HndN. inversion HndN as [|? ? Hni _]; subst.
        apply Hni. apply in_flat_map. eauto.
    + apply (sinv_remove hs B).
      * eapply sinv_perm; [exact HPG|exact S].
      * intros a' b' Hi. unfold B in Hi. apply in_app_or in Hi. destruct Hi as [Hi|Hi].
        -- eapply anon_no_named_open; eauto.
        -- apply in_map_iff in Hi. destruct Hi as (? & ? & ?). discriminate.
    + apply Forall_app. split; [apply roots_tupd; auto|].
      apply Forall_forall. intros k Hk. unfold NK in Hk. apply filter_In in Hk. destruct Hk as (_ & Hk).
      unfold is_named in Hk. unfold named_root. destruct (tname k) as [x|]; [eauto|discriminate].
    + apply Forall_app. split.
      * apply (leaf_sub_tupd hs a b _ F F S Ha (incl_refl F) Hleaf). intros. cbn [g_r fst]. constructor.
      * apply Forall_forall. intros k Hk. unfold NK in Hk. apply filter_In in Hk. destruct Hk as (Hk & _).
        rewrite Forall_forall in Hlk. auto.
    + cbn [spec_step]. rewrite Hreg. cbn [sp_docs]. rewrite (split_top_kids fs ks Hlk). fold NK.
      rewrite map_app. f_equal.
      rewrite Hd, !map_map. apply map_ext_in. intros t Ht. symmetry. eapply doc_clear; eauto.
    + cbn [spec_step]. rewrite Hreg. exact Hn.
Qed.

(* ---------- histories ---------- *)
Definition is_reset (o : op) : bool := match o with OReset _ => true | _ => false end.

Lemma step_inv st sp F o : Inv st sp F -> wf_op sp o = true ->
  exists st' F', step st o = Some st' /\ Inv st' (spec_step sp o) F' /\
    incl (gfrags (G_of F')) (written [o] ++ gfrags (G_of F)) /\
    (is_reset o = false -> Permutation (gfrags (G_of F')) (written [o] ++ gfrags (G_of F))).
Proof.
  intros HI Hwf.
  assert (Hgen : forall st' F', step st o = Some st' -> Inv st' (spec_step sp o) F' ->
            Permutation (gfrags (G_of F')) (written [o] ++ gfrags (G_of F)) ->
            exists st' F', step st o = Some st' /\ Inv st' (spec_step sp o) F' /\
              incl (gfrags (G_of F')) (written [o] ++ gfrags (G_of F)) /\
              (is_reset o = false -> Permutation (gfrags (G_of F')) (written [o] ++ gfrags (G_of F)))).
  { intros st' F' H1 H2 H3. exists st', F'. split; [exact H1|]. split; [exact H2|]. split; [|intros _; exact H3].
    intros f Hf. eapply Permutation_in; eauto. }
  destruct o as [|b|b s ms|b t|b|b].
  - destruct (step_new st sp F HI) as (st' & F' & H1 & H2 & H3). eapply Hgen; eauto.
  - destruct (step_point st sp F b HI Hwf) as (st' & F' & H1 & H2 & H3). eapply Hgen; eauto.
  - destruct (step_write st sp F b s ms HI Hwf) as (st' & F' & H1 & H2 & H3). eapply Hgen; eauto.
  - destruct (step_insert st sp F b t HI Hwf) as (st' & F' & H1 & H2 & H3). eapply Hgen; eauto.
  - destruct (step_commit st sp F b HI Hwf) as (st' & F' & H1 & H2 & H3). eapply Hgen; eauto.
  - destruct (step_reset st sp F b HI Hwf) as (st' & F' & H1 & H2 & H3). exists st', F'.
    split; [exact H1|]. split; [exact H2|]. split; [exact H3|discriminate].
Qed.

Lemma written_cons o r : written (o :: r) = written [o] ++ written r.
Proof. destruct o; simpl; auto. destruct (is_nil s); reflexivity. Qed.

Lemma run_inv : forall ops st sp F, Inv st sp F -> wf_hist sp ops = true ->
  exists st' F', fold_left ostep ops (Some st) = Some st' /\ Inv st' (fold_left spec_step ops sp) F' /\
    incl (gfrags (G_of F')) (gfrags (G_of F) ++ written ops) /\
    (has_reset ops = false -> Permutation (gfrags (G_of F')) (gfrags (G_of F) ++ written ops)).
Proof.
  induction ops as [|o r IH]; intros st sp F HI Hwf.
  - exists st, F. simpl. rewrite app_nil_r. split; [reflexivity|]. split; [exact HI|]. split; [apply incl_refl|intros _; reflexivity].
  - cbn [wf_hist] in Hwf. apply andb_true_iff in Hwf. destruct Hwf as (Hwo & Hwr).
    destruct (step_inv st sp F o HI Hwo) as (st1 & F1 & Hs & HI1 & Hincl1 & HP1).
    destruct (IH st1 (spec_step sp o) F1 HI1 Hwr) as (st2 & F2 & Hf & HI2 & Hincl2 & HP2).
    exists st2, F2. cbn [fold_left ostep]. rewrite Hs. split; [exact Hf|]. split; [exact HI2|]. split.
    + rewrite written_cons. intros f Hf2. apply Hincl2 in Hf2. apply in_app_or in Hf2.
      destruct Hf2 as [Hf2|Hf2].
      * apply Hincl1 in Hf2. apply in_app_or in Hf2. apply in_or_app. destruct Hf2; auto.
        right. apply in_or_app. auto.
      * apply in_or_app. right. apply in_or_app. auto.
    + intro Hres. unfold has_reset in Hres. cbn [existsb] in Hres. apply orb_false_iff in Hres.
      destruct Hres as (Hro & Hrr). rewrite written_cons.
      eapply Permutation_trans; [apply HP2; exact Hrr|].
      eapply Permutation_trans; [apply Permutation_app_tail; apply HP1; destruct o; auto; discriminate|].
      rewrite (app_assoc (gfrags (G_of F))). apply Permutation_app_tail. apply Permutation_app_comm.
Qed.

Lemma inv_init : Inv init_state init_spec [].
Proof.
  split; [split|..]; simpl; auto.
  split; simpl; try tauto.
  - constructor.
  - intros b a H. destruct b; discriminate.
Qed.

(* ---------- observations under the invariant ---------- *)
Definition obs_ok (st : state) (b : nat) (fs : list frag) : Prop :=
  getvalue st b = Some (texts_of fs) /\
  allmarkers st b = Some (marks_of fs) /\
  is_empty st b = Some (is_nil (texts_of fs)) /\
  exists cs, copyto st b = Some cs /\ concat cs = texts_of fs /\ Forall (fun c => c <> []) cs.

Lemma obs_node st b N : nth_error (st_handles st) b = Some (taddr N) -> rep (st_heap st) N ->
  NoDup (taddrs N) -> obs_ok st b (tfrags N).
Proof.
  intros Hb Hr Hnd.
  assert (Hfuel : theight N <= fuel_of st).
  { unfold fuel_of. pose proof (theight_le_size N). pose proof (size_le_heap _ _ Hr Hnd). lia. }
  assert (Hc : copyto st b = Some (tchunks N)).
  { unfold copyto. rewrite Hb. apply collect_rep; auto. }
  unfold obs_ok. repeat split.
  - unfold getvalue. rewrite Hc. cbn [option_map]. rewrite concat_tchunks. reflexivity.
  - unfold allmarkers. rewrite Hb. apply allmarkers_rep; auto.
  - unfold is_empty. rewrite Hb. apply empty_rep; auto.
  - exists (tchunks N). split; [exact Hc|]. split; [apply concat_tchunks|apply tchunks_nonempty].
Qed.

Lemma gfrags_node a n ks fs : gfrags (gflat (Node a n ks fs)) = gfrags (gbody ks fs).
Proof. rewrite gflat_node. cbn [gfrags flat_map gfrag1 app]. fold (gfrags (gbody ks fs ++ [GClose a n])).
  rewrite gfrags_app. simpl. apply app_nil_r. Qed.

Lemma obs_inv st sp F b : Inv st sp F -> b < sp_n sp ->
  exists body, sregion sp b = Some body /\ obs_ok st b (frags body) /\ incl (frags body) (gfrags (G_of F)).
Proof.
  intros HI Hb. pose proof HI as [[Hr S Hroots Hleaf] Hd Hn].
  destruct (handle_lookup _ b _ Hn (proj2 (Nat.ltb_lt _ _) Hb)) as (a & Ha).
  destruct (locate _ F b a S Ha) as (pre & post & ks & fs & E1 & _ & E3 & Hop & Hcl & _).
  exists (erase (gbody ks fs)). split; [eapply sregion_locate; eauto|].
  rewrite frags_erase, <- (gfrags_node a (Some b)), gfrags_gflat. split.
  - apply obs_node; auto.
    pose proof (si_nd _ _ S) as Hnd. rewrite E1, gaddrs_app in Hnd. apply NoDup_app_inv in Hnd.
    destruct Hnd as (_ & Hnd & _). rewrite gaddrs_app in Hnd. apply NoDup_app_inv in Hnd.
    destruct Hnd as (Hnd & _ & _). rewrite gaddrs_gflat in Hnd. exact Hnd.
  - rewrite <- gfrags_gflat. unfold G_of. rewrite E1, !gfrags_app. intros f Hf.
    apply in_or_app. right. apply in_or_app. auto.
Qed.

(* ---------- main theorems ---------- *)
Definition cw_op (o : op) : bool :=
  match o with OWrite _ s ms => Nat.eqb (length ms) (count_nl s) | _ => true end.

Definition line_frag (f : frag) : Prop := length (snd f) = count_nl (fst f).

Theorem refines_holes : forall ops, wf_hist init_spec ops = true ->
  exists st, run ops = Some st /\
    forall b, b < sp_n (spec_run ops) ->
      exists body, sregion (spec_run ops) b = Some body /\ obs_ok st b (frags body) /\
                   incl (frags body) (written ops).
Proof.
  intros ops Hwf. destruct (run_inv ops init_state init_spec [] inv_init Hwf) as (st & F & Hrun & HI & Hincl & _).
  exists st. split; [exact Hrun|]. intros b Hb.
  destruct (obs_inv st _ F b HI Hb) as (body & H1 & H2 & H3). exists body.
  split; [exact H1|]. split; [exact H2|]. intros f Hf. apply H3 in Hf. apply Hincl in Hf. exact Hf.
Qed.

Theorem exactly_once : forall ops, wf_hist init_spec ops = true -> has_reset ops = false ->
  Permutation (frags (concat (sp_docs (spec_run ops)))) (written ops).
Proof.
  intros ops Hwf Hres. destruct (run_inv ops init_state init_spec [] inv_init Hwf) as (st & F & _ & HI & _ & HP).
  destruct HI as [_ Hd _]. unfold spec_run. rewrite Hd, concat_docs, frags_erase. apply (HP Hres).
Qed.

Lemma count_nl_app s1 s2 : count_nl (s1 ++ s2) = count_nl s1 + count_nl s2.
Proof. induction s1; simpl; auto. rewrite IHs1. lia. Qed.

Lemma line_frags_len fs : Forall line_frag fs -> length (marks_of fs) = count_nl (texts_of fs).
Proof.
  unfold marks_of, texts_of. induction 1 as [|f fs Hf _ IH]; simpl; auto.
  rewrite app_length, count_nl_app, IH. unfold line_frag in Hf. lia.
Qed.

Lemma written_line ops : forallb cw_op ops = true -> Forall line_frag (written ops).
Proof.
  induction ops as [|o r IH]; simpl; intro H; [constructor|]. apply andb_true_iff in H. destruct H as (Ho & Hr).
  destruct o; auto. destruct (is_nil s); auto. constructor; auto. simpl in Ho. apply Nat.eqb_eq in Ho. exact Ho.
Qed.

(* marker k of a buffer belongs to line k of its text: text and markers are the concatenations over
   the same fragment list, and every fragment carries one marker per newline *)
Theorem markers_aligned : forall ops, wf_hist init_spec ops = true -> forallb cw_op ops = true ->
  exists st, run ops = Some st /\
    forall b, b < sp_n (spec_run ops) ->
      exists fs v m, getvalue st b = Some v /\ allmarkers st b = Some m /\
                     v = texts_of fs /\ m = marks_of fs /\ Forall line_frag fs /\ length m = count_nl v.
Proof.
  intros ops Hwf Hcw. destruct (refines_holes ops Hwf) as (st & Hrun & Hobs). exists st. split; auto.
  intros b Hb. destruct (Hobs b Hb) as (body & _ & (Hv & Hm & _) & Hincl).
  assert (HF : Forall line_frag (frags body)).
  { apply Forall_forall. intros f Hf. pose proof (written_line ops Hcw) as HW. rewrite Forall_forall in HW. auto. }
  exists (frags body), (texts_of (frags body)), (marks_of (frags body)). repeat split; auto.
  apply line_frags_len; auto.
Qed.

(* the assembled output: when all buffers have been inserted into one root r, getvalue r is the
   concatenation of all written fragments, each exactly once *)
Theorem final_output : forall ops d r, wf_hist init_spec ops = true -> has_reset ops = false ->
  sp_docs (spec_run ops) = [d] -> is_root r d = true ->
  exists st fs, run ops = Some st /\ getvalue st r = Some (texts_of fs) /\ allmarkers st r = Some (marks_of fs) /\
                fs = frags d /\ Permutation fs (written ops).
Proof.
  intros ops d r Hwf Hres Hdoc Hroot.
  destruct (run_inv ops init_state init_spec [] inv_init Hwf) as (st & F & Hrun & HI & _ & HP).
  specialize (HP Hres). destruct HI as [[Hr S Hroots Hleaf] Hd Hn]. unfold spec_run in Hdoc. rewrite Hdoc in Hd.
  destruct F as [|T [|T2 F]]; try discriminate. cbn [map] in Hd. inversion Hd as [Hd']. clear Hd. subst d.
  inversion Hroots as [|? ? (bT & HbT) _]; subst. destruct T as [aT nT ksT fsT]. simpl in HbT. subst nT.
  assert (bT = r). { simpl in Hroot. apply Nat.eqb_eq in Hroot. exact Hroot. }
  subst bT. set (T := Node aT (Some r) ksT fsT) in *.
  assert (Ha : nth_error (st_handles st) r = Some aT).
  { apply (si_l2 _ _ S). simpl. auto. }
  assert (Hnd : NoDup (taddrs T)).
  { pose proof (sinv_nd_taddrs _ _ S) as H. cbn [flat_map] in H. rewrite app_nil_r in H. exact H. }
  inversion Hr as [|? ? HrT _]; subst.
  destruct (obs_node st r T Ha HrT Hnd) as (Hv & Hm & _).
  exists st, (tfrags T). repeat split; auto.
  - rewrite frags_erase, gfrags_gflat. reflexivity.
  - rewrite <- gfrags_gflat. unfold G_of in HP. cbn [flat_map] in HP. rewrite app_nil_r in HP. exact HP.
Qed.

(* boundary of the marker assumption: markers appended without text (possible on the raw class,
   never done by CCodeWriter) are not committed by insertion_point and end up after the markers of
   the insertion point, although they were appended before it was made *)
Definition boundary_ops : list op := [ONew; OWrite 0 [] [7%N]; OPoint 0; OWrite 1 [120%N; 10%N] [9%N]].

Lemma markers_without_text_boundary :
  wf_hist init_spec boundary_ops = false /\
  option_map (fun st => allmarkers st 0) (run boundary_ops) = Some (Some [9%N; 7%N]).
Proof. vm_compute. split; reflexivity. Qed.

(* non-vacuity witness used by Prop/C49.v *)
Definition sample_ops : list op :=
  [ONew; OWrite 0 [97%N; 10%N] [1%N]; OPoint 0; OWrite 0 [99%N; 10%N] [3%N]; ONew;
   OWrite 2 [100%N] []; OInsert 1 2; OWrite 1 [98%N; 10%N] [2%N]; OCommit 0].
