(* C18 - the f-string part-list rewrites of the compiler preserve CPython's text and the observable
   formatting calls (proofs for Model/M_FStr.v). *)
From Coq Require Import List NArith Bool Arith Lia.
From CyVerif Require Import Model.M_FStr.
Import ListNotations.

(* operands as the run time sees them: the static class plays no role *)
Inductive fop := FVar (v : nat) | FInt (t : text) | FStr (t : text).
Definition erase (o : operand) : fop :=
  match o with OVar v _ => FVar v | OInt t => FInt t | OStr t => FStr t end.

Definition event := (nat * conv * text)%type.

Section Sem.
  (* CPython: the text of formatting operand o with conversion c and spec text t (format(conv(o), t));
     the value of a nested spec; the static class of every variable *)
  Variable fmt : fop -> conv -> text -> text.
  Variable dyn : nat -> text.
  Variable cls : nat -> vclass.

  Definition spec_text (s : spec) : text :=
    match s with SNone => [] | SLit t _ => t | SDyn id => dyn id end.

  (* --- CPython's meaning of a part list: text and the formatting calls on generic objects *)
  Definition ref_part (p : part) : text :=
    match p with PLit t => t | PPh o c s => fmt (erase o) c (spec_text s) end.
  Definition ref_ev (p : part) : list event :=
    match p with PPh (OVar v KObj) c s => [(v, c, spec_text s)] | _ => [] end.
  Definition ref_text (ps : list part) : text := concat (map ref_part ps).
  Definition ref_events (ps : list part) : list event := concat (map ref_ev ps).

  (* --- meaning of the rewritten node list: values are produced left to right, a CloneNode takes
     the text already produced for values[j] and formats nothing *)
  Definition ntext (done : list text) (n : node) : text :=
    match n with
    | NLit t => t
    | NName v => fmt (FVar v) CvNone []
    | NUni v => fmt (FVar v) CvS []
    | NFmt o c _ s => fmt (erase o) c (spec_text s)
    | NClone j => nth j done []
    end.
  Definition nev (n : node) : list event :=
    match n with NFmt (OVar v KObj) c _ s => [(v, c, spec_text s)] | _ => [] end.
  Fixpoint eval_from (done : list text) (l : list node) : list text :=
    match l with [] => done | n :: r => eval_from (done ++ [ntext done n]) r end.
  Definition eval_nodes (l : list node) : list text := eval_from [] l.
  Definition shape_text (sh : shape) : text := concat (eval_nodes (shape_nodes sh)).
  Definition shape_events (sh : shape) : list event := concat (map nev (shape_nodes sh)).

  (* --- well-formedness: the class written at a use of a variable is the class of that variable *)
  Definition wf_op (o : operand) : Prop := match o with OVar v k => k = cls v | _ => True end.
  Definition wf_part (p : part) : Prop := match p with PLit _ => True | PPh o _ _ => wf_op o end.
  Definition wf_node (n : node) : Prop := match n with NFmt o _ _ _ => wf_op o | _ => True end.
  Definition noclone (n : node) : Prop := match n with NClone _ => False | _ => True end.

  (* --- the facts about CPython the rewrites rely on *)
  Hypothesis Hint : forall t c, fmt (FInt t) c [] = t.
  Hypothesis Hstrc : forall t c, plain c = true -> fmt (FStr t) c [] = t.
  Hypothesis Hplain : forall v, cls v <> KObj -> fmt (FVar v) CvNone [] = fmt (FVar v) CvS [].

  (* ------------------------------------------------------------ fold *)
  Lemma norm_spec_text : forall s, spec_text (norm_spec s) = spec_text s.
  Proof. intros [|[|x t] a|id]; reflexivity. Qed.

  Lemma fold_part_text : forall p, ref_part (fold_part p) = ref_part p.
  Proof.
    intros [t|o c s]; [reflexivity|].
    destruct s as [|[|x t] a|id]; destruct o as [v k|t'|t']; cbn [fold_part norm_spec ref_part erase spec_text];
      try reflexivity; try (symmetry; apply Hint);
      destruct (plain c) eqn:P; cbn [ref_part erase spec_text]; try reflexivity; symmetry; apply Hstrc; assumption.
  Qed.

  Lemma fold_part_ev : forall p, ref_ev (fold_part p) = ref_ev p.
  Proof.
    intros [t|o c s]; [reflexivity|].
    destruct s as [|[|x t] a|id]; destruct o as [v k|t'|t']; cbn [fold_part norm_spec];
      try reflexivity; try (destruct k; reflexivity); destruct (plain c); reflexivity.
  Qed.

  Lemma fold_part_wf : forall p, wf_part p -> wf_part (fold_part p).
  Proof.
    intros [t|o c s] H; [exact I|]. unfold fold_part.
    destruct o as [v k|t|t]; destruct (norm_spec s); try exact H; try exact I.
    destruct (plain c); exact I.
  Qed.

  Lemma merge_text : forall l, ref_text (merge l) = ref_text l.
  Proof.
    unfold ref_text. induction l as [|p r IH]; [reflexivity|].
    destruct p as [t|o c s]; cbn [merge map concat]; [|now rewrite IH].
    rewrite <- IH. destruct (merge r) as [|[t'|o' c' s'] r'] eqn:M.
    - destruct t; cbn [map concat ref_part]; now rewrite ?app_nil_r.
    - cbn [map concat ref_part]. now rewrite app_assoc.
    - destruct t; reflexivity.
  Qed.

  Lemma merge_events : forall l, ref_events (merge l) = ref_events l.
  Proof.
    unfold ref_events. induction l as [|p r IH]; [reflexivity|].
    destruct p as [t|o c s]; cbn [merge map concat]; [|now rewrite IH].
    rewrite <- IH. cbn [ref_ev app]. destruct (merge r) as [|[t'|o' c' s'] r'] eqn:M.
    - destruct t; reflexivity.
    - reflexivity.
    - destruct t; reflexivity.
  Qed.

  Lemma merge_wf : forall l, Forall wf_part l -> Forall wf_part (merge l).
  Proof.
    induction l as [|p r IH]; intros H; [constructor|]. inversion H as [|? ? Hp Hr]; subst.
    specialize (IH Hr). destruct p as [t|o c s]; cbn [merge]; [|constructor; assumption].
    destruct (merge r) as [|[t'|o' c' s'] r'] eqn:M.
    - destruct t; repeat constructor.
    - inversion IH; subst. constructor; [exact I|assumption].
    - destruct t; [assumption|constructor; [exact I|assumption]].
  Qed.

  Lemma fold_text : forall ps, ref_text (fold ps) = ref_text ps.
  Proof.
    intros ps. unfold fold. rewrite merge_text. unfold ref_text. rewrite map_map.
    f_equal. apply map_ext. apply fold_part_text.
  Qed.

  Lemma fold_events : forall ps, ref_events (fold ps) = ref_events ps.
  Proof.
    intros ps. unfold fold. rewrite merge_events. unfold ref_events. rewrite map_map.
    f_equal. apply map_ext. apply fold_part_ev.
  Qed.

  Lemma fold_wf : forall ps, Forall wf_part ps -> Forall wf_part (fold ps).
  Proof.
    intros ps H. unfold fold. apply merge_wf. rewrite Forall_forall in *. intros p Hp.
    apply in_map_iff in Hp. destruct Hp as [q [<- Hq]]. apply fold_part_wf. auto.
  Qed.

  (* ------------------------------------------------------------ analyse *)
  Definition nt0 (n : node) : text := ntext [] n.

  Lemma ntext_noclone : forall done n, noclone n -> ntext done n = nt0 n.
  Proof. intros done [t|v|v|o c cf s|j] H; try reflexivity. destruct H. Qed.

  Lemma analyse_noclone : forall p, noclone (analyse p).
  Proof.
    intros [t|[v k|t|t] c s]; cbn [analyse]; try exact I.
    destruct k, s, (plain c); exact I.
  Qed.

  Lemma analyse_wf : forall p, wf_part p -> wf_node (analyse p).
  Proof.
    intros [t|[v k|t|t] c s] H; cbn [analyse]; try exact I.
    destruct k, s, (plain c); try exact I; exact H.
  Qed.

  Lemma plain_cases : forall c, plain c = true -> c = CvNone \/ c = CvS.
  Proof. intros [] H; try discriminate; auto. Qed.

  Lemma analyse_text : forall p, wf_part p -> nt0 (analyse p) = ref_part p.
  Proof.
    intros [t|[v k|t|t] c s] H; cbn [analyse]; try reflexivity.
    cbn [wf_part wf_op] in H.
    destruct k, s; try reflexivity; destruct (plain c) eqn:P; try reflexivity;
      destruct (plain_cases c P) as [-> | ->]; cbn [nt0 ntext ref_part erase spec_text]; try reflexivity;
      (apply Hplain || (symmetry; apply Hplain)); rewrite <- H; discriminate.
  Qed.

  Lemma analyse_ev : forall p, nev (analyse p) = ref_ev p.
  Proof.
    intros [t|[v k|t|t] c s]; cbn [analyse]; try reflexivity.
    destruct k, s, (plain c); reflexivity.
  Qed.

  Lemma eval_noclone : forall l done, Forall noclone l -> eval_from done l = done ++ map nt0 l.
  Proof.
    induction l as [|n r IH]; intros done H; cbn [eval_from map]; [now rewrite app_nil_r|].
    inversion H; subst. rewrite IH by assumption. rewrite ntext_noclone by assumption.
    now rewrite <- app_assoc.
  Qed.

  (* ------------------------------------------------------------ dedup *)
  Lemma text_eqb_eq : forall a b, text_eqb a b = true -> a = b.
  Proof.
    induction a as [|x a IH]; intros [|y b] H; try discriminate; [reflexivity|].
    cbn [text_eqb] in H. apply andb_prop in H. destruct H as [H1 H2].
    apply N.eqb_eq in H1. subst. f_equal. auto.
  Qed.

  Lemma conv_eqb_eq : forall a b, conv_eqb a b = true -> a = b.
  Proof. intros [] []; cbn; intros; congruence. Qed.

  Lemma key_eqb_parts : forall a b, key_eqb a b = true ->
    k_name a = k_name b /\ onat_eqb (k_spec a) (k_spec b) = true /\ k_conv a = k_conv b.
  Proof.
    intros a b H. unfold key_eqb in H.
    apply andb_prop in H. destruct H as [H Hc]. apply andb_prop in H. destruct H as [H Hs].
    apply andb_prop in H. destruct H as [Hn _].
    apply Nat.eqb_eq in Hn. apply conv_eqb_eq in Hc. auto.
  Qed.

  Lemma spec_id_same : forall i j s s', i <> j -> onat_eqb (spec_id i s) (spec_id j s') = true ->
    s = SNone /\ s' = SNone.
  Proof.
    intros i j s s' Hne H. destruct s, s'; cbn in H; try discriminate; auto;
      apply Nat.eqb_eq in H; contradiction.
  Qed.

  Lemma conv_or_s_cases : forall c c', conv_or_s c = conv_or_s c' ->
    c = c' \/ (plain c = true /\ plain c' = true).
  Proof. intros [] [] H; cbn in *; auto; discriminate. Qed.

  Lemma plain_fmt : forall v c c', cls v <> KObj -> plain c = true -> plain c' = true ->
    fmt (FVar v) c [] = fmt (FVar v) c' [].
  Proof.
    intros v c c' Hv P P'. destruct (plain_cases c P) as [-> | ->], (plain_cases c' P') as [-> | ->];
      auto; symmetry; auto.
  Qed.

  (* the key of the code as it is determines the text *)
  Lemma key_sound : forall i j n m k k',
    i <> j -> wf_node n -> wf_node m ->
    node_key kflags_real i n = Some k -> node_key kflags_real j m = Some k' ->
    key_eqb k k' = true -> nt0 n = nt0 m.
  Proof.
    intros i j n m k k' Hne Wn Wm Kn Km E.
    apply key_eqb_parts in E. destruct E as [En [Es Ec]].
    destruct n as [t|v|v|[v kc|t|t] c cf s|jj]; try discriminate Kn;
    destruct m as [t'|v'|v'|[v' kc'|t'|t'] c' cf' s'|jj']; try discriminate Km;
    cbn [node_key kflags_real kf_obj kf_conv andb] in Kn, Km.
    - (* NUni / NUni *)
      injection Kn as <-. injection Km as <-. cbn in En. subst. reflexivity.
    - (* NUni / NFmt *)
      destruct (is_obj kc') eqn:O; [discriminate|].
      injection Kn as <-. injection Km as <-. cbn in En, Es, Ec. subst v'.
      destruct s'; try discriminate Es.
      cbn [nt0 ntext erase spec_text]. cbn [wf_node wf_op] in Wm.
      apply plain_fmt; [rewrite <- Wm; destruct kc'; discriminate| reflexivity |].
      destruct c'; try discriminate Ec; reflexivity.
    - (* NFmt / NUni *)
      destruct (is_obj kc) eqn:O; [discriminate|].
      injection Kn as <-. injection Km as <-. cbn in En, Es, Ec. subst v'.
      destruct s; try discriminate Es.
      cbn [nt0 ntext erase spec_text]. cbn [wf_node wf_op] in Wn.
      apply plain_fmt; [rewrite <- Wn; destruct kc; discriminate| | reflexivity].
      destruct c; try discriminate Ec; reflexivity.
    - (* NFmt / NFmt *)
      destruct (is_obj kc) eqn:O; [discriminate|]. destruct (is_obj kc') eqn:O'; [discriminate|].
      injection Kn as <-. injection Km as <-. cbn in En, Es, Ec. subst v'.
      destruct (spec_id_same i j s s' Hne Es) as [-> ->].
      cbn [nt0 ntext erase spec_text]. cbn [wf_node wf_op] in Wn.
      destruct (conv_or_s_cases c c' Ec) as [-> | [P P']]; [reflexivity|].
      apply plain_fmt; auto. rewrite <- Wn. destruct kc; discriminate.
  Qed.

  Definition seen_ok (seen : list (dkey * nat)) (pre : list node) : Prop :=
    Forall (fun e => exists n, nth_error pre (snd e) = Some n /\ node_key kflags_real (snd e) n = Some (fst e)) seen.

  Lemma lookup_in : forall k seen j, lookup k seen = Some j ->
    exists k', In (k', j) seen /\ key_eqb k k' = true.
  Proof.
    induction seen as [|[k' j'] r IH]; intros j H; [discriminate|]. cbn [lookup] in H.
    destruct (key_eqb k k') eqn:E.
    - injection H as <-. exists k'. split; [left; reflexivity|assumption].
    - destruct (IH j H) as [k'' [I E']]. exists k''. split; [right; assumption|assumption].
  Qed.

  Lemma seen_ok_ext : forall seen pre n, seen_ok seen pre -> seen_ok seen (pre ++ [n]).
  Proof.
    intros seen pre n H. unfold seen_ok in *. rewrite Forall_forall in *. intros e He.
    destruct (H e He) as [m [N K]]. exists m. split; [|assumption].
    rewrite nth_error_app1; [assumption|]. apply nth_error_Some. congruence.
  Qed.

  Lemma dedup_sound : forall rest pre seen,
    Forall noclone rest -> Forall wf_node pre -> Forall wf_node rest -> seen_ok seen pre ->
    eval_from (map nt0 pre) (dedup_from kflags_real (length pre) seen rest) = map nt0 (pre ++ rest).
  Proof.
    induction rest as [|n r IH]; intros pre seen Hnc Wp Wr Hs.
    - cbn [dedup_from eval_from]. now rewrite app_nil_r.
    - inversion Hnc as [|? ? Hn Hncr]; subst. inversion Wr as [|? ? Wn Wrr]; subst.
      assert (Wp' : Forall wf_node (pre ++ [n])) by (apply Forall_app; split; [assumption|repeat constructor; assumption]).
      assert (L : length (pre ++ [n]) = S (length pre)) by (rewrite app_length; cbn; lia).
      assert (R : map nt0 (pre ++ n :: r) = map nt0 ((pre ++ [n]) ++ r)) by (now rewrite <- app_assoc).
      assert (M : map nt0 pre ++ [nt0 n] = map nt0 (pre ++ [n])) by (now rewrite map_app).
      cbn [dedup_from]. destruct (node_key kflags_real (length pre) n) as [k|] eqn:K.
      + destruct (lookup k seen) as [j|] eqn:Lk.
        * destruct (lookup_in _ _ _ Lk) as [k' [I E]].
          unfold seen_ok in Hs. rewrite Forall_forall in Hs. destruct (Hs _ I) as [m [N Km]]. cbn [fst snd] in N, Km.
          assert (Hj : j < length pre) by (apply nth_error_Some; congruence).
          assert (Wm : wf_node m) by (rewrite Forall_forall in Wp; apply Wp; eapply nth_error_In; eassumption).
          assert (T : nt0 n = nt0 m) by (eapply (key_sound (length pre) j); eauto; lia).
          cbn [eval_from ntext]. rewrite R, <- L, <- (IH (pre ++ [n]) seen); auto.
          -- f_equal. rewrite <- M. f_equal. f_equal. rewrite T.
             rewrite (nth_indep _ [] (nt0 (NLit []))) by (rewrite map_length; assumption).
             rewrite map_nth. f_equal. apply nth_error_nth with (d := NLit []) in N. assumption.
          -- apply seen_ok_ext. unfold seen_ok. rewrite Forall_forall. assumption.
        * cbn [eval_from]. rewrite ntext_noclone by assumption. rewrite R, M, <- L.
          apply IH; auto. unfold seen_ok. constructor.
          -- cbn [fst snd]. exists n. split; [|assumption].
             rewrite nth_error_app2 by lia. now rewrite Nat.sub_diag.
          -- apply seen_ok_ext. assumption.
      + cbn [eval_from]. rewrite ntext_noclone by assumption. rewrite R, M, <- L.
        apply IH; auto. apply seen_ok_ext. assumption.
  Qed.

  Lemma dedup_text : forall l, Forall noclone l -> Forall wf_node l ->
    eval_nodes (dedup kflags_real l) = map nt0 l.
  Proof.
    intros l Hn Hw. unfold eval_nodes, dedup.
    apply (dedup_sound l [] []); auto. constructor.
  Qed.

  (* a value that is replaced by a clone formats nothing observable *)
  Lemma keyed_no_event : forall i n k, node_key kflags_real i n = Some k -> nev n = [].
  Proof.
    intros i [t|v|v|[v kc|t|t] c cf s|j] k H; try reflexivity.
    cbn [node_key kflags_real kf_obj andb] in H. destruct kc; try reflexivity. discriminate.
  Qed.

  Lemma dedup_events : forall l i seen,
    concat (map nev (dedup_from kflags_real i seen l)) = concat (map nev l).
  Proof.
    induction l as [|n r IH]; intros i seen; [reflexivity|]. cbn [dedup_from].
    destruct (node_key kflags_real i n) as [k|] eqn:K.
    - destruct (lookup k seen); cbn [map concat]; rewrite IH; [|reflexivity].
      rewrite (keyed_no_event _ _ _ K). reflexivity.
    - cbn [map concat]. now rewrite IH.
  Qed.

  (* ------------------------------------------------------------ main theorem *)
  Lemma shape_of_text : forall l, Forall noclone l -> Forall wf_node l ->
    eval_nodes (shape_nodes (shape_of kflags_real l)) = map nt0 l.
  Proof.
    intros l Hn Hw. destruct l as [|a [|b [|c r]]]; cbn [shape_of shape_nodes].
    - reflexivity.
    - unfold eval_nodes. now rewrite eval_noclone.
    - unfold eval_nodes. now rewrite eval_noclone.
    - now apply dedup_text.
  Qed.

  Lemma shape_of_events : forall l,
    concat (map nev (shape_nodes (shape_of kflags_real l))) = concat (map nev l).
  Proof.
    intros l. destruct l as [|a [|b [|c r]]]; cbn [shape_of shape_nodes]; try reflexivity.
    apply dedup_events.
  Qed.

  Theorem optimise_correct : forall ps, Forall wf_part ps ->
    shape_text (optimise kflags_real ps) = ref_text ps /\
    shape_events (optimise kflags_real ps) = ref_events ps.
  Proof.
    intros ps W. pose proof (fold_wf ps W) as Wf. unfold optimise, shape_text, shape_events. split.
    - rewrite shape_of_text.
      + rewrite <- fold_text. unfold ref_text. rewrite map_map. f_equal.
        apply map_ext_in. intros p Hp. apply analyse_text. rewrite Forall_forall in Wf. auto.
      + rewrite Forall_forall. intros n Hn. apply in_map_iff in Hn. destruct Hn as [p [<- _]]. apply analyse_noclone.
      + rewrite Forall_forall. intros n Hn. apply in_map_iff in Hn. destruct Hn as [p [<- Hp]].
        apply analyse_wf. rewrite Forall_forall in Wf. auto.
    - rewrite shape_of_events. rewrite <- fold_events. unfold ref_events. rewrite map_map. f_equal.
      apply map_ext. apply analyse_ev.
  Qed.

  Theorem optimise_inner_correct : forall ps, Forall wf_part ps ->
    shape_text (optimise_inner ps) = ref_text ps /\ shape_events (optimise_inner ps) = ref_events ps.
  Proof.
    intros ps W. pose proof (fold_wf ps W) as Wf.
    assert (Hn : Forall noclone (map analyse (fold ps))).
    { rewrite Forall_forall. intros n Hn. apply in_map_iff in Hn. destruct Hn as [p [<- _]]. apply analyse_noclone. }
    assert (E : shape_nodes (optimise_inner ps) = map analyse (fold ps)).
    { unfold optimise_inner. destruct (map analyse (fold ps)) as [|a [|b [|c r]]]; reflexivity. }
    unfold shape_text, shape_events. rewrite E. split.
    - unfold eval_nodes. rewrite eval_noclone by assumption. cbn [app].
      rewrite <- fold_text. unfold ref_text. rewrite map_map. f_equal.
      apply map_ext_in. intros p Hp. apply analyse_text. rewrite Forall_forall in Wf. auto.
    - rewrite <- fold_events. unfold ref_events. rewrite map_map. f_equal. apply map_ext. apply analyse_ev.
  Qed.

  (* literal merging on its own: no two adjacent literals, no empty literal remain *)
  Fixpoint merged (l : list part) : Prop :=
    match l with
    | [] => True
    | PLit t :: r => t <> [] /\ match r with PLit _ :: _ => False | _ => True end /\ merged r
    | _ :: r => merged r
    end.

  Lemma merge_merged : forall l, merged (merge l).
  Proof.
    induction l as [|p r IH]; [exact I|]. destruct p as [t|o c s]; cbn [merge]; [|exact IH].
    destruct (merge r) as [|[t'|o' c' s'] r'] eqn:M.
    - destruct t; cbn; auto. split; [discriminate|auto].
    - cbn [merged] in IH |- *. destruct IH as [Ne [Adj Mr]]. split; [|split; assumption].
      destruct t; cbn; [assumption|discriminate].
    - destruct t; [exact IH|]. cbn [merged]. split; [discriminate|]. split; [exact I|exact IH].
  Qed.
End Sem.

(* ------------------------------------------------------------ the variants that are wrong *)
Definition w_fmt (o : fop) (c : conv) (t : text) : text :=
  match o, c with
  | FVar _, CvR => [39; 97; 39]%N          (* repr: quoted *)
  | FVar _, _ => [97]%N
  | FInt s, _ => s
  | FStr s, _ => s
  end.
Definition w_cls_str (_ : nat) : vclass := KStrOpt.
Definition w_cls_obj (_ : nat) : vclass := KObj.
Definition w_dyn (_ : nat) : text := [].

(* f"{s!r}={s}|" with a str argument s *)
Definition w_parts_conv : list part :=
  [PPh (OVar 0 KStrOpt) CvR SNone; PLit [61%N]; PPh (OVar 0 KStrOpt) CvNone SNone; PLit [124%N]].

Lemma key_without_conversion_refuted :
  Forall (wf_part w_cls_str) w_parts_conv /\
  (forall t c, w_fmt (FInt t) c [] = t) /\ (forall t c, plain c = true -> w_fmt (FStr t) c [] = t) /\
  (forall v, w_cls_str v <> KObj -> w_fmt (FVar v) CvNone [] = w_fmt (FVar v) CvS []) /\
  shape_text w_fmt w_dyn (optimise (mk_kflags false true) w_parts_conv) <> ref_text w_fmt w_dyn w_parts_conv.
Proof.
  split; [repeat constructor|]. split; [reflexivity|]. split; [reflexivity|]. split; [reflexivity|].
  vm_compute. discriminate.
Qed.

(* f"{o}|{o}|" with a generic object: de-duplicating it drops a __format__ call *)
Definition w_parts_obj : list part :=
  [PPh (OVar 0 KObj) CvNone SNone; PLit [124%N]; PPh (OVar 0 KObj) CvNone SNone; PLit [124%N]].

Lemma object_dedup_refuted :
  Forall (wf_part w_cls_obj) w_parts_obj /\
  shape_events w_dyn (optimise (mk_kflags true false) w_parts_obj) <> ref_events w_dyn w_parts_obj.
Proof. split; [repeat constructor|]. vm_compute. discriminate. Qed.

(* ------------------------------------------------------------ the kind handed to the join *)
(* f"{v:3c}|{v:3c}|x" with a C int v = 0x20AC: as written the padded c value is taken for ASCII, the
   result is allocated for ASCII characters; with the repaired test it is wide enough *)
Definition w_nodes_kind : list node :=
  [NFmt (OVar 0 KCInt) CvNone (Some [51; 99]%N) (SLit [51; 99]%N true); NLit [124%N];
   NFmt (OVar 0 KCInt) CvNone (Some [51; 99]%N) (SLit [51; 99]%N true); NLit [124; 120]%N].
Definition w_texts_kind : list text := [[32; 32; 8364]; [124]; [32; 32; 8364]; [124; 120]]%N.

Lemma padded_c_kind_refuted :
  exists c, In c (concat w_texts_kind) /\ N.ltb (max_char (join_kind false w_nodes_kind w_texts_kind)) c = true.
Proof. exists 8364%N. split; [vm_compute; auto|reflexivity]. Qed.

Lemma padded_c_kind_repaired_witness :
  forallb (fun c => N.leb c (max_char (join_kind true w_nodes_kind w_texts_kind))) (concat w_texts_kind) = true.
Proof. reflexivity. Qed.
