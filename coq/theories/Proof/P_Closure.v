(* Closure conversion is correct: the scope-object scheme (M_Closure.run_scopes) simulates CPython's cell
   scheme (MiniPy.run_cells) on every MiniPy program, for every fuel. *)
From Coq Require Import ZArith List Bool Lia PeanoNat.
From CyVerif Require Import Lib.MiniPy Model.M_Closure.
Import ListNotations.

(* ---------- small facts on the list helpers ---------- *)
Lemma mem_In : forall x l, mem x l = true <-> In x l.
Proof.
  induction l as [|y r IH]; simpl; [split; [discriminate|tauto]|].
  destruct (Nat.eqb_spec x y) as [->|N]; [tauto|].
  rewrite IH. split; [tauto|intros [E|I]; [congruence|auto]].
Qed.

Lemma memb_In : forall b x l, memb b x l = true <-> In (b, x) l.
Proof.
  induction l as [|[c y] r IH]; simpl; [split; [discriminate|tauto]|].
  destruct (Bool.eqb b c && Nat.eqb x y) eqn:E.
  - apply andb_prop in E as [E1 E2]. apply Bool.eqb_prop in E1. apply Nat.eqb_eq in E2. subst. tauto.
  - rewrite IH. split; [tauto|]. intros [Q|I]; [|auto]. inversion Q; subst.
    rewrite Bool.eqb_reflx, Nat.eqb_refl in E. discriminate.
Qed.

Lemma assoc_map_none : forall x (l : list ident),
  assoc x (map (fun y => (y, @None value)) l) = if mem x l then Some None else None.
Proof.
  induction l as [|y r IH]; simpl; [reflexivity|].
  destruct (Nat.eqb x y); [reflexivity|exact IH].
Qed.

Lemma cget_alloc : forall a l h m x,
  cget (fold_right (fun y h0 => cset h0 a y None) h l) m x
  = if Nat.eqb m a && mem x l then Some None else cget h m x.
Proof.
  induction l as [|y r IH]; intros; simpl.
  - rewrite andb_false_r. reflexivity.
  - rewrite IH. destruct (Nat.eqb m a); simpl; [|reflexivity].
    destruct (Nat.eqb x y); reflexivity.
Qed.

(* ---------- the two static analyses agree ---------- *)
Lemma has_owner_found : forall ctx x, has_owner ctx x = found (lookup_outer ctx x).
Proof.
  induction ctx as [|p r IH]; intros; simpl; [reflexivity|].
  destruct (mem x (si_locals p)); [reflexivity|].
  destruct (mem x (si_globals p)); [reflexivity|].
  rewrite IH. destruct (lookup_outer r x); reflexivity.
Qed.

Lemma in_cfree : forall i x, In x (cfree i) <->
  In x (map snd (si_refs i)) /\ mem x (si_locals i) = false /\ mem x (si_globals i) = false.
Proof.
  intros. unfold cfree. rewrite filter_In.
  destruct (mem x (si_locals i)), (mem x (si_globals i)); simpl; intuition congruence.
Qed.

Lemma in_cells : forall i x, In x (si_cells i) <-> In x (si_locals i) /\ In (true, x) (si_refs i).
Proof. intros. unfold si_cells. rewrite filter_In, memb_In. tauto. Qed.

Lemma own_of_cell : forall i x, In x (si_cells i) -> own_scope i = true.
Proof. intros i x I. unfold own_scope. destruct (si_cells i); [destruct I|reflexivity]. Qed.

Lemma nested_in : forall i x, In x (cfree i) -> In (true, x) (nested i).
Proof. intros. unfold nested. apply in_map. assumption. Qed.

(* ---------- scope heap facts ---------- *)
Definition ext (h h' : sheap) : Prop :=
  forall m ob, sfind h m = Some ob ->
    exists ob', sfind h' m = Some ob' /\ so_outer ob' = so_outer ob /\
                (forall x, assoc x (so_vars ob) <> None -> assoc x (so_vars ob') <> None).

Lemma ext_refl : forall h, ext h h.
Proof. intros h m ob F. exists ob. auto. Qed.

Lemma ext_trans : forall a b c, ext a b -> ext b c -> ext a c.
Proof.
  intros a b c A B m ob F. destruct (A _ _ F) as (o1 & F1 & O1 & V1).
  destruct (B _ _ F1) as (o2 & F2 & O2 & V2). exists o2. repeat split; [assumption|congruence|auto].
Qed.

Lemma ext_sset : forall h m x v, ext h (sset h m x v).
Proof.
  intros h m x v m' ob F. unfold sset. destruct (sfind h m) as [o|] eqn:E; [|exists ob; auto].
  simpl. destruct (Nat.eqb_spec m' m) as [->|N].
  - rewrite E in F. inversion F; subst. eexists. split; [reflexivity|]. simpl. split; [reflexivity|].
    intros y. destruct (Nat.eqb y x); [discriminate|auto].
  - exists ob. auto.
Qed.

Lemma ext_alloc : forall h a ob, sfind h a = None -> ext h ((a, ob) :: h).
Proof.
  intros h a ob N m o F. simpl. destruct (Nat.eqb_spec m a) as [->|D]; [congruence|].
  exists o. auto.
Qed.

Lemma walk_ext : forall h h', ext h h' -> forall k p m, walk h k p = Some m -> walk h' k p = Some m.
Proof.
  intros h h' E. induction k as [|k IH]; intros p m W; simpl in *; [assumption|].
  destruct p as [q|]; [|discriminate]. destruct (sfind h q) as [ob|] eqn:F; [|discriminate].
  destruct (E _ _ F) as (ob' & F' & O & _). rewrite F', O. apply IH. assumption.
Qed.

Lemma sget_ext : forall h h', ext h h' -> forall m x, sget h m x <> None -> sget h' m x <> None.
Proof.
  intros h h' E m x. unfold sget. destruct (sfind h m) as [ob|] eqn:F; [|congruence].
  destruct (E _ _ F) as (ob' & F' & _ & V). rewrite F'. apply V.
Qed.

Lemma sget_sset : forall h m0 x0 v m x, sget h m0 x0 <> None ->
  sget (sset h m0 x0 v) m x = if Nat.eqb m m0 && Nat.eqb x x0 then Some v else sget h m x.
Proof.
  intros h m0 x0 v m x. unfold sget at 1, sset. destruct (sfind h m0) as [ob|] eqn:F; [|congruence].
  intros _. unfold sget. simpl. destruct (Nat.eqb_spec m m0) as [->|N]; simpl.
  - rewrite F. destruct (Nat.eqb x x0); reflexivity.
  - reflexivity.
Qed.

Lemma sfind_sset_none : forall h m0 x0 v m, sfind h m = None -> sfind (sset h m0 x0 v) m = None.
Proof.
  intros h m0 x0 v m N. unfold sset. destruct (sfind h m0) eqn:F; [|assumption].
  simpl. destruct (Nat.eqb_spec m m0) as [->|D]; [congruence|assumption].
Qed.

(* ---------- the simulation relation ---------- *)
Definition heap_rel (hc : cellheap) (hs : sheap) : Prop := forall m x, cget hc m x = sget hs m x.

(* the cell map [cm] and the pointer [ptr] lead to the same slots: following k hops from ptr reaches
   the activation that owns x in the cell map *)
Definition cap_ok (hs : sheap) (i : scope_info) (ctx : sctx) (cm : list (ident * nat))
           (hop : nat -> nat) (ptr : option nat) : Prop :=
  forall x k, In x (cfree i) -> lookup_outer ctx x = Some k ->
    exists m, assoc x cm = Some m /\ walk hs (hop k) ptr = Some m /\ sget hs m x <> None.

Definition fun_rel (hs : sheap) (cf : fn cC) (sf : fn sC) : Prop :=
  fn_ps cf = fn_ps sf /\ fn_body cf = fn_body sf /\ fn_info cf = fn_info sf /\ fn_ctx cf = fn_ctx sf /\
  incl (flat_map refs_s (fn_body cf)) (si_refs (fn_info cf)) /\
  (forall p, In p (fn_ps cf) -> mem p (si_locals (fn_info cf)) = true) /\
  cap_ok hs (fn_info cf) (fn_ctx cf) (fn_cap cf) (fun k => k) (fn_cap sf).

Definition frame_rel (hs : sheap) (fc : frame cX) (fs : frame sX) : Prop :=
  f_info fc = f_info fs /\ f_ctx fc = f_ctx fs /\ f_fast fc = f_fast fs /\
  (own_scope (f_info fc) = true -> f_x fs = Some (snd (f_x fc))) /\
  (forall x, In x (si_cells (f_info fc)) -> sget hs (snd (f_x fc)) x <> None) /\
  cap_ok hs (f_info fc) (f_ctx fc) (fst (f_x fc))
         (fun k => if own_scope (f_info fc) then S k else k) (f_x fs).

Definition cstate := state cellheap cC.
Definition sstate := state sheap sC.

Definition state_rel (sc : cstate) (ss : sstate) : Prop :=
  g_glob sc = g_glob ss /\ g_trace sc = g_trace ss /\ g_next sc = g_next ss /\
  heap_rel (g_heap sc) (g_heap ss) /\
  Forall2 (fun_rel (g_heap ss)) (g_funs sc) (g_funs ss) /\
  (forall m, g_next ss <= m -> sfind (g_heap ss) m = None).

Lemma cap_ok_ext : forall h h' i ctx cm hop p, ext h h' -> cap_ok h i ctx cm hop p -> cap_ok h' i ctx cm hop p.
Proof.
  intros h h' i ctx cm hop p E C x k I L. destruct (C x k I L) as (m & A & W & G).
  exists m. split; [assumption|]. split; [eapply walk_ext; eassumption|eapply sget_ext; eassumption].
Qed.

Lemma fun_rel_ext : forall h h' cf sf, ext h h' -> fun_rel h cf sf -> fun_rel h' cf sf.
Proof.
  intros h h' cf sf E (A & B & C & D & I & P & K). repeat split; try assumption.
  eapply cap_ok_ext; eassumption.
Qed.

Lemma funs_rel_ext : forall h h' l1 l2, ext h h' ->
  Forall2 (fun_rel h) l1 l2 -> Forall2 (fun_rel h') l1 l2.
Proof. intros h h' l1 l2 E F. induction F; constructor; [eapply fun_rel_ext; eassumption|assumption]. Qed.

Lemma frame_rel_ext : forall h h' fc fs, ext h h' -> frame_rel h fc fs -> frame_rel h' fc fs.
Proof.
  intros h h' fc fs E (A & B & C & O & S & K). repeat split; try assumption.
  - intros x I. eapply sget_ext; [eassumption|]. apply S. assumption.
  - eapply cap_ok_ext; eassumption.
Qed.

(* ---------- name resolution agrees ---------- *)
Lemma loc_agree : forall hs hc fc fs x,
  frame_rel hs fc fs ->
  (mem x (si_locals (f_info fc)) = false -> mem x (si_globals (f_info fc)) = false ->
   In x (map snd (si_refs (f_info fc)))) ->
  c_loc fc hc x = s_loc fs hs x.
Proof.
  intros hs hc fc fs x (A & B & C & O & S & K) R.
  unfold c_loc, s_loc, classify, cy_lookup. rewrite <- A, <- B.
  destruct (mem x (si_locals (f_info fc))) eqn:L.
  - unfold is_cell. destruct (mem x (si_cells (f_info fc))) eqn:Cl; [|reflexivity].
    apply mem_In in Cl. rewrite (O (own_of_cell _ _ Cl)). reflexivity.
  - destruct (mem x (si_globals (f_info fc))) eqn:G; [reflexivity|].
    rewrite has_owner_found. destruct (lookup_outer (f_ctx fc) x) as [k|] eqn:LO; simpl; [|reflexivity].
    assert (I : In x (cfree (f_info fc))) by (apply in_cfree; auto).
    destruct (K x k I LO) as (m & As & W & _). rewrite As, W. reflexivity.
Qed.

(* ---------- relating results ---------- *)
Section Sim.
Variable fx : bool.     (* delglob_fixed *)
Notation CO := cells_ops.
Notation SO := (scopes_ops fx).

Definition exn_rel (ec es : exc) : Prop :=
  ec = es \/ (fx = false /\ ec = NameError /\ es = AttributeError).

Definition res_rel {A B : Type} (P : A -> cstate -> B -> sstate -> Prop)
           (rc : res cstate A) (rs : res sstate B) : Prop :=
  match rc, rs with
  | Ok a sc, Ok b ss => P a sc b ss
  | Exn ec sc, Exn es ss => exn_rel ec es /\ g_trace sc = g_trace ss
  | OutOfFuel, OutOfFuel => True
  | Stuck, Stuck => True
  | _, _ => False
  end.

Lemma bind_rel : forall {A B A' B' : Type} (P : A -> cstate -> B -> sstate -> Prop)
    (Q : A' -> cstate -> B' -> sstate -> Prop) rc rs kc ks,
  res_rel P rc rs ->
  (forall a sc b ss, P a sc b ss -> res_rel Q (kc a sc) (ks b ss)) ->
  res_rel Q (bind rc kc) (bind rs ks).
Proof.
  intros A B A' B' P Q rc rs kc ks R K.
  destruct rc, rs; simpl in *; try contradiction; auto.
Qed.

Lemma res_rel_imp : forall {A B : Type} (P Q : A -> cstate -> B -> sstate -> Prop) rc rs,
  res_rel P rc rs -> (forall a sc b ss, P a sc b ss -> Q a sc b ss) -> res_rel Q rc rs.
Proof. intros A B P Q rc rs R I. destruct rc, rs; simpl in *; auto. Qed.

(* value results: equal values, related states, the scope heap only grew *)
Definition okv (h0 : sheap) (v : value) (sc : cstate) (v' : value) (ss : sstate) : Prop :=
  v = v' /\ state_rel sc ss /\ ext h0 (g_heap ss).
Definition okl (h0 : sheap) (v : list value) (sc : cstate) (v' : list value) (ss : sstate) : Prop :=
  v = v' /\ state_rel sc ss /\ ext h0 (g_heap ss).
(* statement results: same control flow, related frames with unchanged static data *)
Definition okf (h0 : sheap) (i0 : scope_info) (q : frame cX * flow) (sc : cstate)
           (q' : frame sX * flow) (ss : sstate) : Prop :=
  snd q = snd q' /\ frame_rel (g_heap ss) (fst q) (fst q') /\ f_info (fst q) = i0 /\
  state_rel sc ss /\ ext h0 (g_heap ss).

Lemma state_rel_trace : forall sc ss, state_rel sc ss -> g_trace sc = g_trace ss.
Proof. intros sc ss (_ & T & _). exact T. Qed.

(* ---------- load / store / delete ---------- *)
Definition refd (fc : frame cX) (x : ident) : Prop :=
  mem x (si_locals (f_info fc)) = false -> mem x (si_globals (f_info fc)) = false ->
  In x (map snd (si_refs (f_info fc))).

Lemma load_agree : forall fc fs sc ss x,
  frame_rel (g_heap ss) fc fs -> state_rel sc ss -> refd fc x ->
  load CO fc sc x = load SO fs ss x.
Proof.
  intros fc fs sc ss x FR SR R. unfold load. simpl.
  rewrite (loc_agree (g_heap ss) (g_heap sc) fc fs x FR R).
  destruct SR as (G & _ & _ & H & _). destruct FR as (_ & _ & F & _).
  destruct (s_loc fs (g_heap ss) x) as [[| |m free]|]; try reflexivity.
  - rewrite G. reflexivity.
  - rewrite F. reflexivity.
  - rewrite (H m x). reflexivity.
Qed.

Lemma state_rel_set_heap : forall sc ss m x v,
  state_rel sc ss -> sget (g_heap ss) m x <> None ->
  state_rel (set_heap sc (cset (g_heap sc) m x v)) (set_heap ss (sset (g_heap ss) m x v)).
Proof.
  intros sc ss m x v (G & T & N & H & F & Fr) E. unfold state_rel, set_heap; simpl.
  repeat split; try assumption.
  - intros m' x'. simpl. rewrite sget_sset by assumption. rewrite (H m' x'). reflexivity.
  - eapply funs_rel_ext; [apply ext_sset|assumption].
  - intros m' L. apply sfind_sset_none. apply Fr. assumption.
Qed.

Lemma state_rel_set_glob : forall sc ss g,
  state_rel sc ss -> state_rel (set_glob sc g) (set_glob ss g).
Proof. intros sc ss g (G & T & N & H & F & Fr). unfold state_rel, set_glob; simpl. tauto. Qed.

Lemma frame_rel_set_fast : forall h fc fs e,
  frame_rel h fc fs -> frame_rel h (set_fast fc e) (set_fast fs e).
Proof. intros h fc fs e (A & B & C & O & S & K). unfold frame_rel, set_fast; simpl. tauto. Qed.

Definition post (fc : frame cX) (ss : sstate) (fc' : frame cX) (sc' : cstate) (fs' : frame sX) (ss' : sstate) :=
  frame_rel (g_heap ss') fc' fs' /\ f_info fc' = f_info fc /\ state_rel sc' ss' /\
  ext (g_heap ss) (g_heap ss').

Lemma store_agree : forall fc fs sc ss x v,
  frame_rel (g_heap ss) fc fs -> state_rel sc ss -> refd fc x ->
  match store CO fc sc x v, store SO fs ss x v with
  | Some (fc', sc'), Some (fs', ss') => post fc ss fc' sc' fs' ss'
  | None, None => True
  | _, _ => False
  end.
Proof.
  intros fc fs sc ss x v FR SR R. unfold store, post. simpl.
  rewrite (loc_agree (g_heap ss) (g_heap sc) fc fs x FR R).
  destruct (s_loc fs (g_heap ss) x) as [[| |m free]|]; [| | |exact I].
  - assert (G : g_glob sc = g_glob ss) by apply SR. rewrite G.
    split; [exact FR|]. split; [reflexivity|]. split; [apply state_rel_set_glob; assumption|apply ext_refl].
  - assert (C : f_fast fc = f_fast fs) by apply FR. rewrite C.
    split; [apply frame_rel_set_fast; exact FR|]. split; [reflexivity|]. split; [assumption|apply ext_refl].
  - assert (Hm : cget (g_heap sc) m x = sget (g_heap ss) m x) by apply SR.
    rewrite Hm. destruct (sget (g_heap ss) m x) as [ov|] eqn:E; [|exact I].
    assert (NE : sget (g_heap ss) m x <> None) by congruence.
    split; [|split; [reflexivity|split; [apply state_rel_set_heap; assumption|apply ext_sset]]].
    simpl. eapply frame_rel_ext; [apply ext_sset|assumption].
Qed.

Lemma delete_agree : forall fc fs sc ss x,
  frame_rel (g_heap ss) fc fs -> state_rel sc ss -> refd fc x ->
  match delete CO fc sc x, delete SO fs ss x with
  | LVal (fc', sc'), LVal (fs', ss') => post fc ss fc' sc' fs' ss'
  | LExn ec, LExn es => exn_rel ec es
  | LStuck, LStuck => True
  | _, _ => False
  end.
Proof.
  intros fc fs sc ss x FR SR R. unfold delete, post. simpl.
  rewrite (loc_agree (g_heap ss) (g_heap sc) fc fs x FR R).
  destruct (s_loc fs (g_heap ss) x) as [[| |m free]|]; [| | |exact I].
  - assert (G : g_glob sc = g_glob ss) by apply SR. rewrite G.
    destruct (env_get (g_glob ss) x).
    + split; [exact FR|]. split; [reflexivity|]. split; [apply state_rel_set_glob; assumption|apply ext_refl].
    + unfold exn_rel. destruct fx; [left; reflexivity|right; auto].
  - assert (C : f_fast fc = f_fast fs) by apply FR. rewrite C.
    destruct (env_get (f_fast fs) x).
    + split; [apply frame_rel_set_fast; exact FR|]. split; [reflexivity|]. split; [assumption|apply ext_refl].
    + left. reflexivity.
  - assert (Hm : cget (g_heap sc) m x = sget (g_heap ss) m x) by apply SR.
    rewrite Hm. destruct (sget (g_heap ss) m x) as [[ov|]|] eqn:E; [| left; reflexivity | exact I].
    assert (NE : sget (g_heap ss) m x <> None) by congruence.
    split; [|split; [reflexivity|split; [apply state_rel_set_heap; assumption|apply ext_sset]]].
    simpl. eapply frame_rel_ext; [apply ext_sset|assumption].
Qed.

(* ---------- closure creation ---------- *)
Lemma capture_list_spec : forall fc xs, (forall x, In x xs -> cap1 fc x <> None) ->
  exists l, c_capture_list fc xs = Some l /\ forall x, In x xs -> assoc x l = cap1 fc x.
Proof.
  induction xs as [|y r IH]; intros N; simpl.
  - exists []. split; [reflexivity|intros x []].
  - destruct IH as (l & E & A); [intros x I; apply N; right; assumption|].
    destruct (cap1 fc y) as [m|] eqn:C; [|exfalso; apply (N y); [left; reflexivity|assumption]].
    rewrite E. exists ((y, m) :: l). split; [reflexivity|].
    intros x [->|I]; simpl.
    + rewrite Nat.eqb_refl. symmetry. assumption.
    + destruct (Nat.eqb_spec x y) as [->|D]; [symmetry; assumption|apply A; assumption].
Qed.

Lemma capture_key : forall hs fc fs i x k,
  frame_rel hs fc fs -> incl (nested i) (si_refs (f_info fc)) ->
  In x (cfree i) -> lookup_outer (f_info fc :: f_ctx fc) x = Some k ->
  exists m, cap1 fc x = Some m /\ walk hs k (f_x fs) = Some m /\ sget hs m x <> None.
Proof.
  intros hs fc fs i x k (A & B & C & O & S & K) INC I L.
  assert (R : In (true, x) (si_refs (f_info fc))) by (apply INC, nested_in; assumption).
  simpl in L. unfold cap1. destruct (mem x (si_locals (f_info fc))) eqn:ML.
  - inversion L; subst k. assert (Cl : In x (si_cells (f_info fc))).
    { apply in_cells. split; [apply mem_In; assumption|assumption]. }
    unfold is_cell. rewrite (proj2 (mem_In _ _) Cl).
    exists (snd (f_x fc)). split; [reflexivity|]. split; [simpl; apply O; eapply own_of_cell; eassumption|].
    apply S. assumption.
  - destruct (mem x (si_globals (f_info fc))) eqn:MG; [discriminate|].
    destruct (lookup_outer (f_ctx fc) x) as [k'|] eqn:LO; [|discriminate].
    inversion L; subst k.
    assert (I' : In x (cfree (f_info fc))).
    { apply in_cfree. split; [|auto]. change x with (snd (true, x)). apply in_map. assumption. }
    destruct (K x k' I' LO) as (m & As & W & G). exists m. auto.
Qed.

Lemma capture_ok : forall hs fc fs i,
  frame_rel hs fc fs -> incl (nested i) (si_refs (f_info fc)) ->
  exists cm, c_capture fc i = Some cm /\
    cap_ok hs i (f_info fc :: f_ctx fc) cm (fun k => k)
           (if from_closure i (f_info fs :: f_ctx fs) then f_x fs else None).
Proof.
  intros hs fc fs i FR INC. unfold c_capture.
  set (ctx := f_info fc :: f_ctx fc).
  assert (AF : forall x, In x (actual_free i ctx) <-> In x (cfree i) /\ exists k, lookup_outer ctx x = Some k).
  { intros x. unfold actual_free. rewrite filter_In, has_owner_found.
    destruct (lookup_outer ctx x); simpl; split; intros [P Q]; split; auto; try discriminate; eauto.
    destruct Q; discriminate. }
  destruct (capture_list_spec fc (actual_free i ctx)) as (l & E & As).
  { intros x I. apply AF in I as (I & k & L).
    destruct (capture_key hs fc fs i x k FR INC I L) as (m & C & _). congruence. }
  exists l. split; [assumption|].
  intros x k I L.
  destruct (capture_key hs fc fs i x k FR INC I L) as (m & C & W & G).
  exists m. split; [rewrite As; [assumption|apply AF; eauto]|]. split; [|assumption].
  assert (FC : from_closure i (f_info fs :: f_ctx fs) = true).
  { destruct FR as (A & B & _). rewrite <- A, <- B. unfold from_closure. apply existsb_exists.
    exists x. split; [assumption|]. fold ctx. rewrite L. reflexivity. }
  rewrite FC. assumption.
Qed.

Lemma forall2_nth : forall {A B : Type} (R : A -> B -> Prop) l1 l2, Forall2 R l1 l2 ->
  forall i, match nth_error l1 i, nth_error l2 i with
            | Some a, Some b => R a b | None, None => True | _, _ => False end.
Proof.
  intros A B R l1 l2 F. induction F; intros [|i]; simpl; try exact I; [assumption|apply IHF].
Qed.

Lemma forall2_length : forall {A B : Type} (R : A -> B -> Prop) l1 l2,
  Forall2 R l1 l2 -> length l1 = length l2.
Proof. intros A B R l1 l2 F. induction F; simpl; congruence. Qed.

Lemma mkfun_agree : forall fc fs sc ss ps body i,
  frame_rel (g_heap ss) fc fs -> state_rel sc ss -> incl (nested i) (si_refs (f_info fc)) ->
  incl (flat_map refs_s body) (si_refs i) -> (forall p, In p ps -> mem p (si_locals i) = true) ->
  res_rel (okv (g_heap ss)) (mkfun CO fc sc ps body i) (mkfun SO fs ss ps body i).
Proof.
  intros fc fs sc ss ps body i FR SR INC IB PL. unfold mkfun. simpl.
  destruct (capture_ok (g_heap ss) fc fs i FR INC) as (cm & E & K). rewrite E. simpl.
  destruct SR as (G & T & N & H & F & Fr).
  split; [rewrite (forall2_length _ _ _ F); reflexivity|]. split; [|apply ext_refl].
  unfold state_rel; simpl. repeat (split; [assumption|]). split; [|assumption].
  apply Forall2_app; [assumption|]. constructor; [|constructor].
  destruct FR as (A & B & _).
  unfold fun_rel; simpl. rewrite A, B. repeat (split; [reflexivity|]).
  split; [assumption|]. split; [assumption|]. rewrite A, B in K. exact K.
Qed.

(* ---------- function entry ---------- *)
Lemma enter_ok : forall sc ss cf sf xs hs,
  state_rel sc ss -> fun_rel (g_heap ss) cf sf ->
  s_enter (g_heap ss) sf (g_next ss) = (xs, hs) ->
  frame_rel hs {| f_info := fn_info cf; f_ctx := fn_ctx cf; f_fast := []; f_x := (fn_cap cf, g_next ss) |}
               {| f_info := fn_info sf; f_ctx := fn_ctx sf; f_fast := []; f_x := xs |} /\
  state_rel {| g_glob := g_glob sc;
               g_heap := fold_right (fun x h => cset h (g_next ss) x None) (g_heap sc) (si_cells (fn_info cf));
               g_funs := g_funs sc; g_next := S (g_next sc); g_trace := g_trace sc |}
            {| g_glob := g_glob ss; g_heap := hs; g_funs := g_funs ss; g_next := S (g_next ss);
               g_trace := g_trace ss |} /\
  ext (g_heap ss) hs.
Proof.
  intros sc ss cf sf xs hs (G & T & N & H & F & Fr) (P1 & P2 & P3 & P4 & IB & PL & K) ES.
  unfold s_enter in ES. rewrite <- P3, <- P4 in ES.
  assert (FC : forall x k, In x (cfree (fn_info cf)) -> lookup_outer (fn_ctx cf) x = Some k ->
               from_closure (fn_info cf) (fn_ctx cf) = true).
  { intros x k I L. unfold from_closure. apply existsb_exists. exists x. rewrite L. auto. }
  assert (FRESH : sfind (g_heap ss) (g_next ss) = None) by (apply Fr; lia).
  destruct (own_scope (fn_info cf)) eqn:OW; inversion ES; subst xs hs; clear ES.
  - set (ob := {| so_outer := if from_closure (fn_info cf) (fn_ctx cf) then fn_cap sf else None;
                  so_vars := map (fun x => (x, None)) (si_cells (fn_info cf)) |}).
    assert (E : ext (g_heap ss) ((g_next ss, ob) :: g_heap ss)) by (apply ext_alloc; assumption).
    split; [|split; [|assumption]].
    + unfold frame_rel; simpl. rewrite OW. repeat (split; [assumption|]).
      split; [reflexivity|]. split; [intros _; reflexivity|]. split.
      * intros x I. unfold sget; simpl. rewrite Nat.eqb_refl. simpl. rewrite assoc_map_none.
        rewrite (proj2 (mem_In _ _) I). discriminate.
      * intros x k I L. destruct (K x k I L) as (m & As & W & Gt). exists m. split; [assumption|].
        split; [|eapply sget_ext; eassumption].
        simpl. rewrite Nat.eqb_refl. simpl. rewrite (FC x k I L).
        apply (walk_ext (g_heap ss)); [apply ext_alloc; assumption|assumption].
    + unfold state_rel; simpl. repeat (split; [assumption|]). split; [congruence|]. split; [|split].
      * intros m x. rewrite cget_alloc. unfold sget; simpl.
        destruct (Nat.eqb_spec m (g_next ss)) as [->|D]; simpl.
        -- rewrite assoc_map_none. destruct (mem x (si_cells (fn_info cf))); [reflexivity|].
           rewrite (H (g_next ss) x). unfold sget. rewrite FRESH. reflexivity.
        -- apply H.
      * eapply funs_rel_ext; eassumption.
      * intros m L. simpl. destruct (Nat.eqb_spec m (g_next ss)) as [->|D]; [lia|apply Fr; lia].
  - assert (CE : si_cells (fn_info cf) = []).
    { unfold own_scope in OW. destruct (si_cells (fn_info cf)); [reflexivity|discriminate]. }
    rewrite CE. simpl. split; [|split; [|apply ext_refl]].
    + unfold frame_rel; simpl. rewrite OW, CE. repeat (split; [assumption|]).
      split; [reflexivity|]. split; [discriminate|]. split; [intros x []|].
      intros x k I L. destruct (K x k I L) as (m & As & W & Gt). exists m.
      rewrite (FC x k I L). auto.
    + unfold state_rel; simpl. repeat (split; [assumption|]). split; [congruence|].
      split; [assumption|]. split; [assumption|]. intros m L. apply Fr. lia.
Qed.

Lemma post_refl : forall fc fs sc ss, frame_rel (g_heap ss) fc fs -> state_rel sc ss -> post fc ss fc sc fs ss.
Proof. intros. unfold post. split; [assumption|]. split; [reflexivity|]. split; [assumption|apply ext_refl]. Qed.

Lemma bind_params_agree : forall ps vs fc fs sc ss,
  frame_rel (g_heap ss) fc fs -> state_rel sc ss ->
  (forall p, In p ps -> mem p (si_locals (f_info fc)) = true) ->
  match bind_params CO fc sc ps vs, bind_params SO fs ss ps vs with
  | Some (fc', sc'), Some (fs', ss') => post fc ss fc' sc' fs' ss'
  | None, None => True
  | _, _ => False
  end.
Proof.
  induction ps as [|p r IH]; intros vs fc fs sc ss FR SR PL; simpl.
  - apply post_refl; assumption.
  - destruct vs as [|v vs']; [apply post_refl; assumption|].
    assert (R : refd fc p).
    { intros Hf. rewrite PL in Hf; [discriminate|left; reflexivity]. }
    pose proof (store_agree fc fs sc ss p v FR SR R) as SA.
    destruct (store CO fc sc p v) as [[fc1 sc1]|], (store SO fs ss p v) as [[fs1 ss1]|]; try contradiction; [|exact I].
    destruct SA as (FR1 & I1 & SR1 & E1).
    assert (PL1 : forall q, In q r -> mem q (si_locals (f_info fc1)) = true).
    { intros q Iq. rewrite I1. apply PL. right. assumption. }
    pose proof (IH vs' fc1 fs1 sc1 ss1 FR1 SR1 PL1) as B.
    destruct (bind_params CO fc1 sc1 r vs') as [[fc2 sc2]|], (bind_params SO fs1 ss1 r vs') as [[fs2 ss2]|];
      try contradiction; [|exact I].
    destruct B as (FR2 & I2 & SR2 & E2). unfold post.
    split; [assumption|]. split; [congruence|]. split; [assumption|eapply ext_trans; eassumption].
Qed.

(* ---------- the simulation ---------- *)
Definition sim_eval (n : nat) : Prop := forall fc fs sc ss e,
  frame_rel (g_heap ss) fc fs -> state_rel sc ss -> incl (refs_e e) (si_refs (f_info fc)) ->
  res_rel (okv (g_heap ss)) (eval CO n fc sc e) (eval SO n fs ss e).
Definition sim_evals (n : nat) : Prop := forall fc fs sc ss es,
  frame_rel (g_heap ss) fc fs -> state_rel sc ss -> incl (flat_map refs_e es) (si_refs (f_info fc)) ->
  res_rel (okl (g_heap ss)) (evals CO n fc sc es) (evals SO n fs ss es).
Definition sim_call (n : nat) : Prop := forall sc ss vf vs,
  state_rel sc ss -> res_rel (okv (g_heap ss)) (call CO n sc vf vs) (call SO n ss vf vs).
Definition sim_exec (n : nat) : Prop := forall fc fs sc ss s,
  frame_rel (g_heap ss) fc fs -> state_rel sc ss -> incl (refs_s s) (si_refs (f_info fc)) ->
  res_rel (okf (g_heap ss) (f_info fc)) (exec CO n fc sc s) (exec SO n fs ss s).
Definition sim_block (n : nat) : Prop := forall fc fs sc ss l,
  frame_rel (g_heap ss) fc fs -> state_rel sc ss -> incl (flat_map refs_s l) (si_refs (f_info fc)) ->
  res_rel (okf (g_heap ss) (f_info fc)) (block CO n fc sc l) (block SO n fs ss l).

Lemma okv_weaken : forall h0 h1 rc rs, ext h0 h1 -> res_rel (okv h1) rc rs -> res_rel (okv h0) rc rs.
Proof.
  intros h0 h1 rc rs E R. eapply res_rel_imp; [exact R|]. intros a sc b ss (A & B & C).
  split; [assumption|]. split; [assumption|eapply ext_trans; eassumption].
Qed.
Lemma okf_weaken : forall h0 h1 i rc rs, ext h0 h1 -> res_rel (okf h1 i) rc rs -> res_rel (okf h0 i) rc rs.
Proof.
  intros h0 h1 i rc rs E R. eapply res_rel_imp; [exact R|]. intros a sc b ss (A & B & C & D & F).
  repeat (split; [assumption|]). eapply ext_trans; eassumption.
Qed.

Lemma state_rel_add_trace : forall sc ss v, state_rel sc ss -> state_rel (add_trace sc v) (add_trace ss v).
Proof.
  intros sc ss v (G & T & N & H & F & Fr). unfold state_rel, add_trace; simpl.
  rewrite T. tauto.
Qed.

Lemma refd_of_ref : forall fc x, In (false, x) (si_refs (f_info fc)) -> refd fc x.
Proof. intros fc x I _ _. change x with (snd (false, x)). apply in_map. assumption. Qed.

Ltac okrefl := split; [reflexivity|split; [assumption|apply ext_refl]].
Ltac exnok SR := split; [left; reflexivity|apply state_rel_trace; exact SR].

Lemma lift_rel : forall h0 r sc ss, state_rel sc ss -> ext h0 (g_heap ss) ->
  res_rel (okv h0) (lift r sc) (lift r ss).
Proof.
  intros h0 r sc ss SR E. destruct r; simpl.
  - split; [reflexivity|split; assumption].
  - exnok SR.
Qed.

Lemma step_eval : forall n, sim_eval n -> sim_evals n -> sim_call n -> sim_eval (S n).
Proof.
  intros n IHe IHl IHc fc fs sc ss e FR SR INC.
  destruct e; simpl in INC; cbn [eval evals call exec block].
  - okrefl.
  - okrefl.
  - okrefl.
  - rewrite (load_agree fc fs sc ss x FR SR) by (apply refd_of_ref, INC; left; reflexivity).
    destruct (load SO fs ss x); simpl; [okrefl|exnok SR|exact I].
  - eapply bind_rel; [apply IHe; eassumption|]. intros v sc1 v' ss1 (-> & SR1 & E1).
    apply lift_rel; assumption.
  - eapply bind_rel; [apply IHe; eassumption|]. intros v sc1 v' ss1 (-> & SR1 & E1).
    split; [reflexivity|split; assumption].
  - apply incl_app_inv in INC as [I1 I2].
    eapply bind_rel; [apply IHe; eassumption|]. intros v sc1 v' ss1 (-> & SR1 & E1).
    eapply bind_rel; [apply IHe; [eapply frame_rel_ext; eassumption|eassumption|eassumption]|].
    intros w sc2 w' ss2 (-> & SR2 & E2). apply lift_rel; [assumption|eapply ext_trans; eassumption].
  - apply incl_app_inv in INC as [I1 I2].
    eapply bind_rel; [apply IHe; eassumption|]. intros v sc1 v' ss1 (-> & SR1 & E1).
    eapply bind_rel; [apply IHe; [eapply frame_rel_ext; eassumption|eassumption|eassumption]|].
    intros w sc2 w' ss2 (-> & SR2 & E2). apply lift_rel; [assumption|eapply ext_trans; eassumption].
  - apply incl_app_inv in INC as [I1 I23]. apply incl_app_inv in I23 as [I2 I3].
    eapply bind_rel; [apply IHe; eassumption|]. intros v sc1 v' ss1 (-> & SR1 & E1).
    eapply okv_weaken; [exact E1|]. apply IHe; [eapply frame_rel_ext; eassumption|assumption|].
    destruct (truthy v'); assumption.
  - eapply bind_rel; [apply IHe; eassumption|]. intros v sc1 v' ss1 (-> & SR1 & E1).
    split; [reflexivity|]. split; [apply state_rel_add_trace; assumption|assumption].
  - apply mkfun_agree; try assumption.
    + simpl. rewrite app_nil_r. apply incl_refl.
    + intros p Ip. simpl. apply mem_In. assumption.
  - apply incl_app_inv in INC as [I1 I2].
    eapply bind_rel; [apply IHe; eassumption|]. intros v sc1 v' ss1 (-> & SR1 & E1).
    eapply bind_rel; [apply IHl; [eapply frame_rel_ext; eassumption|eassumption|eassumption]|].
    intros w sc2 w' ss2 (-> & SR2 & E2).
    eapply okv_weaken; [eapply ext_trans; eassumption|]. apply IHc. assumption.
Qed.

Lemma step_evals : forall n, sim_eval n -> sim_evals n -> sim_evals (S n).
Proof.
  intros n IHe IHl fc fs sc ss es FR SR INC. destruct es as [|e r]; simpl in INC; cbn [eval evals call exec block].
  - okrefl.
  - apply incl_app_inv in INC as [I1 I2].
    eapply bind_rel; [apply IHe; eassumption|]. intros v sc1 v' ss1 (-> & SR1 & E1).
    eapply bind_rel; [apply IHl; [eapply frame_rel_ext; eassumption|eassumption|eassumption]|].
    intros w sc2 w' ss2 (-> & SR2 & E2).
    split; [reflexivity|]. split; [assumption|eapply ext_trans; eassumption].
Qed.

Lemma step_block : forall n, sim_exec n -> sim_block n -> sim_block (S n).
Proof.
  intros n IHx IHb fc fs sc ss l FR SR INC. destruct l as [|s r]; simpl in INC; cbn [eval evals call exec block].
  - split; [reflexivity|]. split; [assumption|]. split; [reflexivity|]. split; [assumption|apply ext_refl].
  - apply incl_app_inv in INC as [I1 I2].
    eapply bind_rel; [apply IHx; eassumption|]. intros q sc1 q' ss1 (Fl & FR1 & In1 & SR1 & E1).
    rewrite <- Fl. destruct (snd q) eqn:Sq.
    + eapply okf_weaken; [exact E1|]. rewrite <- In1. apply IHb; [assumption|assumption|].
      rewrite In1. assumption.
    + split; [congruence|]. split; [assumption|]. split; [assumption|]. split; assumption.
Qed.

Lemma store_r_rel : forall fc fs sc ss x v h0,
  frame_rel (g_heap ss) fc fs -> state_rel sc ss -> refd fc x -> ext h0 (g_heap ss) ->
  res_rel (okf h0 (f_info fc)) (store_r CO fc sc x v) (store_r SO fs ss x v).
Proof.
  intros fc fs sc ss x v h0 FR SR R E. unfold store_r.
  pose proof (store_agree fc fs sc ss x v FR SR R) as SA.
  destruct (store CO fc sc x v) as [[fc1 sc1]|], (store SO fs ss x v) as [[fs1 ss1]|]; try contradiction; [|exact I].
  destruct SA as (FR1 & I1 & SR1 & E1). simpl.
  split; [reflexivity|]. split; [assumption|]. split; [assumption|]. split; [assumption|].
  eapply ext_trans; eassumption.
Qed.

Lemma step_exec : forall n, sim_eval n -> sim_exec n -> sim_block n -> sim_exec (S n).
Proof.
  intros n IHe IHx IHb fc fs sc ss s FR SR INC.
  destruct s; simpl in INC; cbn [eval evals call exec block].
  - (* SExpr *)
    eapply bind_rel; [apply IHe; eassumption|]. intros v sc1 v' ss1 (-> & SR1 & E1).
    split; [reflexivity|]. split; [eapply frame_rel_ext; eassumption|]. split; [reflexivity|]. split; assumption.
  - (* SAssign *)
    eapply bind_rel; [apply IHe; [eassumption|eassumption|]|].
    { intros y Iy. apply INC. right. assumption. }
    intros v sc1 v' ss1 (-> & SR1 & E1).
    apply store_r_rel; [eapply frame_rel_ext; eassumption|assumption| |assumption].
    apply refd_of_ref, INC. left. reflexivity.
  - (* SAug *)
    assert (R : refd fc x) by (apply refd_of_ref, INC; left; reflexivity).
    rewrite (load_agree fc fs sc ss x FR SR R).
    destruct (load SO fs ss x); [|exnok SR|exact I].
    eapply bind_rel; [apply IHe; [eassumption|eassumption|]|].
    { intros y Iy. apply INC. right. assumption. }
    intros v sc1 v' ss1 (-> & SR1 & E1).
    destruct (do_bin op a v').
    + apply store_r_rel; [eapply frame_rel_ext; eassumption|assumption|assumption|assumption].
    + exnok SR1.
  - (* SIf *)
    apply incl_app_inv in INC as [I1 I23]. apply incl_app_inv in I23 as [I2 I3].
    eapply bind_rel; [apply IHe; eassumption|]. intros v sc1 v' ss1 (-> & SR1 & E1).
    eapply okf_weaken; [exact E1|]. apply IHb; [eapply frame_rel_ext; eassumption|assumption|].
    destruct (truthy v'); assumption.
  - (* SWhile *)
    pose proof INC as INC0.
    apply incl_app_inv in INC as [I1 I2].
    eapply bind_rel; [apply IHe; eassumption|]. intros v sc1 v' ss1 (-> & SR1 & E1).
    destruct (truthy v').
    + eapply bind_rel; [apply IHb; [eapply frame_rel_ext; eassumption|eassumption|eassumption]|].
      intros q sc2 q' ss2 (Fl & FR2 & In2 & SR2 & E2). rewrite <- Fl. destruct (snd q) eqn:Sq.
      * eapply okf_weaken; [eapply ext_trans; eassumption|]. rewrite <- In2.
        apply IHx; [assumption|assumption|]. rewrite In2. simpl. assumption.
      * split; [congruence|]. split; [assumption|]. split; [assumption|]. split; [assumption|].
        eapply ext_trans; eassumption.
    + split; [reflexivity|]. split; [eapply frame_rel_ext; eassumption|]. split; [reflexivity|]. split; assumption.
  - (* SReturn *)
    eapply bind_rel; [apply IHe; eassumption|]. intros v sc1 v' ss1 (-> & SR1 & E1).
    split; [reflexivity|]. split; [eapply frame_rel_ext; eassumption|]. split; [reflexivity|]. split; assumption.
  - (* SDef *)
    eapply bind_rel.
    + apply mkfun_agree; try assumption.
      * intros y Iy. apply INC. right. assumption.
      * apply incl_refl.
      * intros p Ip. simpl. unfold fn_locals. apply mem_In. apply in_or_app. left. assumption.
    + intros v sc1 v' ss1 (-> & SR1 & E1).
      apply store_r_rel; [eapply frame_rel_ext; eassumption|assumption| |assumption].
      apply refd_of_ref, INC. left. reflexivity.
  - split; [reflexivity|]. split; [assumption|]. split; [reflexivity|]. split; [assumption|apply ext_refl].
  - split; [reflexivity|]. split; [assumption|]. split; [reflexivity|]. split; [assumption|apply ext_refl].
  - (* SDel *)
    assert (R : refd fc x) by (apply refd_of_ref, INC; left; reflexivity).
    pose proof (delete_agree fc fs sc ss x FR SR R) as DA.
    destruct (delete CO fc sc x) as [[fc1 sc1]|ec|], (delete SO fs ss x) as [[fs1 ss1]|es|]; try contradiction.
    + destruct DA as (FR1 & I1 & SR1 & E1).
      split; [reflexivity|]. split; [assumption|]. split; [assumption|]. split; assumption.
    + split; [assumption|apply state_rel_trace; assumption].
    + exact I.
  - split; [reflexivity|]. split; [assumption|]. split; [reflexivity|]. split; [assumption|apply ext_refl].
Qed.

Lemma step_call : forall n, sim_block n -> sim_call (S n).
Proof.
  intros n IHb sc ss vf vs SR. cbn [eval evals call exec block].
  destruct vf; try (exnok SR).
  pose proof SR as (G & T & N & H & F & Fr).
  pose proof (forall2_nth _ _ _ F id) as NT.
  destruct (nth_error (g_funs sc) id) as [cf|], (nth_error (g_funs ss) id) as [sf|]; try contradiction; [|exact I].
  pose proof NT as (P1 & P2 & P3 & P4 & IB & PL & K).
  rewrite <- P1. destruct (Nat.eqb (length (fn_ps cf)) (length vs)); [|exnok SR].
  cbn [op_enter CO SO cells_ops scopes_ops].
  destruct (s_enter (g_heap ss) sf (g_next ss)) as [xs hs] eqn:ES.
  unfold c_enter. rewrite N.
  destruct (enter_ok sc ss cf sf xs hs SR NT ES) as (FR0 & SR0 & E0).
  match goal with
  | |- res_rel _ (match bind_params CO ?fc0 ?sc0 _ _ with _ => _ end)
                 (match bind_params SO ?fs0 ?ss0 _ _ with _ => _ end) =>
      pose proof (bind_params_agree (fn_ps cf) vs fc0 fs0 sc0 ss0) as BP
  end.
  rewrite N in SR0. specialize (BP FR0 SR0 PL).
  match goal with
  | |- res_rel _ (match ?a with _ => _ end) (match ?b with _ => _ end) =>
      destruct a as [[fc1 sc1]|], b as [[fs1 ss1]|]; try contradiction; [|exact I]
  end.
  destruct BP as (FR1 & I1 & SR1 & E1). simpl in I1, E1.
  eapply bind_rel.
  - rewrite <- P2. apply IHb; [eassumption|eassumption|]. rewrite I1. assumption.
  - intros q sc2 q' ss2 (Fl & FR2 & In2 & SR2 & E2). rewrite Fl.
    split; [reflexivity|]. split; [assumption|].
    eapply ext_trans; [exact E0|]. eapply ext_trans; eassumption.
Qed.

Lemma sim_all : forall n, sim_eval n /\ sim_evals n /\ sim_call n /\ sim_exec n /\ sim_block n.
Proof.
  induction n as [|n (IHe & IHl & IHc & IHx & IHb)].
  - repeat split; intro; intros; exact I.
  - assert (Bk : sim_block (S n)) by (apply step_block; assumption).
    split; [apply step_eval; assumption|]. split; [apply step_evals; assumption|].
    split; [apply step_call; assumption|]. split; [apply step_exec; assumption|assumption].
Qed.

(* ---------- whole programs ---------- *)
Definition out_rel (oc os : outcome) : Prop :=
  match oc, os with
  | Done v t, Done v' t' => v = v' /\ t = t'
  | Failed e t, Failed e' t' => exn_rel e e' /\ t = t'
  | NoFuel, NoFuel => True
  | IsStuck, IsStuck => True
  | _, _ => False
  end.

Lemma run_rel : forall n prog main, out_rel (run_cells n prog main) (run_scopes fx n prog main).
Proof.
  intros n prog main. unfold run_cells, run_scopes, run_gen.
  set (mi := module_info (prog ++ [SExpr main])).
  match goal with
  | |- out_rel (match block CO n ?a ?b prog with _ => _ end) (match block _ n ?c ?d prog with _ => _ end) =>
      set (fc0 := a); set (sc0 := b); set (fs0 := c); set (ss0 := d)
  end.
  assert (FR : frame_rel (g_heap ss0) fc0 fs0).
  { unfold frame_rel; simpl. repeat (split; [reflexivity|]). split; [discriminate|].
    split; [intros x []|]. intros x k _ L. discriminate. }
  assert (SR : state_rel sc0 ss0).
  { unfold state_rel; simpl. repeat (split; [reflexivity|]). split; [intros m x; reflexivity|].
    split; [constructor|reflexivity]. }
  assert (RF : si_refs mi = flat_map refs_s prog ++ refs_e main).
  { unfold mi, module_info; simpl. rewrite flat_map_app. simpl. rewrite !app_nil_r. reflexivity. }
  destruct (sim_all n) as (SE & _ & _ & _ & SB).
  pose proof (SB fc0 fs0 sc0 ss0 prog FR SR) as B.
  assert (IP : incl (flat_map refs_s prog) (si_refs (f_info fc0))).
  { change (incl (flat_map refs_s prog) (si_refs mi)). rewrite RF. apply incl_appl, incl_refl. }
  specialize (B IP).
  destruct (block CO n fc0 sc0 prog) as [q sc1|e sc1| |], (block SO n fs0 ss0 prog) as [q' ss1|e' ss1| |];
    simpl in B; try contradiction; try exact I.
  - destruct B as (Fl & FR1 & In1 & SR1 & E1).
    pose proof (SE (fst q) (fst q') sc1 ss1 main FR1 SR1) as M.
    assert (IM : incl (refs_e main) (si_refs (f_info (fst q)))).
    { rewrite In1. change (incl (refs_e main) (si_refs mi)). rewrite RF. apply incl_appr, incl_refl. }
    specialize (M IM).
    destruct (eval CO n (fst q) sc1 main) as [v sc2|e sc2| |], (eval SO n (fst q') ss1 main) as [v' ss2|e' ss2| |];
      simpl in M; try contradiction; try exact I.
    + destruct M as (-> & SR2 & _). simpl. split; [reflexivity|]. rewrite (state_rel_trace _ _ SR2). reflexivity.
    + destruct M as (X & T). simpl. split; [assumption|]. rewrite T. reflexivity.
  - destruct B as (X & T). simpl. split; [assumption|]. rewrite T. reflexivity.
Qed.

End Sim.

(* with the 'del of an unbound module global' repair the two schemes are indistinguishable *)
Theorem closure_conversion_correct_fixed : forall n prog main,
  run_scopes true n prog main = run_cells n prog main.
Proof.
  intros n prog main. pose proof (run_rel true n prog main) as R. unfold out_rel in R.
  destruct (run_cells n prog main), (run_scopes true n prog main); try contradiction; try reflexivity.
  - destruct R as (-> & ->). reflexivity.
  - destruct R as ([->|(X & _)] & ->); [reflexivity|discriminate].
Qed.

(* the tree as it is: the only possible difference is the exception type of that one del *)
Theorem closure_conversion_correct_partial : forall n prog main,
  run_scopes false n prog main = run_cells n prog main \/
  exists t, run_cells n prog main = Failed NameError t /\
            run_scopes false n prog main = Failed AttributeError t.
Proof.
  intros n prog main. pose proof (run_rel false n prog main) as R. unfold out_rel in R.
  destruct (run_cells n prog main), (run_scopes false n prog main); try contradiction; try (left; reflexivity).
  - destruct R as (-> & ->). left. reflexivity.
  - destruct R as ([->|(_ & -> & ->)] & ->); [left; reflexivity|right; eexists; split; reflexivity].
Qed.

Theorem closure_conversion_refuted :
  exists n prog main, run_scopes false n prog main <> run_cells n prog main.
Proof. exists 5, [SDel 0], ENone. vm_compute. discriminate. Qed.

(* the static hop computation finds a variable exactly when symtable's owner resolution does *)
Theorem hops_agree_with_owner : forall ctx x,
  has_owner ctx x = true <-> exists k, lookup_outer ctx x = Some k.
Proof.
  intros. rewrite has_owner_found. destruct (lookup_outer ctx x); simpl; split; eauto; try discriminate.
  intros [k E]. discriminate.
Qed.
