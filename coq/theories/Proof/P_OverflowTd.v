(* C04: typedef'd integer types - the sizeof dispatch of Overflow.c:Binop and LeftShift at a
   typedef name (model in M_Overflow.v, last section). *)
From Coq Require Import ZArith List Bool Lia ZifyBool.
From CyVerif Require Import Lib.CInt Model.M_CMath Proof.P_CMath Model.M_Overflow Proof.P_Overflow.
Open Scope Z_scope.

Lemma dispatch_v_asis builtin op iw lw llw w s cb ca swap a b :
  binop_dispatch_v false CmpLt builtin op iw lw llw w s cb ca swap a b
  = binop_dispatch builtin op iw lw llw w s cb ca swap a b.
Proof.
  unfold binop_dispatch_v, binop_dispatch, dispatch_choice, cmp_holds, narrow_unchecked.
  destruct (w <? iw); [reflexivity|].
  destruct (w =? iw); [reflexivity|]. destruct (w =? lw); [reflexivity|].
  destruct (w =? llw); reflexivity.
Qed.

Lemma in_range_widen w s iw a : 1 <= w -> w < iw -> in_range w s a -> in_range iw true a.
Proof.
  unfold in_range, min_int, max_int. intros Hw Hi H.
  pose proof (pow2_mono (w - 1) (iw - 1) ltac:(lia)). pose proof (pow2_mono w (iw - 1) ltac:(lia)).
  pose proof (pow2_pos (w - 1) ltac:(lia)). pose proof (pow2_pos w ltac:(lia)).
  destruct s; lia.
Qed.

Lemma wrap_narrow w s iw s' x : 1 <= w -> w <= iw -> wrap w s (wrap iw s' x) = wrap w s x.
Proof.
  intros Hw Hi. destruct (wrap_repr iw s' x ltac:(lia)) as [k ->].
  replace (x + k * 2 ^ iw) with (x + (k * 2 ^ (iw - w)) * 2 ^ w).
  - now apply wrap_shift.
  - rewrite <- Z.mul_assoc, <- Z.pow_add_r by lia. do 3 f_equal. lia.
Qed.

(* the code as it is: exact for every sane type at least as wide as int *)
Theorem dispatch_exact builtin op iw lw llw w s cb ca swap a b :
  size_sane iw lw llw w = true -> iw <= w -> 2 <= w -> wide_ok w lw llw ->
  in_range w s a -> in_range w s b ->
  binop_dispatch builtin op iw lw llw w s cb ca swap a b
  = R (wrap w s (exact_op op a b)) (negb (in_rangeb w s (exact_op op a b))).
Proof.
  intros S I Hw Wd Ha Hb. rewrite dispatch_sane by assumption.
  now rewrite base_helper_exact by assumption.
Qed.

(* the repaired shortcut arm: exact for every type narrower than int *)
Lemma narrow_checked_exact builtin op iw lw llw w s cb ca swap a b :
  2 <= w -> w < iw -> wide_ok iw lw llw -> in_range w s a -> in_range w s b ->
  narrow_checked builtin op iw lw llw w s cb ca swap a b
  = R (wrap w s (exact_op op a b)) (negb (in_rangeb w s (exact_op op a b))).
Proof.
  intros Hw Hi Wd Ha Hb. unfold narrow_checked.
  rewrite base_helper_exact; try assumption; try lia;
    try (eapply in_range_widen; [| |eassumption]; lia).
  unfold builtin_res. cbn [fst snd]. set (e := exact_op op a b).
  rewrite wrap_narrow by lia. f_equal.
  destruct (in_rangeb iw true e) eqn:Ri; cbn [negb orb].
  - apply in_rangeb_spec in Ri. rewrite (wrap_id iw true e) by (try assumption; lia).
    rewrite Z.eqb_sym. now rewrite in_rangeb_wrap_iff by lia.
  - destruct (in_rangeb w s e) eqn:Rw; [|reflexivity].
    apply in_rangeb_spec in Rw. apply (in_range_widen w s iw) in Rw; try lia.
    apply in_rangeb_spec in Rw. congruence.
Qed.

(* the callee: for a sane type at least as wide as int the chain picks the base helper of exactly
   that width and signedness; narrower types take the shortcut *)
Lemma dispatch_choice_spec iw lw llw w s : size_sane iw lw llw w = true ->
  dispatch_choice CmpLt iw lw llw w s = if w <? iw then CNarrow else CBase w s.
Proof.
  unfold dispatch_choice, size_sane, cmp_holds. intros S.
  destruct (Z.ltb_spec w iw); [reflexivity|].
  destruct (Z.eqb_spec w iw) as [->|]; [reflexivity|].
  destruct (Z.eqb_spec w lw) as [->|]; [reflexivity|].
  destruct (Z.eqb_spec w llw) as [->|]; [reflexivity|]. lia.
Qed.

(* with the repair, every sane width and signedness: value wrapped, bit set iff it does not fit *)
Theorem dispatch_fx_exact builtin op iw lw llw w s cb ca swap a b :
  size_sane iw lw llw w = true -> 2 <= w -> wide_ok w lw llw -> wide_ok iw lw llw ->
  in_range w s a -> in_range w s b ->
  binop_dispatch_v true CmpLt builtin op iw lw llw w s cb ca swap a b
  = R (wrap w s (exact_op op a b)) (negb (in_rangeb w s (exact_op op a b))).
Proof.
  intros S Hw Wd Wi Ha Hb. unfold binop_dispatch_v. rewrite dispatch_choice_spec by assumption.
  destruct (Z.ltb_spec w iw) as [L|L].
  - now apply narrow_checked_exact.
  - now rewrite base_helper_exact by assumption.
Qed.

(* operands whose exact result leaves the type exist for every operator, width and signedness *)
Lemma overflowing_operands op w s : 3 <= w ->
  exists a b, in_range w s a /\ in_range w s b /\ ~ in_range w s (exact_op op a b).
Proof.
  intros Hw. pose proof (pow2_pos (w - 1) ltac:(lia)) as P. pose proof (pow2_split w ltac:(lia)) as E.
  assert (4 <= 2 ^ (w - 1)).
  { change 4 with (2 ^ 2). apply pow2_mono. lia. }
  destruct op.
  - exists (max_int w s), 1. unfold in_range, min_int, max_int, exact_op. destruct s; lia.
  - exists (min_int w s), 1. unfold in_range, min_int, max_int, exact_op. destruct s; lia.
  - exists (max_int w s), 2. unfold in_range, min_int, max_int, exact_op. destruct s; lia.
Qed.

(* whenever the guard lets a type of width w >= 2 take the unchecked shortcut, some operands of
   the type give a wrong value with no bit set: for the code as it is (CmpLt) every w < iw, and
   for a guard "sizeof(TYPE) <= sizeof(int)" also w = iw, whatever the signedness and operator *)
Theorem unchecked_arm_refuted builtin op c iw lw llw w s :
  3 <= w -> cmp_holds c w iw = true ->
  exists a b v, in_range w s a /\ in_range w s b /\
    binop_dispatch_v false c builtin op iw lw llw w s false false false a b = R v false
    /\ v <> exact_op op a b.
Proof.
  intros Hw C. destruct (overflowing_operands op w s Hw) as (a & b & Ha & Hb & N).
  exists a, b, (wrap w s (wrap iw true (exact_op op a b))).
  split; [exact Ha | split; [exact Hb | split]].
  - unfold binop_dispatch_v, dispatch_choice. now rewrite C.
  - intros E. apply N. rewrite <- E. apply wrap_in_range. lia.
Qed.

Corollary dispatch_le_guard_refuted builtin op iw lw llw s : 3 <= iw ->
  exists a b v, in_range iw s a /\ in_range iw s b /\
    binop_dispatch_v false CmpLe builtin op iw lw llw iw s false false false a b = R v false
    /\ v <> exact_op op a b.
Proof. intros H. apply unchecked_arm_refuted; [exact H | cbn; lia]. Qed.

Corollary dispatch_narrow_asis_refuted builtin op iw lw llw w s : 3 <= w -> w < iw ->
  exists a b v, in_range w s a /\ in_range w s b /\
    binop_dispatch builtin op iw lw llw w s false false false a b = R v false
    /\ v <> exact_op op a b.
Proof.
  intros H L. destruct (unchecked_arm_refuted builtin op CmpLt iw lw llw w s H) as (a & b & v & X).
  { cbn. lia. }
  exists a, b, v. now rewrite <- dispatch_v_asis.
Qed.

(* ---- LeftShift at a typedef'd type ------------------------------------------------------- *)
Lemma lshift_td_sound iw w s a b v : 8 <= w -> in_range w s a -> in_range w s b ->
  lshift_td iw w s a b = (v, false) -> 0 <= b /\ v = a * 2 ^ b /\ in_range w s v.
Proof.
  intros Hw Ha Hb. unfold lshift_td. destruct ((w <? iw) && negb s); [discriminate|].
  now apply lshift_sound.
Qed.

Lemma lshift_td_complete iw w s a b : 8 <= w -> in_range w s a -> in_range w s b ->
  ~ in_range w s (a * 2 ^ b) \/ b < 0 -> snd (lshift_td iw w s a b) = true.
Proof.
  intros Hw Ha Hb N. unfold lshift_td. destruct ((w <? iw) && negb s); [reflexivity|].
  destruct (Z.lt_ge_cases b 0) as [B|B].
  - now apply lshift_negative_count_flags.
  - apply lshift_flag_iff; try assumption. left. destruct N; [assumption | lia].
Qed.

(* ---- the statement on a typedef'd result type -------------------------------------------- *)
Theorem typedef_node_exact fx builtin op iw lw llw w s cb ca swap a b :
  op <> OLshift -> size_sane iw lw llw w = true -> 2 <= w -> (fx = true \/ iw <= w) ->
  wide_ok w lw llw -> wide_ok iw lw llw -> in_range w s a -> in_range w s b ->
  typedef_node fx CmpLt builtin op iw lw llw w s cb ca swap a b
  = if in_rangeb w s (exact_cop op a b) then Val (exact_cop op a b) else Ovf.
Proof.
  intros Hop S Hw F Wd Wi Ha Hb.
  assert (D : forall bop, binop_dispatch_v fx CmpLt builtin bop iw lw llw w s cb ca swap a b
                = R (wrap w s (exact_op bop a b)) (negb (in_rangeb w s (exact_op bop a b)))).
  { intros bop. destruct fx.
    - now apply dispatch_fx_exact.
    - rewrite dispatch_v_asis. apply dispatch_exact; try assumption. destruct F; [discriminate | assumption]. }
  unfold typedef_node. destruct op; try congruence; rewrite D; cbn [oc_of_hres exact_op exact_cop];
    (destruct (in_rangeb w s _) eqn:Rg; cbn [negb];
     [rewrite wrap_id; [reflexivity | lia | now apply in_rangeb_spec] | reflexivity]).
Qed.

Theorem typedef_lshift_sound_complete fx c builtin iw lw llw w s cb ca swap a b :
  8 <= w -> in_range w s a -> in_range w s b ->
  (forall v, typedef_node fx c builtin OLshift iw lw llw w s cb ca swap a b = Val v ->
     0 <= b /\ v = a * 2 ^ b /\ in_range w s v)
  /\ (~ in_range w s (a * 2 ^ b) \/ b < 0 ->
      typedef_node fx c builtin OLshift iw lw llw w s cb ca swap a b = Ovf).
Proof.
  intros Hw Ha Hb. unfold typedef_node, raise_if. split.
  - intros v. destruct (lshift_td iw w s a b) as [r f] eqn:E. cbn [fst snd]. destruct f; [discriminate|].
    intros [= <-]. eapply lshift_td_sound; eassumption.
  - intros N. now rewrite (lshift_td_complete iw w s a b Hw Ha Hb N).
Qed.

(* ---- the raise in a nogil context ---------------------------------------------------------- *)
Lemma nogil_node_fixed in_nogil o : nogil_node true in_nogil o = o.
Proof. destruct o; cbn; try reflexivity. now rewrite andb_false_r. Qed.

Lemma nogil_node_partial gil_fixed in_nogil o : o <> Ovf -> nogil_node gil_fixed in_nogil o = o.
Proof. destruct o; cbn; congruence. Qed.

Lemma nogil_node_refuted :
  exists a b, in_range 32 true a /\ in_range 32 true b /\ ~ in_range 32 true (a + b) /\
    nogil_node false true (binop_node true OAdd 32 true 64 64 false false false a b) = Undef.
Proof. exists 2147483647, 1. unfold in_range. vm_compute. intuition congruence. Qed.
