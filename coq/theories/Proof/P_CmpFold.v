(* Proofs for Model/M_CmpFold.v: the folded comparison chain evaluates like the unfolded one. *)
From Coq Require Import ZArith List Bool Lia.
From CyVerif Require Import Lib.CInt Model.M_Cmp Proof.P_Cmp Model.M_CmpFold.
Import ListNotations.
Open Scope Z_scope.

Section FoldProofs.
  Variable ct : Z -> val -> val -> option bool.
  Variable cmp : Z -> val -> val -> val + exn.
  Variable truth : val -> bool + exn.
  Variable vbool : bool -> val.
  Variable loud : val -> bool.

  (* a constant operand is a literal: no event, a value, and that value does not log *)
  Definition const_ok (o : cfop) : Prop :=
    f_const o = true ->
    o_log (f_op o) = false /\ exists v, o_res (f_op o) = inl v /\ loud v = false.
  Definition chain_ok (c : chain) : Prop :=
    const_ok (fst c) /\ Forall (fun l => const_ok (snd l)) (snd c).

  Hypothesis Htruth : forall b, truth (vbool b) = inl b.
  Hypothesis Hquiet : forall b, loud (vbool b) = false.
  (* comparison results are the objects True / False (built-in types, instrumented objects
     returning bools); arbitrary result objects: see fold_objresult_refuted below *)
  Hypothesis Hres : forall op a b r, cmp op a b = inl r -> exists bb, r = vbool bb.
  (* the compile-time evaluation agrees with the run-time comparison of the same constants *)
  Hypothesis Hct : forall op a b r, ct op a b = Some r -> cmp op a b = inl (vbool r).

  Notation res := (list event * outcome val)%type.
  Notation flt := (filter (keep loud)).

  Definition sim (a b : res) : Prop := flt (fst a) = flt (fst b) /\ snd a = snd b.

  Lemma sim_stop : forall t1 t2 o, flt t1 = flt t2 -> sim (t1, o) (t2, o).
  Proof. intros. split; auto. Qed.

  Lemma flt_app : forall t1 t2 x, flt t1 = flt t2 -> flt (t1 ++ x) = flt (t2 ++ x).
  Proof. intros. rewrite !filter_app. congruence. Qed.

  Lemma flt_silent : forall t e, keep loud e = false -> flt (t ++ [e]) = flt t.
  Proof. intros. rewrite filter_app. cbn [filter]. rewrite H. apply app_nil_r. Qed.

  Lemma flt_truth : forall t b, flt (t ++ [EvTruth (vbool b)]) = flt t.
  Proof. intros. apply flt_silent. cbn [keep]. apply Hquiet. Qed.

  Lemma status_some : forall op l r b,
    status ct op l r = Some b -> const_ok l -> const_ok r ->
    exists a c, o_res (f_op l) = inl a /\ o_res (f_op r) = inl c /\ ct op a c = Some b /\
                o_log (f_op r) = false /\ loud a = false /\ loud c = false.
  Proof.
    unfold status. intros op l r b H Hl Hr.
    destruct (f_const l) eqn:El; [|discriminate].
    destruct (f_const r) eqn:Er; [|discriminate]. cbn [andb] in H.
    destruct (Hl El) as [_ [a [Ha La]]]. destruct (Hr Er) as [Lr [c [Hc Lc]]].
    rewrite Ha, Hc in H. exists a, c. auto 10.
  Qed.

  Lemma fold_from_cons : forall tf l op r rest,
    fold_from ct tf l ((op, r) :: rest) =
    match status ct op l r with
    | None => let (cur, more) := fold_from ct tf r rest in ((op, f_op r) :: cur, more)
    | Some false => ([], [FBool false])
    | Some true =>
      match rest with
      | [] => ([], if tf then [FBool true] else [])
      | _ :: _ => let (cur, more) := fold_from ct tf r rest in ([], mk_casc (f_op r) cur ++ more)
      end
    end.
  Proof. reflexivity. Qed.

  (* the folded side, once the left operand of the next link has the value vl *)
  Definition run_cur (vl : val) (cm : list (Z * operand) * list fnode) (tr : list event) : res :=
    match fst cm with
    | [] =>
      match snd cm with
      | [] => (tr, OVal (vbool true))
      | _ :: _ => eval_nodes cmp truth vbool (snd cm) tr
      end
    | _ :: _ =>
      match snd cm with
      | [] => ref_links cmp truth vl (fst cm) tr
      | _ :: _ => and_then truth (ref_links cmp truth vl (fst cm) tr) (eval_nodes cmp truth vbool (snd cm))
      end
    end.

  Lemma plain_links_cons : forall op r rest,
    plain_links ((op, r) :: rest) = (op, f_op r) :: plain_links rest.
  Proof. reflexivity. Qed.

  Lemma main : forall tf rest l vl tr tr',
    rest <> [] -> const_ok l -> Forall (fun x => const_ok (snd x)) rest ->
    o_res (f_op l) = inl vl -> flt tr = flt tr' ->
    sim (ref_links cmp truth vl (plain_links rest) tr) (run_cur vl (fold_from ct tf l rest) tr').
  Proof.
    intros tf rest. induction rest as [|[op r] rest IH]; intros l vl tr tr' Hne Hl Hall Hvl Htr.
    { congruence. }
    clear Hne. inversion Hall as [|x xs Hr Hrest]; subst x xs. cbn [snd] in Hr.
    rewrite plain_links_cons, ref_links_cons, fold_from_cons.
    destruct (status ct op l r) as [[|]|] eqn:Hs.
    - (* constant True *)
      destruct (status_some _ _ _ _ Hs Hl Hr) as [a [c [Ha [Hc [Hk [Lr [La Lc]]]]]]].
      rewrite Hvl in Ha. injection Ha as Ha; subst a.
      rewrite Hc. rewrite (Hct _ _ _ _ Hk).
      assert (E0 : ev_of (f_op r) = []) by (unfold ev_of; rewrite Lr; reflexivity).
      rewrite E0.
      assert (F1 : flt ((tr ++ []) ++ [EvCmp op vl c]) = flt tr').
      { rewrite flt_silent by (cbn [keep]; rewrite La, Lc; reflexivity). rewrite app_nil_r. exact Htr. }
      destruct rest as [|[op2 r2] rest2].
      + cbn [plain_links map ref_after]. unfold run_cur; cbn [fst snd].
        destruct tf; cbn [eval_nodes eval_node]; apply sim_stop; exact F1.
      + rewrite plain_links_cons. cbn [ref_after]. rewrite Htruth.
        rewrite <- plain_links_cons.
        destruct (fold_from ct tf r ((op2, r2) :: rest2)) as [cur more] eqn:Hf.
        assert (IH' := fun t t' => IH r c t t' ltac:(discriminate) Hr Hrest Hc).
        rewrite Hf in IH'.
        destruct cur as [|c0 cur].
        * cbn [mk_casc app].
          specialize (IH' (((tr ++ []) ++ [EvCmp op vl c]) ++ [EvTruth (vbool true)]) tr').
          unfold run_cur in *. cbn [fst snd] in *. apply IH'. rewrite flt_truth. exact F1.
        * cbn [mk_casc app].
          specialize (IH' (((tr ++ []) ++ [EvCmp op vl c]) ++ [EvTruth (vbool true)]) (tr' ++ [])).
          unfold run_cur in *. cbn [fst snd] in *.
          assert (G : flt ((((tr ++ []) ++ [EvCmp op vl c]) ++ [EvTruth (vbool true)])) = flt (tr' ++ [])).
          { rewrite flt_truth. rewrite (app_nil_r tr'). exact F1. }
          specialize (IH' G).
          destruct more as [|m0 more]; cbn [eval_nodes eval_node fst snd]; rewrite Hc, E0; exact IH'.
    - (* constant False *)
      destruct (status_some _ _ _ _ Hs Hl Hr) as [a [c [Ha [Hc [Hk [Lr [La Lc]]]]]]].
      rewrite Hvl in Ha. injection Ha as Ha; subst a.
      rewrite Hc. rewrite (Hct _ _ _ _ Hk).
      assert (E0 : ev_of (f_op r) = []) by (unfold ev_of; rewrite Lr; reflexivity).
      rewrite E0.
      assert (F1 : flt ((tr ++ []) ++ [EvCmp op vl c]) = flt tr').
      { rewrite flt_silent by (cbn [keep]; rewrite La, Lc; reflexivity). rewrite app_nil_r. exact Htr. }
      unfold run_cur; cbn [fst snd eval_nodes eval_node].
      destruct rest as [|[op2 r2] rest2].
      + cbn [plain_links map ref_after]. apply sim_stop; exact F1.
      + rewrite plain_links_cons. cbn [ref_after]. rewrite Htruth.
        apply sim_stop. rewrite flt_truth. exact F1.
    - (* not a constant link *)
      destruct (fold_from ct tf r rest) as [cur more] eqn:Hf.
      assert (Hcm : run_cur vl ((op, f_op r) :: cur, more) tr' =
                    match more with
                    | [] => ref_links cmp truth vl ((op, f_op r) :: cur) tr'
                    | _ :: _ => and_then truth (ref_links cmp truth vl ((op, f_op r) :: cur) tr')
                                         (eval_nodes cmp truth vbool more)
                    end) by reflexivity.
      rewrite Hcm. clear Hcm. rewrite ref_links_cons.
      destruct (o_res (f_op r)) as [vr|x] eqn:Hvr.
      2:{ destruct more; cbn [and_then]; apply sim_stop; apply flt_app; exact Htr. }
      assert (F0 : flt ((tr ++ ev_of (f_op r)) ++ [EvCmp op vl vr]) =
                   flt ((tr' ++ ev_of (f_op r)) ++ [EvCmp op vl vr])).
      { apply flt_app. apply flt_app. exact Htr. }
      destruct (cmp op vl vr) as [rv|x] eqn:Hc.
      2:{ destruct more; cbn [and_then]; apply sim_stop; exact F0. }
      destruct (Hres _ _ _ _ Hc) as [bb Hbb]. subst rv.
      set (tL := (tr ++ ev_of (f_op r)) ++ [EvCmp op vl vr]) in *.
      set (tR := (tr' ++ ev_of (f_op r)) ++ [EvCmp op vl vr]) in *.
      destruct rest as [|[op2 r2] rest2].
      + cbn [fold_from] in Hf. injection Hf as Hcur Hmore. subst cur more.
        cbn [plain_links map ref_after]. apply sim_stop. exact F0.
      + rewrite plain_links_cons. cbn [ref_after]. rewrite Htruth. rewrite <- plain_links_cons.
        assert (IH' := fun t t' => IH r vr t t' ltac:(discriminate) Hr Hrest Hvr).
        rewrite Hf in IH'. unfold run_cur in IH'. cbn [fst snd] in IH'.
        destruct cur as [|c0 cur].
        * cbn [ref_after].
          destruct more as [|m0 more].
          -- destruct bb.
             ++ apply IH'. rewrite flt_truth. exact F0.
             ++ apply sim_stop. rewrite flt_truth. exact F0.
          -- cbn [and_then]. rewrite Htruth. destruct bb.
             ++ apply IH'. rewrite !flt_truth. exact F0.
             ++ apply sim_stop. rewrite !flt_truth. exact F0.
        * cbn [ref_after]. rewrite Htruth.
          destruct bb.
          -- destruct more as [|m0 more]; apply IH'; rewrite !flt_truth; exact F0.
          -- destruct more as [|m0 more].
             ++ apply sim_stop. rewrite !flt_truth. exact F0.
             ++ cbn [and_then]. rewrite Htruth. apply sim_stop. rewrite !flt_truth. exact F0.
  Qed.

  (* the folded chain = the unfolded chain: value or exception, operand evaluations,
     comparison calls and truth tests of logging objects *)
  Theorem fold_correct : forall tf (c : chain),
    snd c <> [] -> chain_ok c ->
    obs loud (run_fold cmp truth vbool ct tf false c) = obs loud (ref_cascade cmp truth (plain c)).
  Proof.
    intros tf [h links] Hne [Hh Hall]. cbn [fst snd] in *.
    assert (S : sim (ref_cascade cmp truth (plain (h, links)))
                    (run_fold cmp truth vbool ct tf false (h, links))).
    2:{ destruct S as [S1 S2]. unfold obs. rewrite S1, S2. reflexivity. }
    unfold run_fold, fold, ref_cascade, plain. cbn [fst snd andb].
    destruct links as [|[op r] rest]; [congruence|]. clear Hne.
    destruct (o_res (f_op h)) as [v0|x] eqn:Hv0.
    - assert (M := main tf ((op, r) :: rest) h v0 (ev_of (f_op h)) ([] ++ ev_of (f_op h))
                        ltac:(discriminate) Hh Hall Hv0 eq_refl).
      destruct (fold_from ct tf h ((op, r) :: rest)) as [cur more] eqn:Hf.
      unfold run_cur in M. cbn [fst snd] in M.
      destruct cur as [|c0 cur].
      + cbn [mk_casc app].
        (* the head was dropped: the first link is constant, so the head is a literal *)
        rewrite fold_from_cons in Hf.
        destruct (status ct op h r) as [[|]|] eqn:Hs.
        * inversion Hall as [|x xs Hr Hrest]; subst x xs.
          destruct (status_some _ _ _ _ Hs Hh Hr) as [a [c [Ha _]]].
          assert (E0 : ev_of (f_op h) = []).
          { unfold status in Hs. destruct (f_const h) eqn:Eh; [|discriminate].
            destruct (Hh Eh) as [Lh _]. unfold ev_of. rewrite Lh. reflexivity. }
          rewrite E0 in *. cbn [app] in M.
          destruct more as [|m0 more]; exact M.
        * inversion Hall as [|x xs Hr Hrest]; subst x xs.
          assert (E0 : ev_of (f_op h) = []).
          { unfold status in Hs. destruct (f_const h) eqn:Eh; [|discriminate].
            destruct (Hh Eh) as [Lh _]. unfold ev_of. rewrite Lh. reflexivity. }
          rewrite E0 in *. cbn [app] in M.
          destruct more as [|m0 more]; exact M.
        * destruct (fold_from ct tf r rest); discriminate.
      + cbn [mk_casc app].
        destruct more as [|m0 more]; cbn [eval_nodes eval_node fst snd]; rewrite Hv0; exact M.
    - (* the head raises: it is not a literal, so the first link is kept *)
      rewrite fold_from_cons.
      assert (Hs : status ct op h r = None).
      { unfold status. destruct (f_const h) eqn:Eh; [|reflexivity].
        destruct (Hh Eh) as [_ [v [Hv _]]]. congruence. }
      rewrite Hs. destruct (fold_from ct tf r rest) as [cur more].
      cbn [mk_casc app].
      destruct more as [|m0 more]; cbn [eval_nodes eval_node and_then fst snd]; rewrite Hv0;
        apply sim_stop; reflexivity.
  Qed.
End FoldProofs.

(* a partial cascade of the folded chain is evaluated by the temp machine of M_Cmp *)
Theorem fold_segment_is_cascade : forall cmp truth vbool (c : cascade),
  snd c <> [] -> eval_node cmp truth vbool (FCasc c) [] = run_cascade cmp truth true c.
Proof.
  intros. rewrite cascade_trace_eq by assumption. unfold ref_cascade. cbn [eval_node app].
  reflexivity.
Qed.

(* ---- concrete oracles for the witnesses: values are integers, True = 1, False = 0 ---- *)
Definition w_vbool (b : bool) : val := if b then 1 else 0.
Definition w_rel (op a b : Z) : bool := if op =? 0 then a <? b else if op =? 4 then b <? a else a =? b.
Definition w_cmp (op a b : Z) : val + exn := inl (w_vbool (w_rel op a b)).
Definition w_truth (v : val) : bool + exn := inl (negb (v =? 0)).
Definition w_ct (op a b : Z) : option bool := Some (w_rel op a b).
Definition w_quiet (v : val) : bool := false.

(* f() < 1 > 2 : f is called (it returns 0), the result is False *)
Definition w_chain : chain :=
  (mkF (mkOp 0 true (inl 0)) false,
   [(0, mkF (mkOp 1 false (inl 1)) true); (4, mkF (mkOp 2 false (inl 2)) true)]).

Lemma w_hyps :
  (forall b, w_truth (w_vbool b) = inl b) /\ (forall b, w_quiet (w_vbool b) = false) /\
  (forall op a b r, w_cmp op a b = inl r -> exists bb, r = w_vbool bb) /\
  (forall op a b r, w_ct op a b = Some r -> w_cmp op a b = inl (w_vbool r)) /\
  chain_ok w_quiet w_chain.
Proof.
  split; [intros []; reflexivity|]. split; [reflexivity|].
  split; [intros op a b r H; injection H as H; eexists; symmetry; exact H|].
  split; [intros op a b r H; injection H as H; subst r; reflexivity|].
  split; [discriminate|].
  repeat constructor; cbn; eauto.
Qed.

(* the seeded variant (partial cascades before a constant-False link are thrown away) loses
   the evaluation of the operands to the left of that link *)
Theorem fold_drop_left_refuted :
  exists ct cmp truth vbool loud (c : chain),
    (forall b, truth (vbool b) = inl b) /\ (forall b, loud (vbool b) = false) /\
    (forall op a b r, cmp op a b = inl r -> exists bb, r = vbool bb) /\
    (forall op a b r, ct op a b = Some r -> cmp op a b = inl (vbool r)) /\
    chain_ok loud c /\ snd c <> [] /\
    obs loud (run_fold cmp truth vbool ct false true c) <> obs loud (ref_cascade cmp truth (plain c)).
Proof.
  exists w_ct, w_cmp, w_truth, w_vbool, w_quiet, w_chain.
  destruct w_hyps as [H1 [H2 [H3 [H4 H5]]]].
  repeat (split; [assumption|]). split; [discriminate|].
  vm_compute. discriminate.
Qed.

(* comparison results that are arbitrary objects (value 7: truthy, its truth test is logged):
   w < 2 > 1  - the code as it is returns the object untested, Python returns True after
   testing it (finding constfold_true_tail_result_untested) *)
Definition o_cmp (op a b : Z) : val + exn := if 50 <=? a then inl 7 else w_cmp op a b.
Definition o_truth (v : val) : bool + exn := inl (negb (v =? 0)).
Definition o_loud (v : val) : bool := (v =? 7) || (50 <=? v).
Definition o_ct (op a b : Z) : option bool := if (50 <=? a) then None else w_ct op a b.
Definition o_chain : chain :=
  (mkF (mkOp 0 true (inl 50)) false,
   [(0, mkF (mkOp 1 false (inl 2)) true); (4, mkF (mkOp 2 false (inl 1)) true)]).

Theorem fold_objresult_refuted :
  exists ct cmp truth vbool loud (c : chain),
    (forall b, truth (vbool b) = inl b) /\ (forall b, loud (vbool b) = false) /\
    (forall op a b r, ct op a b = Some r -> cmp op a b = inl (vbool r)) /\
    chain_ok loud c /\ snd c <> [] /\
    obs loud (run_fold cmp truth vbool ct false false c) <> obs loud (ref_cascade cmp truth (plain c)) /\
    obs loud (run_fold cmp truth vbool ct true false c) = obs loud (ref_cascade cmp truth (plain c)).
Proof.
  exists o_ct, o_cmp, o_truth, w_vbool, o_loud, o_chain.
  split; [intros []; reflexivity|]. split; [intros []; reflexivity|].
  split.
  { intros op a b r. unfold o_ct, o_cmp. destruct (50 <=? a); [discriminate|].
    intros H; injection H as H; subst r; reflexivity. }
  split; [split; [discriminate|repeat constructor; cbn; eauto]|].
  split; [discriminate|].
  split; [vm_compute; discriminate|vm_compute; reflexivity].
Qed.

(* a falsy result object inside a partial cascade of two links that is followed by another node
   is truth-tested twice, also with tail_fix (finding constfold_segment_result_tested_twice):
   w1 < w2 < 2 > 1 < 3  with  w1 < w2 = 8 (falsy object) *)
Definition d_cmp (op a b : Z) : val + exn := if 50 <=? a then inl 8 else w_cmp op a b.
Definition d_truth (v : val) : bool + exn := inl (negb ((v =? 0) || (v =? 8))).
Definition d_loud (v : val) : bool := (v =? 8) || (50 <=? v).
Definition d_chain : chain :=
  (mkF (mkOp 0 true (inl 50)) false,
   [(0, mkF (mkOp 1 true (inl 51)) false); (0, mkF (mkOp 2 false (inl 2)) true);
    (4, mkF (mkOp 3 false (inl 1)) true); (0, mkF (mkOp 4 true (inl 3)) false)]).

Theorem fold_double_truth_refuted :
  exists ct cmp truth vbool loud (c : chain),
    (forall b, truth (vbool b) = inl b) /\ (forall b, loud (vbool b) = false) /\
    (forall op a b r, ct op a b = Some r -> cmp op a b = inl (vbool r)) /\
    chain_ok loud c /\ snd c <> [] /\
    obs loud (run_fold cmp truth vbool ct true false c) <> obs loud (ref_cascade cmp truth (plain c)).
Proof.
  exists o_ct, d_cmp, d_truth, w_vbool, d_loud, d_chain.
  split; [intros []; reflexivity|]. split; [intros []; reflexivity|].
  split.
  { intros op a b r. unfold o_ct, d_cmp. destruct (50 <=? a); [discriminate|].
    intros H; injection H as H; subst r; reflexivity. }
  split; [split; [discriminate|repeat constructor; cbn; eauto; discriminate]|].
  split; [discriminate|].
  vm_compute. discriminate.
Qed.
