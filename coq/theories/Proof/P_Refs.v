(* P_Refs - proofs for C35: the temp/ownership discipline of M_Refs keeps the refnanny ledger balanced
   on every path, for every tree and every fault oracle. *)
From Coq Require Import List Bool Arith Lia.
From CyVerif Require Import Model.M_Refs.
Import ListNotations.

(* ---------- finite maps ---------- *)
Definition keys (m : fmap) : list nat := map fst m.

Lemma get_rem_same : forall k m, get k (rem k m) = None.
Proof.
  induction m as [|[k' v] m IH]; simpl; auto.
  destruct (Nat.eqb k k') eqn:E; simpl; auto. rewrite E. auto.
Qed.

Lemma get_rem_other : forall k k' m, k <> k' -> get k (rem k' m) = get k m.
Proof.
  induction m as [|[k2 v] m IH]; simpl; intros; auto.
  destruct (Nat.eqb k' k2) eqn:E.
  - apply Nat.eqb_eq in E. subst. destruct (Nat.eqb k k2) eqn:E2; auto.
    apply Nat.eqb_eq in E2. congruence.
  - simpl. destruct (Nat.eqb k k2); auto.
Qed.

Lemma rem_none : forall k m, get k m = None -> rem k m = m.
Proof.
  induction m as [|[k2 v] m IH]; simpl; intros; auto.
  destruct (Nat.eqb k k2) eqn:E; try discriminate. f_equal. auto.
Qed.

Lemma get_none_keys : forall k m, get k m = None <-> ~ In k (keys m).
Proof.
  induction m as [|[k2 v] m IH]; simpl; split; intros; auto.
  - destruct (Nat.eqb k k2) eqn:E; try discriminate. apply Nat.eqb_neq in E.
    intros [H1|H1]; [congruence|]. apply IH in H; auto.
  - destruct (Nat.eqb k k2) eqn:E.
    + apply Nat.eqb_eq in E. subst. exfalso; auto.
    + apply IH. intro; apply H; auto.
Qed.

Lemma keys_rem : forall k k' m, In k (keys (rem k' m)) -> In k (keys m) /\ k <> k'.
Proof.
  induction m as [|[k2 v] m IH]; simpl; intros; [tauto|].
  destruct (Nat.eqb k' k2) eqn:E.
  - apply IH in H. tauto.
  - simpl in H. destruct H as [H|H].
    + subst. apply Nat.eqb_neq in E. split; auto.
    + apply IH in H. tauto.
Qed.

Lemma nodup_rem : forall k m, NoDup (keys m) -> NoDup (keys (rem k m)).
Proof.
  induction m as [|[k2 v] m IH]; simpl; intros; auto.
  inversion H; subst. destruct (Nat.eqb k k2); auto.
  simpl. constructor; auto. intro Hin. apply keys_rem in Hin. tauto.
Qed.

Lemma nodup_put : forall k v m, NoDup (keys m) -> NoDup (keys (put k v m)).
Proof.
  intros. unfold put. simpl. constructor.
  - apply get_none_keys. apply get_rem_same.
  - apply nodup_rem; auto.
Qed.

Lemma nodup_put_u : forall k m, NoDup (keys m) -> NoDup (k :: keys (rem k m)).
Proof. intros k m H. apply (nodup_put k 0 m H). Qed.

Lemma cnt_rem : forall o k v m, NoDup (keys m) -> get k m = Some v ->
  cnt o (rem k m) + (if Nat.eqb v o then 1 else 0) = cnt o m.
Proof.
  induction m as [|[k2 v2] m IH]; simpl; intros Hnd Hg; [discriminate|].
  inversion Hnd; subst.
  destruct (Nat.eqb k k2) eqn:E.
  - injection Hg as ->. apply Nat.eqb_eq in E. subst.
    rewrite rem_none; [lia|]. apply get_none_keys; auto.
  - simpl. specialize (IH H2 Hg). lia.
Qed.

Lemma cnt_pos : forall o k m, get k m = Some o -> 1 <= cnt o m.
Proof.
  induction m as [|[k2 v2] m IH]; simpl; intros; [discriminate|].
  destruct (Nat.eqb k k2).
  - injection H as ->. rewrite Nat.eqb_refl. lia.
  - apply IH in H. lia.
Qed.

Lemma get_put_same : forall k v m, get k (put k v m) = Some v.
Proof. intros. unfold put. simpl. rewrite Nat.eqb_refl. auto. Qed.

Lemma get_put_other : forall k k' v m, k <> k' -> get k (put k' v m) = get k m.
Proof.
  intros. unfold put. simpl. destruct (Nat.eqb k k') eqn:E.
  - apply Nat.eqb_eq in E. congruence.
  - apply get_rem_other; auto.
Qed.

Lemma get_kbound : forall k m v, get k m = Some v -> k < kbound m.
Proof.
  induction m as [|[k2 v2] m IH]; intros v H; [discriminate|]. cbn [get kbound] in *.
  destruct (Nat.eqb k k2) eqn:E.
  - apply Nat.eqb_eq in E. lia.
  - apply IH in H. lia.
Qed.

Lemma all_none_nil : forall m, (forall k, get k m = None) -> m = [].
Proof.
  destruct m as [|[k v] m]; auto. intros H. specialize (H k). simpl in H.
  rewrite Nat.eqb_refl in H. discriminate.
Qed.

(* ---------- the invariant: ledger = live temps + owned locals + result ---------- *)
Definition cres (o : obj) (r : option obj) : nat :=
  match r with Some p => if Nat.eqb p o then 1 else 0 | None => 0 end.

Record Inv (s : state) : Prop := {
  inv_nd_t : NoDup (keys (temps s));
  inv_nd_l : NoDup (keys (locs s));
  inv_bal : forall o, bal (tr s) o = cnt o (temps s) + cnt o (locs s) + cres o (res s);
  inv_ok : nanny_errs (tr s) = 0 }.

Definition bound (s : state) (t : nat) : Prop := get t (temps s) <> None.
Definition BT (L : nat -> Prop) (s : state) : Prop := forall u, bound s u <-> L u.
Definition B (L : nat -> Prop) (s : state) : Prop := res s = None /\ BT L s.

Lemma BT_ext : forall L L' s, (forall u, L u <-> L' u) -> BT L s -> BT L' s.
Proof. unfold BT; intros. rewrite H0. auto. Qed.
Lemma B_ext : forall L L' s, (forall u, L u <-> L' u) -> B L s -> B L' s.
Proof. unfold B; intros. destruct H0; split; auto. eapply BT_ext; eauto. Qed.

(* a state that differs only in counters / flag *)
Definition same (s s' : state) : Prop :=
  temps s' = temps s /\ locs s' = locs s /\ res s' = res s /\ tr s' = tr s.

Lemma Inv_same : forall s s', same s s' -> Inv s -> Inv s'.
Proof.
  intros s s' (H1 & H2 & H3 & H4) [a b c d]. constructor.
  - rewrite H1; auto.
  - rewrite H2; auto.
  - intros o. rewrite H1, H2, H3, H4. auto.
  - rewrite H4; auto.
Qed.
Lemma BT_same : forall L s s', same s s' -> BT L s -> BT L s'.
Proof. intros L s s' (H1 & _) H u. unfold bound. rewrite H1. apply H. Qed.

Lemma same_tick : forall s, same s (tick s). Proof. repeat split. Qed.
Lemma same_atick : forall s, same s (atick s). Proof. repeat split. Qed.
Lemma same_fresh : forall s, same s (fresh s). Proof. repeat split. Qed.
Lemma same_flag : forall b s, same s (set_flag b s). Proof. repeat split. Qed.
Lemma same_trans : forall a b c, same a b -> same b c -> same a c.
Proof. unfold same; intros; intuition congruence. Qed.
Lemma same_res : forall s s', same s s' -> res s' = res s.
Proof. unfold same; tauto. Qed.

Ltac b2n := repeat match goal with |- context [Nat.eqb ?a ?b] => destruct (Nat.eqb a b) end.

(* releasing a reference that some slot accounts for *)
Lemma give_some : forall s o, 1 <= bal (tr s) o -> give o s = Some (set_tr (Give o :: tr s) s).
Proof.
  intros. unfold give. destruct (Nat.eqb (bal (tr s) o) 0) eqn:E; auto.
  apply Nat.eqb_eq in E. lia.
Qed.

Lemma bound_pos : forall s t o, Inv s -> get t (temps s) = Some o -> 1 <= bal (tr s) o.
Proof. intros s t o I H. rewrite (inv_bal s I). apply cnt_pos in H. lia. Qed.
Lemma loc_pos : forall s x o, Inv s -> get x (locs s) = Some o -> 1 <= bal (tr s) o.
Proof. intros s x o I H. rewrite (inv_bal s I). apply cnt_pos in H. lia. Qed.

Lemma errs_give : forall l o, 1 <= bal l o -> nanny_errs l = 0 -> nanny_errs (Give o :: l) = 0.
Proof.
  intros l o H H0. simpl. destruct (Nat.eqb (bal l o) 0) eqn:E; auto. apply Nat.eqb_eq in E. lia.
Qed.

(* DECREF + clear of a bound temp *)
Lemma decref_clear_ok : forall s t L, Inv s -> BT L s -> L t ->
  exists s', decref_clear t s = Norm s' /\ Inv s' /\ BT (fun u => L u /\ u <> t) s' /\ res s' = res s /\ locs s' = locs s.
Proof.
  intros s t L I HB Ht. apply HB in Ht. unfold bound in Ht.
  destruct (get t (temps s)) as [o|] eqn:G; [|congruence]. clear Ht.
  pose proof (bound_pos _ _ _ I G) as Hp.
  unfold decref_clear. rewrite G, (give_some _ _ Hp). eexists; split; [reflexivity|].
  destruct I as [a b c d]. split; [|split; [|split]]; simpl; auto.
  - constructor; simpl; auto.
    + apply nodup_rem; auto.
    + intros o'. rewrite c. pose proof (cnt_rem o' t o _ a G). simpl in *. lia.
    + apply errs_give; auto.
  - intros u. unfold bound; simpl. destruct (Nat.eq_dec u t).
    + subst. rewrite get_rem_same. split; [congruence|tauto].
    + rewrite get_rem_other; auto. rewrite <- (HB u). unfold bound. tauto.
Qed.

Lemma decref_all_ok : forall ts s L, Inv s -> BT L s -> NoDup ts -> (forall t, In t ts -> L t) ->
  exists s', decref_all ts s = Norm s' /\ Inv s' /\ BT (fun u => L u /\ ~ In u ts) s' /\ res s' = res s.
Proof.
  induction ts as [|t ts IH]; simpl; intros s L I HB Hnd Hin.
  - exists s. split; [auto|]. split; [auto|]. split; [|auto]. eapply BT_ext; [|eauto]. intros u; tauto.
  - inversion Hnd; subst.
    destruct (decref_clear_ok s t L I HB (Hin t (or_introl eq_refl))) as (s1 & E1 & I1 & B1 & R1 & _).
    rewrite E1. simpl.
    destruct (IH s1 _ I1 B1 H2) as (s2 & E2 & I2 & B2 & R2).
    + intros u Hu. split; auto. intro; subst; auto.
    + exists s2. rewrite E2. split; [auto|]. split; [auto|]. split; [|congruence].
      eapply BT_ext; [|eauto]. intros u; simpl. intuition.
Qed.

(* a new owned reference in an unbound temp *)
Lemma new_ref_ok : forall s d o L, Inv s -> BT L s -> ~ L d ->
  exists s', new_ref d o s = Norm s' /\ Inv s' /\ BT (fun u => L u \/ u = d) s' /\ res s' = res s /\ flag s' = flag s.
Proof.
  intros s d o L I HB Hd. unfold new_ref.
  destruct (get d (temps s)) eqn:G.
  - exfalso. apply Hd, HB. unfold bound. congruence.
  - eexists; split; [reflexivity|]. destruct I as [a b c e]. split; [|split; [|split]]; simpl; auto.
    + constructor; simpl; auto.
      * apply nodup_put_u; auto.
      * intros o'. rewrite c. rewrite (rem_none _ _ G). lia.
    + intros u. unfold bound; simpl. destruct (Nat.eqb u d) eqn:E.
      * apply Nat.eqb_eq in E. split; [auto|congruence].
      * apply Nat.eqb_neq in E. rewrite get_rem_other; auto. rewrite <- (HB u). unfold bound. tauto.
Qed.

(* operand reads never get stuck when the temps they name are bound *)
Lemma rd_ok : forall s r L, Inv s -> BT L s -> (forall t, r = RTmp t -> L t) ->
  (exists o, rd s r = RdOk o) \/ rd s r = RdUnbound.
Proof.
  intros s r L I HB Hr. destruct r as [i|x|t]; simpl.
  - left; eauto.
  - destruct (get x (locs s)) eqn:G; auto. pose proof (loc_pos _ _ _ I G).
    destruct (Nat.eqb (bal (tr s) o) 0) eqn:E; [apply Nat.eqb_eq in E; lia|]. left; eauto.
  - specialize (Hr t eq_refl). apply HB in Hr. unfold bound in Hr.
    destruct (get t (temps s)) eqn:G; [|congruence]. pose proof (bound_pos _ _ _ I G).
    destruct (Nat.eqb (bal (tr s) o) 0) eqn:E; [apply Nat.eqb_eq in E; lia|]. left; eauto.
Qed.

Lemma rds_ok : forall rs s L, Inv s -> BT L s -> (forall t, In (RTmp t) rs -> L t) ->
  (exists os, rds s rs = RsOk os) \/ rds s rs = RsUnbound.
Proof.
  induction rs as [|r rs IH]; simpl; intros; [left; eauto|].
  destruct (rd_ok s r L H H0) as [[o E]|E]; [intros; subst; auto| |]; rewrite E;
    (destruct (IH s L H H0) as [[os E2]|E2]; [intros; auto| |]; rewrite E2; eauto).
Qed.

(* ---------- step specifications ---------- *)
(* post-condition shape for instructions that do not touch the result slot *)
Definition post (r : result) (L' : nat -> Prop) (s : state) : Prop :=
  match r with
  | Norm s' => Inv s' /\ BT L' s' /\ res s' = res s
  | Err s' => Inv s' /\ res s' = res s
  | _ => False
  end.

Lemma step_IOp : forall O d srcs pre s L, Inv s -> BT L s ->
  (forall t, In (RTmp t) srcs -> L t) -> NoDup pre -> (forall t, In t pre -> L t) -> ~ L d ->
  post (step O (IOp d srcs pre) s) (fun u => (L u /\ ~ In u pre) \/ u = d) s.
Proof.
  intros O d srcs pre s L I HB Hs Hnd Hp Hd. simpl.
  destruct (rds_ok srcs s L I HB Hs) as [[os E]|E]; rewrite E; [|simpl; auto].
  assert (It : Inv (tick s)) by (eapply Inv_same; eauto; apply same_tick).
  assert (Bt : BT L (tick s)) by (eapply BT_same; eauto; apply same_tick).
  destruct (decref_all_ok pre (tick s) L It Bt Hnd Hp) as (s2 & E2 & I2 & B2 & R2).
  rewrite E2. simpl in R2. simpl. destruct (fail O (calls s)); simpl; [split; auto|].
  assert (If : Inv (fresh s2)) by (eapply Inv_same; eauto; apply same_fresh).
  assert (Bf : BT (fun u => L u /\ ~ In u pre) (fresh s2)) by (eapply BT_same; eauto; apply same_fresh).
  match goal with |- context [new_ref d ?o ?st] =>
    destruct (new_ref_ok st d o (fun u => L u /\ ~ In u pre) If Bf) as (s3 & E3 & I3 & B3 & R3 & _) end.
  { tauto. }
  rewrite E3. simpl. split; [auto|]. split; [auto|]. rewrite R3. simpl. auto.
Qed.

Lemma Inv_tick : forall s, Inv s -> Inv (tick s).
Proof. intros. eapply Inv_same; eauto. apply same_tick. Qed.
Lemma BT_tick : forall L s, BT L s -> BT L (tick s).
Proof. intros. eapply BT_same; eauto. apply same_tick. Qed.
Lemma Inv_flag : forall b s, Inv s -> Inv (set_flag b s).
Proof. intros. eapply Inv_same; eauto. apply same_flag. Qed.
Lemma BT_flag : forall L b s, BT L s -> BT L (set_flag b s).
Proof. intros. eapply BT_same; eauto. apply same_flag. Qed.
Lemma Inv_fresh : forall s, Inv s -> Inv (fresh s).
Proof. intros. eapply Inv_same; eauto. apply same_fresh. Qed.
Lemma BT_fresh : forall L s, BT L s -> BT L (fresh s).
Proof. intros. eapply BT_same; eauto. apply same_fresh. Qed.
Lemma Inv_atick : forall s, Inv s -> Inv (atick s).
Proof. intros. eapply Inv_same; eauto. apply same_atick. Qed.
Lemma BT_atick : forall L s, BT L s -> BT L (atick s).
Proof. intros. eapply BT_same; eauto. apply same_atick. Qed.

Lemma step_IVoid : forall O srcs s L, Inv s -> BT L s -> (forall t, In (RTmp t) srcs -> L t) ->
  post (step O (IVoid srcs) s) L s.
Proof.
  intros O srcs s L I HB Hs. simpl.
  destruct (rds_ok srcs s L I HB Hs) as [[os E]|E]; rewrite E; [|simpl; auto].
  pose proof (Inv_tick s I). pose proof (BT_tick L s HB).
  destruct (fail O (calls s)); simpl; auto.
Qed.

Lemma step_ITruth : forall O r s L, Inv s -> BT L s -> (forall t, r = RTmp t -> L t) ->
  post (step O (ITruth r) s) L s.
Proof.
  intros O r s L I HB Hs. unfold step.
  destruct (rds_ok [r] s L I HB) as [[os E]|E]; [simpl; intros t [Ht|[]]; auto| |]; rewrite E; [|simpl; auto].
  pose proof (Inv_tick s I). pose proof (BT_tick L s HB).
  destruct (fail O (calls s)); simpl; auto.
  split; [apply Inv_flag; auto|]. split; [apply BT_flag; auto|auto].
Qed.

Lemma step_IAlloc : forall O d s L, Inv s -> BT L s -> ~ L d ->
  post (step O (IAlloc d) s) (fun u => L u \/ u = d) s.
Proof.
  intros O d s L I HB Hd. simpl.
  pose proof (Inv_atick s I) as Ia. pose proof (BT_atick L s HB) as Ba.
  destruct (afail O (allocs s)); simpl; auto.
  destruct (new_ref_ok (fresh (atick s)) d (nxt s) L (Inv_fresh _ Ia) (BT_fresh _ _ Ba) Hd)
    as (s3 & E3 & I3 & B3 & R3 & _).
  simpl in E3. rewrite E3. simpl. auto.
Qed.

Lemma step_IIncref : forall O d r s L, Inv s -> BT L s -> (forall t, r = RTmp t -> L t) -> ~ L d ->
  post (step O (IIncref d r) s) (fun u => L u \/ u = d) s.
Proof.
  intros O d r s L I HB Hr Hd. simpl.
  destruct (rd_ok s r L I HB Hr) as [[o E]|E]; rewrite E; [|simpl; auto].
  destruct (new_ref_ok s d o L) as (s3 & E3 & I3 & B3 & R3 & _); auto.
  rewrite E3. simpl. auto.
Qed.

Lemma step_IGiveB : forall O r s L, Inv s -> BT L s -> (forall t, r = RTmp t -> L t) ->
  post (step O (IGiveB r) s) L s.
Proof.
  intros O r s L I HB Hr. simpl.
  destruct (rd_ok s r L I HB Hr) as [[o E]|E]; rewrite E; [|simpl; auto].
  unfold give, got. simpl. rewrite Nat.eqb_refl. simpl. destruct I as [a b c e].
  split; [|split; [|auto]].
  - constructor; simpl; auto.
    + intros o'. rewrite <- c. destruct (Nat.eqb o o'); lia.
    + rewrite Nat.eqb_refl. simpl. auto.
  - intros u. apply (HB u).
Qed.

Lemma step_ISteal : forall O t s L, Inv s -> BT L s -> L t ->
  post (step O (ISteal t) s) (fun u => L u /\ u <> t) s.
Proof.
  intros O t s L I HB Ht.
  destruct (decref_clear_ok s t L I HB Ht) as (s1 & E1 & I1 & B1 & R1 & _).
  unfold decref_clear in E1. simpl. destruct (get t (temps s)); [|discriminate].
  destruct (give o s); [|discriminate]. injection E1 as <-. simpl. auto.
Qed.

Lemma step_IDecref : forall O t s L, Inv s -> BT L s -> L t ->
  post (step O (IDecref t) s) (fun u => L u /\ u <> t) s.
Proof.
  intros O t s L I HB Ht.
  destruct (decref_clear_ok s t L I HB Ht) as (s1 & E1 & I1 & B1 & R1 & _).
  simpl. rewrite E1. simpl. auto.
Qed.

(* taking ownership of an operand: the reference now lives in "hand" (one unit above the slots) *)
Definition InvPlus (o : obj) (s : state) : Prop :=
  NoDup (keys (temps s)) /\ NoDup (keys (locs s)) /\ nanny_errs (tr s) = 0 /\
  forall o', bal (tr s) o' = cnt o' (temps s) + cnt o' (locs s) + cres o' (res s) + (if Nat.eqb o o' then 1 else 0).

Lemma take_ok : forall r s L k (Q : result -> Prop), Inv s -> BT L s -> (forall t, r = RTmp t -> L t) ->
  (forall o s1, InvPlus o s1 -> BT (fun u => L u /\ r <> RTmp u) s1 -> res s1 = res s -> locs s1 = locs s ->
      Q (k o s1)) ->
  Q (Err s) -> Q (take r s k).
Proof.
  intros r s L k Q I HB Hr Hk He. destruct I as [a b c e].
  destruct r as [i|x|t]; simpl.
  - apply Hk; simpl; auto.
    + repeat split; simpl; auto. intros o'. rewrite c. lia.
    + intros u. rewrite <- (HB u). unfold bound; simpl. split; [split; [tauto|congruence]|tauto].
  - destruct (get x (locs s)) eqn:G; auto.
    assert (1 <= bal (tr s) o) by (rewrite c; apply cnt_pos in G; lia).
    destruct (Nat.eqb (bal (tr s) o) 0) eqn:E; [apply Nat.eqb_eq in E; lia|].
    apply Hk; simpl; auto.
    + repeat split; simpl; auto. intros o'. rewrite c. lia.
    + intros u. rewrite <- (HB u). unfold bound; simpl. split; [split; [tauto|congruence]|tauto].
  - specialize (Hr t eq_refl). apply HB in Hr. unfold bound in Hr.
    destruct (get t (temps s)) eqn:G; [|congruence].
    apply Hk; simpl; auto.
    + repeat split; simpl; auto. apply nodup_rem; auto.
      intros o'. rewrite c. pose proof (cnt_rem o' t o _ a G). rewrite (Nat.eqb_sym o o') in *. b2n; lia.
    + intros u. unfold bound; simpl. destruct (Nat.eq_dec u t).
      * subst. rewrite get_rem_same. split; [congruence|]. intros [_ H]. congruence.
      * rewrite get_rem_other; auto. rewrite <- (HB u). unfold bound. split; [split; [tauto|congruence]|tauto].
Qed.

Lemma step_ISetLoc : forall O x r s L, Inv s -> BT L s -> (forall t, r = RTmp t -> L t) ->
  post (step O (ISetLoc x r) s) (fun u => L u /\ r <> RTmp u) s.
Proof.
  intros O x r s L I HB Hr. simpl. apply take_ok with (L := L); auto; [|simpl; auto].
  intros o s1 (a & b & e & c) HB1 R1 _. unfold release_old.
  destruct (get x (locs s1)) as [p|] eqn:G.
  - assert (Hp : 1 <= bal (tr s1) p) by (rewrite c; apply cnt_pos in G; lia).
    unfold give. simpl. destruct (Nat.eqb (bal (tr s1) p) 0) eqn:E; [apply Nat.eqb_eq in E; lia|].
    simpl. split; [|split; [|auto]].
    + constructor; simpl; auto.
      * apply nodup_put_u; auto.
      * intros o'. rewrite c. pose proof (cnt_rem o' x p _ b G). rewrite (Nat.eqb_sym o o'). b2n; lia.
      * rewrite E. simpl. auto.
    + intros u. apply (HB1 u).
  - simpl. split; [|split; [|auto]].
    + constructor; simpl; auto.
      * apply nodup_put_u; auto.
      * intros o'. rewrite c. rewrite (rem_none _ _ G). rewrite (Nat.eqb_sym o o'). b2n; lia.
    + intros u. apply (HB1 u).
Qed.

(* the return value: afterwards the result slot is occupied *)
Lemma step_ISetRes : forall O r s L, Inv s -> B L s -> (forall t, r = RTmp t -> L t) ->
  match step O (ISetRes r) s with
  | Norm s' => Inv s' /\ BT (fun u => L u /\ r <> RTmp u) s'
  | Err s' => Inv s' /\ res s' = None
  | _ => False
  end.
Proof.
  intros O r s L I [Rn HB] Hr. simpl. apply take_ok with (L := L); auto; try (simpl; auto; fail).
  intros o s1 (a & b & e & c) HB1 R1 _. rewrite R1, Rn. simpl.
  split.
  - constructor; simpl; auto.
    intros o'. rewrite c, R1, Rn. simpl. rewrite (Nat.eqb_sym o o'). b2n; lia.
  - intros u. apply (HB1 u).
Qed.

Lemma step_INext : forall O d it s L, Inv s -> BT L s -> L it -> ~ L d ->
  match step O (INext d it) s with
  | Norm s' => Inv s' /\ res s' = res s /\
               if flag s' then BT (fun u => L u \/ u = d) s' else BT L s'
  | Err s' => Inv s' /\ res s' = res s
  | _ => False
  end.
Proof.
  intros O d it s L I HB Hit Hd. unfold step.
  destruct (rd_ok s (RTmp it) L I HB) as [[o E]|E]; [intros t [= <-]; auto| |]; rewrite E; [|simpl; auto].
  pose proof (Inv_tick s I) as It. pose proof (BT_tick L s HB) as Bt.
  destruct (fail O (calls s)); [simpl; auto|].
  destruct (more O (calls s)).
  - assert (I2 : Inv (set_flag true (fresh (tick s)))) by (apply Inv_flag, Inv_fresh; auto).
    assert (B2 : BT L (set_flag true (fresh (tick s)))) by (apply BT_flag, BT_fresh; auto).
    destruct (new_ref_ok (set_flag true (fresh (tick s))) d (nxt s) L I2 B2 Hd) as (s3 & E3 & I3 & B3 & R3 & F3).
    simpl in E3. rewrite E3. rewrite F3. simpl. auto.
  - simpl. split; [apply Inv_flag; auto|]. split; [auto|]. apply BT_flag; auto.
Qed.

(* ---------- straight-line code ---------- *)
Definition triple (O : orc) (L : nat -> Prop) (c : list instr) (L' : nat -> Prop) : Prop :=
  forall s, Inv s -> B L s ->
    match run O c s with
    | Norm s' => Inv s' /\ B L' s'
    | Err s' => Inv s' /\ res s' = None
    | _ => False
    end.

Lemma triple_nil : forall O L, triple O L [] L.
Proof. intros O L s I HB. simpl. auto. Qed.

Lemma triple_ext : forall O L c L1 L2, (forall u, L1 u <-> L2 u) -> triple O L c L1 -> triple O L c L2.
Proof.
  intros O L c L1 L2 H T s I HB. specialize (T s I HB). destruct (run O c s); auto.
  destruct T; split; auto. eapply B_ext; eauto.
Qed.

Lemma triple_pre : forall O L1 L2 c L', (forall u, L1 u <-> L2 u) -> triple O L1 c L' -> triple O L2 c L'.
Proof.
  intros O L1 L2 c L' H T s I HB. apply T; auto. eapply B_ext; [|eauto]. intros; symmetry; auto.
Qed.

Lemma run_app : forall O c1 c2 s, run O (c1 ++ c2) s = bind (run O c1 s) (run O c2).
Proof.
  induction c1; simpl; intros; auto. destruct (step O a s); simpl; auto.
Qed.

Lemma triple_app : forall O L c1 L1 c2 L2, triple O L c1 L1 -> triple O L1 c2 L2 -> triple O L (c1 ++ c2) L2.
Proof.
  intros O L c1 L1 c2 L2 T1 T2 s I HB. rewrite run_app. specialize (T1 s I HB).
  destruct (run O c1 s); simpl; auto. destruct T1. apply T2; auto.
Qed.

Lemma triple_one : forall O L i L',
  (forall s, Inv s -> BT L s -> post (step O i s) L' s) -> triple O L [i] L'.
Proof.
  intros O L i L' H s I [Rn HB]. specialize (H s I HB). simpl. unfold post in H.
  destruct (step O i s); simpl; auto.
  - destruct H as (a & b & c). split; auto. split; auto. congruence.
  - destruct H. split; auto. congruence.
Qed.

Lemma triple_cons : forall O L i L1 c L2, triple O L [i] L1 -> triple O L1 c L2 -> triple O L (i :: c) L2.
Proof. intros O L i L1 c L2 H1 H2. exact (triple_app O L [i] L1 c L2 H1 H2). Qed.

Lemma triple_decrefs : forall O ts (L : nat -> Prop), NoDup ts -> (forall t, In t ts -> L t) ->
  triple O L (map IDecref ts) (fun u => L u /\ ~ In u ts).
Proof.
  induction ts as [|t ts IH]; simpl; intros L Hnd Hin.
  - eapply triple_ext; [|apply triple_nil]. simpl; tauto.
  - inversion Hnd; subst. change (IDecref t :: map IDecref ts) with ([IDecref t] ++ map IDecref ts).
    eapply triple_ext; [|eapply triple_app with (L1 := fun u => L u /\ u <> t)].
    2:{ apply triple_one. intros. apply step_IDecref; auto. }
    2:{ apply IH; auto. intros u Hu. split; auto. intro; subst; auto. }
    simpl. intros u. intuition.
Qed.

Lemma in_tmps_of : forall rs t, In t (tmps_of rs) <-> In (RTmp t) rs.
Proof.
  induction rs as [|r rs IH]; simpl; intros; [tauto|].
  rewrite in_app_iff, IH. destruct r as [i|x|t0]; simpl.
  - intuition discriminate.
  - intuition discriminate.
  - split.
    + intros [[H|[]]|H]; [subst; auto|auto].
    + intros [H|H]; [injection H as ->; auto|auto].
Qed.

Lemma triple_gives : forall O rs (L : nat -> Prop), NoDup (tmps_of rs) -> (forall t, In t (tmps_of rs) -> L t) ->
  triple O L (map give_of rs) (fun u => L u /\ ~ In u (tmps_of rs)).
Proof.
  induction rs as [|r rs IH]; simpl; intros L Hnd Hin.
  - eapply triple_ext; [|apply triple_nil]. simpl; tauto.
  - destruct r as [i|x|t]; simpl in *.
    + eapply triple_cons with (L1 := L); [|apply IH; auto].
      apply triple_one. intros. apply step_IGiveB; auto. discriminate.
    + eapply triple_cons with (L1 := L); [|apply IH; auto].
      apply triple_one. intros. apply step_IGiveB; auto. discriminate.
    + inversion Hnd; subst. eapply triple_ext; [|eapply triple_cons with (L1 := fun u => L u /\ u <> t)].
      2:{ apply triple_one. intros. apply step_ISteal; auto. }
      2:{ apply IH; auto. intros u Hu. split; auto. intro; subst; auto. }
      simpl. intros u. intuition.
Qed.

(* ---------- the temp allocator ---------- *)
Definition wfA (A : astate) : Prop := NoDup (afree A) /\ forall t, In t (afree A) -> t < anext A.
Definition inuse (A : astate) (t : nat) : Prop := t < anext A /\ ~ In t (afree A).

Lemma alloc_ok : forall A t A', alloc A = (t, A') -> wfA A ->
  wfA A' /\ ~ inuse A t /\ (forall u, inuse A' u <-> inuse A u \/ u = t).
Proof.
  intros [n f] t A' H [Hnd Hlt]. unfold alloc in H. simpl in *. destruct f as [|t0 f].
  - injection H as <- <-. unfold wfA, inuse; simpl.
    split; [split; [constructor|intros u []]|]. split; [intros [H _]; lia|].
    intros u; split.
    + intros [H1 H2]. destruct (Nat.eq_dec u n); [auto|left; split; [lia|auto]].
    + intros [[H1 H2]|H1]; (split; [lia|auto]).
  - injection H as <- <-. inversion Hnd as [|? ? Hn1 Hn2]; subst. unfold wfA, inuse; simpl.
    split; [split; [auto|intros u Hu; apply Hlt; right; auto]|].
    split; [intros [_ H]; apply H; auto|].
    intros u; split.
    + intros [H1 H2]. destruct (Nat.eq_dec u t0); [auto|]. left; split; auto.
      intros [H|H]; [congruence|auto].
    + intros [[H1 H2]|H1].
      * split; auto.
      * subst. split; [apply Hlt; left; auto|auto].
Qed.

Lemma release_ok : forall A t, wfA A -> inuse A t ->
  wfA (release t A) /\ (forall u, inuse (release t A) u <-> inuse A u /\ u <> t).
Proof.
  intros [n f] t [Hnd Hlt] [H1 H2]. unfold wfA, inuse, release in *; simpl in *.
  split; [split|].
  - constructor; auto.
  - intros u [<-|H]; auto.
  - intros u; split.
    + intros [Ha Hb]. split; [split; auto|intro; subst; auto].
    + intros [[Ha Hb] Hc]. split; auto. intros [H|H]; [congruence|auto].
Qed.

Lemma release_all_ok : forall ts A, wfA A -> NoDup ts -> (forall t, In t ts -> inuse A t) ->
  wfA (release_all ts A) /\ (forall u, inuse (release_all ts A) u <-> inuse A u /\ ~ In u ts).
Proof.
  induction ts as [|t ts IH]; simpl; intros A W Hnd Hin.
  - split; auto. tauto.
  - inversion Hnd; subst. destruct (release_ok A t W (Hin t (or_introl eq_refl))) as [W1 U1].
    destruct (IH (release t A) W1 H2) as [W2 U2].
    + intros u Hu. apply U1. split; auto. intro; subst; auto.
    + split; auto. intros u. rewrite U2, U1. intuition.
Qed.

Lemma inuse_list_ok : forall A u, In u (inuse_list A) <-> inuse A u.
Proof.
  intros A u. unfold inuse_list, inuse. rewrite filter_In, in_seq, negb_true_iff.
  split.
  - intros [H1 H2]. split; [lia|]. intro Hin. assert (existsb (Nat.eqb u) (afree A) = true).
    { apply existsb_exists. exists u. split; auto. apply Nat.eqb_refl. } congruence.
  - intros [H1 H2]. split; [lia|]. destruct (existsb (Nat.eqb u) (afree A)) eqn:E; auto.
    apply existsb_exists in E. destruct E as (x & Hx & E). apply Nat.eqb_eq in E. subst. tauto.
Qed.

Lemma inuse_list_nodup : forall A, NoDup (inuse_list A).
Proof. intros. unfold inuse_list. apply NoDup_filter. apply seq_NoDup. Qed.

Lemma nodup_snoc : forall (l : list nat) x, NoDup l -> ~ In x l -> NoDup (l ++ [x]).
Proof.
  induction l as [|a l IH]; simpl; intros x Hn Hx.
  - repeat constructor. auto.
  - inversion Hn; subst. constructor.
    + rewrite in_app_iff; simpl. intuition.
    + apply IH; auto.
Qed.

Lemma nodup_tmp_of : forall r, NoDup (tmp_of r).
Proof. destruct r; simpl; repeat constructor; auto. Qed.
Lemma in_tmp_of : forall r u, In u (tmp_of r) <-> r = RTmp u.
Proof. destruct r; simpl; intuition; try discriminate; subst; auto. injection H as ->; auto. Qed.

(* ---------- expressions ---------- *)
Definition expr_ok (e : expr) : Prop :=
  forall A c r A', gen_expr e A = (c, r, A') -> wfA A ->
    wfA A' /\ (forall u, inuse A' u <-> inuse A u \/ r = RTmp u) /\ (forall u, r = RTmp u -> ~ inuse A u) /\
    forall O (L : nat -> Prop), (forall u, L u -> inuse A u) -> triple O L c (fun u => L u \/ r = RTmp u).

Definition exprs_ok (es : exprs) : Prop :=
  forall A c rs A', gen_list es A = (c, rs, A') -> wfA A ->
    wfA A' /\ (forall u, inuse A' u <-> inuse A u \/ In u (tmps_of rs)) /\ NoDup (tmps_of rs) /\
    (forall u, In u (tmps_of rs) -> ~ inuse A u) /\
    forall O (L : nat -> Prop), (forall u, L u -> inuse A u) -> triple O L c (fun u => L u \/ In u (tmps_of rs)).

Scheme expr_mut := Induction for expr Sort Prop
  with exprs_mut := Induction for exprs Sort Prop.
Combined Scheme expr_exprs_ind from expr_mut, exprs_mut.

Lemma gen_expr_EOp : forall es A, gen_expr (EOp es) A =
  let '(c, rs, A1) := gen_list es A in
  let '(d, A2) := alloc A1 in
  (c ++ [IOp d rs []] ++ map IDecref (tmps_of rs), RTmp d, release_all (tmps_of rs) A2).
Proof. reflexivity. Qed.
Lemma gen_expr_ESeq : forall es A, gen_expr (ESeq es) A =
  let '(c, rs, A1) := gen_list es A in
  let '(d, A2) := alloc A1 in
  (c ++ [IAlloc d] ++ map give_of rs, RTmp d, release_all (tmps_of rs) A2).
Proof. reflexivity. Qed.
Lemma gen_expr_ECall : forall f es A, gen_expr (ECall f es) A =
  let '(d, A1) := alloc A in
  let '(sf, A2) := alloc A1 in
  let '(cf, rf, A3) := gen_expr f A2 in
  let '(cf2, ft, A4) :=
      match rf with
      | RTmp t => ([], t, A3)
      | _ => let '(t, A') := alloc A3 in ([IIncref t rf], t, A')
      end in
  let '(ca, rs, A5) := gen_list es A4 in
  (cf ++ cf2 ++ ca ++ [IOp d (RTmp ft :: rs) (tmps_of rs ++ [ft])], RTmp d,
   release ft (release_all (tmps_of rs) (release sf A5))).
Proof. reflexivity. Qed.
Lemma gen_list_ECons : forall e es A, gen_list (ECons e es) A =
  let '(c1, r, A1) := gen_expr e A in
  let '(c2, rs, A2) := gen_list es A1 in
  (c1 ++ c2, r :: rs, A2).
Proof. reflexivity. Qed.

Lemma gen_ok : (forall e, expr_ok e) /\ (forall es, exprs_ok es).
Proof.
  apply expr_exprs_ind.
  - (* EArg *) intros i A c r A' H W. injection H as <- <- <-. split; [auto|]. split; [|split].
    + intros u. split; [auto|intros [H|H]; [auto|discriminate]].
    + intros u H. discriminate.
    + intros O L HL. eapply triple_ext; [|apply triple_nil]. simpl. intuition discriminate.
  - (* ELoc *) intros x A c r A' H W. injection H as <- <- <-. split; [auto|]. split; [|split].
    + intros u. split; [auto|intros [H|H]; [auto|discriminate]].
    + intros u H. discriminate.
    + intros O L HL. eapply triple_ext; [|apply triple_nil]. simpl. intuition discriminate.
  - (* EOp *) intros es IH A c r A' H W. rewrite gen_expr_EOp in H.
    destruct (gen_list es A) as [[c0 rs] A1] eqn:G. destruct (alloc A1) as [d A2] eqn:Al.
    injection H as <- <- <-.
    destruct (IH _ _ _ _ G W) as (W1 & U1 & Nd & Dj & T1).
    destruct (alloc_ok _ _ _ Al W1) as (W2 & Nd2 & U2).
    destruct (release_all_ok (tmps_of rs) A2 W2 Nd) as (W3 & U3).
    { intros t Ht. apply U2. left. apply U1. auto. }
    assert (HdT : ~ In d (tmps_of rs)). { intro. apply Nd2. apply U1. auto. }
    assert (HdA : ~ inuse A d). { intro. apply Nd2. apply U1. auto. }
    split; auto. split; [|split].
    + intros u. rewrite U3, U2, U1. split.
      * intros [[[H|H]|H] H']; [auto|tauto|subst; auto].
      * intros [H|H]; [split; [auto|intro; eapply Dj; eauto]|injection H as <-; auto].
    + intros u [= <-]; auto.
    + intros O L HL.
      eapply triple_ext; [|eapply triple_app with (L1 := fun u => L u \/ In u (tmps_of rs)); [apply T1; auto|
        eapply triple_cons with (L1 := fun u => ((L u \/ In u (tmps_of rs)) /\ ~ In u []) \/ u = d)]].
      2:{ apply triple_one. intros s I HB.
          apply (step_IOp O d rs [] s (fun u => L u \/ In u (tmps_of rs))); auto.
          - intros t Ht. right. apply in_tmps_of; auto.
          - constructor.
          - intros t [].
          - intros [H|H]; auto. }
      2:{ apply triple_decrefs; auto; try (intros t Ht; left; split; auto). }
      simpl. intros u. split.
      * intros [[[[H|H] _]|H] H']; [auto|tauto|subst; auto].
      * intros [H|H]; [|injection H as <-; auto].
        split; [left; split; auto|]. intro; eapply Dj; eauto.
  - (* ESeq *) intros es IH A c r A' H W. rewrite gen_expr_ESeq in H.
    destruct (gen_list es A) as [[c0 rs] A1] eqn:G. destruct (alloc A1) as [d A2] eqn:Al.
    injection H as <- <- <-.
    destruct (IH _ _ _ _ G W) as (W1 & U1 & Nd & Dj & T1).
    destruct (alloc_ok _ _ _ Al W1) as (W2 & Nd2 & U2).
    destruct (release_all_ok (tmps_of rs) A2 W2 Nd) as (W3 & U3).
    { intros t Ht. apply U2. left. apply U1. auto. }
    assert (HdT : ~ In d (tmps_of rs)). { intro. apply Nd2. apply U1. auto. }
    assert (HdA : ~ inuse A d). { intro. apply Nd2. apply U1. auto. }
    split; auto. split; [|split].
    + intros u. rewrite U3, U2, U1. split.
      * intros [[[H|H]|H] H']; [auto|tauto|subst; auto].
      * intros [H|H]; [split; [auto|intro; eapply Dj; eauto]|injection H as <-; auto].
    + intros u [= <-]; auto.
    + intros O L HL.
      eapply triple_ext; [|eapply triple_app with (L1 := fun u => L u \/ In u (tmps_of rs)); [apply T1; auto|
        eapply triple_cons with (L1 := fun u => (L u \/ In u (tmps_of rs)) \/ u = d)]].
      2:{ apply triple_one. intros s I HB. apply step_IAlloc; auto. intros [H|H]; auto. }
      2:{ apply triple_gives; auto. }
      simpl. intros u. split.
      * intros [[[H|H]|H] H']; [auto|tauto|subst; auto].
      * intros [H|H]; [|injection H as <-; auto].
        split; [left; auto|]. intro; eapply Dj; eauto.
  - (* ECall *) intros f IHf es IHes A c r A' Hgen W. rewrite gen_expr_ECall in Hgen.
    destruct (alloc A) as [d A1] eqn:Al1. destruct (alloc A1) as [sf A2] eqn:Al2.
    destruct (gen_expr f A2) as [[cf rf] A3] eqn:Gf.
    destruct (alloc_ok _ _ _ Al1 W) as (W1 & Nd1 & U1).
    destruct (alloc_ok _ _ _ Al2 W1) as (W2 & Nd2 & U2).
    destruct (IHf _ _ _ _ Gf W2) as (W3 & U3 & Nf & Tf).
    (* the function temp *)
    assert (exists cf2 ft A4,
      (match rf with RTmp t => ([], t, A3) | _ => let '(t, A') := alloc A3 in ([IIncref t rf], t, A') end)
        = (cf2, ft, A4) /\ wfA A4 /\ (forall u, inuse A4 u <-> inuse A2 u \/ u = ft) /\ ~ inuse A2 ft /\
      forall O (L : nat -> Prop), (forall u, L u -> inuse A2 u) -> triple O L (cf ++ cf2) (fun u => L u \/ u = ft)) as HF.
    { destruct rf as [i|x|t].
      - destruct (alloc A3) as [t A4] eqn:Al3. destruct (alloc_ok _ _ _ Al3 W3) as (W4 & Nd4 & U4).
        exists [IIncref t (RArg i)], t, A4. split; auto. split; auto. split; [|split].
        + intros u. rewrite U4, U3. intuition discriminate.
        + intro. apply Nd4. apply U3. auto.
        + intros O L HL. eapply triple_app; [apply Tf; auto|].
          eapply triple_pre with (L1 := L); [intuition discriminate|].
          apply triple_one. intros. apply step_IIncref; auto. discriminate.
          intro. apply Nd4. apply U3. auto.
      - destruct (alloc A3) as [t A4] eqn:Al3. destruct (alloc_ok _ _ _ Al3 W3) as (W4 & Nd4 & U4).
        exists [IIncref t (RLoc x)], t, A4. split; auto. split; auto. split; [|split].
        + intros u. rewrite U4, U3. intuition discriminate.
        + intro. apply Nd4. apply U3. auto.
        + intros O L HL. eapply triple_app; [apply Tf; auto|].
          eapply triple_pre with (L1 := L); [intuition discriminate|].
          apply triple_one. intros. apply step_IIncref; auto. discriminate.
          intro. apply Nd4. apply U3. auto.
      - exists [], t, A3. split; auto. split; auto. split; [|split].
        + intros u. rewrite U3. split; (intros [H|H]; [auto|right]); [injection H as <-; auto|subst; auto].
        + apply Nf; auto.
        + intros O L HL. rewrite app_nil_r. eapply triple_ext; [|apply Tf; auto].
          simpl. intros u. split; (intros [H|H]; [auto|right]); [injection H as <-; auto|subst; auto]. }
    destruct HF as (cf2 & ft & A4 & EF & W4 & U4 & Nft & TF). rewrite EF in Hgen.
    destruct (gen_list es A4) as [[ca rs] A5] eqn:Ga. injection Hgen as <- <- <-.
    destruct (IHes _ _ _ _ Ga W4) as (W5 & U5 & Nd & Dj & Ta).
    assert (Hsf5 : inuse A5 sf). { apply U5. left. apply U4. left. apply U2. auto. }
    destruct (release_ok A5 sf W5 Hsf5) as (W6 & U6).
    assert (HsfT : ~ In sf (tmps_of rs)). { intro Hx. apply (Dj _ Hx). apply U4. left. apply U2. auto. }
    assert (Hsfft : sf <> ft). { intro. subst. apply Nft. apply U2. auto. }
    assert (HftT : ~ In ft (tmps_of rs)). { intro Hx. apply (Dj _ Hx). apply U4. auto. }
    assert (HdA2 : inuse A2 d). { apply U2. left. apply U1. auto. }
    assert (Hdft : d <> ft). { intro. subst. auto. }
    assert (HdT : ~ In d (tmps_of rs)). { intro Hx. apply (Dj _ Hx). apply U4. auto. }
    assert (Hdsf : d <> sf). { intro. subst. apply Nd2. apply U1. auto. }
    destruct (release_all_ok (tmps_of rs) (release sf A5) W6 Nd) as (W7 & U7).
    { intros t Ht. apply U6. split; [apply U5; auto|]. intro; subst; auto. }
    destruct (release_ok (release_all (tmps_of rs) (release sf A5)) ft W7) as (W8 & U8).
    { apply U7. split; auto. apply U6. split; auto. apply U5. left. apply U4. auto. }
    split; auto. split; [|split].
    + assert (HAsf : ~ inuse A sf). { intro Hx. apply Nd2. apply U1. auto. }
      assert (HAft : ~ inuse A ft). { intro Hx. apply Nft. apply U2. left. apply U1. auto. }
      assert (HAT : forall u, In u (tmps_of rs) -> ~ inuse A u).
      { intros u Hu Hx. apply (Dj _ Hu). apply U4. left. apply U2. left. apply U1. auto. }
      intros u. rewrite U8, U7, U6, U5, U4, U2, U1. split.
      * intros [[[[[[[Hx|Hx]|Hx]|Hx]|Hx] H1] H2] H3]; try tauto. subst; auto.
      * intros [Hx|Hx].
        -- split; [split; [split|]|].
           ++ auto.
           ++ intro; subst; auto.
           ++ intro Hy. apply (HAT _ Hy); auto.
           ++ intro; subst; auto.
        -- injection Hx as <-. split; [split; [split|]|]; auto.
    + intros u [= <-]; auto.
    + intros O L HL.
      assert (HL2 : forall u, L u -> inuse A2 u). { intros u Hu. apply U2. left. apply U1. auto. }
      replace (cf ++ cf2 ++ ca ++ [IOp d (RTmp ft :: rs) (tmps_of rs ++ [ft])])
        with ((cf ++ cf2) ++ ca ++ [IOp d (RTmp ft :: rs) (tmps_of rs ++ [ft])]) by (symmetry; apply app_assoc).
      eapply triple_ext; [|eapply triple_app with (L1 := fun u => L u \/ u = ft); [apply TF; auto|
        eapply triple_app with (L1 := fun u => (L u \/ u = ft) \/ In u (tmps_of rs)); [apply Ta|]]].
      3:{ apply triple_one. intros s I HB.
          apply (step_IOp O d (RTmp ft :: rs) (tmps_of rs ++ [ft]) s (fun u => (L u \/ u = ft) \/ In u (tmps_of rs))); auto.
          - intros t [Ht|Ht]; [injection Ht as <-; auto|]. right. apply in_tmps_of; auto.
          - apply nodup_snoc; auto.
          - intros t Ht. apply in_app_iff in Ht. destruct Ht as [Ht|[<-|[]]]; auto.
          - intros [[H|H]|H]; auto; try (apply Nd1; auto). }
      2:{ intros u [H|H]; [apply U4; auto|subst; apply U4; auto]. }
      simpl. intros u. rewrite in_app_iff. simpl. split.
      * intros [[[[H|H]|H] H']|H]; auto; try tauto; subst; try tauto; auto.
      * intros [H|H]; [|injection H as <-; auto]. left. split; auto.
        intros [Hx|[Hx|[]]].
        -- apply (Dj _ Hx). apply U4. auto.
        -- subst. apply Nft. auto.
  - (* ENil *) intros A c rs A' H W. injection H as <- <- <-. simpl. split; [auto|]. split; [|split; [|split]].
    + intros u; tauto.
    + constructor.
    + intros u [].
    + intros O L HL. eapply triple_ext; [|apply triple_nil]. simpl; tauto.
  - (* ECons *) intros e IHe es IHes A c rs A' H W. rewrite gen_list_ECons in H.
    destruct (gen_expr e A) as [[c1 r] A1] eqn:G1. destruct (gen_list es A1) as [[c2 rs2] A2] eqn:G2.
    injection H as <- <- <-.
    destruct (IHe _ _ _ _ G1 W) as (W1 & U1 & N1 & T1).
    destruct (IHes _ _ _ _ G2 W1) as (W2 & U2 & Nd & Dj & T2).
    split; auto. simpl. split; [|split; [|split]].
    + intros u. rewrite U2, U1, in_app_iff, in_tmp_of. tauto.
    + destruct r; simpl; auto. constructor; auto. intro Hx. apply (Dj _ Hx). apply U1. auto.
    + intros u Hu. apply in_app_iff in Hu. destruct Hu as [Hu|Hu].
      * apply in_tmp_of in Hu. auto.
      * intro. apply (Dj _ Hu). apply U1. auto.
    + intros O L HL. eapply triple_ext; [|eapply triple_app; [apply T1; auto|apply T2]].
      * simpl. intros u. rewrite in_app_iff, in_tmp_of. tauto.
      * intros u [H|H]; apply U1; auto.
Qed.

(* ---------- statements ---------- *)
Lemma cseq_exec : forall O fuel c k s,
  exec O fuel (cseq c k) s = match run O c s with Norm s' => exec O fuel k s' | r => r end.
Proof.
  induction c as [|i c IH]; simpl; intros; auto. destruct (step O i s); simpl; auto.
Qed.

Lemma run_decrefs_eq : forall O ts s, run O (map IDecref ts) s = decref_all ts s.
Proof.
  induction ts as [|t ts IH]; simpl; intros; auto.
  destruct (decref_clear t s); simpl; auto.
Qed.

Definition sspec (O : orc) (fuel : nat) (inl : bool) (c : code) (L : nat -> Prop) : Prop :=
  forall s, Inv s -> B L s ->
    match exec O fuel c s with
    | Norm s' => Inv s' /\ B L s'
    | Brk s' | Cnt s' => inl = true /\ Inv s' /\ B L s'
    | Err s' => Inv s' /\ res s' = None
    | Ret s' => Inv s' /\ BT (fun _ => False) s'
    | Stuck _ => False
    | Fuel => True
    end.

Lemma sspec_ext : forall O fuel inl c (L L' : nat -> Prop), (forall u, L u <-> L' u) ->
  sspec O fuel inl c L -> sspec O fuel inl c L'.
Proof.
  intros O fuel inl c L L' H S s I HB.
  assert (HB' : B L s) by (eapply B_ext; [|eauto]; intros; symmetry; auto).
  specialize (S s I HB'). destruct (exec O fuel c s); auto.
  - destruct S; split; auto. eapply B_ext; eauto.
  - destruct S as (a & b & c0). split; [auto|]. split; [auto|]. eapply B_ext; eauto.
  - destruct S as (a & b & c0). split; [auto|]. split; [auto|]. eapply B_ext; eauto.
Qed.

(* a straight-line prefix followed by a continuation *)
Lemma sspec_cseq : forall O fuel inl c k (L L1 : nat -> Prop),
  triple O L c L1 ->
  (forall s, Inv s -> B L1 s ->
     match exec O fuel k s with
     | Norm s' => Inv s' /\ B L s'
     | Brk s' | Cnt s' => inl = true /\ Inv s' /\ B L s'
     | Err s' => Inv s' /\ res s' = None
     | Ret s' => Inv s' /\ BT (fun _ => False) s'
     | Stuck _ => False
     | Fuel => True
     end) ->
  sspec O fuel inl (cseq c k) L.
Proof.
  intros O fuel inl c k L L1 T K s I HB. rewrite cseq_exec. specialize (T s I HB).
  destruct (run O c s); auto; try contradiction. destruct T. apply K; auto.
Qed.

Lemma release_res_ok : forall e A c r A1, gen_expr e A = (c, r, A1) -> wfA A ->
  wfA (release_all (tmp_of r) A1) /\ (forall u, inuse (release_all (tmp_of r) A1) u <-> inuse A u).
Proof.
  intros e A c r A1 G W. destruct (proj1 gen_ok e A c r A1 G W) as (W1 & U1 & N1 & _).
  destruct (release_all_ok (tmp_of r) A1 W1 (nodup_tmp_of r)) as (W2 & U2).
  { intros t Ht. apply in_tmp_of in Ht. apply U1. auto. }
  split; auto. intros u. rewrite U2, U1, in_tmp_of. split.
  - intros [[H|H] H']; tauto.
  - intros H. split; auto. intro Hr. apply (N1 u Hr); auto.
Qed.

Definition stmt_ok (st : stmt) : Prop :=
  forall A c A' inl, gen_stmt st A = (c, A') -> wfA A -> jumps_ok inl st = true ->
    wfA A' /\ (forall u, inuse A' u <-> inuse A u) /\ forall O fuel, sspec O fuel inl c (inuse A).

Lemma stmt_skip : stmt_ok SSkip.
Proof.
  intros A c A' inl H W _. injection H as <- <-. split; auto. split; [tauto|].
  intros O fuel s I HB. simpl. auto.
Qed.

Lemma stmt_jump : stmt_ok SBreak /\ stmt_ok SContinue.
Proof.
  split; intros A c A' inl H W J; injection H as <- <-; simpl in J; (split; [auto|]); (split; [tauto|]);
    intros O fuel s I HB; simpl; auto.
Qed.

Lemma stmt_seq : forall s1 s2, stmt_ok s1 -> stmt_ok s2 -> stmt_ok (SSeq s1 s2).
Proof.
  intros s1 s2 IH1 IH2 A c A' inl H W J. simpl in H, J. apply andb_true_iff in J. destruct J as [J1 J2].
  destruct (gen_stmt s1 A) as [c1 A1] eqn:G1. destruct (gen_stmt s2 A1) as [c2 A2] eqn:G2.
  injection H as <- <-.
  destruct (IH1 _ _ _ _ G1 W J1) as (W1 & U1 & S1). destruct (IH2 _ _ _ _ G2 W1 J2) as (W2 & U2 & S2).
  split; auto. split; [intros u; rewrite U2, U1; tauto|].
  intros O fuel s I HB. simpl. specialize (S1 O fuel s I HB).
  destruct (exec O fuel c1 s); simpl; auto. destruct S1.
  apply (sspec_ext O fuel inl c2 (inuse A1) (inuse A) U1 (S2 O fuel)); auto.
Qed.

Lemma stmt_assign : forall x e, stmt_ok (SAssign x e).
Proof.
  intros x e A c A' inl H W _. simpl in H. destruct (gen_expr e A) as [[c0 r] A1] eqn:G.
  injection H as <- <-. destruct (release_res_ok _ _ _ _ _ G W) as (W2 & U2).
  destruct (proj1 gen_ok e A c0 r A1 G W) as (W1 & U1 & N1 & T1).
  split; auto. split; auto. intros O fuel.
  eapply sspec_cseq with (L1 := inuse A).
  - eapply triple_ext; [|eapply triple_app with (L1 := fun u => inuse A u \/ r = RTmp u); [apply T1; auto|]].
    2:{ apply triple_one. intros s I HB. apply (step_ISetLoc O x r s (fun u => inuse A u \/ r = RTmp u)); auto. }
    simpl. intros u. split; [tauto|]. intros Hu. split; auto. intro Hr. apply (N1 u Hr); auto.
  - intros s I HB. simpl. auto.
Qed.

Lemma stmt_expr : forall e, stmt_ok (SExpr e).
Proof.
  intros e A c A' inl H W _. simpl in H. destruct (gen_expr e A) as [[c0 r] A1] eqn:G.
  injection H as <- <-. destruct (release_res_ok _ _ _ _ _ G W) as (W2 & U2).
  destruct (proj1 gen_ok e A c0 r A1 G W) as (W1 & U1 & N1 & T1).
  split; auto. split; auto. intros O fuel.
  eapply sspec_cseq with (L1 := inuse A).
  - eapply triple_ext; [|eapply triple_app with (L1 := fun u => inuse A u \/ r = RTmp u); [apply T1; auto|]].
    2:{ apply triple_decrefs; [apply nodup_tmp_of|]. intros t Ht. apply in_tmp_of in Ht. auto. }
    simpl. intros u. rewrite in_tmp_of. split; [tauto|]. intros Hu. split; auto. intro Hr. apply (N1 u Hr); auto.
  - intros s I HB. simpl. auto.
Qed.

Lemma stmt_return : forall e, stmt_ok (SReturn e).
Proof.
  intros e A c A' inl H W _. simpl in H. destruct (gen_expr e A) as [[c0 r] A1] eqn:G.
  injection H as <- <-. destruct (release_res_ok _ _ _ _ _ G W) as (W2 & U2).
  destruct (proj1 gen_ok e A c0 r A1 G W) as (W1 & U1 & N1 & T1).
  split; auto. split; auto. intros O fuel s I HB.
  rewrite cseq_exec, run_app. specialize (T1 O (inuse A) (fun u H => H) s I HB).
  destruct (run O c0 s) as [s1|s1|s1|s1|s1|w|]; cbn [bind run app]; try contradiction; auto.
  destruct T1 as [I1 B1].
  assert (HS := step_ISetRes O r s1 (fun u => inuse A u \/ r = RTmp u) I1 B1 (fun t H => or_intror H)).
  destruct (step O (ISetRes r) s1) as [s2|s2|s2|s2|s2|w|]; cbn [bind run app]; try contradiction; auto.
  destruct HS as [I2 B2].
  rewrite run_decrefs_eq.
  destruct (decref_all_ok (inuse_list (release_all (tmp_of r) A1)) s2 _ I2 B2 (inuse_list_nodup _))
    as (s3 & E3 & I3 & B3 & _).
  { intros t Ht. apply inuse_list_ok in Ht. apply U2 in Ht. split; auto. intro Hr. apply (N1 t Hr); auto. }
  rewrite E3. cbn [exec]. split; auto. eapply BT_ext; [|eauto]. simpl. intros u. split; [|tauto].
  intros [[Hu Hr] Hn]. apply Hn. apply inuse_list_ok. apply U2. destruct Hu; auto. exfalso. tauto.
Qed.

Lemma stmt_if : forall e s1 s2, stmt_ok s1 -> stmt_ok s2 -> stmt_ok (SIf e s1 s2).
Proof.
  intros e s1 s2 IH1 IH2 A c A' inl H W J. simpl in H, J. apply andb_true_iff in J. destruct J as [J1 J2].
  destruct (gen_expr e A) as [[c0 r] A1] eqn:G.
  destruct (gen_stmt s1 (release_all (tmp_of r) A1)) as [c1 A3] eqn:G1.
  destruct (gen_stmt s2 A3) as [c2 A4] eqn:G2. injection H as <- <-.
  destruct (release_res_ok _ _ _ _ _ G W) as (W2 & U2).
  destruct (proj1 gen_ok e A c0 r A1 G W) as (W1 & U1 & N1 & T1).
  destruct (IH1 _ _ _ _ G1 W2 J1) as (W3 & U3 & S1). destruct (IH2 _ _ _ _ G2 W3 J2) as (W4 & U4 & S2).
  split; auto. split; [intros u; rewrite U4, U3, U2; tauto|]. intros O fuel.
  eapply sspec_cseq with (L1 := inuse A).
  - eapply triple_ext; [|eapply triple_app with (L1 := fun u => inuse A u \/ r = RTmp u); [apply T1; auto|
      eapply triple_cons with (L1 := fun u => inuse A u \/ r = RTmp u)]].
    2:{ apply triple_one. intros s I HB. apply (step_ITruth O r s (fun u => inuse A u \/ r = RTmp u)); auto. }
    2:{ apply triple_decrefs; [apply nodup_tmp_of|]. intros t Ht. apply in_tmp_of in Ht. auto. }
    simpl. intros u. rewrite in_tmp_of. split; [tauto|]. intros Hu. split; auto. intro Hr. apply (N1 u Hr); auto.
  - intros s I HB. cbn [exec]. destruct (flag s).
    + apply (sspec_ext O fuel inl c1 _ (inuse A) U2 (S1 O fuel)); auto.
    + apply (sspec_ext O fuel inl c2 (inuse A3) (inuse A)); auto. intros u. rewrite U3, U2. tauto.
Qed.

Lemma stmt_store : forall v es vl, stmt_ok (SStore v es vl).
Proof.
  intros v es vl A c A' inl H W _. simpl in H.
  destruct (gen_expr v A) as [[c1 r] A1] eqn:G1. destruct (gen_list es A1) as [[c2 rs] A2] eqn:G2.
  injection H as <- <-.
  destruct (proj1 gen_ok v A c1 r A1 G1 W) as (W1 & U1 & N1 & T1).
  destruct (proj2 gen_ok es A1 c2 rs A2 G2 W1) as (W2 & U2 & Nd & Dj & T2).
  set (order := if vl then tmps_of rs ++ tmp_of r else tmp_of r ++ tmps_of rs).
  assert (Hin : forall u, In u order <-> r = RTmp u \/ In u (tmps_of rs)).
  { intros u. unfold order. destruct vl; rewrite in_app_iff, in_tmp_of; tauto. }
  assert (HrT : forall u, r = RTmp u -> ~ In u (tmps_of rs)).
  { intros u Hr Hx. apply (Dj _ Hx). apply U1. auto. }
  assert (Hnd : NoDup order).
  { unfold order. destruct vl.
    - destruct r; simpl; rewrite ?app_nil_r; auto. apply nodup_snoc; auto.
    - destruct r; simpl; auto. constructor; auto. }
  destruct (release_all_ok order A2 W2 Hnd) as (W3 & U3).
  { intros t Ht. apply Hin in Ht. apply U2. destruct Ht; [left; apply U1; auto|auto]. }
  split; auto. split.
  { intros u. rewrite U3, U2, U1, Hin. split.
    - intros [[[Hx|Hx]|Hx] Hn]; tauto.
    - intros Hx. split; auto. intros [Hr|Hr]; [apply (N1 u Hr); auto|]. apply (Dj _ Hr). apply U1. auto. }
  intros O fuel. eapply sspec_cseq with (L1 := inuse A); [|intros s I HB; cbn [exec]; auto].
  eapply triple_ext; [|eapply triple_app with (L1 := fun u => inuse A u \/ r = RTmp u); [apply T1; auto|
    eapply triple_app with (L1 := fun u => (inuse A u \/ r = RTmp u) \/ In u (tmps_of rs)); [apply T2|
    eapply triple_cons with (L1 := fun u => (inuse A u \/ r = RTmp u) \/ In u (tmps_of rs))]]].
  3:{ apply triple_one. intros s I HB.
      apply (step_IVoid O (rs ++ [r]) s (fun u => (inuse A u \/ r = RTmp u) \/ In u (tmps_of rs))); auto.
      intros t Ht. apply in_app_iff in Ht. destruct Ht as [Ht|[Ht|[]]]; [right; apply in_tmps_of; auto|subst; auto]. }
  3:{ apply triple_decrefs; auto. intros t Ht. apply Hin in Ht. tauto. }
  2:{ intros u Hu. apply U1. auto. }
  simpl. intros u. rewrite Hin. split; [tauto|]. intros Hx. split; auto.
  intros [Hr|Hr]; [apply (N1 u Hr); auto|]. apply (Dj _ Hr). apply U1. auto.
Qed.

(* the for-in loop *)
Lemma loop_ok : forall O it d x body (L : nat -> Prop) inl n,
  L it -> ~ L d ->
  (forall s, Inv s -> B L s ->
     match body s with
     | Norm s' => Inv s' /\ B L s'
     | Brk s' | Cnt s' => Inv s' /\ B L s'
     | Err s' => Inv s' /\ res s' = None
     | Ret s' => Inv s' /\ BT (fun _ => False) s'
     | Stuck _ => False
     | Fuel => True
     end) ->
  forall s, Inv s -> B L s ->
    match loop_on O it d x body n s with
    | Norm s' => Inv s' /\ B (fun u => L u /\ u <> it) s'
    | Brk s' | Cnt s' => inl = true /\ Inv s' /\ B (fun u => L u /\ u <> it) s'
    | Err s' => Inv s' /\ res s' = None
    | Ret s' => Inv s' /\ BT (fun _ => False) s'
    | Stuck _ => False
    | Fuel => True
    end.
Proof.
  intros O it d x body L inl n Hit Hd Hb. induction n as [|n IH]; intros s I [Rn HB]; cbn [loop_on]; auto.
  pose proof (step_INext O d it s L I HB Hit Hd) as HN.
  destruct (step O (INext d it) s) as [s1|s1|s1|s1|s1|w|]; try contradiction.
  2:{ destruct HN; split; auto; congruence. }
  destruct HN as (I1 & R1 & HB1). destruct (flag s1).
  - pose proof (step_ISetLoc O x (RTmp d) s1 _ I1 HB1 (fun t H => or_intror (eq_sym (f_equal (fun r => match r with RTmp u => u | _ => t end) H)))) as HS.
    unfold post in HS.
    destruct (step O (ISetLoc x (RTmp d)) s1) as [s2|s2|s2|s2|s2|w|]; try contradiction.
    2:{ destruct HS; split; auto; congruence. }
    destruct HS as (I2 & HB2 & R2).
    assert (B2 : B L s2).
    { split; [congruence|]. eapply BT_ext; [|eauto]. simpl. intros u. split.
      - intros [[Hu|Hu] Hn]; auto. exfalso. apply Hn. congruence.
      - intros Hu. split; auto. intros [= ->]. auto. }
    specialize (Hb s2 I2 B2). destruct (body s2) as [s3|s3|s3|s3|s3|w|]; try contradiction; auto.
    + destruct Hb. apply IH; auto.
    + destruct Hb as [I3 [R3 HB3]].
      pose proof (step_IDecref O it s3 L I3 HB3 Hit) as HD. unfold post in HD.
      destruct (step O (IDecref it) s3); try contradiction.
      * destruct HD as (a & b & c). split; auto. split; auto. congruence.
      * destruct HD; split; auto; congruence.
    + destruct Hb. apply IH; auto.
  - pose proof (step_IDecref O it s1 L I1 HB1 Hit) as HD. unfold post in HD.
    destruct (step O (IDecref it) s1); try contradiction.
    + destruct HD as (a & b & c). split; auto. split; auto. congruence.
    + destruct HD; split; auto; congruence.
Qed.

Lemma stmt_for : forall x e body, stmt_ok body -> stmt_ok (SFor x e body).
Proof.
  intros x e body IHb A c A' inl H W J. simpl in H, J.
  destruct (gen_expr e A) as [[ce r] A1] eqn:G. destruct (alloc A1) as [it A2] eqn:Al.
  destruct (alloc (release_all (tmp_of r) A2)) as [d A4] eqn:Al2.
  destruct (gen_stmt body (release d A4)) as [cb A6] eqn:Gb. injection H as <- <-.
  destruct (proj1 gen_ok e A ce r A1 G W) as (W1 & U1 & N1 & T1).
  destruct (alloc_ok _ _ _ Al W1) as (W2 & Nit & U2).
  destruct (release_all_ok (tmp_of r) A2 W2 (nodup_tmp_of r)) as (W3 & U3).
  { intros t Ht. apply in_tmp_of in Ht. apply U2. left. apply U1. auto. }
  destruct (alloc_ok _ _ _ Al2 W3) as (W4 & Nd & U4).
  destruct (release_ok A4 d W4) as (W5 & U5). { apply U4. auto. }
  destruct (IHb _ _ _ _ Gb W5 J) as (W6 & U6 & Sb).
  assert (HitA : ~ inuse A it). { intro Hx. apply Nit. apply U1. auto. }
  assert (U5' : forall u, inuse (release d A4) u <-> inuse A u \/ u = it).
  { intros u. rewrite U5, U4, U3, U2, U1, in_tmp_of. split.
    - intros [[[[[Hx|Hx]|Hx] Hn]|Hx] Hn2]; tauto.
    - intros [Hx|Hx].
      + split.
        * left. split; auto. intro Hr. apply (N1 u Hr); auto.
        * intro; subst. apply Nd. apply U3. split. apply U2. left. apply U1. auto.
          rewrite in_tmp_of. intro Hr. apply (N1 d Hr); auto.
      + subst. split.
        * left. split; auto. intro Hr. apply Nit. apply U1. auto.
        * intro; subst. apply Nd. apply U3. split. apply U2. auto.
          rewrite in_tmp_of. intro Hr. apply Nit. apply U1. auto. }
  destruct (release_ok A6 it W6) as (W7 & U7). { apply U6. apply U5'. auto. }
  split; auto. split.
  { intros u. rewrite U7, U6, U5'. split; [intros [[Hx|Hx] Hn]; tauto|].
    intros Hx. split; auto. intro; subst; auto. }
  intros O fuel. eapply sspec_cseq with (L1 := fun u => inuse A u \/ u = it).
  - eapply triple_ext; [|eapply triple_app with (L1 := fun u => inuse A u \/ r = RTmp u); [apply T1; auto|
      eapply triple_cons with (L1 := fun u => ((inuse A u \/ r = RTmp u) /\ ~ In u []) \/ u = it)]].
    2:{ apply triple_one. intros s I HB.
        apply (step_IOp O it [r] [] s (fun u => inuse A u \/ r = RTmp u)); auto.
        - intros t [Ht|[]]. subst; auto.
        - constructor.
        - intros t [].
        - intros [Hx|Hx]; auto. apply Nit. apply U1. auto. }
    2:{ apply triple_decrefs; [apply nodup_tmp_of|]. intros t Ht. apply in_tmp_of in Ht. left. split; auto. }
    simpl. intros u. rewrite in_tmp_of. split.
    + intros [[[[Hx|Hx] _]|Hx] Hn]; tauto.
    + intros [Hx|Hx].
      * split; [left; split; auto|]. intro Hr. apply (N1 u Hr); auto.
      * subst. split; auto. intro Hr. apply Nit. apply U1. auto.
  - intros s I HB. cbn [exec].
    pose proof (loop_ok O it d x (exec O fuel cb) (fun u => inuse A u \/ u = it) inl fuel) as HL.
    assert (Hd : ~ (inuse A d \/ d = it)).
    { intro Hx. apply Nd. apply U3. rewrite in_tmp_of. destruct Hx as [Hx|Hx].
      - split; [apply U2; left; apply U1; auto|]. intro Hr. apply (N1 d Hr); auto.
      - subst. split; [apply U2; auto|]. intro Hr. apply Nit. apply U1. auto. }
    specialize (HL (or_intror eq_refl) Hd).
    assert (Hbody : forall s0, Inv s0 -> B (fun u => inuse A u \/ u = it) s0 ->
       match exec O fuel cb s0 with
       | Norm s' => Inv s' /\ B (fun u => inuse A u \/ u = it) s'
       | Brk s' | Cnt s' => Inv s' /\ B (fun u => inuse A u \/ u = it) s'
       | Err s' => Inv s' /\ res s' = None
       | Ret s' => Inv s' /\ BT (fun _ => False) s'
       | Stuck _ => False
       | Fuel => True
       end).
    { intros s0 I0 B0. pose proof (sspec_ext O fuel true cb _ _ U5' (Sb O fuel) s0 I0 B0) as HS.
      destruct (exec O fuel cb s0); auto; tauto. }
    specialize (HL Hbody s I HB).
    destruct (loop_on O it d x (exec O fuel cb) fuel s); auto.
    + destruct HL; split; auto. eapply B_ext; [|eauto]. simpl. intros u. split; [intros [[Hx|Hx] Hn]; tauto|].
      intros Hx. split; auto. intro; subst; auto.
    + destruct HL as (a & b & c). split; auto. split; auto. eapply B_ext; [|eauto]. simpl. intros u.
      split; [intros [[Hx|Hx] Hn]; tauto|]. intros Hx. split; auto. intro; subst; auto.
    + destruct HL as (a & b & c). split; auto. split; auto. eapply B_ext; [|eauto]. simpl. intros u.
      split; [intros [[Hx|Hx] Hn]; tauto|]. intros Hx. split; auto. intro; subst; auto.
Qed.

Theorem gen_stmt_ok : forall st, stmt_ok st.
Proof.
  induction st.
  - apply stmt_skip. - apply stmt_seq; auto. - apply stmt_assign. - apply stmt_expr. - apply stmt_return.
  - apply stmt_store. - apply stmt_if; auto. - apply stmt_for; auto.
  - apply stmt_jump. - apply stmt_jump.
Qed.

(* ---------- function prologue / epilogue ---------- *)
Lemma temp_clear_ok : forall s k o, Inv s -> get k (temps s) = Some o ->
  exists s1, give o s = Some s1 /\ Inv (set_temps (rem k (temps s1)) s1) /\
    temps s1 = temps s /\ res s1 = res s /\ locs s1 = locs s.
Proof.
  intros s k o I G. pose proof (bound_pos _ _ _ I G) as Hp. rewrite (give_some _ _ Hp).
  eexists; split; [reflexivity|]. destruct I as [a b c d]. simpl. split; [|auto].
  constructor; simpl; auto.
  - apply nodup_rem; auto.
  - intros o'. rewrite c. pose proof (cnt_rem o' k o _ a G). simpl in *. lia.
  - apply errs_give; auto.
Qed.

Lemma loc_clear_ok : forall s k o, Inv s -> get k (locs s) = Some o ->
  exists s1, give o s = Some s1 /\ Inv (set_locs (rem k (locs s1)) s1) /\
    temps s1 = temps s /\ res s1 = res s /\ locs s1 = locs s.
Proof.
  intros s k o I G. pose proof (loc_pos _ _ _ I G) as Hp. rewrite (give_some _ _ Hp).
  eexists; split; [reflexivity|]. destruct I as [a b c d]. simpl. split; [|auto].
  constructor; simpl; auto.
  - apply nodup_rem; auto.
  - intros o'. rewrite c. pose proof (cnt_rem o' k o _ b G). simpl in *. lia.
  - apply errs_give; auto.
Qed.

Lemma sweep_temps_ok : forall ks s, Inv s ->
  exists s', sweep temps set_temps ks s = Norm s' /\ Inv s' /\ res s' = res s /\ locs s' = locs s /\
    (forall u, In u ks -> get u (temps s') = None) /\
    (forall u, get u (temps s) = None -> get u (temps s') = None).
Proof.
  induction ks as [|k ks IH]; intros s I; cbn [sweep].
  - exists s. split; [auto|]. split; [auto|]. split; [auto|]. split; [auto|]. split; [intros u []|auto].
  - destruct (get k (temps s)) as [o|] eqn:G.
    + destruct (temp_clear_ok s k o I G) as (s1 & E1 & I1 & T1 & R1 & L1). rewrite E1.
      destruct (IH _ I1) as (s2 & E2 & I2 & R2 & L2 & H1 & H2). exists s2. rewrite E2.
      simpl in R2, L2, H2. split; auto. split; auto. split; [congruence|]. split; [congruence|]. split.
      * intros u [<-|Hu]; auto. apply H2. apply get_rem_same.
      * intros u Hu. apply H2. destruct (Nat.eq_dec u k); [subst; apply get_rem_same|].
        rewrite get_rem_other; auto. congruence.
    + destruct (IH _ I) as (s2 & E2 & I2 & R2 & L2 & H1 & H2). exists s2. rewrite E2.
      split; [auto|]. split; [auto|]. split; [auto|]. split; [auto|]. split; [|auto].
      intros u [<-|Hu]; auto.
Qed.

Lemma sweep_locs_ok : forall ks s, Inv s ->
  exists s', sweep locs set_locs ks s = Norm s' /\ Inv s' /\ res s' = res s /\ temps s' = temps s /\
    (forall u, In u ks -> get u (locs s') = None) /\
    (forall u, get u (locs s) = None -> get u (locs s') = None).
Proof.
  induction ks as [|k ks IH]; intros s I; cbn [sweep].
  - exists s. split; [auto|]. split; [auto|]. split; [auto|]. split; [auto|]. split; [intros u []|auto].
  - destruct (get k (locs s)) as [o|] eqn:G.
    + destruct (loc_clear_ok s k o I G) as (s1 & E1 & I1 & T1 & R1 & L1). rewrite E1.
      destruct (IH _ I1) as (s2 & E2 & I2 & R2 & L2 & H1 & H2). exists s2. rewrite E2.
      simpl in R2, L2, H2. split; auto. split; auto. split; [congruence|]. split; [congruence|]. split.
      * intros u [<-|Hu]; auto. apply H2. apply get_rem_same.
      * intros u Hu. apply H2. destruct (Nat.eq_dec u k); [subst; apply get_rem_same|].
        rewrite get_rem_other; auto. congruence.
    + destruct (IH _ I) as (s2 & E2 & I2 & R2 & L2 & H1 & H2). exists s2. rewrite E2.
      split; [auto|]. split; [auto|]. split; [auto|]. split; [auto|]. split; [|auto].
      intros u [<-|Hu]; auto.
Qed.

Lemma swept_nil : forall m m', (forall u, In u (seq 0 (kbound m)) -> get u m' = None) ->
  (forall u, get u m = None -> get u m' = None) -> m' = [].
Proof.
  intros m m' H1 H2. apply all_none_nil. intros k.
  destruct (get k m) eqn:G; [|auto]. apply H1. apply in_seq. apply get_kbound in G. lia.
Qed.

Definition clean (s : state) : Prop :=
  temps s = [] /\ locs s = [] /\ res s = None /\ (forall o, bal (tr s) o = 0) /\ nanny_errs (tr s) = 0.

Lemma epilogue_ok : forall b s, Inv s -> temps s = [] ->
  match epilogue b s with Done _ s' => clean s' | _ => False end.
Proof.
  intros b s I Ht. unfold epilogue.
  destruct (sweep_locs_ok (seq 0 (kbound (locs s))) s I) as (s1 & E1 & I1 & R1 & T1 & H1 & H2).
  rewrite E1. assert (Ll : locs s1 = []) by (eapply swept_nil; eauto).
  assert (Tt : temps s1 = []) by congruence.
  destruct I1 as [a b0 c d]. destruct (res s1) as [o|] eqn:Rr.
  - assert (Hp : 1 <= bal (tr s1) o). { rewrite c. simpl. rewrite Nat.eqb_refl. lia. }
    rewrite (give_some _ _ Hp). unfold clean. simpl. split; [auto|]. split; [auto|]. split; [auto|]. split.
    + intros o'. rewrite c, Tt, Ll. simpl. lia.
    + destruct (Nat.eqb (bal (tr s1) o) 0) eqn:E; [apply Nat.eqb_eq in E; lia|]. auto.
  - unfold clean. split; [auto|]. split; [auto|]. split; [auto|]. split; [|auto].
    intros o'. rewrite c, Tt, Ll. simpl. auto.
Qed.

Lemma BT_empty_nil : forall (L : nat -> Prop) s, (forall u, ~ L u) -> BT L s -> temps s = [].
Proof.
  intros L s HL HB. apply all_none_nil. intros k. destruct (get k (temps s)) eqn:G; auto.
  exfalso. apply (HL k). apply HB. unfold bound. congruence.
Qed.

Lemma Inv_init : forall n, Inv (init n).
Proof. intros n. constructor; simpl; auto; constructor. Qed.

Lemma error_path_ok : forall s, Inv s -> res s = None ->
  match sweep temps set_temps (seq 0 (kbound (temps s))) s with
  | Norm s1 => match res s1 with None => match epilogue false s1 with Done _ s' => clean s' | _ => False end
                               | Some _ => False end
  | _ => False
  end.
Proof.
  intros s I Rn. destruct (sweep_temps_ok (seq 0 (kbound (temps s))) s I) as (s1 & E1 & I1 & R1 & L1 & H1 & H2).
  rewrite E1. rewrite R1, Rn. apply epilogue_ok; auto. eapply swept_nil; eauto.
Qed.

Lemma weaken_final : forall f, match f with Done _ s' => clean s' | _ => False end ->
  match f with Done _ s => clean s | FStuck _ => False | FFuel => True end.
Proof. intros [b s|w|]; auto. Qed.

Theorem balanced_all : forall body O fuel nargs none, jumps_ok false body = true ->
  match run_fun O fuel nargs (gen_fun none body) with
  | Done _ s => clean s
  | FStuck _ => False
  | FFuel => True
  end.
Proof.
  intros body O fuel nargs none J. unfold run_fun, gen_fun.
  destruct (gen_stmt body A0) as [c A'] eqn:G. cbn [fst exec].
  assert (W0 : wfA A0) by (split; [constructor|intros t []]).
  destruct (gen_stmt_ok body A0 c A' false G W0 J) as (_ & _ & S).
  assert (E0 : forall u, ~ inuse A0 u) by (intros u [H _]; simpl in H; lia).
  assert (B0 : B (inuse A0) (init nargs)).
  { split; auto. intros u. unfold bound. simpl. split; [congruence|]. intro H; exfalso; eapply E0; eauto. }
  specialize (S O fuel (init nargs) (Inv_init nargs) B0).
  destruct (exec O fuel c (init nargs)) as [s1|s1|s1|s1|s1|w|]; cbn [bind]; try contradiction; auto.
  - destruct S as [I1 B1].
    assert (Hside : forall t, RArg none = RTmp t -> inuse A0 t) by (intros; discriminate).
    pose proof (step_ISetRes O (RArg none) s1 (inuse A0) I1 B1 Hside) as HS.
    destruct (step O (ISetRes (RArg none)) s1) as [s2|s2|s2|s2|s2|w|]; try contradiction.
    + destruct HS as [I2 B2]. apply weaken_final, epilogue_ok; auto.
      eapply BT_empty_nil; [|eauto]. intros u [Hu _]. eapply E0; eauto.
    + destruct HS as [I2 R2]. apply weaken_final. pose proof (error_path_ok _ I2 R2) as HE.
      destruct (sweep temps set_temps (seq 0 (kbound (temps s2))) s2); auto. destruct (res s); auto.
  - destruct S as [I1 R1]. apply weaken_final. pose proof (error_path_ok _ I1 R1) as HE. destruct (sweep temps set_temps (seq 0 (kbound (temps s1))) s1); auto. destruct (res s); auto.
  - destruct S as [I1 B1]. apply weaken_final, epilogue_ok; auto. eapply BT_empty_nil; [|eauto]. auto.
  - destruct S; discriminate.
  - destruct S; discriminate.
Qed.

(* ---------- the with statement ---------- *)
Lemma rds_tmps_bound : forall l s, rds s (map RTmp l) = RsUnbound -> False.
Proof.
  induction l as [|a l IH]; simpl; intros s H; [discriminate|].
  destruct (get a (temps s)) as [o|]; [|discriminate].
  destruct (Nat.eqb (bal (tr s) o) 0); [discriminate|].
  destruct (rds s (map RTmp l)) eqn:E; try discriminate. eapply IH; eauto.
Qed.

(* a reference held by the emitted code itself (unmanaged temp) between its GOTREF and its DECREF *)
Lemma transient_ok : forall s o s', Inv s -> temps s' = temps s -> locs s' = locs s -> res s' = res s ->
  tr s' = Got o :: tr s ->
  exists s5, give o s' = Some s5 /\ Inv s5 /\ temps s5 = temps s /\ res s5 = res s /\ flag s5 = flag s'.
Proof.
  intros s o s' [a b c d] Ht Hl Hr Htr.
  assert (G : give o s' = Some (set_tr (Give o :: tr s') s')).
  { unfold give. rewrite Htr. simpl. rewrite Nat.eqb_refl. reflexivity. }
  eexists; split; [exact G|]. simpl. split; [|auto].
  constructor; simpl; rewrite ?Ht, ?Hl, ?Hr; auto.
  - intros o'. rewrite Htr. simpl. rewrite <- c. destruct (Nat.eqb o o'); lia.
  - rewrite Htr. simpl. rewrite Nat.eqb_refl. simpl. auto.
Qed.

Lemma BT_temps : forall L s s', temps s' = temps s -> BT L s -> BT L s'.
Proof. intros L s s' H HB u. unfold bound. rewrite H. apply HB. Qed.

(* the __exit__ call as it is emitted: on every outcome (call fails / truth test fails / answers) exactly
   exit_var and the args tuple have been released and nothing else is owned *)
Lemma exit_call_ok : forall O test te args s L, Inv s -> BT L s -> NoDup (te :: args) ->
  (forall t, In t (te :: args) -> L t) ->
  match exit_call O false test te args s with
  | Norm s' | Err s' => Inv s' /\ BT (fun u => L u /\ ~ In u (te :: args)) s' /\ res s' = res s
  | _ => False
  end.
Proof.
  intros O test te args s L I HB Hnd Hin. unfold exit_call.
  destruct (rds_ok (map RTmp (te :: args)) s L I HB) as [[os E]|E].
  { intros t Ht. apply in_map_iff in Ht. destruct Ht as (t' & [= ->] & Ht'). auto. }
  2:{ exfalso. eapply rds_tmps_bound; eauto. }
  rewrite E.
  assert (It : Inv (tick s)) by (eapply Inv_same; eauto; apply same_tick).
  assert (Bt : BT L (tick s)) by (eapply BT_same; eauto; apply same_tick).
  destruct (decref_all_ok (te :: args) (tick s) L It Bt Hnd Hin) as (s2 & E2 & I2 & B2 & R2).
  rewrite E2. cbn [bind]. simpl in R2. destruct (fail O (calls s)); [split; [auto|split; auto]|].
  set (o := nxt s2). destruct test.
  - destruct (transient_ok s2 o (tick (got o (fresh s2))) I2) as (s5 & E5 & I5 & T5 & R5 & F5); try reflexivity.
    rewrite E5. destruct (fail O (calls (got o (fresh s2)))).
    + split; [auto|]. split; [eapply BT_temps; eauto|congruence].
    + split; [apply Inv_flag; auto|]. split; [apply BT_flag; eapply BT_temps; eauto|]. simpl. congruence.
  - destruct (transient_ok s2 o (got o (fresh s2)) I2) as (s5 & E5 & I5 & T5 & R5 & F5); try reflexivity.
    rewrite E5. split; [auto|]. split; [eapply BT_temps; eauto|congruence].
Qed.

(* the variant with the error test in front of the DECREF of result_var loses that reference when the truth
   test fails: witness = exit_var in temp 0, args tuple in temp 1, the call succeeds, the truth test raises *)
Definition wit_state : state :=
  mk [(1, 11); (0, 10)] [] None [Got 11; Got 10] 12 0 0 false.
Definition wit_orc : orc := orc_of (Some 1) [].
Lemma wit_state_inv : Inv wit_state.
Proof. constructor; simpl; auto. - repeat constructor; simpl; intuition discriminate. - constructor.
  - intros o. destruct o as [|[|[|[|[|[|[|[|[|[|[|[|o]]]]]]]]]]]]; reflexivity. Qed.
Lemma exit_call_late_leaks :
  exists s', exit_call wit_orc true true 0 [1] wit_state = Err s' /\
             temps s' = [] /\ locs s' = [] /\ res s' = None /\ bal (tr s') 12 = 1.
Proof. eexists. split; [vm_compute; reflexivity|]. vm_compute. auto. Qed.
Lemma exit_call_asis_same_input :
  exists s', exit_call wit_orc false true 0 [1] wit_state = Err s' /\
             temps s' = [] /\ (forall o, bal (tr s') o = 0).
Proof.
  pose proof (exit_call_ok wit_orc true 0 [1] wit_state (fun u => u = 0 \/ u = 1) wit_state_inv) as H.
  eexists. split; [vm_compute; reflexivity|]. split; [reflexivity|].
  intros o. destruct o as [|[|[|[|[|[|[|[|[|[|[|[|[|o]]]]]]]]]]]]]; reflexivity.
Qed.

(* the same at statement level: "with a: <body that raises>" where __exit__ returns an object whose truth test
   raises (calls: 0 = __enter__, 1 = __exit__, 2 = the truth test) *)
Definition wit_with (late : bool) : result :=
  with_stat (orc_of (Some 2) []) late (RArg 0) 0 1 2 3 4 5 None [] (fun s => Err s) (init 5).
Lemma with_late_leaks :
  exists s', (wit_with true = Err s') /\ (bal (tr s') 11 = 1) /\ (cnt 11 (temps s') = 0) /\
             (cnt 11 (locs s') = 0) /\ (res s' = None).
Proof. eexists. split; [vm_compute; reflexivity|]. vm_compute. auto. Qed.
Lemma with_asis_same_input :
  exists s', (wit_with false = Err s') /\
             (forallb (fun o => Nat.eqb (bal (tr s') o) (cnt o (temps s'))) (seq 0 20) = true) /\
             (length (tr s') = 11).
Proof. eexists. split; [vm_compute; reflexivity|]. vm_compute. auto. Qed.
